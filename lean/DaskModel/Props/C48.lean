import DaskModel.Model.BagOps
import DaskModel.Model.BagShuffle
import DaskModel.Lemmas.BagReduce
import DaskModel.Lemmas.BagOps
import DaskModel.Lemmas.BagShuffle
import DaskModel.Lemmas.BagShufflePerm
import DaskModel.Lemmas.SubMultiset
import DaskModel.Lemmas.BagFoldby
import DaskModel.Lemmas.BagTopk
import DaskModel.Lemmas.BagOps2
/-! # C48 — bag operations equal their Python reference (theorems) -/
namespace Dask.C48
open Dask.BagReduce Dask.BagOps Dask.BagShuffle Dask.TextBlocks

variable {α β : Type}

/-- **`bag_reduction_eq`**: if `h` is a list homomorphism with combiner `agg`
    (`agg (qs.map h) = h qs.flatten` for every list of lists), then `Bag.reduction(h, agg, split_every)`
    returns `h` of the concatenated sequence — for every `split_every ≥ 2`, every partitioning and every
    pattern of empty partitions. In particular the result does not depend on `split_every`. -/
theorem bag_reduction_eq (h : List α → β) (agg : List β → β)
    (hom : ∀ qs : List (List α), agg (qs.map h) = h qs.flatten)
    (se : Nat) (hse : 2 ≤ se) (b : Bag α) : reduction h agg se b = some (h (den b)) := by
  have hsome := reductionIx_isSome (fun _ => h) (fun _ _ => agg) se hse b
  obtain ⟨r, hr⟩ := Option.isSome_iff_exists.mp hsome
  have := reductionIx_inv (fun q r => r = h q) (fun _ => h) (fun _ _ => agg) (fun _ _ => rfl)
    (by
      intro d i qs rs hall
      have : rs = qs.map h := by
        induction hall with
        | nil => rfl
        | cons hab _ ih => simp [hab, ih]
      rw [this]; exact hom qs) se b r hr
  simp only [reduction, hr, this, den]

theorem split_every_irrelevant (h : List α → β) (agg : List β → β)
    (hom : ∀ qs : List (List α), agg (qs.map h) = h qs.flatten)
    (se se' : Nat) (hse : 2 ≤ se) (hse' : 2 ≤ se') (b : Bag α) : reduction h agg se b = reduction h agg se' b := by
  rw [bag_reduction_eq h agg hom se hse, bag_reduction_eq h agg hom se' hse']


/-! ## fold -/

/-- **`bag_fold_eq`**: when `binop/combine/initial` form a homomorphism
    (`foldl binop init (q₁ ++ q₂) = combine (foldl binop init q₁) (foldl binop init q₂)`, e.g. `combine`
    a monoid with unit `init` and `binop acc x = combine acc (g x)`), `Bag.fold(binop, combine, init)` is
    the sequential `functools.reduce(binop, seq, init)` — for every partitioning (all partitions empty
    included: the repaired #25) and every `split_every ≥ 2`. -/
theorem bag_fold_eq (binop : β → α → β) (combine : β → β → β) (init : β)
    (hom : ∀ q₁ q₂ : List α, (q₁ ++ q₂).foldl binop init = combine (q₁.foldl binop init) (q₂.foldl binop init))
    (se : Nat) (hse : 2 ≤ se) (b : Bag α) : foldB binop combine init se b = some ((den b).foldl binop init) := by
  apply bag_reduction_eq _ _ _ se hse b
  intro qs
  cases qs with
  | nil => rfl
  | cons q qs =>
    simp only [List.map_cons, List.flatten_cons]
    induction qs generalizing q with
    | nil => simp
    | cons q' qs ih =>
      simp only [List.map_cons, List.foldl_cons, List.flatten_cons]
      rw [← hom q q', ← List.append_assoc]
      have := ih (q ++ q')
      simpa using this

/-- the standard sufficient condition for the homomorphism hypothesis: `combine` a monoid with unit
    `init`, `binop acc x = combine acc (g x)` (sum, product, max with a bottom, set union, …) -/
theorem fold_hom_of_monoid (combine : β → β → β) (init : β) (g : α → β)
    (assoc : ∀ a b c, combine (combine a b) c = combine a (combine b c))
    (unitL : ∀ a, combine init a = a) (unitR : ∀ a, combine a init = a) (q₁ q₂ : List α) :
    (q₁ ++ q₂).foldl (fun acc x => combine acc (g x)) init =
      combine (q₁.foldl (fun acc x => combine acc (g x)) init) (q₂.foldl (fun acc x => combine acc (g x)) init) := by
  have key : ∀ (q : List α) (a : β), q.foldl (fun acc x => combine acc (g x)) a =
      combine a (q.foldl (fun acc x => combine acc (g x)) init) := by
    intro q
    induction q with
    | nil => intro a; simp [unitR]
    | cons x q ih =>
      intro a
      simp only [List.foldl_cons]
      rw [ih (combine a (g x)), ih (combine init (g x)), unitL, assoc]
  rw [List.foldl_append, key q₂]

example : foldB (· + ·) (· + ·) (0 : Int) 2 [[], [], []] = some 0 := by decide
example : foldB (· + ·) (· + ·) (0 : Int) 2 [[1, 2], [], [3], [4], [5]] = some 15 := by decide

/-- `Bag.sum` is the sum of the concatenated sequence -/
theorem bag_sum_eq (se : Nat) (hse : 2 ≤ se) (b : Bag Int) : sumB se b = some ((den b).foldl (· + ·) 0) := by
  apply bag_reduction_eq _ _ _ se hse b
  intro qs
  induction qs with
  | nil => rfl
  | cons q qs ih =>
    simp only [List.map_cons, List.foldl_cons, List.flatten_cons, List.foldl_append]
    have h1 : ∀ (l : List Int) (a : Int), l.foldl (· + ·) a = a + l.foldl (· + ·) 0 := by
      intro l; induction l with
      | nil => intro a; simp
      | cons x l ih2 => intro a; simp only [List.foldl_cons]; rw [ih2 (a + x), ih2 (0 + x)]; omega
    rw [h1 _ (0 + _), h1 qs.flatten, ← ih]; omega

/-- `Bag.count` is the length of the concatenated sequence -/
theorem bag_count_eq (se : Nat) (hse : 2 ≤ se) (b : Bag α) : countB se b = some (den b).length := by
  apply bag_reduction_eq _ _ _ se hse b
  intro qs
  induction qs with
  | nil => rfl
  | cons q qs ih =>
    simp only [List.map_cons, List.foldl_cons, List.flatten_cons, List.length_append]
    have h1 : ∀ (l : List Nat) (a : Nat), l.foldl (· + ·) a = a + l.foldl (· + ·) 0 := by
      intro l; induction l with
      | nil => intro a; simp
      | cons x l ih2 => intro a; simp only [List.foldl_cons]; rw [ih2 (a + x), ih2 (0 + x)]; omega
    rw [h1 _ (0 + _), ← ih]; omega

/-! ## per-partition maps (row-local operations) -/

theorem bag_map_den (f : α → β) (b : Bag α) : den (mapB f b) = (den b).map f := by
  simp [den, mapB, List.map_flatten]
theorem bag_filter_den (p : α → Bool) (b : Bag α) : den (filterB p b) = (den b).filter p := by
  simp [den, filterB, List.filter_flatten]
theorem bag_remove_den (p : α → Bool) (b : Bag α) : den (removeB p b) = (den b).filter (fun x => !p x) := by
  simp [den, removeB, List.filter_flatten]
theorem bag_flatten_den (b : Bag (List α)) : den (flattenB b) = (den b).flatten := by
  simp [den, flattenB, List.flatten_flatten]
/-- `map_partitions(g)` equals `g` of the whole sequence exactly when `g` distributes over concatenation -/
theorem bag_map_partitions_den (g : List α → List β) (hg : ∀ qs : List (List α), (qs.map g).flatten = g qs.flatten)
    (b : Bag α) : den (mapPartitionsB g b) = g (den b) := hg b
theorem bag_concat_den (bs : List (Bag α)) : den (concatB bs) = (bs.map den).flatten := by
  simp only [den, concatB, List.flatten_flatten]; rfl

/-! ## accumulate -/

/-- **`accumulate_eq_itertools`**: the partitions of `Bag.accumulate(binop[, initial])` concatenate to
    `itertools.accumulate(seq, binop[, initial=…])` — for every binop (no algebraic assumption), every
    partitioning with at least one partition, empty partitions anywhere (the repaired defect: an empty
    first partition without initial). -/
theorem accumulate_eq_itertools (binop : α → α → α) (init : Option α) (b : Bag α) (hb : b ≠ []) :
    den (accumulateB binop init b) = pyAccumulate binop init (den b) := by
  cases init with
  | none => exact accumulateGo_none binop true b
  | some a => exact accumulateGo_first_some binop a b hb

example : accumulateB (· + ·) none [[], [1, 2], [], [3]] = [[], [1, 3], [], [6]] := by decide
example : accumulateB (fun a x => a - x) (some 10) [[], [1, 2]] = [[10], [9, 7]] := by decide

/-! ## take -/

theorem take_flatten_map_take (k k' : Nat) (hk : k' ≤ k) (bs : List (List α)) :
    ((bs.map (List.take k)).flatten).take k' = bs.flatten.take k' := by
  induction bs generalizing k' with
  | nil => rfl
  | cons p ps ih =>
    simp only [List.map_cons, List.flatten_cons, List.take_append, List.take_take, List.length_take]
    rw [Nat.min_eq_left hk]
    congr 1
    by_cases h : p.length ≤ k
    · rw [Nat.min_eq_right h]; exact ih (k' - p.length) (by omega)
    · have h1 : k' - min k p.length = 0 := by omega
      have h2 : k' - p.length = 0 := by omega
      rw [h1, h2]; simp

/-- **`take_eq_islice`**: `take(k, npartitions=-1)` is the first `k` elements of the sequence;
    `take(k, npartitions=n)` the first `k` elements of the first `n` partitions (at least one) -/
theorem take_eq_islice (k : Nat) (b : Bag α) : takeB k none b = some ((den b).take k) := by
  simp only [takeB, Option.getD_none, Nat.lt_irrefl, if_false]
  split
  · simp [List.take_length, take_flatten_map_take k k (Nat.le_refl k), den]
  · next h =>
    have : b.length ≤ 1 := by omega
    match b, this with
    | [], _ => simp [den]
    | [p], _ => simp [den]

theorem take_first_partitions (k n : Nat) (b : Bag α) (hn : n ≤ b.length) :
    takeB k (some n) b = some ((b.take (max n 1)).flatten.take k) := by
  simp only [takeB, Option.getD_some, show ¬ b.length < n by omega, if_false]
  split
  · next h =>
    rw [take_flatten_map_take k k (Nat.le_refl k), show max n 1 = n by omega]
  · next h =>
    have : max n 1 = 1 := by omega
    rw [this]
    cases b <;> simp

/-- more partitions requested than exist: ValueError -/
theorem take_too_many (k n : Nat) (b : Bag α) (hn : b.length < n) : takeB k (some n) b = none := by
  simp [takeB, hn]

/-! ## repartition -/

theorem boundariesFewer_spec (n m : Nat) (hm : 0 < m) :
    (boundariesFewer n m).head? = some 0 ∧ (boundariesFewer n m).getLast? = some n ∧
    (boundariesFewer n m).Pairwise (· ≤ ·) ∧ (boundariesFewer n m).length = m + 1 := by
  refine ⟨?_, ?_, ?_, by simp [boundariesFewer]⟩
  · simp [boundariesFewer, List.range_succ_eq_map]
  · simp [boundariesFewer, List.range_succ, Nat.mul_div_cancel_left n hm]
  · simp only [boundariesFewer, List.pairwise_map]
    apply List.Pairwise.imp _ (List.pairwise_lt_range)
    intro i j hij
    exact Nat.div_le_div_right (Nat.mul_le_mul_right n (Nat.le_of_lt hij))

/-- **`repartition_den` (fewer)**: repartitioning to `m < n` partitions keeps the sequence and yields
    exactly `m` partitions (the repaired defect: floats gave `m + 1` for e.g. 15 → 11) -/
theorem repartition_fewer (cuts : Nat → List Nat) (m : Nat) (hm : 0 < m) (b : Bag α) (hlt : m < b.length) :
    den (repartitionB cuts m b) = den b ∧ (repartitionB cuts m b).length = m := by
  obtain ⟨h0, hl, hpw, hlen⟩ := boundariesFewer_spec b.length m hm
  have hfix : fixBoundaries b.length (boundariesFewer b.length m) = boundariesFewer b.length m := by
    simp only [fixBoundaries]
    cases hbs : boundariesFewer b.length m with
    | nil => simp [hbs] at hlen
    | cons x xs =>
      rw [hbs] at h0 hl
      have hx : x = 0 := by simpa using h0
      subst hx
      have hlast : (0 :: xs).getLastD 0 = b.length := by
        rw [List.getLastD_eq_getLast?, hl]; rfl
      have hh : ¬ (0 < (0 :: xs).headD 0) := by simp
      simp only [hh, if_false, hlast, Nat.lt_irrefl]
  simp only [repartitionB, show m ≠ b.length by omega, if_false, hlt, if_true, hfix]
  cases hbs : boundariesFewer b.length m with
  | nil => simp [hbs] at hlen
  | cons x xs =>
    rw [hbs] at h0 hl hpw hlen
    have hx : x = 0 := by simpa using h0
    subst hx
    refine ⟨?_, by rw [fromBoundaries_length]; simp at hlen ⊢; omega⟩
    simp only [den]
    rw [fromBoundaries_flatten b 0 xs hpw]
    have : (0 :: xs).getLast (by simp) = b.length := by
      have := List.getLast?_eq_some_getLast (l := 0 :: xs) (by simp)
      rw [hl] at this
      exact (Option.some.inj this).symm
    rw [this]; simp

theorem sum_replicate_nat (k v : Nat) : (List.replicate k v).sum = k * v := by
  induction k with
  | zero => simp
  | succ k ih => simp [List.replicate_succ, ih, Nat.add_mul]; omega

theorem nsplitsMore_sum (n m : Nat) (hn : 0 < n) : (nsplitsMore n m).sum = m ∧ (nsplitsMore n m).length = n := by
  constructor
  · simp only [nsplitsMore, List.sum_append, sum_replicate_nat, List.sum_cons, List.sum_nil]
    have := Nat.div_add_mod m n
    obtain ⟨n', rfl⟩ : ∃ n', n = n' + 1 := ⟨n - 1, by omega⟩
    simp only [Nat.add_sub_cancel]
    rw [Nat.add_mul, Nat.one_mul] at this
    omega
  · simp [nsplitsMore]; omega

theorem splitPieces_spec (cuts : Nat → List Nat) (l : List (List α × Nat)) (s : Nat)
    (hc : ∀ i, ∃ rest, cuts i = 0 :: rest ∧ (0 :: rest).Pairwise (· ≤ ·))
    (hlen : ∀ i (h : i < l.length), (cuts (s + i)).length = l[i].2) :
    (((l.zipIdx s).map fun pni => if pni.1.2 = 1 then [pni.1.1] else splitWith (cuts pni.2) pni.1.1).flatten).flatten
        = (l.map (·.1)).flatten ∧
    ((l.zipIdx s).map fun pni => if pni.1.2 = 1 then [pni.1.1] else splitWith (cuts pni.2) pni.1.1).flatten.length
        = (l.map (·.2)).sum := by
  induction l generalizing s with
  | nil => simp
  | cons pk l ih =>
    obtain ⟨p, k⟩ := pk
    have ih' := ih (s + 1) (by
      intro i h
      have := hlen (i + 1) (by simp; omega)
      simpa [Nat.add_assoc, Nat.add_comm 1 i] using this)
    have h0 := hlen 0 (by simp)
    simp only [Nat.add_zero, List.getElem_cons_zero] at h0
    obtain ⟨rest, hcs, hpw⟩ := hc s
    simp only [List.zipIdx_cons, List.map_cons, List.flatten_cons, List.flatten_append, List.length_append, List.sum_cons]
    rw [ih'.1, ih'.2]
    by_cases hk : k = 1
    · simp [hk]
    · simp only [hk, if_false]
      rw [hcs, splitWith_flatten 0 rest p hpw, splitWith_length, ← hcs, h0]
      simp

/-- **`repartition_den` (more)**: repartitioning to `m > n` partitions keeps the sequence and yields
    exactly `m` partitions — for ANY cut points inside the partitions that are non-decreasing and start at
    0 (the code computes them in floating point as `int(len / k * i)`; nothing else about them matters) -/
theorem repartition_more (cuts : Nat → List Nat) (m : Nat) (b : Bag α) (hb : 0 < b.length) (hlt : b.length < m)
    (hc : ∀ i, ∃ rest, cuts i = 0 :: rest ∧ (0 :: rest).Pairwise (· ≤ ·))
    (hlen : ∀ i (h : i < (nsplitsMore b.length m).length), (cuts i).length = (nsplitsMore b.length m)[i]) :
    den (repartitionB cuts m b) = den b ∧ (repartitionB cuts m b).length = m := by
  obtain ⟨hsum, hnl⟩ := nsplitsMore_sum b.length m hb
  simp only [repartitionB, show m ≠ b.length by omega, if_false, show ¬ m < b.length by omega, splitPartitions]
  have hzl : (b.zip (nsplitsMore b.length m)).length = b.length := by simp [hnl]
  have := splitPieces_spec cuts (b.zip (nsplitsMore b.length m)) 0 hc (by
    intro i h
    have hi : i < (nsplitsMore b.length m).length := by rw [hnl]; omega
    simp only [Nat.zero_add, List.getElem_zip]
    exact hlen i hi)
  refine ⟨?_, ?_⟩
  · simp only [den]
    rw [this.1, List.map_fst_zip (by rw [hnl]; exact Nat.le_refl _)]
  · rw [this.2, List.map_snd_zip (by rw [hnl]; exact Nat.le_refl _), hsum]

/-- same number of partitions: the bag itself -/
theorem repartition_same (cuts : Nat → List Nat) (b : Bag α) : repartitionB cuts b.length b = b := by
  simp [repartitionB]

/-! ## product, zip -/

theorem flatMap_append_perm {γ : Type} (p : List α) (f g : α → List γ) :
    (p.flatMap fun x => f x ++ g x).Perm (p.flatMap f ++ p.flatMap g) := by
  induction p with
  | nil => simp
  | cons x xs ih =>
    simp only [List.flatMap_cons]
    have h1 : (f x ++ g x ++ List.flatMap (fun x => f x ++ g x) xs).Perm (f x ++ g x ++ (xs.flatMap f ++ xs.flatMap g)) :=
      List.Perm.append_left _ ih
    refine h1.trans ?_
    simp only [List.append_assoc]
    apply List.Perm.append_left
    rw [← List.append_assoc, ← List.append_assoc]
    exact List.Perm.append_right _ List.perm_append_comm

/-- `product`: partition `i * m + j` holds `itertools.product(part_i, part_j)`; as a multiset the result is
    the product of the sequences (bags promise no order here) -/
theorem bag_product_perm (a : Bag α) (b : Bag β) :
    (den (productB a b)).Perm ((den a).flatMap fun x => (den b).map fun y => (x, y)) := by
  simp only [den, productB]
  induction a with
  | nil => simp
  | cons p ps ih =>
    simp only [List.flatMap_cons, List.flatten_append, List.flatten_cons, List.flatMap_append]
    refine List.Perm.append ?_ ih
    clear ih
    induction b with
    | nil => simp
    | cons q qs ihq =>
      simp only [List.map_cons, List.flatten_cons]
      have hsplit := flatMap_append_perm p (fun x => q.map fun y => (x, y)) (fun x => qs.flatten.map fun y => (x, y))
      simp only [← List.map_append] at hsplit
      exact (List.Perm.append_left _ ihq).trans hsplit.symm

/-- `zip` of two bags with the same number of partitions and equal partition lengths is `zip` of the sequences -/
theorem bag_zip_den (a : Bag α) (b : Bag β) (hl : a.length = b.length)
    (hp : ∀ i (h : i < a.length), a[i].length = (b[i]'(by omega)).length) :
    ∃ z, zipB a b = some z ∧ den z = (den a).zip (den b) := by
  refine ⟨List.zipWith List.zip a b, by simp [zipB, hl], ?_⟩
  simp only [den]
  induction a generalizing b with
  | nil => cases b <;> simp_all
  | cons p ps ih =>
    cases b with
    | nil => simp at hl
    | cons q qs =>
      have h0 : p.length = q.length := hp 0 (by simp)
      simp only [List.zipWith_cons_cons, List.flatten_cons]
      rw [ih qs (by simpa using hl) (by
        intro i h
        have := hp (i + 1) (by simp; omega)
        simpa using this)]
      exact (List.zip_append h0).symm

/-! ## groupby: the staged task shuffle (`groupby_tasks`)

`k`, `stages` are parameters (the code computes them with `math.log` and `**`); the only thing the
theorems need is `npartitions ≤ k ^ stages` — validated by the harness for the computed values. -/

theorem shuffle_length (k stages : Nat) (parts : List (List (Nat × α))) : (shuffle k stages parts).length = k ^ stages := by
  simp only [shuffle]
  exact stagesFrom_length _ _ _ _ _ (by simp [start])

/-- **`staged_route`**: after all stages an element sits in partition `hash % k^stages` -/
theorem staged_route (k stages : Nat) (hk : 0 < k) (parts : List (List (Nat × α))) (t : Nat) (e : Nat × α)
    (he : e ∈ (shuffle k stages parts).getD t []) : t < k ^ stages ∧ e.1 % k ^ stages = t := by
  have := LowInv_stagesFrom k (k ^ stages) hk stages 0 _ (LowInv_start k (k ^ stages) parts) t e
    (by simpa [shuffle] using he)
  obtain ⟨h1, h2⟩ := this
  rw [Nat.zero_add] at h2
  exact ⟨h1, by rw [h2, Nat.mod_eq_of_lt h1]⟩

/-- **nothing is lost**: every element of every input partition arrives (in partition `hash % k^stages`) -/
theorem shuffle_complete (k stages : Nat) (hk : 0 < k) (parts : List (List (Nat × α)))
    (hlen : parts.length ≤ k ^ stages) (p : Nat) (hp : p < parts.length) (e : Nat × α) (he : e ∈ parts.getD p []) :
    e ∈ (shuffle k stages parts).getD (e.1 % k ^ stages) [] := by
  have := MixInv_stagesFrom k stages hk parts hlen stages 0 (by omega) _ (MixInv_start k stages parts hlen) p e hp he
  rw [Nat.zero_add, mix_full k stages p e.1 (by omega)] at this
  simpa [shuffle] using this

/-- **nothing is invented**: every element of the output was in some input partition -/
theorem shuffle_sound (k stages : Nat) (parts : List (List (Nat × α))) (t : Nat) (e : Nat × α)
    (he : e ∈ (shuffle k stages parts).getD t []) : ∃ p, e ∈ parts.getD p [] := by
  have key : ∀ (n s : Nat) (ps : List (List (Nat × α))), (∀ t e, e ∈ ps.getD t [] → ∃ p, e ∈ parts.getD p []) →
      ∀ t e, e ∈ (stagesFrom k (k ^ stages) n s ps).getD t [] → ∃ p, e ∈ parts.getD p [] := by
    intro n
    induction n with
    | zero => intro s ps h; simpa [stagesFrom] using h
    | succ n ih =>
      intro s ps h
      simp only [stagesFrom]
      apply ih
      intro t e he
      obtain ⟨_, j, _, hm, _⟩ := (mem_stageStep k (k ^ stages) s ps t e).mp he
      exact h _ e hm
  refine key stages 0 _ ?_ t e (by simpa [shuffle] using he)
  intro t e he
  exact ⟨t, ((mem_start _ parts t e).mp he).2⟩

/-- **`colocated`**: elements with equal hash (in particular: equal keys) end in the same partition -/
theorem shuffle_colocated (k stages : Nat) (hk : 0 < k) (parts : List (List (Nat × α))) (t t' : Nat) (e e' : Nat × α)
    (he : e ∈ (shuffle k stages parts).getD t []) (he' : e' ∈ (shuffle k stages parts).getD t' [])
    (hh : e.1 = e'.1) : t = t' := by
  rw [← (staged_route k stages hk parts t e he).2, ← (staged_route k stages hk parts t' e' he').2, hh]

/-- **`shuffle_multiset`**: the staged shuffle preserves the multiset of elements (with multiplicities):
    nothing is lost, nothing duplicated — every stage is a permutation -/
theorem shuffle_multiset (k stages : Nat) (hk : 0 < k) (parts : List (List (Nat × α)))
    (hlen : parts.length ≤ k ^ stages) : (shuffle k stages parts).flatten.Perm parts.flatten := by
  simp only [shuffle]
  have := stagesFrom_perm k stages hk stages 0 (by omega) (start (k ^ stages) parts) (by simp [start])
  rw [start_flatten _ parts hlen] at this
  exact this

example : shuffle 2 2 [[(5, 'a'), (2, 'b')], [(3, 'c')], [(6, 'd'), (1, 'e')]] =
    [[], [(5, 'a'), (1, 'e')], [(2, 'b'), (6, 'd')], [(3, 'c')]] := by decide

/-! ### the groups -/

theorem mem_groupByKeyOrdered (g : α → Nat) (xs : List α) (κ : Nat) (grp : List α) :
    (κ, grp) ∈ groupByKeyOrdered g xs ↔ (∃ x ∈ xs, g x = κ) ∧ grp = xs.filter (fun x => g x == κ) := by
  simp only [groupByKeyOrdered, List.mem_map, List.mem_eraseDups, Prod.mk.injEq]
  constructor
  · rintro ⟨k, ⟨x, hx, rfl⟩, rfl, rfl⟩
    exact ⟨⟨x, hx, rfl⟩, rfl⟩
  · rintro ⟨⟨x, hx, rfl⟩, rfl⟩
    exact ⟨g x, ⟨x, hx, rfl⟩, rfl, rfl⟩

/-- elements of the hashed input carry the hash of their key -/
theorem shuffle_hash_inv (hash : Nat → Nat) (g : α → Nat) (k stages : Nat) (parts : List (List α)) (t : Nat)
    (e : Nat × α) (he : e ∈ (shuffle k stages (parts.map fun p => p.map fun x => (hash (g x), x))).getD t []) :
    e.1 = hash (g e.2) ∧ e.2 ∈ parts.flatten := by
  obtain ⟨p, hp⟩ := shuffle_sound k stages _ t e he
  simp only [List.getD_eq_getElem?_getD, List.getElem?_map] at hp
  cases hpp : parts[p]? with
  | none => simp [hpp] at hp
  | some q =>
    simp only [hpp, Option.map_some, Option.getD_some, List.mem_map] at hp
    obtain ⟨x, hx, rfl⟩ := hp
    exact ⟨rfl, List.mem_flatten.mpr ⟨q, List.mem_of_getElem? hpp, hx⟩⟩

/-- **`groupby_eq_python`** (task shuffle): for `npartitions ≤ k^stages`
    * every group `(κ, grp)` of output partition `t` satisfies `t = hash κ % k^stages`, so a key appears in
      exactly one partition, and `grp` holds only elements of the bag with key `κ`;
    * every element `x` of the bag is in the group of its key, in partition `hash (g x) % k^stages`.
    (Order inside a group is not promised by bags and not claimed.) -/
theorem groupby_eq_python (hash : Nat → Nat) (g : α → Nat) (k stages : Nat) (hk : 0 < k) (parts : List (List α))
    (hlen : parts.length ≤ k ^ stages) :
    (∀ t part κ grp, (groupbyTasks hash g k stages parts)[t]? = some part → (κ, grp) ∈ part →
        t = hash κ % k ^ stages ∧ ∀ x ∈ grp, x ∈ parts.flatten ∧ g x = κ) ∧
    (∀ x ∈ parts.flatten, ∃ part grp,
        (groupbyTasks hash g k stages parts)[hash (g x) % k ^ stages]? = some part ∧ (g x, grp) ∈ part ∧ x ∈ grp) := by
  constructor
  · intro t part κ grp hpart hmem
    simp only [groupbyTasks, List.getElem?_map] at hpart
    cases hst : (shuffle k stages (parts.map fun p => p.map fun x => (hash (g x), x)))[t]? with
    | none => simp [hst] at hpart
    | some st =>
      simp only [hst, Option.map_some, Option.some.injEq] at hpart
      subst hpart
      have hget : (shuffle k stages (parts.map fun p => p.map fun x => (hash (g x), x))).getD t [] = st := by
        simp [List.getD_eq_getElem?_getD, hst]
      obtain ⟨⟨x, hx, hgx⟩, hgrp⟩ := (mem_groupByKeyOrdered g _ κ grp).mp hmem
      obtain ⟨e, he, rfl⟩ := List.mem_map.mp hx
      have hinv := shuffle_hash_inv hash g k stages parts t e (by rw [hget]; exact he)
      have hroute := staged_route k stages hk _ t e (by rw [hget]; exact he)
      refine ⟨by rw [← hroute.2, hinv.1, hgx], ?_⟩
      intro y hy
      rw [hgrp] at hy
      obtain ⟨hy1, hy2⟩ := List.mem_filter.mp hy
      obtain ⟨e', he', rfl⟩ := List.mem_map.mp hy1
      exact ⟨(shuffle_hash_inv hash g k stages parts t e' (by rw [hget]; exact he')).2, by simpa using hy2⟩
  · intro x hx
    obtain ⟨q, hq, hxq⟩ := List.mem_flatten.mp hx
    obtain ⟨p, hp, hpq⟩ := List.getElem_of_mem hq
    have hin : (hash (g x), x) ∈ (parts.map fun p => p.map fun x => (hash (g x), x)).getD p [] := by
      simp only [List.getD_eq_getElem?_getD, List.getElem?_map, List.getElem?_eq_getElem hp, Option.map_some,
        Option.getD_some, List.mem_map]
      exact ⟨x, by rw [hpq]; exact hxq, rfl⟩
    have hc := shuffle_complete k stages hk _ (by simpa using hlen) p (by simpa using hp) _ hin
    simp only at hc
    have hlt : hash (g x) % k ^ stages < (shuffle k stages (parts.map fun p => p.map fun x => (hash (g x), x))).length := by
      rw [shuffle_length]; exact Nat.mod_lt _ (Nat.pow_pos hk)
    rw [List.getD_eq_getElem?_getD, List.getElem?_eq_getElem hlt] at hc
    simp only [Option.getD_some] at hc
    generalize hst : (shuffle k stages (parts.map fun p => p.map fun x => (hash (g x), x)))[hash (g x) % k ^ stages] = st at hc
    refine ⟨groupByKeyOrdered g (st.map (·.2)), (st.map (·.2)).filter (fun y => g y == g x), ?_, ?_, ?_⟩
    · simp only [groupbyTasks, List.getElem?_map, List.getElem?_eq_getElem hlt, Option.map_some, hst]
    · rw [mem_groupByKeyOrdered]
      exact ⟨⟨x, List.mem_map.mpr ⟨_, hc, rfl⟩, rfl⟩, rfl⟩
    · exact List.mem_filter.mpr ⟨List.mem_map.mpr ⟨_, hc, rfl⟩, by simp⟩

/-! ## distinct -/

theorem nodup_eraseDups (l : List Nat) : l.eraseDups.Nodup := by
  induction hn : l.length using Nat.strongRecOn generalizing l with
  | _ n ih =>
    cases l with
    | nil => simp
    | cons a as =>
      rw [List.eraseDups_cons, List.nodup_cons]
      refine ⟨?_, ih _ ?_ _ rfl⟩
      · intro hmem
        have := (List.mem_filter.mp (List.mem_eraseDups.mp hmem)).2
        simp at this
      · subst hn
        exact Nat.lt_of_le_of_lt (List.length_filter_le _ _) (by simp)

/-- **`distinct`**: the result has no repeats and exactly the elements of the bag — for every
    partitioning (`Bag.distinct` uses the default `split_every = 8`) -/
theorem bag_distinct_spec (b : Bag Nat) :
    ∃ r, distinctB b = some r ∧ r.Nodup ∧ ∀ x, x ∈ r ↔ x ∈ den b := by
  have hsome := reductionIx_isSome (fun _ => List.eraseDups) (fun _ _ (rs : List (List Nat)) => rs.flatten.eraseDups)
    8 (by decide) b
  obtain ⟨r, hr⟩ := Option.isSome_iff_exists.mp hsome
  refine ⟨r, hr, ?_⟩
  refine reductionIx_inv (fun q r => r.Nodup ∧ ∀ x, x ∈ r ↔ x ∈ q) _ _ ?_ ?_ 8 b r hr
  · intro _ p
    exact ⟨nodup_eraseDups p, fun x => List.mem_eraseDups⟩
  · intro _ _ qs rs hall
    refine ⟨nodup_eraseDups _, fun x => ?_⟩
    rw [List.mem_eraseDups]
    induction hall with
    | nil => simp
    | cons hab _ ih =>
      simp only [List.flatten_cons, List.mem_append, hab.2 x, ih]

example : distinctB [[3, 1, 3], [], [1, 2]] = some [3, 1, 2] := by decide

/-! ## join, starmap, pluck, max, disk shuffle -/

/-- `join`: the pairs `(y, x)` with matching keys, `x` running through the bag in order -/
theorem bag_join_den (onSelf : α → Nat) (onOther : β → Nat) (other : List β) (b : Bag α) :
    den (joinB onSelf onOther other b) =
      (den b).flatMap fun x => (other.filter fun y => onOther y == onSelf x).map fun y => (y, x) := by
  simp only [den, joinB]
  induction b with
  | nil => rfl
  | cons p ps ih => simp only [List.map_cons, List.flatten_cons, List.flatMap_append, ih]

theorem bag_starmap_den {γ : Type} (f : α → β → γ) (b : Bag (α × β)) :
    den (starmapB f b) = (den b).map fun xy => f xy.1 xy.2 := bag_map_den _ b

theorem bag_pluck_den (get : α → β) (b : Bag α) : den (pluckB get b) = (den b).map get := bag_map_den _ b

section NoInit
variable (op : α → α → α) (assoc : ∀ a b c, op (op a b) c = op a (op b c))
include assoc

theorem foldl_assoc (l : List α) (a c : α) : l.foldl op (op a c) = op a (l.foldl op c) := by
  induction l generalizing c with
  | nil => rfl
  | cons w l ih => simp only [List.foldl_cons]; rw [assoc, ih]

theorem pyReduce_cons (v : α) (vs : List α) (m : α) (h : pyReduce op vs = some m) :
    pyReduce op (v :: vs) = some (op v m) := by
  cases vs with
  | nil => simp [pyReduce] at h
  | cons w ws =>
    simp only [pyReduce, Option.some.injEq, List.foldl_cons] at h ⊢
    rw [foldl_assoc op assoc, h]

theorem pyReduce_append (q₁ q₂ : List α) (m₁ m₂ : α) (h₁ : pyReduce op q₁ = some m₁)
    (h₂ : pyReduce op q₂ = some m₂) : pyReduce op (q₁ ++ q₂) = some (op m₁ m₂) := by
  cases q₁ with
  | nil => simp [pyReduce] at h₁
  | cons y ys =>
    cases q₂ with
    | nil => simp [pyReduce] at h₂
    | cons z zs =>
      simp only [pyReduce, Option.some.injEq, List.cons_append, List.foldl_append, List.foldl_cons] at h₁ h₂ ⊢
      rw [foldl_assoc op assoc, h₁, h₂]

omit assoc in
theorem pyReduce_ne_nil (q : List α) (hq : q ≠ []) : ∃ m, pyReduce op q = some m := by
  cases q with
  | nil => exact absurd rfl hq
  | cons y ys => exact ⟨_, rfl⟩

/-- **`fold` without initial** with one associative operator for `binop` and `combine`: on a non-empty bag the
    result is `functools.reduce(op, seq)` — any partitioning with empty partitions, any `split_every ≥ 2`
    (for an empty bag the inner result is `none`: TypeError like `reduce(op, [])`) -/
theorem bag_fold_noinit_eq (se : Nat) (hse : 2 ≤ se) (b : Bag α) (hb : den b ≠ []) :
    foldNoInitB op op se b = some (pyReduce op (den b)) := by
  have hsome : (foldNoInitB op op se b).isSome := reductionIx_isSome _ _ se hse b
  obtain ⟨r, hr⟩ := Option.isSome_iff_exists.mp hsome
  have hgen := reductionIx_inv_gen (fun (q : List α) (r : Option α) => q ≠ [] ∧ r = pyReduce op q) _ _ b ?_ ?_ se r hr
  · rcases hgen with ⟨_, _, hnil⟩ | ⟨_, hr'⟩
    · exact absurd hnil hb
    · rw [hr, hr']; rfl
  · intro i p hmem hor
    refine ⟨?_, rfl⟩
    rcases hor with h1 | h
    · intro hp
      subst hp
      cases b with
      | nil => simp at h1
      | cons q qs =>
        cases qs with
        | nil =>
          have : q = [] := by simpa using hmem
          subst this
          simp [den] at hb
        | cons _ _ => simp at h1
    · exact h
  · intro d i qs rs hrs hall
    show qs.flatten ≠ [] ∧ optReduce op rs = pyReduce op qs.flatten
    have key : ∃ vs m, rs.mapM id = some vs ∧ pyReduce op vs = some m ∧ pyReduce op qs.flatten = some m ∧
        qs.flatten ≠ [] := by
      induction hall with
      | nil => exact absurd rfl hrs
      | @cons q r qs' rs' hqr hrest ih =>
        obtain ⟨hq, rfl⟩ := hqr
        obtain ⟨m₁, hm₁⟩ := pyReduce_ne_nil op q hq
        cases hrest with
        | nil => exact ⟨[m₁], m₁, by simp [List.mapM_cons, hm₁], rfl, by simpa using hm₁, by simpa using hq⟩
        | cons hqr' hrest' =>
          obtain ⟨vs, m, hv, hvm, hfm, _⟩ := ih (by simp)
          refine ⟨m₁ :: vs, op m₁ m, by simp [List.mapM_cons, hm₁, hv], pyReduce_cons op assoc m₁ vs m hvm, ?_, by simp [hq]⟩
          rw [List.flatten_cons]
          exact pyReduce_append op assoc q _ m₁ m hm₁ hfm
    obtain ⟨vs, m, hv, hvm, hfm, hne⟩ := key
    exact ⟨hne, by simp only [optReduce, hv, hvm, hfm]⟩

end NoInit

/-- **`max`** / **`min`** of a non-empty bag are `max(seq)` / `min(seq)` -/
theorem bag_max_eq (se : Nat) (hse : 2 ≤ se) (b : Bag Int) (hb : den b ≠ []) :
    maxB se b = some (pyReduce max (den b)) :=
  bag_fold_noinit_eq max (by intro a b c; omega) se hse b hb

theorem bag_min_eq (se : Nat) (hse : 2 ≤ se) (b : Bag Int) (hb : den b ≠ []) :
    minB se b = some (pyReduce min (den b)) :=
  bag_fold_noinit_eq min (by intro a b c; omega) se hse b hb

theorem any_flatten (qs : List (List Bool)) : (qs.map fun p => p.any id).any id = qs.flatten.any id := by
  induction qs with
  | nil => rfl
  | cons q qs ih => simp only [List.map_cons, List.any_cons, id, List.flatten_cons, List.any_append, ih]

theorem all_flatten (qs : List (List Bool)) : (qs.map fun p => p.all id).all id = qs.flatten.all id := by
  induction qs with
  | nil => rfl
  | cons q qs ih => simp only [List.map_cons, List.all_cons, id, List.flatten_cons, List.all_append, ih]

/-- `any` / `all` -/
theorem bag_any_eq (se : Nat) (hse : 2 ≤ se) (b : Bag Bool) : anyB se b = some ((den b).any id) :=
  bag_reduction_eq _ _ any_flatten se hse b
theorem bag_all_eq (se : Nat) (hse : 2 ≤ se) (b : Bag Bool) : allB se b = some ((den b).all id) :=
  bag_reduction_eq _ _ all_flatten se hse b

example : maxB 2 [[], [3, -1], [], [7], [2]] = some (some 7) := by decide
example : maxB 2 [[], []] = some none := by decide

/-- **`groupby` with the disk shuffle**: a key lives in output partition `hash κ % npartitions` only, and its
    group holds exactly the elements with that key -/
theorem groupby_disk_spec (hash : Nat → Nat) (g : α → Nat) (nout : Nat) (parts : List (List α))
    (t : Nat) (part : List (Nat × List α)) (κ : Nat) (grp : List α)
    (hpart : (groupbyDisk hash g nout parts)[t]? = some part) (hmem : (κ, grp) ∈ part) :
    t = hash κ % nout ∧ grp = parts.flatten.filter (fun x => g x == κ) := by
  simp only [groupbyDisk, List.getElem?_map] at hpart
  cases ht : (List.range nout)[t]? with
  | none => simp [ht] at hpart
  | some t' =>
    have htt : t' = t ∧ t < nout := by
      have hlt : t < (List.range nout).length := by
        rcases Nat.lt_or_ge t (List.range nout).length with h | h
        · exact h
        · rw [List.getElem?_eq_none h] at ht; cases ht
      rw [List.getElem?_eq_getElem hlt, List.getElem_range] at ht
      exact ⟨(Option.some.inj ht).symm, by simpa using hlt⟩
    obtain ⟨rfl, _⟩ := htt
    simp only [ht, Option.map_some, Option.some.injEq] at hpart
    subst hpart
    obtain ⟨⟨x, hx, hgx⟩, hgrp⟩ := (mem_groupByKeyOrdered g _ κ grp).mp hmem
    obtain ⟨_, hx2⟩ := List.mem_filter.mp hx
    refine ⟨by rw [← hgx]; exact (beq_iff_eq.mp hx2).symm, ?_⟩
    rw [hgrp, List.filter_filter]
    apply List.filter_congr
    intro y _
    by_cases hy : g y = κ
    · have : hash κ % nout = t' := by rw [← hgx]; exact beq_iff_eq.mp hx2
      simp [hy, this]
    · simp [hy]

/-! ## foldby -/

/-- the reference: for key `κ` the sequential fold of the elements with that key (`none`: no such element) -/
def foldbySpec (key : α → Nat) (binop : β → α → β) (init : β) (q : List α) (κ : Nat) : Option β :=
  if q.filter (fun x => key x == κ) = [] then none else some ((q.filter (fun x => key x == κ)).foldl binop init)

/-- a dict (association list with distinct keys) that holds exactly the key-wise folds of `q` -/
def FoldbyInv (key : α → Nat) (binop : β → α → β) (init : β) (q : List α) (r : List (Nat × β)) : Prop :=
  (r.map (·.1)).Nodup ∧ ∀ κ, r.lookup κ = foldbySpec key binop init q κ

theorem reduceBy_inv (key : α → Nat) (binop : β → α → β) (init : β) (p : List α) :
    FoldbyInv key binop init p (reduceBy key binop init p) := by
  refine ⟨foldl_update_nodup key binop init p [] (by simp), fun κ => ?_⟩
  simp only [reduceBy, foldbySpec]
  rw [lookup_foldl_update key binop init p [] κ]
  simp

theorem mergeDicts_inv (key : α → Nat) (binop : β → α → β) (init : β) (combine : β → β → β) (cinit : β)
    (hunit : ∀ a, combine cinit a = a)
    (hom : ∀ q₁ q₂ : List α, (q₁ ++ q₂).foldl binop init = combine (q₁.foldl binop init) (q₂.foldl binop init))
    {qs : List (List α)} {rs : List (List (Nat × β))} (hall : All2 (FoldbyInv key binop init) qs rs) :
    FoldbyInv key binop init qs.flatten (mergeDicts combine cinit rs) := by
  refine ⟨foldl_update_nodup (fun kv : Nat × β => kv.1) (fun a kv => combine a kv.2) cinit rs.flatten [] (by simp),
    fun κ => ?_⟩
  simp only [mergeDicts]
  rw [lookup_foldl_update (fun kv : Nat × β => kv.1) (fun a kv => combine a kv.2) cinit rs.flatten [] κ]
  simp only [List.lookup_nil, Option.getD_none, foldbySpec, List.filter_flatten]
  -- by induction over the inputs, carrying the elements of key κ seen so far
  have key_lemma : ∀ (pre : List α) (acc : β), acc = (if pre = [] then cinit else pre.foldl binop init) →
      ((rs.map (List.filter fun kv => kv.1 == κ)).flatten.foldl (fun a kv => combine a kv.2) acc =
        (if pre ++ (qs.map (List.filter fun x => key x == κ)).flatten = [] then cinit
         else (pre ++ (qs.map (List.filter fun x => key x == κ)).flatten).foldl binop init)) ∧
      ((rs.map (List.filter fun kv => kv.1 == κ)).flatten = [] ↔
        (qs.map (List.filter fun x => key x == κ)).flatten = []) := by
    induction hall with
    | nil => intro pre acc hacc; simp [hacc]
    | @cons q r qs' rs' hqr _ ih =>
      intro pre acc hacc
      obtain ⟨hnd, hlook⟩ := hqr
      have hfr := filter_key_of_nodup r hnd κ
      rw [hlook κ] at hfr
      simp only [foldbySpec] at hfr
      simp only [List.map_cons, List.flatten_cons]
      by_cases hq : q.filter (fun x => key x == κ) = []
      · simp only [hq, if_true] at hfr
        rw [hfr, hq]
        simpa using ih pre acc hacc
      · simp only [hq, if_false] at hfr
        rw [hfr]
        simp only [List.cons_append, List.nil_append, List.foldl_cons]
        have hacc' : combine acc ((q.filter fun x => key x == κ).foldl binop init) =
            (if pre ++ q.filter (fun x => key x == κ) = [] then cinit
             else (pre ++ q.filter (fun x => key x == κ)).foldl binop init) := by
          have hne : pre ++ q.filter (fun x => key x == κ) ≠ [] := by simp [hq]
          simp only [hne, if_false]
          by_cases hp : pre = []
          · subst hp; simp [hacc, hunit]
          · simp only [hp, if_false] at hacc
            rw [hacc, ← hom]
        obtain ⟨i1, _⟩ := ih (pre ++ q.filter (fun x => key x == κ)) _ hacc'
        refine ⟨by rw [i1, List.append_assoc], ?_⟩
        simp [hq]
  obtain ⟨k1, k2⟩ := key_lemma [] cinit (by simp)
  simp only [List.nil_append] at k1
  by_cases hF : (rs.map (List.filter fun kv => kv.1 == κ)).flatten = []
  · simp [hF, k2.mp hF]
  · have hQ : ¬ (qs.map (List.filter fun x => key x == κ)).flatten = [] := fun h => hF (k2.mpr h)
    simp only [hF, hQ, if_false, Option.some.injEq]
    rw [k1]; simp [hQ]

/-- **`foldby_eq`**: with `combine_initial` a left unit of `combine` and `binop/combine/initial` a
    homomorphism, `Bag.foldby(key, binop, initial, combine, combine_initial)` is a dict with distinct keys
    whose entry for every key is the sequential fold of the elements with that key — for every
    partitioning and `split_every ≥ 2`. -/
theorem foldby_eq (key : α → Nat) (binop : β → α → β) (init : β) (combine : β → β → β) (cinit : β)
    (hunit : ∀ a, combine cinit a = a)
    (hom : ∀ q₁ q₂ : List α, (q₁ ++ q₂).foldl binop init = combine (q₁.foldl binop init) (q₂.foldl binop init))
    (se : Nat) (hse : 2 ≤ se) (b : Bag α) :
    ∃ r, foldbyB key binop init combine cinit se b = some r ∧ (r.map (·.1)).Nodup ∧
      ∀ κ, r.lookup κ = foldbySpec key binop init (den b) κ := by
  obtain ⟨r, hr⟩ := Option.isSome_iff_exists.mp
    (plainTree_isSome (mergeDicts combine cinit) se hse (b.map fun p => reduceBy key binop init p))
  refine ⟨r, hr, ?_⟩
  have hleaves : ∀ bs : Bag α, All2 (FoldbyInv key binop init) bs (bs.map fun p => reduceBy key binop init p) := by
    intro bs
    induction bs with
    | nil => exact .nil
    | cons p ps ih => exact .cons (reduceBy_inv key binop init p) ih
  exact plainTree_inv (FoldbyInv key binop init) (mergeDicts combine cinit)
    (fun qs rs hall => mergeDicts_inv key binop init combine cinit hunit hom hall) se (hleaves b) r hr

example : foldbyB (fun x : Int => (x % 3).toNat) (· + ·) 0 (· + ·) 0 2 [[1, 2, 4], [], [3, 5], [7]] =
    some [(1, 12), (2, 7), (0, 3)] := by decide

/-! ## frequencies -/

theorem foldl_count (q : List Nat) (a : Nat) : q.foldl (fun c _ => c + 1) a = a + q.length := by
  induction q generalizing a with
  | nil => simp
  | cons x xs ih => simp only [List.foldl_cons, List.length_cons]; rw [ih]; omega

/-- folding the items of a dict with distinct keys into the empty dict rebuilds it -/
theorem foldl_items_self (d pre : List (Nat × Nat)) (h : ((pre ++ d).map (·.1)).Nodup) :
    d.foldl (fun acc kv => alUpdate kv.1 (fun o => o.getD 0 + kv.2) acc) pre = pre ++ d := by
  induction d generalizing pre with
  | nil => simp
  | cons kv rest ih =>
    simp only [List.foldl_cons]
    have hnew : alUpdate kv.1 (fun o => o.getD 0 + kv.2) pre = pre ++ [kv] := by
      have hnot : kv.1 ∉ pre.map (·.1) := by
        simp only [List.map_append, List.map_cons] at h
        have := (List.nodup_append.mp h).2.2 kv.1
        intro hm
        exact this hm kv.1 (by simp) rfl
      clear h ih
      induction pre with
      | nil => simp [alUpdate]
      | cons p ps ihp =>
        simp only [List.map_cons, List.mem_cons, not_or] at hnot
        have : ¬ p.1 = kv.1 := fun h => hnot.1 h.symm
        simp only [alUpdate, this, if_false, List.cons_append]
        rw [ihp hnot.2]
    rw [hnew, ih (pre ++ [kv]) (by simpa [List.append_assoc] using h)]
    simp [List.append_assoc]

theorem mergeFrequencies_eq (ds : List (List (Nat × Nat))) (h : ∀ d ∈ ds, (d.map (·.1)).Nodup) :
    mergeFrequencies ds = mergeDicts (· + ·) 0 ds := by
  cases ds with
  | nil => rfl
  | cons d rest =>
    have hd := h d (by simp)
    have hself := foldl_items_self d [] (by simpa using hd)
    cases rest with
    | nil =>
      simp only [mergeFrequencies, mergeDicts, List.flatten_cons, List.flatten_nil, List.append_nil]
      simpa using hself.symm
    | cons d' rest' =>
      simp only [mergeFrequencies, mergeDicts, List.flatten_cons, List.foldl_append]
      rw [hself]; simp

/-- **`frequencies`**: a dict with distinct keys, the entry of `κ` is its number of occurrences in the bag
    (absent when it does not occur) — `collections.Counter(seq)` -/
theorem bag_frequencies_eq (se : Nat) (hse : 2 ≤ se) (b : Bag Nat) :
    ∃ r, frequenciesB se b = some r ∧ (r.map (·.1)).Nodup ∧
      ∀ κ, r.lookup κ = if (den b).count κ = 0 then none else some ((den b).count κ) := by
  have hsome : (frequenciesB se b).isSome := reductionIx_isSome _ _ se hse b
  obtain ⟨r, hr⟩ := Option.isSome_iff_exists.mp hsome
  have hinv := reductionIx_inv (FoldbyInv (fun x : Nat => x) (fun c _ => c + 1) 0) _ _
    (fun _ p => reduceBy_inv (fun x : Nat => x) (fun c _ => c + 1) 0 p)
    (by
      intro _ _ qs rs hall
      have hnd : ∀ d ∈ rs, (d.map (·.1)).Nodup := by
        intro d hd
        clear hr
        induction hall with
        | nil => simp at hd
        | cons hab _ ih =>
          rcases List.mem_cons.mp hd with rfl | hd
          · exact hab.1
          · exact ih hd
      show FoldbyInv _ _ _ qs.flatten (mergeFrequencies rs)
      rw [mergeFrequencies_eq rs hnd]
      exact mergeDicts_inv (fun x : Nat => x) (fun c _ => c + 1) 0 (· + ·) 0 (by intro a; omega)
        (by intro q₁ q₂; rw [foldl_count, foldl_count, foldl_count, List.length_append]; omega) hall) se b r hr
  refine ⟨r, hr, hinv.1, fun κ => ?_⟩
  rw [hinv.2 κ]
  simp only [foldbySpec, foldl_count, Nat.zero_add, den]
  have hc : (b.flatten.filter fun x => x == κ).length = b.flatten.count κ := by
    rw [List.count_eq_length_filter]
  by_cases h0 : b.flatten.count κ = 0
  · have : b.flatten.filter (fun x => x == κ) = [] := List.length_eq_zero_iff.mp (by rw [hc]; exact h0)
    simp [h0, this]
  · have : ¬ b.flatten.filter (fun x => x == κ) = [] := by
      intro hnil; rw [hnil] at hc; exact h0 hc.symm
    simp only [h0, this, if_false, Option.some.injEq]
    exact hc

example : frequenciesB 2 [[3, 1, 3], [], [1, 2], [3]] = some [(3, 3), (1, 2), (2, 1)] := by decide

/-! ## topk -/

/-- **`topk`**: `Bag.topk(k)` is `sorted(seq, reverse=True)[:k]` — for every partitioning and
    `split_every ≥ 2` (`topk_hom`: the `k` largest of a concatenation only depend on the `k` largest of the parts) -/
theorem bag_topk_eq (k se : Nat) (hse : 2 ≤ se) (b : Bag Int) : topkB k se b = some (topk k (den b)) :=
  bag_reduction_eq (topk k) (fun rs => topk k rs.flatten) (topk_hom k) se hse b

theorem topk_sorted_perm (k : Nat) (xs : List Int) :
    SortedDesc (sortDescInt xs) ∧ (sortDescInt xs).Perm xs ∧ topk k xs = (sortDescInt xs).take k :=
  ⟨sortDesc_sorted xs, sortDesc_perm xs, rfl⟩

example : topkB 2 2 [[3, 9], [], [7], [1, 8]] = some [9, 8] := by decide

/-! # Review round: stronger groupby statements, the real cut points of `split`, `repartition(partition_size)`,
`from_sequence`, `split_every=False`, mean / var -/

/-- the keys of one output partition are distinct: a key is reported once -/
theorem groupby_keys_nodup (hash : Nat → Nat) (g : α → Nat) (k stages : Nat) (parts : List (List α))
    (t : Nat) (part : List (Nat × List α)) (hpart : (groupbyTasks hash g k stages parts)[t]? = some part) :
    (part.map (·.1)).Nodup := by
  simp only [groupbyTasks, List.getElem?_map] at hpart
  cases hst : (shuffle k stages (parts.map fun p => p.map fun x => (hash (g x), x)))[t]? with
  | none => simp [hst] at hpart
  | some st =>
    simp only [hst, Option.map_some, Option.some.injEq] at hpart
    subst hpart
    simp only [groupByKeyOrdered, List.map_map]
    have : ((fun x : Nat × List α => x.1) ∘ fun k => (k, List.filter (fun x => g x == k) (List.map (fun x => x.2) st))) = id := by
      funext k; rfl
    rw [this, List.map_id]
    exact nodup_eraseDups _

/-- **`groupby_group_perm`** (task shuffle): the group reported for key `κ` holds EXACTLY the elements of the
    bag with that key, with their multiplicities (as a multiset: a permutation of the filtered sequence). -/
theorem groupby_group_perm (hash : Nat → Nat) (g : α → Nat) (k stages : Nat) (hk : 0 < k) (parts : List (List α))
    (hlen : parts.length ≤ k ^ stages) (t : Nat) (part : List (Nat × List α)) (κ : Nat) (grp : List α)
    (hpart : (groupbyTasks hash g k stages parts)[t]? = some part) (hmem : (κ, grp) ∈ part) :
    grp.Perm (parts.flatten.filter fun x => g x == κ) := by
  have ht := ((groupby_eq_python hash g k stages hk parts hlen).1 t part κ grp hpart hmem).1
  simp only [groupbyTasks, List.getElem?_map] at hpart
  generalize hS : shuffle k stages (parts.map fun p => p.map fun x => (hash (g x), x)) = S at hpart
  cases hst : S[t]? with
  | none => simp [hst] at hpart
  | some st =>
    simp only [hst, Option.map_some, Option.some.injEq] at hpart
    subst hpart
    obtain ⟨_, hgrp⟩ := (mem_groupByKeyOrdered g _ κ grp).mp hmem
    -- the whole shuffle is a permutation
    have hperm : S.flatten.Perm (parts.map fun p => p.map fun x => (hash (g x), x)).flatten := by
      rw [← hS]; exact shuffle_multiset k stages hk _ (by simpa using hlen)
    have hperm2 : ((S.flatten.map (·.2)).filter fun x => g x == κ).Perm (parts.flatten.filter fun x => g x == κ) := by
      have h1 := (hperm.map (·.2)).filter (fun x => g x == κ)
      have h2 : ((parts.map fun p => p.map fun x => (hash (g x), x)).flatten.map (·.2)) = parts.flatten := by
        simp [List.map_flatten, List.map_map, Function.comp_def]
      rw [h2] at h1
      exact h1
    -- only partition `t` contributes elements with key κ
    have hflat : (S.flatten.map (·.2)).filter (fun x => g x == κ) = (st.map (·.2)).filter (fun x => g x == κ) := by
      rw [List.map_flatten, List.filter_flatten]
      have := flatten_eq_getD_of_others_nil
        ((S.map (List.map (·.2))).map (List.filter fun x => g x == κ)) t ?_
      · rw [this]
        simp [List.getD_eq_getElem?_getD, List.getElem?_map, hst]
      · intro t' hne
        simp only [List.getD_eq_getElem?_getD, List.getElem?_map]
        cases hst' : S[t']? with
        | none => simp
        | some st' =>
          simp only [Option.map_some, Option.getD_some, List.filter_eq_nil_iff, List.mem_map]
          rintro y ⟨e, he, rfl⟩ hy
          have hget : (shuffle k stages (parts.map fun p => p.map fun x => (hash (g x), x))).getD t' [] = st' := by
            rw [hS]; simp [List.getD_eq_getElem?_getD, hst']
          have hinv := shuffle_hash_inv hash g k stages parts t' e (by rw [hget]; exact he)
          have hroute := staged_route k stages hk _ t' e (by rw [hget]; exact he)
          apply hne
          rw [← hroute.2, hinv.1, ht]
          have : g e.2 = κ := by simpa using hy
          rw [this]
    rw [hgrp, ← hflat]
    exact hperm2

/-- disk shuffle, completeness: every element's key is reported in partition `hash κ % npartitions` with the
    group of ALL elements of that key (in order) -/
theorem groupby_disk_complete (hash : Nat → Nat) (g : α → Nat) (nout : Nat) (hn : 0 < nout) (parts : List (List α))
    (x : α) (hx : x ∈ parts.flatten) :
    ∃ part, (groupbyDisk hash g nout parts)[hash (g x) % nout]? = some part ∧
      (g x, parts.flatten.filter fun y => g y == g x) ∈ part := by
  have hlt : hash (g x) % nout < nout := Nat.mod_lt _ hn
  refine ⟨groupByKeyOrdered g (parts.flatten.filter fun y => hash (g y) % nout == hash (g x) % nout), ?_, ?_⟩
  · simp only [groupbyDisk, List.getElem?_map, List.getElem?_range hlt, Option.map_some]
  · rw [mem_groupByKeyOrdered]
    refine ⟨⟨x, List.mem_filter.mpr ⟨hx, by simp⟩, rfl⟩, ?_⟩
    rw [List.filter_filter]
    apply List.filter_congr
    intro y _
    by_cases hy : g y = g x
    · simp [hy]
    · simp [hy]

/-- **`split_den`**: `split(seq, n)` (n ≥ 1) returns `n` consecutive slices that concatenate to `seq` — with
    the cut points exactly as CPython computes them (`int(len(seq) / n * i)` in binary64) -/
theorem split_den (n : Nat) (hn : 0 < n) (seq : List α) :
    (splitB n seq).flatten = seq ∧ (splitB n seq).length = n := by
  obtain ⟨rest, hc, hpw⟩ := splitCuts_ok seq.length n hn
  refine ⟨?_, by simp [splitB, splitWith_length, splitCuts_length]⟩
  simp only [splitB, hc]
  rw [splitWith_flatten 0 rest seq hpw]; rfl

example : splitB 9 (List.range 12) = [[0], [1], [2, 3], [4], [5], [6, 7], [8], [9], [10, 11]] := by decide +kernel


/-- **`repartition_more_ieee`**: `repartition(npartitions=m)` with `m` larger than the current number keeps the
    sequence and yields exactly `m` partitions — with the REAL cut points (`splitCuts`: binary64 `int(len/k*i)`),
    no hypothesis on them left. -/
theorem repartition_more_ieee (m : Nat) (b : Bag α) (hb : 0 < b.length) (hlt : b.length < m) :
    den (repartitionB (cutsOfBag b m) m b) = den b ∧ (repartitionB (cutsOfBag b m) m b).length = m := by
  have hpos : ∀ i, 0 < (nsplitsMore b.length m).getD i 1 := by
    intro i
    simp only [List.getD_eq_getElem?_getD]
    cases h : (nsplitsMore b.length m)[i]? with
    | none => simp
    | some v =>
      have hv := List.mem_of_getElem? h
      simp only [nsplitsMore, List.mem_append, List.mem_replicate, List.mem_singleton] at hv
      have hdiv : 0 < m / b.length := Nat.div_pos (Nat.le_of_lt hlt) hb
      simp only [Option.getD_some]
      rcases hv with ⟨_, rfl⟩ | rfl <;> omega
  apply repartition_more (cutsOfBag b m) m b hb hlt
  · intro i
    exact splitCuts_ok _ _ (hpos i)
  · intro i hi
    simp only [cutsOfBag, splitCuts_length, List.getD_eq_getElem?_getD, List.getElem?_eq_getElem hi, Option.getD_some]

example : repartitionB (cutsOfBag [List.range 12] 9) 9 [List.range 12] =
    [[0], [1], [2, 3], [4], [5], [6, 7], [8], [9], [10, 11]] := by decide +kernel

/-! ## `repartition(partition_size=…)` -/


/-- **`repartition_size_den`**: `repartition(partition_size=…)` keeps the sequence, for ANY memory usages
    (they only enter through `nsplits ≥ 1` and the chunk lengths `iter_chunks` returns). -/
theorem repartition_size_den (nsplits chunks : List Nat) (b : Bag α) (hb : b ≠ [])
    (hn : nsplits.length = b.length) (hn1 : ∀ k ∈ nsplits, 0 < k)
    (hpos : ∀ c ∈ chunks, 0 < c) (hsum : chunks.sum = nsplits.sum) :
    den (repartitionSizeB nsplits chunks b) = den b ∧ (repartitionSizeB nsplits chunks b).length = chunks.length := by
  have hsp := splitPieces_spec (fun i => splitCuts (b.getD i []).length (nsplits.getD i 1)) (b.zip nsplits) 0
    (by
      intro i
      apply splitCuts_ok
      simp only [List.getD_eq_getElem?_getD]
      cases h : nsplits[i]? with
      | none => simp
      | some v => simpa using hn1 v (List.mem_of_getElem? h))
    (by
      intro i h
      have hi : i < nsplits.length := by simp at h; omega
      simp only [Nat.zero_add, splitCuts_length, List.getElem_zip, List.getD_eq_getElem?_getD,
        List.getElem?_eq_getElem hi, Option.getD_some])
  have hfst : (b.zip nsplits).map (·.1) = b := List.map_fst_zip (by omega)
  have hsnd : (b.zip nsplits).map (·.2) = nsplits := List.map_snd_zip (by omega)
  rw [hfst] at hsp
  rw [hsnd] at hsp
  simp only [repartitionSizeB, den]
  have hlen : (splitPartitions (fun i => splitCuts (b.getD i []).length (nsplits.getD i 1)) nsplits b).length = nsplits.sum := hsp.2
  have hne : splitPartitions (fun i => splitCuts (b.getD i []).length (nsplits.getD i 1)) nsplits b ≠ [] := by
    intro h
    rw [h] at hlen
    cases b with
    | nil => exact hb rfl
    | cons p ps =>
      cases nsplits with
      | nil => simp at hn
      | cons k ks =>
        have := hn1 k (by simp)
        simp at hlen; omega
  obtain ⟨f1, f2⟩ := fromRunningSums _ chunks hpos (by rw [hsum, hlen])
  exact ⟨by rw [f1]; exact hsp.1, f2 hne⟩

example : repartitionSizeB [2, 1, 3] [1, 2, 3] [[1, 2, 3], [4], [5, 6, 7, 8]] = [[1], [2, 3, 4], [5, 6, 7, 8]] := by
  decide +kernel



/-! ## `from_sequence` -/

/-- **`from_sequence_spec`**: whenever `from_sequence` returns a bag, its partitions concatenate to the
    sequence, every partition but the last has exactly the chosen size, the last one between 1 and the size
    (an empty sequence gives one empty partition) -/
theorem from_sequence_spec (seq : List α) (ps np : Option Nat) (r : Bag α) (h : fromSequenceB seq ps np = some r) :
    den r = seq ∧ r ≠ [] ∧
    (seq ≠ [] → ∃ size, fromSequenceSize seq.length ps np = some size ∧ 0 < size ∧
      (∀ p ∈ r, 0 < p.length ∧ p.length ≤ size) ∧ ∀ p ∈ r.dropLast, p.length = size) := by
  simp only [fromSequenceB] at h
  cases hs : fromSequenceSize seq.length ps np with
  | none => simp [hs] at h
  | some size =>
    simp only [hs] at h
    cases seq with
    | nil =>
      simp only [List.isEmpty_nil, if_true, Option.some.injEq] at h
      subst h; simp [den]
    | cons x xs =>
      simp only [List.isEmpty_cons, Bool.false_eq_true, if_false] at h
      split at h
      · cases h
      · next hz =>
        simp only [Option.some.injEq] at h
        subst h
        have hpos : 0 < size := by omega
        refine ⟨partitionAll_flatten size hpos _, ?_, fun _ => ⟨size, rfl, hpos, ?_⟩⟩
        · intro hnil
          have := partitionAll_flatten size hpos (x :: xs)
          rw [hnil] at this; cases this
        · exact partitionAllF_sizes size hpos _ _ (Nat.le_refl _)

/-- number of partitions: `⌈len / size⌉` -/
theorem from_sequence_count (seq : List α) (size : Nat) (hs : 0 < size) :
    (partitionAll size seq).length = (seq.length + size - 1) / size := by
  have h1 := partitionAllF_length size hs seq.length seq (Nat.le_refl _)
  have h2 : (partitionAll size seq).flatten.length = seq.length := by rw [partitionAll_flatten size hs]
  have h3 : (partitionAll size seq).flatten.length ≤ (partitionAll size seq).length * size := by
    have := (partitionAllF_sizes size hs seq.length seq (Nat.le_refl _)).1
    simp only [partitionAll]
    generalize partitionAllF size seq.length seq = L at this
    induction L with
    | nil => simp
    | cons p ps ih =>
      simp only [List.flatten_cons, List.length_append, List.length_cons, Nat.add_mul, Nat.one_mul]
      have h := (this p (by simp)).2
      have := ih (fun q hq => this q (List.mem_cons_of_mem _ hq))
      omega
  simp only [partitionAll] at h1 h2 h3 ⊢
  rw [h2] at h3
  generalize (partitionAllF size seq.length seq).length = c at h1 h3
  apply Nat.le_antisymm
  · rw [Nat.le_div_iff_mul_le hs]; omega
  · have : (seq.length + size - 1) / size < c + 1 := by
      rw [Nat.div_lt_iff_lt_mul hs]
      rw [Nat.add_mul]; omega
    omega

/-- `from_sequence(seq, npartitions=k)` with at most 100 elements never produces more than `k` partitions -/
theorem from_sequence_npartitions_le (seq : List α) (k : Nat) (hk : 0 < k) (hn : seq.length ≤ 100) (r : Bag α)
    (h : fromSequenceB seq none (some k) = some r) (hne : seq ≠ []) : r.length ≤ k := by
  obtain ⟨k', rfl⟩ : ∃ k', k = k' + 1 := ⟨k - 1, by omega⟩
  simp only [fromSequenceB, fromSequenceSize, hn, if_true] at h
  cases seq with
  | nil => exact absurd rfl hne
  | cons x xs =>
    simp only [List.isEmpty_cons, Bool.false_eq_true, if_false] at h
    split at h
    · cases h
    · next hz =>
      simp only [Option.some.injEq] at h
      subst h
      generalize hsz : ((x :: xs).length + k') / (k' + 1) = size at hz
      have hpos : 0 < size := by omega
      rw [from_sequence_count _ size hpos]
      have hge : (x :: xs).length ≤ size * (k' + 1) := by
        have := Nat.lt_div_mul_add (a := (x :: xs).length + k') (b := k' + 1) (by omega)
        rw [hsz] at this
        omega
      rw [Nat.div_le_iff_le_mul_add_pred hpos]
      omega

example : fromSequenceB (List.range 7) none (some 3) = some [[0, 1, 2], [3, 4, 5], [6]] := by decide
example : fromSequenceB ([] : List Nat) none (some 3) = some [[]] := by decide
example : fromSequenceSize 399 none none = some 2 := by decide +kernel



/-! ## `split_every=False` and the summary statistics -/

/-- `bag_reduction_eq` under exactly the guard the code has: `split_every ≥ 2`, or no fewer than the number
    of partitions (`split_every=False` is `split_every = npartitions`: one aggregate over all partitions) -/
theorem bag_reduction_eq_guard (h : List α → β) (agg : List β → β)
    (hom : ∀ qs : List (List α), agg (qs.map h) = h qs.flatten)
    (se : Nat) (b : Bag α) (hse : ¬ (se < 2 ∧ se < b.length)) : reduction h agg se b = some (h (den b)) := by
  have hsome := (reductionIx_isSome_iff (fun _ => h) (fun _ _ => agg) se b).mpr hse
  obtain ⟨r, hr⟩ := Option.isSome_iff_exists.mp hsome
  have := reductionIx_inv (fun q r => r = h q) (fun _ => h) (fun _ _ => agg) (fun _ _ => rfl)
    (by
      intro d i qs rs hall
      have : rs = qs.map h := by
        induction hall with
        | nil => rfl
        | cons hab _ ih => simp [hab, ih]
      rw [this]; exact hom qs) se b r hr
  simp only [reduction, hr, this, den]


/-- **`bag_mean_eq`**: the `(total, count)` that `Bag.mean` divides is `(sum(seq), len(seq))` — for every
    partitioning; an empty bag raises -/
theorem bag_mean_eq (b : Bag Int) :
    meanB b = some (if (den b).length = 0 then none else some (sumInt (den b), (den b).length)) := by
  have := bag_reduction_eq_guard (fun p : List Int => (sumInt p, p.length))
    (fun rs => (sumInt (rs.map (·.1)), sumNat (rs.map (·.2)))) (by
      intro qs
      induction qs with
      | nil => rfl
      | cons q qs ih =>
        simp only [List.map_cons, List.flatten_cons, sumInt_cons, sumNat_cons, sumInt_append, List.length_append] at ih ⊢
        simp only [Prod.mk.injEq] at ih
        rw [ih.1, ih.2]) b.length b (by omega)
  simp only [meanB, this, Option.map_some]

/-- **`bag_var_eq`**: the `(x2, x, n)` that `Bag.var(ddof)` feeds into `(x2/n - (x/n)²)·n/(n-ddof)` is
    `(Σ x², Σ x, len)` of the sequence — for every partitioning; raises iff `n = 0` or `n = ddof` -/
theorem bag_var_eq (ddof : Nat) (b : Bag Int) :
    varB ddof b = some (if (den b).length = 0 ∨ (den b).length = ddof then none
      else some (sumInt ((den b).map fun x => x * x), sumInt (den b), (den b).length)) := by
  have := bag_reduction_eq_guard (fun p : List Int => (sumInt (p.map fun x => x * x), sumInt p, p.length))
    (fun rs => (sumInt (rs.map (·.1)), sumInt (rs.map (·.2.1)), sumNat (rs.map (·.2.2)))) (by
      intro qs
      induction qs with
      | nil => rfl
      | cons q qs ih =>
        simp only [List.map_cons, List.flatten_cons, sumInt_cons, sumNat_cons, sumInt_append, List.length_append,
          List.map_append] at ih ⊢
        simp only [Prod.mk.injEq] at ih
        rw [ih.1, ih.2.1, ih.2.2]) b.length b (by omega)
  simp only [varB, this, Option.map_some]

example : meanB [[1, 2], [], [6]] = some (some (9, 3)) := by decide
example : meanB [[], []] = some none := by decide
example : varB 1 [[1, 2], [], [6]] = some (some (41, 9, 3)) := by decide
example : varB 1 [[5]] = some none := by decide


/-! ## non-vacuity: every hypothesis used above is satisfied by concrete, non-trivial inputs -/

/-- `(+, +, 0)` on `Int` is a homomorphism (the hypothesis of `bag_fold_eq` / `foldby_eq`) -/
theorem add_hom (q₁ q₂ : List Int) :
    (q₁ ++ q₂).foldl (· + ·) 0 = (q₁.foldl (· + ·) 0) + (q₂.foldl (· + ·) 0) :=
  fold_hom_of_monoid (· + ·) (0 : Int) id Int.add_assoc Int.zero_add Int.add_zero q₁ q₂

example : foldB (· + ·) (· + ·) (0 : Int) 3 [[1, 2], [], [3], [4, 5], [], [6]] = some 21 :=
  bag_fold_eq _ _ _ add_hom 3 (by decide) _
example : reduction (topk 2) (fun rs => topk 2 rs.flatten) 2 [[3, 9], [], [7], [1, 8]] = some [9, 8] :=
  bag_reduction_eq (topk 2) _ (topk_hom 2) 2 (by decide) _
example : reduction (topk 2) (fun rs => topk 2 rs.flatten) 2 [[3, 9], [], [7], [1, 8]] =
    reduction (topk 2) (fun rs => topk 2 rs.flatten) 5 [[3, 9], [], [7], [1, 8]] :=
  split_every_irrelevant (topk 2) _ (topk_hom 2) 2 5 (by decide) (by decide) _
example : den (mapPartitionsB (List.map (· + 1)) [[1, 2], [], [3]]) = [2, 3, 4] :=
  bag_map_partitions_den (List.map (· + (1 : Nat))) (fun qs => by simp [List.map_flatten]) _
example : den (accumulateB (· + ·) none [[], [(1 : Int), 2], [], [3]]) = pyAccumulate (· + ·) none [1, 2, 3] :=
  accumulate_eq_itertools (· + ·) none [[], [(1 : Int), 2], [], [3]] (by decide)
example : takeB 3 (some 2) [[1], [2, 3, 4], [5]] = some [1, 2, 3] := take_first_partitions 3 2 [[1], [2, 3, 4], [5]] (by decide)
example : takeB 3 (some 4) [[1], [2, 3, 4], [5]] = none := take_too_many 3 4 [[1], [2, 3, 4], [5]] (by decide)
example : (repartitionB (fun _ => []) 2 [[1], [2], [3], [4], [5]]).length = 2 :=
  (repartition_fewer (fun _ => []) 2 (by decide) [[1], [2], [3], [4], [5]] (by decide)).2
example : ∃ z, zipB [[1, 2], [3]] [[7, 8], [9]] = some z ∧ den z = [(1, 7), (2, 8), (3, 9)] :=
  bag_zip_den [[1, 2], [3]] [[7, 8], [9]] rfl (by decide)
example : (3, 'c') ∈ (shuffle 2 2 [[(5, 'a'), (2, 'b')], [(3, 'c')], [(6, 'd'), (1, 'e')]]).getD (3 % 2 ^ 2) [] :=
  shuffle_complete 2 2 (by decide) [[(5, 'a'), (2, 'b')], [(3, 'c')], [(6, 'd'), (1, 'e')]] (by decide) 1 (by decide)
    (3, 'c') (by decide)
example : (shuffle 2 2 [[(5, 'a'), (2, 'b')], [(3, 'c')], [(6, 'd'), (1, 'e')]]).flatten.Perm
    [(5, 'a'), (2, 'b'), (3, 'c'), (6, 'd'), (1, 'e')] :=
  shuffle_multiset 2 2 (by decide) _ (by decide)
-- three partitions, k = 2, two stages (k^stages = 4 ≥ 3: one padding partition); keys x % 3, hash = key + 5
example : groupbyTasks (· + 5) (· % 3) 2 2 [[1, 2, 4], [3, 5], [7]] = [[], [(0, [3])], [(1, [1, 4, 7])], [(2, [2, 5])]] := by
  decide
example : [1, 4, 7].Perm ([[1, 2, 4], [3, 5], [7]].flatten.filter fun x => x % 3 == 1) :=
  groupby_group_perm (· + 5) (· % 3) 2 2 (by decide) [[1, 2, 4], [3, 5], [7]] (by decide) 2 [(1, [1, 4, 7])] 1 [1, 4, 7]
    (by decide) (by decide)
example : foldNoInitB max max 2 [[], [3, -1], [], [7], [2]] = some (some 7) :=
  bag_fold_noinit_eq max (by intro a b c; omega) 2 (by decide) [[], [(3 : Int), -1], [], [7], [2]] (by decide)
example : ∃ r, foldbyB (fun x : Int => (x % 3).toNat) (· + ·) 0 (· + ·) 0 2 [[1, 2, 4], [], [3, 5], [7]] = some r ∧
    (r.map (·.1)).Nodup ∧ ∀ κ, r.lookup κ = foldbySpec (fun x : Int => (x % 3).toNat) (· + ·) 0 [1, 2, 4, 3, 5, 7] κ :=
  foldby_eq _ _ 0 _ 0 Int.zero_add add_hom 2 (by decide) [[1, 2, 4], [], [3, 5], [7]]
example : ∃ part, (groupbyDisk (· + 5) (· % 3) 2 [[1, 2, 4], [3, 5], [7]])[(1 + 5) % 2]? = some part ∧
    (1, [1, 4, 7]) ∈ part :=
  groupby_disk_complete (· + 5) (· % 3) 2 (by decide) [[1, 2, 4], [3, 5], [7]] 1 (by decide)
example : den (repartitionSizeB [2, 1, 3] [1, 2, 3] [[1, 2, 3], [4], [5, 6, 7, 8]]) = [1, 2, 3, 4, 5, 6, 7, 8] :=
  (repartition_size_den [2, 1, 3] [1, 2, 3] [[1, 2, 3], [4], [5, 6, 7, 8]] (by decide) rfl (by decide) (by decide) rfl).1
example : (repartitionB (cutsOfBag [List.range 12, [20, 21]] 11) 11 [List.range 12, [20, 21]]).length = 11 :=
  (repartition_more_ieee 11 [List.range 12, [20, 21]] (by decide) (by decide)).2

/-! ## `foldby` without `combine_initial` / without any initial value -/

theorem lookup_mergeWith (combine : β → β → β) (ds : List (List (Nat × β))) (κ : Nat) :
    (mergeWith combine ds).lookup κ =
      (ds.flatten.filter fun kv => kv.1 == κ).foldl (seedStep (fun a (kv : Nat × β) => combine a kv.2) (·.2)) none := by
  have := lookup_foldl_seed (fun kv : Nat × β => kv.1) (fun a (kv : Nat × β) => combine a kv.2) (·.2) ds.flatten [] κ
  simp only [List.lookup_nil] at this
  exact this

/-- merging with `merge_with(reduce(combine))` preserves "the dict holds the key-wise folds" — only the
    homomorphism is needed (no unit: the first partial total of a key seeds the merge) -/
theorem mergeWith_inv (key : α → Nat) (binop : β → α → β) (init : β) (combine : β → β → β)
    (hom : ∀ q₁ q₂ : List α, (q₁ ++ q₂).foldl binop init = combine (q₁.foldl binop init) (q₂.foldl binop init))
    {qs : List (List α)} {rs : List (List (Nat × β))} (hall : All2 (FoldbyInv key binop init) qs rs) :
    FoldbyInv key binop init qs.flatten (mergeWith combine rs) := by
  refine ⟨foldl_seed_nodup (fun kv : Nat × β => kv.1) (fun a (kv : Nat × β) => combine a kv.2) (·.2) rs.flatten [] (by simp),
    fun κ => ?_⟩
  rw [lookup_mergeWith]
  simp only [foldbySpec, List.filter_flatten]
  have key_lemma : ∀ (pre : List α) (acc : Option β),
      acc = (if pre = [] then none else some (pre.foldl binop init)) →
      (rs.map (List.filter fun kv => kv.1 == κ)).flatten.foldl
          (seedStep (fun a (kv : Nat × β) => combine a kv.2) (·.2)) acc =
        (if pre ++ (qs.map (List.filter fun x => key x == κ)).flatten = [] then none
         else some ((pre ++ (qs.map (List.filter fun x => key x == κ)).flatten).foldl binop init)) := by
    induction hall with
    | nil => intro pre acc hacc; simp [hacc]
    | @cons q r qs' rs' hqr _ ih =>
      intro pre acc hacc
      obtain ⟨hnd, hlook⟩ := hqr
      have hfr := filter_key_of_nodup r hnd κ
      rw [hlook κ] at hfr
      simp only [foldbySpec] at hfr
      simp only [List.map_cons, List.flatten_cons]
      by_cases hq : q.filter (fun x => key x == κ) = []
      · simp only [hq, if_true] at hfr
        rw [hfr, hq]
        simpa using ih pre acc hacc
      · simp only [hq, if_false] at hfr
        rw [hfr]
        simp only [List.cons_append, List.nil_append, List.foldl_cons]
        have hne : pre ++ q.filter (fun x => key x == κ) ≠ [] := by simp [hq]
        have hacc' : seedStep (fun a (kv : Nat × β) => combine a kv.2) (·.2) acc
              (κ, (q.filter fun x => key x == κ).foldl binop init) =
            (if pre ++ q.filter (fun x => key x == κ) = [] then none
             else some ((pre ++ q.filter (fun x => key x == κ)).foldl binop init)) := by
          simp only [hne, if_false, seedStep, seedUpd]
          by_cases hp : pre = []
          · subst hp; simp [hacc]
          · simp only [hp, if_false] at hacc
            rw [hacc]; simp only [hom]
        have := ih (pre ++ q.filter (fun x => key x == κ)) _ hacc'
        rw [this, List.append_assoc]
  have := key_lemma [] none (by simp)
  simpa using this

/-- **`foldby_noci_eq`**: `Bag.foldby(key, binop, initial, combine)` WITHOUT `combine_initial` (the levels
    are `merge_with(reduce(combine))`): with `binop/combine/initial` a homomorphism the result is a dict with
    distinct keys whose entry for every key is the sequential fold of the elements with that key — for every
    partitioning and `split_every ≥ 2`. No unit law is needed. -/
theorem foldby_noci_eq (key : α → Nat) (binop : β → α → β) (init : β) (combine : β → β → β)
    (hom : ∀ q₁ q₂ : List α, (q₁ ++ q₂).foldl binop init = combine (q₁.foldl binop init) (q₂.foldl binop init))
    (se : Nat) (hse : 2 ≤ se) (b : Bag α) :
    ∃ r, foldbyNoCIB key binop init combine se b = some r ∧ (r.map (·.1)).Nodup ∧
      ∀ κ, r.lookup κ = foldbySpec key binop init (den b) κ := by
  obtain ⟨r, hr⟩ := Option.isSome_iff_exists.mp
    (plainTree_isSome (mergeWith combine) se hse (b.map fun p => reduceBy key binop init p))
  refine ⟨r, hr, ?_⟩
  have hleaves : ∀ bs : Bag α, All2 (FoldbyInv key binop init) bs (bs.map fun p => reduceBy key binop init p) := by
    intro bs
    induction bs with
    | nil => exact .nil
    | cons p ps ih => exact .cons (reduceBy_inv key binop init p) ih
  exact plainTree_inv (FoldbyInv key binop init) (mergeWith combine)
    (fun qs rs hall => mergeWith_inv key binop init combine hom hall) se (hleaves b) r hr

example : foldbyNoCIB (fun x : Int => (x % 3).toNat) (· + ·) 0 (· + ·) 2 [[1, 2, 4], [], [3, 5], [7]] =
    some [(1, 12), (2, 7), (0, 3)] := by decide


/-- a dict with distinct keys whose entry for `κ` is `functools.reduce(op, elements with key κ)` (absent: none) -/
def NoInitInv (key : α → Nat) (op : α → α → α) (q : List α) (r : List (Nat × α)) : Prop :=
  (r.map (·.1)).Nodup ∧ ∀ κ, r.lookup κ = pyReduce op (q.filter fun x => key x == κ)

theorem reduceByNoInit_inv (key : α → Nat) (op : α → α → α) (p : List α) :
    NoInitInv key op p (reduceByNoInit key op p) := by
  refine ⟨foldl_seed_nodup key op id p [] (by simp), fun κ => ?_⟩
  have := lookup_foldl_seed key op id p [] κ
  simp only [List.lookup_nil] at this
  rw [← foldl_seedStep_none]
  exact this

theorem mergeWith_noinit_inv (key : α → Nat) (op : α → α → α) (assoc : ∀ a b c, op (op a b) c = op a (op b c))
    {qs : List (List α)} {rs : List (List (Nat × α))} (hall : All2 (NoInitInv key op) qs rs) :
    NoInitInv key op qs.flatten (mergeWith op rs) := by
  refine ⟨foldl_seed_nodup (fun kv : Nat × α => kv.1) (fun a (kv : Nat × α) => op a kv.2) (·.2) rs.flatten [] (by simp),
    fun κ => ?_⟩
  rw [lookup_mergeWith]
  simp only [List.filter_flatten]
  have key_lemma : ∀ (pre : List α),
      (rs.map (List.filter fun kv => kv.1 == κ)).flatten.foldl
          (seedStep (fun a (kv : Nat × α) => op a kv.2) (·.2)) (pyReduce op pre) =
        pyReduce op (pre ++ (qs.map (List.filter fun x => key x == κ)).flatten) := by
    induction hall with
    | nil => intro pre; simp
    | @cons q r qs' rs' hqr _ ih =>
      intro pre
      obtain ⟨hnd, hlook⟩ := hqr
      have hfr := filter_key_of_nodup r hnd κ
      rw [hlook κ] at hfr
      simp only [List.map_cons, List.flatten_cons]
      cases hq : q.filter (fun x => key x == κ) with
      | nil =>
        simp only [hq, pyReduce] at hfr
        rw [hfr]
        simpa using ih pre
      | cons y ys =>
        simp only [hq, pyReduce] at hfr
        rw [hfr]
        simp only [List.cons_append, List.nil_append, List.foldl_cons]
        have hstep : seedStep (fun a (kv : Nat × α) => op a kv.2) (·.2) (pyReduce op pre) (κ, ys.foldl op y) =
            pyReduce op (pre ++ y :: ys) := by
          cases pre with
          | nil => simp [seedStep, seedUpd, pyReduce]
          | cons z zs =>
            have := pyReduce_append op assoc (z :: zs) (y :: ys) _ _ rfl rfl
            simp only [seedStep, seedUpd, pyReduce] at this ⊢
            rw [this]
        rw [hstep, ih (pre ++ y :: ys), List.append_assoc]; rfl
  have := key_lemma []
  simpa [pyReduce] using this

/-- **`foldby_noinit_eq`**: `Bag.foldby(key, op)` with NO initial values (`reduceby` seeds every key with its
    first element, the levels are `merge_with(reduce(op))`): for an associative `op` the entry of every key
    is `functools.reduce(op, elements with that key)` — every partitioning, `split_every ≥ 2` -/
theorem foldby_noinit_eq (key : α → Nat) (op : α → α → α) (assoc : ∀ a b c, op (op a b) c = op a (op b c))
    (se : Nat) (hse : 2 ≤ se) (b : Bag α) :
    ∃ r, foldbyNoInitB key op op se b = some r ∧ (r.map (·.1)).Nodup ∧
      ∀ κ, r.lookup κ = pyReduce op ((den b).filter fun x => key x == κ) := by
  obtain ⟨r, hr⟩ := Option.isSome_iff_exists.mp
    (plainTree_isSome (mergeWith op) se hse (b.map fun p => reduceByNoInit key op p))
  refine ⟨r, hr, ?_⟩
  have hleaves : ∀ bs : Bag α, All2 (NoInitInv key op) bs (bs.map fun p => reduceByNoInit key op p) := by
    intro bs
    induction bs with
    | nil => exact .nil
    | cons p ps ih => exact .cons (reduceByNoInit_inv key op p) ih
  exact plainTree_inv (NoInitInv key op) (mergeWith op)
    (fun qs rs hall => mergeWith_noinit_inv key op assoc hall) se (hleaves b) r hr

example : foldbyNoInitB (fun x : Int => (x % 3).toNat) (· + ·) (· + ·) 2 [[1, 2, 4], [], [3, 5], [7]] =
    some [(1, 12), (2, 7), (0, 3)] := by decide
example : ∃ r, foldbyNoInitB (fun x : Int => (x % 3).toNat) max max 2 [[1, 2, 4], [], [3, 5], [7]] = some r ∧
    (r.map (·.1)).Nodup ∧ ∀ κ, r.lookup κ = pyReduce max ([1, 2, 4, 3, 5, 7].filter fun x => (x % 3).toNat == κ) :=
  foldby_noinit_eq _ max (by intro a b c; omega) 2 (by decide) [[1, 2, 4], [], [3, 5], [7]]
example : ∃ r, foldbyNoCIB (fun x : Int => (x % 3).toNat) (· + ·) 0 (· + ·) 3 [[1, 2, 4], [], [3, 5], [7]] = some r ∧
    (r.map (·.1)).Nodup ∧ ∀ κ, r.lookup κ = foldbySpec (fun x : Int => (x % 3).toNat) (· + ·) 0 [1, 2, 4, 3, 5, 7] κ :=
  foldby_noci_eq _ _ 0 _ add_hom 3 (by decide) [[1, 2, 4], [], [3, 5], [7]]

/-! ## the disk shuffle as it runs: blocks, partd files, collect -/

/-- regrouping a block by key does not disturb the elements of any one key -/
theorem blockToFile_filter (hash : Nat → Nat) (g : α → Nat) (nout t : Nat) (block : List α) (κ : Nat) :
    (blockToFile hash g nout t block).filter (fun x => g x == κ) =
      if hash κ % nout == t then block.filter (fun x => g x == κ) else [] := by
  simp only [blockToFile, groupByKeyOrdered, List.flatMap_map, List.filter_flatMap]
  -- per key k of the block: its group filtered by κ is the κ-group when k = κ, nothing otherwise
  have hper : ∀ k, (if hash k % nout == t then block.filter (fun x => g x == k) else []).filter (fun x => g x == κ) =
      if k = κ then (if hash κ % nout == t then block.filter (fun x => g x == κ) else []) else [] := by
    intro k
    by_cases hk : k = κ
    · subst hk
      by_cases ht : (hash k % nout == t) = true
      · simp [ht, List.filter_filter]
      · simp [ht]
    · simp only [hk, if_false]
      by_cases ht : (hash k % nout == t) = true
      · simp only [ht, if_true, List.filter_filter, List.filter_eq_nil_iff, Bool.and_eq_true, beq_iff_eq, not_and]
        intro x _ hx1 hx2; exact hk (hx2.symm.trans hx1 ▸ rfl) |> False.elim
      · simp [ht]
  simp only [hper]
  -- the keys are distinct: κ contributes at most once, and exactly when some element has key κ
  by_cases hmem : κ ∈ (block.map g).eraseDups
  · have hnd := nodup_eraseDups (block.map g)
    generalize (block.map g).eraseDups = ks at hmem hnd
    induction ks with
    | nil => simp at hmem
    | cons k ks ih =>
      simp only [List.flatMap_cons]
      rw [List.nodup_cons] at hnd
      rcases List.mem_cons.mp hmem with rfl | hm
      · have : ks.flatMap (fun k => if k = κ then (if hash κ % nout == t then block.filter (fun x => g x == κ) else []) else []) = [] := by
          rw [List.flatMap_eq_nil_iff]
          intro k hk
          have : k ≠ κ := fun h => hnd.1 (h ▸ hk)
          simp [this]
        rw [this, List.append_nil]; simp
      · have : k ≠ κ := fun h => hnd.1 (h ▸ hm)
        simp only [this, if_false, List.nil_append]
        exact ih hm hnd.2
  · have hnone : block.filter (fun x => g x == κ) = [] := by
      rw [List.filter_eq_nil_iff]
      intro x hx hgx
      apply hmem
      rw [List.mem_eraseDups]
      exact List.mem_map.mpr ⟨x, hx, by simpa using hgx⟩
    have : (block.map g).eraseDups.flatMap (fun k => if k = κ then (if hash κ % nout == t then block.filter (fun x => g x == κ) else []) else []) = [] := by
      rw [List.flatMap_eq_nil_iff]
      intro k hk
      have : k ≠ κ := fun h => hmem (h ▸ hk)
      simp [this]
    rw [this, hnone]; simp

/-- the elements of key `κ` in file `t`: all of them, in the original order, when `t = hash κ % npartitions`;
    none otherwise — whatever the block size -/
theorem diskFile_filter (hash : Nat → Nat) (g : α → Nat) (nout nelements : Nat) (hne : 0 < nelements) (t : Nat)
    (parts : List (List α)) (κ : Nat) :
    (diskFile hash g nout nelements t parts).filter (fun x => g x == κ) =
      if hash κ % nout == t then parts.flatten.filter (fun x => g x == κ) else [] := by
  have hpart : ∀ p : List α, (partitionToFile hash g nout nelements t p).filter (fun x => g x == κ) =
      if hash κ % nout == t then p.filter (fun x => g x == κ) else [] := by
    intro p
    simp only [partitionToFile, List.filter_flatMap, blockToFile_filter]
    by_cases ht : (hash κ % nout == t) = true
    · simp only [ht, if_true]
      rw [← List.filter_flatMap, List.flatMap_id', partitionAll_flatten nelements hne]
    · simp [ht]
  simp only [diskFile, List.filter_flatMap, hpart]
  by_cases ht : (hash κ % nout == t) = true
  · simp only [ht, if_true]
    rw [← List.filter_flatMap, List.flatMap_id']
  · simp [ht]

/-- **`groupby_disk_blocks_spec`**: the disk shuffle as the code runs it (blocks of `blocksize` elements grouped
    and appended to the partd files, partitions in order): a key is reported in output partition
    `hash κ % npartitions` only, with exactly the elements of that key in their original order; and every key
    that occurs is reported. Independent of the block size. -/
theorem groupby_disk_blocks_spec (hash : Nat → Nat) (g : α → Nat) (nout nelements : Nat) (hne : 0 < nelements)
    (parts : List (List α)) :
    (∀ t part κ grp, (groupbyDiskBlocks hash g nout nelements parts)[t]? = some part → (κ, grp) ∈ part →
        t = hash κ % nout ∧ grp = parts.flatten.filter (fun x => g x == κ) ∧ grp ≠ []) ∧
    (0 < nout → ∀ x ∈ parts.flatten, ∃ part, (groupbyDiskBlocks hash g nout nelements parts)[hash (g x) % nout]? = some part ∧
        (g x, parts.flatten.filter fun y => g y == g x) ∈ part) := by
  constructor
  · intro t part κ grp hpart hmem
    simp only [groupbyDiskBlocks, List.getElem?_map] at hpart
    cases ht : (List.range nout)[t]? with
    | none => simp [ht] at hpart
    | some t' =>
      have htt : t' = t := by
        have hlt : t < (List.range nout).length := by
          rcases Nat.lt_or_ge t (List.range nout).length with h | h
          · exact h
          · rw [List.getElem?_eq_none h] at ht; cases ht
        rw [List.getElem?_eq_getElem hlt, List.getElem_range] at ht
        exact (Option.some.inj ht).symm
      subst htt
      simp only [ht, Option.map_some, Option.some.injEq] at hpart
      subst hpart
      obtain ⟨⟨x, hx, hgx⟩, hgrp⟩ := (mem_groupByKeyOrdered g _ κ grp).mp hmem
      have hf := diskFile_filter hash g nout nelements hne t' parts κ
      have hxin : x ∈ (diskFile hash g nout nelements t' parts).filter (fun y => g y == κ) :=
        List.mem_filter.mpr ⟨hx, by simp [hgx]⟩
      by_cases hh : (hash κ % nout == t') = true
      · simp only [hh, if_true] at hf
        refine ⟨(beq_iff_eq.mp hh).symm, by rw [hgrp, hf], ?_⟩
        rw [hgrp]; intro hnil; rw [hnil] at hxin; cases hxin
      · simp only [hh, if_false] at hf
        rw [hf] at hxin; cases hxin
  · intro hn x hx
    have hlt : hash (g x) % nout < nout := Nat.mod_lt _ hn
    refine ⟨groupByKeyOrdered g (diskFile hash g nout nelements (hash (g x) % nout) parts), ?_, ?_⟩
    · simp only [groupbyDiskBlocks, List.getElem?_map, List.getElem?_range hlt, Option.map_some]
    · have hf := diskFile_filter hash g nout nelements hne (hash (g x) % nout) parts (g x)
      simp only [beq_self_eq_true, if_true] at hf
      rw [mem_groupByKeyOrdered]
      refine ⟨?_, hf.symm⟩
      have hxin : x ∈ parts.flatten.filter (fun y => g y == g x) := List.mem_filter.mpr ⟨hx, by simp⟩
      rw [← hf] at hxin
      exact ⟨x, (List.mem_filter.mp hxin).1, rfl⟩

example : groupbyDiskBlocks (· + 5) (· % 3) 2 2 [[1, 2, 4, 5], [3, 7]] =
    [[(1, [1, 4, 7])], [(2, [2, 5]), (0, [3])]] := by decide

end Dask.C48
