import DaskModel.Props.C01
/-!
# C04 — a failing task surfaces its exception and the scheduler terminates cleanly

A task `k` raises when executed iff `P.fails k`.  `Outcome.failed k` = the main loop reached
`raise_exception(exc, tb)` for the result of `k` (the exception object itself is opaque to the model: its
type and message are compared on the real code by the correspondence check).  Which failing batch is seen
first is the adversary's choice; the theorems hold for all of them.
-/
namespace Dask.C04
open Dask.Sched Dask.C01
variable {α : Type} {cfg : Cfg} {P : Params α} {rank : Key → Nat} {st0 : State α}

/-- **`fail_propagates`**: the loop stops with `failed k` only for a task that really raised, that task was
running and is never recorded as finished, nor is anything after it in the same batch -/
theorem fail_propagates (h : Hyp cfg rank) (hs : StartOK cfg (den cfg P rank) st0)
    (choices : List Nat) (s' : Sys α) (k : Key) (hrun : mainLoop cfg P choices (sys0 st0) = .ok (s', .failed k)) :
    P.fails k = true ∧ k ∈ s'.st.running ∧ k ∉ s'.st.finished ∧ k ∉ postKeys s'.log := by
  obtain ⟨_, _, _, _, hfailed, _⟩ := reach_inv P (den_fixpoint cfg P rank h) h.nw h.cs rank h.acyclic hs hrun
  obtain ⟨hf, rest', hB, hk⟩ := hfailed k rfl
  have hrun' : k ∈ s'.st.running := (hB.running k).mp (Or.inr hk)
  have hnf := hB.inv.runningFinished k hrun'
  exact ⟨hf, hrun', hnf, fun hp => hnf ((hB.postIff k).mp hp)⟩

/-- conversely nothing that raises is ever recorded as finished: a call that ends normally executed no
failing task -/
theorem success_means_no_failure (h : Hyp cfg rank) (hs : StartOK cfg (den cfg P rank) st0)
    (choices : List Nat) (s' : Sys α) (hrun : mainLoop cfg P choices (sys0 st0) = .ok (s', .done))
    (k : Key) (hk : k ∈ preKeys s'.log) : P.fails k = false := by
  obtain ⟨_, _, hfok, hdone, _⟩ := reach_inv P (den_fixpoint cfg P rank h) h.nw h.cs rank h.acyclic hs hrun
  obtain ⟨hB, hl⟩ := hdone rfl
  have hrun0 : s'.st.running = [] := ((loopCond_false_iff s'.st).mp hl).2.2
  rcases (hB.preIff k).mp hk with h1 | h1
  · rw [hrun0] at h1; cases h1
  · exact hfok k h1

/-- **`no_dependent_of_failed_runs`**: nothing that depends (directly or transitively) on the failed task
was ever fired, is ready, or is running -/
theorem no_dependent_of_failed_runs (h : Hyp cfg rank) (hs : StartOK cfg (den cfg P rank) st0)
    (choices : List Nat) (s' : Sys α) (k : Key) (hrun : mainLoop cfg P choices (sys0 st0) = .ok (s', .failed k))
    (j : Key) (hj : DependsOn s'.st k j) :
    j ∉ preKeys s'.log ∧ j ∉ s'.st.ready ∧ j ∉ s'.st.running ∧ j ∉ s'.st.finished := by
  obtain ⟨_, _, _, _, hfailed, _⟩ := reach_inv P (den_fixpoint cfg P rank h) h.nw h.cs rank h.acyclic hs hrun
  obtain ⟨_, rest', hB, hk⟩ := hfailed k rfl
  have hrun' : k ∈ s'.st.running := (hB.running k).mp (Or.inr hk)
  obtain ⟨a, b, c⟩ := hB.inv.blocked_by_unfinished (hB.inv.runningTask k hrun').2 (hB.inv.runningFinished k hrun') hj
  refine ⟨?_, a, b, c⟩
  intro hp
  rcases (hB.preIff j).mp hp with h1 | h1
  · exact b h1
  · exact c h1

/-- the same holds at *every* moment for every task that has not finished (so also for tasks whose failure
has not been seen yet, and when several tasks fail) -/
theorem no_dependent_of_unfinished_runs (h : Hyp cfg rank) (hs : StartOK cfg (den cfg P rank) st0)
    (choices : List Nat) (s' : Sys α) (o : Outcome) (hrun : mainLoop cfg P choices (sys0 st0) = .ok (s', o))
    (k : Key) (hkt : isTask cfg.g k) (hkf : k ∉ s'.st.finished) (j : Key) (hj : DependsOn s'.st k j) :
    j ∉ preKeys s'.log := by
  obtain ⟨⟨rest, hB⟩, _⟩ := reach_inv P (den_fixpoint cfg P rank h) h.nw h.cs rank h.acyclic hs hrun
  obtain ⟨a, b, c⟩ := hB.inv.blocked_by_unfinished hkt hkf hj
  intro hp
  rcases (hB.preIff j).mp hp with h1 | h1
  · exact b h1
  · exact c h1

/-- **`rerun_locally_inputs_cached`** (`rerun_exceptions_locally=True`): at the moment the loop sees the failure of `k`,
every dependency of `k` is still in the scheduler's cache with its denoted value, so the local re-execution
`data = {dep: state["cache"][dep] for dep in get_dependencies(dsk, key)}; task(data)` cannot raise `KeyError` and runs the
task on exactly the inputs the worker had - for every completion order (nothing `k` needs was released early). -/
theorem rerun_locally_inputs_cached (h : Hyp cfg rank) (hs : StartOK cfg (den cfg P rank) st0)
    (choices : List Nat) (s' : Sys α) (k : Key) (hrun : mainLoop cfg P choices (sys0 st0) = .ok (s', .failed k)) :
    s'.st.depsOf k = nodeDeps cfg.g k ∧ ∀ d ∈ nodeDeps cfg.g k, s'.st.cache.get? d = some (den cfg P rank d) := by
  obtain ⟨_, _, _, _, hfailed, _⟩ := reach_inv P (den_fixpoint cfg P rank h) h.nw h.cs rank h.acyclic hs hrun
  obtain ⟨_, rest', hB, hk⟩ := hfailed k rfl
  have hrun' : k ∈ s'.st.running := (hB.running k).mp (Or.inr hk)
  obtain ⟨ds, hds⟩ := (hB.inv.runningTask k hrun').1
  have hdeps : s'.st.depsOf k = nodeDeps cfg.g k := by
    rw [depsOf_of_get hds]; exact hB.inv.depsGraph k ds hds
  refine ⟨hdeps, ?_⟩
  intro d hd
  rw [← hdeps] at hd
  obtain ⟨v, hv⟩ := hB.inv.dep_cached (Or.inr hrun') hd
  rw [hv, hB.sound d v hv]

/-- **`no_hang`**: whatever fails and whenever, the loop never waits on an empty queue and never raises an
internal error; it ends (done or failed) within `#visited keys` iterations -/
theorem no_hang (h : Hyp cfg rank) (hs : StartOK cfg (den cfg P rank) st0) (choices : List Nat) :
    (∀ e, mainLoop cfg P choices (sys0 st0) = .error e → e = .badChoice) ∧
    (st0.dependencies.length < choices.length → ∀ s' o, mainLoop cfg P choices (sys0 st0) = .ok (s', o) → o ≠ .starved) :=
  ⟨fun e he => sched_no_internal_error h hs choices e he,
   fun hlen s' o hrun => sched_terminates h hs choices hlen s' o hrun⟩

/-- no `finish` event is emitted inside the loop -/
theorem no_finish_inside (h : Hyp cfg rank) (hs : StartOK cfg (den cfg P rank) st0)
    (choices : List Nat) (s' : Sys α) (o : Outcome) (hrun : mainLoop cfg P choices (sys0 st0) = .ok (s', o)) :
    ∀ e ∈ s'.log, ∀ b, e.1 ≠ Ev.finish b := by
  obtain ⟨⟨rest, hB⟩, _⟩ := reach_inv P (den_fixpoint cfg P rank h) h.nw h.cs rank h.acyclic hs hrun
  exact hB.noFinish

def isFinish (e : Ev × State α) : Bool := match e.1 with | .finish _ => true | _ => false

/-- **`finish_cb_exactly_once`**: every `get_async` call — normal return, task failure, internal error or
`start_state_from_dask` raising — emits exactly one `finish` event, as the last event, with
`failed = true` iff the call does not return normally -/
theorem finish_cb_exactly_once (h : Hyp cfg rank) (hst : startState cfg P = .ok st0)
    (hs : StartOK cfg (den cfg P rank) st0) (choices : List Nat) :
    ∃ l st b, (getAsync cfg P choices).log = l ++ [(Ev.finish b, st)] ∧ (∀ e ∈ l, isFinish e = false) ∧
      (b = false ↔ (getAsync cfg P choices).outcome = .ok .done) := by
  rw [getAsync_eq hst (hs.accessible rank h.acyclic) choices]
  have h0 : ∀ e ∈ (sys0 st0).log, isFinish e = false := by
    intro e he
    simp only [sys0, List.mem_cons, List.not_mem_nil, or_false] at he
    rcases he with rfl | rfl <;> rfl
  cases hml : mainLoop cfg P choices (sys0 st0) with
  | error e => exact ⟨_, _, true, rfl, h0, by simp⟩
  | ok r =>
    obtain ⟨s', o⟩ := r
    have hnf := no_finish_inside h hs choices s' o hml
    have hl : ∀ e ∈ s'.log, isFinish e = false := by
      intro e he
      have := hnf e he
      unfold isFinish
      split
      · rename_i b hb; exact absurd hb (this b)
      · rfl
    cases o with
    | done => exact ⟨_, _, false, rfl, hl, by simp⟩
    | starved => exact ⟨_, _, true, rfl, hl, by simp⟩
    | failed k => exact ⟨_, _, true, rfl, hl, by simp⟩

/-- when `start_state_from_dask` itself raises (e.g. a missing dependency) the finish callbacks still run
once, with `failed = true` -/
theorem finish_cb_when_start_raises (e : Err) (hst : startState cfg P = .error e) (choices : List Nat) :
    (getAsync cfg P choices).log = [(Ev.start, ({} : State α)), (Ev.finish true, ({} : State α))] ∧
    (getAsync cfg P choices).outcome = .error e := by
  simp [getAsync, hst]

/-! ## full statements (no `StartOK` hypothesis) -/
section Full
variable (h : Hyp cfg rank) (hG : GraphOK cfg.g cfg.results) (hst : startState cfg P = .ok st0)
include h hG hst

theorem fail_propagates_full (choices : List Nat) (s' : Sys α) (k : Key)
    (hrun : mainLoop cfg P choices (sys0 st0) = .ok (s', .failed k)) :
    P.fails k = true ∧ k ∈ s'.st.running ∧ k ∉ s'.st.finished ∧ k ∉ postKeys s'.log :=
  fail_propagates h (C01.startOK_of_eq h hG hst) choices s' k hrun

theorem no_dependent_of_failed_runs_full (choices : List Nat) (s' : Sys α) (k : Key)
    (hrun : mainLoop cfg P choices (sys0 st0) = .ok (s', .failed k)) (j : Key) (hj : DependsOn s'.st k j) :
    j ∉ preKeys s'.log ∧ j ∉ s'.st.ready ∧ j ∉ s'.st.running ∧ j ∉ s'.st.finished :=
  no_dependent_of_failed_runs h (C01.startOK_of_eq h hG hst) choices s' k hrun j hj

theorem rerun_locally_inputs_cached_full (choices : List Nat) (s' : Sys α) (k : Key)
    (hrun : mainLoop cfg P choices (sys0 st0) = .ok (s', .failed k)) :
    s'.st.depsOf k = nodeDeps cfg.g k ∧ ∀ d ∈ nodeDeps cfg.g k, s'.st.cache.get? d = some (den cfg P rank d) :=
  rerun_locally_inputs_cached h (C01.startOK_of_eq h hG hst) choices s' k hrun

theorem finish_cb_exactly_once_full (choices : List Nat) :
    ∃ l st b, (getAsync cfg P choices).log = l ++ [(Ev.finish b, st)] ∧ (∀ e ∈ l, isFinish e = false) ∧
      (b = false ↔ (getAsync cfg P choices).outcome = .ok .done) :=
  finish_cb_exactly_once h hst (C01.startOK_of_eq h hG hst) choices

theorem no_hang_full (choices : List Nat) :
    (∀ e, mainLoop cfg P choices (sys0 st0) = .error e → e = .badChoice) ∧
    (st0.dependencies.length < choices.length → ∀ s' o, mainLoop cfg P choices (sys0 st0) = .ok (s', o) → o ≠ .starved) :=
  no_hang h (C01.startOK_of_eq h hG hst) choices

end Full

/-! non-vacuity: the diamond of C01 where task 2 raises; task 1 completes first or second -/
def exFail : Params Nat := { C01.exP with fails := fun k => k == 2 }
def outcomeOf (r : Run Nat) : Option Outcome := match r.outcome with | .ok o => some o | .error _ => none

example : outcomeOf (getAsync (C01.exCfg 1) exFail [0, 0, 0]) = some (.failed 2) := by decide
example : outcomeOf (getAsync (C01.exCfg 1) exFail [1, 0, 0]) = some (.failed 2) := by decide
/-- the join `3` is never fired, and the last event is `finish true` -/
example : preKeys (getAsync (C01.exCfg 1) exFail [0, 0, 0]).log = [1, 2] := by decide
example : ((getAsync (C01.exCfg 1) exFail [0, 0, 0]).log.map (·.1)).getLast? = some (Ev.finish true) := by decide
/-- …and the input `0` of the failed task `2` is still cached when the failure is seen (`rerun_locally_inputs_cached`) -/
example : (getAsync (C01.exCfg 1) exFail [0, 0, 0]).final.cache.get? 0 = some 7 := by decide

end Dask.C04
