import DaskModel.Model.KeySplit
import DaskModel.Props.C18b
/-!
# C18 (continued) — the documented shape of `key_split`, and the unit-less paths of `parse_timedelta`

* `key_split_name_prefix`, `key_split_all_words` — for the keys dask generates (`name-words-…-token`): the result is
  the leading run of alphabetic words (8-letter words starting with `a`–`f` count as hex and stop the run)
* `key_split_hex32` — a bare 32-character lower-case hex token is reported as `"data"`
* `parse_timedelta_default_unit` — a string without trailing letters is read in the `default` unit, exactly as if the
  unit had been written; `parse_timedelta_bare_unit` — a bare unit means one of it
`key_split` returns `"Other"` whenever anything raises: totality is by construction (`keySplit` is a total function).
-/
namespace Dask.C18
open Dask.PyStr Dask.Bytes Dask.KeySplit
open Dask.Generated.ByteTables

/-- `"-".join(words)` -/
def joinDash : List (List Char) → List Char
  | [] => []
  | [w] => w
  | w :: w' :: ws => w ++ '-' :: joinDash (w' :: ws)

theorem splitL_ne_nil (sep : Char) (cs : List Char) : splitL sep cs ≠ [] := by
  induction cs with
  | nil => simp [splitL]
  | cons c r ih =>
    simp only [splitL]
    cases h : splitL sep r with
    | nil => simp
    | cons p ps => by_cases hc : c = sep <;> simp [hc]

theorem splitL_noSep (sep : Char) (w : List Char) (h : sep ∉ w) : splitL sep w = [w] := by
  induction w with
  | nil => simp [splitL]
  | cons c r ih =>
    simp only [List.mem_cons, not_or] at h
    simp only [splitL, ih h.2]
    have : c ≠ sep := fun e => h.1 e.symm
    simp [this]

theorem splitL_append_sep (sep : Char) (w rest : List Char) (h : sep ∉ w) :
    splitL sep (w ++ sep :: rest) = w :: splitL sep rest := by
  induction w with
  | nil =>
    simp only [List.nil_append, splitL]
    cases hs : splitL sep rest with
    | nil => exact absurd hs (splitL_ne_nil sep rest)
    | cons p ps => simp
  | cons c r ih =>
    simp only [List.mem_cons, not_or] at h
    simp only [List.cons_append, splitL, ih h.2]
    have : c ≠ sep := fun e => h.1 e.symm
    simp [this]

theorem splitL_joinDash : ∀ (words : List (List Char)), words ≠ [] → (∀ w ∈ words, '-' ∉ w) →
    splitL '-' (joinDash words) = words
  | [], h, _ => absurd rfl h
  | [w], _, hw => by simp [joinDash, splitL_noSep '-' w (hw w (by simp))]
  | w :: w' :: ws, _, hw => by
    simp only [joinDash]
    rw [splitL_append_sep '-' w _ (hw w (by simp)),
        splitL_joinDash (w' :: ws) (by simp) (fun x hx => hw x (List.mem_cons_of_mem _ hx))]

/-- `-w1-w2…` -/
def tailJoin (ws : List (List Char)) : List Char := (ws.map fun w => '-' :: w).flatten

theorem joinDash_cons (w0 : List Char) (ws : List (List Char)) : joinDash (w0 :: ws) = w0 ++ tailJoin ws := by
  induction ws generalizing w0 with
  | nil => simp [joinDash, tailJoin]
  | cons w ws ih => simp [joinDash, ih w, tailJoin]

/-- a word the loop of `key_split` keeps: alphabetic and not an 8-letter word starting with a–f -/
def Keeps (w : List Char) : Prop := isWordAlpha w = true ∧ looksHex8 w = false

theorem extend_keeps (ws : List (List Char)) (hws : ∀ w ∈ ws, Keeps w) (result : List Char) (rest : List (List Char)) :
    extend result (ws ++ rest) = extend (result ++ tailJoin ws) rest := by
  induction ws generalizing result with
  | nil => simp [tailJoin]
  | cons w ws ih =>
    have hw := hws w (by simp)
    simp only [List.cons_append, extend, hw.1, hw.2, Bool.not_false, Bool.and_self, if_true]
    rw [ih (fun x hx => hws x (List.mem_cons_of_mem _ hx))]
    simp [tailJoin]

theorem alpha_no_dash (w : List Char) (h : isWordAlpha w = true) : '-' ∉ w := by
  intro hm
  simp only [isWordAlpha, Bool.and_eq_true, List.all_eq_true] at h
  have := h.2 '-' hm
  revert this
  decide

theorem isAlpha_ne_lt (c : Char) (h : isAlpha c = true) : c ≠ '<' := by
  intro e
  subst e
  revert h
  decide

/-- **key_split_name_prefix.** The documented shape: for a key `w0-w1-…-wk-stop-…` whose leading words are alphabetic
(and, from the second on, not 8-letter words starting with `a`–`f`, which are taken for hex) and whose next word `stop`
is not such a word (a number, a token with digits, `abcdefab`, …), `key_split` returns `w0-w1-…-wk` — unless that
prefix is itself 32 hex characters (then `"data"`). -/
theorem key_split_name_prefix (w0 : List Char) (ws more : List (List Char)) (stop : List Char)
    (h0 : isWordAlpha w0 = true) (hws : ∀ w ∈ ws, Keeps w) (hstop : ¬ Keeps stop)
    (hnd : '-' ∉ stop ∧ ∀ m ∈ more, '-' ∉ m)
    (hdata : ¬ ((joinDash (w0 :: ws)).length = 32 ∧ (joinDash (w0 :: ws)).all isHexDigit = true)) :
    keySplitCore (joinDash (w0 :: ws ++ stop :: more)) = some (joinDash (w0 :: ws)) := by
  have hsplit : splitL '-' (joinDash (w0 :: ws ++ stop :: more)) = w0 :: ws ++ stop :: more := by
    apply splitL_joinDash _ (by simp)
    intro w hw
    simp only [List.cons_append, List.mem_cons, List.mem_append] at hw
    rcases hw with rfl | hw | rfl | hw
    · exact alpha_no_dash _ h0
    · exact alpha_no_dash _ (hws w hw).1
    · exact hnd.1
    · exact hnd.2 w hw
  cases w0 with
  | nil => simp [isWordAlpha] at h0
  | cons c0 r0 =>
    have hc0 : isAlpha c0 = true := by
      simp only [isWordAlpha, Bool.and_eq_true, List.all_cons] at h0
      exact h0.2.1
    have hext : extend (c0 :: r0) (ws ++ stop :: more) = (c0 :: r0) ++ tailJoin ws := by
      rw [extend_keeps ws hws]
      simp only [extend]
      have : (isWordAlpha stop && !looksHex8 stop) = false := by
        cases ha : isWordAlpha stop <;> cases hh : looksHex8 stop <;> simp
        exact hstop ⟨ha, hh⟩
      simp [this]
    unfold keySplitCore
    rw [hsplit]
    simp only [List.cons_append, startOf, hc0, Bool.not_true, Bool.false_eq_true, if_false, hext]
    rw [joinDash_cons] at hdata ⊢
    have hd : ((c0 :: (r0 ++ tailJoin ws)).length == 32 && (c0 :: (r0 ++ tailJoin ws)).all isHexDigit) = false := by
      cases h1 : ((c0 :: (r0 ++ tailJoin ws)).length == 32) <;> cases h2 : (c0 :: (r0 ++ tailJoin ws)).all isHexDigit <;> simp
      apply hdata
      simp only [List.cons_append]
      exact ⟨by simpa using h1, h2⟩
    simp only [hd, Bool.false_eq_true, if_false]
    have hlt := isAlpha_ne_lt c0 hc0
    split
    · rename_i heq; cases heq
    · rename_i heq
      simp only [List.cons.injEq] at heq
      exact absurd heq.1 hlt
    · rfl


/-- the whole key consists of kept words: it is returned as it is (`key_split('hello-world') = 'hello-world'`) -/
theorem key_split_all_words (w0 : List Char) (ws : List (List Char))
    (h0 : isWordAlpha w0 = true) (hws : ∀ w ∈ ws, Keeps w)
    (hdata : ¬ ((joinDash (w0 :: ws)).length = 32 ∧ (joinDash (w0 :: ws)).all isHexDigit = true)) :
    keySplitCore (joinDash (w0 :: ws)) = some (joinDash (w0 :: ws)) := by
  have hsplit : splitL '-' (joinDash (w0 :: ws)) = w0 :: ws := by
    apply splitL_joinDash _ (by simp)
    intro w hw
    simp only [List.mem_cons] at hw
    rcases hw with rfl | hw
    · exact alpha_no_dash _ h0
    · exact alpha_no_dash _ (hws w hw).1
  cases w0 with
  | nil => simp [isWordAlpha] at h0
  | cons c0 r0 =>
    have hc0 : isAlpha c0 = true := by
      simp only [isWordAlpha, Bool.and_eq_true, List.all_cons] at h0
      exact h0.2.1
    have hext : extend (c0 :: r0) ws = (c0 :: r0) ++ tailJoin ws := by
      have := extend_keeps ws hws (c0 :: r0) []
      simpa [extend] using this
    unfold keySplitCore
    rw [hsplit]
    simp only [startOf, hc0, Bool.not_true, Bool.false_eq_true, if_false, hext]
    rw [joinDash_cons] at hdata ⊢
    have hd : ((c0 :: (r0 ++ tailJoin ws)).length == 32 && (c0 :: (r0 ++ tailJoin ws)).all isHexDigit) = false := by
      cases h1 : ((c0 :: (r0 ++ tailJoin ws)).length == 32) <;> cases h2 : (c0 :: (r0 ++ tailJoin ws)).all isHexDigit <;> simp
      apply hdata
      simp only [List.cons_append]
      exact ⟨by simpa using h1, h2⟩
    simp only [List.cons_append, hd, Bool.false_eq_true, if_false]
    have hlt := isAlpha_ne_lt c0 hc0
    split
    · rename_i heq; cases heq
    · rename_i heq
      simp only [List.cons.injEq] at heq
      exact absurd heq.1 hlt
    · rfl

theorem stripLeft_of_head (set : List Char) (c : Char) (r : List Char) (h : c ∉ set) :
    stripLeft set (c :: r) = c :: r := by simp [stripLeft, h]

theorem stripSet_id (set : List Char) (cs : List Char) (h : ∀ c ∈ cs, c ∉ set) : stripSet set cs = cs := by
  unfold stripSet
  have h1 : stripLeft set cs = cs := by
    cases cs with
    | nil => rfl
    | cons c r => exact stripLeft_of_head set c r (h c (by simp))
  rw [h1]
  have h2 : stripLeft set cs.reverse = cs.reverse := by
    cases hr : cs.reverse with
    | nil => rfl
    | cons c r =>
      apply stripLeft_of_head
      apply h c
      have : c ∈ cs.reverse := by rw [hr]; simp
      simpa using this
  rw [h2, List.reverse_reverse]

theorem hexDigit_props (c : Char) (h : isHexDigit c = true) :
    c ≠ '-' ∧ c ≠ ',' ∧ c ∉ ['_', '\'', '(', ')', '"'] := by
  refine ⟨?_, ?_, ?_⟩
  · rintro rfl; revert h; decide
  · rintro rfl; revert h; decide
  · simp only [List.mem_cons, List.not_mem_nil, or_false]
    rintro (rfl | rfl | rfl | rfl | rfl) <;> (revert h; decide)

/-- **key_split_hex32.** A key that is 32 lower-case hex characters (a bare token) is reported as `"data"`. -/
theorem key_split_hex32 (cs : List Char) (hlen : cs.length = 32) (hhex : cs.all isHexDigit = true) :
    keySplitCore cs = some "data".toList := by
  have hall : ∀ c ∈ cs, isHexDigit c = true := by simpa using hhex
  have hnd : '-' ∉ cs := fun hm => (hexDigit_props _ (hall _ hm)).1 rfl
  have hnc : ',' ∉ cs := fun hm => (hexDigit_props _ (hall _ hm)).2.1 rfl
  cases cs with
  | nil => simp at hlen
  | cons c0 r =>
    unfold keySplitCore
    rw [splitL_noSep '-' _ hnd]
    simp only
    have hstart : startOf c0 (c0 :: r) = c0 :: r := by
      unfold startOf
      split
      · unfold firstPiece
        rw [splitL_noSep ',' _ hnc]
        exact stripSet_id _ _ (fun c hc => (hexDigit_props c (hall c hc)).2.2)
      · rfl
    rw [hstart]
    have : ((c0 :: r).length == 32 && (c0 :: r).all isHexDigit) = true := by
      rw [hhex, Bool.and_true]
      simp [hlen]
    simp only [extend, this, if_true]

example : keySplit "hello-world-1" = "hello-world" ∧ keySplit "x-abcdefab" = "x" ∧
    keySplit "ae05086432ca935f6eba409a8ecd4896" = "data" ∧ keySplit "<module.submodule.myclass object at 0xdaf372" = "myclass" ∧
    keySplit "_(x)" = "x" ∧ keySplit "('x-2', 1)" = "x" ∧ keySplit "" = "Other" := by decide

/-- non-vacuity of `key_split_name_prefix`: `getitem-from-array-0f3a…` -/
example : Keeps "from".toList ∧ Keeps "array".toList ∧ ¬ Keeps "0f3a".toList ∧ ¬ Keeps "abcdefab".toList ∧
    isWordAlpha "getitem".toList = true := by
  unfold Keeps; decide

theorem filter_nospace (l : List Char) (h : ' ' ∉ l) : l.filter (· ≠ ' ') = l := by
  apply List.filter_eq_self.mpr
  intro x hx
  simp only [ne_eq, decide_not, Bool.not_eq_eq_eq_not, Bool.not_true, decide_eq_false_iff_not]
  intro e; subst e; exact h hx

theorem alpha_nospace (d : List Char) (h : d.all isAlpha = true) : ' ' ∉ d := by
  intro hm
  have := (List.all_eq_true.mp h) ' ' hm
  revert this
  decide

/-- **parse_timedelta_default_unit.** A string that does not end in letters has no unit: it is read in the `default`
unit — exactly as if that unit had been written after it. (`body ++ [c]` = the string without spaces, `c` its last
character, not a letter; `d` = the default unit, letters only.) -/
theorem parse_timedelta_default_unit (body : List Char) (c : Char) (d : List Char) (other : String)
    (hc : isAlpha c = false) (hsp : ' ' ∉ body ++ [c]) (hd : d.all isAlpha = true) (hne : d ≠ []) :
    parseTimedelta (String.ofList (body ++ [c])) (String.ofList d) =
      parseTimedelta (String.ofList (body ++ [c] ++ d)) other := by
  unfold parseTimedelta
  have hsp2 : ' ' ∉ body ++ [c] ++ d := by
    intro hm
    rcases List.mem_append.mp hm with h | h
    · exact hsp h
    · exact alpha_nospace d hd h
  simp only [String.toList_ofList, filter_nospace _ hsp, filter_nospace _ hsp2]
  cases hb : body ++ [c] with
  | nil => simp at hb
  | cons c0 r =>
    simp only [List.cons_append]
    -- the (possibly `1`-prefixed) string is `pre ++ [c]`
    have key : ∀ (pre : List Char), splitUnit (pre ++ [c]) = (pre ++ [c], []) ∧
        splitUnit (pre ++ [c] ++ d) = (pre ++ [c], d) := by
      intro pre
      have h1 := splitUnit_append pre [] c (by simp) hc
      have h2 := splitUnit_append pre d c hd hc
      simp only [List.append_assoc, List.cons_append, List.nil_append] at h1 h2 ⊢
      exact ⟨h1, h2⟩
    have hdemp : d.isEmpty = false := by cases d <;> simp_all
    by_cases h0 : (isDigit c0 || decide (c0 = '.')) = true
    · obtain ⟨k1, k2⟩ := key body
      rw [hb] at k1 k2
      simp only [List.cons_append] at k1 k2
      simp only [h0, if_true, k1, k2, List.isEmpty_nil, hdemp, Bool.false_eq_true, if_false]
    · obtain ⟨k1, k2⟩ := key ('1' :: body)
      simp only [List.cons_append] at k1 k2
      rw [hb] at k1 k2
      simp only [List.cons_append] at k1 k2
      simp only [h0, Bool.false_eq_true, if_false, k1, k2, List.isEmpty_nil, hdemp, if_true]

/-- **parse_timedelta_bare_unit.** A bare unit such as `"ms"` means one of it: a string that starts with neither a
digit nor `.` is read as if `1` stood in front. -/
theorem parse_timedelta_bare_unit (c0 : Char) (r : List Char) (dflt : String)
    (h0 : (isDigit c0 || decide (c0 = '.')) = false) (hsp : ' ' ∉ c0 :: r) :
    parseTimedelta (String.ofList (c0 :: r)) dflt = parseTimedelta (String.ofList ('1' :: c0 :: r)) dflt := by
  unfold parseTimedelta
  have hsp2 : ' ' ∉ '1' :: c0 :: r := by
    intro hm
    rcases List.mem_cons.mp hm with h | h
    · revert h; decide
    · exact hsp h
  simp only [String.toList_ofList, filter_nospace _ hsp, filter_nospace _ hsp2, h0, Bool.false_eq_true, if_false]
  have : (isDigit '1' || decide ('1' = '.')) = true := by decide
  simp only [this, if_true]

example : parseTimedelta "5" "ms" = parseTimedelta "5ms" "seconds" ∧ parseTimedelta "ms" "seconds" = parseTimedelta "1ms" "seconds" ∧
    parseTimedelta "1.5" "h" = .int 5400 ∧ parseTimedelta "3" "seconds" = .int 3 := by decide

end Dask.C18
