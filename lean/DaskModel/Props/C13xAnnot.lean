import DaskModel.Model.SeqAnnot
/-!
C13 extension — the annotations of collections computed together (`_ExprSequence.__dask_annotations__`).
The annotation a task key carries in the combined computation is the one of the LAST collection that annotates it
(`seq_annotations_lookup`); hence a key annotated by one collection only keeps exactly the annotation it has when that
collection is computed alone (`seq_annotations_alone`), and only a shared key lets one collection's annotation replace
another's (`seq_annotations_shared_replaced`, witness).
-/
namespace Dask.C13xAnnot
open Dask.SeqAnnot
variable {κ ν τ : Type} [DecidableEq κ] [DecidableEq τ]

/-- first `some` -/
def orE : Option ν → Option ν → Option ν
  | some x, _ => some x
  | none, y => y

@[simp] theorem orE_some (x : ν) (y : Option ν) : orE (some x) y = some x := rfl
@[simp] theorem orE_none (y : Option ν) : orE none y = y := rfl
@[simp] theorem orE_none_right (x : Option ν) : orE x none = x := by cases x <;> rfl
theorem orE_assoc (a b c : Option ν) : orE (orE a b) c = orE a (orE b c) := by cases a <;> rfl

/-- the last item of key `k` in an item list (for a dict, whose keys are unique: its item) -/
def lookupLast : List (κ × ν) → κ → Option ν
  | [], _ => none
  | (a, b) :: r, k => orE (lookupLast r k) (if a = k then some b else none)

/-- what one `(type, dict)` item of an operand says about `(t, k)` -/
def getE (e : τ × List (κ × ν)) (t : τ) (k : κ) : Option ν := if e.1 = t then lookupLast e.2 k else none

/-- what one operand says about `(t, k)` -/
def getOp : Ann τ κ ν → τ → κ → Option ν
  | [], _, _ => none
  | e :: r, t, k => orE (getOp r t k) (getE e t k)

/-- the last operand that says something about `(t, k)` -/
def getOps : List (Ann τ κ ν) → τ → κ → Option ν
  | [], _, _ => none
  | op :: r, t, k => orE (getOps r t k) (getOp op t k)

theorem lookup_dset (d : List (κ × ν)) (k k' : κ) (v : ν) :
    lookup (dset d k v) k' = if k = k' then some v else lookup d k' := by
  induction d with
  | nil => simp [dset, lookup]
  | cons e r ih =>
    obtain ⟨a, b⟩ := e
    by_cases h : a = k
    · subst h; by_cases h' : a = k' <;> simp [dset, lookup, h']
    · by_cases h' : a = k'
      · subst h'
        have : ¬ k = a := fun e => h e.symm
        simp [dset, lookup, h, this]
      · simp [dset, lookup, h, h', ih]

theorem lookup_dupdate (d v : List (κ × ν)) (k : κ) :
    lookup (dupdate d v) k = orE (lookupLast v k) (lookup d k) := by
  induction v generalizing d with
  | nil => simp [dupdate, lookupLast]
  | cons e r ih =>
    have := ih (dset d e.1 e.2)
    simp only [dupdate, List.foldl_cons] at this ⊢
    rw [this, lookup_dset]
    obtain ⟨a, b⟩ := e
    simp only [lookupLast, orE_assoc]
    by_cases h : a = k <;> simp [h]

theorem get2_step (acc : Ann τ κ ν) (e : τ × List (κ × ν)) (t : τ) (k : κ) :
    get2 (step acc e) t k = orE (getE e t k) (get2 acc t k) := by
  unfold get2 step getE
  rw [lookup_dset]
  by_cases h : e.1 = t
  · subst h
    simp only [if_true, lookup_dupdate]
    cases lookup acc e.1 <;> simp [lookup]
  · simp [h]

theorem get2_mergeOne (acc op : Ann τ κ ν) (t : τ) (k : κ) :
    get2 (mergeOne acc op) t k = orE (getOp op t k) (get2 acc t k) := by
  induction op generalizing acc with
  | nil => simp [mergeOne, getOp]
  | cons e r ih =>
    have := ih (step acc e)
    simp only [mergeOne, List.foldl_cons] at this ⊢
    rw [this, get2_step, getOp, orE_assoc]

theorem get2_foldl (acc : Ann τ κ ν) (ops : List (Ann τ κ ν)) (t : τ) (k : κ) :
    get2 (ops.foldl mergeOne acc) t k = orE (getOps ops t k) (get2 acc t k) := by
  induction ops generalizing acc with
  | nil => simp [getOps]
  | cons op r ih => rw [List.foldl_cons, ih, get2_mergeOne, getOps, orE_assoc]

/-- the annotation of `(t, k)` in the combined computation is the one of the last operand that annotates it -/
theorem seq_annotations_lookup (ops : List (Ann τ κ ν)) (t : τ) (k : κ) :
    get2 (merge ops) t k = getOps ops t k := by
  unfold merge
  rw [get2_foldl]
  simp [get2, lookup]

theorem getOps_append (p q : List (Ann τ κ ν)) (t : τ) (k : κ) :
    getOps (p ++ q) t k = orE (getOps q t k) (getOps p t k) := by
  induction p with
  | nil => simp [getOps]
  | cons a r ih => simp [getOps, ih, orE_assoc]

theorem getOps_none (q : List (Ann τ κ ν)) (t : τ) (k : κ) (h : ∀ p ∈ q, getOp p t k = none) :
    getOps q t k = none := by
  induction q with
  | nil => rfl
  | cons a r ih =>
    simp [getOps, ih (fun p hp => h p (List.mem_cons_of_mem _ hp)), h a (List.mem_cons_self ..)]

/-- together = alone for annotations: a key that no LATER collection of the same `compute` annotates (under this
    annotation type) carries exactly the annotation it carries when its collection is computed alone, whatever the
    earlier collections say; in particular when the collections annotate disjoint key sets -/
theorem seq_annotations_alone (pre post : List (Ann τ κ ν)) (op : Ann τ κ ν) (t : τ) (k : κ) (v : ν)
    (hop : get2 (merge [op]) t k = some v) (hpost : ∀ p ∈ post, getOp p t k = none) :
    get2 (merge (pre ++ op :: post)) t k = some v := by
  rw [seq_annotations_lookup] at hop ⊢
  simp only [getOps, orE_none] at hop
  simp [getOps_append, getOps, getOps_none post t k hpost, hop]

/-- a key nobody annotates stays unannotated -/
theorem seq_annotations_absent (ops : List (Ann τ κ ν)) (t : τ) (k : κ) (h : ∀ p ∈ ops, getOp p t k = none) :
    get2 (merge ops) t k = none := by
  rw [seq_annotations_lookup, getOps_none ops t k h]

/-- witness that the hypothesis is needed: two collections that share key 7 — the later annotation replaces the earlier
    one (priority 1 becomes 2), the unshared key 8 keeps its own -/
theorem seq_annotations_shared_replaced :
    merge [[(0, [(7, 1), (8, 5)])], [(0, [(7, 2)])]] = ([(0, [(7, 2), (8, 5)])] : Ann Nat Nat Nat) := by decide

end Dask.C13xAnnot
