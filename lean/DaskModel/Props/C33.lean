import DaskModel.Model.Masked
import DaskModel.Lemmas.ArrayReduce
import DaskModel.Lemmas.BlockScan
import DaskModel.Lemmas.GridReduce
/-!
# C33 — masked array operations equal numpy.ma

Element type `M = Option Int` (`none` = masked). The theorems are the C19/C22 theorems at this element type:

* `ma_reduce_eq`     — sum/prod/min/max (any associative `op`): for every blocking, `split_every`, depth the tree
                       returns numpy.ma's reduction of the concatenated array (`mfold op`), which skips masked
                       elements and is `masked` iff everything is masked (`mfold_spec`);
* `ma_count_eq`, `ma_mean_eq`;
* `ma_elemwise_den`  — block-wise binary op = element-wise op on the concatenation, mask = OR (`maZip_mask`);
* `filled_den`, `getmaskarray_den`, `masked_where_den`; `masked_by_den` (every `masked_<predicate>`), `masked_inside_den`,
  `masked_outside_den`, `masked_inside_swap` / `masked_outside_swap` (bounds in either order, as numpy.ma documents),
  `masked_inside_raw_refuted` (the unnormalised comparison is wrong for reversed bounds), `masked_array_den`;
* `ma_cumsum_eq`     — sequential cumsum/cumprod on masked blocks = `np.ma.cumsum` of the whole array.
Validated only: numpy.ma corner semantics (fill_value propagation, hard masks, dtype promotion), var/std.
-/
namespace Dask.C33
open Dask.ArrayReduce Dask.Masked Dask.BlockScan

theorem liftOp_monoid (op : Int → Int → Int) (assoc : ∀ a b c, op (op a b) c = op a (op b c)) :
    IsMonoid (liftOp op) none := by
  refine ⟨?_, ?_, ?_⟩
  · intro a b c
    cases a <;> cases b <;> cases c <;> simp [liftOp, assoc]
  · intro a; cases a <;> rfl
  · intro a; cases a <;> rfl

theorem hom_mfold (op : Int → Int → Int) (assoc : ∀ a b c, op (op a b) c = op a (op b c)) :
    Hom (mfold op) (mfold op) := hom_monoid (liftOp_monoid op assoc)

theorem mfold_flatten (op : Int → Int → Int) (assoc : ∀ a b c, op (op a b) c = op a (op b c))
    (gs : List (List M)) : mfold op (gs.map (mfold op)) = mfold op gs.flatten := by
  have h := liftOp_monoid op assoc
  unfold mfold
  induction gs with
  | nil => rfl
  | cons g gs ih =>
    simp only [List.map_cons, List.foldr_cons, List.flatten_cons, List.foldr_append, ih]
    generalize gs.flatten.foldr (liftOp op) none = t
    induction g with
    | nil => simp [h.id_left]
    | cons x xs ihx => simp only [List.foldr_cons, h.assoc, ihx]

/-- what `np.ma.<reduction>` returns: masked iff no unmasked element, else the fold of the unmasked ones -/
theorem mfold_spec (op : Int → Int → Int) (assoc : ∀ a b c, op (op a b) c = op a (op b c)) (xs : List M) :
    mfold op xs = match xs.filterMap id with
      | [] => none
      | y :: ys => some (ys.foldl op y) := by
  induction xs with
  | nil => rfl
  | cons x xs ih =>
    cases x with
    | none => simpa [mfold, liftOp] using ih
    | some a =>
      have : mfold op (some a :: xs) = liftOp op (some a) (mfold op xs) := rfl
      rw [this, ih]
      have hfm : (some a :: xs).filterMap id = a :: xs.filterMap id := rfl
      rw [hfm]
      cases xs.filterMap id with
      | nil => rfl
      | cons y ys =>
        show some (op a (ys.foldl op y)) = some ((y :: ys).foldl op a)
        rw [List.foldl_cons, foldl_assoc op assoc]

theorem mapM_some' {α β : Type} (c : α → β) (xs : List α) : xs.mapM (fun x => some (c x)) = some (xs.map c) := by
  induction xs with
  | nil => rfl
  | cons x xs ih => simp [List.mapM_cons, ih]

/-- **ma_reduce_eq**: masked sum/prod/min/max through the tree = numpy.ma's reduction of the whole array,
    for every blocking (all-masked and empty blocks included), every `k`, every valid depth. -/
theorem ma_reduce_eq (op : Int → Int → Int) (assoc : ∀ a b c, op (op a b) c = op a (op b c))
    (k depth : Nat) (hk : k ≠ 0) (blocks : List (List M)) (hne : blocks ≠ [])
    (hd : blocks.length ≤ k ^ depth) :
    (redMa op).run1 k depth blocks = some [mfold op blocks.flatten] := by
  unfold Red.run1
  show ((blocks.mapM fun b => some (mfold op b)).map _) = _
  rw [mapM_some']
  simp only [Option.map_some]
  show some (treeReduce (mfold op) (mfold op) k depth (blocks.map (mfold op))) = _
  rw [treeReduce_eq_fold (mfold op) (mfold op) (hom_mfold op assoc) (hom_mfold op assoc) k depth hk _
    (by simpa using hne) (by simpa using hd)]
  show some [mfold op (blocks.map (mfold op))] = _
  rw [mfold_flatten op assoc]

theorem isum_monoid' : IsMonoid (fun a b : Int => a + b) 0 := ⟨Int.add_assoc, Int.zero_add, Int.add_zero⟩

theorem isum_flatten' (gs : List (List Int)) : isum (gs.map isum) = isum gs.flatten := by
  unfold isum
  induction gs with
  | nil => rfl
  | cons g gs ih =>
    simp only [List.map_cons, List.foldr_cons, List.flatten_cons, List.foldr_append, ih]
    generalize gs.flatten.foldr (· + ·) 0 = t
    induction g with
    | nil => simp
    | cons x xs ihx => simp only [List.foldr_cons, ihx]; omega

theorem countUnmasked_flatten (blocks : List (List M)) :
    isum (blocks.map countUnmasked) = countUnmasked blocks.flatten := by
  unfold countUnmasked
  have := isum_flatten' (blocks.map (List.map fun x : M => if x.isSome then (1 : Int) else 0))
  simp only [List.map_map, ← List.map_flatten] at this
  exact this

/-- **ma_count_eq**: `da.ma.count` = number of unmasked elements -/
theorem ma_count_eq (k depth : Nat) (hk : k ≠ 0) (blocks : List (List M)) (hne : blocks ≠ [])
    (hd : blocks.length ≤ k ^ depth) :
    redMaCount.run1 k depth blocks = some [countUnmasked blocks.flatten] := by
  unfold Red.run1
  show ((blocks.mapM fun b => some (countUnmasked b)).map _) = _
  rw [mapM_some']
  simp only [Option.map_some]
  have hh : Hom isum isum := hom_monoid isum_monoid'
  show some (treeReduce isum isum k depth (blocks.map countUnmasked)) = _
  rw [treeReduce_eq_fold isum isum hh hh k depth hk _ (by simpa using hne) (by simpa using hd)]
  rw [countUnmasked_flatten]

theorem hom_maMean : Hom redMaMean.combine redMaMean.combine := by
  intro gs _ _
  show (mfold (· + ·) ((gs.map redMaMean.combine).map (·.1)), isum ((gs.map redMaMean.combine).map (·.2)))
      = (mfold (· + ·) (gs.flatten.map (·.1)), isum (gs.flatten.map (·.2)))
  have h1 : (gs.map redMaMean.combine).map (·.1) = (gs.map (List.map (·.1))).map (mfold (· + ·)) := by
    simp [redMaMean, List.map_map, Function.comp_def]
  have h2 : (gs.map redMaMean.combine).map (·.2) = (gs.map (List.map (·.2))).map isum := by
    simp [redMaMean, List.map_map, Function.comp_def]
  rw [h1, h2, mfold_flatten _ Int.add_assoc, isum_flatten', ← List.map_flatten, ← List.map_flatten]

/-- **ma_mean_eq**: the tree delivers (masked total, number of unmasked elements) of the whole array -/
theorem ma_mean_eq (k depth : Nat) (hk : k ≠ 0) (blocks : List (List M)) (hne : blocks ≠ [])
    (hd : blocks.length ≤ k ^ depth) :
    redMaMean.run1 k depth blocks = some [(mfold (· + ·) blocks.flatten, countUnmasked blocks.flatten)] := by
  unfold Red.run1
  show ((blocks.mapM fun b => some (mfold (· + ·) b, countUnmasked b)).map _) = _
  rw [mapM_some']
  simp only [Option.map_some]
  rw [treeReduce_eq_fold redMaMean.combine redMaMean.aggregate hom_maMean hom_maMean k depth hk _
    (by simpa using hne) (by simpa using hd)]
  show some [(mfold (· + ·) ((blocks.map fun b => (mfold (· + ·) b, countUnmasked b)).map (·.1)),
      isum ((blocks.map fun b => (mfold (· + ·) b, countUnmasked b)).map (·.2)))] = _
  simp only [List.map_map, Function.comp_def]
  rw [show (blocks.map fun b => mfold (· + ·) b) = blocks.map (mfold (· + ·)) from rfl,
    mfold_flatten _ Int.add_assoc, show (blocks.map fun b => countUnmasked b) = blocks.map countUnmasked from rfl,
    countUnmasked_flatten]

/-- **ma_reduce_nd_eq**: masked sum/prod/min/max over *several axes*: for every grid of blocks, every per-axis
    `split_every` and every valid depth the n-d tree returns numpy.ma's reduction of all the data
    (commutative `op`). -/
theorem ma_reduce_nd_eq (op : Int → Int → Int) (assoc : ∀ a b c, op (op a b) c = op a (op b c))
    (comm : ∀ a b, op a b = op b a) (d : Nat) (ks nb : List Nat) (blocks : List (List M))
    (h : AxesOk (d + 1) ks nb) (hl : blocks.length = (cartesian (nb.map List.range)).length) :
    (redMa op).run nb (ks.map some) false (d + 1) blocks = some [([], mfold op blocks.flatten)] := by
  have hM : IsCommMonoid (liftOp op) none :=
    ⟨liftOp_monoid op assoc, by intro a b; cases a <;> cases b <;> simp [liftOp, comm]⟩
  unfold Red.run
  show ((blocks.mapM fun b => some (mfold op b)).bind _) = _
  rw [mapM_some']
  simp only [Option.bind_some]
  have := gridReduce_eq_fold hM d ks nb (blocks.map (mfold op)) h (by simpa using hl)
  rw [show (redMa op).combine = (fun xs : List M => xs.foldr (liftOp op) none) from rfl,
    show (redMa op).aggregate = (fun xs : List M => xs.foldr (liftOp op) none) from rfl, this]
  exact congrArg (fun v => some [([], v)]) (mfold_flatten op assoc blocks)

/-! ## elementwise, filled, getmaskarray, masked_where -/

theorem zipWith_flatten {α β γ : Type} (g : α → β → γ) :
    ∀ (xs : List (List α)) (ys : List (List β)), xs.map List.length = ys.map List.length →
      (List.zipWith (List.zipWith g) xs ys).flatten = List.zipWith g xs.flatten ys.flatten
  | [], [], _ => rfl
  | [], _ :: _, h => by simp at h
  | _ :: _, [], h => by simp at h
  | x :: xs, y :: ys, h => by
    simp only [List.map_cons, List.cons.injEq] at h
    simp only [List.zipWith_cons_cons, List.flatten_cons]
    rw [zipWith_flatten g xs ys h.2, List.zipWith_append h.1]

/-- **ma_elemwise_den**: an elementwise op applied block by block (aligned chunks) is the elementwise op
    on the whole arrays -/
theorem ma_elemwise_den (f : Int → Int → Int) (xs ys : List (List M))
    (h : xs.map List.length = ys.map List.length) :
    (blockZip f xs ys).flatten = List.zipWith (maZip f) xs.flatten ys.flatten :=
  zipWith_flatten (maZip f) xs ys h

/-- the result is masked exactly where one of the operands is -/
theorem maZip_mask (f : Int → Int → Int) (a b : M) : (maZip f a b).isNone = (a.isNone || b.isNone) := by
  cases a <;> cases b <;> rfl

theorem filled_den (v : Int) (blocks : List (List M)) :
    (blocks.map (filled v)).flatten = filled v blocks.flatten := by
  unfold filled; rw [List.map_flatten]

theorem getmaskarray_den (blocks : List (List M)) :
    (blocks.map getmask).flatten = getmask blocks.flatten := by
  unfold getmask; rw [List.map_flatten]

theorem masked_where_den (cs : List (List Bool)) (xs : List (List M))
    (h : cs.map List.length = xs.map List.length) :
    (List.zipWith maskedWhere cs xs).flatten = maskedWhere cs.flatten xs.flatten :=
  zipWith_flatten _ cs xs h

/-- `filled` after `masked_where` puts the fill value exactly where the condition holds (on unmasked input) -/
theorem filled_masked_where (v : Int) (c : List Bool) (d : List Int) (h : c.length = d.length) :
    filled v (maskedWhere c (d.map some)) = List.zipWith (fun c x => if c then v else x) c d := by
  induction c generalizing d with
  | nil => cases d <;> simp [filled, maskedWhere]
  | cons c cs ih =>
    cases d with
    | nil => simp at h
    | cons x xs =>
      have := ih xs (by simpa using h)
      simp only [filled, maskedWhere, List.map_cons, List.zipWith_cons_cons] at this ⊢
      cases c <;> simp [this]

/-! ## masked_inside / masked_outside / masked_<predicate> / masked_array -/

/-- **masked_by_den**: masking by a predicate on the value, applied block by block, is the same masking of the whole
    array (`masked_equal/greater/less/…/invalid/inside/outside`: one NumPy call per block) -/
theorem masked_by_den (p : Int → Bool) (blocks : List (List M)) :
    (blocks.map (maskedBy p)).flatten = maskedBy p blocks.flatten := by
  unfold maskedBy; rw [List.map_flatten]

theorem masked_inside_den (v1 v2 : Int) (blocks : List (List M)) :
    (blocks.map (maskedInside v1 v2)).flatten = maskedInside v1 v2 blocks.flatten := masked_by_den _ blocks

theorem masked_outside_den (v1 v2 : Int) (blocks : List (List M)) :
    (blocks.map (maskedOutside v1 v2)).flatten = maskedOutside v1 v2 blocks.flatten := masked_by_den _ blocks

theorem insideP_swap (v1 v2 x : Int) : insideP v1 v2 x = insideP v2 v1 x := by
  unfold insideP; rw [Int.min_comm, Int.max_comm]

/-- **the bounds may be given in either order** (numpy.ma's documented behaviour) -/
theorem masked_inside_swap (v1 v2 : Int) (a : List M) : maskedInside v1 v2 a = maskedInside v2 v1 a := by
  unfold maskedInside; congr 1; funext x; exact insideP_swap v1 v2 x

theorem masked_outside_swap (v1 v2 : Int) (a : List M) : maskedOutside v1 v2 a = maskedOutside v2 v1 a := by
  unfold maskedOutside; congr 1; funext x; rw [insideP_swap]

/-- the mask of the result: the old mask OR "the value lies in the closed interval between the bounds" -/
theorem masked_inside_mask (v1 v2 : Int) (a : List M) :
    getmask (maskedInside v1 v2 a) = a.map fun x => match x with
      | none => true
      | some v => decide (min v1 v2 ≤ v ∧ v ≤ max v1 v2) := by
  unfold getmask maskedInside maskedBy insideP
  rw [List.map_map]
  apply List.map_congr_left
  intro x _
  cases x with
  | none => rfl
  | some v =>
    simp only [Function.comp]
    by_cases h1 : min v1 v2 ≤ v <;> by_cases h2 : v ≤ max v1 v2 <;> simp [h1, h2]

/-- every element is masked by exactly one of `masked_inside` / `masked_outside`, unless it was masked before -/
theorem inside_outside_partition (v1 v2 : Int) (v : Int) :
    (maskedInside v1 v2 [some v] = [none]) ≠ (maskedOutside v1 v2 [some v] = [none]) := by
  unfold maskedInside maskedOutside maskedBy
  cases h : insideP v1 v2 v <;> simp [h]

/-- with ordered bounds the unnormalised test agrees … -/
theorem insideRaw_eq_of_le (v1 v2 x : Int) (h : v1 ≤ v2) : insideRaw v1 v2 x = insideP v1 v2 x := by
  unfold insideRaw insideP; rw [Int.min_eq_left h, Int.max_eq_right h]

/-- … **with reversed bounds it does not** (the independently seeded defect C33-1: `masked_inside` written as
    `masked_where((x >= v1) & (x <= v2), x)` masks nothing, `masked_outside` everything) -/
theorem masked_inside_raw_refuted :
    maskedBy (insideRaw 3 1) [some 0, some 2, none, some 5] ≠ maskedInside 3 1 [some 0, some 2, none, some 5] := by decide

theorem masked_outside_raw_refuted :
    maskedBy (fun x => !insideRaw 3 1 x) [some 0, some 2, none, some 5] ≠ maskedOutside 3 1 [some 0, some 2, none, some 5] := by decide

example : maskedInside 3 1 [some 0, some 2, none, some 5] = [some 0, none, none, some 5] ∧
    maskedOutside 3 1 [some 0, some 2, none, some 5] = [none, some 2, none, none] := by decide

/-- **masked_array_den**: `da.ma.masked_array(data, mask)` built block by block (data and mask aligned to the same
    chunks) is the masked array of the whole data and mask -/
theorem masked_array_den (ds : List (List Int)) (ms : List (List Bool))
    (h : ds.map List.length = ms.map List.length) :
    (List.zipWith maskedArray ds ms).flatten = maskedArray ds.flatten ms.flatten := by
  unfold maskedArray remask
  have := zipWith_flatten (fun (m : Bool) (d : Int) => (if m then none else some d : M)) ms ds h.symm
  rw [← this]
  congr 1
  clear this h
  induction ds generalizing ms with
  | nil => cases ms <;> rfl
  | cons d ds ih =>
    cases ms with
    | nil => rfl
    | cons m ms => simp only [List.zipWith_cons_cons, ih]

/-- construction then `getmaskarray` / `filled` give back the mask / the data with the fill value under the mask -/
theorem getmask_masked_array (d : List Int) (m : List Bool) (h : d.length = m.length) :
    getmask (maskedArray d m) = m := by
  unfold getmask maskedArray remask
  induction m generalizing d with
  | nil => cases d <;> simp
  | cons b bs ih =>
    cases d with
    | nil => simp at h
    | cons x xs =>
      simp only [List.zipWith_cons_cons, List.map_cons, ih xs (by simpa using h)]
      cases b <;> rfl

example : (List.zipWith maskedArray [[1, 2], [], [3]] [[true, false], [], [false]]).flatten = [none, some 2, some 3] := by decide

/-! ## cumulative reductions on masked arrays -/

theorem length_remask_blocks (op : Int → Int → Int) (e : Int) (blocks : List (List M)) :
    (blocks.map getmask).map List.length = (seqScan op e (blocks.map (filled e))).map List.length := by
  rw [seqScan_lengths]
  simp [getmask, filled, List.map_map, Function.comp_def]

/-- **ma_cumsum_eq**: sequential `cumsum`/`cumprod` over masked blocks = `np.ma.cumsum` of the whole array
    (masked elements read as the identity, masks kept), for every chunking. -/
theorem ma_cumsum_eq (op : Int → Int → Int) (e : Int) (assoc : ∀ a b c, op (op a b) c = op a (op b c))
    (idl : ∀ a, op e a = a) (blocks : List (List M)) :
    (maScanBlocks op e blocks).flatten = maScan op e blocks.flatten := by
  unfold maScanBlocks maScan
  have h := zipWith_flatten (fun (m : Bool) (d : Int) => (if m then none else some d : M))
    (blocks.map getmask) (seqScan op e (blocks.map (filled e))) (length_remask_blocks op e blocks)
  rw [getmaskarray_den, seqScan_eq_scan op e assoc idl, filled_den] at h
  exact h

/-- non-vacuity: an all-masked block, a mixed block and an empty block -/
example : (redMa (· + ·)).run1 2 2 [[none, none], [some 3, some 4], []] = some [some 7] :=
  ma_reduce_eq (· + ·) Int.add_assoc 2 2 (by decide) _ (by simp) (by decide)
example : (redMa min).run1 2 1 [[none, none], [none]] = some [none] :=
  ma_reduce_eq min (fun a b c => Int.min_assoc a b c) 2 1 (by decide) _ (by simp) (by decide)
example : (maScanBlocks (· + ·) 0 [[none, none], [some 3, some 4], [none, some 6]]).flatten
    = [none, none, some 3, some 7, none, some 13] := by decide

end Dask.C33
