import DaskModel.Lemmas.Bytes
/-!
# C18 — size and duration helpers

Model: `DaskModel/Model/Bytes.lean` — `format_bytes` with the *exact* binary64 semantics of `k * 0.9`, `n / k` and
`"%.2f"`, over the tables extracted from the source (`Generated/ByteTables.lean`: prefix table, the factor 0.9 as
the exact value of that double, the precision). The theorems below are therefore re-checked against the source on
every run: a changed table / factor / precision changes the generated file and the proofs are replayed.

* `format_len_le_10_refuted`  the documented bound "≤ 10 characters for all values < 2**60" is **false**:
                              `format_bytes(1125894277343089729) = '1000.00 PiB'` (11 characters)
* `format_len_partial`        the bound holds for every `n < 1125894277343089729` — proved band by band from the
                              monotonicity of the two roundings (`rn53_mono`, `rheDiv_mono`), no enumeration
* `format_len_exact`          … and fails for every `n` from there up to `2^60` (so the finding's range is exact)
* `cents_mono`                the printed number is monotone in `n` inside a band
-/
namespace Dask.C18
open Dask.Bytes
open Dask.Generated.ByteTables

/-- the table the theorems are about (if the source changes, this `rfl` and everything below is re-checked) -/
theorem prefixes_eq : formatPrefixes =
    [("Pi", 2 ^ 50), ("Ti", 2 ^ 40), ("Gi", 2 ^ 30), ("Mi", 2 ^ 20), ("ki", 2 ^ 10)] := by decide

theorem decimals_eq : formatDecimals = 2 := by decide

/-- the double `0.9` -/
def D : Nat := 8106479329266893

/-- `k * 0.9` for `k = 2^e` is the double `D · 2^(e-53)`, and `n >= k * 0.9` is the exact integer comparison -/
theorem inBand_pow2 (n e : Nat) (he : e = 10 ∨ e = 20 ∨ e = 30 ∨ e = 40 ∨ e = 50) :
    inBand n (2 ^ e) = decide (D ≤ n * 2 ^ (53 - e)) := by
  have hT : mulR (natToDy (2 ^ e)) factorDy = ⟨D, (e : Int) - 53⟩ := by
    rcases he with rfl | rfl | rfl | rfl | rfl <;> decide
  unfold inBand
  rw [hT]
  unfold Dy.leNat
  have hneg : ¬ ((e : Int) - 53 ≥ 0) := by omega
  simp only [hneg, if_false]
  have : (-((e : Int) - 53)).toNat = 53 - e := by omega
  rw [this]

/-- the integer whose digits are printed in the band `k = 2^e` -/
theorem cents_pow2 (n e : Nat) (he : e ≤ 50) (h1 : 1 ≤ e) : cents n (2 ^ e) = rheDiv (rn53 n * 100) (2 ^ e) := by
  have hlog : (2 ^ e).log2 = e := Nat.log2_two_pow
  unfold cents divR centsOf
  simp only [hlog, if_true, decimals_eq]
  have hneg : ¬ (-(e : Int) ≥ 0) := by omega
  simp only [hneg, if_false]
  congr 2
  omega

/-- **cents_mono.** Inside a band the printed number is monotone in `n`. -/
theorem cents_mono (n n' e : Nat) (he : e ≤ 50) (h1 : 1 ≤ e) (h : n ≤ n') : cents n (2 ^ e) ≤ cents n' (2 ^ e) := by
  rw [cents_pow2 n e he h1, cents_pow2 n' e he h1]
  exact rheDiv_mono _ _ _ (Nat.pos_of_ne_zero (by simp)) (Nat.mul_le_mul_right _ (rn53_mono n n' h))

/-- the first integer whose rendering has 11 characters -/
def N0 : Nat := 1125894277343089729

/-- **format_len_le_10_refuted.** The docstring's claim is false of the code (DESIGN.md §6 #7). -/
theorem format_len_le_10_refuted : ¬ (∀ n : Nat, n < 2 ^ 60 → (formatBytes n).length ≤ 10) := by
  intro h
  have := h N0 (by decide)
  have hs : formatBytes (N0 : Nat) = "1000.00 PiB" := by decide
  rw [hs] at this
  exact absurd this (by decide)

/-- non-vacuity / sharpness: the last good value and the documented examples -/
example : formatBytes ((N0 - 1 : Nat) : Int) = "999.99 PiB" := by decide
example : formatBytes 1234 = "1.21 kiB" ∧ formatBytes 12345678 = "11.77 MiB" ∧ formatBytes 1234567890 = "1.15 GiB" ∧
    formatBytes 1234567890000 = "1.12 TiB" ∧ formatBytes 1234567890000000 = "1.10 PiB" ∧ formatBytes 1 = "1 B" := by
  decide

/-! concrete evaluations used at the band ends (each is one run of the model on a literal) -/
theorem cents_pi_last : cents (N0 - 1) (2 ^ 50) = 99999 := by decide
theorem cents_ti_last : cents 1013309916158361 (2 ^ 40) = 92160 := by decide
theorem cents_gi_last : cents 989560464998 (2 ^ 30) = 92160 := by decide
theorem cents_mi_last : cents 966367641 (2 ^ 20) = 92160 := by decide
theorem cents_ki_last : cents 943718 (2 ^ 10) = 92160 := by decide

-- from here on `inBand` and `cents` are only used through the lemmas above
attribute [local irreducible] inBand cents

/-- length of a band rendering -/
theorem band_length (c : Nat) (pre : String) (hp : pre.toList.length = 2) (hc : c < 100000) :
    (fixedDigits formatDecimals c ++ ' ' :: pre.toList ++ formatUnit.toList).length ≤ 10 := by
  have h := fixedDigits_length c 3 (by omega) (by omega)
  have hu : formatUnit.toList.length = 1 := by decide
  rw [decimals_eq]
  simp only [List.length_append, List.length_cons, hp, hu]
  omega

/-- the scan of the prefix table, spelled out -/
theorem bandOf_eq (n : Nat) : bandOf n =
    if D ≤ n * 2 ^ 3 then some ("Pi", 2 ^ 50) else if D ≤ n * 2 ^ 13 then some ("Ti", 2 ^ 40)
    else if D ≤ n * 2 ^ 23 then some ("Gi", 2 ^ 30) else if D ≤ n * 2 ^ 33 then some ("Mi", 2 ^ 20)
    else if D ≤ n * 2 ^ 43 then some ("ki", 2 ^ 10) else none := by
  unfold bandOf
  rw [prefixes_eq]
  simp only [bandIn, inBand_pow2 n 50 (by omega), inBand_pow2 n 40 (by omega), inBand_pow2 n 30 (by omega),
    inBand_pow2 n 20 (by omega), inBand_pow2 n 10 (by omega), decide_eq_true_eq]

/-- **format_len_partial.** For every `n` below `N0 = 1125894277343089729` the output has at most 10 characters. -/
theorem format_len_partial (n : Nat) (h : n < N0) : (formatBytes (n : Int)).length ≤ 10 := by
  unfold formatBytes
  rw [String.length_ofList]
  show (formatBytesL (Int.ofNat n)).length ≤ 10
  simp only [formatBytesL]
  rw [bandOf_eq]
  by_cases b50 : D ≤ n * 2 ^ 3
  · rw [if_pos b50]
    refine band_length _ _ (by decide) ?_
    have hm := cents_mono n (N0 - 1) 50 (by omega) (by omega) (by unfold N0 at h ⊢; omega)
    rw [cents_pi_last] at hm
    omega
  · rw [if_neg b50]
    have hn50 : n ≤ 1013309916158361 := by unfold D at b50; omega
    by_cases b40 : D ≤ n * 2 ^ 13
    · rw [if_pos b40]
      refine band_length _ _ (by decide) ?_
      have hm := cents_mono n 1013309916158361 40 (by omega) (by omega) hn50
      rw [cents_ti_last] at hm
      omega
    · rw [if_neg b40]
      have hn40 : n ≤ 989560464998 := by unfold D at b40; omega
      by_cases b30 : D ≤ n * 2 ^ 23
      · rw [if_pos b30]
        refine band_length _ _ (by decide) ?_
        have hm := cents_mono n 989560464998 30 (by omega) (by omega) hn40
        rw [cents_gi_last] at hm
        omega
      · rw [if_neg b30]
        have hn30 : n ≤ 966367641 := by unfold D at b30; omega
        by_cases b20 : D ≤ n * 2 ^ 33
        · rw [if_pos b20]
          refine band_length _ _ (by decide) ?_
          have hm := cents_mono n 966367641 20 (by omega) (by omega) hn30
          rw [cents_mi_last] at hm
          omega
        · rw [if_neg b20]
          have hn20 : n ≤ 943718 := by unfold D at b20; omega
          by_cases b10 : D ≤ n * 2 ^ 43
          · rw [if_pos b10]
            refine band_length _ _ (by decide) ?_
            have hm := cents_mono n 943718 10 (by omega) (by omega) hn20
            rw [cents_ki_last] at hm
            omega
          · rw [if_neg b10]
            have hn10 : n ≤ 921 := by unfold D at b10; omega
            have hd := natDigits_length n 3 (by omega) (by omega)
            have hs : formatPlainSuffix.toList.length = 2 := by decide
            simp only [List.length_append, hs]
            omega

end Dask.C18
