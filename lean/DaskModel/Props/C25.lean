import DaskModel.Lemmas.Meta
import DaskModel.Model.FuseSlice
/-! # C25 — lazy array metadata matches the computed data (theorems)

`lazyChunks p` is what dask reports as `.chunks` of a pipeline `p`; `blockLens p` is the length, axis by axis and block by
block, of what the per-block kernels produce (from the block coordinates blockwise passes and NumPy's shape rules).

* `ew_axis_ok`       — one axis of a broadcasting elementwise operation: output block `b` has length `common[b]`
* `ewLens_eq_ewLazy`, `concatLens_eq_concatLazy`, `stackLens_eq_stackLazy` — per operation
* `pipeline_meta_ok` — for every pipeline whose lazy chunks are defined, every block has the declared length on every axis
* `lazy_shape_is_sum` — hence the lazy shape (sum of the chunks) is the extent covered by the blocks
dtype is outside the model (validated). Operations outside the modelled set are validated (harness/props/c25.py).
-/
namespace Dask.C25
open Dask.Meta Dask.Elemwise

/-! ## one axis of an elementwise operation -/

theorem bcastLen_one_right (x : Nat) : bcastLen x 1 = some x := by
  unfold bcastLen
  by_cases h : x = 1
  · simp [h]
  · simp [h]

theorem bcastLen_one_left (y : Nat) : bcastLen 1 y = some y := by
  unfold bcastLen
  by_cases h : 1 = y
  · simp [h]
  · simp [h]

theorem bcastLen_self (x : Nat) : bcastLen x x = some x := by simp [bcastLen]

/-- reading block `b` of an argument that carries the common chunks `C` -/
theorem get_argBlock_common (C : List Nat) (b v : Nat) (hv : C[b]? = some v) : C[argBlock C.length b]? = some v := by
  unfold argBlock
  by_cases h1 : C.length = 1
  · have hb : b < C.length := (List.getElem?_eq_some_iff.mp hv).1
    have : b = 0 := by omega
    subst this
    rw [if_pos h1]
    exact hv
  · rw [if_neg h1]
    exact hv

/-- the fold of `ewAxisLen` over arguments that are `C` or `[1]` -/
theorem ewAxisLen_fold (C : List Nat) (b v : Nat) (hv : C[b]? = some v) (ns : List (List Nat))
    (hall : ∀ n ∈ ns, n = C ∨ n = [1]) (acc : Nat)
    (hacc : acc = v ∨ (acc = 1 ∧ ∃ n ∈ ns, n = C)) :
    ns.foldl (fun acc n => do
      let x ← acc
      let y ← n[argBlock n.length b]?
      bcastLen x y) (some acc) = some v := by
  induction ns generalizing acc with
  | nil =>
    rcases hacc with h | ⟨_, n, hn, _⟩
    · simp [h]
    · simp at hn
  | cons n r ih =>
    simp only [List.foldl_cons]
    have hr : ∀ m ∈ r, m = C ∨ m = [1] := fun m hm => hall m (by simp [hm])
    rcases hall n (by simp) with hn | hn
    · -- this argument carries the common chunks: the accumulator becomes v
      subst hn
      have hy := get_argBlock_common n b v hv
      have hstep : (do let x ← some acc; let y ← n[argBlock n.length b]?; bcastLen x y) = some v := by
        simp only [Option.bind_eq_bind, Option.bind_some, hy]
        rcases hacc with h | ⟨h, _⟩
        · rw [h]; exact bcastLen_self v
        · rw [h]; exact bcastLen_one_left v
      rw [hstep]
      exact ih hr v (Or.inl rfl)
    · -- a broadcast argument `[1]`: the accumulator is unchanged
      subst hn
      have hstep : (do let x ← some acc; let y ← [1][argBlock [1].length b]?; bcastLen x y) = some acc := by
        simp [argBlock, bcastLen_one_right]
      rw [hstep]
      apply ih hr acc
      rcases hacc with h | ⟨h, m, hm, hmC⟩
      · exact Or.inl h
      · rcases List.mem_cons.mp hm with hm | hm
        · -- the witness is this `[1]`: then C = [1] and v = 1 = acc
          left
          rw [hm] at hmC
          rw [← hmC] at hv
          have hb : b < 1 := by simpa using (List.getElem?_eq_some_iff.mp hv).1
          have : b = 0 := by omega
          subst this
          simp at hv
          omega
        · exact Or.inr ⟨h, m, hm, hmC⟩

theorem ewNumBlocks_eq (C : List Nat) (ns : List (List Nat)) (hC : C ≠ []) (hall : ∀ n ∈ ns, n = C ∨ n = [1])
    (hany : ∃ n ∈ ns, n = C) : ewNumBlocks ns = C.length := by
  unfold ewNumBlocks
  have hpos : 1 ≤ C.length := by
    cases C with
    | nil => exact absurd rfl hC
    | cons _ _ => simp
  -- the fold computes max(acc, lengths); every length is 1 or |C|
  have key : ∀ (l : List (List Nat)) (m : Nat), (∀ n ∈ l, n = C ∨ n = [1]) → m ≤ C.length →
      (m = C.length ∨ ∃ n ∈ l, n = C) → l.foldl (fun m n => max m n.length) m = C.length := by
    intro l
    induction l with
    | nil =>
      intro m _ _ h
      rcases h with h | ⟨n, hn, _⟩
      · simpa using h
      · simp at hn
    | cons a t ih =>
      intro m hl hm h
      simp only [List.foldl_cons]
      have ha := hl a (by simp)
      have hla : a.length ≤ C.length := by
        rcases ha with h' | h'
        · subst h'; omega
        · subst h'; simpa using hpos
      apply ih (max m a.length) (fun n hn => hl n (by simp [hn])) (by omega)
      rcases h with h | ⟨n, hn, hnC⟩
      · left; omega
      · rcases List.mem_cons.mp hn with hn | hn
        · left; subst hn; subst hnC; omega
        · exact Or.inr ⟨n, hn, hnC⟩
  exact key ns 1 hall hpos (Or.inr hany)

/-- **ew_axis_ok.** Along one axis, with every (rechunked) argument carrying the common chunks `C` or a single chunk
    `[1]`, and at least one carrying `C`: the elementwise kernel produces `|C|` blocks and block `b` has length `C[b]`. -/
theorem ew_axis_ok (C : List Nat) (ns : List (List Nat)) (h : unifyPostAxis C ns = true) :
    optAll ((List.range (ewNumBlocks ns)).map (ewAxisLen ns)) = some C := by
  unfold unifyPostAxis at h
  simp only [Bool.and_eq_true, Bool.not_eq_true', List.all_eq_true, List.any_eq_true, Bool.or_eq_true, beq_iff_eq] at h
  obtain ⟨⟨hC, hall⟩, hany⟩ := h
  have hC' : C ≠ [] := by
    intro e; subst e; simp at hC
  rw [ewNumBlocks_eq C ns hC' hall hany]
  have := range_map_getElem? C
  rw [← this]
  apply optAll_congr
  intro b hb
  have hlt : b < C.length := List.mem_range.mp hb
  have hv : C[b]? = some C[b] := List.getElem?_eq_getElem hlt
  rw [hv]
  unfold ewAxisLen
  exact ewAxisLen_fold C b C[b] hv ns hall 1 (Or.inr ⟨rfl, hany⟩)

/-! ## per operation -/

theorem ewLens_eq_ewLazy (ca cb c : Chunks) (h : ewLazy ca cb = some c) : ewLens ca cb = some c := by
  unfold ewLazy at h
  unfold ewLens
  cases hbs : broadcastShapes [shapeOf ca, shapeOf cb] with
  | none => rw [hbs] at h; simp at h
  | some _ =>
    rw [hbs] at h
    simp only [Option.bind_eq_bind, Option.bind_some] at h ⊢
    cases hu : unifyChunks (ewArgs ca cb) with
    | none => rw [hu] at h; simp at h
    | some p =>
      obtain ⟨cs, news⟩ := p
      rw [hu] at h
      simp only [Option.bind_some] at h ⊢
      cases hres : optAll ((revRange (max ca.length cb.length)).map (lookupSym cs)) with
      | none => rw [hres] at h; simp at h
      | some res =>
        rw [hres] at h
        simp only [Option.bind_some] at h ⊢
        by_cases hpost : (revRange (max ca.length cb.length)).all
            (fun s => unifyPostAxis ((lookupSym cs s).getD []) (newsOf (ewArgs ca cb) news s)) = true
        · simp only [hpost, if_true] at h ⊢
          injection h with h
          subst h
          rw [← hres]
          apply optAll_congr
          intro s hs
          obtain ⟨C, hC⟩ := optAll_some_mem _ _ _ hres s hs
          have hp := List.all_eq_true.mp hpost s hs
          rw [hC] at hp ⊢
          simp only [Option.getD_some] at hp
          exact ew_axis_ok C _ hp
        · simp only [hpost, Bool.false_eq_true, if_false] at h
          simp at h

theorem axis_blocks_append (axa axb : List Nat) :
    optAll ((List.range (axa.length + axb.length)).map fun j => if j < axa.length then axa[j]? else axb[j - axa.length]?)
      = some (axa ++ axb) := by
  have := range_map_getElem? (axa ++ axb)
  rw [List.length_append] at this
  rw [← this]
  apply optAll_congr
  intro j _
  by_cases hj : j < axa.length
  · simp [hj, List.getElem?_append_left hj]
  · simp [hj, List.getElem?_append_right (by omega : axa.length ≤ j)]

theorem concatLens_eq_concatLazy (ax : Nat) (ca cb c : Chunks) (h : concatLazy ax ca cb = some c) :
    concatLens ax ca cb = some c := by
  unfold concatLazy at h
  unfold concatLens
  by_cases h0 : (ca.length != cb.length || decide (ax ≥ ca.length)) = true
  · simp [h0] at h
  · simp only [h0, Bool.false_eq_true, if_false] at h ⊢
    by_cases h1 : (numel ca != 0 && !(numel cb != 0)) = true
    · simp only [h1, if_true] at h ⊢; exact h
    · simp only [h1, Bool.false_eq_true, if_false] at h ⊢
      by_cases h2 : (numel cb != 0 && !(numel ca != 0)) = true
      · simp only [h2, if_true] at h ⊢; exact h
      · simp only [h2, Bool.false_eq_true, if_false] at h ⊢
        by_cases h3 : (List.range ca.length).any (fun i => i != ax && (shapeOf ca)[i]? != (shapeOf cb)[i]?) = true
        · simp [h3] at h
        · simp only [h3, Bool.false_eq_true, if_false] at h ⊢
          cases hu : unifyChunks (concatArgs ax ca cb) with
          | none => rw [hu] at h; simp at h
          | some p =>
            obtain ⟨cs, news⟩ := p
            rw [hu] at h
            simp only [Option.bind_eq_bind, Option.bind_some] at h ⊢
            match news, h with
            | [na, nb], h =>
              simp only at h ⊢
              cases hxa : na[ax]? with
              | none => rw [hxa] at h; simp at h
              | some axa =>
                cases hxb : nb[ax]? with
                | none => rw [hxa, hxb] at h; simp at h
                | some axb =>
                  rw [hxa, hxb] at h
                  simp only [Option.bind_some] at h
                  by_cases hchk : (na.length == nb.length && (List.range na.length).all (fun i => i == ax || na[i]? == nb[i]?)) = true
                  · simp only [hchk, if_true] at h
                    injection h with h
                    subst h
                    simp only [Bool.and_eq_true, beq_iff_eq, List.all_eq_true, Bool.or_eq_true] at hchk
                    obtain ⟨hlen, hoff⟩ := hchk
                    have hne : (na.length != nb.length) = false := by simp [hlen]
                    simp only [hne, Bool.false_eq_true, if_false]
                    have hr := range_map_getElem? (na.set ax (axa ++ axb))
                    rw [List.length_set] at hr
                    rw [← hr]
                    apply optAll_congr
                    intro i hi
                    have hil : i < na.length := List.mem_range.mp hi
                    by_cases hia : i = ax
                    · subst hia
                      simp only [if_true, hxa, hxb, Option.bind_eq_bind, Option.bind_some]
                      rw [axis_blocks_append]
                      simp [List.getElem?_set, hil]
                    · simp only [hia, if_false]
                      have hx : na[i]? = some na[i] := List.getElem?_eq_getElem hil
                      have := hoff i hi
                      rcases this with hh | hh
                      · exact absurd hh hia
                      · rw [hx] at hh
                        rw [hx, ← hh]
                        simp only [Option.bind_eq_bind, Option.bind_some, if_true]
                        rw [List.getElem?_set]
                        simp [Ne.symm hia, hx]
                  · simp only [hchk, Bool.false_eq_true, if_false] at h
                    simp at h

theorem stackLens_eq_stackLazy (ax : Nat) (ca cb : Chunks) : stackLens ax ca cb = stackLazy ax ca cb := by
  unfold stackLens stackLazy
  rfl

/-! ## pipelines -/

/-- **pipeline_meta_ok.** For every pipeline whose lazy chunks are defined: the blocks the graph computes have, on every
    axis and at every block index, exactly the length the lazy `.chunks` declare. -/
theorem pipeline_meta_ok (p : Prog) : ∀ c, lazyChunks p = some c → blockLens p = some c := by
  induction p with
  | leaf c0 => intro c h; exact h
  | ew a b iha ihb =>
    intro c h
    simp only [lazyChunks, Option.bind_eq_bind] at h
    cases ha : lazyChunks a with
    | none => rw [ha] at h; simp at h
    | some ca =>
      cases hb : lazyChunks b with
      | none => rw [ha, hb] at h; simp at h
      | some cb =>
        rw [ha, hb] at h
        simp only [Option.bind_some] at h
        simp only [blockLens, Option.bind_eq_bind, iha ca ha, ihb cb hb, Option.bind_some]
        exact ewLens_eq_ewLazy ca cb c h
  | T perm a ih =>
    intro c h
    simp only [lazyChunks, Option.bind_eq_bind] at h
    cases ha : lazyChunks a with
    | none => rw [ha] at h; simp at h
    | some ca =>
      rw [ha] at h
      simp only [blockLens, Option.bind_eq_bind, ih ca ha]
      exact h
  | drop ax a ih =>
    intro c h
    simp only [lazyChunks, Option.bind_eq_bind] at h
    cases ha : lazyChunks a with
    | none => rw [ha] at h; simp at h
    | some ca =>
      rw [ha] at h
      simp only [blockLens, Option.bind_eq_bind, ih ca ha]
      exact h
  | keep ax a ih =>
    intro c h
    simp only [lazyChunks, Option.bind_eq_bind] at h
    cases ha : lazyChunks a with
    | none => rw [ha] at h; simp at h
    | some ca =>
      rw [ha] at h
      simp only [blockLens, Option.bind_eq_bind, ih ca ha]
      exact h
  | new ax a ih =>
    intro c h
    simp only [lazyChunks, Option.bind_eq_bind] at h
    cases ha : lazyChunks a with
    | none => rw [ha] at h; simp at h
    | some ca =>
      rw [ha] at h
      simp only [blockLens, Option.bind_eq_bind, ih ca ha]
      exact h
  | concat ax a b iha ihb =>
    intro c h
    simp only [lazyChunks, Option.bind_eq_bind] at h
    cases ha : lazyChunks a with
    | none => rw [ha] at h; simp at h
    | some ca =>
      cases hb : lazyChunks b with
      | none => rw [ha, hb] at h; simp at h
      | some cb =>
        rw [ha, hb] at h
        simp only [Option.bind_some] at h
        simp only [blockLens, Option.bind_eq_bind, iha ca ha, ihb cb hb, Option.bind_some]
        exact concatLens_eq_concatLazy ax ca cb c h
  | stack ax a b iha ihb =>
    intro c h
    simp only [lazyChunks, Option.bind_eq_bind] at h
    cases ha : lazyChunks a with
    | none => rw [ha] at h; simp at h
    | some ca =>
      cases hb : lazyChunks b with
      | none => rw [ha, hb] at h; simp at h
      | some cb =>
        rw [ha, hb] at h
        simp only [Option.bind_some] at h
        simp only [blockLens, Option.bind_eq_bind, iha ca ha, ihb cb hb, Option.bind_some]
        rw [stackLens_eq_stackLazy]
        exact h

/-- the lazy shape is the sum of the declared chunks, i.e. (by `pipeline_meta_ok`) of the computed block lengths -/
theorem lazy_shape_is_sum (p : Prog) (c : Chunks) (h : lazyChunks p = some c) :
    ∃ l, blockLens p = some l ∧ shapeOf l = shapeOf c :=
  ⟨c, pipeline_meta_ok p c h, rfl⟩

/-- non-vacuity: `(x[2,1 | 3] + y[1,2]).sum(axis 0, keepdims)` concatenated with a leaf, then transposed -/
example : lazyChunks (.T [1, 0] (.concat 0 (.keep 0 (.ew (.leaf [[2, 1], [3]]) (.leaf [[1, 2]]))) (.leaf [[2], [3]])))
    = some [[1, 2], [1, 2]] := by decide
example : blockLens (.T [1, 0] (.concat 0 (.keep 0 (.ew (.leaf [[2, 1], [3]]) (.leaf [[1, 2]]))) (.leaf [[2], [3]])))
    = some [[1, 2], [1, 2]] := by decide

/-! ## `fuse_slice`: `x[a][b]` and `x[fuse_slice(a, b)]` are the same index map -/
section FuseSlice
open Dask.FuseSlice

theorem fused_index (a b : Sl) (j : Nat) :
    (fuse a b).start + (fuse a b).step * j = a.start + a.step * (b.start + b.step * j) := by
  simp only [fuse, Nat.mul_add, Nat.mul_assoc, Nat.add_assoc]

theorem lt_iff_of_step_pos (s k t c : Nat) (hs : 0 < s) : (c + s * k < c + s * t) ↔ k < t := by
  constructor
  · intro h
    have : s * k < s * t := by omega
    exact (Nat.mul_lt_mul_left hs).mp this
  · intro h
    have : s * k < s * t := (Nat.mul_lt_mul_left hs).mpr h
    omega

/-- **fuse_slice_index_map.** For every sequence length `n`, all non-negative slices `a` (positive step) and `b`, and
    every position `j`: element `j` of `x[a][b]` is taken from the same source position as element `j` of
    `x[fuse_slice(a, b)]`, and one is past the end exactly when the other is. Hence the fused `getitem` returns
    blocks of exactly the length the chained `getitem`s return. -/
theorem fuse_slice_index_map (n : Nat) (a b : Sl) (j : Nat) (ha : 0 < a.step) :
    chainAt n a b j = (fuse a b).at n j := by
  unfold chainAt Sl.at
  simp only
  rw [fused_index a b j]
  generalize hK : b.start + b.step * j = K
  cases hbs : b.stop with
  | none =>
    cases has : a.stop with
    | none => simp [fuse, has, hbs, minStop]
    | some s => simp [fuse, has, hbs, minStop]
  | some t =>
    have hiff := lt_iff_of_step_pos a.step K t a.start ha
    cases has : a.stop with
    | none =>
      simp only [fuse, has, hbs, minStop, Option.map_some]
      by_cases hk : K < t
      · have := hiff.mpr hk
        simp [hk, this]
      · have : ¬ (a.start + a.step * K < a.start + a.step * t) := fun h => hk (hiff.mp h)
        simp [hk, this]
    | some s =>
      simp only [fuse, has, hbs, minStop, Option.map_some]
      by_cases hk : K < t
      · have h1 := hiff.mpr hk
        by_cases h2 : a.start + a.step * K < s
        · have : a.start + a.step * K < min s (a.start + a.step * t) := by omega
          simp [hk, h2, this]
        · have : ¬ (a.start + a.step * K < min s (a.start + a.step * t)) := by omega
          simp [hk, h2, this]
      · have h1 : ¬ (a.start + a.step * K < a.start + a.step * t) := fun h => hk (hiff.mp h)
        have : ¬ (a.start + a.step * K < min s (a.start + a.step * t)) := by omega
        simp [hk, this]

/-- a slice followed by an integer: `x[a][i]` is `x[a.start + i*a.step]` -/
theorem fuse_int_index (a : Sl) (i : Nat) : fuseInt a i = a.start + a.step * i := by
  simp [fuseInt, Nat.mul_comm]

/-- the example of the seeded defect: `x[1:][:6:2]` must fuse to `x[1:7:2]` (a stop computed with the fused step would
    give 13) -/
example : fuse ⟨1, none, 1⟩ ⟨0, some 6, 2⟩ = ⟨1, some 7, 2⟩ := by decide
example : fuse ⟨5, some 50, 1⟩ ⟨2, some 11, 2⟩ = ⟨7, some 16, 2⟩ := by decide
example : (List.range 5).map (chainAt 8 ⟨1, none, 1⟩ ⟨0, some 6, 2⟩) = [some 1, some 3, some 5, none, none] := by decide


/-! ### index tuples (what `_optimize_slices` passes to `fuse_slice`) -/

theorem push_ok {pre : List Ix} {res : Res} {r : List Ix} (h : res.push pre = .ok r) :
    ∃ r', res = .ok r' ∧ r = pre ++ r' := by
  cases res with
  | ok r' => simp only [Res.push, Res.ok.injEq] at h; exact ⟨r', rfl, h.symm⟩
  | notImplemented => simp [Res.push] at h
  | indexError => simp [Res.push] at h

theorem splitNones_spec (b : List Ix) :
    b = List.replicate (splitNones b).1 .newaxis ++ (splitNones b).2 := by
  induction b with
  | nil => simp [splitNones]
  | cons y t ih =>
    cases y <;> simp [splitNones, List.replicate_succ]
    exact ih

theorem fuseTuple_nil (a : List Ix) : fuseTuple a [] = .ok a := by
  induction a with
  | nil => rfl
  | cons x a ih => simp [fuseTuple, ih, Res.push]

theorem consOpt_none_right (p : Option Nat) : consOpt p none = none := by
  cases p <;> rfl

theorem at_eq_atU (s : Sl) (d j : Nat) :
    s.at d j = (s.atU j).bind fun p => if p < d then some p else none := by
  unfold Sl.at Sl.atU
  simp only
  cases hs : s.stop with
  | none => by_cases h : s.start + s.step * j < d <;> simp [h]
  | some t =>
    by_cases h : s.start + s.step * j < d <;> by_cases h2 : s.start + s.step * j < t <;> simp [h, h2]

theorem chainAt_eq (d : Nat) (s t : Sl) (j : Nat) : chainAt d s t j = (t.atU j).bind (s.at d) := by
  unfold chainAt Sl.atU
  simp only
  cases ht : t.stop with
  | none => simp
  | some u => by_cases h : t.start + t.step * j < u <;> simp [h]


/-- the entries of `b` left over when `a` is exhausted index the remaining source axes directly -/
theorem applyB_tail (b : List Ix) : ∀ (dims c : List Nat),
    applyB dims b c = (applyU b c).bind (applyB dims []) := by
  induction b with
  | nil => intro dims c; simp [applyU]
  | cons y t ih =>
    intro dims c
    cases y with
    | int n =>
      cases dims with
      | nil =>
        cases hU : applyU t c <;> simp [applyB, applyU, hU, consOpt, inBounds]
      | cons d ds =>
        cases hU : applyU t c with
        | none => simp [applyB, applyU, hU, consOpt, ih ds c]
        | some k =>
          by_cases h1 : n < d <;> by_cases h2 : inBounds ds k = true <;>
            simp [applyB, applyU, hU, consOpt, ih ds c, inBounds, h1, h2]
    | newaxis =>
      cases c with
      | nil => simp [applyB, applyU]
      | cons ci c' => by_cases h : ci = 0 <;> simp [applyB, applyU, h, ih dims c']
    | sl s =>
      cases c with
      | nil => simp [applyB, applyU]
      | cons ci c' =>
        cases dims with
        | nil =>
          cases hU : applyU t c' <;> cases hA : s.atU ci <;> simp [applyB, applyU, hU, hA, consOpt, inBounds]
        | cons d ds =>
          cases hU : applyU t c' with
          | none => simp [applyB, applyU, hU, consOpt_none_right, ih ds c']
          | some k =>
            cases hA : s.atU ci with
            | none => simp [applyB, applyU, hU, hA, consOpt, at_eq_atU]
            | some p =>
              by_cases h1 : p < d <;> by_cases h2 : inBounds ds k = true <;>
                simp [applyB, applyU, hU, hA, consOpt, ih ds c', inBounds, h1, h2, at_eq_atU]
    | full =>
      cases c with
      | nil => simp [applyB, applyU]
      | cons ci c' =>
        cases dims with
        | nil =>
          cases hU : applyU t c' <;> cases hA : fullSl.atU ci <;> simp [applyB, applyU, hU, hA, consOpt, inBounds]
        | cons d ds =>
          cases hU : applyU t c' with
          | none => simp [applyB, applyU, hU, consOpt_none_right, ih ds c']
          | some k =>
            cases hA : fullSl.atU ci with
            | none => simp [applyB, applyU, hU, hA, consOpt, at_eq_atU]
            | some p =>
              by_cases h1 : p < d <;> by_cases h2 : inBounds ds k = true <;>
                simp [applyB, applyU, hU, hA, consOpt, ih ds c', inBounds, h1, h2, at_eq_atU]


theorem at_isSome (s : Sl) (d m : Nat) (h : (s.at d m).isSome = true) :
    s.at d m = some (fuseInt s m) ∧ fuseInt s m < d := by
  unfold Sl.at at h ⊢
  simp only at h ⊢
  have e : s.start + s.step * m = fuseInt s m := by simp [fuseInt, Nat.mul_comm]
  rw [e] at h ⊢
  cases hs : s.stop with
  | none =>
    rw [hs] at h
    by_cases h1 : fuseInt s m < d
    · simp [h1]
    · simp [h1] at h
  | some t =>
    rw [hs] at h
    by_cases h1 : fuseInt s m < d <;> by_cases h2 : fuseInt s m < t
    · simp [h1, h2]
    · simp [h1, h2] at h
    · simp [h1, h2] at h
    · simp [h1, h2] at h

theorem bind_none_fun {α β : Type} (o : Option α) (f : α → Option β) (hf : ∀ k, f k = none) :
    o.bind f = none := by
  cases o with
  | none => rfl
  | some k => exact hf k

theorem fullSl_atU (j : Nat) : fullSl.atU j = some j := by
  simp [Sl.atU, fullSl]

/-- leading `None`s of `b` are copied: both sides ask for coordinate 0 on those axes -/
theorem nones_prefix (k : Nat) (dims : List Nat) (zr yb : List Ix) (F : List Nat → Option (List Nat))
    (h0 : ∀ c, applyB dims zr c = (applyU yb c).bind F) :
    ∀ c, applyB dims (List.replicate k .newaxis ++ zr) c = (applyU (List.replicate k .newaxis ++ yb) c).bind F := by
  induction k with
  | zero => simpa using h0
  | succ k ih =>
    intro c
    cases c with
    | nil => cases dims <;> simp [List.replicate_succ, applyB, applyU]
    | cons ci c' =>
      by_cases h : ci = 0 <;> cases dims <;> simp [List.replicate_succ, applyB, applyU, h, ih c']

/-- one paired step of the walk -/
theorem pair_step (x y z : Ix) (a b' r' : List Ix) (dims : List Nat)
    (hx : x.isInt = false)
    (hok : (match x.slice?, dims with
            | some s, d :: _ => decide (0 < s.step) && (match y with | .int m => (s.at d m).isSome | _ => true)
            | _, _ => true) = true)
    (hz : fuseIx x y = some z)
    (ih : ∀ c, applyB (if x = .newaxis then dims else dims.tail) r' c
             = (applyU b' c).bind (applyB (if x = .newaxis then dims else dims.tail) a)) :
    ∀ c, applyB dims (z :: r') c = (applyU (y :: b') c).bind (applyB dims (x :: a)) := by
  intro c
  -- the slice/slice and slice/int steps for a normalised slice `s` of `a`
  have slsl : ∀ (s t : Sl) (d : Nat) (ds : List Nat), 0 < s.step →
      (∀ c, applyB ds r' c = (applyU b' c).bind (applyB ds a)) →
      ∀ ci c', consOpt ((fuse s t).at d ci) (applyB ds r' c')
        = (consOpt (t.atU ci) (applyU b' c')).bind
            (fun kk => match kk with | k :: ks => consOpt (s.at d k) (applyB ds a ks) | [] => none) := by
    intro s t d ds hs ih' ci c'
    rw [← fuse_slice_index_map d s t ci hs, chainAt_eq, ih' c']
    cases hA : t.atU ci with
    | none => simp [consOpt]
    | some k =>
      cases hU : applyU b' c' with
      | none => simp [consOpt]
      | some ks => simp [consOpt]
  cases x with
  | int n => simp [Ix.isInt] at hx
  | newaxis =>
    cases y <;> simp [fuseIx, Ix.slice?] at hz
    subst hz
    simp only [if_true] at ih
    cases c with
    | nil => cases dims <;> simp [applyB, applyU]
    | cons ci c' =>
      cases hU : applyU b' c' with
      | none => by_cases h : ci = 0 <;> cases dims <;> simp [applyB, applyU, fullSl_atU, consOpt, hU, h, ih c']
      | some ks => by_cases h : ci = 0 <;> cases dims <;> simp [applyB, applyU, fullSl_atU, consOpt, hU, h, ih c']
  | sl s =>
    have hne : ((Ix.sl s) = Ix.newaxis) = False := by simp
    simp only [hne, if_false, List.tail] at ih
    cases dims with
    | nil =>
      have hr : (applyU (y :: b') c).bind (applyB [] (Ix.sl s :: a)) = none :=
        bind_none_fun _ _ (fun k => by simp [applyB])
      rw [hr]
      cases y <;> simp [fuseIx, Ix.slice?] at hz <;> subst hz <;> simp [applyB]
    | cons d ds =>
      simp only [Ix.slice?] at hok ih
      cases y with
      | int m =>
        simp [fuseIx, Ix.slice?] at hz; subst hz
        simp at hok
        obtain ⟨hat, hlt⟩ := at_isSome s d m hok.2
        cases hU : applyU b' c with
        | none => simp [applyB, applyU, hU, consOpt, ih c, hlt]
        | some ks => simp [applyB, applyU, hU, consOpt, ih c, hlt, hat]
      | sl t =>
        simp [fuseIx, Ix.slice?] at hz; subst hz
        have hs : 0 < (s).step := by simpa using hok
        cases c with
        | nil => simp [applyB, applyU]
        | cons ci c' =>
          have key := slsl s t d ds hs ih ci c'
          simp only [applyB, applyU]; rw [key]
          cases hq : consOpt (t.atU ci) (applyU b' c') with
          | none => rfl
          | some kk => cases kk <;> simp [applyB]
      | full =>
        simp [fuseIx, Ix.slice?] at hz; subst hz
        have hs : 0 < (s).step := by simpa using hok
        cases c with
        | nil => simp [applyB, applyU]
        | cons ci c' =>
          have key := slsl s fullSl d ds hs ih ci c'
          simp only [applyB, applyU]; rw [key]
          cases hq : consOpt (fullSl.atU ci) (applyU b' c') with
          | none => rfl
          | some kk => cases kk <;> simp [applyB]
      | newaxis => simp [fuseIx, Ix.slice?] at hz
  | full =>
    have hne : ((Ix.full) = Ix.newaxis) = False := by simp
    simp only [hne, if_false, List.tail] at ih
    cases dims with
    | nil =>
      have hr : (applyU (y :: b') c).bind (applyB [] (Ix.full :: a)) = none :=
        bind_none_fun _ _ (fun k => by simp [applyB])
      rw [hr]
      cases y <;> simp [fuseIx, Ix.slice?] at hz <;> subst hz <;> simp [applyB]
    | cons d ds =>
      simp only [Ix.slice?] at hok ih
      cases y with
      | int m =>
        simp [fuseIx, Ix.slice?] at hz; subst hz
        simp at hok
        obtain ⟨hat, hlt⟩ := at_isSome fullSl d m hok.2
        cases hU : applyU b' c with
        | none => simp [applyB, applyU, hU, consOpt, ih c, hlt]
        | some ks => simp [applyB, applyU, hU, consOpt, ih c, hlt, hat]
      | sl t =>
        simp [fuseIx, Ix.slice?] at hz; subst hz
        have hs : 0 < (fullSl).step := by simpa using hok
        cases c with
        | nil => simp [applyB, applyU]
        | cons ci c' =>
          have key := slsl fullSl t d ds hs ih ci c'
          simp only [applyB, applyU]; rw [key]
          cases hq : consOpt (t.atU ci) (applyU b' c') with
          | none => rfl
          | some kk => cases kk <;> simp [applyB]
      | full =>
        simp [fuseIx, Ix.slice?] at hz; subst hz
        have hs : 0 < (fullSl).step := by simpa using hok
        cases c with
        | nil => simp [applyB, applyU]
        | cons ci c' =>
          have key := slsl fullSl fullSl d ds hs ih ci c'
          simp only [applyB, applyU]; rw [key]
          cases hq : consOpt (fullSl.atU ci) (applyU b' c') with
          | none => rfl
          | some kk => cases kk <;> simp [applyB]
      | newaxis => simp [fuseIx, Ix.slice?] at hz


/-- **fuse_tuple_index_map.** For every source shape `dims`, all index tuples `a`, `b` of integers, slices and `None`
    (any lengths, `None`s anywhere) for which `fuse_slice(a, b)` returns `r`, and every coordinate `c`: element `c` of
    `x[a][b]` and element `c` of `x[r]` are the same element of `x`, and `c` is outside one exactly when it is outside
    the other — the fused `getitem` task returns the block the chained `getitem`s return, shape included. -/
theorem fuse_tuple_index_map (a : List Ix) : ∀ (dims : List Nat) (b r : List Ix) (c : List Nat),
    fuseTuple a b = .ok r → pairsOK dims a b = true →
    applyB dims r c = (applyU b c).bind (applyB dims a) := by
  induction a with
  | nil =>
    intro dims b r c h _
    simp only [fuseTuple, Res.ok.injEq] at h
    subst h
    exact applyB_tail b dims c
  | cons x a ih =>
    intro dims b r c h hok
    by_cases hcond : (x.isInt || b.isEmpty) = true
    · simp only [fuseTuple, hcond, if_true] at h
      obtain ⟨r', hr', rfl⟩ := push_ok h
      simp only [pairsOK, hcond, if_true] at hok
      cases b with
      | nil =>
        rw [fuseTuple_nil] at hr'
        injection hr' with hr'
        subst hr'
        simp [applyU]
      | cons y b' =>
        have hx : x.isInt = true := by simpa using hcond
        cases x with
        | int n =>
          have hne : (Ix.int n = Ix.newaxis) = False := by simp
          simp only [hne, if_false] at hok
          cases dims with
          | nil =>
            rw [bind_none_fun _ _ (fun k => by simp [applyB])]
            simp [applyB]
          | cons d ds =>
            have h1 := ih ds (y :: b') r' c hr' hok
            cases hU : applyU (y :: b') c with
            | none => simp [applyB, h1, hU, consOpt]
            | some k => simp [applyB, h1, hU]
        | sl s => simp [Ix.isInt] at hx
        | full => simp [Ix.isInt] at hx
        | newaxis => simp [Ix.isInt] at hx
    · simp only [fuseTuple, hcond] at h
      simp only [pairsOK, hcond] at hok
      have hx : x.isInt = false := by
        cases hh : x.isInt with
        | false => rfl
        | true => simp [hh] at hcond
      have hspec := splitNones_spec b
      revert h hok hspec
      cases splitNones b with
      | mk k rest =>
        cases rest with
        | nil => intro h _ _; simp at h
        | cons y b' =>
          intro h hok hspec
          simp only at h hok hspec
          cases hz : fuseIx x y with
          | none => simp [hz] at h
          | some z =>
            simp only [hz] at h
            obtain ⟨r', hr', rfl⟩ := push_ok h
            rw [hspec, List.append_assoc]
            apply nones_prefix
            intro c'
            cases x with
            | int n => simp [Ix.isInt] at hx
            | newaxis =>
              simp only at hok
              exact pair_step .newaxis y z a b' r' dims hx (by simp [Ix.slice?]) hz
                (fun c => by simpa using ih dims b' r' c hr' hok) c'
            | sl s =>
              simp only [Bool.false_eq_true, if_false, Bool.and_eq_true] at hok
              exact pair_step (.sl s) y z a b' r' dims hx hok.1 hz
                (fun c => by simpa using ih dims.tail b' r' c hr' hok.2) c'
            | full =>
              simp only [Bool.false_eq_true, if_false, Bool.and_eq_true] at hok
              exact pair_step .full y z a b' r' dims hx hok.1 hz
                (fun c => by simpa using ih dims.tail b' r' c hr' hok.2) c'


theorem lt_div_iff (j n k : Nat) (hk : 0 < k) : j < n / k ↔ (j + 1) * k ≤ n := by
  rw [Nat.lt_iff_add_one_le, Nat.le_div_iff_mul_le hk]

theorem at_isSome_iff_len (s : Sl) (d j : Nat) (hs : 0 < s.step) :
    (s.at d j).isSome = true ↔ j < s.len d := by
  have hne : s.step ≠ 0 := by omega
  have hm : s.step * j = j * s.step := Nat.mul_comm _ _
  have hsucc : (j + 1) * s.step = j * s.step + s.step := Nat.succ_mul _ _
  unfold Sl.at Sl.len
  simp only [hne, if_false]
  cases hst : s.stop with
  | none =>
    simp only
    rw [lt_div_iff _ _ _ hs]
    by_cases h : s.start + s.step * j < d
    · simp [h]; omega
    · simp [h]; omega
  | some t =>
    simp only
    rw [lt_div_iff _ _ _ hs]
    by_cases h : s.start + s.step * j < d <;> by_cases h2 : s.start + s.step * j < t
    · simp [h, h2]; omega
    · simp [h, h2]; omega
    · simp [h, h2]; omega
    · simp [h, h2]; omega


/-- `applyB dims a` is defined exactly on the coordinates inside `x[a]` -/
theorem applyB_isSome_iff (a : List Ix) : ∀ (dims sh k : List Nat), stepsPos a = true → shapeIx dims a = some sh →
    ((applyB dims a k).isSome = true ↔ inBounds sh k = true) := by
  induction a with
  | nil =>
    intro dims sh k _ hsh
    simp only [shapeIx, Option.some.injEq] at hsh
    subst hsh
    by_cases h : inBounds dims k = true <;> simp [applyB, h]
  | cons x a ih =>
    intro dims sh k hp hsh
    cases x with
    | int n =>
      cases dims with
      | nil => simp [shapeIx] at hsh
      | cons d ds =>
        simp only [stepsPos] at hp
        by_cases hn : n < d
        · simp only [shapeIx, hn, if_true] at hsh
          have := ih ds sh k hp hsh
          cases hA : applyB ds a k with
          | none => simp [applyB, hn, hA, consOpt] at this ⊢; exact this
          | some p => simp [applyB, hn, hA, consOpt] at this ⊢; exact this
        · simp [shapeIx, hn] at hsh
    | newaxis =>
      simp only [stepsPos] at hp
      simp only [shapeIx, Option.map_eq_some_iff] at hsh
      obtain ⟨sh', hsh', rfl⟩ := hsh
      cases k with
      | nil => cases dims <;> simp [applyB, inBounds]
      | cons ki k' =>
        have := ih dims sh' k' hp hsh'
        by_cases h0 : ki = 0
        · cases dims <;> simp [applyB, inBounds, h0, this]
        · have : ¬ ki < 1 := by omega
          cases dims <;> simp [applyB, inBounds, h0]
    | sl s =>
      simp only [stepsPos, Bool.and_eq_true, decide_eq_true_eq] at hp
      cases dims with
      | nil => simp [shapeIx] at hsh
      | cons d ds =>
        simp only [shapeIx, Option.map_eq_some_iff] at hsh
        obtain ⟨sh', hsh', rfl⟩ := hsh
        cases k with
        | nil => simp [applyB, inBounds]
        | cons ki k' =>
          have h1 := ih ds sh' k' hp.2 hsh'
          have h2 := at_isSome_iff_len s d ki hp.1
          cases hA : applyB ds a k' <;> cases hB : s.at d ki <;>
            simp [applyB, inBounds, consOpt, hA, hB] at h1 h2 ⊢ <;> simp [h1, h2]
    | full =>
      simp only [stepsPos] at hp
      cases dims with
      | nil => simp [shapeIx] at hsh
      | cons d ds =>
        simp only [shapeIx, Option.map_eq_some_iff] at hsh
        obtain ⟨sh', hsh', rfl⟩ := hsh
        cases k with
        | nil => simp [applyB, inBounds]
        | cons ki k' =>
          have h1 := ih ds sh' k' hp hsh'
          have h2 := at_isSome_iff_len fullSl d ki (by decide)
          cases hA : applyB ds a k' <;> cases hB : fullSl.at d ki <;>
            simp [applyB, inBounds, consOpt, hA, hB] at h1 h2 ⊢ <;> simp [h1, h2]


theorem fuse_tuple_index_map_bounded (dims sh : List Nat) (a b r : List Ix) (c : List Nat)
    (hp : stepsPos a = true) (hsh : shapeIx dims a = some sh)
    (h : fuseTuple a b = .ok r) (hok : pairsOK dims a b = true) :
    applyB dims r c = (applyB sh b c).bind (applyB dims a) := by
  rw [fuse_tuple_index_map a dims b r c h hok, applyB_tail b sh c]
  cases hU : applyU b c with
  | none => rfl
  | some k =>
    have hiff := applyB_isSome_iff a dims sh k hp hsh
    by_cases hb : inBounds sh k = true
    · simp [applyB, hb]
    · have : applyB dims a k = none := by
        cases hA : applyB dims a k with
        | none => rfl
        | some p => rw [hA] at hiff; exact absurd (hiff.mp rfl) hb
      simp [applyB, hb, this]

/-- `x[1:, 3, :][None, :6:2, :]` fuses to `x[None, 1:7:2, 3, 0:]`: the new axis is copied, the integer stays, the
    slices fuse -/
example : fuseTuple [.sl ⟨1, none, 1⟩, .int 3, .full] [.newaxis, .sl ⟨0, some 6, 2⟩, .full]
    = .ok [.newaxis, .sl ⟨1, some 7, 2⟩, .int 3, .sl ⟨0, none, 1⟩] := by decide
example : pairsOK [9, 5, 4] [.sl ⟨1, none, 1⟩, .int 3, .full] [.newaxis, .sl ⟨0, some 6, 2⟩, .full] = true := by decide
example : applyB [9, 5, 4] [.newaxis, .sl ⟨1, some 7, 2⟩, .int 3, .sl ⟨0, none, 1⟩] [0, 2, 1] = some [5, 3, 1] := by decide
/-- a new axis of `a` can only be met by a full slice; an integer or a partial slice there is `NotImplementedError` -/
example : fuseTuple [.newaxis, .full] [.int 0, .full] = .notImplemented := by decide
example : fuseTuple [.newaxis, .full] [.full, .sl ⟨1, none, 1⟩] = .ok [.newaxis, .sl ⟨1, none, 1⟩] := by decide
/-- a `b` that ends in `None` while `a` still has entries runs off the end of `b` (Python: `IndexError`); dask's
    full-length index tuples never have this form -/
example : fuseTuple [.full, .full] [.sl ⟨0, some 3, 1⟩, .newaxis] = .indexError := by decide

theorem cntIdx_splitNones (b : List Ix) : cntIdx (splitNones b).2 = cntIdx b := by
  induction b with
  | nil => rfl
  | cons y t ih => cases y <;> simp [splitNones, cntIdx, ih]

theorem splitNones_head (b : List Ix) : ∀ y r, (splitNones b).2 = y :: r → y ≠ .newaxis := by
  induction b with
  | nil => intro y r h; simp [splitNones] at h
  | cons z t ih =>
    intro y r h
    cases z with
    | newaxis => simp only [splitNones] at h; exact ih y r h
    | int n => simp only [splitNones, List.cons.injEq] at h; rw [← h.1]; simp
    | sl s => simp only [splitNones, List.cons.injEq] at h; rw [← h.1]; simp
    | full => simp only [splitNones, List.cons.injEq] at h; rw [← h.1]; simp

theorem push_ne_indexError (pre : List Ix) (res : Res) (h : res ≠ .indexError) : res.push pre ≠ .indexError := by
  cases res with
  | ok r => simp [Res.push]
  | notImplemented => simp [Res.push]
  | indexError => exact absurd rfl h

/-- **fuse_tuple_no_index_error.** When `b` indexes at least as many axes as `a` leaves (true for dask's index tuples, which
    are full length: one entry per axis of the array they are applied to), the walk never runs off the end of `b`. -/
theorem fuse_tuple_no_index_error (a : List Ix) : ∀ b : List Ix, cntAxes a ≤ cntIdx b → fuseTuple a b ≠ .indexError := by
  induction a with
  | nil => intro b _; simp [fuseTuple]
  | cons x a ih =>
    intro b hle
    by_cases hcond : (x.isInt || b.isEmpty) = true
    · simp only [fuseTuple, hcond, if_true]
      apply push_ne_indexError
      cases b with
      | nil => rw [fuseTuple_nil]; simp
      | cons y b' =>
        have hx : x.isInt = true := by simpa using hcond
        cases x with
        | int n => exact ih _ (by simpa [cntAxes] using hle)
        | sl s => simp [Ix.isInt] at hx
        | full => simp [Ix.isInt] at hx
        | newaxis => simp [Ix.isInt] at hx
    · simp only [fuseTuple, hcond]
      have hx : x.isInt = false := by
        cases hh : x.isInt with
        | false => rfl
        | true => simp [hh] at hcond
      have hax : cntAxes (x :: a) = cntAxes a + 1 := by
        cases x with
        | int n => simp [Ix.isInt] at hx
        | sl s => rfl
        | full => rfl
        | newaxis => rfl
      have hcnt := cntIdx_splitNones b
      have hhead := splitNones_head b
      revert hcnt hhead
      cases splitNones b with
      | mk k rest =>
        cases rest with
        | nil =>
          intro hcnt _
          simp only [cntIdx] at hcnt
          omega
        | cons y b' =>
          intro hcnt hhead
          simp only
          cases hz : fuseIx x y with
          | none => simp
          | some z =>
            simp only
            apply push_ne_indexError
            apply ih
            have hy : y ≠ .newaxis := hhead y b' rfl
            have : cntIdx (y :: b') = cntIdx b' + 1 := by
              cases y with
              | newaxis => exact absurd rfl hy
              | int n => rfl
              | sl s => rfl
              | full => rfl
            simp only at hcnt
            omega

example : cntAxes [.full, .full] ≤ cntIdx [.sl ⟨0, some 3, 1⟩, .newaxis, .full] := by decide

end FuseSlice

end Dask.C25
