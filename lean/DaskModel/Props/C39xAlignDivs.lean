import DaskModel.Lemmas.AlignDivs
import DaskModel.Props.C44
import DaskModel.Props.C39Align
/-! # C39 (extension) — the alignment step of index joins, `concat(axis=1)` and aligned operators

Model: `Model/AlignDivs.lean` (`commonDivs`, `calcDivisionsForAlign`, `maybeAlignDivisions`, `maybeAlignLower`,
`concatAxis1Divisions`, `mergeIndexedDivisions`, `alignAll`, `applyPlan`), built on `Model/Align.lean`
(`mergeSorted`, `uniq`, `unionDivsAll`) and on C44's `Repart.repartitionDivisions`.

What is proved, for ANY number of frames and every legal division vector (`ValidDivs`: at least two entries, strictly
increasing except that the last two may coincide):

* `common_divisions_sorted_unique` — the common divisions are strictly increasing with ≥ 2 entries, or one value twice;
  in particular a legal division vector; `align_divisions_valid` — the same for every entry point of the code
  (`calc_divisions_for_align`, `MaybeAlignPartitions._divisions`, `Concat._divisions(axis=1)`, `Merge._lower`), which
  never raise on ≥ 1 frame;
* `common_divisions_cover` — every interval `[a[i], a[i+1]]` of every frame is a run `c[j..k]` of common intervals
  (both ends are common divisions, everything in between lies inside), and no boundary is invented;
  `common_divisions_guards` — the `force=True` guards of `RepartitionDivisions` accept;
* `aligned_total` / `aligned_partitions_colocate` — through C44's `divisions_total` and
  `divisions_rows_order_truthful`: every frame is repartitioned without error, keeps its rows in order, becomes
  truthful for the common divisions, and two rows with EQUAL index value sit in the SAME partition number whatever
  frames they belong to; `aligned_plan_colocate` — the same for whichever plan `MaybeAlignPartitions._lower` picks
  (no repartition when all divisions are equal / only single-partition frames);
* `index_join_eq_global_full` / `index_outer_eq_global_full` — fully indexed merge: repartition both sides onto the
  union, join partition by partition = the global join (multiset), with NO hypothesis about the aligned partitions;
  `aligned_binop_eq_global_full` — the same for an aligned operator / `concat(axis=1)` of two frames under the plan
  the code picks. -/
set_option linter.unusedSimpArgs false
set_option linter.unusedVariables false
namespace Dask.C39
open Dask.Join Dask.Divs Dask.Align Dask.AlignDivs Dask.Repart

/-- **common_divisions_sorted_unique** -/
theorem common_divisions_sorted_unique (ds : List (List Nat)) (hne : ds ≠ []) (hv : ∀ d ∈ ds, ValidDivs d) :
    ((commonDivs ds).Pairwise (· < ·) ∧ 2 ≤ (commonDivs ds).length ∨ ∃ v, commonDivs ds = [v, v]) ∧
    ValidDivs (commonDivs ds) := by
  have hne' : ∃ d ∈ ds, d ≠ [] := by
    obtain ⟨d, hd⟩ := List.exists_mem_of_ne_nil ds hne
    refine ⟨d, hd, ?_⟩
    intro h
    have := (hv d hd).1
    rw [h] at this
    simp at this
  have h := (commonDivs_spec ds (fun d hd => (hv d hd).2.2) hne').2
  exact ⟨h, h.valid⟩

/-- membership: the common divisions are exactly the divisions of the frames (nothing dropped, nothing invented) -/
theorem common_divisions_mem (ds : List (List Nat)) (hne : ds ≠ []) (hv : ∀ d ∈ ds, ValidDivs d) (x : Nat) :
    x ∈ commonDivs ds ↔ ∃ d ∈ ds, x ∈ d := by
  have hne' : ∃ d ∈ ds, d ≠ [] := by
    obtain ⟨d, hd⟩ := List.exists_mem_of_ne_nil ds hne
    refine ⟨d, hd, ?_⟩
    intro h
    have := (hv d hd).1
    rw [h] at this
    simp at this
  exact (commonDivs_spec ds (fun d hd => (hv d hd).2.2) hne').1 x

/-- **common_divisions_cover** — every division interval of every input frame is a union of common intervals -/
theorem common_divisions_cover (ds : List (List Nat)) (hv : ∀ d ∈ ds, ValidDivs d) (a : List Nat) (ha : a ∈ ds)
    (i lo hi : Nat) (hlo : a[i]? = some lo) (hhi : a[i + 1]? = some hi) :
    ∃ j k : Nat, j ≤ k ∧ (commonDivs ds)[j]? = some lo ∧ (commonDivs ds)[k]? = some hi ∧
      ∀ t v, j ≤ t → t ≤ k → (commonDivs ds)[t]? = some v → lo ≤ v ∧ v ≤ hi := by
  have hne : ds ≠ [] := List.ne_nil_of_mem ha
  have hs := (common_divisions_sorted_unique ds hne hv).2.2.2
  obtain ⟨h1, rfl⟩ := List.getElem?_eq_some_iff.mp hlo
  obtain ⟨h2, rfl⟩ := List.getElem?_eq_some_iff.mp hhi
  have hle : a[i] ≤ a[i + 1] := (List.pairwise_iff_getElem.mp (hv a ha).2.2) i (i + 1) h1 h2 (by omega)
  have m1 : a[i] ∈ commonDivs ds := (common_divisions_mem ds hne hv _).mpr ⟨a, ha, List.getElem_mem h1⟩
  have m2 : a[i + 1] ∈ commonDivs ds := (common_divisions_mem ds hne hv _).mpr ⟨a, ha, List.getElem_mem h2⟩
  obtain ⟨j, k, hjk, hj, hk⟩ := positions_of_mem _ hs _ _ m1 m2 hle
  exact ⟨j, k, hjk, hj, hk, fun t v hjt htk ht => between_positions _ hs j k t _ _ v hj hk ht hjt htk⟩

/-- the `force=True` guards of `Repartition(new_divisions=common, force=True)` accept every frame -/
theorem common_divisions_guards (ds : List (List Nat)) (hv : ∀ d ∈ ds, ValidDivs d) (a : List Nat) (ha : a ∈ ds) :
    ∃ g, dlGuards a (commonDivs ds) true = some g := by
  have hne : ds ≠ [] := List.ne_nil_of_mem ha
  have hc := (common_divisions_sorted_unique ds hne hv).2
  exact guards_of_cover a _ (hv a ha).1 hc.1 hc.2.2
    (fun x hx => (common_divisions_mem ds hne hv x).mpr ⟨a, ha, hx⟩)

/-! ### the entry points of the code -/

/-- **every entry point answers with a legal division vector**: `calc_divisions_for_align`,
    `MaybeAlignPartitions._divisions`, `Concat._divisions(axis=1)`, `Merge._lower` never raise on ≥ 1 frame with
    legal known divisions, and what they return is again a legal division vector -/
theorem align_divisions_valid (ds : List (List Nat)) (hne : ds ≠ []) (hv : ∀ d ∈ ds, ValidDivs d) :
    (∃ c, calcDivisionsForAlign ds = some c ∧ ValidDivs c) ∧
    (∃ c, maybeAlignDivisions ds = some c ∧ ValidDivs c) ∧
    (∃ c, concatAxis1Divisions ds = some c ∧ ValidDivs c) := by
  have hc := (common_divisions_sorted_unique ds hne hv).2
  have hcalc : ∃ c, calcDivisionsForAlign ds = some c ∧ ValidDivs c := by
    match ds, hne, hv, hc with
    | d0 :: rest, _, hv, hc =>
      unfold calcDivisionsForAlign
      by_cases h : allEqual (d0 :: rest) = true
      · exact ⟨d0, by simp [h], hv d0 List.mem_cons_self⟩
      · exact ⟨commonDivs (d0 :: rest), by simp [h], hc⟩
  obtain ⟨lo, hi, hspan, hle, _⟩ := spanDivs_spec ds hne hv
  have hspanv : ValidDivs [lo, hi] := ⟨by simp, by simp, by simp [hle]⟩
  refine ⟨hcalc, ?_, ?_⟩
  · unfold maybeAlignDivisions
    by_cases h : allSingle ds = true
    · exact ⟨[lo, hi], by simp [h, hspan], hspanv⟩
    · obtain ⟨c, h1, h2⟩ := hcalc
      exact ⟨c, by simp [h, h1], h2⟩
  · unfold concatAxis1Divisions
    by_cases h : allSingle ds = true
    · exact ⟨[lo, hi], by simp [h, hspan], hspanv⟩
    · have : ds.isEmpty = false := by cases ds with | nil => exact absurd rfl hne | cons _ _ => rfl
      exact ⟨commonDivs ds, by simp [h, this], hc⟩

/-- the fully indexed merge's divisions are the common divisions of the two sides (also when both are equal) -/
theorem merge_indexed_divisions_valid (a b : List Nat) (ha : ValidDivs a) (hb : ValidDivs b) :
    ValidDivs (mergeIndexedDivisions a b) ∧ mergeIndexedDivisions a b = unionDivs a b := by
  refine ⟨(common_divisions_sorted_unique [a, b] (by simp) (by
    intro d hd
    rcases List.mem_cons.mp hd with rfl | hd
    · exact ha
    · rcases List.mem_cons.mp hd with rfl | hd
      · exact hb
      · simp at hd)).2, ?_⟩
  simp [mergeIndexedDivisions, commonDivs, unionDivsAll, unionDivs, mergeSorted]

/-! ### repartitioning every frame onto the common divisions -/

/-- a frame as the alignment step sees it: legal known divisions, truthful partitions in index order -/
def FrameWF {α : Type} (key : α → Nat) (f : List Nat × List (List α)) : Prop :=
  ValidDivs f.1 ∧ Truthful key f.1 f.2 ∧ ∀ p ∈ f.2, KeySorted key p

/-- one frame onto any legal division vector that covers its divisions (C44: `divisions_total`,
    `divisions_rows_order_truthful`) -/
theorem align_one {α : Type} (key : α → Nat) (f : List Nat × List (List α)) (hf : FrameWF key f) (c : List Nat)
    (hc : ValidDivs c) (hcov : ∀ x ∈ f.1, x ∈ c) :
    ∃ out, repartitionDivisions key f.2 f.1 c true = some out ∧ out.flatten = f.2.flatten ∧ Truthful key c out := by
  obtain ⟨hva, ht, hso⟩ := hf
  obtain ⟨g, hg⟩ := guards_of_cover f.1 c hva.1 hc.1 hc.2.2 hcov
  obtain ⟨out, hout⟩ := C44.divisions_total key f.2 f.1 c true hva hc ht hso g hg
  obtain ⟨h1, h2⟩ := C44.divisions_rows_order_truthful α key f.2 f.1 c true out hva hc ht hso hout
  exact ⟨out, hout, h1, h2⟩

/-- **aligned_total** — `maybe_align_partitions(*frames, divisions=common)` never raises: every
    `Repartition(df, new_divisions=common, force=True)` builds its layer and evaluates -/
theorem aligned_total {α : Type} (key : α → Nat) (frames : List (List Nat × List (List α)))
    (hf : ∀ f ∈ frames, FrameWF key f) (hne : frames ≠ []) :
    ∃ outs, alignAll key (commonDivs (frames.map (·.1))) frames = some outs := by
  have hne' : frames.map (·.1) ≠ [] := by simpa using hne
  have hv : ∀ d ∈ frames.map (·.1), ValidDivs d := by
    intro d hd
    obtain ⟨f, hfm, rfl⟩ := List.mem_map.mp hd
    exact (hf f hfm).1
  have hc := (common_divisions_sorted_unique _ hne' hv).2
  apply mapM_total
  intro f hfm
  obtain ⟨out, hout, _, _⟩ := align_one key f (hf f hfm) _ hc
    (fun x hx => (common_divisions_mem _ hne' hv x).mpr ⟨f.1, List.mem_map.mpr ⟨f, hfm, rfl⟩, hx⟩)
  exact ⟨out, hout⟩

/-- rows of frames that are truthful for the SAME divisions: equal index value ⇒ equal partition number -/
theorem colocate_of_truthful {α : Type} (key : α → Nat) (c : List Nat) (F G : List (List α))
    (hF : Truthful key c F) (hG : Truthful key c G) (i j : Nat) (P Q : List α) (hP : F[i]? = some P)
    (hQ : G[j]? = some Q) (r s : α) (hr : r ∈ P) (hs : s ∈ Q) (hk : key r = key s) : i = j := by
  have h1 := classOf_truthful key c F hF i P hP r hr
  have h2 := classOf_truthful key c G hG j Q hQ s hs
  rw [hk] at h1
  omega

/-- **aligned_partitions_colocate** — after repartitioning every frame onto the common divisions each frame still
    has exactly its rows, in order, is truthful for the common divisions, and any two rows with equal index value —
    of the same frame or of two different frames — sit in the same partition number -/
theorem aligned_partitions_colocate {α : Type} (key : α → Nat) (frames : List (List Nat × List (List α)))
    (hf : ∀ f ∈ frames, FrameWF key f) (outs : List (List (List α)))
    (h : alignAll key (commonDivs (frames.map (·.1))) frames = some outs) :
    outs.length = frames.length ∧
    (∀ (n : Nat) (f : List Nat × List (List α)) (F : List (List α)), frames[n]? = some f → outs[n]? = some F →
      F.flatten = f.2.flatten ∧ Truthful key (commonDivs (frames.map (·.1))) F) ∧
    (∀ (n m : Nat) (F G : List (List α)) (i j : Nat) (P Q : List α) (r s : α), outs[n]? = some F → outs[m]? = some G → F[i]? = some P → G[j]? = some Q →
      r ∈ P → s ∈ Q → key r = key s → i = j) := by
  obtain ⟨hlen, hget⟩ := mapM_getElem? _ frames outs h
  have hfacts : ∀ (n : Nat) (f : List Nat × List (List α)) (F : List (List α)), frames[n]? = some f → outs[n]? = some F →
      F.flatten = f.2.flatten ∧ Truthful key (commonDivs (frames.map (·.1))) F := by
    intro n f F hfn hFn
    obtain ⟨F', hF', hrep⟩ := hget n f hfn
    rw [hFn] at hF'
    cases hF'
    have hfm : f ∈ frames := List.mem_of_getElem? hfn
    have hne' : frames.map (·.1) ≠ [] := by
      intro h0
      have : frames = [] := by simpa using h0
      rw [this] at hfm
      simp at hfm
    have hv : ∀ d ∈ frames.map (·.1), ValidDivs d := by
      intro d hd
      obtain ⟨f', hfm', rfl⟩ := List.mem_map.mp hd
      exact (hf f' hfm').1
    have hc := (common_divisions_sorted_unique _ hne' hv).2
    obtain ⟨hva, ht, hso⟩ := hf f hfm
    exact C44.divisions_rows_order_truthful α key f.2 f.1 _ true F hva hc ht hso hrep
  refine ⟨hlen, hfacts, ?_⟩
  intro n m F G i j P Q r s hFn hGm hP hQ hr hs hk
  have hn : n < frames.length := by rw [← hlen]; exact (List.getElem?_eq_some_iff.mp hFn).1
  have hm : m < frames.length := by rw [← hlen]; exact (List.getElem?_eq_some_iff.mp hGm).1
  have hF := (hfacts n frames[n] F (List.getElem?_eq_getElem hn) hFn).2
  have hG := (hfacts m frames[m] G (List.getElem?_eq_getElem hm) hGm).2
  exact colocate_of_truthful key _ F G hF hG i j P Q hP hQ r s hr hs hk

/-! ### the plan `MaybeAlignPartitions._lower` picks -/

/-- **aligned_plan_truthful** — whichever plan `MaybeAlignPartitions._lower` picks for frames with known divisions
    (blockwise as they are: one frame / all divisions equal; `SetDivisions` only: single-partition frames;
    `Repartition(..., force=True)` onto the common divisions otherwise), the plan is carried out without error,
    every frame keeps exactly its rows in order, and there is ONE legal division vector for which every frame handed
    to the blockwise operation is truthful -/
theorem aligned_plan_truthful {α : Type} (key : α → Nat) (frames : List (List Nat × List (List α)))
    (hf : ∀ f ∈ frames, FrameWF key f) (hne : frames ≠ []) :
    ∃ plan outs c, maybeAlignLower (frames.map (·.1)) = some plan ∧ applyPlan key plan frames = some outs ∧
      outs.length = frames.length ∧ ValidDivs c ∧
      (∀ (n : Nat) (f : List Nat × List (List α)) (F : List (List α)), frames[n]? = some f → outs[n]? = some F →
        F.flatten = f.2.flatten ∧ Truthful key c F) := by
  have hne' : frames.map (·.1) ≠ [] := by simpa using hne
  have hv : ∀ d ∈ frames.map (·.1), ValidDivs d := by
    intro d hd
    obtain ⟨f, hfm, rfl⟩ := List.mem_map.mp hd
    exact (hf f hfm).1
  obtain ⟨d, hd, hdv⟩ := (align_divisions_valid _ hne' hv).2.1
  -- the untouched frames
  have hasis : ∀ (n : Nat) (f : List Nat × List (List α)) (F : List (List α)), frames[n]? = some f →
      (frames.map (·.2))[n]? = some F → F = f.2 := by
    intro n f F h1 h2
    simp only [List.getElem?_map, h1, Option.map_some, Option.some.injEq] at h2
    rw [h2]
  rw [maybeAlignLower_eq _ d hd]
  by_cases h1 : ((frames.map (·.1)).length == 1 || allEqual (frames.map (·.1))) = true
  · -- blockwise as they are: every frame has the same divisions
    have hsame : ∃ d0, ∀ f ∈ frames, f.1 = d0 := by
      clear hasis hd hv hne' hf
      cases frames with
      | nil => exact absurd rfl hne
      | cons f0 rest =>
        refine ⟨f0.1, ?_⟩
        rcases Bool.or_eq_true _ _ |>.mp h1 with hl | he
        · have : rest = [] := by simpa using hl
          subst this
          intro f hfm
          simp at hfm
          rw [hfm]
        · rw [List.map_cons] at he
          intro f hfm
          exact allEqual_spec f0.1 (rest.map (·.1)) he f.1
            (by
              rcases List.mem_cons.mp hfm with rfl | hfm
              · exact List.mem_cons_self
              · exact List.mem_cons_of_mem _ (List.mem_map.mpr ⟨f, hfm, rfl⟩))
    obtain ⟨d0, hd0⟩ := hsame
    obtain ⟨f0, hf0⟩ := List.exists_mem_of_ne_nil frames hne
    refine ⟨.asIs, frames.map (·.2), d0, by rw [if_pos h1], rfl, by simp, by rw [← hd0 f0 hf0]; exact (hf f0 hf0).1, ?_⟩
    intro n f F hfn hFn
    have := hasis n f F hfn hFn
    subst this
    have hfm := List.mem_of_getElem? hfn
    exact ⟨rfl, by rw [← hd0 f hfm]; exact (hf f hfm).2.1⟩
  · by_cases h2 : (d.length == 2 && maxLen (frames.map (·.1)) == 2) = true
    · -- single-partition frames only: nothing is moved; all are truthful for `(min, max)`
      have hmax : maxLen (frames.map (·.1)) = 2 := by
        have := (Bool.and_eq_true _ _ |>.mp h2).2
        simpa using this
      have htwo : ∀ f ∈ frames, f.1.length = 2 := by
        intro f hfm
        have hle : f.1.length ≤ 2 := by
          have := (maxLen_le (frames.map (·.1)) 0).2 f.1 (List.mem_map.mpr ⟨f, hfm, rfl⟩)
          unfold maxLen at hmax
          omega
        have := (hf f hfm).1.1
        omega
      have hs : allSingle (frames.map (·.1)) = true := by
        simp only [allSingle, Bool.and_eq_true, List.all_eq_true, Bool.not_eq_true', List.isEmpty_eq_false_iff]
        refine ⟨hne', ?_⟩
        intro e he
        obtain ⟨f, hfm, rfl⟩ := List.mem_map.mp he
        simp [htwo f hfm]
      obtain ⟨lo, hi, hspan, hle, hbounds⟩ := spanDivs_spec _ hne' hv
      have hd' : d = [lo, hi] := by
        unfold maybeAlignDivisions at hd
        simp only [hs, if_true, hspan, Option.some.injEq] at hd
        exact hd.symm
      refine ⟨.setDivisions d, frames.map (·.2), d, by rw [if_neg h1, if_pos h2], rfl, by simp, hdv, ?_⟩
      intro n f F hfn hFn
      have := hasis n f F hfn hFn
      subst this
      have hfm := List.mem_of_getElem? hfn
      refine ⟨rfl, ?_⟩
      rw [hd']
      exact truthful_widen_single key f.1 f.2 (hf f hfm).2.1 (htwo f hfm) lo hi
        (hbounds f.1 (List.mem_map.mpr ⟨f, hfm, rfl⟩))
    · -- repartition every frame onto `d` = the common divisions
      have hdc : d = commonDivs (frames.map (·.1)) := by
        have hns : allSingle (frames.map (·.1)) = false := by
          -- all single-partition frames would make `d` a pair and `maxLen = 2`
          cases hs : allSingle (frames.map (·.1)) with
          | false => rfl
          | true =>
            exfalso
            apply h2
            obtain ⟨lo, hi, hspan, _, _⟩ := spanDivs_spec _ hne' hv
            have hd' : d = [lo, hi] := by
              unfold maybeAlignDivisions at hd
              simp only [hs, if_true, hspan, Option.some.injEq] at hd
              exact hd.symm
            have hall : ∀ e ∈ frames.map (·.1), e.length = 2 := by
              intro e he
              simp only [allSingle, Bool.and_eq_true, List.all_eq_true] at hs
              simpa using hs.2 e he
            have hm : maxLen (frames.map (·.1)) = 2 := by
              obtain ⟨e, he⟩ := List.exists_mem_of_ne_nil _ hne'
              have hge := (maxLen_le (frames.map (·.1)) 0).2 e he
              rw [hall e he] at hge
              have hle : maxLen (frames.map (·.1)) ≤ 2 := foldl_maxLen_le_two _ 0 (by omega) hall
              unfold maxLen at hle ⊢
              omega
            simp [hd', hm]
        unfold maybeAlignDivisions at hd
        simp only [hns, Bool.false_eq_true, if_false] at hd
        cases hfr : frames.map (·.1) with
        | nil => exact absurd hfr hne'
        | cons d0 rest =>
          rw [hfr] at hd h1
          unfold calcDivisionsForAlign at hd
          have hne1 : allEqual (d0 :: rest) = false := by
            cases he : allEqual (d0 :: rest) with
            | false => rfl
            | true => rw [he] at h1; simp at h1
          simp only [hne1, Bool.false_eq_true, if_false, Option.some.injEq] at hd
          exact hd.symm
      obtain ⟨outs, houts⟩ := aligned_total key frames hf hne
      obtain ⟨hl, hfacts, _⟩ := aligned_partitions_colocate key frames hf outs houts
      exact ⟨.repartition d, outs, d, by rw [if_neg h1, if_neg h2], by rw [hdc]; exact houts, hl, hdv,
        by rw [hdc]; exact hfacts⟩

/-- **aligned_plan_colocate** — under the plan `MaybeAlignPartitions._lower` picks, rows with equal index value sit in
    the same partition number in every frame — the partition-wise operator sees all partners of a row in its own
    task — and every frame keeps exactly its rows in order -/
theorem aligned_plan_colocate {α : Type} (key : α → Nat) (frames : List (List Nat × List (List α)))
    (hf : ∀ f ∈ frames, FrameWF key f) (hne : frames ≠ []) :
    ∃ plan outs, maybeAlignLower (frames.map (·.1)) = some plan ∧ applyPlan key plan frames = some outs ∧
      outs.length = frames.length ∧
      (∀ (n : Nat) (f : List Nat × List (List α)) (F : List (List α)), frames[n]? = some f → outs[n]? = some F →
        F.flatten = f.2.flatten) ∧
      (∀ (n m : Nat) (F G : List (List α)) (i j : Nat) (P Q : List α) (r s : α), outs[n]? = some F →
        outs[m]? = some G → F[i]? = some P → G[j]? = some Q → r ∈ P → s ∈ Q → key r = key s → i = j) := by
  obtain ⟨plan, outs, c, h1, h2, hl, _, hfacts⟩ := aligned_plan_truthful key frames hf hne
  refine ⟨plan, outs, h1, h2, hl, fun n f F a b => (hfacts n f F a b).1, ?_⟩
  intro n m F G i j P Q r s hFn hGm hP hQ hr hs hk
  have hn : n < frames.length := by rw [← hl]; exact (List.getElem?_eq_some_iff.mp hFn).1
  have hm : m < frames.length := by rw [← hl]; exact (List.getElem?_eq_some_iff.mp hGm).1
  have hF := (hfacts n frames[n] F (List.getElem?_eq_getElem hn) hFn).2
  have hG := (hfacts m frames[m] G (List.getElem?_eq_getElem hm) hGm).2
  exact colocate_of_truthful key c F G hF hG i j P Q hP hQ r s hr hs hk

/-! ### index joins / aligned operators with NO hypothesis about the aligned partitions -/

/-- **index_join_eq_global_full** — fully indexed merge of two frames with known divisions (`Merge._lower`): both
    sides are repartitioned onto `unique(merge_sorted(left.divisions, right.divisions))` with `force=True` — which
    never raises — and joined partition by partition; the result is the global join as a multiset, for every
    left-driven join (inner, left, leftsemi). The only hypotheses are about the INPUT frames: legal known divisions,
    truthful partitions in index order. -/
theorem index_join_eq_global_full (g : Row → List Row → List Out) (hg : ∀ l ms o, o ∈ g l ms → o.1 = l.1)
    (a b : List Nat) (Ls0 Rs0 : List (List Row))
    (hL : FrameWF (fun r : Row => r.1) (a, Ls0)) (hR : FrameWF (fun r : Row => r.1) (b, Rs0)) :
    ∃ Ls Rs, repartitionDivisions (fun r : Row => r.1) Ls0 a (mergeIndexedDivisions a b) true = some Ls ∧
      repartitionDivisions (fun r : Row => r.1) Rs0 b (mergeIndexedDivisions a b) true = some Rs ∧
      (alignedJoin (joinWith g) Ls Rs).flatten.Perm (joinWith g Ls0.flatten Rs0.flatten) := by
  have hv : ∀ d ∈ [a, b], ValidDivs d := by
    intro d hd
    rcases List.mem_cons.mp hd with rfl | hd
    · exact hL.1
    · rcases List.mem_cons.mp hd with rfl | hd
      · exact hR.1
      · simp at hd
  have hc := (common_divisions_sorted_unique [a, b] (by simp) hv).2
  obtain ⟨Ls, hLs, hLf, hLt⟩ := align_one _ (a, Ls0) hL (commonDivs [a, b]) hc
    (fun x hx => (common_divisions_mem [a, b] (by simp) hv x).mpr ⟨a, by simp, hx⟩)
  obtain ⟨Rs, hRs, hRf, hRt⟩ := align_one _ (b, Rs0) hR (commonDivs [a, b]) hc
    (fun x hx => (common_divisions_mem [a, b] (by simp) hv x).mpr ⟨b, by simp, hx⟩)
  exact ⟨Ls, Rs, hLs, hRs, index_join_eq_global g hg _ hc.1 _ _ Ls Rs hLt hRt hLf hRf⟩

/-- **index_outer_eq_global_full** — the same for outer / right joins -/
theorem index_outer_eq_global_full (g : Row → List Row → List Out) (hg : ∀ l ms o, o ∈ g l ms → o.1 = l.1)
    (a b : List Nat) (Ls0 Rs0 : List (List Row))
    (hL : FrameWF (fun r : Row => r.1) (a, Ls0)) (hR : FrameWF (fun r : Row => r.1) (b, Rs0)) :
    ∃ Ls Rs, repartitionDivisions (fun r : Row => r.1) Ls0 a (mergeIndexedDivisions a b) true = some Ls ∧
      repartitionDivisions (fun r : Row => r.1) Rs0 b (mergeIndexedDivisions a b) true = some Rs ∧
      (alignedJoin (fun A B => joinWith g A B ++ rightOnly A B) Ls Rs).flatten.Perm
        (joinWith g Ls0.flatten Rs0.flatten ++ rightOnly Ls0.flatten Rs0.flatten) := by
  have hv : ∀ d ∈ [a, b], ValidDivs d := by
    intro d hd
    rcases List.mem_cons.mp hd with rfl | hd
    · exact hL.1
    · rcases List.mem_cons.mp hd with rfl | hd
      · exact hR.1
      · simp at hd
  have hc := (common_divisions_sorted_unique [a, b] (by simp) hv).2
  obtain ⟨Ls, hLs, hLf, hLt⟩ := align_one _ (a, Ls0) hL (commonDivs [a, b]) hc
    (fun x hx => (common_divisions_mem [a, b] (by simp) hv x).mpr ⟨a, by simp, hx⟩)
  obtain ⟨Rs, hRs, hRf, hRt⟩ := align_one _ (b, Rs0) hR (commonDivs [a, b]) hc
    (fun x hx => (common_divisions_mem [a, b] (by simp) hv x).mpr ⟨b, by simp, hx⟩)
  exact ⟨Ls, Rs, hLs, hRs, index_outer_eq_global g hg _ hc.1 _ _ Ls Rs hLt hRt hLf hRf⟩

/-- **aligned_binop_eq_global_full** — an aligned operator / `concat(axis=1)` / index `join` of two frames with known
    divisions under the plan `MaybeAlignPartitions._lower` picks (as they are, `SetDivisions`, or repartitioned onto
    the common divisions): pairing the rows partition by partition on the index (outer: matched pairs plus the
    unmatched rows of either side; `g` decides what a left row with its matches becomes) gives the global pairing -/
theorem aligned_binop_eq_global_full (g : Row → List Row → List Out) (hg : ∀ l ms o, o ∈ g l ms → o.1 = l.1)
    (a b : List Nat) (Ls0 Rs0 : List (List Row))
    (hL : FrameWF (fun r : Row => r.1) (a, Ls0)) (hR : FrameWF (fun r : Row => r.1) (b, Rs0)) :
    ∃ plan Ls Rs, maybeAlignLower [a, b] = some plan ∧
      applyPlan (fun r : Row => r.1) plan [(a, Ls0), (b, Rs0)] = some [Ls, Rs] ∧
      (alignedJoin (joinWith g) Ls Rs).flatten.Perm (joinWith g Ls0.flatten Rs0.flatten) ∧
      (alignedJoin (fun A B => joinWith g A B ++ rightOnly A B) Ls Rs).flatten.Perm
        (joinWith g Ls0.flatten Rs0.flatten ++ rightOnly Ls0.flatten Rs0.flatten) := by
  obtain ⟨plan, outs, c, h1, h2, hl, hc, hfacts⟩ := aligned_plan_truthful (fun r : Row => r.1) [(a, Ls0), (b, Rs0)]
    (by
      intro f hfm
      rcases List.mem_cons.mp hfm with rfl | hfm
      · exact hL
      · rcases List.mem_cons.mp hfm with rfl | hfm
        · exact hR
        · simp at hfm) (by simp)
  match outs, hl with
  | [Ls, Rs], _ =>
    obtain ⟨hLf, hLt⟩ := hfacts 0 (a, Ls0) Ls rfl rfl
    obtain ⟨hRf, hRt⟩ := hfacts 1 (b, Rs0) Rs rfl rfl
    exact ⟨plan, Ls, Rs, h1, h2, index_join_eq_global g hg c hc.1 _ _ Ls Rs hLt hRt hLf hRf,
      index_outer_eq_global g hg c hc.1 _ _ Ls Rs hLt hRt hLf hRf⟩

/-! ### non-vacuity and concrete behaviour of the model (kernel-evaluated) -/

example : commonDivs [[0, 5, 9], [3, 9, 9], [2, 4]] = [0, 2, 3, 4, 5, 9] := by
  simp [commonDivs, unionDivsAll, mergeSorted, Align.uniq]
example : commonDivs [[4, 4], [4, 4]] = [4, 4] := by simp [commonDivs, unionDivsAll, mergeSorted, Align.uniq]
example : calcDivisionsForAlign [[0, 3, 3], [0, 3, 3]] = some [0, 3, 3] := by decide
example : (calcDivisionsForAlign [[0, 3, 3], [0, 3]]) = some [0, 3] := by
  simp [calcDivisionsForAlign, allEqual, commonDivs, unionDivsAll, mergeSorted, Align.uniq]
example : maybeAlignDivisions [[2, 3], [5, 9]] = some [2, 9] := by decide
example : maybeAlignLower [[2, 3], [5, 9]] = some (.setDivisions [2, 9]) := by decide
example : maybeAlignLower [[0, 3, 5], [0, 3, 5]] = some .asIs := by decide
example : maybeAlignLower [[0, 3, 5], [2, 6, 7]] = some (.repartition [0, 2, 3, 5, 6, 7]) := by
  simp [maybeAlignLower, maybeAlignDivisions, allSingle, calcDivisionsForAlign, allEqual, commonDivs, unionDivsAll,
    mergeSorted, Align.uniq, maxLen]
example : FrameWF (fun r : Row => r.1) ([0, 3, 5], [[0, 2], [3, 5]].map fun p => p.map fun k => (k, 0)) :=
  ⟨⟨by decide, by decide, by decide⟩,
    Truthful.map ((truthfulB_iff _ _).mp (by decide)) _ (by
      intro p r hr
      obtain ⟨k, hk, rfl⟩ := List.mem_map.mp hr
      exact ⟨k, hk, rfl⟩),
    by
      intro p hp
      simp only [List.map_cons, List.map_nil, List.mem_cons, List.not_mem_nil, or_false] at hp
      rcases hp with rfl | rfl <;> simp [KeySorted]⟩

end Dask.C39
