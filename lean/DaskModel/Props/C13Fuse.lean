import DaskModel.Model.FusedKey
import DaskModel.Generated.FusedKeyRenamer
/-!
# C13 (part 2) — the name of a fused chain still tells different inputs apart

`fuse_linear_task_spec` (bag / array / delayed optimizers) replaces a linear chain of tasks by one task whose key is
made by `default_fused_keys_renamer`: the sorted prefixes of the chain's keys joined with the full name of the top
key; names longer than the threshold keep `keep` characters plus a digest of the FULL name.  If two chains of one
`dask.compute` got the same fused key, one collection would silently receive the other's values.

Full statement: chains whose top keys end in different tokens never get the same fused key — `fused_keys_distinct`,
for every digest function of fixed length that tells the joined names of the graph apart (md5 over the full name:
trusted, like the tokens themselves); `digest_must_separate` shows that the hypothesis cannot be dropped (the 4-digit `hash()`
suffix the code used before did collide: a defect of the unchanged tree, repaired by 5057867).
-/
namespace Dask.C13Fuse
open Dask.FusedKey

/-- the constants of the source (extracted on every run): names up to 115 characters are kept; a longer name keeps
    87 characters and gets `-` and the 32 hex digits of md5, i.e. exactly the 120 characters of the limit -/
theorem limits_extracted :
    threshold Generated.FusedKeyRenamer.defaultMaxLen Generated.FusedKeyRenamer.slack = 115 ∧
    keepLen Generated.FusedKeyRenamer.defaultMaxLen Generated.FusedKeyRenamer.slack Generated.FusedKeyRenamer.room = 87 ∧
    keepLen Generated.FusedKeyRenamer.defaultMaxLen Generated.FusedKeyRenamer.slack Generated.FusedKeyRenamer.room
      + 1 + Generated.FusedKeyRenamer.digestLen = Generated.FusedKeyRenamer.defaultMaxLen := by decide

/-- the last `n` characters -/
def lastN (n : Nat) (l : Name) : Name := l.drop (l.length - n)

theorem lastN_append (n : Nat) (p x : Name) (h : n ≤ x.length) : lastN n (p ++ x) = lastN n x := by
  unfold lastN
  have e : (p ++ x).length - n = p.length + (x.length - n) := by
    simp only [List.length_append]; omega
  rw [e, List.drop_append]
  have : p.length + (x.length - n) - p.length = x.length - n := by omega
  rw [this, List.drop_eq_nil_of_le (by omega)]
  rfl

theorem joinDash_snoc : ∀ (ps : List Name) (x : Name), ∃ pre, joinDash (ps ++ [x]) = pre ++ x
  | [], x => ⟨[], rfl⟩
  | [p], x => ⟨p ++ ['-'], by simp [joinDash]⟩
  | p :: q :: r, x => by
    obtain ⟨pre, h⟩ := joinDash_snoc (q :: r) x
    refine ⟨p ++ '-' :: pre, ?_⟩
    simp only [List.cons_append] at h ⊢
    simp only [joinDash, h, List.append_assoc, List.cons_append]

/-- the joined name ends with the full name of the top key -/
theorem concat_ends_with_top (splits : List Name) (fs first : Name) :
    ∃ pre, concatName splits fs first = pre ++ first := joinDash_snoc _ _

/-- names that were not cut: the joined names agree only if the top keys end alike (same token) -/
theorem same_name_same_token (splits splits' : List Name) (fs fs' first first' : Name) (n : Nat)
    (hn : n ≤ first.length) (hn' : n ≤ first'.length)
    (h : concatName splits fs first = concatName splits' fs' first') : lastN n first = lastN n first' := by
  obtain ⟨p, hp⟩ := concat_ends_with_top splits fs first
  obtain ⟨q, hq⟩ := concat_ends_with_top splits' fs' first'
  rw [hp, hq] at h
  have := congrArg (lastN n) h
  rwa [lastN_append n p first hn, lastN_append n q first' hn'] at this

/-- does the name exceed the threshold? -/
def cut (thr : Nat) (c : Name) : Bool := thr != 0 && c.length > thr

theorem enforce_cut (h : Name → Name) (thr keep : Nat) (c : Name) (hc : cut thr c = true) :
    enforce h thr keep c = c.take keep ++ '-' :: h c := by
  unfold cut at hc; unfold enforce; rw [if_pos hc]

theorem enforce_nocut (h : Name → Name) (thr keep : Nat) (c : Name) (hc : cut thr c = false) :
    enforce h thr keep c = c := by
  unfold cut at hc; unfold enforce; rw [if_neg (by simp [hc])]

theorem cut_len {thr : Nat} {c : Name} (hc : cut thr c = true) : thr < c.length := by
  simp only [cut, Bool.and_eq_true, decide_eq_true_eq] at hc; exact hc.2

theorem nocut_len {thr : Nat} {c : Name} (hl : thr ≠ 0) (hc : cut thr c = false) : c.length ≤ thr := by
  simp only [cut, Bool.and_eq_false_iff, bne_eq_false_iff_eq, decide_eq_false_iff_not] at hc
  rcases hc with hc | hc
  · exact absurd hc hl
  · omega

theorem cut_thr_ne {thr : Nat} {c : Name} (hc : cut thr c = true) : thr ≠ 0 := by
  simp only [cut, Bool.and_eq_true, bne_iff_ne, ne_eq] at hc; exact hc.1

/-- what is assumed of the digest and the limits, for the joined names `S` that occur in one graph: the digest tells
    them apart (no function into fixed-length strings is injective on ALL names, so this is a hypothesis about the
    names at hand — the same trust that is put into tokens), it has the fixed length `D`, a cut name keeps no more
    than the threshold and is longer than every name that is not cut -/
structure DigestOK (S : Name → Prop) (h : Name → Name) (thr keep D : Nat) : Prop where
  inj : ∀ a b, S a → S b → h a = h b → a = b
  len : ∀ a, S a → (h a).length = D
  keep_le : keep ≤ thr
  longer : thr ≤ keep + D

/-- **With a digest that separates the names at hand the (possibly cut) name determines the joined name** -/
theorem enforce_inj (S : Name → Prop) (h : Name → Name) (thr keep D : Nat) (ok : DigestOK S h thr keep D) (c c' : Name)
    (hc : S c) (hc' : S c') (he : enforce h thr keep c = enforce h thr keep c') : c = c' := by
  cases h1 : cut thr c <;> cases h2 : cut thr c'
  · rwa [enforce_nocut h thr keep c h1, enforce_nocut h thr keep c' h2] at he
  · rw [enforce_nocut h thr keep c h1, enforce_cut h thr keep c' h2] at he
    have hl := congrArg List.length he
    have := nocut_len (cut_thr_ne h2) h1
    have := cut_len h2
    have := ok.len c' hc'
    have := ok.keep_le
    have := ok.longer
    simp only [List.length_append, List.length_take, List.length_cons] at hl
    omega
  · rw [enforce_cut h thr keep c h1, enforce_nocut h thr keep c' h2] at he
    have hl := congrArg List.length he
    have := nocut_len (cut_thr_ne h1) h2
    have := cut_len h1
    have := ok.len c hc
    have := ok.keep_le
    have := ok.longer
    simp only [List.length_append, List.length_take, List.length_cons] at hl
    omega
  · rw [enforce_cut h thr keep c h1, enforce_cut h thr keep c' h2] at he
    have l1 := cut_len h1
    have l2 := cut_len h2
    have := ok.keep_le
    have hl : (c.take keep).length = (c'.take keep).length := by
      simp only [List.length_take]; omega
    have := List.append_inj he hl
    exact ok.inj _ _ hc hc' (List.cons.inj this.2).2

theorem fusedName_inj (S : Name → Prop) (h : Name → Name) (thr keep D : Nat) (ok : DigestOK S h thr keep D)
    (splits splits' : List Name) (fs fs' first first' : Name)
    (hs : S (concatName splits fs first)) (hs' : S (concatName splits' fs' first'))
    (he : fusedName h thr keep splits fs first = fusedName h thr keep splits' fs' first') :
    concatName splits fs first = concatName splits' fs' first' :=
  enforce_inj S h thr keep D ok _ _ hs hs' he

/-- **Chains whose top keys end in different tokens never get the same fused key** (digest separating the joined
    names of the graph) -/
theorem fused_keys_distinct (S : Name → Prop) (h : Name → Name) (thr keep D n : Nat) (ok : DigestOK S h thr keep D)
    (splits splits' : List Name) (fs fs' first first' : Name)
    (hs : S (concatName splits fs first)) (hs' : S (concatName splits' fs' first'))
    (hn : n ≤ first.length) (hn' : n ≤ first'.length) (htok : lastN n first ≠ lastN n first') :
    fusedName h thr keep splits fs first ≠ fusedName h thr keep splits' fs' first' :=
  fun he => htok (same_name_same_token splits splits' fs fs' first first' n hn hn'
    (fusedName_inj S h thr keep D ok splits splits' fs fs' first first' hs hs' he))

/-- the limits of the source satisfy the hypotheses for every 32-character digest that separates the names at hand -/
theorem source_limits_ok (S : Name → Prop) (h : Name → Name) (hinj : ∀ a b, S a → S b → h a = h b → a = b)
    (hlen : ∀ a, S a → (h a).length = Generated.FusedKeyRenamer.digestLen) :
    DigestOK S h (threshold Generated.FusedKeyRenamer.defaultMaxLen Generated.FusedKeyRenamer.slack)
      (keepLen Generated.FusedKeyRenamer.defaultMaxLen Generated.FusedKeyRenamer.slack Generated.FusedKeyRenamer.room)
      Generated.FusedKeyRenamer.digestLen :=
  ⟨hinj, hlen, by decide, by decide⟩

/-- the digest has to separate the names: with a digest that does not, two chains over different data (top keys
    `f-1` and `f-2`) whose joined names agree on the kept characters share their fused key -/
theorem digest_must_separate :
    fusedName (fun _ => "0".toList) 4 4 ["load".toList] "f".toList "f-1".toList
      = fusedName (fun _ => "0".toList) 4 4 ["load".toList] "f".toList "f-2".toList
    ∧ lastN 1 "f-1".toList ≠ lastN 1 "f-2".toList := by decide

/-- a cut name has exactly `keep + 1 + |digest|` characters: with the extracted constants, `max_fused_key_length` -/
theorem cut_name_length (h : Name → Name) (thr keep : Nat) (c : Name) (hc : cut thr c = true) (hk : keep ≤ thr) :
    (enforce h thr keep c).length = keep + 1 + (h c).length := by
  rw [enforce_cut h thr keep c hc]
  have := cut_len hc
  simp only [List.length_append, List.length_take, List.length_cons]
  omega

/-- a name within the threshold is kept as it is -/
theorem short_name_kept (h : Name → Name) (thr keep : Nat) (c : Name) (hc : c.length ≤ thr) : enforce h thr keep c = c := by
  apply enforce_nocut
  simp only [cut, Bool.and_eq_false_iff, bne_eq_false_iff_eq, decide_eq_false_iff_not]
  right; omega

/-- what the driver reports is the fused name up to the digest -/
theorem fusedParts_spec (h : Name → Name) (thr keep : Nat) (splits : List Name) (fs first : Name) :
    fusedName h thr keep splits fs first =
      match fusedParts thr keep splits fs first with
      | (p, none) => p
      | (p, some c) => p ++ '-' :: h c := by
  unfold fusedName fusedParts enforce
  by_cases hc : (thr != 0 && (concatName splits fs first).length > thr) = true
  · simp only [hc, if_true]
  · simp only [hc]; rfl

/-! ## non-vacuity: two three-step chains whose names are cut (threshold 12, 8 characters kept); the "digest" keeps
the last 5 characters, which tells the two joined names of this graph apart -/

def nameA : Name := concatName ["load".toList, "clean".toList] "score".toList "score-aaaa".toList
def nameB : Name := concatName ["load".toList, "clean".toList] "score".toList "score-bbbb".toList

theorem toy_digest_ok : DigestOK (fun c => c = nameA ∨ c = nameB) (lastN 5) 12 8 5 where
  inj := by
    intro a b ha hb hab
    rcases ha with rfl | rfl <;> rcases hb with rfl | rfl
    · rfl
    · exact absurd hab (by decide)
    · exact absurd hab (by decide)
    · rfl
  len := by
    intro a ha
    rcases ha with rfl | rfl <;> decide
  keep_le := by decide
  longer := by decide

example : fusedName (lastN 5) 12 8 ["load".toList, "clean".toList] "score".toList "score-aaaa".toList
        ≠ fusedName (lastN 5) 12 8 ["load".toList, "clean".toList] "score".toList "score-bbbb".toList :=
  fused_keys_distinct _ (lastN 5) 12 8 5 4 toy_digest_ok _ _ _ _ _ _ (Or.inl rfl) (Or.inr rfl) (by decide) (by decide) (by decide)

example : fusedName (lastN 5) 12 8 ["load".toList, "clean".toList] "score".toList "score-aaaa".toList
        = "clean-lo--aaaa".toList := by decide

example : (fusedParts 12 8 ["load".toList, "clean".toList] "score".toList "score-aaaa".toList)
    = ("clean-lo".toList, some "clean-load-score-aaaa".toList) := by decide

end Dask.C13Fuse
