import DaskModel.Lemmas.TsqrPlan
import DaskModel.Props.C31
import Mathlib.Logic.Equiv.Defs
/-!
# C31 extension — the task graph of `tsqr` wires the products of the TSQR block algebra

Model: `Model/TsqrPlan.lean` (the graph as data: per level the branch taken, the stacking groups `all_blocks`, the row
chunks of the stacked R array, one `QSlice` per `getitem-…-q2` task).

* `tsqr_offsets_partition` — single-core branch: the slices of `Q'` taken for the blocks are one per block, in order,
  disjoint, inside and covering the `Σ min(m_i, c)` rows of the stacked R; block `i` gets `min(m_i, c)` rows — `m_i` when the
  block is shorter than wide (`tsqr_short_block_rows`), 0 for an empty block.
* `tsqr_recursive_slices_global` / `tsqr_recursive_slices_within` — recursive branch: every slice stays inside the block
  of `q_inner` it reads, and, expressed in the row coordinates of the whole `q_inner` (block `g` starts at the sum of the
  earlier stacked chunks), the slices ARE the single-core slices: the grouping only decides which block holds a row.
* `plan_levels_partition`, `plan_levels_chain` — every level of the plan the driver prints satisfies this, and each
  recursive level hands its `vchunks` and its `cr_max` to the next one.
* `plan_fuel_suffices` — the recursion always ends within `length + 2` calls (`stackGroups_length_le`: a level with
  `cr_max ≥ 2c` at least halves the number of blocks; one with `cr_max < 2c` is followed by a non-recursive call).
* `RowPartition.equiv`, `tsqr_sliced_wiring`, `tsqr_sliced_wiring_orthonormal` — Mathlib matrices over a commutative
  ring: a partition of the rows `[0, N)` into slices `[off i, off i + k i)` is an equivalence `(Σ i, Fin (k i)) ≃ Fin N`;
  with it the graph's output blocks `np.dot(Q_i, Q'[off_i : off_i + k_i, :])` are `blockdiag(Q_i) · Q'` and the
  hypotheses of `tsqr_n_blocks` / `tsqr_n_blocks_orthonormal` hold, so `A = [Q_i · Q'[slice_i]]_i · R'`.
* `tsqr_plan_matches_algebra` (+ `_orthonormal`, `_recursive`) — the instance for the plan's offsets.
Not proved: the induction over the levels as ONE statement about matrices (each level's hypothesis `Rst = Qf · R'` is the
previous conclusion for the stacked array — chained by hand), NumPy's `vstack`/slicing/`dot` semantics (definitions
here), floating point.
-/
namespace Dask.C31x
open Dask.C31 Dask.TsqrPlan Dask.Contraction

/-! ## the slices partition the rows of the stacked R -/

/-- **tsqr_offsets_partition** (single-core branch; by `tsqr_recursive_slices_global` also the recursive one) -/
theorem tsqr_offsets_partition (cc : Nat) (chunks : List Nat) :
    let ks := rRows cc chunks
    let sl := singleSlices cc chunks
    -- one slice per block; block `i` reads rows `[Σ_{j<i} min(m_j,c), … + min(m_i,c))` of the one in-core Q'
    sl.length = chunks.length ∧
    (∀ i (h : i < chunks.length), sl[i]? = some ⟨i, 0, (ks.take i).sum, (ks.take i).sum + min chunks[i] cc⟩) ∧
    -- in order and disjoint
    (∀ (i j : Nat) (a b : QSlice), i < j → sl[i]? = some a → sl[j]? = some b → a.stop ≤ b.start) ∧
    -- inside the stacked R (Python would silently clip a slice that is not)
    (∀ a ∈ sl, a.start ≤ a.stop ∧ a.stop ≤ ks.sum) ∧
    -- every row of the stacked R (Σ min(m_i, c) rows) belongs to exactly one slice
    (∀ t, t < ks.sum → ∃ i : Nat, ∃ a : QSlice, sl[i]? = some a ∧ a.start ≤ t ∧ t < a.stop ∧
      ∀ (j : Nat) (b : QSlice), sl[j]? = some b → b.start ≤ t → t < b.stop → j = i) := by
  intro ks sl
  have hlen : sl.length = chunks.length := singleSlices_length cc chunks
  have hks : ks.length = chunks.length := by simp [ks, rRows]
  have hget : ∀ i (h : i < chunks.length), sl[i]? = some ⟨i, 0, (ks.take i).sum, (ks.take i).sum + min chunks[i] cc⟩ :=
    fun i h => singleSlices_getElem? cc chunks i h
  have hki : ∀ i (h : i < chunks.length), ks[i]'(by omega) = min chunks[i] cc := by
    intro i h; simp [ks, rRows]
  have hlt : ∀ (i : Nat) (a : QSlice), sl[i]? = some a → i < chunks.length := by
    intro i a h
    have := (List.getElem?_eq_some_iff.mp h).1
    omega
  have hord : ∀ (i j : Nat) (a b : QSlice), i < j → sl[i]? = some a → sl[j]? = some b → a.stop ≤ b.start := by
    intro i j a b hij ha hb
    have hi := hlt i a ha
    have hj := hlt j b hb
    rw [hget i hi] at ha
    rw [hget j hj] at hb
    cases ha; cases hb
    have := take_sum_step_le ks hij (by omega)
    rw [hki i hi] at this
    exact this
  refine ⟨hlen, hget, hord, ?_, ?_⟩
  · intro a ha
    obtain ⟨i, hi⟩ := List.mem_iff_getElem?.mp ha
    have hi' := hlt i a hi
    rw [hget i hi'] at hi
    cases hi
    refine ⟨by simp, ?_⟩
    have h1 := take_sum_succ ks i (by omega)
    have h2 := take_sum_le ks (i + 1)
    rw [hki i hi'] at h1
    simp only
    omega
  · intro t ht
    obtain ⟨i, hi, h1, h2⟩ := take_sum_cover ks t ht
    have hi' : i < chunks.length := by omega
    rw [hki i hi'] at h2
    refine ⟨i, _, hget i hi', h1, h2, ?_⟩
    intro j b hb hb1 hb2
    rcases Nat.lt_trichotomy j i with hlt' | heq | hgt
    · have := hord j i b _ hlt' hb (hget i hi')
      simp only at this
      omega
    · exact heq
    · have := hord i j _ b hgt (hget i hi') hb
      simp only at this
      omega

/-- a block with fewer rows than columns contributes exactly its own `m_i` rows (not `c`), an empty block none -/
theorem tsqr_short_block_rows (cc : Nat) (chunks : List Nat) (i : Nat) (h : i < chunks.length) (hs : chunks[i] ≤ cc) :
    ∃ a, (singleSlices cc chunks)[i]? = some a ∧ a.blk = i ∧ a.stop = a.start + chunks[i] := by
  refine ⟨_, singleSlices_getElem? cc chunks i h, rfl, ?_⟩
  simp only
  omega

/-- the total: the stacked R has `Σ min(m_i, c)` rows, at most `c` per block and at most the rows of the input -/
theorem rRows_sum_le (cc : Nat) (chunks : List Nat) :
    (rRows cc chunks).sum ≤ chunks.sum ∧ (rRows cc chunks).sum ≤ chunks.length * cc := by
  induction chunks with
  | nil => simp [rRows]
  | cons a rest ih =>
    simp only [rRows, List.map_cons, List.sum_cons, List.length_cons] at ih ⊢
    refine ⟨by omega, ?_⟩
    rw [Nat.add_mul]
    omega

/-- **tsqr_recursive_slices_global**: in the row coordinates of the whole `q_inner` the recursive branch takes exactly
    the slices of the single-core branch, whatever the grouping capacity -/
theorem tsqr_recursive_slices_global (chunks : List Nat) (cc crMax : Nat) :
    (recSlices (stackGroups chunks cc crMax)).map
        (globalSlice (blockStart (vchunksOf (stackGroups chunks cc crMax)))) = singleSlices cc chunks :=
  recSlices_global_of_flatten cc chunks _ (stackGroups_flatten chunks cc crMax)

/-- **tsqr_recursive_slices_within**: every slice of the recursive branch reads an existing block of `q_inner` and lies
    inside that block's rows (`vchunks[src]`) -/
theorem tsqr_recursive_slices_within (groups : List (List (Nat × Nat))) (s : QSlice) (h : s ∈ recSlices groups) :
    ∃ hp : s.src < (vchunksOf groups).length, s.start ≤ s.stop ∧ s.stop ≤ (vchunksOf groups)[s.src] := by
  obtain ⟨p, hp, h1, h2, h3⟩ := mem_recSlicesFrom 0 groups s h
  have : s.src = p := by omega
  subst this
  exact ⟨hp, h2, h3⟩

/-- the stacked chunks add up to the rows of all R factors -/
theorem vchunks_sum (chunks : List Nat) (cc crMax : Nat) :
    (vchunksOf (stackGroups chunks cc crMax)).sum = (rRows cc chunks).sum := by
  have h := stackGroups_flatten chunks cc crMax
  have : (vchunksOf (stackGroups chunks cc crMax)).sum = ((stackGroups chunks cc crMax).flatten.map (·.2)).sum := by
    generalize stackGroups chunks cc crMax = gs
    induction gs with
    | nil => rfl
    | cons g gs ih => simp only [vchunksOf, List.map_cons, List.sum_cons, List.flatten_cons, List.map_append,
        List.sum_append] at ih ⊢; rw [ih]
  rw [this, h, expected_snd]


/-- non-vacuity: rows (4, 0, 2, 3), 3 columns — the empty block gets the empty slice `[3, 3)`, the 2-row block 2 rows -/
example : singleSlices 3 [4, 0, 2, 3] = [⟨0, 0, 0, 3⟩, ⟨1, 0, 3, 3⟩, ⟨2, 0, 3, 5⟩, ⟨3, 0, 5, 8⟩] := by decide

/-- non-vacuity (recursive branch, `cr_max = 6 = 2c`): groups `[0,1] [2,3] [4,5] [6]`, stacked chunks `(4, 4, 4, 3)`; the
    1-row blocks contribute 1 row each (the seeded defect `n_q = cc` would say 3) -/
example : stackGroups [6, 1, 6, 1, 6, 1, 6] 3 6 = [[(0, 3), (1, 1)], [(2, 3), (3, 1)], [(4, 3), (5, 1)], [(6, 3)]] ∧
    vchunksOf (stackGroups [6, 1, 6, 1, 6, 1, 6] 3 6) = [4, 4, 4, 3] ∧
    recSlices (stackGroups [6, 1, 6, 1, 6, 1, 6] 3 6) =
      [⟨0, 0, 0, 3⟩, ⟨1, 0, 3, 4⟩, ⟨2, 1, 0, 3⟩, ⟨3, 1, 3, 4⟩, ⟨4, 2, 0, 3⟩, ⟨5, 2, 3, 4⟩, ⟨6, 3, 0, 3⟩] ∧
    (recSlices (stackGroups [6, 1, 6, 1, 6, 1, 6] 3 6)).map (globalSlice (blockStart [4, 4, 4, 3])) =
      singleSlices 3 [6, 1, 6, 1, 6, 1, 6] := by decide

/-- non-vacuity: the three calls the real `tsqr` makes for that input (the second one recurses only because of the
    inherited `_max_vchunk_size = 6`: its own `cr_max` is 4 < 2c) -/
example : (match plan [6, 1, 6, 1, 6, 1, 6] 3 with
      | .ok ls => ls.map fun lv => (lv.chunks, lv.maxV, lv.recursive)
      | _ => []) =
    [([6, 1, 6, 1, 6, 1, 6], none, true), ([4, 4, 4, 3], some 6, true), ([3, 3, 3, 3], some 4, false)] := by decide

/-- all blocks empty: Python raises ZeroDivisionError in `nr*cc / cr_max` -/
example : recurses [0, 0] 3 none = none := by decide

/-! ## every level of the plan the driver prints -/

theorem singleSlicesFrom_global (base : Nat → Nat) (hb : base 0 = 0) (idx : Nat) (ps : List (Nat × Nat)) :
    (singleSlicesFrom idx ps).map (globalSlice base) = singleSlicesFrom idx ps := by
  induction ps generalizing idx with
  | nil => rfl
  | cons p ps ih =>
    obtain ⟨a, b⟩ := p
    simp only [singleSlicesFrom, List.map_cons, ih, globalSlice, hb, Nat.zero_add]

/-- what `plan` promises about one level -/
def LevelOk (cc : Nat) (lv : Level) : Prop :=
  lv.vchunks = vchunksOf lv.groups ∧
  lv.groups.flatten = expected cc 0 lv.chunks ∧
  lv.slices.map (globalSlice (blockStart lv.vchunks)) = singleSlices cc lv.chunks ∧
  (lv.recursive = true → lv.groups = stackGroups lv.chunks cc (crMaxOf lv.chunks) ∧ lv.slices = recSlices lv.groups) ∧
  (lv.recursive = false → lv.groups = [expected cc 0 lv.chunks] ∧ lv.slices = singleSlices cc lv.chunks)

theorem singleLevel_ok (chunks : List Nat) (cc : Nat) (maxV : Option Nat) : LevelOk cc (singleLevel chunks cc maxV) := by
  refine ⟨rfl, by simp [singleLevel, expectedBlocks_eq], ?_, by simp [singleLevel], by simp [singleLevel, expectedBlocks_eq]⟩
  simp only [singleLevel, singleSlices]
  exact singleSlicesFrom_global _ (by simp [blockStart]) _ _

theorem recLevel_ok (chunks : List Nat) (cc : Nat) (maxV : Option Nat) : LevelOk cc (recLevel chunks cc maxV) :=
  ⟨rfl, stackGroups_flatten chunks cc _, tsqr_recursive_slices_global chunks cc _, by simp [recLevel], by simp [recLevel]⟩

/-- **plan_levels_partition**: at every level of every plan the slices are, in global row coordinates of the Q factor
    they read, the partition slices of `tsqr_offsets_partition`; the groups list every R block once, in order -/
theorem plan_levels_partition : ∀ (fuel : Nat) (chunks : List Nat) (cc : Nat) (maxV : Option Nat) (ls : List Level),
    planFuel fuel chunks cc maxV = .ok ls → ∀ lv ∈ ls, LevelOk cc lv
  | 0, _, _, _, _, h => by simp [planFuel] at h
  | fuel + 1, chunks, cc, maxV, ls, h => by
    simp only [planFuel] at h
    split at h
    · cases h
    · cases h
      intro lv hlv
      rw [List.mem_singleton] at hlv
      subst hlv
      exact singleLevel_ok chunks cc maxV
    · split at h
      · rename_i rest hrest
        cases h
        intro lv hlv
        rcases List.mem_cons.mp hlv with rfl | h'
        · exact recLevel_ok chunks cc maxV
        · exact plan_levels_partition fuel _ cc _ rest hrest lv h'
      · rename_i hne
        exact absurd h (hne ls)

/-- **plan_levels_chain**: the first level is the call itself; a single-core level ends the plan, a recursive one is
    followed by the plan of `tsqr(r_stacked, _max_vchunk_size=cr_max)` -/
theorem plan_levels_chain (fuel : Nat) (chunks : List Nat) (cc : Nat) (maxV : Option Nat) (ls : List Level)
    (h : planFuel (fuel + 1) chunks cc maxV = .ok ls) :
    ∃ lv rest, ls = lv :: rest ∧ lv.chunks = chunks ∧ lv.maxV = maxV ∧ recurses chunks cc maxV = some lv.recursive ∧
      ((lv.recursive = false ∧ rest = []) ∨
       (lv.recursive = true ∧ planFuel fuel lv.vchunks cc (some (crMaxOf chunks)) = .ok rest)) := by
  simp only [planFuel] at h
  split at h
  · cases h
  · rename_i hr
    cases h
    exact ⟨_, [], rfl, rfl, rfl, hr, Or.inl ⟨rfl, rfl⟩⟩
  · rename_i hr
    split at h
    · rename_i rest hrest
      cases h
      exact ⟨_, rest, rfl, rfl, rfl, hr, Or.inr ⟨rfl, hrest⟩⟩
    · rename_i hne
      exact absurd h (hne ls)


/-! ## the recursion budget of `plan` suffices -/

/-- with `cr_max ≥ 2c` every closed group holds at least two R blocks -/
def Pairs (cc : Nat) (s : StackSt) : Prop := (∀ g ∈ s.done, 2 ≤ g.length) ∧ s.sz ≤ cc * s.cur.length

theorem pairs_step (cc crMax : Nat) (h2 : 2 * cc ≤ crMax) (s : StackSt) (idx am : Nat) (h : Pairs cc s) :
    Pairs cc (stackStep cc crMax s idx am) := by
  unfold stackStep Pairs
  have hm : min am cc ≤ cc := Nat.min_le_right _ _
  by_cases hp : s.sz + min am cc > crMax
  · simp only [hp, if_true]
    refine ⟨?_, by simp [hm]⟩
    intro g hg
    simp only [List.mem_cons] at hg
    rcases hg with rfl | hg
    · simp only [List.length_reverse]
      rcases Nat.lt_or_ge s.cur.length 2 with hlt | hge
      · have h1 : cc * s.cur.length ≤ cc * 1 := Nat.mul_le_mul_left cc (by omega)
        have := h.2
        omega
      · exact hge
    · exact h.1 g hg
  · simp only [hp, if_false]
    refine ⟨h.1, ?_⟩
    have := h.2
    simp only [List.length_cons, Nat.mul_succ]
    omega

theorem pairs_loop (cc crMax : Nat) (h2 : 2 * cc ≤ crMax) (s : StackSt) (idx : Nat) (chunks : List Nat) (h : Pairs cc s) :
    Pairs cc (stackLoop cc crMax s idx chunks) := by
  induction chunks generalizing s idx with
  | nil => exact h
  | cons am rest ih => exact ih _ _ (pairs_step cc crMax h2 s idx am h)

theorem two_mul_length_le_flatten {α : Type} (gs : List (List α)) (h : ∀ g ∈ gs, 2 ≤ g.length) :
    2 * gs.length ≤ gs.flatten.length := by
  induction gs with
  | nil => simp
  | cons g gs ih =>
    have := h g (by simp)
    have := ih (fun g' hg' => h g' (by simp [hg']))
    simp only [List.length_cons, List.flatten_cons, List.length_append]
    omega

theorem expected_length (cc idx : Nat) (chunks : List Nat) : (expected cc idx chunks).length = chunks.length := by
  induction chunks generalizing idx with
  | nil => rfl
  | cons a rest ih => simp [expected, ih]

/-- the grouping at least halves the number of blocks when `cr_max ≥ 2c` -/
theorem stackGroups_length_le (chunks : List Nat) (cc crMax : Nat) (h2 : 2 * cc ≤ crMax) :
    2 * (stackGroups chunks cc crMax).length ≤ chunks.length + 1 := by
  have hp := pairs_loop cc crMax h2 ⟨[], [], 0⟩ 0 chunks ⟨by simp, by simp⟩
  have he := congrArg List.length (entries_loop cc crMax ⟨[], [], 0⟩ 0 chunks)
  simp only [entries, List.reverse_nil, List.flatten_nil, List.nil_append, List.length_append, List.length_reverse,
    expected_length] at he
  have hd := two_mul_length_le_flatten (stackLoop cc crMax ⟨[], [], 0⟩ 0 chunks).done.reverse
    (fun g hg => hp.1 g (List.mem_reverse.mp hg))
  simp only [List.length_reverse] at hd
  unfold stackGroups
  simp only
  split
  · simp only [List.length_reverse]; omega
  · rename_i hc
    have : (stackLoop cc crMax ⟨[], [], 0⟩ 0 chunks).cur.length ≠ 0 := by
      intro h0
      exact hc (by simp [List.length_eq_zero_iff.mp h0])
    simp only [List.length_reverse, List.length_cons]
    omega

theorem recurses_true (chunks : List Nat) (cc : Nat) (maxV : Option Nat) (h : recurses chunks cc maxV = some true) :
    2 * cc ≤ maxV.getD (crMaxOf chunks) ∧ crMaxOf chunks < chunks.length * cc := by
  unfold recurses at h
  simp only at h
  split at h
  · cases h
  · simpa using h

/-- **plan_fuel_suffices**: `length + 2` calls are enough — a recursive call with `cr_max ≥ 2c` hands on at most
    `⌈N/2⌉` blocks, one with `cr_max < 2c` is followed by a single-core (or raising) call -/
theorem planFuel_ne_fuel : ∀ (fuel : Nat) (chunks : List Nat) (cc : Nat) (maxV : Option Nat),
    chunks.length + 2 ≤ fuel → ∀ ls, planFuel fuel chunks cc maxV = ls → ls ≠ .fuel
  | 0, _, _, _, hf, _, _ => by omega
  | fuel + 1, chunks, cc, maxV, hf, ls, hls => by
    simp only [planFuel] at hls
    split at hls
    · subst hls; simp
    · subst hls; simp
    · rename_i hr
      obtain ⟨-, hlt⟩ := recurses_true chunks cc maxV hr
      by_cases h2 : 2 * cc ≤ crMaxOf chunks
      · have hlen := stackGroups_length_le chunks cc (crMaxOf chunks) h2
        have hnb : 3 ≤ chunks.length := by
          rcases Nat.lt_or_ge chunks.length 3 with h | h
          · have : chunks.length * cc ≤ 2 * cc := Nat.mul_le_mul_right cc (by omega)
            omega
          · exact h
        have ih := planFuel_ne_fuel fuel (recLevel chunks cc maxV).vchunks cc (some (crMaxOf chunks))
          (by simp only [recLevel, vchunksOf, List.length_map]; omega) _ rfl
        split at hls
        · subst hls; simp
        · subst hls; exact ih
      · cases fuel with
        | zero => omega
        | succ f =>
          have hnext : ∀ r, planFuel (f + 1) (recLevel chunks cc maxV).vchunks cc (some (crMaxOf chunks)) = r → r ≠ .fuel := by
            intro r hr'
            simp only [planFuel, recurses, Option.getD_some, h2, decide_false, Bool.false_and] at hr'
            split at hr'
            · subst hr'; simp
            · subst hr'; simp
            · rename_i heq
              split at heq <;> simp at heq
          split at hls
          · subst hls; simp
          · subst hls; exact hnext _ rfl

theorem plan_fuel_suffices (chunks : List Nat) (cc : Nat) : plan chunks cc ≠ .fuel :=
  planFuel_ne_fuel _ chunks cc none (Nat.le_refl _) _ rfl


/-! ## matrices -/

/-- the row slices `[off i, off i + kf i)`, `i < nb`, are in order, disjoint and cover `[0, N)` -/
structure RowPartition (nb : Nat) (kf off : Fin nb → Nat) (N : Nat) : Prop where
  bound : ∀ i, off i + kf i ≤ N
  ordered : ∀ i j : Fin nb, i.val < j.val → off i + kf i ≤ off j
  cover : ∀ t, t < N → ∃ i, off i ≤ t ∧ t < off i + kf i

namespace RowPartition
variable {nb N : Nat} {kf off : Fin nb → Nat}

/-- row `r` of block `i` ↦ flat row `off i + r` -/
def toFun (P : RowPartition nb kf off N) (x : Σ i : Fin nb, Fin (kf i)) : Fin N :=
  ⟨off x.1 + x.2.val, by have := P.bound x.1; have := x.2.isLt; omega⟩

theorem bijective (P : RowPartition nb kf off N) : Function.Bijective P.toFun := by
  constructor
  · rintro ⟨i, r⟩ ⟨j, r'⟩ h
    have h' : off i + r.val = off j + r'.val := by simpa [toFun] using congrArg Fin.val h
    have hr := r.isLt
    have hr' := r'.isLt
    have hij : i = j := by
      apply Fin.ext
      rcases Nat.lt_trichotomy i.val j.val with hlt | heq | hgt
      · have := P.ordered i j hlt; omega
      · exact heq
      · have := P.ordered j i hgt; omega
    subst hij
    have : r = r' := Fin.ext (by omega)
    subst this
    rfl
  · intro t
    obtain ⟨i, h1, h2⟩ := P.cover t.val t.isLt
    exact ⟨⟨i, ⟨t.val - off i, by omega⟩⟩, Fin.ext (by simp [toFun]; omega)⟩

/-- the partition as an equivalence (block, local row) ≃ flat row -/
noncomputable def equiv (P : RowPartition nb kf off N) : (Σ i : Fin nb, Fin (kf i)) ≃ Fin N :=
  Equiv.ofBijective P.toFun P.bijective

theorem equiv_apply (P : RowPartition nb kf off N) (i : Fin nb) (r : Fin (kf i)) :
    (P.equiv ⟨i, r⟩).val = off i + r.val := rfl

end RowPartition

section wiring
set_option linter.unusedSectionVars false
open Matrix
variable {K : Type} [CommRing K] {n p : Type} [Fintype n] [DecidableEq n] [Fintype p] [DecidableEq p]

/-- rows `[s, s + len)` of a flat matrix: Python's `M[s:s+len, :]` when the slice is not clipped (`s + len ≤ N`) -/
def rowsAt {N : Nat} {c : Type} (M : Matrix (Fin N) c K) (s len : Nat) (h : s + len ≤ N) : Matrix (Fin len) c K :=
  fun r j => M ⟨s + r.val, by have := r.isLt; omega⟩ j

theorem rowsAt_rowsAt {N : Nat} {c : Type} (M : Matrix (Fin N) c K) (a l b l' : Nat) (h : a + l ≤ N) (h' : b + l' ≤ l) :
    rowsAt (rowsAt M a l h) b l' h' = rowsAt M (a + b) l' (by omega) := by
  funext r j
  simp only [rowsAt, Nat.add_assoc]

theorem rowsAt_mul {N : Nat} (M : Matrix (Fin N) p K) (B : Matrix p n K) (s len : Nat) (h : s + len ≤ N) :
    rowsAt (M * B) s len h = rowsAt M s len h * B := by
  funext r j
  simp only [rowsAt, Matrix.mul_apply]

variable {nb N : Nat} {kf off mf : Fin nb → Nat}

theorem submatrix_equiv_eq_stackRows (P : RowPartition nb kf off N) (Qf : Matrix (Fin N) p K) :
    Qf.submatrix P.equiv id = stackRows (fun i => rowsAt Qf (off i) (kf i) (P.bound i)) := by
  funext x j
  obtain ⟨i, r⟩ := x
  simp only [Matrix.submatrix_apply, stackRows, rowsAt, id]
  congr 1

/-- **tsqr_sliced_wiring**: the graph `dot-q3 (i) = np.dot(Q_i, Q'[off_i : off_i + k_i, :])` computes the factor
    `blockdiag(Q_i) · Q'` of `tsqr_n_blocks`, provided the slices partition the rows of the stacked R:
    `Rst` = `np.vstack(R_0 … R_{nb-1})` (its rows `[off_i, off_i + k_i)` are `R_i`), `Rst = Qf · R'` (in-core QR of the
    stack, or the recursive call) ⇒ `A = [Q_i · Qf[slice_i]]_i · R'`. -/
theorem tsqr_sliced_wiring (P : RowPartition nb kf off N)
    (A : ∀ i, Matrix (Fin (mf i)) n K) (Q : ∀ i, Matrix (Fin (mf i)) (Fin (kf i)) K) (R : ∀ i, Matrix (Fin (kf i)) n K)
    (Rst : Matrix (Fin N) n K) (Qf : Matrix (Fin N) p K) (R' : Matrix p n K)
    (hA : ∀ i, A i = Q i * R i)
    (hst : ∀ i, rowsAt Rst (off i) (kf i) (P.bound i) = R i)
    (hqr : Rst = Qf * R') :
    stackRows A = stackRows (fun i => Q i * rowsAt Qf (off i) (kf i) (P.bound i)) * R' ∧
    stackRows (fun i => Q i * rowsAt Qf (off i) (kf i) (P.bound i)) = blockDiagonal' Q * Qf.submatrix P.equiv id := by
  have h2 : stackRows (fun i => Q i * rowsAt Qf (off i) (kf i) (P.bound i)) = blockDiagonal' Q * Qf.submatrix P.equiv id := by
    rw [submatrix_equiv_eq_stackRows, blockDiagonal'_mul_stackRows]
  refine ⟨?_, h2⟩
  rw [h2]
  apply tsqr_n_blocks A Q R _ R' hA
  rw [submatrix_equiv_eq_stackRows]
  have : (fun i => R i) = fun i => rowsAt Qf (off i) (kf i) (P.bound i) * R' := by
    funext i
    rw [← hst i, hqr, rowsAt_mul]
  funext x j
  obtain ⟨i, r⟩ := x
  have hi := congrFun this i
  simp only [stackRows, Matrix.mul_apply] at hi ⊢
  rw [hi]
  simp only [Matrix.mul_apply]

/-- … and the assembled Q has orthonormal columns when the block factors and `Qf` have -/
theorem tsqr_sliced_wiring_orthonormal (P : RowPartition nb kf off N)
    (Q : ∀ i, Matrix (Fin (mf i)) (Fin (kf i)) K) (Qf : Matrix (Fin N) p K)
    (hq : ∀ i, (Q i)ᵀ * Q i = 1) (hqf : Qfᵀ * Qf = 1) :
    (stackRows (fun i => Q i * rowsAt Qf (off i) (kf i) (P.bound i)))ᵀ *
      stackRows (fun i => Q i * rowsAt Qf (off i) (kf i) (P.bound i)) = 1 := by
  have h2 : stackRows (fun i => Q i * rowsAt Qf (off i) (kf i) (P.bound i)) = blockDiagonal' Q * Qf.submatrix P.equiv id := by
    rw [submatrix_equiv_eq_stackRows, blockDiagonal'_mul_stackRows]
  rw [h2]
  apply tsqr_n_blocks_orthonormal Q _ hq
  rw [Matrix.transpose_submatrix, Matrix.submatrix_mul_equiv, hqf, Matrix.submatrix_id_id]
  

/-! ### the instance for the plan -/

/-- rows of the R factor of block `i`: `min(m_i, c)` -/
def planK (cc : Nat) (chunks : List Nat) (i : Fin chunks.length) : Nat := min chunks[i.val] cc
/-- the `start` of block `i`'s slice in the plan -/
def planOff (cc : Nat) (chunks : List Nat) (i : Fin chunks.length) : Nat := ((rRows cc chunks).take i.val).sum

theorem plan_slice (cc : Nat) (chunks : List Nat) (i : Fin chunks.length) :
    (singleSlices cc chunks)[i.val]? = some ⟨i.val, 0, planOff cc chunks i, planOff cc chunks i + planK cc chunks i⟩ :=
  singleSlices_getElem? cc chunks i.val i.isLt

/-- the plan's slices form a `RowPartition` of the `Σ min(m_i, c)` rows of the stacked R — `tsqr_offsets_partition` read
    as the hypothesis of `tsqr_sliced_wiring` -/
theorem plan_rowPartition (cc : Nat) (chunks : List Nat) :
    RowPartition chunks.length (planK cc chunks) (planOff cc chunks) (rRows cc chunks).sum := by
  obtain ⟨_, hget, hord, hin, hcov⟩ := tsqr_offsets_partition cc chunks
  refine ⟨?_, ?_, ?_⟩
  · intro i
    have := (hin _ (List.mem_of_getElem? (plan_slice cc chunks i))).2
    exact this
  · intro i j hij
    exact hord i.val j.val _ _ hij (plan_slice cc chunks i) (plan_slice cc chunks j)
  · intro t ht
    obtain ⟨i, a, ha, h1, h2, _⟩ := hcov t ht
    have hi : i < chunks.length := by
      have := (List.getElem?_eq_some_iff.mp ha).1
      rw [singleSlices_length] at this
      exact this
    rw [plan_slice cc chunks ⟨i, hi⟩] at ha
    cases ha
    exact ⟨⟨i, hi⟩, h1, h2⟩

/-- **tsqr_plan_matches_algebra** (single-core level; `Rst = Qf · R'` is the in-core QR of the stack): with the plan's
    slices the graph's `dot-q3` blocks are `blockdiag(Q_i) · Q'` (hypotheses of `tsqr_n_blocks` instantiated through
    `RowPartition.equiv`), hence `A = [Q_i · Q'[start_i : stop_i]]_i · R'`. -/
theorem tsqr_plan_matches_algebra (cc : Nat) (chunks : List Nat)
    (A : ∀ i : Fin chunks.length, Matrix (Fin chunks[i.val]) n K)
    (Q : ∀ i : Fin chunks.length, Matrix (Fin chunks[i.val]) (Fin (planK cc chunks i)) K)
    (R : ∀ i : Fin chunks.length, Matrix (Fin (planK cc chunks i)) n K)
    (Rst : Matrix (Fin (rRows cc chunks).sum) n K) (Qf : Matrix (Fin (rRows cc chunks).sum) p K) (R' : Matrix p n K)
    (hA : ∀ i, A i = Q i * R i)
    (hst : ∀ i, rowsAt Rst (planOff cc chunks i) (planK cc chunks i) ((plan_rowPartition cc chunks).bound i) = R i)
    (hqr : Rst = Qf * R') :
    stackRows A = stackRows (fun i => Q i *
        rowsAt Qf (planOff cc chunks i) (planK cc chunks i) ((plan_rowPartition cc chunks).bound i)) * R' ∧
    stackRows (fun i => Q i * rowsAt Qf (planOff cc chunks i) (planK cc chunks i) ((plan_rowPartition cc chunks).bound i))
      = blockDiagonal' Q * Qf.submatrix (plan_rowPartition cc chunks).equiv id :=
  tsqr_sliced_wiring (mf := fun i => chunks[i.val]) (plan_rowPartition cc chunks) A Q R Rst Qf R' hA hst hqr

theorem tsqr_plan_matches_algebra_orthonormal (cc : Nat) (chunks : List Nat)
    (Q : ∀ i : Fin chunks.length, Matrix (Fin chunks[i.val]) (Fin (planK cc chunks i)) K)
    (Qf : Matrix (Fin (rRows cc chunks).sum) p K) (hq : ∀ i, (Q i)ᵀ * Q i = 1) (hqf : Qfᵀ * Qf = 1) :
    (stackRows (fun i => Q i *
        rowsAt Qf (planOff cc chunks i) (planK cc chunks i) ((plan_rowPartition cc chunks).bound i)))ᵀ *
      stackRows (fun i => Q i *
        rowsAt Qf (planOff cc chunks i) (planK cc chunks i) ((plan_rowPartition cc chunks).bound i)) = 1 :=
  tsqr_sliced_wiring_orthonormal (mf := fun i => chunks[i.val]) (plan_rowPartition cc chunks) Q Qf hq hqf

theorem rowsAt_congr {N : Nat} {c : Type} (M : Matrix (Fin N) c K) (s s' len : Nat) (h : s + len ≤ N) (e : s = s') :
    rowsAt M s len h = rowsAt M s' len (e ▸ h) := by
  subst e; rfl

/-- **tsqr_plan_matches_algebra_recursive**: a `getitem-q2` task of a recursive level reads rows `[start, stop)` of block
    `src` of `q_inner` (row chunks `vchunks`, so block `g` is `rowsAt Qf (blockStart vchunks g) vchunks[g]` of the whole
    `Qf`); that is the SAME matrix `Qf[planOff i : planOff i + planK i]` the single-core formula uses for its block
    `i = blk` — so `tsqr_plan_matches_algebra` applies verbatim with `Rst = Qf · R'` supplied by the recursive call. -/
theorem tsqr_plan_matches_algebra_recursive (cc crMax : Nat) (chunks : List Nat)
    (Qf : Matrix (Fin (rRows cc chunks).sum) p K) (s : QSlice) (hs : s ∈ recSlices (stackGroups chunks cc crMax)) :
    ∃ (i : Fin chunks.length) (hsrc : s.src < (vchunksOf (stackGroups chunks cc crMax)).length)
      (hblk : blockStart (vchunksOf (stackGroups chunks cc crMax)) s.src + (vchunksOf (stackGroups chunks cc crMax))[s.src]
        ≤ (rRows cc chunks).sum)
      (hin : s.start + planK cc chunks i ≤ (vchunksOf (stackGroups chunks cc crMax))[s.src]),
      s.blk = i.val ∧ s.stop = s.start + planK cc chunks i ∧
      rowsAt (rowsAt Qf (blockStart (vchunksOf (stackGroups chunks cc crMax)) s.src)
          (vchunksOf (stackGroups chunks cc crMax))[s.src] hblk) s.start (planK cc chunks i) hin
        = rowsAt Qf (planOff cc chunks i) (planK cc chunks i) ((plan_rowPartition cc chunks).bound i) := by
  obtain ⟨hsrc, hle, hstop⟩ := tsqr_recursive_slices_within _ s hs
  obtain ⟨t, ht⟩ := List.mem_iff_getElem?.mp hs
  have hg := tsqr_recursive_slices_global chunks cc crMax
  have hmap : (singleSlices cc chunks)[t]? = some (globalSlice (blockStart (vchunksOf (stackGroups chunks cc crMax))) s) := by
    rw [← hg, List.getElem?_map, ht]; rfl
  have htl : t < chunks.length := by
    have := (List.getElem?_eq_some_iff.mp hmap).1
    rw [singleSlices_length] at this
    exact this
  rw [plan_slice cc chunks ⟨t, htl⟩] at hmap
  simp only [globalSlice, Option.some.injEq, QSlice.mk.injEq] at hmap
  obtain ⟨hb, -, h1, h2⟩ := hmap
  have hblk : blockStart (vchunksOf (stackGroups chunks cc crMax)) s.src + (vchunksOf (stackGroups chunks cc crMax))[s.src]
      ≤ (rRows cc chunks).sum := by
    rw [← vchunks_sum chunks cc crMax, blockStart, ← take_sum_succ _ _ hsrc]
    exact take_sum_le _ _
  have hst : s.stop = s.start + planK cc chunks ⟨t, htl⟩ := by omega
  refine ⟨⟨t, htl⟩, hsrc, hblk, by omega, hb.symm, hst, ?_⟩
  rw [rowsAt_rowsAt]
  exact rowsAt_congr Qf _ _ _ _ h1.symm


/-- non-vacuity of `tsqr_plan_matches_algebra`: for ANY block factors `Q_i`, any `Qf`, `R'` the hypotheses hold with
    `Rst := Qf · R'`, `R_i :=` its slices and `A_i := Q_i · R_i` (e.g. rows (2, 1), 2 columns over ℤ: the second block is
    shorter than wide and `Q_1` is 1×1) -/
example (Q : ∀ i : Fin [2, 1].length, Matrix (Fin [2, 1][i.val]) (Fin (planK 2 [2, 1] i)) Int)
    (Qf : Matrix (Fin (rRows 2 [2, 1]).sum) (Fin 2) Int) (R' : Matrix (Fin 2) (Fin 2) Int) :
    stackRows (fun i => Q i * rowsAt (Qf * R') (planOff 2 [2, 1] i) (planK 2 [2, 1] i) ((plan_rowPartition 2 [2, 1]).bound i))
      = stackRows (fun i => Q i *
          rowsAt Qf (planOff 2 [2, 1] i) (planK 2 [2, 1] i) ((plan_rowPartition 2 [2, 1]).bound i)) * R' :=
  (tsqr_plan_matches_algebra 2 [2, 1] _ Q (fun i => rowsAt (Qf * R') (planOff 2 [2, 1] i) (planK 2 [2, 1] i) _)
    (Qf * R') Qf R' (fun _ => rfl) (fun _ => rfl) rfl).1

end wiring

end Dask.C31x
