import DaskModel.Lemmas.ConfigStore
/-!
# C17 (continued) — nested merging never shares dictionaries; value semantics is sound across calls

`Props/C17.lean` reasons about configurations as VALUES.  Python dictionaries are objects: if `update` stored a
sub-dictionary of `new` inside `old` by reference, every single call would still return the right value, and a LATER
call would go wrong (`merge(base, override)` followed by a change of the result rewriting `base`; a `set` after
`update_defaults` rewriting the registered defaults, so that `refresh()` no longer restores them).  This file closes that
gap on the model `Model/ConfigAlias.lean`, where every mapping carries the identity of its dict object (checked against
`id()` of the real objects by the harness, sections `alias` and `hist`):

* `update_refines_value_model`, `merge_refines_value_model` — identities forgotten, `hupdate`/`hmerge` ARE `update`/`merge`
* `update_keeps_or_creates`, `update_never_shares`, `merge_result_fresh` — every dict object of a result is an object of
  the target or was created by the call; never one of `new`
* `hstep_sound`, `hrun_sound` — for any history of merge / update / set / update_defaults / refresh calls over separated
  named configurations: the real history (in-place mutation seen through every reference) equals the value-level
  history, separation is preserved, only the target of each call changes (`inputs_never_mutated`)
* `refresh_after_sets_restores` — update_defaults, then any number of `set`s on the configuration, then refresh: the
  configuration is again the fold of the registered defaults as they were
* `share_shortcut_leaks` — the same model with the tempting shortcut (`old[k] = v` for an absent key) DOES leak: the
  theorems above are about the code, not about the modelling language
-/
namespace Dask.C17
open Dask.Config Dask.ConfigAlias

/-- **update_refines_value_model.** Forgetting identities, `hupdate` is `update` (same result, raises on the same inputs). -/
theorem update_refines_value_model (p : Priority) (old new : HDict) (d : Option Cfg) (nx : Nat) :
    (hupdate p new old d nx).map (fun r => eraseL r.1) = update p (eraseL old) (eraseL new) d :=
  hupdate_erase p new old d nx

/-- **update_keeps_or_creates.** Every dict object in `old` after `update(old, new, …)` is an object that was in `old`
before, or one created by the call. -/
theorem update_keeps_or_creates (p : Priority) (old new : HDict) (d : Option Cfg) (nx : Nat) (r : HDict) (nx' : Nat)
    (h : hupdate p new old d nx = some (r, nx')) :
    nx ≤ nx' ∧ ∀ i ∈ idsL r, i ∈ idsL old ∨ (nx ≤ i ∧ i < nx') :=
  hupdate_ids p new old d nx r nx' h

/-- **update_never_shares.** If `old` and `new` share no dict object before the call (and `nx` is unused), they share
none afterwards: nothing of `new` is stored in `old` by reference. -/
theorem update_never_shares (p : Priority) (old new : HDict) (d : Option Cfg) (nx : Nat) (r : HDict) (nx' : Nat)
    (h : hupdate p new old d nx = some (r, nx'))
    (hsep : ∀ i ∈ idsL old, i ∉ idsL new) (hnew : ∀ i ∈ idsL new, i < nx) :
    ∀ i ∈ idsL r, i ∉ idsL new := by
  intro i hi hin
  rcases (hupdate_ids p new old d nx r nx' h).2 i hi with h1 | h1
  · exact hsep i h1 hin
  · have := hnew i hin
    omega

/-- non-vacuity: a nested update that reuses the dict object `a` (2), creates `b` (20), and takes nothing from `new` -/
example :
    hupdate .new [("a", .node 11 [("y", .leaf 2)]), ("b", .node 12 [("z", .node 13 [])])]
      [("a", .node 2 [("x", .leaf 1)])] none 20
    = some ([("a", .node 2 [("x", .leaf 1), ("y", .leaf 2)]), ("b", .node 20 [("z", .node 21 [])])], 22) := by rfl

/-- **merge_result_fresh.** `merge(*dicts)` returns a configuration made of new dict objects only. -/
theorem merge_result_fresh (ds : List HDict) (nx : Nat) (r : HCfg) (nx' : Nat) (h : hmerge ds nx = some (r, nx')) :
    ∀ i ∈ r.ids, nx ≤ i ∧ i < nx' := by
  unfold hmerge hmergeWith at h
  cases hf : foldUpd hupdate .new ds [] (nx + 1) with
  | none => rw [hf] at h; simp at h
  | some res =>
    obtain ⟨r1, n1⟩ := res
    rw [hf] at h
    simp only [Option.map_some, Option.some.injEq, Prod.mk.injEq] at h
    obtain ⟨rfl, rfl⟩ := h
    obtain ⟨a1, a2⟩ := foldUpd_ids .new ds [] (nx + 1) r1 n1 hf
    intro i hi
    simp only [HCfg.ids, List.mem_cons] at hi
    rcases hi with rfl | hi
    · omega
    · rcases a2 i hi with h | h
      · simp [idsL] at h
      · omega

/-- **merge_refines_value_model.** -/
theorem merge_refines_value_model (ds : List HDict) (nx : Nat) :
    (hmerge ds nx).map (fun r => eraseV r.1) = merge (ds.map eraseL) := by
  unfold hmerge hmergeWith
  have he := foldUpd_erase .new ds [] (nx + 1)
  rw [eraseL_nil] at he
  rw [merge_eq_vfoldUpd, ← he]
  cases foldUpd hupdate .new ds [] (nx + 1) <;> simp [eraseV_node]

example : hmerge [[("a", .node 2 [("x", .leaf 1)])], [("a", .node 4 [("y", .leaf 2)])]] 5
    = some (.node 5 [("a", .node 6 [("x", .leaf 1), ("y", .leaf 2)])], 7) := by rfl

/-- **hstep_sound.** On a separated store, one real operation (identities, in-place mutation seen through every
reference) is exactly the value-level operation of `Model/Config.lean`; the store stays separated; and no variable
other than the operation's target changes. -/
theorem hstep_sound (s : HStore) (hs : Sep s) (op : HOp) :
    (hstep hupdate s op).map eraseS = vstep (eraseS s) op ∧
    ∀ s', hstep hupdate s op = some s' →
      Sep s' ∧ ∀ j, j < s.vars.length → j ≠ op.target s.vars.length → s'.vars[j]? = s.vars[j]? := by
  cases op with
  | merge srcs =>
    obtain ⟨h1, h2⟩ := hstep_merge_sound s hs srcs
    exact ⟨h1, fun s' h => ⟨(h2 s' h).1, fun j hj _ => (h2 s' h).2 j hj⟩⟩
  | update p dst src dflt =>
    obtain ⟨h1, h2⟩ := hstep_update_sound s hs p dst src dflt
    exact ⟨h1, fun s' h => ⟨(h2 s' h).1, fun j _ hj => (h2 s' h).2 j hj⟩⟩
  | setLeaf dst keys c =>
    obtain ⟨h1, h2⟩ := hstep_setLeaf_sound s hs dst keys c
    exact ⟨h1, fun s' h => ⟨(h2 s' h).1, fun j _ hj => (h2 s' h).2 j hj⟩⟩
  | updateDefaults new cfg =>
    obtain ⟨h1, h2⟩ := hstep_updateDefaults_sound s hs new cfg
    exact ⟨h1, fun s' h => ⟨(h2 s' h).1, fun j _ hj => (h2 s' h).2 j hj⟩⟩
  | refresh cfg =>
    obtain ⟨h1, h2⟩ := hstep_refresh_sound s hs cfg
    exact ⟨h1, fun s' h => ⟨(h2 s' h).1, fun j _ hj => (h2 s' h).2 j hj⟩⟩

/-- **hrun_sound.** Whole histories: the run with identities, identities forgotten, is the value-level run, and
every store on the way is separated. -/
theorem hrun_sound : ∀ (ops : List HOp) (s : HStore), Sep s →
    (hrun hupdate s ops).map eraseS = vrun (eraseS s) ops ∧ ∀ s', hrun hupdate s ops = some s' → Sep s'
  | [], s, hs => by simp [hrun, vrun]; exact hs
  | op :: ops, s, hs => by
    obtain ⟨h1, h2⟩ := hstep_sound s hs op
    simp only [hrun, vrun]
    rw [← h1]
    cases hst : hstep hupdate s op with
    | none => simp
    | some s1 =>
      simp only [Option.bind_some, Option.map_some]
      exact hrun_sound ops s1 (h2 s1 hst).1


/-- **inputs_never_mutated.** On a separated store, a call changes no configuration other than its target. -/
theorem inputs_never_mutated (s s' : HStore) (hs : Sep s) (op : HOp) (h : hstep hupdate s op = some s')
    (j : Nat) (hj : j < s.vars.length) (hne : j ≠ op.target s.vars.length) : s'.vars[j]? = s.vars[j]? :=
  ((hstep_sound s hs op).2 s' h).2 j hj hne

/-- a separated store with two configurations, `base = {a: {x: 1}}` and `cfg = {}` -/
def demoStore : HStore :=
  { vars := [.node 1 [("a", .node 2 [("x", .leaf 1)])], .node 3 []], defaults := [], nx := 4 }

/-- non-vacuity of `Sep` -/
theorem demoStore_sep : Sep demoStore := by
  refine ⟨?_, ?_, ?_⟩
  · intro j w h
    rcases j with _ | _ | j <;> simp [demoStore] at h <;> subst h <;> exact ⟨_, _, rfl⟩
  · intro j w h i hi
    rcases j with _ | _ | j <;> simp [demoStore] at h <;> subst h <;> simp [HCfg.ids, idsL] at hi <;>
      simp [demoStore] <;> omega
  · intro j k w u hjk hw hu i hi hiu
    rcases j with _ | _ | j <;> rcases k with _ | _ | k <;> simp [demoStore] at hw hu <;> subst hw <;> subst hu <;>
      simp [HCfg.ids, idsL] at hi hiu <;> omega

/-- the code: `update(cfg, base)` then `set({"a.x": 9}, config=cfg)` — `base` keeps `a.x = 1` (a new dict was made) -/
example : hrun hupdate demoStore [.update .new 1 0 none, .setLeaf 1 ["a", "x"] 9] =
    some { vars := [.node 1 [("a", .node 2 [("x", .leaf 1)])], .node 3 [("a", .node 4 [("x", .leaf 9)])]],
           defaults := [], nx := 5 } := by rfl

/-- **share_shortcut_leaks.** With the shortcut `old[k] = v` (store the mapping of `new` itself when the key is absent)
every single call returns the right VALUE, and the later `set` on `cfg` rewrites `base`: the separated store
`demoStore`, two calls, and the configuration that was only an input has changed. -/
theorem share_shortcut_leaks :
    ∃ s', hrun hupdateShare demoStore [.update .new 1 0 none, .setLeaf 1 ["a", "x"] 9] = some s' ∧
      s'.vars[0]? = some (.node 1 [("a", .node 2 [("x", .leaf 9)])]) ∧
      s'.vars[0]? ≠ demoStore.vars[0]? ∧
      -- … although the first call alone is indistinguishable by value from the real `update`
      (hstep hupdateShare demoStore (.update .new 1 0 none)).map eraseS =
        (hstep hupdate demoStore (.update .new 1 0 none)).map eraseS := by
  refine ⟨_, rfl, rfl, ?_, rfl⟩
  intro h
  have h' : some (HCfg.node 1 [("a", .node 2 [("x", .leaf 9)])]) = some (HCfg.node 1 [("a", .node 2 [("x", .leaf 1)])]) := h
  simp at h'

/-! ### update_defaults, set …, refresh -/

/-- a `set` on `cfg` at value level touches nothing else -/
theorem vrun_sets_frame (cfg : Nat) : ∀ (sets : List (List String × Int)) (v v' : VStore),
    vrun v (sets.map fun kc => HOp.setLeaf cfg kc.1 kc.2) = some v' →
    v'.defaults = v.defaults ∧ v'.vars.length = v.vars.length ∧ ∀ j, j ≠ cfg → v'.vars[j]? = v.vars[j]?
  | [], v, v', h => by
    simp only [List.map_nil, vrun, Option.some.injEq] at h
    subst h
    exact ⟨rfl, rfl, fun _ _ => rfl⟩
  | kc :: sets, v, v', h => by
    simp only [List.map_cons, vrun] at h
    cases hst : vstep v (.setLeaf cfg kc.1 kc.2) with
    | none => rw [hst] at h; simp at h
    | some v1 =>
      rw [hst] at h
      simp only [Option.bind_some] at h
      obtain ⟨h1, h2, h3⟩ := vrun_sets_frame cfg sets v1 v' h
      simp only [vstep] at hst
      cases ho : v.vars[cfg]? with
      | none => rw [ho] at hst; simp at hst
      | some o =>
        rw [ho] at hst
        simp only [Option.bind_eq_bind, Option.bind_some] at hst
        cases ha : assign kc.1 (Cfg.leaf kc.2) o [] false with
        | none => rw [ha] at hst; simp at hst
        | some r =>
          rw [ha] at hst
          simp only [Option.bind_some, pure, Option.some.injEq] at hst
          subst hst
          refine ⟨h1, by simpa using h2, fun j hj => ?_⟩
          rw [h3 j hj]
          exact List.getElem?_set_ne (fun e => hj e.symm)

theorem vrun_append : ∀ (a b : List HOp) (v : VStore), vrun v (a ++ b) = (vrun v a).bind fun v1 => vrun v1 b
  | [], b, v => by simp [vrun]
  | op :: a, b, v => by
    simp only [List.cons_append, vrun]
    cases vstep v op with
    | none => simp
    | some v1 => simp only [Option.bind_some]; exact vrun_append a b v1

theorem getVals_congr (vars vars' : List Dict) : ∀ (is : List Nat), (∀ i ∈ is, vars'[i]? = vars[i]?) →
    getVals vars' is = getVals vars is
  | [], _ => by simp [getVals]
  | i :: is, h => by
    have ih := getVals_congr vars vars' is (fun j hj => h j (List.mem_cons_of_mem _ hj))
    simp only [getVals] at ih ⊢
    simp only [List.mapM_cons, h i List.mem_cons_self, ih]

/-- the value-level statement -/
theorem vrun_refresh_after_sets (v v' : VStore) (new cfg : Nat) (hnc : new ≠ cfg) (hcd : cfg ∉ v.defaults)
    (sets : List (List String × Int))
    (h : vrun v (HOp.updateDefaults new cfg :: (sets.map fun kc => HOp.setLeaf cfg kc.1 kc.2) ++ [HOp.refresh cfg]) = some v') :
    ∃ ds r, getVals v.vars (v.defaults ++ [new]) = some ds ∧ vfoldUpd .old ds [] = some r ∧ v'.vars[cfg]? = some r := by
  simp only [List.cons_append, vrun] at h
  cases h1 : vstep v (.updateDefaults new cfg) with
  | none => rw [h1] at h; simp at h
  | some v1 =>
    rw [h1] at h
    simp only [Option.bind_some, vrun_append] at h
    cases h2 : vrun v1 (sets.map fun kc => HOp.setLeaf cfg kc.1 kc.2) with
    | none => rw [h2] at h; simp at h
    | some v2 =>
      rw [h2] at h
      simp only [Option.bind_some, vrun] at h
      obtain ⟨f1, f2, f3⟩ := vrun_sets_frame cfg sets v1 v2 h2
      -- what update_defaults did: only `cfg` and the defaults list
      have hv1 : v1.defaults = v.defaults ++ [new] ∧ ∀ j, j ≠ cfg → v1.vars[j]? = v.vars[j]? := by
        simp only [vstep] at h1
        cases ho : v.vars[cfg]? with
        | none => rw [ho] at h1; simp at h1
        | some o =>
          rw [ho] at h1
          cases hn : v.vars[new]? with
          | none => rw [hn] at h1; simp at h1
          | some n =>
            rw [hn] at h1
            simp only [Option.bind_eq_bind, Option.bind_some] at h1
            cases hg : getVals v.vars v.defaults with
            | none => rw [hg] at h1; simp at h1
            | some ds0 =>
              rw [hg] at h1
              simp only [Option.bind_some] at h1
              cases hm : merge ds0 with
              | none => rw [hm] at h1; simp at h1
              | some cur =>
                rw [hm] at h1
                simp only [Option.bind_some] at h1
                cases hu : update .newDefaults o n (some (.node cur)) with
                | none => rw [hu] at h1; simp at h1
                | some r0 =>
                  rw [hu] at h1
                  simp only [Option.bind_some, pure, Option.some.injEq] at h1
                  subst h1
                  exact ⟨rfl, fun j hj => List.getElem?_set_ne (fun e => hj e.symm)⟩
      -- the refresh
      cases h3 : vstep v2 (.refresh cfg) with
      | none => rw [h3] at h; simp at h
      | some v3 =>
        rw [h3] at h
        simp only [Option.bind_some, Option.some.injEq] at h
        subst h
        simp only [vstep] at h3
        cases ho : v2.vars[cfg]? with
        | none => rw [ho] at h3; simp at h3
        | some o =>
          rw [ho] at h3
          simp only [Option.bind_eq_bind, Option.bind_some] at h3
          have hsame : getVals v2.vars v2.defaults = getVals v.vars (v.defaults ++ [new]) := by
            rw [f1, hv1.1]
            apply getVals_congr
            intro i hi
            have hic : i ≠ cfg := by
              intro e
              subst e
              simp only [List.mem_append, List.mem_singleton] at hi
              rcases hi with hi | hi
              · exact hcd hi
              · exact hnc hi.symm
            rw [f3 i hic, hv1.2 i hic]
          rw [hsame] at h3
          cases hg : getVals v.vars (v.defaults ++ [new]) with
          | none => rw [hg] at h3; simp at h3
          | some ds =>
            rw [hg] at h3
            simp only [Option.bind_some] at h3
            cases hf : vfoldUpd .old ds [] with
            | none => rw [hf] at h3; simp at h3
            | some r =>
              rw [hf] at h3
              simp only [Option.bind_some, pure, Option.some.injEq] at h3
              subst h3
              refine ⟨ds, r, rfl, hf, ?_⟩
              have hlt : cfg < v2.vars.length := by
                rcases Nat.lt_or_ge cfg v2.vars.length with h | h
                · exact h
                · rw [List.getElem?_eq_none h] at ho; cases ho
              simp [hlt]

/-- **refresh_after_sets_restores.** On a separated store: `update_defaults(new, cfg)`, then any number of
`set({key: c}, config=cfg)` calls, then `refresh(cfg)`. If the history runs through, `cfg` ends up as the fold (first
registered wins) of the registered defaults — the earlier ones and `new` — WITH THE VALUES THEY HAD AT THE START: no
`set` on the configuration has rewritten them. (With the sharing shortcut this fails: `share_shortcut_leaks`.) -/
theorem refresh_after_sets_restores (s s' : HStore) (hs : Sep s) (new cfg : Nat) (hnc : new ≠ cfg)
    (hcd : cfg ∉ s.defaults) (sets : List (List String × Int))
    (h : hrun hupdate s (HOp.updateDefaults new cfg :: (sets.map fun kc => HOp.setLeaf cfg kc.1 kc.2) ++ [HOp.refresh cfg])
      = some s') :
    ∃ ds r, getVals (eraseS s).vars (s.defaults ++ [new]) = some ds ∧ vfoldUpd .old ds [] = some r ∧
      (s'.vars[cfg]?).map eraseV = some r := by
  have hsound := (hrun_sound (HOp.updateDefaults new cfg :: (sets.map fun kc => HOp.setLeaf cfg kc.1 kc.2) ++
    [HOp.refresh cfg]) s hs).1
  rw [h] at hsound
  simp only [Option.map_some] at hsound
  obtain ⟨ds, r, h1, h2, h3⟩ := vrun_refresh_after_sets (eraseS s) (eraseS s') new cfg hnc hcd sets hsound.symm
  exact ⟨ds, r, h1, h2, by rw [← eraseS_vars_get]; exact h3⟩

/-- non-vacuity: `defaults = {a: {b: 1}}`, `cfg = {}`; update_defaults, `set a.b = 5`, `set a.c = 6`, refresh — the
history runs through and `cfg` is `{a: {b: 1}}` again -/
example :
    let s : HStore := { vars := [.node 1 [("a", .node 2 [("b", .leaf 1)])], .node 3 []], defaults := [], nx := 4 }
    (hrun hupdate s [.updateDefaults 0 1, .setLeaf 1 ["a", "b"] 5, .setLeaf 1 ["a", "c"] 6, .refresh 1]).map
      (fun s' => (eraseS s').vars) = some [[("a", .node [("b", .leaf 1)])], [("a", .node [("b", .leaf 1)])]] := by rfl

end Dask.C17
