import DaskModel.Lemmas.Align
import DaskModel.Lemmas.TruthfulPaths
import DaskModel.Props.C39
/-! # C39 — index joins on aligned divisions, concat(interleave_partitions=True) (theorems)

Model: `Model/Align.lean`. The alignment step itself (`Repartition(new_divisions=union, force=True)` keeps the rows in
order and makes the partitions truthful for the union divisions) is the group lead's `Repart.layer_sound`
(Lemmas/RepartDivs.lean); the theorems here take its conclusion as their hypothesis and prove what the blockwise join /
the per-interval stacking of the aligned partitions returns. -/
set_option linter.unusedSimpArgs false
namespace Dask.C39
open Dask.Join Dask.Divs Dask.Align

/-- **index_join_eq_global** — an index join of two frames with known divisions: both sides are repartitioned to the
    common divisions `d` (rows kept, truthful for `d`: `Repart.layer_sound`), then joined partition by partition; the
    result is the global join as a multiset, for every left-driven join (inner, left, leftsemi) -/
theorem index_join_eq_global (g : Row → List Row → List Out) (hg : ∀ l ms o, o ∈ g l ms → o.1 = l.1)
    (d : List Nat) (hd : 2 ≤ d.length) (L R : List Row) (Ls Rs : List (List Row))
    (hLt : Truthful (fun r : Row => r.1) d Ls) (hRt : Truthful (fun r : Row => r.1) d Rs)
    (hLf : Ls.flatten = L) (hRf : Rs.flatten = R) :
    (alignedJoin (joinWith g) Ls Rs).flatten.Perm (joinWith g L R) := by
  have hLl : Ls.length + 1 = d.length := hLt.1
  have hRl : Rs.length + 1 = d.length := hRt.1
  subst hLf hRf
  unfold alignedJoin
  -- classes are clamped below the number of partitions so that `colocated_join_eq_global` applies to every key
  let c : Nat → Nat := fun k => min (classOf d k) (Ls.length - 1)
  have hcL : ∀ t P r, Ls[t]? = some P → r ∈ P → c r.1 = t := by
    intro t P r hP hr
    have ht : t < Ls.length := (List.getElem?_eq_some_iff.mp hP).1
    show min (classOf d r.1) (Ls.length - 1) = t
    rw [classOf_truthful (fun r : Row => r.1) d Ls hLt t P hP r hr]
    omega
  have hcR : ∀ t P r, Rs[t]? = some P → r ∈ P → c r.1 = t := by
    intro t P r hP hr
    have ht : t < Rs.length := (List.getElem?_eq_some_iff.mp hP).1
    show min (classOf d r.1) (Ls.length - 1) = t
    rw [classOf_truthful (fun r : Row => r.1) d Rs hRt t P hP r hr]
    omega
  exact colocated_join_eq_global g hg c Ls.length (by intro k; show min _ _ < _; omega) _ _ Ls Rs rfl (by omega)
    (fun p hp => partBy_flatten c Ls hcL p hp) (fun p hp => partBy_flatten c Rs hcR p (by omega))

/-- partition-wise `outer` / `right` join of co-located partitions = the global one (multiset) -/
theorem colocated_outer_eq_global (g : Row → List Row → List Out) (hg : ∀ l ms o, o ∈ g l ms → o.1 = l.1)
    (c : Nat → Nat) (n : Nat) (hc : ∀ k, c k < n) (L R : List Row) (Ls Rs : List (List Row))
    (hLl : Ls.length = n) (hRl : Rs.length = n)
    (hL : ∀ p, p < n → Ls[p]? = some (partBy c p L)) (hR : ∀ p, p < n → Rs[p]? = some (partBy c p R)) :
    (List.zipWith (fun A B => joinWith g A B ++ rightOnly A B) Ls Rs).flatten.Perm (joinWith g L R ++ rightOnly L R) := by
  rw [eq_map_range n Ls _ hLl hL, eq_map_range n Rs _ hRl hR, List.zipWith_map, List.zipWith_self,
    ← List.flatMap_def]
  refine (flatMap_append_perm _ _ _).trans ?_
  exact List.Perm.append (classJoin_joinWith_perm g hg c n hc L R) (classes_rightOnly_perm c n hc L R)

/-- **index_join_eq_global (outer / right)** -/
theorem index_outer_eq_global (g : Row → List Row → List Out) (hg : ∀ l ms o, o ∈ g l ms → o.1 = l.1)
    (d : List Nat) (hd : 2 ≤ d.length) (L R : List Row) (Ls Rs : List (List Row))
    (hLt : Truthful (fun r : Row => r.1) d Ls) (hRt : Truthful (fun r : Row => r.1) d Rs)
    (hLf : Ls.flatten = L) (hRf : Rs.flatten = R) :
    (alignedJoin (fun A B => joinWith g A B ++ rightOnly A B) Ls Rs).flatten.Perm (joinWith g L R ++ rightOnly L R) := by
  have hLl : Ls.length + 1 = d.length := hLt.1
  have hRl : Rs.length + 1 = d.length := hRt.1
  subst hLf hRf
  unfold alignedJoin
  let c : Nat → Nat := fun k => min (classOf d k) (Ls.length - 1)
  have hcL : ∀ t P r, Ls[t]? = some P → r ∈ P → c r.1 = t := by
    intro t P r hP hr
    have ht : t < Ls.length := (List.getElem?_eq_some_iff.mp hP).1
    show min (classOf d r.1) (Ls.length - 1) = t
    rw [classOf_truthful (fun r : Row => r.1) d Ls hLt t P hP r hr]
    omega
  have hcR : ∀ t P r, Rs[t]? = some P → r ∈ P → c r.1 = t := by
    intro t P r hP hr
    have ht : t < Rs.length := (List.getElem?_eq_some_iff.mp hP).1
    show min (classOf d r.1) (Ls.length - 1) = t
    rw [classOf_truthful (fun r : Row => r.1) d Rs hRt t P hP r hr]
    omega
  exact colocated_outer_eq_global g hg c Ls.length (by intro k; show min _ _ < _; omega) _ _ Ls Rs rfl (by omega)
    (fun p hp => partBy_flatten c Ls hcL p hp) (fun p hp => partBy_flatten c Rs hcR p (by omega))

/-- **concat_interleave_sorted** — `concat(frames, interleave_partitions=True)` with known divisions: every frame is
    repartitioned to the union divisions `d` (rows kept, truthful for `d`); output partition `p` stacks the `p`-th
    partition of every frame. The result holds exactly the rows of all frames (multiset) and is truthful for `d`. -/
theorem concat_interleave_sorted (d : List Nat) (n : Nat) (hn : n + 1 = d.length) (hs : d.Pairwise (· ≤ ·)) :
    ∀ frames : List (List (List Row)), (∀ F ∈ frames, Truthful (fun r : Row => r.1) d F) →
      (interleave n frames).flatten.Perm (frames.flatMap List.flatten) ∧
      Truthful (fun r : Row => r.1) d (interleave n frames)
  | [], _ => by
    refine ⟨?_, truthful_replicate_nil _ d n hn hs⟩
    simp [interleave]
  | F :: frames, h => by
    obtain ⟨ih1, ih2⟩ := concat_interleave_sorted d n hn hs frames fun F' hF' => h F' (List.mem_cons_of_mem _ hF')
    have hF := h F List.mem_cons_self
    have hlen : F.length = (interleave n frames).length := by
      have h1 : F.length + 1 = d.length := hF.1
      have h2 : (interleave n frames).length + 1 = d.length := ih2.1
      omega
    refine ⟨?_, ?_⟩
    · show (List.zipWith (· ++ ·) F (interleave n frames)).flatten.Perm _
      rw [List.flatMap_cons]
      exact (zipWith_append_flatten_perm F _ hlen).trans (List.Perm.append_left _ ih1)
    · exact truthful_zipWith_append _ d F _ hF ih2

/-! non-vacuity: frames aligned to the union divisions `[0, 3, 5, 9]` -/
example : unionDivs [0, 5, 9] [3, 9] = [0, 3, 5, 9] := by simp [unionDivs, mergeSorted, uniq]
example : unionDivs [4, 4] [4, 4] = [4, 4] := by simp [unionDivs, mergeSorted, uniq]
example : classOf [0, 3, 5, 9] 4 = 1 ∧ classOf [0, 3, 5, 9] 9 = 2 ∧ classOf [0, 3, 5, 9] 0 = 0 := by decide
example : Truthful (fun r : Row => r.1) [0, 3, 5, 9] ([[0, 2], [3], [5, 9]].map fun p => p.map fun k => (k, 0)) :=
  Truthful.map ((truthfulB_iff _ _).mp (by decide)) _ (by
    intro p r hr
    obtain ⟨k, hk, rfl⟩ := List.mem_map.mp hr
    exact ⟨k, hk, rfl⟩)
example : (alignedJoin inner [[(0, 0), (2, 1)], [(3, 2)], [(5, 3), (9, 4)]] [[(2, 0)], [(3, 1), (4, 2)], [(9, 3)]]).flatten =
    [(2, some 1, some 0), (3, some 2, some 1), (9, some 4, some 3)] := by decide
example : interleave 3 [[[(0, 0), (2, 1)], [(3, 2)], [(5, 3), (9, 4)]], [[(2, 5)], [(3, 6), (4, 7)], [(9, 8)]]] =
    [[(0, 0), (2, 1), (2, 5)], [(3, 2), (3, 6), (4, 7)], [(5, 3), (9, 4), (9, 8)]] := by decide
example : ∀ l ms o, o ∈ gLeft l ms → o.1 = l.1 := gLeft_key

end Dask.C39
