import DaskModel.Model.ChoiceND
/-!
# C28 extension: `choice(replace=False)` with an n-d `size`

"Sampling without replacement with choice returns distinct elements of the population": dask draws every block with
its own NumPy call, so distinctness over the whole output needs ONE block.  The guard of `_choice_validate_params`
looked at the first axis only: `choice(5, size=(2, 4), replace=False, chunks=((2,), (2, 2)))` was accepted and drew two
blocks independently (repeated elements; NumPy raises for 8 out of 5), and `size=None` raised IndexError.

* `old_guard_accepts_multi_block`, `old_guard_zero_d_index_error` — refutation witnesses for the guard before the repair.
* `choice_nd_no_replace_single_block` — the repaired guard accepts `replace=False` only for single-block outputs
  (any number of axes, 0-d included), so the result is the result of one NumPy `choice` call.
* `choice_nd_multi_block_rejected`, `choice_nd_replace_accepted`, `choice_nd_zero_d_accepted`.
* `guardND_eq_choiceGuard_1d` is in the statement of `choice_nd_one_axis`: on 1-d sizes the new guard is the old one.
-/
namespace Dask.ChoiceND

theorem nblocks_eq_one_of_all_one : ∀ (ns : List Nat), (∀ n ∈ ns, n = 1) → nblocks ns = 1
  | [], _ => rfl
  | n :: r, h => by
    have h1 : n = 1 := h n (by simp)
    have h2 : nblocks r = 1 := nblocks_eq_one_of_all_one r (fun m hm => h m (by simp [hm]))
    simp [nblocks, h1, h2]

/-- **choice_nd_no_replace_single_block**: an accepted `replace=False` call has exactly one block (every axis of
`normalize_chunks`' result has at least one chunk), whatever the number of axes. -/
theorem choice_nd_no_replace_single_block (ns ms : List Nat) (hpos : ∀ n ∈ ns, 1 ≤ n)
    (h : guardND false ns = some ms) : ms = ns ∧ nblocks ns = 1 := by
  unfold guardND at h
  by_cases hany : ns.any (fun n => decide (1 < n)) = true
  · simp [hany] at h
  · simp [hany] at h
    refine ⟨h.symm, nblocks_eq_one_of_all_one ns ?_⟩
    intro n hn
    have h1 := hpos n hn
    have h2 : ¬ 1 < n := by
      intro hlt
      exact hany (List.any_eq_true.mpr ⟨n, hn, by simp [hlt]⟩)
    omega

/-- **choice_nd_multi_block_rejected**: more than one chunk on ANY axis → NotImplementedError -/
theorem choice_nd_multi_block_rejected (ns : List Nat) (h : ∃ n ∈ ns, 1 < n) : guardND false ns = none := by
  obtain ⟨n, hn, hlt⟩ := h
  have : ns.any (fun n => decide (1 < n)) = true := List.any_eq_true.mpr ⟨n, hn, by simp [hlt]⟩
  simp [guardND, this]

/-- with replacement every chunking is accepted -/
theorem choice_nd_replace_accepted (ns : List Nat) : guardND true ns = some ns := by
  simp [guardND]

/-- a 0-d draw (`size=None` / `size=()`) is accepted without replacement (one block) -/
theorem choice_nd_zero_d_accepted : guardND false [] = some [] ∧ nblocks [] = 1 := by
  simp [guardND, nblocks]

/-- on one axis the repaired guard is the guard before the repair -/
theorem choice_nd_one_axis (r : Bool) (n : Nat) :
    guardOld r [n] = (match guardND r [n] with | some ms => Old.ok ms | none => Old.notImpl) := by
  cases r <;> by_cases h : 1 < n <;> simp [guardOld, guardND, h]

/-- **old_guard_accepts_multi_block** (refutation witness): the guard before the repair accepted
`replace=False` with chunks `((2,), (2, 2))` — two independently drawn blocks; the repaired guard rejects it. -/
theorem old_guard_accepts_multi_block :
    guardOld false [1, 2] = Old.ok [1, 2] ∧ nblocks [1, 2] = 2 ∧ guardND false [1, 2] = none := by
  decide

/-- **old_guard_zero_d_index_error** (refutation witness): `size=None, replace=False` raised IndexError -/
theorem old_guard_zero_d_index_error : guardOld false [] = Old.indexError := by
  decide

end Dask.ChoiceND
