import DaskModel.Model.Callbacks
import DaskModel.Props.C04
/-!
# C05 — scheduler callbacks fire in protocol order and contexts nest like a stack

Two models: `Model/Callbacks.lean` (`Callback.active`, `add_callbacks`, `Callback.__enter__/__exit__`,
`register/unregister`, `local_callbacks`) and the callback log of `Model/Sched.lean`.
The code modelled is the code **after** the repair of defect #1 (`/repo` commit 64c9a31): before it,
`add_callbacks.__exit__` discarded everything it was given and `Callback.__enter__` overwrote its single
`_cm` slot, so `exit_preserves_outer` was false (witness `with cb: (with cb: pass); get`, kept in the
corpus).
-/
namespace Dask.C05
open Dask.Sched Dask.Callbacks

/-! ## set-level lemmas -/
theorem mem_dedupAux (acc l : List Cb) (x : Cb) : x ∈ dedupAux acc l ↔ x ∈ acc ∨ x ∈ l := by
  induction l generalizing acc with
  | nil => simp [dedupAux]
  | cons a l ih =>
    unfold dedupAux
    split
    · rename_i h
      rw [ih]
      constructor
      · rintro (h1 | h1)
        · exact Or.inl h1
        · exact Or.inr (List.mem_cons_of_mem _ h1)
      · rintro (h1 | h1)
        · exact Or.inl h1
        · rcases List.mem_cons.mp h1 with rfl | h2
          · exact Or.inl h
          · exact Or.inr h2
    · rw [ih]
      simp only [List.mem_cons]
      constructor
      · rintro ((h1 | h1) | h1)
        · exact Or.inr (Or.inl h1)
        · exact Or.inl h1
        · exact Or.inr (Or.inr h1)
      · rintro (h1 | h1 | h1)
        · exact Or.inl (Or.inr h1)
        · exact Or.inl (Or.inl h1)
        · exact Or.inr h1

theorem mem_newOnes (cbs active : List Cb) (x : Cb) : x ∈ newOnes cbs active ↔ x ∈ cbs ∧ x ∉ active := by
  unfold newOnes
  simp [List.mem_filter, mem_dedupAux]

theorem mem_activate (cbs active : List Cb) (x : Cb) : x ∈ activate cbs active ↔ x ∈ cbs ∨ x ∈ active := by
  unfold activate
  induction cbs generalizing active with
  | nil => simp
  | cons a l ih =>
    simp only [List.foldl_cons]
    rw [ih, mem_sadd]
    simp only [List.mem_cons]
    constructor
    · rintro (h1 | h1 | h1)
      · exact Or.inl (Or.inr h1)
      · exact Or.inl (Or.inl h1)
      · exact Or.inr h1
    · rintro ((h1 | h1) | h1)
      · exact Or.inr (Or.inl h1)
      · exact Or.inl h1
      · exact Or.inr (Or.inr h1)

theorem mem_discardAll (added active : List Cb) (x : Cb) : x ∈ discardAll added active ↔ x ∈ active ∧ x ∉ added := by
  unfold discardAll
  induction added generalizing active with
  | nil => simp
  | cons a l ih =>
    simp only [List.foldl_cons]
    rw [ih, mem_srem]
    simp only [List.mem_cons, not_or]
    constructor
    · rintro ⟨⟨h1, h2⟩, h3⟩; exact ⟨h1, h2, h3⟩
    · rintro ⟨h1, h2, h3⟩; exact ⟨⟨h1, h2⟩, h3⟩

theorem stackOf_set (s : St) (c : Cb) (v : List (List Cb)) (c' : Cb) (s' : St)
    (h : s'.objCms = s.objCms.set c v) : stackOf s' c' = if c = c' then v else stackOf s c' := by
  unfold stackOf
  rw [h, Map.get?_set]
  split <;> rfl

/-! ## contexts nest like a stack -/

/-- the state right after `cb.__enter__()` -/
def enterSt (c : Cb) (s : St) : St :=
  { active := activate [c] s.active, cms := s.cms, objCms := s.objCms.set c (newOnes [c] s.active :: stackOf s c) }

theorem step_enterObj (c : Cb) (s : St) : step (.enterObj c c) s = .ok (enterSt c s, none) := rfl

theorem stackOf_enterSt (c : Cb) (s : St) : stackOf (enterSt c s) c = newOnes [c] s.active :: stackOf s c := by
  rw [stackOf_set s c _ c _ rfl]; simp

/-- the three facts proved together by induction on the program -/
theorem exec_stack (p : Prog) : ∀ (s s' : St) (l : List (List Cb)), exec p s = .ok (s', l) →
    (∀ c, stackOf s' c = stackOf s c) ∧
    (∀ x, x ∈ s.active → ¬ p.unregisters x → x ∈ s'.active) ∧
    (∀ x, x ∈ s'.active → x ∈ s.active ∨ p.registers x) := by
  induction p with
  | skip =>
    intro s s' l h
    simp only [exec, Except.ok.injEq, Prod.mk.injEq] at h
    obtain ⟨rfl, _⟩ := h
    exact ⟨fun _ => rfl, fun x hx _ => hx, fun x hx => Or.inl hx⟩
  | seq p q ihp ihq =>
    intro s s' l h
    simp only [exec] at h
    cases hp : exec p s with
    | error e => rw [hp] at h; cases h
    | ok r1 =>
      obtain ⟨s1, l1⟩ := r1
      rw [hp] at h
      simp only [] at h
      cases hq : exec q s1 with
      | error e => rw [hq] at h; cases h
      | ok r2 =>
        obtain ⟨s2, l2⟩ := r2
        rw [hq] at h
        simp only [Except.ok.injEq, Prod.mk.injEq] at h
        obtain ⟨rfl, _⟩ := h
        obtain ⟨a1, b1, c1⟩ := ihp s s1 l1 hp
        obtain ⟨a2, b2, c2⟩ := ihq s1 s2 l2 hq
        refine ⟨fun c => (a2 c).trans (a1 c), ?_, ?_⟩
        · intro x hx hn
          exact b2 x (b1 x hx (fun h1 => hn (Or.inl h1))) (fun h1 => hn (Or.inr h1))
        · intro x hx
          rcases c2 x hx with h1 | h1
          · rcases c1 x h1 with h2 | h2
            · exact Or.inl h2
            · exact Or.inr (Or.inl h2)
          · exact Or.inr (Or.inr h1)
  | withCm cbs body ih =>
    intro s s' l h
    simp only [exec, cmInit] at h
    cases hb : exec body { s with active := activate cbs s.active } with
    | error e => rw [hb] at h; cases h
    | ok r =>
      obtain ⟨s2, l2⟩ := r
      rw [hb] at h
      simp only [Except.ok.injEq, Prod.mk.injEq] at h
      obtain ⟨rfl, _⟩ := h
      obtain ⟨a, b, c⟩ := ih _ s2 l2 hb
      refine ⟨fun c' => a c', ?_, ?_⟩
      · intro x hx hn
        show x ∈ discardAll _ s2.active
        rw [mem_discardAll]
        refine ⟨b x ((mem_activate cbs s.active x).mpr (Or.inr hx)) hn, ?_⟩
        intro hadd
        exact ((mem_newOnes cbs s.active x).mp hadd).2 hx
      · intro x hx
        have hx' : x ∈ discardAll (newOnes cbs s.active) s2.active := hx
        rw [mem_discardAll] at hx'
        rcases c x hx'.1 with h1 | h1
        · rcases (mem_activate cbs s.active x).mp h1 with h2 | h2
          · by_cases hxa : x ∈ s.active
            · exact Or.inl hxa
            · exact absurd ((mem_newOnes cbs s.active x).mpr ⟨h2, hxa⟩) hx'.2
          · exact Or.inl h2
        · exact Or.inr h1
  | withObj c body ih =>
    intro s s' l h
    simp only [exec, step_enterObj] at h
    cases hb : exec body (enterSt c s) with
    | error e => rw [hb] at h; cases h
    | ok r =>
      obtain ⟨s2, l2⟩ := r
      rw [hb] at h
      simp only [step] at h
      obtain ⟨a, b, cc⟩ := ih _ s2 l2 hb
      have htop : stackOf s2 c = newOnes [c] s.active :: stackOf s c := by
        rw [a c, stackOf_enterSt]
      rw [htop] at h
      simp only [Except.ok.injEq, Prod.mk.injEq] at h
      obtain ⟨rfl, _⟩ := h
      refine ⟨?_, ?_, ?_⟩
      · intro c'
        rw [stackOf_set s2 c (stackOf s c) c' _ rfl]
        split
        · rename_i hcc; rw [hcc]
        · rename_i hcc
          rw [a c', stackOf_set s c _ c' (enterSt c s) rfl]
          simp [hcc]
      · intro x hx hn
        show x ∈ discardAll _ s2.active
        rw [mem_discardAll]
        refine ⟨b x ((mem_activate [c] s.active x).mpr (Or.inr hx)) hn, ?_⟩
        intro hadd
        exact ((mem_newOnes [c] s.active x).mp hadd).2 hx
      · intro x hx
        have hx' : x ∈ discardAll (newOnes [c] s.active) s2.active := hx
        rw [mem_discardAll] at hx'
        rcases cc x hx'.1 with h1 | h1
        · rcases (mem_activate [c] s.active x).mp h1 with h2 | h2
          · by_cases hxa : x ∈ s.active
            · exact Or.inl hxa
            · exact absurd ((mem_newOnes [c] s.active x).mpr ⟨h2, hxa⟩) hx'.2
          · exact Or.inl h2
        · exact Or.inr h1
  | register c =>
    intro s s' l h
    simp only [exec, Except.ok.injEq, Prod.mk.injEq] at h
    obtain ⟨rfl, _⟩ := h
    refine ⟨fun _ => rfl, fun x hx _ => mem_sadd.mpr (Or.inr hx), ?_⟩
    intro x hx
    rcases mem_sadd.mp hx with h1 | h1
    · exact Or.inr h1.symm
    · exact Or.inl h1
  | unregister c =>
    intro s s' l h
    simp only [exec] at h
    split at h
    · simp only [Except.ok.injEq, Prod.mk.injEq] at h
      obtain ⟨rfl, _⟩ := h
      refine ⟨fun _ => rfl, ?_, fun x hx => Or.inl (mem_srem.mp hx).1⟩
      intro x hx hn
      exact mem_srem.mpr ⟨hx, fun e => hn e.symm⟩
    · cases h
  | get =>
    intro s s' l h
    simp only [exec, Except.ok.injEq, Prod.mk.injEq] at h
    obtain ⟨rfl, _⟩ := h
    exact ⟨fun _ => rfl, fun x hx _ => hx, fun x hx => Or.inl hx⟩

/-- **`exit_preserves_outer`**: for every well-bracketed history `p` (any nesting depth, any mixture of
`with cb`, `with add_callbacks(...)`, `register`, scheduler calls, the same or different callback objects),
a callback that was active before — activated by an enclosing context or by an earlier `register()` — is
still active afterwards, unless `p` itself unregisters it. -/
theorem exit_preserves_outer (p : Prog) (s s' : St) (l : List (List Cb)) (h : exec p s = .ok (s', l))
    (x : Cb) (hx : x ∈ s.active) (hn : ¬ p.unregisters x) : x ∈ s'.active :=
  (exec_stack p s s' l h).2.1 x hx hn

/-- **contexts nest like a stack**: nothing is left active by a block except what it explicitly registered,
and every `Callback` object finds its own stack of managers as it was. -/
theorem exit_restores (p : Prog) (s s' : St) (l : List (List Cb)) (h : exec p s = .ok (s', l)) :
    (∀ x, x ∈ s'.active → x ∈ s.active ∨ p.registers x) ∧ (∀ c, stackOf s' c = stackOf s c) :=
  ⟨(exec_stack p s s' l h).2.2, (exec_stack p s s' l h).1⟩

/-- a block without `register`/`unregister` leaves `Callback.active` exactly as it found it -/
theorem block_is_neutral (p : Prog) (hr : ∀ x, ¬ p.registers x) (hu : ∀ x, ¬ p.unregisters x)
    (s s' : St) (l : List (List Cb)) (h : exec p s = .ok (s', l)) (x : Cb) : x ∈ s'.active ↔ x ∈ s.active := by
  obtain ⟨_, b, c⟩ := exec_stack p s s' l h
  constructor
  · intro hx
    rcases c x hx with h1 | h1
    · exact h1
    · exact absurd h1 (hr x)
  · intro hx; exact b x hx (hu x)

/-- inside `with add_callbacks(*cbs):` a scheduler call uses the given callbacks and everything that was
active outside -/
theorem with_activates (cbs : List Cb) (s s' : St) (l : List (List Cb)) (h : exec (.withCm cbs .get) s = .ok (s', l)) :
    ∃ used, l = [used] ∧ ∀ x, x ∈ used ↔ x ∈ cbs ∨ x ∈ s.active := by
  simp only [exec, cmInit, Except.ok.injEq, Prod.mk.injEq] at h
  obtain ⟨_, rfl⟩ := h
  exact ⟨_, rfl, fun x => mem_activate cbs s.active x⟩

/-- same for `with cb:`, and for the re-entered object (`with cb: with cb: get`) -/
theorem with_obj_activates (c : Cb) (s s' : St) (l : List (List Cb)) (h : exec (.withObj c .get) s = .ok (s', l)) :
    ∃ used, l = [used] ∧ c ∈ used := by
  obtain ⟨a, b, _⟩ := exec_stack (.withObj c .get) s s' l h
  simp only [exec, step_enterObj] at h
  simp only [step] at h
  have htop := stackOf_enterSt c s
  rw [htop] at h
  simp only [Except.ok.injEq, Prod.mk.injEq] at h
  obtain ⟨_, rfl⟩ := h
  exact ⟨_, rfl, (mem_activate [c] s.active c).mpr (Or.inl (by simp))⟩

/-- the scheduler call itself (`local_callbacks`) leaves `Callback.active` untouched -/
theorem get_restores_active (s : St) : ∃ used, step .get s = .ok (s, some used) ∧ used = s.active := ⟨_, rfl, rfl⟩

/-! ## protocol order (from the scheduler model) -/
open Dask.C01 in
/-- **`protocol_order`**: the event sequence every active callback sees during one `get_async` call is
`start, start_state, (pretask | posttask | <submit>)*, finish`: `start` and `start_state` come first and once,
`finish` comes last and once (also on failure, with the flag set), and in between every executed key has
exactly one `pretask` and at most one `posttask` (exactly one when the call succeeds). -/
theorem protocol_order {α : Type} {cfg : Cfg} {P : Params α} {rank : Key → Nat} {st0 : State α}
    (h : Hyp cfg rank) (hst : startState cfg P = .ok st0) (hs : StartOK cfg (den cfg P rank) st0)
    (choices : List Nat) (hbad : (getAsync cfg P choices).outcome ≠ .error .badChoice) :
    ∃ mid st b, (getAsync cfg P choices).log =
        [(Ev.start, ({} : State α)), (Ev.startState, st0)] ++ mid ++ [(Ev.finish b, st)] ∧
      (∀ e ∈ mid, midEv e.1 = true) ∧ (preKeys mid).Nodup ∧ (postKeys mid).Nodup ∧
      (∀ k, k ∈ postKeys mid → k ∈ preKeys mid) ∧
      (b = false ↔ (getAsync cfg P choices).outcome = .ok .done) ∧
      (b = false → ∀ k, k ∈ preKeys mid ↔ k ∈ postKeys mid) := by
  rw [getAsync_eq hst (hs.accessible rank h.acyclic) choices] at hbad ⊢
  cases hml : mainLoop cfg P choices (sys0 st0) with
  | error e =>
    have := C01.sched_no_internal_error h hs choices e hml
    subst this
    rw [hml] at hbad
    exact absurd rfl hbad
  | ok r =>
    obtain ⟨s', o⟩ := r
    obtain ⟨⟨rest, hB⟩, _, _, hdone, _, ⟨ext, hext, hmid⟩⟩ :=
      reach_inv P (den_fixpoint cfg P rank h) h.nw h.cs rank h.acyclic hs hml
    have hpre : preKeys s'.log = preKeys ext := by
      rw [hext, preKeys_append]; simp [sys0, preKeys]
    have hpost : postKeys s'.log = postKeys ext := by
      rw [hext, postKeys_append]; simp [sys0, postKeys]
    have hsub : ∀ k, k ∈ postKeys ext → k ∈ preKeys ext := by
      intro k hk
      rw [← hpost] at hk
      rw [← hpre]
      exact (hB.preIff k).mpr (Or.inr ((hB.postIff k).mp hk))
    have hlog : s'.log = [(Ev.start, ({} : State α)), (Ev.startState, st0)] ++ ext := hext
    cases o with
    | done =>
      obtain ⟨hB', hl⟩ := hdone rfl
      have hrun0 : s'.st.running = [] := ((loopCond_false_iff s'.st).mp hl).2.2
      refine ⟨ext, s'.st, false, by simp [hlog], hmid, hpre ▸ hB.preNodup, hpost ▸ hB.postNodup, hsub, by simp, ?_⟩
      intro _ k
      rw [← hpre, ← hpost, hB.preIff k, hB.postIff k, hrun0]
      simp
    | starved =>
      exact ⟨ext, s'.st, true, by simp [hlog], hmid, hpre ▸ hB.preNodup, hpost ▸ hB.postNodup, hsub, by simp,
        by intro hb; cases hb⟩
    | failed k =>
      exact ⟨ext, s'.st, true, by simp [hlog], hmid, hpre ▸ hB.preNodup, hpost ▸ hB.postNodup, hsub, by simp,
        by intro hb; cases hb⟩

open Dask.C01 in
/-- `protocol_order` without the `StartOK` hypothesis -/
theorem protocol_order_full {α : Type} {cfg : Cfg} {P : Params α} {rank : Key → Nat} {st0 : State α}
    (h : Hyp cfg rank) (hG : GraphOK cfg.g cfg.results) (hst : startState cfg P = .ok st0)
    (choices : List Nat) (hbad : (getAsync cfg P choices).outcome ≠ .error .badChoice) :
    ∃ mid st b, (getAsync cfg P choices).log =
        [(Ev.start, ({} : State α)), (Ev.startState, st0)] ++ mid ++ [(Ev.finish b, st)] ∧
      (∀ e ∈ mid, midEv e.1 = true) ∧ (preKeys mid).Nodup ∧ (postKeys mid).Nodup ∧
      (∀ k, k ∈ postKeys mid → k ∈ preKeys mid) ∧
      (b = false ↔ (getAsync cfg P choices).outcome = .ok .done) ∧
      (b = false → ∀ k, k ∈ preKeys mid ↔ k ∈ postKeys mid) :=
  protocol_order h hst (C01.startOK_of_eq h hG hst) choices hbad

/-! ## non-vacuity / witnesses -/
/-- the former counterexample `with cb: (with cb: pass); get`: on the repaired code the get sees `cb` -/
example : (exec (.withObj 7 (.seq (.withObj 7 .skip) .get)) {}).toOption.map (·.2) = some [[7]] := by decide
/-- `cb.register(); with cb: pass; get; cb.unregister()` no longer raises and the get sees `cb` -/
example : (exec (.seq (.register 7) (.seq (.withObj 7 .skip) (.seq .get (.unregister 7)))) {}).toOption.map (·.2)
    = some [[7]] := by decide
/-- after the outermost exit nothing is active any more -/
example : (exec (.withObj 7 (.withObj 7 (.withCm [7, 8] .get))) {}).toOption.map (fun r => (r.1.active, r.2))
    = some ([], [[7, 8]]) := by decide
/-- the flat machine on an ill-bracketed history (exit of the outer manager first): allowed, diffed against the code -/
example : ((run [.enterCm [1], .enterCm [1, 2], .exitCm 0, .get] {}).map
    (fun r => match r with | .ok (s, _) => s.active | .error _ => [99])) = [[1], [1, 2], [2], [2]] := by decide

end Dask.C05
