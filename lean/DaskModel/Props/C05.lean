import DaskModel.Model.Callbacks
import DaskModel.Props.C04
/-!
# C05 — scheduler callbacks fire in protocol order and contexts nest like a stack

Two models: `Model/Callbacks.lean` (`Callback.active`, `add_callbacks` objects built / entered / left as separate
operations, `Callback.__enter__/__exit__`, `register/unregister`, `local_callbacks`) and the callback log of
`Model/Sched.lean`.
The code modelled is the code **after** two repairs in `/repo`:
* defect #1 (commit 64c9a31): `add_callbacks.__exit__` discarded everything it was given and `Callback.__enter__`
  overwrote its single `_cm` slot, so `exit_preserves_outer` was false (witness `with cb: (with cb: pass); get`);
* the re-used manager object (review round): `add_callbacks.__init__` decided what to deactivate and activated, `__enter__`
  did nothing, so an `add_callbacks` object entered a second time inside a context that activated the same callback
  deactivated it on leaving (witness `h = add_callbacks(cb); with h: pass; with add_callbacks(cb): (with h: pass); get`).
  Now activation and the `_added` entry are made by `__enter__`, one entry per entry, popped by `__exit__`.
Both witnesses are kept in the corpus and as `decide` examples below.
-/
namespace Dask.C05
open Dask.Sched Dask.Callbacks

/-! ## set-level lemmas -/
theorem mem_dedupAux (acc l : List Cb) (x : Cb) : x ∈ dedupAux acc l ↔ x ∈ acc ∨ x ∈ l := by
  induction l generalizing acc with
  | nil => simp [dedupAux]
  | cons a l ih =>
    unfold dedupAux
    split
    · rename_i h
      rw [ih]
      constructor
      · rintro (h1 | h1)
        · exact Or.inl h1
        · exact Or.inr (List.mem_cons_of_mem _ h1)
      · rintro (h1 | h1)
        · exact Or.inl h1
        · rcases List.mem_cons.mp h1 with rfl | h2
          · exact Or.inl h
          · exact Or.inr h2
    · rw [ih]
      simp only [List.mem_cons]
      constructor
      · rintro ((h1 | h1) | h1)
        · exact Or.inr (Or.inl h1)
        · exact Or.inl h1
        · exact Or.inr (Or.inr h1)
      · rintro (h1 | h1 | h1)
        · exact Or.inl (Or.inr h1)
        · exact Or.inl (Or.inl h1)
        · exact Or.inr h1

theorem mem_newOnes (cbs active : List Cb) (x : Cb) : x ∈ newOnes cbs active ↔ x ∈ cbs ∧ x ∉ active := by
  unfold newOnes
  simp [List.mem_filter, mem_dedupAux]

theorem mem_activate (cbs active : List Cb) (x : Cb) : x ∈ activate cbs active ↔ x ∈ cbs ∨ x ∈ active := by
  unfold activate
  induction cbs generalizing active with
  | nil => simp
  | cons a l ih =>
    simp only [List.foldl_cons]
    rw [ih, mem_sadd]
    simp only [List.mem_cons]
    constructor
    · rintro (h1 | h1 | h1)
      · exact Or.inl (Or.inr h1)
      · exact Or.inl (Or.inl h1)
      · exact Or.inr h1
    · rintro ((h1 | h1) | h1)
      · exact Or.inr (Or.inl h1)
      · exact Or.inl h1
      · exact Or.inr (Or.inr h1)

theorem mem_discardAll (added active : List Cb) (x : Cb) : x ∈ discardAll added active ↔ x ∈ active ∧ x ∉ added := by
  unfold discardAll
  induction added generalizing active with
  | nil => simp
  | cons a l ih =>
    simp only [List.foldl_cons]
    rw [ih, mem_srem]
    simp only [List.mem_cons, not_or]
    constructor
    · rintro ⟨⟨h1, h2⟩, h3⟩; exact ⟨h1, h2, h3⟩
    · rintro ⟨h1, h2, h3⟩; exact ⟨⟨h1, h2⟩, h3⟩

theorem stackOf_set (s : St) (c : Cb) (v : List (List Cb)) (c' : Cb) (s' : St)
    (h : s'.objCms = s.objCms.set c v) : stackOf s' c' = if c = c' then v else stackOf s c' := by
  unfold stackOf
  rw [h, Map.get?_set]
  split <;> rfl

/-! ## the single operations (flat machine) -/

/-- the state right after `cb.__enter__()` -/
def enterSt (c : Cb) (s : St) : St :=
  { active := activate [c] s.active, cms := s.cms, objCms := s.objCms.set c (newOnes [c] s.active :: stackOf s c) }

theorem step_enterObj (c : Cb) (s : St) : step (.enterObj c c) s = .ok (enterSt c s, none) := rfl

theorem stackOf_enterSt (c : Cb) (s : St) : stackOf (enterSt c s) c = newOnes [c] s.active :: stackOf s c := by
  rw [stackOf_set s c _ c _ rfl]; simp

/-- the state right after `h.__enter__()` for the manager `m` bound to `h` -/
def enterCmSt (h : Nat) (m : Mgr) (s : St) : St :=
  { active := activate m.cbs s.active,
    cms := s.cms.set h { m with stack := newOnes m.cbs s.active :: m.stack },
    objCms := s.objCms }

theorem step_enterCm {h : Nat} {m : Mgr} {s : St} (hm : s.cms.get? h = some m) :
    step (.enterCm h) s = .ok (enterCmSt h m s, none) := by
  simp only [step, hm, cmEnter]
  rfl

theorem step_enterCm_none {h : Nat} {s : St} (hm : s.cms.get? h = none) :
    step (.enterCm h) s = .error .badChoice := by
  simp only [step, hm]

/-- the state right after `h.__exit__()` popped the entry `added` -/
def exitCmSt (h : Nat) (m : Mgr) (added : List Cb) (rest : List (List Cb)) (s : St) : St :=
  { active := discardAll added s.active, cms := s.cms.set h { m with stack := rest }, objCms := s.objCms }

theorem step_exitCm {h : Nat} {m : Mgr} {added : List Cb} {rest : List (List Cb)} {s : St}
    (hm : s.cms.get? h = some m) (hs : m.stack = added :: rest) :
    step (.exitCm h) s = .ok (exitCmSt h m added rest s, none) := by
  simp only [step, hm, hs]
  rfl

/-- **building is inert** (second repair): `h = add_callbacks(*cbs)` activates nothing and touches no other manager -/
theorem build_is_inert (h : Nat) (cbs : List Cb) (s s' : St) (u : Option (List Cb))
    (hs : step (.buildCm h cbs) s = .ok (s', u)) :
    s'.active = s.active ∧ s'.objCms = s.objCms ∧ s.cms.get? h = none ∧
    s'.cms.get? h = some { cbs := cbs, stack := [] } ∧ ∀ h', h' ≠ h → s'.cms.get? h' = s.cms.get? h' := by
  simp only [step] at hs
  cases hg : s.cms.get? h with
  | some m => rw [hg] at hs; cases hs
  | none =>
    rw [hg] at hs
    simp only [Except.ok.injEq, Prod.mk.injEq] at hs
    obtain ⟨rfl, _⟩ := hs
    refine ⟨rfl, rfl, rfl, by simp [Map.get?_set], ?_⟩
    intro h' hne
    simp only [Map.get?_set]
    rw [if_neg (fun e => hne e.symm)]

/-- **entering**: everything given to the manager and everything that was active is active afterwards; the entry pushed
on the manager's `_added` stack is exactly what was given and NOT active before -/
theorem enterCm_spec (h : Nat) (s s' : St) (u : Option (List Cb)) (hs : step (.enterCm h) s = .ok (s', u)) :
    ∃ m, s.cms.get? h = some m ∧
      (∀ x, x ∈ s'.active ↔ x ∈ m.cbs ∨ x ∈ s.active) ∧
      s'.cms.get? h = some { m with stack := newOnes m.cbs s.active :: m.stack } ∧
      (∀ x, x ∈ newOnes m.cbs s.active ↔ x ∈ m.cbs ∧ x ∉ s.active) := by
  cases hg : s.cms.get? h with
  | none => rw [step_enterCm_none hg] at hs; cases hs
  | some m =>
    rw [step_enterCm hg] at hs
    simp only [Except.ok.injEq, Prod.mk.injEq] at hs
    obtain ⟨rfl, _⟩ := hs
    exact ⟨m, rfl, fun x => mem_activate m.cbs s.active x, by simp [enterCmSt, Map.get?_set],
      fun x => mem_newOnes m.cbs s.active x⟩

/-- **leaving**: exactly the popped entry is deactivated, nothing else -/
theorem exitCm_spec (h : Nat) (s s' : St) (u : Option (List Cb)) (hs : step (.exitCm h) s = .ok (s', u)) :
    ∃ m added rest, s.cms.get? h = some m ∧ m.stack = added :: rest ∧
      s'.cms.get? h = some { m with stack := rest } ∧
      ∀ x, x ∈ s'.active ↔ x ∈ s.active ∧ x ∉ added := by
  cases hg : s.cms.get? h with
  | none => simp only [step, hg] at hs; cases hs
  | some m =>
    cases hst : m.stack with
    | nil => simp only [step, hg, hst] at hs; cases hs
    | cons added rest =>
      rw [step_exitCm hg hst] at hs
      simp only [Except.ok.injEq, Prod.mk.injEq] at hs
      obtain ⟨rfl, _⟩ := hs
      exact ⟨m, added, rest, rfl, hst, by simp [exitCmSt, Map.get?_set], fun x => mem_discardAll added s.active x⟩

/-- **flat histories, also ill-bracketed**: enter the manager `h` in `s0`; let ANYTHING happen afterwards (other
contexts entered and left in any order, the same manager entered again and left, register/unregister, scheduler
calls) leading to a state `s2` in which the manager's `_added` stack is as the enter left it - i.e. the next
`h.__exit__()` pops the entry this enter pushed; then that exit succeeds and deactivates nothing that was active
before the enter. -/
theorem flat_exit_preserves (h : Nat) (s0 s1 s2 : St) (u : Option (List Cb))
    (henter : step (.enterCm h) s0 = .ok (s1, u)) (hbal : s2.cms.get? h = s1.cms.get? h) :
    ∃ s3, step (.exitCm h) s2 = .ok (s3, none) ∧ s3.cms.get? h = s0.cms.get? h ∧
      ∀ x, x ∈ s0.active → x ∈ s2.active → x ∈ s3.active := by
  obtain ⟨m, hm, _, hpush, hnew⟩ := enterCm_spec h s0 s1 u henter
  rw [hpush] at hbal
  refine ⟨_, step_exitCm hbal rfl, ?_, ?_⟩
  · rw [hm]; simp [exitCmSt, Map.get?_set]
  · intro x hx0 hx2
    show x ∈ discardAll _ s2.active
    rw [mem_discardAll]
    exact ⟨hx2, fun hn => ((hnew x).mp hn).2 hx0⟩

/-- the same for a `Callback` object: `cb.__enter__()`, anything, `cb.__exit__()` popping the manager this enter pushed -/
theorem flat_exitObj_preserves (c : Cb) (s0 s2 : St) (hbal : stackOf s2 c = stackOf (enterSt c s0) c) :
    ∃ s3, step (.exitObj c) s2 = .ok (s3, none) ∧ stackOf s3 c = stackOf s0 c ∧
      ∀ x, x ∈ s0.active → x ∈ s2.active → x ∈ s3.active := by
  rw [stackOf_enterSt] at hbal
  refine ⟨{ s2 with objCms := s2.objCms.set c (stackOf s0 c), active := discardAll (newOnes [c] s0.active) s2.active }, ?_, ?_, ?_⟩
  · simp only [step, hbal]
  · rw [stackOf_set s2 c (stackOf s0 c) c _ rfl]; simp
  · intro x hx0 hx2
    show x ∈ discardAll _ s2.active
    rw [mem_discardAll]
    exact ⟨hx2, fun hn => ((mem_newOnes [c] s0.active x).mp hn).2 hx0⟩

/-! ## contexts nest like a stack -/

/-- the facts proved together by induction on the program -/
theorem exec_stack (p : Prog) : ∀ (s s' : St) (l : List (List Cb)), exec p s = .ok (s', l) →
    (∀ c, stackOf s' c = stackOf s c) ∧
    (∀ h m, s.cms.get? h = some m → s'.cms.get? h = some m) ∧
    (∀ x, x ∈ s.active → ¬ p.unregisters x → x ∈ s'.active) ∧
    (∀ x, x ∈ s'.active → x ∈ s.active ∨ p.registers x) := by
  induction p with
  | skip =>
    intro s s' l h
    simp only [exec, Except.ok.injEq, Prod.mk.injEq] at h
    obtain ⟨rfl, _⟩ := h
    exact ⟨fun _ => rfl, fun _ _ hm => hm, fun x hx _ => hx, fun x hx => Or.inl hx⟩
  | seq p q ihp ihq =>
    intro s s' l h
    simp only [exec] at h
    cases hp : exec p s with
    | error e => rw [hp] at h; cases h
    | ok r1 =>
      obtain ⟨s1, l1⟩ := r1
      rw [hp] at h
      simp only [] at h
      cases hq : exec q s1 with
      | error e => rw [hq] at h; cases h
      | ok r2 =>
        obtain ⟨s2, l2⟩ := r2
        rw [hq] at h
        simp only [Except.ok.injEq, Prod.mk.injEq] at h
        obtain ⟨rfl, _⟩ := h
        obtain ⟨a1, m1, b1, c1⟩ := ihp s s1 l1 hp
        obtain ⟨a2, m2, b2, c2⟩ := ihq s1 s2 l2 hq
        refine ⟨fun c => (a2 c).trans (a1 c), fun h m hm => m2 h m (m1 h m hm), ?_, ?_⟩
        · intro x hx hn
          exact b2 x (b1 x hx (fun h1 => hn (Or.inl h1))) (fun h1 => hn (Or.inr h1))
        · intro x hx
          rcases c2 x hx with h1 | h1
          · rcases c1 x h1 with h2 | h2
            · exact Or.inl h2
            · exact Or.inr (Or.inl h2)
          · exact Or.inr (Or.inr h1)
  | withCm cbs body ih =>
    intro s s' l h
    simp only [exec, cmEnter] at h
    cases hb : exec body { s with active := activate cbs s.active } with
    | error e => rw [hb] at h; cases h
    | ok r =>
      obtain ⟨s2, l2⟩ := r
      rw [hb] at h
      simp only [Except.ok.injEq, Prod.mk.injEq] at h
      obtain ⟨rfl, _⟩ := h
      obtain ⟨a, mm, b, c⟩ := ih _ s2 l2 hb
      refine ⟨fun c' => a c', fun h m hm => mm h m hm, ?_, ?_⟩
      · intro x hx hn
        show x ∈ discardAll _ s2.active
        rw [mem_discardAll]
        refine ⟨b x ((mem_activate cbs s.active x).mpr (Or.inr hx)) hn, ?_⟩
        intro hadd
        exact ((mem_newOnes cbs s.active x).mp hadd).2 hx
      · intro x hx
        have hx' : x ∈ discardAll (newOnes cbs s.active) s2.active := hx
        rw [mem_discardAll] at hx'
        rcases c x hx'.1 with h1 | h1
        · rcases (mem_activate cbs s.active x).mp h1 with h2 | h2
          · by_cases hxa : x ∈ s.active
            · exact Or.inl hxa
            · exact absurd ((mem_newOnes cbs s.active x).mpr ⟨h2, hxa⟩) hx'.2
          · exact Or.inl h2
        · exact Or.inr h1
  | withObj c body ih =>
    intro s s' l h
    simp only [exec, step_enterObj] at h
    cases hb : exec body (enterSt c s) with
    | error e => rw [hb] at h; cases h
    | ok r =>
      obtain ⟨s2, l2⟩ := r
      rw [hb] at h
      simp only [step] at h
      obtain ⟨a, mm, b, cc⟩ := ih _ s2 l2 hb
      have htop : stackOf s2 c = newOnes [c] s.active :: stackOf s c := by
        rw [a c, stackOf_enterSt]
      rw [htop] at h
      simp only [Except.ok.injEq, Prod.mk.injEq] at h
      obtain ⟨rfl, _⟩ := h
      refine ⟨?_, fun h m hm => mm h m hm, ?_, ?_⟩
      · intro c'
        rw [stackOf_set s2 c (stackOf s c) c' _ rfl]
        split
        · rename_i hcc; rw [hcc]
        · rename_i hcc
          rw [a c', stackOf_set s c _ c' (enterSt c s) rfl]
          simp [hcc]
      · intro x hx hn
        show x ∈ discardAll _ s2.active
        rw [mem_discardAll]
        refine ⟨b x ((mem_activate [c] s.active x).mpr (Or.inr hx)) hn, ?_⟩
        intro hadd
        exact ((mem_newOnes [c] s.active x).mp hadd).2 hx
      · intro x hx
        have hx' : x ∈ discardAll (newOnes [c] s.active) s2.active := hx
        rw [mem_discardAll] at hx'
        rcases cc x hx'.1 with h1 | h1
        · rcases (mem_activate [c] s.active x).mp h1 with h2 | h2
          · by_cases hxa : x ∈ s.active
            · exact Or.inl hxa
            · exact absurd ((mem_newOnes [c] s.active x).mpr ⟨h2, hxa⟩) hx'.2
          · exact Or.inl h2
        · exact Or.inr h1
  | build h cbs =>
    intro s s' l hh
    simp only [exec] at hh
    cases hst : step (.buildCm h cbs) s with
    | error e => rw [hst] at hh; cases hh
    | ok r =>
      obtain ⟨s1, u⟩ := r
      rw [hst] at hh
      simp only [Except.ok.injEq, Prod.mk.injEq] at hh
      obtain ⟨rfl, _⟩ := hh
      obtain ⟨ha, ho, hnone, _, hother⟩ := build_is_inert h cbs s s1 u hst
      refine ⟨fun c => by unfold stackOf; rw [ho], ?_, fun x hx _ => by rw [ha]; exact hx,
        fun x hx => Or.inl (by rw [ha] at hx; exact hx)⟩
      intro h' m hm
      have hne : h' ≠ h := by rintro rfl; rw [hnone] at hm; cases hm
      rw [hother h' hne]; exact hm
  | withH h body ih =>
    intro s s' l hh
    simp only [exec] at hh
    cases hg : s.cms.get? h with
    | none => rw [step_enterCm_none hg] at hh; cases hh
    | some m =>
      rw [step_enterCm hg] at hh
      simp only [] at hh
      cases hb : exec body (enterCmSt h m s) with
      | error e => rw [hb] at hh; cases hh
      | ok r =>
        obtain ⟨s2, l2⟩ := r
        rw [hb] at hh
        simp only [] at hh
        obtain ⟨a, mm, b, cc⟩ := ih _ s2 l2 hb
        have hpush : (enterCmSt h m s).cms.get? h = some { m with stack := newOnes m.cbs s.active :: m.stack } := by
          simp [enterCmSt, Map.get?_set]
        have h2 := mm h _ hpush
        rw [step_exitCm h2 rfl] at hh
        simp only [Except.ok.injEq, Prod.mk.injEq] at hh
        obtain ⟨rfl, _⟩ := hh
        refine ⟨?_, ?_, ?_, ?_⟩
        · intro c
          have : stackOf (exitCmSt h { m with stack := newOnes m.cbs s.active :: m.stack } (newOnes m.cbs s.active) m.stack s2) c
              = stackOf s2 c := rfl
          rw [this, a c]; rfl
        · intro h' m' hm'
          show Map.get? (s2.cms.set h _) h' = some m'
          rw [Map.get?_set]
          by_cases hhh : h = h'
          · subst hhh
            rw [hg] at hm'
            simp only [Option.some.injEq] at hm'
            subst hm'
            simp
          · rw [if_neg hhh]
            apply mm h' m'
            show Map.get? (s.cms.set h _) h' = some m'
            rw [Map.get?_set, if_neg hhh]
            exact hm'
        · intro x hx hn
          show x ∈ discardAll _ s2.active
          rw [mem_discardAll]
          refine ⟨b x ((mem_activate m.cbs s.active x).mpr (Or.inr hx)) hn, ?_⟩
          intro hadd
          exact ((mem_newOnes m.cbs s.active x).mp hadd).2 hx
        · intro x hx
          have hx' : x ∈ discardAll (newOnes m.cbs s.active) s2.active := hx
          rw [mem_discardAll] at hx'
          rcases cc x hx'.1 with h1 | h1
          · rcases (mem_activate m.cbs s.active x).mp h1 with h3 | h3
            · by_cases hxa : x ∈ s.active
              · exact Or.inl hxa
              · exact absurd ((mem_newOnes m.cbs s.active x).mpr ⟨h3, hxa⟩) hx'.2
            · exact Or.inl h3
          · exact Or.inr h1
  | register c =>
    intro s s' l h
    simp only [exec, Except.ok.injEq, Prod.mk.injEq] at h
    obtain ⟨rfl, _⟩ := h
    refine ⟨fun _ => rfl, fun _ _ hm => hm, fun x hx _ => mem_sadd.mpr (Or.inr hx), ?_⟩
    intro x hx
    rcases mem_sadd.mp hx with h1 | h1
    · exact Or.inr h1.symm
    · exact Or.inl h1
  | unregister c =>
    intro s s' l h
    simp only [exec] at h
    split at h
    · simp only [Except.ok.injEq, Prod.mk.injEq] at h
      obtain ⟨rfl, _⟩ := h
      refine ⟨fun _ => rfl, fun _ _ hm => hm, ?_, fun x hx => Or.inl (mem_srem.mp hx).1⟩
      intro x hx hn
      exact mem_srem.mpr ⟨hx, fun e => hn e.symm⟩
    · cases h
  | get =>
    intro s s' l h
    simp only [exec, Except.ok.injEq, Prod.mk.injEq] at h
    obtain ⟨rfl, _⟩ := h
    exact ⟨fun _ => rfl, fun _ _ hm => hm, fun x hx _ => hx, fun x hx => Or.inl hx⟩

/-- **`exit_preserves_outer`**: for every well-bracketed history `p` (any nesting depth, any mixture of
`with cb`, `with add_callbacks(...)`, `with h` for manager objects built earlier - entered later than built, several
times, inside themselves -, `register`, scheduler calls, the same or different callback objects),
a callback that was active before — activated by an enclosing context or by an earlier `register()` — is
still active afterwards, unless `p` itself unregisters it. -/
theorem exit_preserves_outer (p : Prog) (s s' : St) (l : List (List Cb)) (h : exec p s = .ok (s', l))
    (x : Cb) (hx : x ∈ s.active) (hn : ¬ p.unregisters x) : x ∈ s'.active :=
  (exec_stack p s s' l h).2.2.1 x hx hn

/-- **contexts nest like a stack**: nothing is left active by a block except what it explicitly registered,
every `Callback` object finds its own stack of managers as it was, and every manager object that existed before
finds its `_added` stack as it was. -/
theorem exit_restores (p : Prog) (s s' : St) (l : List (List Cb)) (h : exec p s = .ok (s', l)) :
    (∀ x, x ∈ s'.active → x ∈ s.active ∨ p.registers x) ∧ (∀ c, stackOf s' c = stackOf s c) ∧
    (∀ h m, s.cms.get? h = some m → s'.cms.get? h = some m) :=
  ⟨(exec_stack p s s' l h).2.2.2, (exec_stack p s s' l h).1, (exec_stack p s s' l h).2.1⟩

/-- a block without `register`/`unregister` leaves `Callback.active` exactly as it found it -/
theorem block_is_neutral (p : Prog) (hr : ∀ x, ¬ p.registers x) (hu : ∀ x, ¬ p.unregisters x)
    (s s' : St) (l : List (List Cb)) (h : exec p s = .ok (s', l)) (x : Cb) : x ∈ s'.active ↔ x ∈ s.active := by
  obtain ⟨_, _, b, c⟩ := exec_stack p s s' l h
  constructor
  · intro hx
    rcases c x hx with h1 | h1
    · exact h1
    · exact absurd h1 (hr x)
  · intro hx; exact b x hx (hu x)

/-- inside `with add_callbacks(*cbs):` a scheduler call uses the given callbacks and everything that was
active outside -/
theorem with_activates (cbs : List Cb) (s s' : St) (l : List (List Cb)) (h : exec (.withCm cbs .get) s = .ok (s', l)) :
    ∃ used, l = [used] ∧ ∀ x, x ∈ used ↔ x ∈ cbs ∨ x ∈ s.active := by
  simp only [exec, cmEnter, Except.ok.injEq, Prod.mk.injEq] at h
  obtain ⟨_, rfl⟩ := h
  exact ⟨_, rfl, fun x => mem_activate cbs s.active x⟩

/-- same for `with h:` where `h` is a manager object built earlier (possibly entered before, possibly open) -/
theorem withH_activates (h : Nat) (s s' : St) (l : List (List Cb)) (he : exec (.withH h .get) s = .ok (s', l)) :
    ∃ m used, s.cms.get? h = some m ∧ l = [used] ∧ ∀ x, x ∈ used ↔ x ∈ m.cbs ∨ x ∈ s.active := by
  simp only [exec] at he
  cases hg : s.cms.get? h with
  | none => rw [step_enterCm_none hg] at he; cases he
  | some m =>
    rw [step_enterCm hg] at he
    simp only [] at he
    have hpush : (enterCmSt h m s).cms.get? h = some { m with stack := newOnes m.cbs s.active :: m.stack } := by
      simp [enterCmSt, Map.get?_set]
    rw [step_exitCm hpush rfl] at he
    simp only [Except.ok.injEq, Prod.mk.injEq] at he
    obtain ⟨_, rfl⟩ := he
    exact ⟨m, _, rfl, rfl, fun x => mem_activate m.cbs s.active x⟩

/-- same for `with cb:`, and for the re-entered object (`with cb: with cb: get`) -/
theorem with_obj_activates (c : Cb) (s s' : St) (l : List (List Cb)) (h : exec (.withObj c .get) s = .ok (s', l)) :
    ∃ used, l = [used] ∧ c ∈ used := by
  simp only [exec, step_enterObj] at h
  simp only [step] at h
  have htop := stackOf_enterSt c s
  rw [htop] at h
  simp only [Except.ok.injEq, Prod.mk.injEq] at h
  obtain ⟨_, rfl⟩ := h
  exact ⟨_, rfl, (mem_activate [c] s.active c).mpr (Or.inl (by simp))⟩

/-- the scheduler call itself (`local_callbacks`) leaves `Callback.active` untouched -/
theorem get_restores_active (s : St) : ∃ used, step .get s = .ok (s, some used) ∧ used = s.active := ⟨_, rfl, rfl⟩

/-! ## protocol order (from the scheduler model) -/
open Dask.C01 in
/-- **`protocol_order`**: the event sequence every active callback sees during one `get_async` call is
`start, start_state, (pretask | posttask | <submit>)*, finish`: `start` and `start_state` come first and once,
`finish` comes last and once (also on failure, with the flag set), and in between every executed key has
exactly one `pretask` and at most one `posttask` (exactly one when the call succeeds), and at every moment (every
prefix of the sequence) a key that had its `posttask` had its `pretask` before (`Ordered mid`). -/
theorem protocol_order {α : Type} {cfg : Cfg} {P : Params α} {rank : Key → Nat} {st0 : State α}
    (h : Hyp cfg rank) (hst : startState cfg P = .ok st0) (hs : StartOK cfg (den cfg P rank) st0)
    (choices : List Nat) (hbad : (getAsync cfg P choices).outcome ≠ .error .badChoice) :
    ∃ mid st b, (getAsync cfg P choices).log =
        [(Ev.start, ({} : State α)), (Ev.startState, st0)] ++ mid ++ [(Ev.finish b, st)] ∧
      (∀ e ∈ mid, midEv e.1 = true) ∧ (preKeys mid).Nodup ∧ (postKeys mid).Nodup ∧
      (∀ k, k ∈ postKeys mid → k ∈ preKeys mid) ∧ Ordered mid ∧
      (b = false ↔ (getAsync cfg P choices).outcome = .ok .done) ∧
      (b = false → ∀ k, k ∈ preKeys mid ↔ k ∈ postKeys mid) := by
  rw [getAsync_eq hst (hs.accessible rank h.acyclic) choices] at hbad ⊢
  cases hml : mainLoop cfg P choices (sys0 st0) with
  | error e =>
    have := C01.sched_no_internal_error h hs choices e hml
    subst this
    rw [hml] at hbad
    exact absurd rfl hbad
  | ok r =>
    obtain ⟨s', o⟩ := r
    obtain ⟨⟨rest, hB⟩, _, _, hdone, _, ⟨ext, hext, hmid⟩⟩ :=
      reach_inv P (den_fixpoint cfg P rank h) h.nw h.cs rank h.acyclic hs hml
    have hpre : preKeys s'.log = preKeys ext := by
      rw [hext, preKeys_append]; simp [sys0, preKeys]
    have hpost : postKeys s'.log = postKeys ext := by
      rw [hext, postKeys_append]; simp [sys0, postKeys]
    have hsub : ∀ k, k ∈ postKeys ext → k ∈ preKeys ext := by
      intro k hk
      rw [← hpost] at hk
      rw [← hpre]
      exact (hB.preIff k).mpr (Or.inr ((hB.postIff k).mp hk))
    have hlog : s'.log = [(Ev.start, ({} : State α)), (Ev.startState, st0)] ++ ext := hext
    have hord : Ordered ext := by
      intro l1 l2 hl k hk
      have h1 := hB.ordered ([(Ev.start, ({} : State α)), (Ev.startState, st0)] ++ l1) l2
        (by rw [hlog, hl, List.append_assoc]) k (by rw [postKeys_append]; exact List.mem_append_right _ hk)
      rw [preKeys_append] at h1
      simpa [preKeys] using h1
    cases o with
    | done =>
      obtain ⟨hB', hl⟩ := hdone rfl
      have hrun0 : s'.st.running = [] := ((loopCond_false_iff s'.st).mp hl).2.2
      refine ⟨ext, s'.st, false, by simp [hlog], hmid, hpre ▸ hB.preNodup, hpost ▸ hB.postNodup, hsub, hord, by simp, ?_⟩
      intro _ k
      rw [← hpre, ← hpost, hB.preIff k, hB.postIff k, hrun0]
      simp
    | starved =>
      exact ⟨ext, s'.st, true, by simp [hlog], hmid, hpre ▸ hB.preNodup, hpost ▸ hB.postNodup, hsub, hord, by simp,
        by intro hb; cases hb⟩
    | failed k =>
      exact ⟨ext, s'.st, true, by simp [hlog], hmid, hpre ▸ hB.preNodup, hpost ▸ hB.postNodup, hsub, hord, by simp,
        by intro hb; cases hb⟩

open Dask.C01 in
/-- `protocol_order` without the `StartOK` hypothesis -/
theorem protocol_order_full {α : Type} {cfg : Cfg} {P : Params α} {rank : Key → Nat} {st0 : State α}
    (h : Hyp cfg rank) (hG : GraphOK cfg.g cfg.results) (hst : startState cfg P = .ok st0)
    (choices : List Nat) (hbad : (getAsync cfg P choices).outcome ≠ .error .badChoice) :
    ∃ mid st b, (getAsync cfg P choices).log =
        [(Ev.start, ({} : State α)), (Ev.startState, st0)] ++ mid ++ [(Ev.finish b, st)] ∧
      (∀ e ∈ mid, midEv e.1 = true) ∧ (preKeys mid).Nodup ∧ (postKeys mid).Nodup ∧
      (∀ k, k ∈ postKeys mid → k ∈ preKeys mid) ∧ Ordered mid ∧
      (b = false ↔ (getAsync cfg P choices).outcome = .ok .done) ∧
      (b = false → ∀ k, k ∈ preKeys mid ↔ k ∈ postKeys mid) :=
  protocol_order h hst (C01.startOK_of_eq h hG hst) choices hbad

/-! ## what ONE callback sees: tuples with missing hooks -/

/-- which of the five hooks a callback 5-tuple has (the others are `None`) -/
structure Hooks where
  start : Bool
  startState : Bool
  pretask : Bool
  posttask : Bool
  finish : Bool

/-- `get_async` calls a hook only when the tuple has it: `if cb[0]: cb[0](dsk)`, `if start_state:`, `unpack_callbacks`
drops the missing `pretask`/`posttask` entries, `if finish:`; `submit` is not a callback event at all -/
def Hooks.wants (h : Hooks) : Ev → Bool
  | .start => h.start
  | .startState => h.startState
  | .pretask _ => h.pretask
  | .posttask _ => h.posttask
  | .finish _ => h.finish
  | .submit _ => false

/-- the events of one scheduler call as seen by a callback with the hooks `h` -/
def view {α : Type} (h : Hooks) (log : List (Ev × State α)) : List (Ev × State α) := log.filter (fun e => h.wants e.1)

theorem filterMap_congr' {β γ : Type} {f g : β → Option γ} : ∀ (l : List β), (∀ x ∈ l, f x = g x) →
    l.filterMap f = l.filterMap g
  | [], _ => rfl
  | a :: l, h => by
    rw [List.filterMap_cons, List.filterMap_cons, h a (by simp), filterMap_congr' l (fun x hx => h x (List.mem_cons_of_mem _ hx))]

theorem preKeys_view {α : Type} (h : Hooks) (l : List (Ev × State α)) :
    preKeys (view h l) = if h.pretask then preKeys l else [] := by
  unfold view preKeys
  rw [List.filterMap_filter]
  cases hp : h.pretask
  · simp only [Bool.false_eq_true, if_false]
    apply List.filterMap_eq_nil_iff.mpr
    intro e _
    obtain ⟨ev, st⟩ := e
    cases ev with
    | pretask k => simp only [Hooks.wants, hp]; rfl
    | start => dsimp only; generalize h.wants Ev.start = b; cases b <;> rfl
    | startState => dsimp only; generalize h.wants Ev.startState = b; cases b <;> rfl
    | posttask k => dsimp only; generalize h.wants (Ev.posttask k) = b; cases b <;> rfl
    | finish f => dsimp only; generalize h.wants (Ev.finish f) = b; cases b <;> rfl
    | submit ks => dsimp only; generalize h.wants (Ev.submit ks) = b; cases b <;> rfl
  · simp only [if_true]
    apply filterMap_congr'
    intro e _
    obtain ⟨ev, st⟩ := e
    cases ev with
    | pretask k => simp only [Hooks.wants, hp]; rfl
    | start => dsimp only; generalize h.wants Ev.start = b; cases b <;> rfl
    | startState => dsimp only; generalize h.wants Ev.startState = b; cases b <;> rfl
    | posttask k => dsimp only; generalize h.wants (Ev.posttask k) = b; cases b <;> rfl
    | finish f => dsimp only; generalize h.wants (Ev.finish f) = b; cases b <;> rfl
    | submit ks => dsimp only; generalize h.wants (Ev.submit ks) = b; cases b <;> rfl

theorem postKeys_view {α : Type} (h : Hooks) (l : List (Ev × State α)) :
    postKeys (view h l) = if h.posttask then postKeys l else [] := by
  unfold view postKeys
  rw [List.filterMap_filter]
  cases hp : h.posttask
  · simp only [Bool.false_eq_true, if_false]
    apply List.filterMap_eq_nil_iff.mpr
    intro e _
    obtain ⟨ev, st⟩ := e
    cases ev with
    | posttask k => simp only [Hooks.wants, hp]; rfl
    | start => dsimp only; generalize h.wants Ev.start = b; cases b <;> rfl
    | startState => dsimp only; generalize h.wants Ev.startState = b; cases b <;> rfl
    | pretask k => dsimp only; generalize h.wants (Ev.pretask k) = b; cases b <;> rfl
    | finish f => dsimp only; generalize h.wants (Ev.finish f) = b; cases b <;> rfl
    | submit ks => dsimp only; generalize h.wants (Ev.submit ks) = b; cases b <;> rfl
  · simp only [if_true]
    apply filterMap_congr'
    intro e _
    obtain ⟨ev, st⟩ := e
    cases ev with
    | posttask k => simp only [Hooks.wants, hp]; rfl
    | start => dsimp only; generalize h.wants Ev.start = b; cases b <;> rfl
    | startState => dsimp only; generalize h.wants Ev.startState = b; cases b <;> rfl
    | pretask k => dsimp only; generalize h.wants (Ev.pretask k) = b; cases b <;> rfl
    | finish f => dsimp only; generalize h.wants (Ev.finish f) = b; cases b <;> rfl
    | submit ks => dsimp only; generalize h.wants (Ev.submit ks) = b; cases b <;> rfl

/-- a callback that has both task hooks sees them in order: every prefix of what it sees has the `pretask` of a key
before its `posttask` -/
theorem ordered_view {α : Type} (h : Hooks) (hpre : h.pretask = true) (l : List (Ev × State α)) (ho : Ordered l) :
    Ordered (view h l) := by
  intro a b hab k hk
  obtain ⟨l1, l2, hl, h1, _⟩ := List.filter_eq_append_iff.mp hab
  have h1' : view h l1 = a := h1
  rw [← h1'] at hk ⊢
  rw [postKeys_view] at hk
  rw [preKeys_view, hpre]
  simp only [if_true]
  split at hk
  · exact ho l1 l2 hl k hk
  · cases hk

/-- **the protocol as ONE callback sees it** (any subset of the five hooks): from the event sequence of a scheduler call
`[start, start_state] ++ mid ++ [finish b]` it sees `start` (if it has the hook) first, then `start_state` (if it has
it), then its task events - no key twice, a `posttask` only after the `pretask` when it has both hooks, exactly the
scheduler's `pretask` (`posttask`) keys when it has that hook - then `finish b` (if it has the hook) last. -/
theorem view_protocol {α : Type} (h : Hooks) (st0 st : State α) (b : Bool) (mid : List (Ev × State α))
    (hmid : ∀ e ∈ mid, midEv e.1 = true) (hpn : (preKeys mid).Nodup) (hqn : (postKeys mid).Nodup) (ho : Ordered mid) :
    view h ([(Ev.start, ({} : State α)), (Ev.startState, st0)] ++ mid ++ [(Ev.finish b, st)]) =
        (if h.start then [(Ev.start, ({} : State α))] else []) ++ (if h.startState then [(Ev.startState, st0)] else []) ++
          view h mid ++ (if h.finish then [(Ev.finish b, st)] else []) ∧
      (∀ e ∈ view h mid, ∃ k, e.1 = Ev.pretask k ∨ e.1 = Ev.posttask k) ∧
      (preKeys (view h mid)).Nodup ∧ (postKeys (view h mid)).Nodup ∧
      (h.pretask = true → preKeys (view h mid) = preKeys mid) ∧
      (h.posttask = true → postKeys (view h mid) = postKeys mid) ∧
      (h.pretask = true → Ordered (view h mid)) := by
  refine ⟨?_, ?_, ?_, ?_, ?_, ?_, ?_⟩
  · unfold view
    simp only [List.filter_append, List.filter_cons, List.filter_nil, Hooks.wants]
    cases h.start <;> cases h.startState <;> cases h.finish <;> simp
  · intro e he
    unfold view at he
    obtain ⟨hem, hw⟩ := List.mem_filter.mp he
    have hm := hmid e hem
    obtain ⟨ev, s⟩ := e
    cases ev with
    | pretask k => exact ⟨k, Or.inl rfl⟩
    | posttask k => exact ⟨k, Or.inr rfl⟩
    | submit ks => simp [Hooks.wants] at hw
    | start => simp [midEv] at hm
    | startState => simp [midEv] at hm
    | finish f => simp [midEv] at hm
  · rw [preKeys_view]; split
    · exact hpn
    · simp
  · rw [postKeys_view]; split
    · exact hqn
    · simp
  · intro hp; rw [preKeys_view, hp]; rfl
  · intro hp; rw [postKeys_view, hp]; rfl
  · intro hp; exact ordered_view h hp mid ho

open Dask.C01 in
/-- **the protocol as every single callback sees it, for the whole call**: for every closed acyclic graph, every completion
order and every subset of the five hooks a callback tuple may have -/
theorem callback_sees_protocol {α : Type} {cfg : Cfg} {P : Params α} {rank : Key → Nat} {st0 : State α}
    (h : Hyp cfg rank) (hG : GraphOK cfg.g cfg.results) (hst : startState cfg P = .ok st0)
    (choices : List Nat) (hbad : (getAsync cfg P choices).outcome ≠ .error .badChoice) (hk : Hooks) :
    ∃ mid st b, view hk (getAsync cfg P choices).log =
        (if hk.start then [(Ev.start, ({} : State α))] else []) ++ (if hk.startState then [(Ev.startState, st0)] else []) ++
          view hk mid ++ (if hk.finish then [(Ev.finish b, st)] else []) ∧
      (b = false ↔ (getAsync cfg P choices).outcome = .ok .done) ∧
      (∀ e ∈ view hk mid, ∃ k, e.1 = Ev.pretask k ∨ e.1 = Ev.posttask k) ∧
      (preKeys (view hk mid)).Nodup ∧ (postKeys (view hk mid)).Nodup ∧
      (hk.pretask = true → hk.posttask = true → b = false → ∀ k, k ∈ preKeys (view hk mid) ↔ k ∈ postKeys (view hk mid)) ∧
      (hk.pretask = true → Ordered (view hk mid)) := by
  obtain ⟨mid, st, b, hlog, hmid, hpn, hqn, _, hord, hb, hsucc⟩ := protocol_order_full h hG hst choices hbad
  obtain ⟨v1, v2, v3, v4, v5, v6, v7⟩ := view_protocol hk st0 st b mid hmid hpn hqn hord
  refine ⟨mid, st, b, by rw [hlog]; exact v1, hb, v2, v3, v4, ?_, v7⟩
  intro hp hq hb0 k
  rw [v5 hp, v6 hq]
  exact hsucc hb0 k

/-! ## non-vacuity / witnesses -/
/-- the former counterexample `with cb: (with cb: pass); get`: on the repaired code the get sees `cb` -/
example : (exec (.withObj 7 (.seq (.withObj 7 .skip) .get)) {}).toOption.map (·.2) = some [[7]] := by decide
/-- `cb.register(); with cb: pass; get; cb.unregister()` no longer raises and the get sees `cb` -/
example : (exec (.seq (.register 7) (.seq (.withObj 7 .skip) (.seq .get (.unregister 7)))) {}).toOption.map (·.2)
    = some [[7]] := by decide
/-- after the outermost exit nothing is active any more -/
example : (exec (.withObj 7 (.withObj 7 (.withCm [7, 8] .get))) {}).toOption.map (fun r => (r.1.active, r.2))
    = some ([], [[7, 8]]) := by decide
/-- the second counterexample (re-used manager object, repaired by the second fix):
`h = add_callbacks(cb); with h: pass; with add_callbacks(cb): (with h: pass); get` - the get sees `cb` -/
example : (exec (.seq (.build 0 [7]) (.seq (.withH 0 .skip) (.withCm [7] (.seq (.withH 0 .skip) .get)))) {}).toOption.map
    (fun r => (r.1.active, r.2)) = some ([], [[7]]) := by decide
/-- a manager entered inside itself, built before an enclosing context activated the same callback -/
example : (exec (.seq (.build 0 [7, 8]) (.withCm [7] (.seq (.withH 0 (.withH 0 .get)) .get))) {}).toOption.map
    (fun r => (r.1.active, r.2)) = some ([], [[7, 8], [7]]) := by decide
/-- the flat machine on an ill-bracketed history (exit of the outer manager first): allowed, diffed against the code -/
example : ((run [.buildCm 0 [1], .buildCm 1 [1, 2], .enterCm 0, .enterCm 1, .exitCm 0, .get] {}).map
    (fun r => match r with | .ok (s, _) => s.active | .error _ => [99])) = [[], [], [1], [1, 2], [2], [2]] := by decide
/-- non-vacuity of `flat_exit_preserves`: enter, an unrelated enter/exit and a register in between, then the matching exit -/
example : ∃ s0 s1 s2 : St, step (.enterCm 0) s0 = .ok (s1, none) ∧ s2.cms.get? 0 = s1.cms.get? 0 ∧ 5 ∈ s0.active ∧ 5 ∈ s2.active :=
  ⟨{ active := [5], cms := [(0, { cbs := [5, 6] })] },
   { active := [5, 6], cms := [(0, { cbs := [5, 6], stack := [[6]] })] },
   { active := [5, 6, 9], cms := [(0, { cbs := [5, 6], stack := [[6]] })] }, rfl, rfl, by decide, by decide⟩

/-- non-vacuity: a callback with only `pretask` and `finish` over the diamond run of C01 -/
example : (view { start := false, startState := false, pretask := true, posttask := false, finish := true }
    (getAsync (C01.exCfg 1) C01.exP [1, 0, 0]).log).map (·.1) = [.pretask 1, .pretask 2, .pretask 3, .finish false] := by decide


end Dask.C05
