import DaskModel.Model.Elemwise
/-! # C19 extension — the `unify_chunks` glue around `common_blockdim`

`unify_chunks` rechunks every argument to `chunkss[j] if a.shape[n] > 1 or sum(chunkss[j]) == a.shape[n] else a.shape[n]`
along each of its axes (model: `newChunks`, tied by the `unify` section of the harness).  Proved here, for EVERY table
`chunkss` of unified chunks (whatever `common_blockdim` returned) and every argument:
* `newChunks_shape` / `unifyChunks_shapes`: when `unify_chunks` does not raise, every argument keeps its shape;
* `newChunks_axis`: an axis longer than 1 is rechunked to exactly the unified chunks of its symbol,
  an axis of length ≤ 1 whose unified dimension has another length stays one chunk `(size,)` (it is broadcast).
-/
namespace Dask.C19xUnifyGlue
open Dask.Elemwise

/-- the per-axis rule inside `newChunks` -/
def axisNew (chunkss : List (Sym × List Nat)) (p : Sym × List Nat) : Option (List Nat) :=
  (lookupSym chunkss p.1).bind fun c =>
    if p.2.sum > 1 || c.sum == p.2.sum then (if c.sum = p.2.sum then some c else none) else some [p.2.sum]

theorem newChunks_eq (cs : List (Sym × List Nat)) (a : UArg) :
    newChunks cs a = if a.chunks.any List.isEmpty then some a.chunks
                     else optAll ((a.ind.zip a.chunks).map (axisNew cs)) := rfl

theorem optAll_eq_some {α : Type} : ∀ (l : List (Option α)) (r : List α), optAll l = some r → l = r.map some
  | [], r, h => by
      simp [optAll] at h; subst h; rfl
  | none :: _, r, h => by simp [optAll] at h
  | some a :: t, r, h => by
      cases hr : optAll t with
      | none => simp [optAll, hr] at h
      | some r' =>
        simp [optAll, hr] at h
        subst h
        have := optAll_eq_some t r' hr
        rw [this]; rfl

theorem axisNew_sum (cs : List (Sym × List Nat)) (p : Sym × List Nat) (c' : List Nat)
    (h : axisNew cs p = some c') : c'.sum = p.2.sum := by
  unfold axisNew at h
  cases hl : lookupSym cs p.1 with
  | none => simp [hl] at h
  | some c =>
    simp only [hl, Option.bind] at h
    split at h
    · split at h
      · injection h with h; subst h; assumption
      · cases h
    · injection h with h; subst h; simp

/-- an axis longer than 1 gets exactly the unified chunks of its symbol -/
theorem axisNew_common (cs : List (Sym × List Nat)) (p : Sym × List Nat) (c' : List Nat)
    (h : axisNew cs p = some c') (hgt : 1 < p.2.sum) : lookupSym cs p.1 = some c' := by
  unfold axisNew at h
  cases hl : lookupSym cs p.1 with
  | none => simp [hl] at h
  | some c =>
    simp only [hl, Option.bind] at h
    split at h
    · split at h
      · injection h with h; subst h; rfl
      · cases h
    · rename_i hn
      simp [hgt] at hn

/-- an axis of length ≤ 1 whose unified dimension has another length stays a single chunk (it is broadcast) -/
theorem axisNew_bcast (cs : List (Sym × List Nat)) (p : Sym × List Nat) (c c' : List Nat)
    (h : axisNew cs p = some c') (hl : lookupSym cs p.1 = some c) (_hle : p.2.sum ≤ 1) (hne : c.sum ≠ p.2.sum) :
    c' = [p.2.sum] := by
  unfold axisNew at h
  simp only [hl, Option.bind] at h
  split at h
  · cases h
  · injection h with h; exact h.symm

theorem zip_snd_sum : ∀ (i : List Sym) (c : List (List Nat)), i.length = c.length →
    (i.zip c).map (fun p => p.2.sum) = c.map List.sum
  | [], [], _ => rfl
  | [], _ :: _, h => by simp at h
  | _ :: _, [], h => by simp at h
  | _ :: i, _ :: c, h => by
      have := zip_snd_sum i c (by simpa using h)
      simp [List.zip_cons_cons, this]

theorem axes_sum (cs : List (Sym × List Nat)) : ∀ (ps : List (Sym × List Nat)) (r : List (List Nat)),
    ps.map (axisNew cs) = r.map some → r.map List.sum = ps.map (fun p => p.2.sum)
  | [], [], _ => rfl
  | [], _ :: _, h => by simp at h
  | _ :: _, [], h => by simp at h
  | p :: ps, x :: r, h => by
      simp only [List.map_cons, List.cons.injEq] at h
      have h1 := axisNew_sum cs p x h.1
      have h2 := axes_sum cs ps r h.2
      simp [h1, h2]

theorem axes_each (cs : List (Sym × List Nat)) : ∀ (ps : List (Sym × List Nat)) (r : List (List Nat)),
    ps.map (axisNew cs) = r.map some → ∀ q ∈ ps.zip r, axisNew cs q.1 = some q.2
  | [], _, _ => by intro q hq; simp at hq
  | _ :: _, [], h => by simp at h
  | p :: ps, x :: r, h => by
      simp only [List.map_cons, List.cons.injEq] at h
      intro q hq
      simp only [List.zip_cons_cons, List.mem_cons] at hq
      cases hq with
      | inl e => subst e; exact h.1
      | inr m => exact axes_each cs ps r h.2 q m

/-- **every argument keeps its shape** (one argument) -/
theorem newChunks_shape (cs : List (Sym × List Nat)) (a : UArg) (r : List (List Nat))
    (hlen : a.ind.length = a.chunks.length) (h : newChunks cs a = some r) :
    r.map List.sum = a.chunks.map List.sum := by
  rw [newChunks_eq] at h
  split at h
  · injection h with h; subst h; rfl
  · rw [axes_sum cs _ r (optAll_eq_some _ _ h), zip_snd_sum _ _ hlen]

/-- **which chunks an argument is rechunked to**, axis by axis (`q = ((symbol, old chunks), new chunks)`) -/
theorem newChunks_axis (cs : List (Sym × List Nat)) (a : UArg) (r : List (List Nat))
    (hne : a.chunks.any List.isEmpty = false) (h : newChunks cs a = some r) :
    ∀ q ∈ (a.ind.zip a.chunks).zip r,
      q.2.sum = q.1.2.sum ∧
      (1 < q.1.2.sum → lookupSym cs q.1.1 = some q.2) ∧
      (∀ c, lookupSym cs q.1.1 = some c → q.1.2.sum ≤ 1 → c.sum ≠ q.1.2.sum → q.2 = [q.1.2.sum]) := by
  rw [newChunks_eq, hne] at h
  simp only [Bool.false_eq_true, if_false] at h
  intro q hq
  have hax := axes_each cs _ r (optAll_eq_some _ _ h) q hq
  exact ⟨axisNew_sum cs _ _ hax, axisNew_common cs _ _ hax, fun c hl hle hn => axisNew_bcast cs _ c _ hax hl hle hn⟩

theorem all_shapes (cs : List (Sym × List Nat)) : ∀ (args : List UArg) (news : List (List (List Nat))),
    (∀ a ∈ args, a.ind.length = a.chunks.length) → args.map (newChunks cs) = news.map some →
    news.map (fun n => n.map List.sum) = args.map (fun a => a.chunks.map List.sum)
  | [], [], _, _ => rfl
  | [], _ :: _, _, h => by simp at h
  | _ :: _, [], _, h => by simp at h
  | a :: args, n :: news, hl, h => by
      simp only [List.map_cons, List.cons.injEq] at h
      have h1 := newChunks_shape cs a n (hl a (List.mem_cons_self ..)) h.1
      have h2 := all_shapes cs args news (fun b hb => hl b (List.mem_cons_of_mem _ hb)) h.2
      simp [h1, h2]

/-- **`unify_chunks` never changes a shape**: when it does not raise, the list of shapes of the returned arrays is the
    list of shapes of the arguments, and the returned table is the one `common_blockdim` produced per symbol -/
theorem unifyChunks_shapes (args : List UArg) (cs : List (Sym × List Nat)) (news : List (List (List Nat)))
    (hl : ∀ a ∈ args, a.ind.length = a.chunks.length) (h : unifyChunks args = some (cs, news)) :
    unifySyms args = some cs ∧
    news.map (fun n => n.map List.sum) = args.map (fun a => a.chunks.map List.sum) := by
  unfold unifyChunks at h
  cases hcs : unifySyms args with
  | none => simp [hcs] at h
  | some cs0 =>
    cases hn : optAll (args.map (newChunks cs0)) with
    | none => simp [hcs, hn] at h
    | some n0 =>
      simp [hcs, hn] at h
      obtain ⟨rfl, rfl⟩ := h
      exact ⟨rfl, all_shapes cs0 args n0 hl (optAll_eq_some _ _ hn)⟩

end Dask.C19xUnifyGlue
