import DaskModel.Props.C18b
import DaskModel.Model.ParseUnder
/-!
# C18 (extension) — digit separators in the numeric prefix of `parse_bytes`

`parse_bytes` hands the numeric prefix to `float()`, which accepts PEP-515 separators (`"1_000kB"`). `Model/ParseUnder.lean`
models CPython's separator removal (`stripUnder`) in front of the literal grammar.

* `stripUnder_id`                 a text without `_` is passed on unchanged
* `stripUnder_filter`             an accepted text is passed on with exactly its `_` removed
* `stripUnder_trailing`, `stripUnder_leading`   a trailing / leading `_` is refused
* `parseBytesU_conservative`      without `_` the extended model is the model of `Props/C18b` / `C18c`
* `parse_bytes_units_underscore`  `parse_bytes_units` for prefixes with digit separators: every row of `byte_sizes`, any
                                  letter case, result `int(float(prefix without separators) * multiplier)`
-/
namespace Dask.C18
open Dask.Bytes Dask.PyStr
open Dask.Generated.ByteTables

theorem stripUnderGo_id : ∀ (cs : List Char) (prev : Char), prev ≠ '_' → '_' ∉ cs → stripUnderGo prev cs = some cs
  | [], prev, hp, _ => by simp [stripUnderGo, hp]
  | c :: r, prev, hp, h => by
    have hc : c ≠ '_' := fun e => h (by simp [e])
    have hr : '_' ∉ r := fun e => h (List.mem_cons_of_mem _ e)
    simp [stripUnderGo, hc, hp, stripUnderGo_id r c hc hr]

/-- **stripUnder_id.** -/
theorem stripUnder_id (cs : List Char) (h : '_' ∉ cs) : stripUnder cs = some cs :=
  stripUnderGo_id cs _ (by decide) h

theorem stripUnderGo_filter : ∀ (cs : List Char) (prev : Char) (t : List Char),
    stripUnderGo prev cs = some t → t = cs.filter (· ≠ '_')
  | [], prev, t, h => by
    unfold stripUnderGo at h
    split at h
    · cases h
    · cases h; rfl
  | c :: r, prev, t, h => by
    unfold stripUnderGo at h
    split at h
    · rename_i hc
      subst hc
      split at h
      · simpa using stripUnderGo_filter r _ t h
      · cases h
    · rename_i hc
      split at h
      · cases h
      · cases hrr : stripUnderGo c r with
        | none => simp [hrr] at h
        | some t' =>
          simp [hrr] at h
          subst h
          simp [hc, stripUnderGo_filter r c t' hrr]

/-- **stripUnder_filter.** -/
theorem stripUnder_filter (cs t : List Char) (h : stripUnder cs = some t) : t = cs.filter (· ≠ '_') :=
  stripUnderGo_filter cs _ t h

theorem stripUnderGo_trailing : ∀ (cs : List Char) (prev : Char), stripUnderGo prev (cs ++ ['_']) = none
  | [], prev => by simp [stripUnderGo]
  | c :: r, prev => by
    simp only [List.cons_append]
    unfold stripUnderGo
    split
    · split
      · exact stripUnderGo_trailing r _
      · rfl
    · split
      · rfl
      · rw [stripUnderGo_trailing r c]; rfl

/-- **stripUnder_trailing.** `float("1_")` raises. -/
theorem stripUnder_trailing (cs : List Char) : stripUnder (cs ++ ['_']) = none := stripUnderGo_trailing cs _

/-- **stripUnder_leading.** `float("_1")` raises. -/
theorem stripUnder_leading (cs : List Char) : stripUnder ('_' :: cs) = none := by
  simp [stripUnder, stripUnderGo, isDigit]

theorem parseLitU_eq (cs : List Char) (h : '_' ∉ cs) : parseLitU cs = parseLit cs := by
  simp [parseLitU, stripUnder_id cs h]

/-- **parseBytesU_conservative.** -/
theorem parseBytesU_conservative (s : String) (h : '_' ∉ s.toList) : parseBytesU s = parseBytes s := by
  have hf : '_' ∉ s.toList.filter (· ≠ ' ') := fun e => h (List.mem_filter.mp e).1
  have hcs : '_' ∉ (if (s.toList.filter (· ≠ ' ')).any isDigit then s.toList.filter (· ≠ ' ')
      else '1' :: s.toList.filter (· ≠ ' ')) := by
    split
    · exact hf
    · intro e
      cases List.mem_cons.mp e with
      | inl e => exact absurd e (by decide)
      | inr e => exact hf e
  unfold parseBytesU parseBytes
  simp only [splitUnit]
  rw [parseLitU_eq _ (fun e => hcs (List.mem_of_mem_take e))]
  rfl

/-- **parse_bytes_units_underscore.** `parse_bytes_units` with digit separators in the numeric prefix. -/
theorem parse_bytes_units_underscore (u : String) (m : Nat) (hrow : (u, m) ∈ byteSizes)
    (pre suf t : List Char) (c : Char) (l : Lit)
    (hcase : String.ofList (lowerL suf) = u) (hsuf : suf.all isAlpha = true) (hc : isAlpha c = false)
    (hdig : (pre ++ c :: suf).any isDigit = true) (hsp : ' ' ∉ pre ++ c :: suf)
    (hstrip : stripUnder (pre ++ [c]) = some t) (hlit : parseLit t = some l) :
    parseBytesU (String.ofList (pre ++ c :: suf)) =
      .ok (if l.neg then -(((mulR l.toDy (natToDy m)).floor : Nat) : Int) else ((mulR l.toDy (natToDy m)).floor : Nat)) := by
  unfold parseBytesU
  have hfil : (pre ++ c :: suf).filter (· ≠ ' ') = pre ++ c :: suf := by
    apply List.filter_eq_self.mpr
    intro x hx
    simp only [ne_eq, decide_not, Bool.not_eq_eq_eq_not, Bool.not_true, decide_eq_false_iff_not]
    intro e; subst e; exact hsp hx
  simp only [String.toList_ofList, hfil, hdig, if_true, splitUnit_append pre suf c hsuf hc, parseLitU, hstrip,
    Option.bind_some, hlit, hcase, lookup_of_mem byteSizes byteSizes_nodup u m hrow]

/-- non-vacuity: `float("1_0.5_0") = 10.5`; refused placements -/
example : parseBytesU "1_0.5_0kIb" = .ok 10752 := by decide
example : parseBytesU "1__0kB" = .badNumber := by decide
example : parseBytesU "1_.5kB" = .badNumber := by decide
example : parseBytesU "1_e3" = .badNumber := by decide

end Dask.C18
