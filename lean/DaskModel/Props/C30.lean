import DaskModel.Model.ArrayExpr
import DaskModel.Lemmas.TreeDepth
/-!
# C30 — the array expression engine preserves array semantics  (**partial**)

Model: `AE` (1-d integer arrays; leaf, unary neg/abs/square, binary add/sub/mul/maximum (array∘array and array∘scalar),
slice, rechunk, concat, finalize) with the NumPy
denotation `den` and the lazily reported `chunks`.  Proved:
* `chunks_sum` — whenever an expression denotes a value, its reported chunks sum to the length of that value
  (`refine_sum`, `sliceChunks_sum` are the chunk-arithmetic lemmas);
* `step_sound` — every rule the engine has in this tree (rechunk elision, FinalizeCompute → operand / rechunk-to-one-block,
  Elemwise operand alignment through `unify_chunks_expr`) preserves `den` (hence values and shape), and
  `step_chunks` — also the reported chunks;
* `parStep_sound` — a whole optimizer pass accepted by the executable checker `parStep` preserves `den`;
  `chain_sound` — so does any finite sequence of passes (`fixpoint_sound`);
* sound rules the engine does *not* have here (for when it gets them): `rechunk_rechunk_collapse`,
  `slice_un_pushdown`, `slice_bin_pushdown`.
Partial: only this node subset is modelled (n-d arrays, reductions, map_blocks, stack, broadcasting are
validated differentially against NumPy and the classic engine); the tie checks every observed pass with `parStep`.
-/
namespace Dask.C30
open Dask.ArrayExpr

theorem isum_cons (a : Nat) (as : List Nat) : isum (a :: as) = a + isum as := rfl
theorem isum_append (as bs : List Nat) : isum (as ++ bs) = isum as + isum bs := by
  induction as with
  | nil => simp [isum]
  | cons a as ih => simp only [List.cons_append, isum_cons, ih]; omega

/-- the common refinement has the same total length -/
theorem refine_sum : ∀ (fuel : Nat) (as bs : List Nat), as.length + bs.length ≤ fuel → isum as = isum bs →
    isum (refine fuel as bs) = isum as := by
  intro fuel
  induction fuel with
  | zero =>
    intro as bs h _
    have : as = [] := by cases as <;> simp_all
    subst this; rfl
  | succ fuel ih =>
    intro as bs h hs
    cases as with
    | nil => rfl
    | cons a as =>
      cases bs with
      | nil => rfl
      | cons b bs =>
        simp only [refine]
        simp only [isum_cons] at hs
        simp only [List.length_cons] at h
        split
        · rename_i hab
          subst hab
          rw [isum_cons, ih as bs (by omega) (by omega), isum_cons]
        · split
          · rename_i _ hlt
            rw [isum_cons, ih as ((b - a) :: bs) (by simp; omega) (by rw [isum_cons]; omega), isum_cons]
          · rename_i hne hnlt
            rw [isum_cons, ih ((a - b) :: as) bs (by simp; omega) (by rw [isum_cons]; omega), isum_cons, isum_cons]
            omega

theorem refine'_sum (as bs : List Nat) (h : isum as = isum bs) : isum (refine' as bs) = isum as :=
  refine_sum _ as bs (Nat.le_refl _) h

theorem refine_self : ∀ (fuel : Nat) (as : List Nat), as.length + as.length ≤ fuel → refine fuel as as = as := by
  intro fuel
  induction fuel with
  | zero => intro as h; cases as <;> simp_all [refine]
  | succ fuel ih =>
    intro as h
    cases as with
    | nil => rfl
    | cons a as => simp only [refine, if_true]; rw [ih as (by simp at h; omega)]

theorem refine'_self (as : List Nat) : refine' as as = as := refine_self _ as (Nat.le_refl _)

theorem sliceChunksAux_sum (s e : Nat) : ∀ (cs : List Nat) (off : Nat),
    isum (sliceChunksAux s e off cs) = min (off + isum cs) e - max off s := by
  intro cs
  induction cs with
  | nil => intro off; simp [sliceChunksAux, isum]; omega
  | cons c cs ih =>
    intro off
    simp only [sliceChunksAux, isum_cons]
    split
    · rw [isum_cons, ih]; omega
    · rw [ih]; omega

theorem sliceChunks_sum (s e : Nat) (cs : List Nat) :
    isum (sliceChunks s e cs) = min (isum cs) e - s := by
  have h := sliceChunksAux_sum s e cs 0
  unfold sliceChunks
  split
  · rename_i h0
    rw [h0] at h
    simp only [isum, List.foldr_nil] at h
    simp only [isum, List.foldr_cons, List.foldr_nil]
    omega
  · rw [h]; simp

/-- **chunks_sum**: the lazily reported chunks always add up to the length of the denoted value -/
theorem chunks_sum : ∀ (e : AE) (xs : List Int), den e = some xs → isum (chunks e) = xs.length := by
  intro e
  induction e with
  | leaf d c =>
    intro xs h
    simp only [den] at h
    split at h
    · rename_i hc; injection h with h; subst h; exact hc
    · simp at h
  | un op a ih =>
    intro xs h
    simp only [den] at h
    cases ha : den a with
    | none => simp [ha] at h
    | some ys =>
      simp only [ha, Option.map_some, Option.some.injEq] at h
      subst h
      simp [chunks, ih ys ha]
  | binS op a sc ih =>
    intro xs h
    simp only [den] at h
    cases ha : den a with
    | none => simp [ha] at h
    | some ys =>
      simp only [ha, Option.map_some, Option.some.injEq] at h
      subst h
      simp [chunks, ih ys ha]
  | bin op a b iha ihb =>
    intro xs h
    simp only [den] at h
    cases ha : den a with
    | none => simp [ha] at h
    | some ys =>
      cases hb : den b with
      | none => simp [ha, hb] at h
      | some zs =>
        simp only [ha, hb] at h
        split at h
        · rename_i hl
          injection h with h; subst h
          simp only [chunks]
          rw [refine'_sum _ _ (by rw [iha ys ha, ihb zs hb, hl]), iha ys ha]
          simp [hl]
        · simp at h
  | slice s e a ih =>
    intro xs h
    simp only [den] at h
    cases ha : den a with
    | none => simp [ha] at h
    | some ys =>
      simp only [ha, Option.map_some, Option.some.injEq] at h
      subst h
      simp only [chunks, sliceChunks_sum, ih ys ha, List.length_take, List.length_drop]
      omega
  | rechunk c a ih =>
    intro xs h
    simp only [den] at h
    cases ha : den a with
    | none => simp [ha] at h
    | some ys =>
      simp only [ha] at h
      split at h
      · rename_i hc; injection h with h; subst h; exact hc
      · simp at h
  | concat a b iha ihb =>
    intro xs h
    simp only [den] at h
    cases ha : den a with
    | none => simp [ha] at h
    | some ys =>
      cases hb : den b with
      | none => simp [ha, hb] at h
      | some zs =>
        simp only [ha, hb, Option.some.injEq] at h
        subst h
        simp [chunks, isum_append, iha ys ha, ihb zs hb]
  | finalize a ih =>
    intro xs h
    simp only [den] at h
    simp only [chunks, isum, List.foldr_cons, List.foldr_nil]
    have := ih xs h
    unfold isum at this
    omega

/-- rechunking to chunks of the right total length does not change the value -/
theorem den_rechunk_valid (c : List Nat) (a : AE) (h : ∀ xs, den a = some xs → isum c = xs.length) :
    den (.rechunk c a) = den a := by
  simp only [den]
  cases ha : den a with
  | none => rfl
  | some xs => simp [h xs ha]

theorem den_wrap (c : List Nat) (x : AE) (h : ∀ xs, den x = some xs → isum c = xs.length) :
    den (wrap c x) = den x := by
  unfold wrap
  split
  · rfl
  · exact den_rechunk_valid c x h

/-- **step_sound**: every rewrite rule of the engine (applied at the root) preserves the denotation -/
theorem step_sound (e r : AE) (h : r ∈ rootRewrites e) : den r = den e := by
  cases e with
  | rechunk c a =>
    simp only [rootRewrites] at h
    split at h
    · rename_i hc
      simp only [List.mem_cons, List.mem_nil_iff, or_false] at h
      rcases h with rfl | rfl
      · rfl
      · subst hc
        exact (den_rechunk_valid _ r (fun xs hx => chunks_sum r xs hx)).symm
    · simp only [List.mem_cons, List.mem_nil_iff, or_false] at h; subst h; rfl
  | finalize a =>
    simp only [rootRewrites, List.mem_cons, List.mem_nil_iff, or_false] at h
    rcases h with rfl | rfl
    · rfl
    · split
      · rfl
      · show den (.rechunk _ a) = den a
        exact den_rechunk_valid _ a (fun xs hx => by
          simp only [isum, List.foldr_cons, List.foldr_nil]
          have := chunks_sum a xs hx
          unfold isum at this
          omega)
  | bin op a b =>
    simp only [rootRewrites, List.mem_cons, List.mem_nil_iff, or_false] at h
    rcases h with rfl | rfl
    · rfl
    · -- alignment of both operands to the common refinement
      simp only [den]
      cases ha : den a with
      | none =>
        have : den (wrap (refine' (chunks a) (chunks b)) a) = none := by
          unfold wrap; split
          · exact ha
          · simp [den, ha]
        rw [this]
      | some xs =>
        cases hb : den b with
        | none =>
          have : den (wrap (refine' (chunks a) (chunks b)) b) = none := by
            unfold wrap; split
            · exact hb
            · simp [den, hb]
          rw [this]
          cases den (wrap (refine' (chunks a) (chunks b)) a) <;> rfl
        | some ys =>
          by_cases hl : xs.length = ys.length
          · have hs : isum (chunks a) = isum (chunks b) := by
              rw [chunks_sum a xs ha, chunks_sum b ys hb, hl]
            have hc : isum (refine' (chunks a) (chunks b)) = xs.length := by
              rw [refine'_sum _ _ hs, chunks_sum a xs ha]
            rw [den_wrap _ a (fun zs hz => by rw [ha] at hz; injection hz with hz; subst hz; exact hc),
              den_wrap _ b (fun zs hz => by rw [hb] at hz; injection hz with hz; subst hz; rw [hc, hl]),
              ha, hb]
          · -- lengths differ: both sides raise
            simp only [hl, if_false]
            have h1 : ∀ zs, den (wrap (refine' (chunks a) (chunks b)) a) = some zs → zs = xs := by
              intro zs hz
              unfold wrap at hz
              split at hz
              · rw [ha] at hz; injection hz with hz; exact hz.symm
              · simp only [den, ha] at hz
                split at hz
                · injection hz with hz; exact hz.symm
                · simp at hz
            have h2 : ∀ zs, den (wrap (refine' (chunks a) (chunks b)) b) = some zs → zs = ys := by
              intro zs hz
              unfold wrap at hz
              split at hz
              · rw [hb] at hz; injection hz with hz; exact hz.symm
              · simp only [den, hb] at hz
                split at hz
                · injection hz with hz; exact hz.symm
                · simp at hz
            cases h3 : den (wrap (refine' (chunks a) (chunks b)) a) with
            | none => rfl
            | some zs =>
              cases h4 : den (wrap (refine' (chunks a) (chunks b)) b) with
              | none => rfl
              | some ws =>
                have := h1 zs h3; have := h2 ws h4
                subst_vars
                simp [hl]
  | leaf d c => simp only [rootRewrites, List.mem_cons, List.mem_nil_iff, or_false] at h; subst h; rfl
  | un op a => simp only [rootRewrites, List.mem_cons, List.mem_nil_iff, or_false] at h; subst h; rfl
  | binS op a sc => simp only [rootRewrites, List.mem_cons, List.mem_nil_iff, or_false] at h; subst h; rfl
  | slice s t a => simp only [rootRewrites, List.mem_cons, List.mem_nil_iff, or_false] at h; subst h; rfl
  | concat a b => simp only [rootRewrites, List.mem_cons, List.mem_nil_iff, or_false] at h; subst h; rfl

theorem step2_sound (e r : AE) (h : r ∈ rootRewrites2 e) : den r = den e := by
  unfold rootRewrites2 at h
  obtain ⟨m, hm, hr⟩ := List.mem_flatMap.mp h
  rw [step_sound m r hr, step_sound e m hm]

/-- **parStep_sound**: a whole optimizer pass accepted by the checker preserves the denotation
    (values and shape), whatever the engine rewrote and wherever in the tree. -/
theorem parStep_sound : ∀ (e' e : AE), parStep e e' = true → den e' = den e := by
  intro e'
  induction e' with
  | leaf d c =>
    intro e h
    simp only [parStep, List.any_eq_true] at h
    obtain ⟨r, hr, hm⟩ := h
    cases r <;> simp at hm
    obtain ⟨rfl, rfl⟩ := hm
    exact step2_sound e _ hr
  | un op' a' ih =>
    intro e h
    simp only [parStep, List.any_eq_true] at h
    obtain ⟨r, hr, hm⟩ := h
    cases r <;> simp at hm
    rename_i op a
    obtain ⟨rfl, hm⟩ := hm
    rw [← step2_sound e _ hr]
    simp only [den, ih a hm]
  | binS op' a' s' ih =>
    intro e h
    simp only [parStep, List.any_eq_true] at h
    obtain ⟨r, hr, hm⟩ := h
    cases r <;> simp at hm
    rename_i op a sc
    obtain ⟨⟨rfl, rfl⟩, hm⟩ := hm
    rw [← step2_sound e _ hr]
    simp only [den, ih a hm]
  | bin op' a' b' iha ihb =>
    intro e h
    simp only [parStep, List.any_eq_true] at h
    obtain ⟨r, hr, hm⟩ := h
    cases r <;> simp at hm
    rename_i op a b
    obtain ⟨⟨rfl, h1⟩, h2⟩ := hm
    rw [← step2_sound e _ hr]
    simp only [den, iha a h1, ihb b h2]
  | slice s' t' a' ih =>
    intro e h
    simp only [parStep, List.any_eq_true] at h
    obtain ⟨r, hr, hm⟩ := h
    cases r <;> simp at hm
    rename_i s t a
    obtain ⟨⟨rfl, rfl⟩, hm⟩ := hm
    rw [← step2_sound e _ hr]
    simp only [den, ih a hm]
  | rechunk c' a' ih =>
    intro e h
    simp only [parStep, List.any_eq_true] at h
    obtain ⟨r, hr, hm⟩ := h
    cases r <;> simp at hm
    rename_i c a
    obtain ⟨rfl, hm⟩ := hm
    rw [← step2_sound e _ hr]
    simp only [den, ih a hm]
  | concat a' b' iha ihb =>
    intro e h
    simp only [parStep, List.any_eq_true] at h
    obtain ⟨r, hr, hm⟩ := h
    cases r <;> simp at hm
    rename_i a b
    rw [← step2_sound e _ hr]
    simp only [den, iha a hm.1, ihb b hm.2]
  | finalize a' ih =>
    intro e h
    simp only [parStep, List.any_eq_true] at h
    obtain ⟨r, hr, hm⟩ := h
    cases r <;> simp at hm
    rename_i a
    rw [← step2_sound e _ hr]
    simp only [den, ih a hm]

/-- a trace of passes, each accepted by the checker -/
def chainOk : AE → List AE → Bool
  | _, [] => true
  | e, e' :: rest => parStep e e' && chainOk e' rest

/-- **chain_sound** (`fixpoint_sound`): any finite sequence of accepted passes preserves the denotation -/
theorem chain_sound : ∀ (passes : List AE) (e : AE), chainOk e passes = true →
    den ((e :: passes).getLast (by simp)) = den e := by
  intro passes
  induction passes with
  | nil => intro e _; rfl
  | cons e' rest ih =>
    intro e h
    simp only [chainOk, Bool.and_eq_true] at h
    rw [List.getLast_cons (by simp), ih e' h.2, parStep_sound e' e h.1]

/-- the rules also leave the reported chunks unchanged (a finalized 1-d array reports one block `[n]`) -/
theorem step_chunks (e r : AE) (h : r ∈ rootRewrites e)
    (hfin : ∀ a, e = .finalize a → (chunks a).length ≤ 1 → ∃ x, chunks a = [x]) :
    chunks r = chunks e := by
  cases e with
  | rechunk c a =>
    simp only [rootRewrites] at h
    split at h
    · rename_i hc
      simp only [List.mem_cons, List.mem_nil_iff, or_false] at h
      rcases h with rfl | rfl
      · rfl
      · simp [chunks, hc]
    · simp only [List.mem_cons, List.mem_nil_iff, or_false] at h; subst h; rfl
  | finalize a =>
    simp only [rootRewrites, List.mem_cons, List.mem_nil_iff, or_false] at h
    rcases h with rfl | rfl
    · rfl
    · split
      · rename_i hl
        obtain ⟨x, hx⟩ := hfin a rfl hl
        simp [chunks, hx, isum]
      · rfl
  | bin op a b =>
    simp only [rootRewrites, List.mem_cons, List.mem_nil_iff, or_false] at h
    rcases h with rfl | rfl
    · rfl
    · have hw : ∀ x, chunks (wrap (refine' (chunks a) (chunks b)) x) = refine' (chunks a) (chunks b) := by
        intro x; unfold wrap; split
        · assumption
        · rfl
      simp only [chunks, hw, refine'_self]
  | leaf d c => simp only [rootRewrites, List.mem_cons, List.mem_nil_iff, or_false] at h; subst h; rfl
  | un op a => simp only [rootRewrites, List.mem_cons, List.mem_nil_iff, or_false] at h; subst h; rfl
  | binS op a sc => simp only [rootRewrites, List.mem_cons, List.mem_nil_iff, or_false] at h; subst h; rfl
  | slice s t a => simp only [rootRewrites, List.mem_cons, List.mem_nil_iff, or_false] at h; subst h; rfl
  | concat a b => simp only [rootRewrites, List.mem_cons, List.mem_nil_iff, or_false] at h; subst h; rfl

/-! ## Sound rules the engine does not (yet) have in this tree -/

/-- `Rechunk(Rechunk(x, c₁), c₂) → Rechunk(x, c₂)` -/
theorem rechunk_rechunk_collapse (c₁ c₂ : List Nat) (a : AE) (h : isum c₁ = isum c₂) :
    den (.rechunk c₂ (.rechunk c₁ a)) = den (.rechunk c₂ a) := by
  simp only [den]
  cases den a with
  | none => rfl
  | some xs =>
    by_cases h2 : isum c₂ = xs.length
    · simp [h2, h]
    · simp [h2, h]

/-- slice pushdown through a unary elementwise op -/
theorem slice_un_pushdown (op : UnOp) (s e : Nat) (a : AE) : den (.slice s e (.un op a)) = den (.un op (.slice s e a)) := by
  simp only [den]
  cases den a with
  | none => rfl
  | some xs => simp [List.map_drop, List.map_take]

/-- slice pushdown through a binary elementwise op; the guard (operands of equal length) is necessary:
    without it the unsliced sum raises while the sliced one may not -/
theorem slice_bin_pushdown (op : BinOp) (s e : Nat) (a b : AE)
    (hl : ∀ xs ys, den a = some xs → den b = some ys → xs.length = ys.length) :
    den (.slice s e (.bin op a b)) = den (.bin op (.slice s e a) (.slice s e b)) := by
  simp only [den]
  cases ha : den a with
  | none => rfl
  | some xs =>
    cases hb : den b with
    | none => rfl
    | some ys =>
      have hl' := hl xs ys ha hb
      simp [hl', List.length_take, List.length_drop, List.drop_zipWith, List.take_zipWith]

/-! ## Reductions: the depth loop of the engine's `_tree_reduce` (`_array_expr/_reductions.py`)

The loop is the same as in the classic engine (`Model/ArrayReduce.lean`: `treeDepth`); the harness diffs the number of
`PartialReduce` levels and the key structure of every level of the real expression against `treeDepth` / `treePlan`
(section `tree`), and `Props/C22.lean` proves that a tree with that depth and that key structure returns the fold of all
blocks.  Here: the depth suffices on every reduced axis, and the variant that keeps only the last axis' value does not. -/

open Dask.ArrayReduce in
/-- **tree_depth_suffices**: with per-axis group sizes `k_i ≥ 2`, every reduced axis `i` satisfies
    `n_i ≤ k_i ^ depth` for the depth the loop computes — so `depth - 1` combine levels leave at most `k_i` blocks on every
    axis and the final aggregate level writes each output key once. -/
theorem tree_depth_suffices (ks ns : List Nat) (hlen : ks.length = ns.length) (hk : ∀ k ∈ ks, 2 ≤ k)
    (i : Nat) (hi : i < ks.length) (hj : i < ns.length) :
    ns[i] ≤ ks[i] ^ treeDepth (ks.map some) ns :=
  axis_le_pow_depthLoop ks ns 1 hlen hk i hi hj

open Dask.ArrayReduce in
/-- non-vacuity: a 6 × 2 block grid with 4 blocks per group and axis: two levels -/
example : treeDepth [some 4, some 4] [6, 2] = 2 ∧ (6 : Nat) ≤ 4 ^ treeDepth [some 4, some 4] [6, 2] := by decide

open Dask.ArrayReduce in
/-- **last_axis_depth_refuted** (independently seeded defect): `depth = max(1, ceil(log(n, k)))` without the running
    maximum gives depth 1 for the same grid, and `6 ≤ 4 ^ 1` fails: the aggregate level still has two groups on axis 0,
    both written to the same output key (`Props/C22.lean`: `treeDepthLast_refuted` evaluates the tree: 4 instead of 12). -/
theorem last_axis_depth_refuted :
    treeDepthLast [some 4, some 4] [6, 2] = 1 ∧ ¬ ((6 : Nat) ≤ 4 ^ treeDepthLast [some 4, some 4] [6, 2]) := by decide

/-! ## Non-vacuity of the theorems above (concrete expressions satisfying the hypotheses) -/

/-- `x[1:4] + y` with `x` chunked (2, 3), `y` chunked (1, 2): denotes a value, chunks = common refinement (1, 1, 1)… -/
example : den (.bin .add (.slice 1 4 (.leaf [1, 2, 3, 4, 5] [2, 3])) (.leaf [10, 20, 30] [1, 2])) = some [12, 23, 34] ∧
    chunks (.bin .add (.slice 1 4 (.leaf [1, 2, 3, 4, 5] [2, 3])) (.leaf [10, 20, 30] [1, 2])) = [1, 2] := by decide

/-- `chunks_sum`, `step_sound`, `step_chunks`, `parStep_sound` on a finalized sum of differently chunked operands: the
    lowering wraps one operand in a rechunk, finalize becomes a rechunk to one block -/
example :
    let e := AE.finalize (.bin .add (.leaf [1, 2, 3] [2, 1]) (.leaf [10, 20, 30] [1, 2]))
    let e' := AE.rechunk [3] (.bin .add (.rechunk [1, 1, 1] (.leaf [1, 2, 3] [2, 1])) (.rechunk [1, 1, 1] (.leaf [10, 20, 30] [1, 2])))
    den e = some [11, 22, 33] ∧ parStep e e' = true ∧ den e' = den e ∧ chunks e' = chunks e ∧ chainOk e [e'] = true := by decide

/-- `rootRewrites` really offers the rewrites (the rules are not vacuous) -/
example : rootRewrites (.rechunk [2, 1] (.leaf [1, 2, 3] [2, 1])) = [.rechunk [2, 1] (.leaf [1, 2, 3] [2, 1]), .leaf [1, 2, 3] [2, 1]] := by
  decide
example : rootRewrites (.finalize (.leaf [1, 2, 3] [2, 1])) = [.finalize (.leaf [1, 2, 3] [2, 1]), .rechunk [3] (.leaf [1, 2, 3] [2, 1])] := by
  decide

/-- `refine_sum` / `rechunk_rechunk_collapse` / `slice_bin_pushdown` hypotheses are satisfiable; the pushdown guard matters -/
example : refine' [2, 3] [1, 4] = [1, 1, 3] ∧ isum [2, 3] = isum [1, 4] := by decide
example : den (.rechunk [3] (.rechunk [1, 2] (.leaf [1, 2, 3] [2, 1]))) = some [1, 2, 3] := by decide
example : den (.slice 0 2 (.bin .add (.leaf [1, 2, 3] [3]) (.leaf [1, 2] [2]))) = none ∧
    den (.bin .add (.slice 0 2 (.leaf [1, 2, 3] [3])) (.slice 0 2 (.leaf [1, 2] [2]))) = some [2, 4] := by decide

end Dask.C30
