import DaskModel.Lemmas.ArrOverlapNdValue
import DaskModel.Lemmas.ArrOverlapNdGather
/-!
# C26 extension — the N-d overlap as the product of the 1-d index maps

`Props/C26.lean` proves trim ∘ overlap = id, map_overlap = the global function and sliding windows on ONE axis.  Here the
N-d operation: per-axis depths (asymmetric for boundary 'none'), a different boundary kind per axis, corner blocks.

Model (`Model/ArrOverlapNd.lean`): an n-d array is a function from index lists (`Nd`); what `overlap_internal` /
`overlap` / `_trim` build are separable gathers `X[np.ix_(L₁,…,L_k)]` whose per-axis source lists are the 1-d models of
`Model/ArrOverlap.lean` (`overlapBlocks`, `overlapWithBoundary` over `padPositions`).  Hypothesis everywhere: `Axis.big`,
every chunk at least as long as the depth (the guard `ensure_minimum_chunksize` establishes; shown necessary in C26).

* `overlap_1d_block`            one axis, any cell type: extended block `b` of `overlap_internal` IS the slice
                                `[lo − d⁻, hi + d⁺)` of the axis (`d⁻ = 0` for the first, `d⁺ = 0` for the last block);
* `overlap_1d_block_boundary`   the same for `overlap(x, d, boundary)`: the slice `[lo, hi + 2d)` of `padL ++ axis ++ padR`;
* `overlap_nd_block`            **the extended block `(b₁,…,b_k)` holds exactly the hyper-rectangle** `ndRect`: per axis
                                the interval `[lo_i − d_i⁻, hi_i + d_i⁺)` of the padded axis (both sides `none` when there is
                                no such block) — corners included, since every axis is cut independently;
* `overlap_nd_block_none_axis`  on a 'none' axis that interval is literally the positions `lo − d⁻, …, hi + d⁺ − 1`;
* `overlap_nd_block_content`    value level: the block is the NumPy slice `P[base₁:…, …]` of the padded global array `P`;
* `trim_overlap_nd_id`          **`_trim` of the extended block is the original block** (any mix of boundary kinds);
* `map_overlap_nd_eq_global`    **for every function local within the per-axis depths** (`winSep`: the output at a cell is
                                any `g` of the window reaching `dl_i` back and `dr_i` ahead along axis `i`, cut at the
                                ends of the array it is given), mapping it over the extended block and trimming gives,
                                cell by cell, its values on the padded global array at the block's own cells;
* `globalIdx_is_block_offset`   those cells are `pad_i + lo_i + c_i`;
* `overlap_nd_gather`           **how the code really builds the block**: ONE `concatenate_shaped` of up to 3^k pieces — per
                                axis the previous block's last `dl` cells, the block, the next block's first `dr` cells
                                (`_expand_keys_around_center` + `fractional_slice`), the pieces being the product over the
                                axes, so a corner takes a piece of its DIAGONAL neighbour — assembled cell by cell
                                (`assemble`) IS the product block `ndOverlapBlock` (no size hypothesis).
-/
namespace Dask.C26x
open Dask.ArrOverlap Dask.ArrOverlapNd

theorem overlap_1d_block {α : Type} (dl dr : Nat) (blocks : List (List α)) (b : Nat) (blk : List α)
    (hbig : ∀ x ∈ blocks, dl ≤ x.length ∧ dr ≤ x.length) (hb : blocks[b]? = some blk) :
    (overlapBlocks dl dr blocks)[b]? = some
      ((blocks.flatten.drop ((blocks.take b).flatten.length - (if b = 0 then 0 else dl))).take
        ((if b = 0 then 0 else dl) + blk.length + (if b + 1 = blocks.length then 0 else dr))) :=
  overlapBlocks_get dl dr blocks b blk hbig hb

/-- non-vacuity: chunks (3, 2, 4), depth (2, 1), block 1 = cells 1 … 5 -/
example : (overlapBlocks 2 1 [[0, 1, 2], [3, 4], [5, 6, 7, 8]])[1]? = some [1, 2, 3, 4, 5] ∧
    (([[0, 1, 2], [3, 4], [5, 6, 7, 8]].flatten.drop (3 - 2)).take (2 + 2 + 1)) = [1, 2, 3, 4, 5] := by decide

theorem overlap_1d_block_boundary {α : Type} (d : Nat) (padL padR : List α) (blocks : List (List α)) (b : Nat)
    (blk : List α) (hl : padL.length = d) (hr : d ≤ padR.length) (hbig : ∀ x ∈ blocks, d ≤ x.length)
    (hb : blocks[b]? = some blk) :
    (overlapWithBoundary d padL padR blocks)[b]? = some
      (((padL ++ blocks.flatten ++ padR).drop (blocks.take b).flatten.length).take (d + blk.length + d)) :=
  overlapWithBoundary_get d padL padR blocks b blk hl hr hbig hb

example : (overlapWithBoundary 1 [5] [1] [[1, 2], [3, 4, 5]])[1]? = some [2, 3, 4, 5, 1] ∧
    (([5] ++ [[1, 2], [3, 4, 5]].flatten ++ [1]).drop 2).take (1 + 3 + 1) = [2, 3, 4, 5, 1] := by decide

/-- **N-d: the extended block holds exactly the global hyper-rectangle.** -/
theorem overlap_nd_block (axes : List Axis) (bs : List Nat) (h : ∀ a ∈ axes, a.big) :
    ndOverlapBlock axes bs = ndRect axes bs :=
  ndOverlapBlock_eq_rect axes bs h

/-- a 2-d array, chunks ((2, 3), (2, 2)), axis 0: depth (1, 2) boundary 'none', axis 1: depth 1 'reflect' -/
def exAxes : List Axis := [⟨[2, 3], 1, 2, none⟩, ⟨[2, 2], 1, 1, some .reflect⟩]

example : ∀ a ∈ exAxes, a.big := by decide
/-- corner block (1, 0): rows 1 … 4 (one row of the upper neighbour), columns: the reflected cell 0, then 0, 1, 2 -/
example : ndOverlapBlock exAxes [1, 0] = some [[some 1, some 2, some 3, some 4], [some 0, some 0, some 1, some 2]] ∧
    ndRect exAxes [1, 0] = some [[some 1, some 2, some 3, some 4], [some 0, some 0, some 1, some 2]] ∧
    ndOverlapBlock exAxes [2, 0] = none ∧ ndRect exAxes [2, 0] = none := by decide

theorem overlap_nd_block_none_axis (a : Axis) (b : Nat) (h : a.big) (hk : a.kind = none) :
    a.rect b = a.cs[b]?.map fun len =>
      (List.range' (a.lo b - a.front b) (a.front b + len + a.back b)).map some := by
  cases hc : a.cs[b]? with
  | none => simp [Axis.rect, hc]
  | some len =>
    obtain ⟨f1, _, _, _⟩ := Axis.rect_facts a b len h hc
    unfold Axis.rect
    unfold Axis.padded Axis.base at *
    simp only [hk, hc, Option.map_some, Option.some.injEq, List.length_map, List.length_range] at f1 ⊢
    rw [← List.map_drop, ← List.map_take, List.range_eq_range', List.drop_range',
      List.take_range'_of_length_ge (by omega)]
    simp

example : exAxes[0]?.bind (·.rect 1) = some ((List.range' (2 - 1) (1 + 3 + 0)).map some) := by decide

/-- **value level: the extended block is the NumPy slice `P[base₁ : base₁+ext₁, …]` of the padded global array**
    `P = X[np.ix_(padded axes)]` (`X` = the cell at a tuple of per-axis sources — the source array, or the fill value of
    the last constant-padded axis when a source is `none`), `(baseᵢ, extᵢ) = rectSpec`. -/
theorem overlap_nd_block_content {α : Type} (X : List (Option Nat) → α) (axes : List Axis) (bs : List Nat)
    (Ls : List (List (Option Nat))) (h : ∀ a ∈ axes, a.big) (hL : ndOverlapBlock axes bs = some Ls) :
    ∃ sp, rectSpec axes bs = some sp ∧
      sepGather X Ls = (sepGather X (axes.map Axis.padded)).slice (sp.map (·.1)) (sp.map (·.2)) := by
  rw [ndOverlapBlock_eq_rect axes bs h] at hL
  obtain ⟨sp, h1, h2, h3⟩ := ndRect_slices axes bs Ls h hL
  exact ⟨sp, h1, by rw [slice_sepGather X _ _ _ h2, h3]⟩

example : rectSpec exAxes [1, 0] = some [(1, 4), (0, 4)] := by decide

/-- **N-d: trim ∘ overlap = id** — `_trim` applied to the extended block `(b₁,…,b_k)` of `overlap_internal` /
    `overlap(…, boundary)` is the original block, for any mix of per-axis depths and boundary kinds. -/
theorem trim_overlap_nd_id {α : Type} (X : List (Option Nat) → α) (axes : List Axis) (bs : List Nat)
    (Ls Bs : List (List (Option Nat))) (h : ∀ a ∈ axes, a.big) (hL : ndOverlapBlock axes bs = some Ls)
    (hB : ndBlock axes bs = some Bs) :
    trimNd axes bs (sepGather X Ls) = some (sepGather X Bs) := by
  rw [ndOverlapBlock_eq_rect axes bs h] at hL
  obtain ⟨fl, h1, _, h3, h4⟩ := trimSpec_core axes bs Ls Bs h hL hB
  unfold trimNd
  have : (sepGather X Ls).shape = Ls.map List.length := rfl
  rw [this, h1, Option.map_some, slice_sepGather X _ _ _ h3, h4]

example : ndBlock exAxes [1, 0] = some [[some 2, some 3, some 4], [some 0, some 1]] ∧
    trimSpec exAxes [1, 0] [4, 4] = some [(1, 3), (1, 2)] := by decide

/-- **N-d: `map_overlap` = the function on the padded global array.**  `winSep (deps axes) g X Ls` is the general
    function local within the per-axis depths applied to the array `X[np.ix_(Ls)]`: its output at a cell is
    `g (offset of the cell in its window) (window extents) (window cells)`, the window reaching `dl_i` cells back and
    `dr_i` ahead along axis `i`, cut where the array it is given ends.  Applied to the extended block `(b₁,…,b_k)` and
    trimmed by `_trim`, it has the block's extents and, at every cell `c` of the block, the value the same function has on
    the padded global array at that cell (`globalIdx`); outside the block's extents there is nothing. -/
theorem map_overlap_nd_eq_global {α β : Type} (g : List Nat → List Nat → List α → β) (X : List (Option Nat) → α)
    (axes : List Axis) (bs : List Nat) (Ls Bs : List (List (Option Nat))) (h : ∀ a ∈ axes, a.big)
    (hL : ndOverlapBlock axes bs = some Ls) (hB : ndBlock axes bs = some Bs) :
    ∃ T, trimNd axes bs (winSep (deps axes) g X Ls) = some T ∧ T.shape = Bs.map List.length ∧
      ∀ c, T.cell c = if coreIdx axes bs c then
          (winSep (deps axes) g X (axes.map Axis.padded)).cell (globalIdx axes bs c) else none := by
  rw [ndOverlapBlock_eq_rect axes bs h] at hL
  obtain ⟨fl, h1, h2, h3, h4⟩ := trimSpec_core axes bs Ls Bs h hL hB
  refine ⟨(winSep (deps axes) g X Ls).slice (fl.map (·.1)) (fl.map (·.2)), ?_, ?_, ?_⟩
  · unfold trimNd
    have : (winSep (deps axes) g X Ls).shape = Ls.map List.length := rfl
    rw [this, h1, Option.map_some]
  · show fl.map (·.2) = Bs.map List.length
    rw [← h4, sliceLists_lengths Ls _ _ h3]
  · intro c
    obtain ⟨i1, i2⟩ := coreSpec_idx axes bs c fl h2
    show (if within c (fl.map (·.2)) then (winSep (deps axes) g X Ls).cell (addIdx (fl.map (·.1)) c) else none) = _
    rw [i1]
    by_cases hc : coreIdx axes bs c = true
    · rw [if_pos hc, if_pos hc, i2 hc]
      show Option.map _ (winAxes (deps axes) Ls (localIdx axes bs c)) = Option.map _ (winAxes _ _ _)
      rw [winAxes_rect axes bs c Ls h hL hc]
    · rw [if_neg hc, if_neg hc]

/-- the cells compared are the block's own: `pad_i + lo_i + c_i` along every axis (`pad_i` = the depth on an axis with
    a boundary kind, 0 on a 'none' axis) -/
theorem globalIdx_is_block_offset : ∀ (axes : List Axis) (bs c : List Nat), (∀ a ∈ axes, a.big) →
    coreIdx axes bs c = true →
    globalIdx axes bs c = blockOffsetIdx axes bs c := by
  intro axes
  induction axes with
  | nil => intro bs c _ _; cases bs <;> cases c <;> rfl
  | cons a as ih =>
    intro bs c h hc
    cases bs with
    | nil => rfl
    | cons b bs =>
      cases c with
      | nil => rfl
      | cons c cs =>
        simp only [coreIdx, Bool.and_eq_true] at hc
        simp only [globalIdx, blockOffsetIdx, ih bs cs (fun x hx => h x (by simp [hx])) hc.2, List.cons.injEq, and_true]
        cases hlen : a.cs[b]? with
        | none => simp [hlen] at hc
        | some len => rw [Axis.base_front a b len (h a (by simp)) hlen]

/-- non-vacuity of `map_overlap_nd_eq_global`: the window sum over a position-coded 2-d array, corner block (1, 0) -/
example :
    let g : List Nat → List Nat → List Nat → Nat := fun _ _ cells => cells.sum
    let X : List (Option Nat) → Nat := fun src => (src.map fun s => s.getD 100).foldl (fun acc v => 10 * acc + v) 0
    (winSep (deps exAxes) g X [[some 1, some 2, some 3, some 4], [some 0, some 0, some 1, some 2]]).cell [1, 1]
      = (winSep (deps exAxes) g X (exAxes.map Axis.padded)).cell [2, 1] ∧
    globalIdx exAxes [1, 0] [0, 0] = [2, 1] ∧ localIdx exAxes [1, 0] [0, 0] = [1, 1] ∧
    (winSep (deps exAxes) g X (exAxes.map Axis.padded)).cell [2, 1] = some 304 := by decide

/-- **The real task of an extended block** (`ArrayOverlapLayer._construct_graph`): `ndPieces` are the per-axis pieces,
    `ndGather` places the piece at grid position `(p₁,…,p_k)` — the gather of `segs₁[p₁], …, segs_k[p_k]`, cut from the
    neighbour `(b₁+p₁−1, …)`, a diagonal one when several `pᵢ ≠` centre — at the offsets `concatenate_shaped` computes
    (`locate`).  The assembled array is the separable gather of the per-axis concatenations, which are the model's 1-d
    extended blocks: the N-d overlap IS the product of the 1-d overlaps.  With `overlap_nd_block`: it is the
    hyper-rectangle. -/
theorem overlap_nd_gather {α : Type} (X : List (Option Nat) → α) (axes : List Axis) (bs : List Nat)
    (segs : List (List (List (Option Nat)))) (hp : ndPieces axes bs = some segs) :
    ndOverlapBlock axes bs = some (segs.map List.flatten) ∧
    ndGather X segs = sepGather X (segs.map List.flatten) := by
  refine ⟨?_, ndGather_eq X segs⟩
  rw [ndPieces_flatten, hp]
  rfl

/-- corner block (1, 0) of `exAxes`: 2 × 3 pieces (upper neighbour's last row | rows; reflected pad | columns | right
    neighbour's first column); the piece at grid (0, 2) comes from the diagonal neighbour -/
example : ndPieces exAxes [1, 0] = some [[[some 1], [some 2, some 3, some 4]], [[some 0], [some 0, some 1], [some 2]]] := by
  decide
example : ndPieces exAxes [2, 0] = none ∧ ndPieces exAxes [0, 1] =
    some [[[some 0, some 1], [some 2, some 3]], [[some 1], [some 2, some 3], [some 3]]] := by decide

end Dask.C26x
