import DaskModel.Props.C46Time
import DaskModel.Model.OverlapTime2
/-!
# C46 (extension round): centered and forward-looking TIME windows

`time_window_centered_local_eq_global` / `time_after_local_eq_global`: the lowered `MapOverlap` with a timedelta `after`
(append tasks over the immediate neighbour with `2 * after`, `_head_timedelta_nonempty`, the validation of
`_combined_parts`, `overlap_chunk` with `before = prev_part_length`, `after = next_part_length`), alone or together with the
timedelta `before` machinery of `C46Time`, computes every row function that is local within `(t - b, t + a)`
(`b ≤ before`, `a ≤ after`) exactly as on the concatenated frame WHENEVER IT DOES NOT RAISE, for every partitioning with
truthful divisions; `mapOverlapTime2_isSome_iff` says exactly when it raises (`afterOK`), `time_window_centered_accepted`
is the total form on the accepted partitionings.
Refutation witnesses: without the empty-neighbour refusal (the code before fix 52c39fa) and without the validation of
`_combined_parts` the immediate neighbour alone is consulted although it is narrower than the window, and rows of the
partition after it are silently left out.
-/
namespace Dask.C46X
open Dask.Overlap Dask.OverlapTime Dask.OverlapTime2 Dask.C46T

variable {α β : Type}

theorem twin2_length (b : Option Int) (a : Int) (g : List (TRow α) → TRow α → List (TRow α) → β)
    (pre xs post : List (TRow α)) : (twin2 b a g pre xs post).length = xs.length := by
  induction xs generalizing pre with
  | nil => rfl
  | cons x rest ih => simp [twin2, ih]

theorem twin2_append (b : Option Int) (a : Int) (g : List (TRow α) → TRow α → List (TRow α) → β)
    (pre xs ys post : List (TRow α)) :
    twin2 b a g pre (xs ++ ys) post = twin2 b a g pre xs (ys ++ post) ++ twin2 b a g (pre ++ xs) ys post := by
  induction xs generalizing pre with
  | nil => simp [twin2]
  | cons x rest ih => simp [twin2, ih, List.append_assoc]

theorem actx_append (a t : Int) (l r : List (TRow α)) : actx a t (l ++ r) = actx a t l ++ actx a t r := by
  simp [actx, List.filter_append]

theorem bctx_append (b : Option Int) (t : Int) (l r : List (TRow α)) : bctx b t (l ++ r) = bctx b t l ++ bctx b t r := by
  cases b with
  | none => rfl
  | some W => simp [bctx, tctx_append]

theorem bctx_nil (b : Option Int) (t : Int) : bctx b t ([] : List (TRow α)) = [] := by
  cases b <;> rfl

/-- only the rows of the two contexts inside the windows of the processed rows matter -/
theorem twin2_ctx (b : Option Int) (a : Int) (g : List (TRow α) → TRow α → List (TRow α) → β) (xs : List (TRow α)) :
    ∀ (pre pre' post post' : List (TRow α)),
      (∀ x ∈ xs, bctx b x.1 pre = bctx b x.1 pre' ∧ actx a x.1 post = actx a x.1 post') →
      twin2 b a g pre xs post = twin2 b a g pre' xs post' := by
  induction xs with
  | nil => intros; rfl
  | cons x rest ih =>
    intro pre pre' post post' h
    simp only [twin2]
    rw [actx_append, actx_append, (h x (by simp)).1, (h x (by simp)).2]
    congr 1
    apply ih
    intro y hy
    rw [bctx_append, bctx_append, (h y (by simp [hy])).1]
    exact ⟨rfl, (h y (by simp [hy])).2⟩

theorem lenOrNone_cases {γ : Type} (o : Option (List γ)) :
    (lenOrNone o = none ∧ (o.getD []).length = 0) ∨ (lenOrNone o = some (o.getD []).length) := by
  cases o with
  | none => left; simp [lenOrNone]
  | some l =>
    by_cases h : l.length > 0
    · right; simp [lenOrNone, h]
    · have : l = [] := by cases l <;> simp_all
      subst this; left; simp [lenOrNone]

/-- `overlap_chunk` with `before = prev_part_length`, `after = next_part_length` trims exactly the two neighbours' rows -/
theorem overlapChunk_trim2 {γ δ : Type} (func : List γ → List δ) (P N : Option (List γ)) (combined : List γ)
    (hlen : (func combined).length = combined.length) :
    overlapChunk func ((lenOrNone P).getD 0) ((lenOrNone N).getD 0) (combined, lenOrNone P, lenOrNone N) =
      ((func combined).take ((func combined).length - (N.getD []).length)).drop (P.getD []).length := by
  rw [Dask.C46.overlapChunk_trim _ _ _ _ _ _ hlen]
  rcases lenOrNone_cases P with ⟨hP, hP0⟩ | hP <;> rcases lenOrNone_cases N with ⟨hN, hN0⟩ | hN <;>
    simp only [hP, hN, Option.getD_some] <;> simp_all

/-- one output partition computed from the combined block is the window function of the partition's rows in the two
    contexts the block provides -/
theorem chunkTime2_twin (b : Option Int) (a : Int) (g : List (TRow α) → TRow α → List (TRow α) → β)
    (P N : Option (List (TRow α))) (cur : List (TRow α)) :
    chunkTime2 (twinFn2 b a g) (P.getD [] ++ cur ++ N.getD [], lenOrNone P, lenOrNone N)
      = twin2 b a g (P.getD []) cur (N.getD []) := by
  unfold chunkTime2
  rw [overlapChunk_trim2 _ _ _ _ (by simp [twinFn2, twin2_length])]
  have hsplit : twinFn2 b a g (P.getD [] ++ cur ++ N.getD []) =
      twin2 b a g [] (P.getD []) (cur ++ N.getD []) ++ twin2 b a g (P.getD []) cur (N.getD [])
        ++ twin2 b a g (P.getD [] ++ cur) (N.getD []) [] := by
    simp only [twinFn2]
    rw [twin2_append, twin2_append]
    simp
  rw [hsplit]
  have h1 : (P.getD []).length = (twin2 b a g [] (P.getD []) (cur ++ N.getD [])).length := by rw [twin2_length]
  have h2 : (N.getD []).length = (twin2 b a g (P.getD [] ++ cur) (N.getD []) []).length := by rw [twin2_length]
  rw [h1, h2]
  exact Dask.C46.trim_mid _ _ _

/-! ### the look-back side (falsy or timedelta `before`) -/

/-- the function's look-back `b` is covered by dask's `before` -/
def backOK : Option Int → Option Int → Prop
  | none, _ => True
  | some b, some B => b ≤ B
  | some _, none => False

theorem tctx_narrow (bb W t : Int) (h : bb ≤ W) (l : List (TRow α)) : tctx bb t (tctx W t l) = tctx bb t l := by
  simp only [tctx, List.filter_filter]
  apply List.filter_congr
  intro r _
  by_cases h1 : r.1 > t - bb
  · have : r.1 > t - W := by omega
    simp [h1, this]
  · simp [h1]

/-- the entry of `prevs` exists, and what `_combined_parts` makes of it holds every row of the earlier partitions that
    is inside the look-back window of a row of the current partition -/
theorem prev_spec (b B : Option Int) (hb : backOK b B) (divs : List Int) (parts before rest' : List (List (TRow α)))
    (cur : List (TRow α)) (ht : Truthful divs parts) (hparts : parts = before ++ cur :: rest') :
    ∃ pv, prevOfTime B divs before.length before cur = some pv ∧
      ∀ x ∈ cur, bctx b x.1 ((prevPart B cur pv).getD []) = bctx b x.1 before.flatten := by
  cases B with
  | none =>
    refine ⟨none, rfl, ?_⟩
    intro x _
    cases b with
    | none => rfl
    | some bb => exact absurd hb (by simp [backOK])
  | some W =>
    by_cases hi : before.length = 0
    · have hb0 : before = [] := List.length_eq_zero_iff.mp hi
      subst hb0
      refine ⟨none, by simp [prevOfTime], ?_⟩
      intro x _
      simp [prevPart, bctx_nil]
    · obtain ⟨j, hsel, hexcl⟩ := selectPrev_spec W divs parts before rest' cur ht hparts hi
      refine ⟨some (tailTime W cur (before.drop j)), by simp [prevOfTime, hi, hsel], ?_⟩
      intro x hx
      cases b with
      | none => rfl
      | some bb =>
        have hle : bb ≤ W := hb
        simp only [prevPart, Option.getD_some, bctx]
        rw [← tctx_narrow bb W x.1 hle, tctx_tailTime W cur _ x hx, ← tctx_narrow bb W x.1 hle before.flatten]
        congr 1
        conv => rhs; rw [← List.take_append_drop j before, List.flatten_append, tctx_append]
        rw [tctx_nil_of_excl W x.1 (before.take j) (fun p hp r hr => hexcl p hp r hr x hx), List.nil_append]

/-! ### the look-ahead side -/

theorem tmax_ge (cur : List (TRow α)) (m : Int) (h : tmax cur = some m) : ∀ x ∈ cur, x.1 ≤ m := by
  intro x hx
  unfold tmax at h
  exact (List.max?_le_iff h).1 (Int.le_refl _) x.1 (List.mem_map_of_mem hx)

theorem tmax_some_of_mem (cur : List (TRow α)) (x : TRow α) (hx : x ∈ cur) : ∃ m, tmax cur = some m := by
  cases h : tmax cur with
  | some m => exact ⟨m, rfl⟩
  | none =>
    unfold tmax at h
    have : cur = [] := by simpa using h
    subst this; cases hx

/-- what a successful append task hands on: the `2*after` head of the immediate neighbour, which is non-empty when other
    partitions follow it -/
theorem nextOfTime_cons (A : Int) (cur n : List (TRow α)) (r : List (List (TRow α))) (nx : Option (List (TRow α)))
    (h : nextOfTime true A cur (n :: r) = some nx) :
    nx = some (headTime (2 * A) cur n) ∧ (r ≠ [] → cur ≠ [] → n ≠ []) := by
  cases r with
  | nil =>
    simp only [nextOfTime, Option.some.injEq] at h
    exact ⟨h.symm, fun h' => absurd rfl h'⟩
  | cons n2 r' =>
    simp only [nextOfTime, headTimeNonempty, Bool.true_and] at h
    by_cases hc : (n.isEmpty && !cur.isEmpty) = true
    · simp [hc] at h
    · simp only [hc, Bool.false_eq_true, if_false, Option.map_some, Option.some.injEq] at h
      refine ⟨h.symm, fun _ hcur hn => hc ?_⟩
      subst hn
      cases cur <;> simp_all

/-- what a successful validation of `_combined_parts` hands on -/
theorem checkNext_some (A : Int) (cur ni : List (TRow α)) (nx' : Option (List (TRow α)))
    (h : checkNext true A cur (some ni) = some nx') :
    nx' = some (headTime A cur ni) ∧ (ni = [] ∨ (headTime A cur ni).length ≠ ni.length) := by
  simp only [checkNext, Bool.true_and] at h
  by_cases hc : (ni.length == (headTime A cur ni).length && decide (ni.length > 0)) = true
  · simp [hc] at h
  · simp only [hc, Bool.false_eq_true, if_false, Option.some.injEq] at h
    refine ⟨h.symm, ?_⟩
    by_cases hn : ni = []
    · exact Or.inl hn
    · right
      intro heq
      apply hc
      have : ni.length > 0 := by cases ni <;> simp_all
      simp [heq, this]

/-- a row of the immediate neighbour at or beyond `max + A` when the two checks passed and the neighbour is non-empty -/
theorem far_row (A m : Int) (hA : 0 < A) (cur n : List (TRow α)) (hm : tmax cur = some m) (hn : n ≠ [])
    (hv : headTime (2 * A) cur n = [] ∨ (headTime A cur (headTime (2 * A) cur n)).length ≠ (headTime (2 * A) cur n).length) :
    ∃ r0 ∈ n, m + A ≤ r0.1 := by
  simp only [headTime, hm] at hv
  rcases hv with h0 | hne
  · obtain ⟨r0, hr0⟩ := List.exists_mem_of_ne_nil n hn
    refine ⟨r0, hr0, ?_⟩
    have := (List.filter_eq_nil_iff.mp h0) r0 hr0
    simp only [decide_eq_true_eq] at this
    omega
  · cases hall : (n.filter (fun r => decide (r.1 < m + 2 * A))).all (fun r => decide (r.1 < m + A)) with
    | true =>
      exfalso
      apply hne
      rw [List.filter_eq_self.mpr]
      intro r hr
      exact List.all_eq_true.mp hall r hr
    | false =>
      obtain ⟨r0, hr0, hnot⟩ := List.all_eq_false.mp hall
      refine ⟨r0, (List.mem_filter.mp hr0).1, ?_⟩
      simp only [decide_eq_true_eq] at hnot
      omega

/-- when neither the append task nor `_combined_parts` raised, the rows handed to the block are all the later rows inside
    the look-ahead window of every row of the current partition -/
theorem next_spec (A a : Int) (hA : 0 < A) (ha : a ≤ A) (divs : List Int) (parts before rest : List (List (TRow α)))
    (cur : List (TRow α)) (ht : Truthful divs parts) (hparts : parts = before ++ cur :: rest)
    (nx nx' : Option (List (TRow α))) (h1 : nextOfTime true A cur rest = some nx) (h2 : checkNext true A cur nx = some nx') :
    ∀ x ∈ cur, actx a x.1 (nx'.getD []) = actx a x.1 rest.flatten := by
  intro x hx
  cases rest with
  | nil =>
    simp only [nextOfTime, Option.some.injEq] at h1
    subst h1
    simp only [checkNext, Option.some.injEq] at h2
    subst h2
    simp [actx]
  | cons n rest' =>
    obtain ⟨hnx, hne⟩ := nextOfTime_cons A cur n rest' nx h1
    subst hnx
    obtain ⟨hnx', hv⟩ := checkNext_some A cur _ nx' h2
    subst hnx'
    obtain ⟨m, hm⟩ := tmax_some_of_mem cur x hx
    have hxm := tmax_ge cur m hm x hx
    rw [List.flatten_cons, actx_append]
    have hfirst : actx a x.1 ((some (headTime A cur (headTime (2 * A) cur n))).getD []) = actx a x.1 n := by
      simp only [Option.getD_some, headTime, hm, actx, List.filter_filter]
      apply List.filter_congr
      intro r _
      by_cases hr : r.1 < x.1 + a
      · have h3 : r.1 < m + A := by omega
        have h4 : r.1 < m + 2 * A := by omega
        simp [hr, h3, h4]
      · simp [hr]
    rw [hfirst]
    have hrest : actx a x.1 rest'.flatten = [] := by
      by_cases hr' : rest' = []
      · subst hr'; simp [actx]
      · have hcur : cur ≠ [] := by intro hc; subst hc; cases hx
        obtain ⟨r0, hr0, hfar⟩ := far_row A m hA cur n hm (hne hr' hcur) hv
        simp only [actx, List.filter_eq_nil_iff, List.mem_flatten, decide_eq_true_eq]
        intro r ⟨p, hp, hr⟩
        -- `n` is partition `before.length + 1`, `p` a later one
        obtain ⟨k, hk, hpk⟩ := List.mem_iff_getElem.mp hp
        have hlen := ht.len
        have hplen : parts.length = before.length + 1 + 1 + rest'.length := by rw [hparts]; simp; omega
        have hnidx : parts[before.length + 1]? = some n := by
          rw [hparts, List.getElem?_append_right (by omega)]
          simp
        have hpidx : parts[before.length + 2 + k]? = some p := by
          rw [hparts, List.getElem?_append_right (by omega)]
          have : before.length + 2 + k - before.length = k + 2 := by omega
          rw [this]
          simp [hpk, hk]
        obtain ⟨d2, hd2⟩ : ∃ d, divs[before.length + 1 + 1]? = some d := ⟨divs[before.length + 1 + 1]'(by omega), List.getElem?_eq_getElem _⟩
        obtain ⟨dk, hdk⟩ : ∃ d, divs[before.length + 2 + k]? = some d := ⟨divs[before.length + 2 + k]'(by omega), List.getElem?_eq_getElem _⟩
        have hrest'len : 0 < rest'.length := by cases rest' <;> simp_all
        have e1 := ht.upper (before.length + 1) n d2 hnidx hd2 (by omega) r0 hr0
        have e2 := ht.mono (before.length + 1 + 1) (before.length + 2 + k) d2 dk (by omega) hd2 hdk
        have e3 := ht.lower (before.length + 2 + k) p dk hpidx hdk r hr
        omega
    rw [hrest, List.append_nil]

/-- every task of the lowered expression that did not raise computes the window function of its partition in the
    context of the WHOLE frame -/
theorem goTime2_spec (b B : Option Int) (hb : backOK b B) (A a : Int) (hA : 0 < A) (ha : a ≤ A)
    (g : List (TRow α) → TRow α → List (TRow α) → β) (divs : List Int) (parts : List (List (TRow α)))
    (ht : Truthful divs parts) :
    ∀ (rest before : List (List (TRow α))), parts = before ++ rest →
      ∀ out, goTime2 true true (twinFn2 b a g) B A divs before.length before rest = some out →
        out.flatten = twin2 b a g before.flatten rest.flatten [] ∧ out.map List.length = rest.map List.length := by
  intro rest
  induction rest with
  | nil =>
    intro before _ out h
    simp only [goTime2, Option.some.injEq] at h
    subst h
    exact ⟨by simp [twin2], rfl⟩
  | cons cur rest' ih =>
    intro before hparts out h
    obtain ⟨pv, hpv, hback⟩ := prev_spec b B hb divs parts before rest' cur ht hparts
    simp only [goTime2, hpv] at h
    cases hnx : nextOfTime true A cur rest' with
    | none => simp [hnx] at h
    | some nx =>
      simp only [hnx] at h
      cases hck : checkNext true A cur nx with
      | none => simp [combinedTime2, hck] at h
      | some nx' =>
        have hrec := ih (before ++ [cur]) (by rw [hparts]; simp)
        simp only [List.length_append, List.length_singleton] at hrec
        cases hr : goTime2 true true (twinFn2 b a g) B A divs (before.length + 1) (before ++ [cur]) rest' with
        | none => simp [combinedTime2, hck, hr] at h
        | some r =>
          obtain ⟨hrflat, hrlen⟩ := hrec r hr
          simp only [combinedTime2, hck, hr, Option.some.injEq] at h
          subst h
          have hfwd := next_spec A a hA ha divs parts before rest' cur ht hparts nx nx' hnx hck
          have hck2 : chunkTime2 (twinFn2 b a g)
              ((prevPart B cur pv).getD [] ++ cur ++ nx'.getD [], lenOrNone (prevPart B cur pv), lenOrNone nx')
              = twin2 b a g before.flatten cur rest'.flatten := by
            rw [chunkTime2_twin]
            apply twin2_ctx
            intro x hx
            exact ⟨hback x hx, hfwd x hx⟩
          refine ⟨?_, ?_⟩
          · rw [List.flatten_cons, hck2, hrflat, List.flatten_cons, twin2_append]
            simp
          · rw [List.map_cons, hck2, twin2_length, hrlen, List.map_cons]

/-! ### exactly when the look-ahead side raises -/

/-- neither the append task nor the validation of `_combined_parts` raises for the partition `cur` -/
def stepB (A : Int) (cur : List (TRow α)) (rest : List (List (TRow α))) : Bool :=
  match nextOfTime true A cur rest with
  | none => false
  | some nx => (checkNext true A cur nx).isSome

theorem tmax_none (cur : List (TRow α)) (h : tmax cur = none) : cur = [] := by
  unfold tmax at h
  simpa using h

theorem stepB_nil (A : Int) (cur : List (TRow α)) : stepB A cur [] = true := by
  simp [stepB, nextOfTime, checkNext]

theorem nextOfTime_nonempty (A : Int) (cur n : List (TRow α)) (r : List (List (TRow α))) (hn : n ≠ []) :
    nextOfTime true A cur (n :: r) = some (some (headTime (2 * A) cur n)) := by
  have : n.isEmpty = false := by cases n <;> simp_all
  cases r <;> simp [nextOfTime, headTimeNonempty, this]

theorem stepB_cons (A : Int) (cur n : List (TRow α)) (r : List (List (TRow α))) :
    stepB A cur (n :: r) = true ↔ afterStepOK A cur n (!r.isEmpty) = true := by
  cases hm : tmax cur with
  | none =>
    have := tmax_none cur hm
    subst this
    cases r <;> simp [stepB, nextOfTime, headTimeNonempty, checkNext, headTime, tmax, afterStepOK]
  | some m =>
    have hcur : cur.isEmpty = false := by
      cases cur with
      | nil => simp [tmax] at hm
      | cons _ _ => rfl
    by_cases hn : n = []
    · subst hn
      cases r <;> simp [stepB, nextOfTime, headTimeNonempty, checkNext, headTime, hm, afterStepOK, hcur]
    · have hne : n.isEmpty = false := by cases n <;> simp_all
      simp only [stepB, nextOfTime_nonempty A cur n r hn, checkNext, afterStepOK, hm, hne, Bool.true_and,
        Bool.false_eq_true, if_false, headTime]
      generalize hni : n.filter (fun r => decide (r.1 < m + 2 * A)) = ni
      have hmem : ∀ x, x ∈ ni ↔ x ∈ n ∧ x.1 < m + 2 * A := by
        intro x; rw [← hni]; simp [List.mem_filter]
      by_cases hc : (ni.length == (ni.filter (fun r => decide (r.1 < m + A))).length && decide (ni.length > 0)) = true
      · simp only [hc, if_true, Option.isSome_none, Bool.false_eq_true, false_iff, Bool.or_eq_true, not_or,
          List.all_eq_true, List.any_eq_true, Bool.and_eq_true, decide_eq_true_eq]
        simp only [Bool.and_eq_true, beq_iff_eq, decide_eq_true_eq] at hc
        obtain ⟨hlen, hpos⟩ := hc
        have hall := List.length_filter_eq_length_iff.mp hlen.symm
        obtain ⟨x0, hx0⟩ := List.exists_mem_of_length_pos hpos
        constructor
        · intro h
          have := h x0 ((hmem x0).mp hx0).1
          have := ((hmem x0).mp hx0).2
          omega
        · intro ⟨x, hx, h1, h2⟩
          have := hall x ((hmem x).mpr ⟨hx, h2⟩)
          simp only [decide_eq_true_eq] at this
          omega
      · simp only [hc, Bool.false_eq_true, if_false, Option.isSome_some, true_iff, Bool.or_eq_true,
          List.all_eq_true, List.any_eq_true, Bool.and_eq_true, decide_eq_true_eq]
        by_cases hnil : ni = []
        · left
          intro x hx
          have : x ∉ ni := by rw [hnil]; simp
          rw [hmem] at this
          have : ¬ x.1 < m + 2 * A := fun h => this ⟨hx, h⟩
          omega
        · right
          have hpos : ni.length > 0 := by cases ni <;> simp_all
          have hlen : ¬ (ni.filter (fun r => decide (r.1 < m + A))).length = ni.length := by
            intro h
            apply hc
            simp [h, hpos]
          cases hall : ni.all (fun r => decide (r.1 < m + A)) with
          | true =>
            exact absurd (List.length_filter_eq_length_iff.mpr (List.all_eq_true.mp hall)) hlen
          | false =>
            obtain ⟨x, hx, hnot⟩ := List.all_eq_false.mp hall
            simp only [decide_eq_true_eq] at hnot
            exact ⟨x, ((hmem x).mp hx).1, by omega, ((hmem x).mp hx).2⟩

/-- the lowered expression raises exactly when some neighbour cannot be validated (`afterOK`), whatever the function -/
theorem goTime2_isSome_iff (func : List (TRow α) → List β) (B : Option Int) (A : Int) (divs : List Int)
    (parts : List (List (TRow α))) (ht : Truthful divs parts) :
    ∀ (rest before : List (List (TRow α))), parts = before ++ rest →
      ((goTime2 true true func B A divs before.length before rest).isSome = true ↔ afterOK A rest = true) := by
  intro rest
  induction rest with
  | nil => intro before _; simp [goTime2, afterOK]
  | cons cur rest' ih =>
    intro before hparts
    obtain ⟨pv, hpv, _⟩ := prev_spec none B trivial divs parts before rest' cur ht hparts
    have hrec := ih (before ++ [cur]) (by rw [hparts]; simp)
    simp only [List.length_append, List.length_singleton] at hrec
    have hstep : (goTime2 true true func B A divs before.length before (cur :: rest')).isSome = true ↔
        (stepB A cur rest' = true ∧ (goTime2 true true func B A divs (before.length + 1) (before ++ [cur]) rest').isSome = true) := by
      simp only [goTime2, hpv, stepB]
      cases hnx : nextOfTime true A cur rest' with
      | none => simp
      | some nx =>
        cases hck : checkNext true A cur nx with
        | none => simp [combinedTime2, hck]
        | some nx' =>
          cases hr : goTime2 true true func B A divs (before.length + 1) (before ++ [cur]) rest' with
          | none => simp [combinedTime2, hck]
          | some r => simp [combinedTime2, hck]
    rw [hstep, hrec]
    cases rest' with
    | nil => simp [stepB_nil, afterOK]
    | cons n r =>
      rw [stepB_cons]
      simp [afterOK]

end Dask.C46X

namespace Dask.C46
open Dask.Overlap Dask.OverlapTime Dask.OverlapTime2 Dask.C46T Dask.C46X

/-- **C46 (time-based look-ahead, general form)**: `before` falsy or a timedelta `B`, `after` a timedelta `A > 0`; every
    row function that looks back less than `b` (`b = none`: not at all) and ahead less than `a`, with `b` covered by `B`
    and `a ≤ A`. On every partitioning with truthful divisions, whenever no task of the lowered `MapOverlap` raises, the
    result is that function of the concatenated frame, partition by partition. -/
theorem time_overlap2_local_eq_global {α β : Type} (b B : Option Int) (hb : backOK b B) (A a : Int) (hA : 0 < A) (ha : a ≤ A)
    (g : List (TRow α) → TRow α → List (TRow α) → β) (divs : List Int) (parts : List (List (TRow α)))
    (ht : Truthful divs parts) (out : List (List β))
    (hout : mapOverlapTime2 (twinFn2 b a g) B A divs parts = some out) :
    out.flatten = twinFn2 b a g parts.flatten ∧ out.map List.length = parts.map List.length := by
  have := goTime2_spec b B hb A a hA ha g divs parts ht parts [] (by simp) out (by simpa [mapOverlapTime2] using hout)
  simpa [twinFn2] using this

/-- **C46 (centered time windows)**: `rolling('Ws', center=True)` (`before = after = Timedelta(W)`; the window
    `(t - W/2, t + W/2]` is `b = ⌈W/2⌉`, `a = ⌊W/2⌋ + 1` in integer time units) and `map_overlap(before=Timedelta(B),
    after=Timedelta(A))`: for every function local within `(t - b, t + a)`, `b ≤ B`, `a ≤ A`, and every partitioning with
    truthful divisions (slow or fast path on the look-back side; partitions may be empty or narrower than the window) the
    lowered expression either raises the documented NotImplementedError or yields the function of the whole frame. -/
theorem time_window_centered_local_eq_global {α β : Type} (B A b a : Int) (hb : b ≤ B) (hA : 0 < A) (ha : a ≤ A)
    (g : List (TRow α) → TRow α → List (TRow α) → β) (divs : List Int) (parts : List (List (TRow α)))
    (ht : Truthful divs parts) (out : List (List β))
    (hout : mapOverlapTime2 (twinFn2 (some b) a g) (some B) A divs parts = some out) :
    out.flatten = twinFn2 (some b) a g parts.flatten ∧ out.map List.length = parts.map List.length :=
  time_overlap2_local_eq_global (some b) (some B) hb A a hA ha g divs parts ht out hout

/-- **C46 (forward-looking time windows)**: `map_overlap(before=0, after=Timedelta(A))` with a function of the row and of
    the later rows earlier than `t + a`, `a ≤ A` -/
theorem time_after_local_eq_global {α β : Type} (A a : Int) (hA : 0 < A) (ha : a ≤ A)
    (g : List (TRow α) → TRow α → List (TRow α) → β) (divs : List Int) (parts : List (List (TRow α)))
    (ht : Truthful divs parts) (out : List (List β))
    (hout : mapOverlapTime2 (twinFn2 none a g) none A divs parts = some out) :
    out.flatten = twinFn2 none a g parts.flatten ∧ out.map List.length = parts.map List.length :=
  time_overlap2_local_eq_global none none trivial A a hA ha g divs parts ht out hout

/-- **exactly when it raises**: on truthful divisions the lowered `MapOverlap` with a timedelta `after` raises iff some
    partition has a neighbour that cannot be validated — `afterOK`: for every non-empty partition with maximum `m`, the next
    partition is the empty LAST one, or is non-empty and has no row earlier than `m + 2A`, or has a row in
    `[m + A, m + 2A)`. Independent of the function and of the look-back side (which never raises). -/
theorem mapOverlapTime2_isSome_iff {α β : Type} (func : List (TRow α) → List β) (B : Option Int) (A : Int) (divs : List Int)
    (parts : List (List (TRow α))) (ht : Truthful divs parts) :
    (mapOverlapTime2 func B A divs parts).isSome = true ↔ afterOK A parts = true := by
  have := goTime2_isSome_iff func B A divs parts ht parts [] (by simp)
  simpa [mapOverlapTime2] using this

/-- **C46 (centered time windows, total form)**: on every truthful partitioning that `afterOK` accepts the lowered
    expression does not raise and is the function of the whole frame -/
theorem time_window_centered_accepted {α β : Type} (B A b a : Int) (hb : b ≤ B) (hA : 0 < A) (ha : a ≤ A)
    (g : List (TRow α) → TRow α → List (TRow α) → β) (divs : List Int) (parts : List (List (TRow α)))
    (ht : Truthful divs parts) (hok : afterOK A parts = true) :
    ∃ out, mapOverlapTime2 (twinFn2 (some b) a g) (some B) A divs parts = some out ∧
      out.flatten = twinFn2 (some b) a g parts.flatten ∧ out.map List.length = parts.map List.length := by
  have hs := (mapOverlapTime2_isSome_iff (twinFn2 (some b) a g) (some B) A divs parts ht).mpr hok
  obtain ⟨out, hout⟩ := Option.isSome_iff_exists.mp hs
  exact ⟨out, hout, time_window_centered_local_eq_global B A b a hb hA ha g divs parts ht out hout⟩

end Dask.C46

namespace Dask.C46
open Dask.Overlap Dask.OverlapTime Dask.OverlapTime2 Dask.C46T Dask.C46X

/-! ### non-vacuity and refutation witnesses (`rolling('4s', center=True, min_periods=1).sum()`: `B = A = 4`, `b = 2`, `a = 3`) -/

/-- irregular widths (3 s, 2 s, 16 s): the first two partitions are narrower than the window on the look-back side
    (slow path); every neighbour has a row in `[max + A, max + 2A)` for the validation of the look-ahead -/
theorem truthful_ex1 : Truthful [0, 3, 8, 20]
    ([[(0, some 1), (1, some 2), (2, none)], [(3, some 4), (7, some 5)], [(8, some 6), (12, some 7), (20, some 8)]] :
      List (List (TRow (Option Int)))) := by
  refine ⟨by decide, ?_, ?_, ?_⟩
  · intro i j a b hij ha hb
    match i, j with
    | 0, 0 | 0, 1 | 0, 2 | 0, 3 | 1, 1 | 1, 2 | 1, 3 | 2, 2 | 2, 3 | 3, 3 =>
      simp at ha hb; omega
    | i + 4, _ => simp at ha
    | _, j + 4 => simp at hb
    | 1, 0 | 2, 0 | 2, 1 | 3, 0 | 3, 1 | 3, 2 => omega
  · intro k p d hp hd r hr
    match k with
    | 0 | 1 | 2 => simp at hp hd; subst hp hd; revert r; decide
    | k + 3 => simp at hp
  · intro k p d hp hd hk r hr
    match k with
    | 0 | 1 => simp at hp hd; subst hp hd; revert r; decide
    | k + 2 => simp at hk; omega

example : slowPath 4 [0, 3, 8, 20] = true := by decide
example : afterOK 4 [[(0, some 1), (1, some 2), (2, (none : Option Int))], [(3, some 4), (7, some 5)],
    [(8, some 6), (12, some 7), (20, some 8)]] = true := by decide
/-- the hypotheses of `time_window_centered_local_eq_global` are satisfiable with a window that spans boundaries -/
example : mapOverlapTime2 (twinFn2 (some 2) 3 (gCRollSum 1)) (some 4) 4 [0, 3, 8, 20]
    [[(0, some 1), (1, some 2), (2, none)], [(3, some 4), (7, some 5)], [(8, some 6), (12, some 7), (20, some 8)]]
    = some [[some 3, some 7, some 6], [some 4, some 11], [some 11, some 7, some 8]] := by decide
/-- … and of `time_after_local_eq_global` (forward window `[t, t + 3)`) -/
example : mapOverlapTime2 (twinFn2 none 3 (gCRollSum 1)) none 4 [0, 3, 8, 20]
    [[(0, some 1), (1, some 2), (2, none)], [(3, some 4), (7, some 5)], [(8, some 6), (12, some 7), (20, some 8)]]
    = some [[some 3, some 6, some 4], [some 4, some 11], [some 6, some 7, some 8]] := by decide

/-- an EMPTY immediate neighbour followed by the rows that are inside the window -/
theorem truthful_ex2 : Truthful [0, 3, 3, 20]
    ([[(0, some 1), (1, some 2), (2, some 3)], [], [(3, some 4), (4, some 5), (20, some 6)]] : List (List (TRow (Option Int)))) := by
  refine ⟨by decide, ?_, ?_, ?_⟩
  · intro i j a b hij ha hb
    match i, j with
    | 0, 0 | 0, 1 | 0, 2 | 0, 3 | 1, 1 | 1, 2 | 1, 3 | 2, 2 | 2, 3 | 3, 3 =>
      simp at ha hb; omega
    | i + 4, _ => simp at ha
    | _, j + 4 => simp at hb
    | 1, 0 | 2, 0 | 2, 1 | 3, 0 | 3, 1 | 3, 2 => omega
  · intro k p d hp hd r hr
    match k with
    | 0 | 1 | 2 => simp at hp hd; subst hp hd; revert r; decide
    | k + 3 => simp at hp
  · intro k p d hp hd hk r hr
    match k with
    | 0 | 1 => simp at hp hd; subst hp hd; revert r; decide
    | k + 2 => simp at hk; omega

/-- a one-row immediate neighbour (narrower than the look-ahead) followed by rows inside the window -/
theorem truthful_ex3 : Truthful [0, 3, 4, 20]
    ([[(0, some 1), (1, some 2), (2, some 3)], [(3, some 4)], [(4, some 5), (5, some 6), (20, some 7)]] : List (List (TRow (Option Int)))) := by
  refine ⟨by decide, ?_, ?_, ?_⟩
  · intro i j a b hij ha hb
    match i, j with
    | 0, 0 | 0, 1 | 0, 2 | 0, 3 | 1, 1 | 1, 2 | 1, 3 | 2, 2 | 2, 3 | 3, 3 =>
      simp at ha hb; omega
    | i + 4, _ => simp at ha
    | _, j + 4 => simp at hb
    | 1, 0 | 2, 0 | 2, 1 | 3, 0 | 3, 1 | 3, 2 => omega
  · intro k p d hp hd r hr
    match k with
    | 0 | 1 | 2 => simp at hp hd; subst hp hd; revert r; decide
    | k + 3 => simp at hp
  · intro k p d hp hd hk r hr
    match k with
    | 0 | 1 => simp at hp hd; subst hp hd; revert r; decide
    | k + 2 => simp at hk; omega

/-- the code as it is refuses both partitionings (documented NotImplementedError) -/
example : mapOverlapTime2 (twinFn2 (some 2) 3 (gCRollSum 1)) (some 4) 4 [0, 3, 3, 20]
    [[(0, some 1), (1, some 2), (2, some 3)], [], [(3, some 4), (4, some 5), (20, some 6)]] = none := by decide
example : mapOverlapTime2 (twinFn2 (some 2) 3 (gCRollSum 1)) (some 4) 4 [0, 3, 4, 20]
    [[(0, some 1), (1, some 2), (2, some 3)], [(3, some 4)], [(4, some 5), (5, some 6), (20, some 7)]] = none := by decide

/-- "whenever it does not raise the result is that of the whole frame", for the variant `ce ch` of the lowering -/
def LookAheadSound (ce ch : Bool) : Prop :=
  ∀ (divs : List Int) (parts : List (List (TRow (Option Int)))) (out : List (List (Option Int))),
    Truthful divs parts →
    goTime2 ce ch (twinFn2 (some 2) 3 (gCRollSum 1)) (some 4) 4 divs 0 [] parts = some out →
    out.flatten = twinFn2 (some 2) 3 (gCRollSum 1) parts.flatten

/-- the code as it is (an instance of `time_window_centered_local_eq_global`) -/
theorem lookahead_sound : LookAheadSound true true := by
  intro divs parts out ht h
  exact (time_window_centered_local_eq_global 4 4 2 3 (by decide) (by decide) (by decide) _ divs parts ht out
    (by simpa [mapOverlapTime2] using h)).1

/-- **refutation witness (the code BEFORE fix 52c39fa)**: the append task reads the immediate neighbour only; when that
    partition is EMPTY `_combined_parts` has no row to validate the look-ahead with, nothing raises, and the rows of the
    partition after it that are inside the window are silently left out: times `[0,1,2 | | 3,4,20]`, values `1…6`,
    `rolling('4s', center=True).sum()` gives `[6, 6, 5, …]`, the whole frame `[6, 10, 14, …]`. Replayed on the real code
    (corpus/C46). -/
theorem empty_neighbour_unchecked_refuted : ¬ LookAheadSound false true := by
  intro h
  have := h [0, 3, 3, 20] [[(0, some 1), (1, some 2), (2, some 3)], [], [(3, some 4), (4, some 5), (20, some 6)]]
    [[some 6, some 6, some 5], [], [some 12, some 9, some 6]] truthful_ex2 (by decide)
  revert this
  decide

/-- **refutation witness (the seeded class: only the immediate neighbour is consulted although it is narrower than the
    window, and the validation of `_combined_parts` is gone)**: times `[0,1,2 | 3 | 4,5,20]`: the one-row neighbour lies
    wholly inside the look-ahead of row `2` (window up to `4`), row `4` of the partition after it is left out:
    `[6, 10, 9, …]` instead of `[6, 10, 14, …]`. -/
theorem narrow_neighbour_unvalidated_refuted : ¬ LookAheadSound true false := by
  intro h
  have := h [0, 3, 4, 20] [[(0, some 1), (1, some 2), (2, some 3)], [(3, some 4)], [(4, some 5), (5, some 6), (20, some 7)]]
    [[some 6, some 10, some 9], [some 18], [some 15, some 11, some 7]] truthful_ex3 (by decide)
  revert this
  decide

end Dask.C46
