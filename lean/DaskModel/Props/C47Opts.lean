import DaskModel.Lemmas.CsvOpts
/-! # C47 — read_csv keywords (header / names / skiprows), several files, to_csv options (theorems)

Model: `Model/CsvOpts.lean` (the code as it is after the fixes e673923 and af2d511). pandas is modelled at LINE level
(`pdFrame`): which lines are skipped, which line names the columns, which lines are rows, when it raises. -/
set_option linter.unusedSimpArgs false
namespace Dask.C47
open Dask.TextBlocks Dask.Csv Dask.CsvOpts

/-- **the header bytes are pandas' header line** (after fix e673923; false before it for files that start with blank
    lines): whenever pandas finds header row `h` in the sample, `read_pandas` hands the later blocks exactly that line,
    terminated, and it is a proper non-blank single line -/
theorem header_bytes_spec (u : Kw) (data : List Nat) (h : Nat) (hr : resolve u = some h)
    (hlen : h < (keptLines u data).length) :
    ∃ pre, headerBytes u data = some (pre ++ NL) ∧ HdrLine (pre ++ NL) ∧
      ((keptLines u data)[h]?).map stripNL = some pre := by
  obtain ⟨hE, hI⟩ := resolve_some_eff u h hr
  have hK := kept_mlines_strip u.skiprows data
  rw [← keptLines_eq] at hK
  have hx : ((keptLines u data)[h]?).map stripNL = (kept u.skiprows (pySplitAux NL 0 [] data))[h]? := by
    rw [← hK, List.getElem?_map]
  have hlen' : h < (kept u.skiprows (pySplitAux NL 0 [] data)).length := by rw [← hK, List.length_map]; exact hlen
  obtain ⟨pre, hpre⟩ : ∃ pre, (kept u.skiprows (pySplitAux NL 0 [] data))[h]? = some pre :=
    ⟨_, List.getElem?_eq_getElem hlen'⟩
  obtain ⟨hlt, hget, hnb⟩ := headerRowAux_spec _ h u.skiprows pre hpre
  have h10 : 10 ∉ pre := pySplitAux_no_nl data [] (by simp) pre (List.mem_of_getElem? hget)
  refine ⟨pre, ?_, ⟨pre, rfl, h10, hnb⟩, by rw [hx, hpre]⟩
  unfold headerBytes headerRow
  rw [hI]
  simp only [hlt, if_true, hget]

/-- **one file, any blocksize** — given header bytes that fit the keywords (`RestOK`) and a first block that contains
    what the keywords consume (`FirstCovers`), the per-block frames exist, pandas succeeds on the whole file, the rows of
    the blocks concatenate to pandas' rows, the first partition has pandas' columns and every other partition the
    columns of the prepended header -/
theorem read_file_frames (u : Kw) (hdr : List Nat) (hc : Option (List Nat)) (data : List Nat) (b : Nat) (hb : 0 < b)
    (hsz : data.length < 2 ^ 53) (blocks : List (List Nat)) (hblocks : fileBlocks ieee data NL (some b) = some blocks)
    (hrest : RestOK u hdr hc) (H0 : FirstCovers u blocks) :
    ∃ frames W, readFile u hdr hc data (some b) = some frames ∧ pdFrame u data = some W ∧
      frames.flatMap (·.rows) = W.rows ∧ (∀ f ∈ frames.head?, f.cols = W.cols) ∧
      ∀ f ∈ frames.tail, f.cols = restCols u hdr := by
  have hL : (blocks.map mlines).flatten = mlines data := C47.blocks_lines data b hb hsz blocks hblocks
  unfold readFile readFileWith
  rw [hblocks]
  cases blocks with
  | nil =>
    have hn : u.names = true := H0
    have hL' : mlines data = [] := by simpa using hL.symm
    refine ⟨[], ⟨none, []⟩, rfl, ?_, rfl, by simp, by simp⟩
    unfold pdFrame
    rw [keptLines_eq, hL']
    simp [kept, pdOf, hn]
  | cons b0 bs =>
    obtain ⟨hs, hcov⟩ := H0
    have hk : keptLines u data = keptLines u b0 ++ (bs.map fun b => kept 0 (mlines b)).flatten := by
      rw [keptLines_eq, ← hL, List.map_cons, List.flatten_cons, kept_append _ _ _ hs, kept_zero_flatten,
        List.map_map]
      rfl
    obtain ⟨h1, h2⟩ := pdOf_append u (keptLines u b0) (bs.map fun b => kept 0 (mlines b)).flatten hcov
    have hf0 : blockFrame restKw u hdr hc true b0 = some (firstFrame u (keptLines u b0)) := by
      simp only [blockFrame, blockBytes, writeHeader, Bool.not_true, Bool.false_and, Bool.false_eq_true, if_false,
        if_true, pdFrame_firstKw]
      exact h1
    refine ⟨firstFrame u (keptLines u b0) :: bs.map fun b => ⟨restCols u hdr, kept 0 (mlines b)⟩, _,
      by simp only [framesOf, hf0, framesOf_rest u hdr hc hrest bs], by unfold pdFrame; rw [hk]; exact h2, ?_, ?_, ?_⟩
    · simp only [List.flatMap_cons, flatMap_rows_map]
    · simp
    · intro f hf
      simp only [List.tail_cons, List.mem_map] at hf
      obtain ⟨_, _, rfl⟩ := hf
      rfl

/-! ### several files -/

theorem whole_frame_of_first (u : Kw) (data : List Nat) (b : Nat) (hb : 0 < b) (hsz : data.length < 2 ^ 53)
    (blocks : List (List Nat)) (hblocks : fileBlocks ieee data NL (some b) = some blocks) (H0 : FirstCovers u blocks) :
    ∃ W, pdFrame u data = some W ∧
      (∀ h, resolve u = some h → u.names = false ∨ blocks ≠ [] → h < (keptLines u data).length) := by
  have hL : (blocks.map mlines).flatten = mlines data := C47.blocks_lines data b hb hsz blocks hblocks
  cases blocks with
  | nil =>
    have hn : u.names = true := H0
    have hL' : mlines data = [] := by simpa using hL.symm
    refine ⟨⟨none, []⟩, ?_, ?_⟩
    · unfold pdFrame
      rw [keptLines_eq, hL']
      simp [kept, pdOf, hn]
    · intro h _ hf
      rcases hf with hf | hf
      · rw [hn] at hf; exact absurd hf (by simp)
      · exact absurd rfl hf
  | cons b0 bs =>
    obtain ⟨hs, hcov⟩ := H0
    have hk : keptLines u data = keptLines u b0 ++ (bs.map fun b => kept 0 (mlines b)).flatten := by
      rw [keptLines_eq, ← hL, List.map_cons, List.flatten_cons, kept_append _ _ _ hs, kept_zero_flatten,
        List.map_map]
      rfl
    obtain ⟨_, h2⟩ := pdOf_append u (keptLines u b0) (bs.map fun b => kept 0 (mlines b)).flatten hcov
    refine ⟨_, by unfold pdFrame; rw [hk]; exact h2, ?_⟩
    intro h hh _
    unfold Covers at hcov
    rw [hh] at hcov
    rw [hk, List.length_append]
    omega

/-- the frames pandas returns for the files, one by one (`none` = one of the calls raises) -/
def pandasAll (u : Kw) : List (List Nat) → Option (List Frame)
  | [] => some []
  | d :: ds =>
    match pdFrame u d, pandasAll u ds with
    | some f, some fs => some (f :: fs)
    | _, _ => none

/-- a file that `read_csv(…, blocksize=b)` can split: its first block contains what the keywords consume -/
def FileOK (u : Kw) (b : Nat) (d : List Nat) : Prop :=
  d.length < 2 ^ 53 ∧ ∃ blocks, fileBlocks ieee d NL (some b) = some blocks ∧ FirstCovers u blocks

theorem readAll_spec (u : Kw) (hdr : List Nat) (hc : Option (List Nat)) (b : Nat) (hb : 0 < b) (c0 : Option (List Nat))
    (hrest : RestOK u hdr hc) (hc0 : restCols u hdr = c0) :
    ∀ ds : List (List Nat), (∀ d ∈ ds, FileOK u b d) → (∀ d ∈ ds, ∀ W, pdFrame u d = some W → W.cols = c0) →
      ∃ frames Ws, readAll restKw u hdr hc (some b) ds = some frames ∧ pandasAll u ds = some Ws ∧
        frames.flatMap (·.rows) = Ws.flatMap (·.rows) ∧ ∀ f ∈ frames, f.cols = c0
  | [], _, _ => ⟨[], [], rfl, rfl, rfl, by simp⟩
  | d :: ds, hok, hcols => by
    obtain ⟨hsz, blocks, hblocks, H0⟩ := hok d List.mem_cons_self
    obtain ⟨fr, W, h1, h2, h3, h4, h5⟩ := read_file_frames u hdr hc d b hb hsz blocks hblocks hrest H0
    obtain ⟨frs, Ws, g1, g2, g3, g4⟩ := readAll_spec u hdr hc b hb c0 hrest hc0 ds
      (fun d' hd' => hok d' (List.mem_cons_of_mem _ hd')) (fun d' hd' => hcols d' (List.mem_cons_of_mem _ hd'))
    refine ⟨fr ++ frs, W :: Ws, ?_, ?_, ?_, ?_⟩
    · unfold readAll
      rw [show readFileWith restKw u hdr hc d (some b) = some fr from h1, g1]
    · unfold pandasAll
      rw [h2, g2]
    · rw [List.flatMap_append, List.flatMap_cons, h3, g3]
    · intro f hf
      rcases List.mem_append.mp hf with hf | hf
      · have hWc := hcols d List.mem_cons_self W h2
        cases fr with
        | nil => simp at hf
        | cons f0 ft =>
          rcases List.mem_cons.mp hf with rfl | hf
          · rw [h4 f (by simp), hWc]
          · rw [h5 f (by simpa using hf), hc0]
      · exact g4 f hf

/-- **several files, any blocksize**: if `read_pandas` finds its header bytes, every file's first block contains what
    the keywords consume and all files have the column line of the first one, then `dd.read_csv(files, blocksize=b, sample=S, **u)`
    builds, pandas reads every file, the rows of all partitions in order are pandas' rows file after file, and every
    partition carries the columns pandas gives the first file -/
theorem read_files_eq_pandas (u : Kw) (S : Nat) (f0 : List Nat) (rest : List (List Nat)) (b : Nat) (hb : 0 < b)
    (hS : f0.length < sampleSize u (some b) S) (hdr : List Nat) (hhdr : headerBytes u f0 = some hdr)
    (hfiles : ∀ d ∈ f0 :: rest, FileOK u b d)
    (hsame : ∀ d ∈ rest, ∀ W W0, pdFrame u d = some W → pdFrame u f0 = some W0 → W.cols = W0.cols) :
    ∃ frames W0 Ws, readFiles u S (f0 :: rest) (some b) = some frames ∧ pandasAll u (f0 :: rest) = some (W0 :: Ws) ∧
      frames.flatMap (·.rows) = (W0 :: Ws).flatMap (·.rows) ∧ ∀ f ∈ frames, f.cols = W0.cols := by
  obtain ⟨hsz, blocks, hblocks, H0⟩ := hfiles f0 List.mem_cons_self
  obtain ⟨W0, hW0, hlen⟩ := whole_frame_of_first u f0 b hb hsz blocks hblocks H0
  have hcols0 : ∀ d ∈ f0 :: rest, ∀ W, pdFrame u d = some W → W.cols = W0.cols := by
    intro d hd W hW
    rcases List.mem_cons.mp hd with rfl | hd
    · rw [hW0] at hW; cases hW; rfl
    · exact hsame d hd W W0 hW hW0
  have key : RestOK u hdr W0.cols ∧ restCols u hdr = W0.cols := by
    by_cases hn : u.names = true
    · refine ⟨Or.inl hn, ?_⟩
      rw [pdOf_cols_none u _ W0 hW0 (Or.inr hn)]
      simp [restCols, hn]
    · have hn' : u.names = false := by simpa using hn
      cases hr : resolve u with
      | none =>
        have hE := effHeader_none_of_resolve u hr hn'
        have hh : hdr = [] := by
          unfold headerBytes at hhdr
          rw [hE] at hhdr
          simpa using hhdr.symm
        have hc := pdOf_cols_none u _ W0 hW0 (Or.inl hr)
        refine ⟨Or.inr (Or.inl ⟨hE, hh, hc⟩), ?_⟩
        rw [hc]
        simp [restCols, hn', hE]
      | some h =>
        obtain ⟨pre, hb1, hb2, hb3⟩ := header_bytes_spec u f0 h hr (hlen h hr (Or.inl hn'))
        have hh : hdr = pre ++ NL := by rw [hb1] at hhdr; cases hhdr; rfl
        have hE := (resolve_some_eff u h hr).1
        refine ⟨Or.inr (Or.inr ⟨hE, hh ▸ hb2⟩), ?_⟩
        rw [pdOf_cols_some u _ W0 h hr hn' hW0, hb3, hh]
        unfold restCols
        cases hh' : effHeader u <;> simp_all [stripNL_append_NL]
  obtain ⟨frames, Ws, h1, h2, h3, h4⟩ := readAll_spec u hdr W0.cols b hb W0.cols key.1 key.2 (f0 :: rest) hfiles hcols0
  cases Ws with
  | nil => simp [pandasAll, hW0] at h2; cases hp : pandasAll u rest <;> simp [hp] at h2
  | cons W0' Ws =>
    have : W0' = W0 := by
      simp only [pandasAll, hW0] at h2
      cases hp : pandasAll u rest with
      | none => simp [hp] at h2
      | some fs => simp [hp] at h2; exact h2.1.symm
    subst this
    have hts : sampleTooSmall u (sampleSize u (some b) S) f0 = false := by
      unfold sampleTooSmall
      simp [Nat.not_le.mpr hS]
    cases hfr : frames with
    | nil =>
      -- every file is empty: one empty partition with the columns of `head`
      subst hfr
      refine ⟨[⟨W0'.cols, []⟩], W0', Ws, ?_, h2, by simpa using h3, by simp⟩
      unfold readFiles readFilesWith
      simp only [sampleOf_short _ f0 (Nat.le_of_lt hS), hts, Bool.false_eq_true, if_false, hhdr, hW0, h1]
    | cons fr frs =>
      subst hfr
      refine ⟨fr :: frs, W0', Ws, ?_, h2, h3, h4⟩
      unfold readFiles readFilesWith
      simp only [sampleOf_short _ f0 (Nat.le_of_lt hS), hts, Bool.false_eq_true, if_false, hhdr, hW0, h1]

/-! ## corollaries: the combinations (header absent | 'infer' | 0 | None) × (names given | not given) -/

theorem mlines_simple (pre rest : List Nat) (hpre : 10 ∉ pre) :
    mlines (pre ++ 10 :: rest) = (pre ++ NL) :: mlines rest := by
  have : pre ++ 10 :: rest = (pre ++ NL) ++ rest := by simp [NL]
  rw [this, mlines_eq_lines, mlines_eq_lines, lines_append NL_ne NL_bf _ _ (Or.inr (Or.inr ⟨pre, rfl⟩)),
    lines_header_line pre hpre]
  rfl

/-- a file whose first line is a terminated non-blank line: whatever the blocksize, the first block contains that line -/
theorem first_covers_simple (u : Kw) (hs : u.skiprows = 0) (hr : resolve u = none ∨ resolve u = some 0)
    (pre rest : List Nat) (hpre : 10 ∉ pre) (hnb : isBlank pre = false) (b : Nat) (hb : 0 < b)
    (hsz : (pre ++ 10 :: rest).length < 2 ^ 53) : FileOK u b (pre ++ 10 :: rest) := by
  have hne : pre ++ 10 :: rest ≠ [] := by cases pre <;> simp
  obtain ⟨blocks, hblocks, _⟩ := C50.blocks_concat_file_ieee (pre ++ 10 :: rest) NL NL_ne (some b)
    (fun b' hb' => by cases hb'; exact hb) hsz
  refine ⟨hsz, blocks, hblocks, ?_⟩
  obtain ⟨b0, bs, rfl, hb0⟩ := first_block_nonempty _ b hb hsz hne blocks hblocks
  have hL := blocks_lines _ b hb hsz _ hblocks
  rw [List.map_cons, List.flatten_cons, ← mlines_eq_lines, ← mlines_eq_lines, mlines_simple pre rest hpre] at hL
  -- the first block has a line, and it is the file's first line
  have hl0 : mlines b0 ≠ [] := by
    intro hl
    obtain ⟨ls, hls, hflat⟩ := C50.decode_flatten NL b0 NL_ne
    rw [C50.decode_eq_lines NL b0 NL_ne] at hls
    cases hls
    rw [← mlines_eq_lines, hl] at hflat
    exact hb0 hflat.symm
  obtain ⟨l0, tl, hl0'⟩ : ∃ l0 tl, mlines b0 = l0 :: tl := by
    cases h : mlines b0 with
    | nil => exact absurd h hl0
    | cons a t => exact ⟨a, t, rfl⟩
  rw [hl0', List.cons_append] at hL
  have hl0e : l0 = pre ++ NL := (List.cons.inj hL).1
  have hk : keptLines u b0 = (pre ++ NL) :: kept 0 tl := by
    rw [keptLines_eq, hs, hl0', hl0e]
    simp [kept, isBlank_append_NL, hnb]
  refine ⟨by rw [hs]; exact Nat.zero_le _, ?_⟩
  unfold Covers
  rcases hr with hr | hr <;> rw [hr, hk] <;> simp

theorem pdFrame_simple (u : Kw) (hs : u.skiprows = 0) (pre rest : List Nat) (hpre : 10 ∉ pre)
    (hnb : isBlank pre = false) :
    keptLines u (pre ++ 10 :: rest) = (pre ++ NL) :: kept 0 (mlines rest) := by
  rw [keptLines_eq, hs, mlines_simple pre rest hpre]
  simp [kept, isBlank_append_NL, hnb]

/-- `read_pandas` finds header bytes (no IndexError) in the ordinary cases -/
theorem header_available (u : Kw) (d : List Nat) (b : Nat) (hb : 0 < b) (hok : FileOK u b d)
    (h : u.names = false ∨ effHeader u = .none ∨ (d ≠ [] ∧ ∃ hh, resolve u = some hh)) :
    ∃ hdr, headerBytes u d = some hdr := by
  by_cases hE : effHeader u = .none
  · exact ⟨[], by unfold headerBytes; rw [hE]⟩
  · obtain ⟨hsz, blocks, hblocks, H0⟩ := hok
    obtain ⟨_, _, hlen⟩ := whole_frame_of_first u d b hb hsz blocks hblocks H0
    rcases h with hn | h | ⟨hne, hh, hr⟩
    · cases hr : resolve u with
      | none => exact absurd (effHeader_none_of_resolve u hr hn) hE
      | some hh =>
        obtain ⟨pre, hp, _⟩ := header_bytes_spec u d hh hr (hlen hh hr (Or.inl hn))
        exact ⟨_, hp⟩
    · exact absurd h hE
    · obtain ⟨b0, bs, hbl, _⟩ := first_block_nonempty d b hb hsz hne blocks hblocks
      obtain ⟨pre, hp, _⟩ := header_bytes_spec u d hh hr (hlen hh hr (Or.inr (by rw [hbl]; simp)))
      exact ⟨_, hp⟩

/-- the keyword combinations of the statement: `header` absent, 'infer', 0 or None; `names` given or not
    (`header='infer'` together with `names` is the one combination left out) -/
def InMatrix (u : Kw) : Prop :=
  u.skiprows = 0 ∧ (u.header = none ∨ u.header = some (.row 0) ∨ u.header = some .none ∨
    (u.header = some .infer ∧ u.names = false))

theorem InMatrix.resolve {u : Kw} (h : InMatrix u) : resolve u = none ∨ resolve u = some 0 := by
  obtain ⟨_, h | h | h | ⟨h, hn⟩⟩ := h <;> unfold CsvOpts.resolve <;> rw [h] <;> cases hn' : u.names <;> simp_all

theorem InMatrix.eff {u : Kw} (h : InMatrix u) (d : List Nat) (hd : d ≠ []) :
    u.names = false ∨ effHeader u = .none ∨ (d ≠ [] ∧ ∃ hh, CsvOpts.resolve u = some hh) := by
  obtain ⟨_, h | h | h | ⟨h, hn⟩⟩ := h
  · cases hn' : u.names
    · exact Or.inl rfl
    · exact Or.inr (Or.inl (by unfold effHeader; rw [h]; simp [hn']))
  · exact Or.inr (Or.inr ⟨hd, 0, by unfold CsvOpts.resolve; rw [h]⟩)
  · exact Or.inr (Or.inl (by unfold effHeader; rw [h]; rfl))
  · exact Or.inl hn

/-- **csv_opts_rows** — one file, for EVERY blocksize and every keyword combination of `InMatrix`: if the file's first
    line is a terminated non-blank line then `dd.read_csv` builds, pandas reads the file, the rows of the partitions
    in order are pandas' rows and every partition has pandas' columns. -/
theorem csv_opts_rows (u : Kw) (hm : InMatrix u) (S : Nat) (pre rest : List Nat) (hpre : 10 ∉ pre) (hnb : isBlank pre = false)
    (b : Nat) (hb : 0 < b) (hsz : (pre ++ 10 :: rest).length < 2 ^ 53) (hS : (pre ++ 10 :: rest).length < S) :
    ∃ frames W, readFiles u S [pre ++ 10 :: rest] (some b) = some frames ∧ pdFrame u (pre ++ 10 :: rest) = some W ∧
      frames.flatMap (·.rows) = W.rows ∧ ∀ f ∈ frames, f.cols = W.cols := by
  have hok := first_covers_simple u hm.1 hm.resolve pre rest hpre hnb b hb hsz
  obtain ⟨hdr, hhdr⟩ := header_available u _ b hb hok (hm.eff _ (by cases pre <;> simp))
  obtain ⟨frames, W0, Ws, h1, h2, h3, h4⟩ := read_files_eq_pandas u S _ [] b hb
    (by unfold sampleSize; rw [hm.1]; simpa using hS) hdr hhdr
    (by intro d hd; simp at hd; subst hd; exact hok) (by intro d hd; simp at hd)
  have hW : pdFrame u (pre ++ 10 :: rest) = some W0 ∧ Ws = [] := by
    simp only [pandasAll] at h2
    cases hp : pdFrame u (pre ++ 10 :: rest) with
    | none => simp [hp] at h2
    | some w => simp [hp] at h2; exact ⟨by rw [h2.1], h2.2⟩
  obtain ⟨hW0, rfl⟩ := hW
  exact ⟨frames, W0, h1, hW0, by simpa using h3, h4⟩

/-- what pandas' frame is for such a file (so the theorem above is not about an unknown `W`) -/
theorem pdFrame_simple_header (u : Kw) (hs : u.skiprows = 0) (hr : resolve u = some 0) (pre rest : List Nat)
    (hpre : 10 ∉ pre) (hnb : isBlank pre = false) :
    pdFrame u (pre ++ 10 :: rest) = some ⟨if u.names then none else some pre, kept 0 (mlines rest)⟩ := by
  unfold pdFrame pdOf
  rw [pdFrame_simple u hs pre rest hpre hnb, hr]
  simp [stripNL_append_NL]

theorem pdFrame_simple_noheader (u : Kw) (hs : u.skiprows = 0) (hr : resolve u = none) (pre rest : List Nat)
    (hpre : 10 ∉ pre) (hnb : isBlank pre = false) :
    pdFrame u (pre ++ 10 :: rest) = some ⟨none, (pre ++ NL) :: kept 0 (mlines rest)⟩ := by
  unfold pdFrame pdOf
  rw [pdFrame_simple u hs pre rest hpre hnb, hr]
  simp

/-- **names= without a header row, ANY file content** (no assumption on the file at all, the empty file included after
    fix 9074abb): every line that is not blank is a row, in every block -/
theorem csv_names_any_file (u : Kw) (hn : u.names = true) (hs : u.skiprows = 0)
    (hh : u.header = none ∨ u.header = some .none) (S : Nat) (data : List Nat) (b : Nat) (hb : 0 < b)
    (hsz : data.length < 2 ^ 53) (hS : data.length < S) :
    ∃ frames, readFiles u S [data] (some b) = some frames ∧ frames.flatMap (·.rows) = kept 0 (mlines data) ∧
      ∀ f ∈ frames, f.cols = none := by
  have hr : resolve u = none := by rcases hh with h | h <;> unfold CsvOpts.resolve <;> rw [h] <;> simp [hn]
  have hE : effHeader u = .none := by rcases hh with h | h <;> unfold effHeader <;> rw [h] <;> simp [hn]
  obtain ⟨blocks, hblocks, _⟩ := C50.blocks_concat_file_ieee data NL NL_ne (some b)
    (fun b' hb' => by cases hb'; exact hb) hsz
  have hok : FileOK u b data := by
    refine ⟨hsz, blocks, hblocks, ?_⟩
    cases blocks with
    | nil => exact hn
    | cons b0 bs => exact ⟨by rw [hs]; exact Nat.zero_le _, by unfold Covers; rw [hr]; exact Or.inl hn⟩
  obtain ⟨frames, W0, Ws, h1, h2, h3, h4⟩ := read_files_eq_pandas u S data [] b hb
    (by unfold sampleSize; rw [hs]; simpa using hS) [] (by unfold headerBytes; rw [hE])
    (by intro d hd; simp at hd; subst hd; exact hok) (by intro d hd; simp at hd)
  have hW : pdFrame u data = some W0 ∧ Ws = [] := by
    simp only [pandasAll] at h2
    cases hp : pdFrame u data with
    | none => simp [hp] at h2
    | some w => simp [hp] at h2; exact ⟨by rw [h2.1], h2.2⟩
  obtain ⟨hW0, rfl⟩ := hW
  have hrows : W0.rows = kept 0 (mlines data) := by
    unfold pdFrame pdOf at hW0
    rw [keptLines_eq, hs, hr] at hW0
    cases hk : kept 0 (mlines data) with
    | nil => rw [hk] at hW0; simp [hn] at hW0; rw [← hW0]
    | cons a t => rw [hk] at hW0; simp at hW0; rw [← hW0]
  refine ⟨frames, h1, by simpa [hrows] using h3, ?_⟩
  intro f hf
  rw [h4 f hf]
  exact pdOf_cols_none u _ W0 hW0 (Or.inl hr)


/-- **several files with the same header line, every blocksize** (header row 0, no `names`): the rows of all
    partitions in order are the rows of the files, one file after the other; every partition has the header's columns -/
theorem csv_files_rows (u : Kw) (hm : InMatrix u) (hr : CsvOpts.resolve u = some 0) (hn : u.names = false)
    (S : Nat) (pre : List Nat) (hpre : 10 ∉ pre) (hnb : isBlank pre = false) (r0 : List Nat) (rests : List (List Nat))
    (b : Nat) (hb : 0 < b) (hsz : ∀ r ∈ r0 :: rests, (pre ++ 10 :: r).length < 2 ^ 53)
    (hS : (pre ++ 10 :: r0).length < S) :
    ∃ frames, readFiles u S ((r0 :: rests).map fun r => pre ++ 10 :: r) (some b) = some frames ∧
      frames.flatMap (·.rows) = (r0 :: rests).flatMap (fun r => kept 0 (mlines r)) ∧
      ∀ f ∈ frames, f.cols = some pre := by
  have hok : ∀ d ∈ (r0 :: rests).map (fun r => pre ++ 10 :: r), FileOK u b d := by
    intro d hd
    obtain ⟨r, hr', rfl⟩ := List.mem_map.mp hd
    exact first_covers_simple u hm.1 hm.resolve pre r hpre hnb b hb (hsz r hr')
  have hfr : ∀ r, pdFrame u (pre ++ 10 :: r) = some ⟨some pre, kept 0 (mlines r)⟩ := by
    intro r
    rw [pdFrame_simple_header u hm.1 hr pre r hpre hnb, hn]; rfl
  obtain ⟨hdr, hhdr⟩ := header_available u (pre ++ 10 :: r0) b hb (hok _ (by simp)) (Or.inl hn)
  obtain ⟨frames, W0, Ws, h1, h2, h3, h4⟩ := read_files_eq_pandas u S (pre ++ 10 :: r0)
    (rests.map fun r => pre ++ 10 :: r) b hb (by unfold sampleSize; rw [hm.1]; simpa using hS) hdr hhdr
    (by simpa using hok)
    (by
      intro d hd W W0 hW hW0
      obtain ⟨r, _, rfl⟩ := List.mem_map.mp hd
      rw [hfr] at hW hW0
      cases hW; cases hW0; rfl)
  have hall : ∀ rs : List (List Nat), pandasAll u (rs.map fun r => pre ++ 10 :: r) =
      some (rs.map fun r => ⟨some pre, kept 0 (mlines r)⟩) := by
    intro rs
    induction rs with
    | nil => rfl
    | cons r rs ih => simp only [List.map_cons, pandasAll, hfr, ih]
  have h2' := hall (r0 :: rests)
  rw [List.map_cons] at h2'
  rw [h2'] at h2
  have hWs : W0 :: Ws = (r0 :: rests).map fun r => (⟨some pre, kept 0 (mlines r)⟩ : Frame) := by
    simpa using h2.symm
  refine ⟨frames, by simpa using h1, ?_, ?_⟩
  · rw [h3, hWs, List.flatMap_map]
  · intro f hf
    rw [h4 f hf]
    have := congrArg List.head? hWs
    simp at this
    rw [this]

/-! ## the block model of `Model/Csv.lean` and the options model agree -/

/-- the header bytes of the two models coincide when the first line is not blank (`Csv.headerOf` takes the first
    PHYSICAL line, which is what the code did before fix e673923) -/
theorem headerOf_agrees (pre rest : List Nat) (hpre : 10 ∉ pre) (hnb : isBlank pre = false) :
    headerBytes ⟨none, false, 0⟩ (pre ++ 10 :: rest) = headerOf (pre ++ 10 :: rest) := by
  rw [headerOf_first_line pre rest hpre]
  have hr : CsvOpts.resolve ⟨none, false, 0⟩ = some 0 := rfl
  have hk := pdFrame_simple ⟨none, false, 0⟩ rfl pre rest hpre hnb
  obtain ⟨p, hp, _, hcol⟩ := header_bytes_spec ⟨none, false, 0⟩ (pre ++ 10 :: rest) 0 hr (by rw [hk]; simp)
  rw [hk] at hcol
  simp only [List.getElem?_cons_zero, Option.map_some, stripNL_append_NL, Option.some.injEq] at hcol
  rw [hp, hcol]

/-- **the two models read the same rows** from a file without blank lines: `readCsvRows` (block model, `csv_blocks_rows`)
    and `readFiles` with default keywords (options model, `csv_opts_rows`), for every blocksize -/
theorem csv_models_agree (pre rest : List Nat) (hpre : 10 ∉ pre) (hnb : isBlank pre = false)
    (hrows : ∀ l ∈ mlines rest, isBlank l = false) (b : Nat) (hb : 0 < b) (S : Nat)
    (hsz : (pre ++ 10 :: rest).length < 2 ^ 53) (hS : (pre ++ 10 :: rest).length < S) :
    (readFiles ⟨none, false, 0⟩ S [pre ++ 10 :: rest] (some b)).map (fun fs => fs.flatMap (·.rows)) =
      readCsvRows (pre ++ 10 :: rest) (some b) := by
  obtain ⟨frames, W, h1, h2, h3, _⟩ := csv_opts_rows ⟨none, false, 0⟩ ⟨rfl, Or.inl rfl⟩ S pre rest hpre hnb b hb hsz hS
  rw [pdFrame_simple_header _ rfl rfl pre rest hpre hnb] at h2
  cases h2
  rw [h1, csv_blocks_rows pre rest hpre b hb hsz, Option.map_some, h3, ← mlines_eq_lines, mlines_simple pre rest hpre]
  simp only [List.drop_succ_cons, List.drop_zero, Option.some.injEq]
  unfold kept
  rw [List.drop_zero]
  exact List.filter_eq_self.mpr (by intro l hl; simp [hrows l hl])
/-! ## `to_csv` → `read_csv` at line level -/

/-- a data line as `DataFrame.to_csv` writes it: terminated, no terminator inside, not blank -/
def RowLine (l : List Nat) : Prop := ∃ p, l = p ++ NL ∧ 10 ∉ p ∧ isBlank p = false

theorem mlines_rows : ∀ rows : List (List Nat), (∀ r ∈ rows, RowLine r) → mlines rows.flatten = rows
  | [], _ => by decide
  | r :: rows, h => by
    obtain ⟨p, rfl, hp, hnb⟩ := h r List.mem_cons_self
    rw [List.flatten_cons, mlines_hdr_append _ _ ⟨p, rfl, hp, hnb⟩,
      mlines_rows rows fun r' hr' => h r' (List.mem_cons_of_mem _ hr')]

theorem kept_rows (rows : List (List Nat)) (h : ∀ r ∈ rows, RowLine r) : kept 0 rows = rows := by
  unfold kept
  rw [List.drop_zero, List.filter_eq_self]
  intro r hr
  obtain ⟨p, rfl, _, hnb⟩ := h r hr
  simp [isBlank_append_NL, hnb]

theorem kept_mlines_rows (rows : List (List Nat)) (h : ∀ r ∈ rows, RowLine r) : kept 0 (mlines rows.flatten) = rows := by
  rw [mlines_rows rows h, kept_rows rows h]

/-- single-file mode / `header_first_partition_only`: only partition 0 writes the header line -/
theorem partTextsFrom_first_only (w : WOpts) (cols : List Nat) : ∀ (ps : List (List (List Nat))) (i : Nat), 0 < i →
    partTextsFrom w true cols i ps = ps.map List.flatten
  | [], _, _ => rfl
  | p :: ps, i, hi => by
    have : partHeader w true i = false := by
      unfold partHeader
      cases i with
      | zero => exact absurd hi (Nat.lt_irrefl 0)
      | succ n => simp
    simp only [partTextsFrom, this, partText, List.map_cons, partTextsFrom_first_only w cols ps (i + 1) (Nat.succ_pos i)]
    simp

/-- multi-file default: every partition writes the header line -/
theorem partTextsFrom_all (w : WOpts) (hw : w.header = true) (cols : List Nat) : ∀ (ps : List (List (List Nat))) (i : Nat),
    partTextsFrom w false cols i ps = ps.map fun rows => cols ++ rows.flatten
  | [], _ => rfl
  | p :: ps, i => by
    simp [partTextsFrom, partHeader, hw, partText, partTextsFrom_all w hw cols ps (i + 1)]

/-- **to_csv(single_file=True) → read_csv, every blocksize and partitioning** (empty partitions included): one file,
    the header written once, and reading it back block-wise returns exactly the partitions' rows in order -/
theorem roundtrip_single_file (hf : Option Bool) (hhf : hf = none ∨ hf = some true) (pre : List Nat) (hpre : 10 ∉ pre)
    (hnb : isBlank pre = false) (p0 : List (List Nat)) (ps : List (List (List Nat)))
    (hrows : ∀ p ∈ p0 :: ps, ∀ r ∈ p, RowLine r) (b : Nat) (hb : 0 < b) (S : Nat)
    (hsz : (pre ++ 10 :: (p0 :: ps).flatten.flatten).length < 2 ^ 53)
    (hS : (pre ++ 10 :: (p0 :: ps).flatten.flatten).length < S) :
    ∃ frames, writeFiles ⟨true, hf, true⟩ (pre ++ NL) (p0 :: ps) = some [pre ++ 10 :: (p0 :: ps).flatten.flatten] ∧
      readFiles ⟨none, false, 0⟩ S [pre ++ 10 :: (p0 :: ps).flatten.flatten] (some b) = some frames ∧
      frames.flatMap (·.rows) = (p0 :: ps).flatten ∧ ∀ f ∈ frames, f.cols = some pre := by
  have hw : writeFiles ⟨true, hf, true⟩ (pre ++ NL) (p0 :: ps) = some [pre ++ 10 :: (p0 :: ps).flatten.flatten] := by
    have hfp : hfpo ⟨true, hf, true⟩ = some true := by rcases hhf with rfl | rfl <;> rfl
    unfold writeFiles
    simp only [hfp, if_true, partTexts, partTextsFrom, partTextsFrom_first_only _ _ ps 1 (by decide), partHeader, partText]
    simp [NL, List.flatten_flatten]
  have hall : ∀ r ∈ (p0 :: ps).flatten, RowLine r := by
    intro r hr
    obtain ⟨p, hp, hrp⟩ := List.mem_flatten.mp hr
    exact hrows p hp r hrp
  obtain ⟨frames, W, h1, h2, h3, h4⟩ := csv_opts_rows ⟨none, false, 0⟩ ⟨rfl, Or.inl rfl⟩ S pre _ hpre hnb b hb hsz hS
  rw [pdFrame_simple_header _ rfl rfl pre _ hpre hnb] at h2
  cases h2
  refine ⟨frames, hw, h1, ?_, h4⟩
  rw [h3]
  exact kept_mlines_rows _ hall

/-- **to_csv(one file per partition) → read_csv(all files), every blocksize and partitioning**: every file starts with
    the header line; reading the files in partition order returns exactly the partitions' rows in order -/
theorem roundtrip_multi_file (pre : List Nat) (hpre : 10 ∉ pre) (hnb : isBlank pre = false) (p0 : List (List Nat))
    (ps : List (List (List Nat))) (hrows : ∀ p ∈ p0 :: ps, ∀ r ∈ p, RowLine r) (b : Nat) (hb : 0 < b) (S : Nat)
    (hsz : ∀ p ∈ p0 :: ps, (pre ++ 10 :: p.flatten).length < 2 ^ 53) (hS : (pre ++ 10 :: p0.flatten).length < S) :
    ∃ frames, writeFiles ⟨false, none, true⟩ (pre ++ NL) (p0 :: ps) = some ((p0 :: ps).map fun p => pre ++ 10 :: p.flatten) ∧
      readFiles ⟨none, false, 0⟩ S ((p0 :: ps).map fun p => pre ++ 10 :: p.flatten) (some b) = some frames ∧
      frames.flatMap (·.rows) = (p0 :: ps).flatten ∧ ∀ f ∈ frames, f.cols = some pre := by
  have hw : writeFiles ⟨false, none, true⟩ (pre ++ NL) (p0 :: ps) = some ((p0 :: ps).map fun p => pre ++ 10 :: p.flatten) := by
    unfold writeFiles
    simp only [hfpo, Bool.false_eq_true, if_false, partTexts, partTextsFrom_all ⟨false, none, true⟩ rfl]
    simp [NL]
  obtain ⟨frames, h1, h2, h3⟩ := csv_files_rows ⟨none, false, 0⟩ ⟨rfl, Or.inl rfl⟩ rfl rfl S pre hpre hnb p0.flatten
    (ps.map List.flatten) b hb (by
      intro r hr
      rw [← List.map_cons (f := List.flatten)] at hr
      obtain ⟨p, hp, rfl⟩ := List.mem_map.mp hr
      exact hsz p hp) hS
  have hm : (p0.flatten :: ps.map List.flatten).map (fun r => pre ++ 10 :: r) =
      (p0 :: ps).map fun p => pre ++ 10 :: p.flatten := by simp
  rw [hm] at h1
  refine ⟨frames, hw, h1, ?_, h3⟩
  rw [h2, ← List.map_cons (f := List.flatten), List.flatMap_map]
  have : ∀ l : List (List (List Nat)), (∀ p ∈ l, ∀ r ∈ p, RowLine r) →
      l.flatMap (fun p => kept 0 (mlines p.flatten)) = l.flatten := by
    intro l hl
    induction l with
    | nil => rfl
    | cons p l ih =>
      rw [List.flatMap_cons, List.flatten_cons, kept_mlines_rows p (hl p List.mem_cons_self),
        ih fun p' hp' => hl p' (List.mem_cons_of_mem _ hp')]
  exact this _ hrows

/-- **to_csv(header=False, single_file=True) → read_csv(names=…)**: no header line anywhere; read back with `names`
    every row returns, for every blocksize (also for a frame without any row) -/
theorem roundtrip_no_header (hf : Option Bool) (hhf : hf = none ∨ hf = some true) (cols : List Nat)
    (p0 : List (List Nat)) (ps : List (List (List Nat))) (hrows : ∀ p ∈ p0 :: ps, ∀ r ∈ p, RowLine r) (b : Nat)
    (hb : 0 < b) (S : Nat) (hsz : ((p0 :: ps).flatten.flatten).length < 2 ^ 53)
    (hS : ((p0 :: ps).flatten.flatten).length < S) :
    ∃ frames, writeFiles ⟨true, hf, false⟩ cols (p0 :: ps) = some [(p0 :: ps).flatten.flatten] ∧
      readFiles ⟨none, true, 0⟩ S [(p0 :: ps).flatten.flatten] (some b) = some frames ∧
      frames.flatMap (·.rows) = (p0 :: ps).flatten := by
  have hw : writeFiles ⟨true, hf, false⟩ cols (p0 :: ps) = some [(p0 :: ps).flatten.flatten] := by
    have hfp : hfpo ⟨true, hf, false⟩ = some true := by rcases hhf with rfl | rfl <;> rfl
    unfold writeFiles
    simp only [hfp, if_true, partTexts, partTextsFrom, partTextsFrom_first_only _ _ ps 1 (by decide), partHeader, partText]
    simp [List.flatten_flatten]
  have hall : ∀ r ∈ (p0 :: ps).flatten, RowLine r := by
    intro r hr
    obtain ⟨p, hp, hrp⟩ := List.mem_flatten.mp hr
    exact hrows p hp r hrp
  obtain ⟨frames, h1, h2, _⟩ := csv_names_any_file ⟨none, true, 0⟩ rfl rfl (Or.inl rfl) S _ b hb hsz hS
  exact ⟨frames, hw, h1, by rw [h2]; exact kept_mlines_rows _ hall⟩

/-- the options `to_csv` rejects: `header_first_partition_only=False` together with `single_file=True` -/
theorem hfpo_none_iff (w : WOpts) : hfpo w = none ↔ (w.singleFile = true ∧ w.headerFirstOnly = some false) := by
  unfold hfpo
  cases w.headerFirstOnly with
  | none => simp
  | some v => cases v <;> cases w.singleFile <;> simp

/-! ## refutations: the defects this model was written to expose -/

def s (x : String) : List Nat := x.toUTF8.toList.map (·.toNat)

/-- **seeded variant refuted**: if `header` is cleared for the later blocks only when `names` is NOT given, then
    `names=…, header=0` keeps `header=0` for every block and each later block loses its first row -/
theorem names_keep_header_refuted :
    ¬ ∀ (u : Kw) (data : List Nat) (b : Nat) (frames : List Frame) (W : Frame),
      readFilesWith restKwNamesKeepHeader u 256000 [data] (some b) = some frames → pdFrame u data = some W →
      frames.flatMap (·.rows) = W.rows := by
  intro h
  have := h ⟨some (.row 0), true, 0⟩ [97, 10, 49, 10, 50, 10, 51, 10] 2
    [⟨none, [[49, 10]]⟩, ⟨none, []⟩, ⟨none, []⟩, ⟨none, []⟩] ⟨none, [[49, 10], [50, 10], [51, 10]]⟩ (by decide) (by decide)
  revert this
  decide

/-- the same keywords with the code as it is: all three rows -/
example : (readFiles ⟨some (.row 0), true, 0⟩ 256000 [[97, 10, 49, 10, 50, 10, 51, 10]] (some 2)).map (·.flatMap (·.rows)) =
    some [[49, 10], [50, 10], [51, 10]] := by decide

/-- **why the header row must be located the way pandas does** (defect repaired by e673923): with a blank line handed
    to the later blocks as "header" each of them takes its own first row for the header -/
theorem blank_header_bytes_refuted :
    ¬ ∀ (data : List Nat) (b : Nat) (frames : List Frame) (W : Frame),
      readAll restKw ⟨none, false, 0⟩ NL (some [97]) (some b) [data] = some frames →
      pdFrame ⟨none, false, 0⟩ data = some W → frames.flatMap (·.rows) = W.rows := by
  intro h
  have := h [10, 97, 10, 49, 10, 50, 10, 51, 10] 4 [⟨some [97], [[49, 10]]⟩, ⟨some [50], [[51, 10]]⟩]
    ⟨some [97], [[49, 10], [50, 10], [51, 10]]⟩ (by decide) (by decide)
  revert this
  decide

/-- the repaired `_header_row` skips the blank line: the same file, every row, the right columns -/
example : readFiles ⟨none, false, 0⟩ 256000 [[10, 97, 10, 49, 10, 50, 10, 51, 10]] (some 4) =
    some [⟨some [97], [[49, 10]]⟩, ⟨some [97], [[50, 10], [51, 10]]⟩] := by decide
example : headerBytes ⟨none, false, 0⟩ [10, 32, 10, 97, 10, 49, 10] = some [97, 10] := by decide
example : headerBytes ⟨some (.row 1), false, 1⟩ [120, 10, 10, 113, 10, 10, 97, 10, 49, 10] = some [97, 10] := by decide

/-- `header=None` without `names` and a block without rows: an empty partition (after af2d511), not EmptyDataError -/
example : readFiles ⟨some .none, false, 0⟩ 256000 [[49, 50, 51, 10, 52, 10]] (some 1) =
    some [⟨none, [[49, 50, 51, 10]]⟩, ⟨none, []⟩, ⟨none, []⟩, ⟨none, [[52, 10]]⟩, ⟨none, []⟩, ⟨none, []⟩] := by decide

/-- what the hypothesis `FirstCovers` excludes: `header=1` with a first block that ends before row 1 — the first
    partition raises (pandas' ParserError) although pandas reads the file; recorded as a finding -/
example : readFiles ⟨some (.row 1), false, 0⟩ 256000 [[97, 10, 98, 10, 49, 10]] (some 1) = none := by decide
/-- `skiprows` with a blocksize below the sample size: the sample is cut to the blocksize and
    `read_pandas` raises its documented "Sample is not large enough" -/
example : readFiles ⟨none, false, 1⟩ 256000 [[97, 10, 98, 10, 49, 10]] (some 1) = none := by decide
example : sampleSize ⟨none, false, 1⟩ (some 3) 256000 = 3 := by decide
example : pdFrame ⟨some (.row 1), false, 0⟩ [97, 10, 98, 10, 49, 10] = some ⟨some [98], [[49, 10]]⟩ := by decide

instance (kw : Kw) (K : List (List Nat)) : Decidable (Covers kw K) := by
  unfold Covers; split <;> infer_instance

/-! non-vacuity of the hypotheses (a concrete instance of every theorem above) -/
example : InMatrix ⟨some (.row 0), true, 0⟩ := ⟨rfl, Or.inr (Or.inl rfl)⟩
example : InMatrix ⟨none, false, 0⟩ := ⟨rfl, Or.inl rfl⟩
example : isBlank [97, 44, 98] = false := by decide
example : HdrLine [97, 10] := ⟨[97], rfl, by decide, by decide⟩
example : RestOK ⟨none, false, 0⟩ [97, 10] (some [97]) := Or.inr (Or.inr ⟨by decide, [97], rfl, by decide, by decide⟩)
example : FirstCovers ⟨none, false, 0⟩ [[97, 10, 49, 10], [50, 10]] := ⟨by decide, by decide⟩
example : FirstCovers ⟨some (.row 1), false, 1⟩ [[120, 10, 10, 113, 10, 97, 10], [49, 10]] := ⟨by decide, by decide⟩
example : FileOK ⟨none, false, 0⟩ 3 [97, 10, 49, 10, 50, 10] :=
  ⟨by decide, [[97, 10, 49, 10], [50, 10]], by decide, by decide, by decide⟩
example : RowLine [49, 44, 50, 10] := ⟨[49, 44, 50], rfl, by decide, by decide⟩
example : writeFiles ⟨true, none, true⟩ [97, 10] [[[49, 10]], [], [[50, 10], [51, 10]]] =
    some [[97, 10, 49, 10, 50, 10, 51, 10]] := by decide
example : writeFiles ⟨false, none, true⟩ [97, 10] [[[49, 10]], [], [[50, 10], [51, 10]]] =
    some [[97, 10, 49, 10], [97, 10], [97, 10, 50, 10, 51, 10]] := by decide
example : writeFiles ⟨false, some true, true⟩ [97, 10] [[[49, 10]], [], [[50, 10], [51, 10]]] =
    some [[97, 10, 49, 10], [], [50, 10, 51, 10]] := by decide
example : writeFiles ⟨true, some false, true⟩ [97, 10] [[[49, 10]]] = none := by decide
example : readFiles ⟨none, false, 0⟩ 256000 [[97, 10, 49, 10], [97, 10, 50, 10, 51, 10]] (some 3) =
    some [⟨some [97], [[49, 10]]⟩, ⟨some [97], [[50, 10]]⟩, ⟨some [97], [[51, 10]]⟩] := by decide

end Dask.C47
