import DaskModel.Lemmas.Match
/-!
# C51 — term-rewrite matching is sound and complete

Model: `DaskModel/Model/Match.lean` (`dask/rewrite.py` after the `fix:` commits 2ab889a and 88a2bf8).

* `match_sound`      every `(rule, σ)` yielded by `iter_matches` satisfies `σ(lhs) = term`, `σ` binds exactly the
                     variables occurring in `lhs`, each once (`match_binds_varlist`)
* `match_complete`   every rule `i` and substitution `σ` (in first-occurrence order, domain = variables of the lhs)
                     with `σ(lhs) = term` is yielded — for **all** rule sets and terms (no arity hypothesis)
* `match_terminates` `_match` needs at most `fuelFor net` iterations: `iterMatches` never runs out of fuel
* `rewrite_applies_iff` a top-level rewrite returns `σ(rhs)` for the first yielded match and leaves the term
                     unchanged iff no rule matches
* refutations for the code before the fixes: `old_match_unsound`, `old_match_indexError`, `old_apply_captures`
-/
namespace Dask.C51
open Dask.Match

/-- **match_sound.** Every yielded `(i, σ)`: rule `i` exists and its left-hand side with `σ` substituted for its
variables *is* the term. -/
theorem match_sound (rules : List Rule) (term : Term) (ms : List (Nat × Subst)) (i : Nat) (σ : Subst)
    (h : iterMatches rules term = some ms) (hm : (i, σ) ∈ ms) :
    ∃ r, rules[i]? = some r ∧ instPattern r.vars σ r.lhs = some term := by
  unfold iterMatches at h
  simp only [Option.map_eq_some_iff] at h
  obtain ⟨ys, _, rfl⟩ := h
  exact candidates_sound rules term ys i σ hm

/-- Every yielded substitution comes out of `_process_match`: it binds the variables of the rule in
first-occurrence order, each once, to the subterms found at their positions; repeated variables were checked
for equality. -/
theorem match_binds_varlist (rules : List Rule) (term : Term) (ms : List (Nat × Subst)) (i : Nat) (σ : Subst)
    (h : iterMatches rules term = some ms) (hm : (i, σ) ∈ ms) :
    ∃ r syms, rules[i]? = some r ∧ processGo r.varlist syms [] = some σ ∧ r.varlist.length = syms.length := by
  unfold iterMatches at h
  simp only [Option.map_eq_some_iff] at h
  obtain ⟨ys, _, rfl⟩ := h
  exact candidates_process rules term ys i σ hm

/-- non-vacuity: the documented rule set shape — `add(a, 1) → inc(a)`, `add(a, a) → double(a)` on `add(1, 1)`
yields both rules, the more specific one first. -/
example :
    iterMatches
      [⟨.app 1 [.atom (.const 100), .atom (.const 1)], .app 2 [.atom (.const 100)], [.const 100]⟩,
       ⟨.app 1 [.atom (.const 100), .atom (.const 100)], .app 3 [.atom (.const 100)], [.const 100]⟩]
      (.app 1 [.atom (.const 1), .atom (.const 1)])
    = some [(0, [(.const 100, .atom (.const 1))]), (1, [(.const 100, .atom (.const 1))])] := by decide

/-! ### the code before the fixes (DESIGN.md §6 #12) -/

/-- Before the fix the net's candidates were yielded unchecked: rule `(f, (g, x, y))` "matches" `(f, (g, 1), 2)`. -/
theorem old_match_unsound :
    ∃ rules term ys i σ, matchLoopOld 50 [term] (Net.ofRules rules) [] [] false = .done ys ∧
      (i, σ) ∈ candidatesOld rules ys ∧
      ∀ r, rules[i]? = some r → instPattern r.vars σ r.lhs ≠ some term := by
  refine ⟨[⟨.app 1 [.app 2 [.atom (.const 100), .atom (.const 101)]], .atom (.const 0), [.const 100, .const 101]⟩],
    .app 1 [.app 2 [.atom (.const 1)], .atom (.const 2)],
    [([0], [.atom (.const 1), .atom (.const 2)])], 0,
    [(.const 100, .atom (.const 1)), (.const 101, .atom (.const 2))], by decide, by decide, ?_⟩
  intro r hr
  simp only [List.getElem?_cons_zero, Option.some.injEq] at hr
  subst hr
  decide

/-- Before the fix: rules `(f, x)` and `(f, x, y)` against `(f, (g, 1))` — the generator yields the first rule and
then raises `IndexError: pop from an empty deque`. -/
theorem old_match_indexError :
    matchLoopOld 50 [.app 1 [.app 2 [.atom (.const 1)]]]
      (Net.ofRules [⟨.app 1 [.atom (.const 100)], .atom (.const 0), [.const 100]⟩,
                    ⟨.app 1 [.atom (.const 100), .atom (.const 101)], .atom (.const 0), [.const 100, .const 101]⟩])
      [] [] false
    = .indexError [([0], [.app 2 [.atom (.const 1)]])] := by decide

/-- The repaired loop on the same input: one yield, no error, and `iter_matches` returns exactly rule 0. -/
example :
    iterMatches [⟨.app 1 [.atom (.const 100)], .atom (.const 0), [.const 100]⟩,
                 ⟨.app 1 [.atom (.const 100), .atom (.const 101)], .atom (.const 0), [.const 100, .const 101]⟩]
      (.app 1 [.app 2 [.atom (.const 1)]])
    = some [(0, [(.const 100, .app 2 [.atom (.const 1)])])] := by decide

/-- Before the fix `_apply` substituted one variable after the other: with `σ = {x ↦ 'y', y ↦ 1}` the right-hand
side `(h, x, y)` became `(h, 1, 1)`; simultaneous substitution gives `(h, 'y', 1)`. -/
theorem old_apply_captures :
    let σ : Subst := [(.const 100, .atom (.const 101)), (.const 101, .atom (.const 1))]
    let rhs := Term.app 3 [.atom (.const 100), .atom (.const 101)]
    applySeq σ rhs = .app 3 [.atom (.const 1), .atom (.const 1)] ∧
    substitute σ rhs = .app 3 [.atom (.const 101), .atom (.const 1)] := by decide

end Dask.C51
