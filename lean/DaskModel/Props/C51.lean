import DaskModel.Lemmas.Match
import DaskModel.Lemmas.MatchComplete
import DaskModel.Lemmas.MatchNodup
/-!
# C51 — term-rewrite matching is sound and complete

Model: `DaskModel/Model/Match.lean` (`dask/rewrite.py` after the `fix:` commits 2ab889a and 88a2bf8).

* `match_sound`      every `(rule, σ)` yielded by `iter_matches` satisfies `σ(lhs) = term`, `σ` binds exactly the
                     variables occurring in `lhs`, each once (`match_binds_varlist`)
* `match_complete`   every rule `i` and substitution `σ` (in first-occurrence order, domain = variables of the lhs)
                     with `σ(lhs) = term` is yielded — for **all** rule sets and terms (no arity hypothesis)
* `match_terminates` `_match` needs at most `fuelFor net` iterations: `iterMatches` never runs out of fuel
* `rewrite_applies_iff` a top-level rewrite returns `σ(rhs)` for the first yielded match and leaves the term
                     unchanged iff no rule matches
* refutations for the code before the fixes: `old_match_unsound`, `old_match_indexError`, `old_apply_captures`
-/
namespace Dask.C51
open Dask.Match

/-- **match_sound.** Every yielded `(i, σ)`: rule `i` exists and its left-hand side with `σ` substituted for its
variables *is* the term. -/
theorem match_sound (rules : List Rule) (term : Term) (ms : List (Nat × Subst)) (i : Nat) (σ : Subst)
    (h : iterMatches rules term = some ms) (hm : (i, σ) ∈ ms) :
    ∃ r, rules[i]? = some r ∧ instPattern r.vars σ r.lhs = some term := by
  unfold iterMatches at h
  simp only [Option.map_eq_some_iff] at h
  obtain ⟨ys, _, rfl⟩ := h
  exact candidates_sound rules term ys i σ hm

/-- Every yielded substitution comes out of `_process_match`: it binds the variables of the rule in
first-occurrence order, each once, to the subterms found at their positions; repeated variables were checked
for equality. -/
theorem match_binds_varlist (rules : List Rule) (term : Term) (ms : List (Nat × Subst)) (i : Nat) (σ : Subst)
    (h : iterMatches rules term = some ms) (hm : (i, σ) ∈ ms) :
    ∃ r syms, rules[i]? = some r ∧ processGo r.varlist syms [] = some σ ∧ r.varlist.length = syms.length := by
  unfold iterMatches at h
  simp only [Option.map_eq_some_iff] at h
  obtain ⟨ys, _, rfl⟩ := h
  exact candidates_process rules term ys i σ hm

/-- non-vacuity: the documented rule set shape — `add(a, 1) → inc(a)`, `add(a, a) → double(a)` on `add(1, 1)`
yields both rules, the more specific one first. -/
example :
    iterMatches
      [⟨.app 1 [.atom (.const 100), .atom (.const 1)], .app 2 [.atom (.const 100)], [.const 100]⟩,
       ⟨.app 1 [.atom (.const 100), .atom (.const 100)], .app 3 [.atom (.const 100)], [.const 100]⟩]
      (.app 1 [.atom (.const 1), .atom (.const 1)])
    = some [(0, [(.const 100, .atom (.const 1))]), (1, [(.const 100, .atom (.const 1))])] := by decide

/-- **match_terminates.** `_match` never needs more than `fuelFor net = 2·(Σ|path|+1)+3` iterations: `iter_matches`
always returns (the model never runs out of fuel), for every rule set and every term. -/
theorem match_terminates (rules : List Rule) (term : Term) : ∃ ms, iterMatches rules term = some ms := by
  unfold iterMatches
  simp only [matchLoop_walk]
  exact ⟨_, rfl⟩

/-- **match_complete.** For *every* rule set and term (no arity discipline assumed): if rule `i` is well formed (no
head of a compound sub-pattern is declared a variable) and `σ(lhs_i) = term`, then `iter_matches` yields rule `i`
with a substitution that agrees with `σ` on every variable of the left-hand side. -/
theorem match_complete (rules : List Rule) (term : Term) (i : Nat) (r : Rule) (σ : Subst)
    (hr : rules[i]? = some r) (hwf : headsOk r.vars r.lhs = true)
    (hinst : instPattern r.vars σ r.lhs = some term) :
    ∃ ms σ', iterMatches rules term = some ms ∧ (i, σ') ∈ ms ∧ ∀ v ∈ r.varlist, σ'.get v = σ.get v := by
  -- the loop is the walk
  have hloop := matchLoop_walk (Net.ofRules rules) term
  -- the rule's path consumes the term with the bindings read off σ
  have hpm : PathMatch r.path [term] (bindsOf r.vars σ r.lhs) := by
    have := pathMatch_of_inst r.vars σ r.lhs term hwf hinst [] [] [] PathMatch.nil
    simpa [Rule.path, edgesOf] using this
  obtain ⟨y, hy, hiy, hy2⟩ := (walk_spec (Net.ofRules rules) [term] [] i (bindsOf r.vars σ r.lhs)).mpr
    ⟨r.path, _, mem_ofRules rules i r hr, hpm, by simp⟩
  -- `_process_match` rebuilds σ on the variables of the lhs
  have hspec : r.varlist.map σ.get = (bindsOf r.vars σ r.lhs).map some := bindsOf_spec r.vars σ r.lhs term hwf hinst
  have hlen : r.varlist.length = (bindsOf r.vars σ r.lhs).length := by
    have := congrArg List.length hspec
    simpa using this
  have hpt : ∀ j (hj : j < r.varlist.length) (hj' : j < (bindsOf r.vars σ r.lhs).length),
      σ.get r.varlist[j] = some (bindsOf r.vars σ r.lhs)[j] := by
    intro j hj hj'
    have := congrArg (fun l => l[j]?) hspec
    simpa [hj, hj'] using this
  obtain ⟨σ', hgo, hsub, hall, _⟩ := processGo_complete σ r.varlist _ [] hlen hpt (by intro v t h; simp [Subst.get] at h)
  have hagree : ∀ v ∈ r.varlist, σ'.get v = σ.get v := by
    intro v hv
    have := hall v hv
    cases hg : σ'.get v with
    | none => rw [hg] at this; cases this
    | some t => exact (hsub v t hg).symm
  have hverify : instantiates r.vars σ' r.lhs term = true := by
    rw [instantiates_iff, instPattern_congr r.vars σ σ' r.lhs (by intro v hv; exact hagree v hv)]
    exact hinst
  refine ⟨candidates rules term (walk (Net.ofRules rules) [term] []), σ', ?_, ?_, hagree⟩
  · unfold iterMatches
    simp only [hloop, Option.map_some]
  · unfold candidates
    simp only [List.mem_flatMap, List.mem_filterMap]
    refine ⟨y, hy, i, hiy, ?_⟩
    have hpmatch : processMatch r.varlist y.2 = some (some σ') := by
      rw [hy2]
      unfold processMatch
      simp [hlen, hgo]
    simp [hr, hpmatch, hverify]

/-- non-vacuity of `match_complete` without any arity discipline: `f` is used with one and with two arguments, the
two-argument rule is found for `(f, (g, 1), 3)` (the code before the fix raised `IndexError` on this rule set). -/
example :
    let rules : List Rule :=
      [⟨.app 1 [.atom (.const 100)], .atom (.const 0), [.const 100]⟩,
       ⟨.app 1 [.atom (.const 100), .atom (.const 101)], .atom (.const 0), [.const 100, .const 101]⟩]
    headsOk [.const 100, .const 101] (.app 1 [.atom (.const 100), .atom (.const 101)]) = true ∧
    iterMatches rules (.app 1 [.app 2 [.atom (.const 1)], .atom (.const 3)])
      = some [(1, [(.const 100, .app 2 [.atom (.const 1)]), (.const 101, .atom (.const 3))])] := by decide

/-- **rewrite_applies_iff.** A top-level rewrite returns `σ(rhs)` of the first yielded rule; it leaves the term
unchanged exactly when nothing is yielded — and by `match_complete` that happens only if no well-formed rule has an
instance equal to the term. -/
theorem rewrite_applies_iff (rules : List Rule) (term : Term) :
    ∃ ms, iterMatches rules term = some ms ∧
      ((ms = [] ∧ rewriteTop rules term = some term ∧
          ∀ (i : Nat) (r : Rule) (σ : Subst), rules[i]? = some r → headsOk r.vars r.lhs = true →
            instPattern r.vars σ r.lhs ≠ some term) ∨
       (∃ i σ rest r, ms = (i, σ) :: rest ∧ rules[i]? = some r ∧ instPattern r.vars σ r.lhs = some term ∧
          rewriteTop rules term = some (substitute σ r.rhs))) := by
  obtain ⟨ms, hms⟩ := match_terminates rules term
  refine ⟨ms, hms, ?_⟩
  cases ms with
  | nil =>
    left
    refine ⟨rfl, by simp [rewriteTop, hms], ?_⟩
    intro i r σ hr hwf hinst
    obtain ⟨ms', σ', h1, h2, _⟩ := match_complete rules term i r σ hr hwf hinst
    rw [hms] at h1
    cases h1
    cases h2
  | cons m rest =>
    right
    obtain ⟨i, σ⟩ := m
    obtain ⟨r, hr, hinst⟩ := match_sound rules term _ i σ hms (List.mem_cons_self)
    exact ⟨i, σ, rest, r, rfl, hr, hinst, by simp [rewriteTop, hms, hr]⟩

/-- **match_yields_once.** No rule is yielded twice: the rule indices of the yielded matches are pairwise distinct.
Together with `match_sound` and `match_complete`: `iter_matches` yields *exactly* the (well-formed) rules whose
left-hand side has an instance equal to the term, each once. -/
theorem match_yields_once (rules : List Rule) (term : Term) (ms : List (Nat × Subst))
    (h : iterMatches rules term = some ms) : (ms.map (·.1)).Nodup := by
  unfold iterMatches at h
  simp only [matchLoop_walk, Option.map_some, Option.some.injEq] at h
  subst h
  rw [List.nodup_iff_count]
  intro i
  have h1 := count_candidates_le rules term (walk (Net.ofRules rules) [term] []) i
  have h2 := count_walk_le (Net.ofRules rules) [term] [] i
  have h3 := List.nodup_iff_count.mp (idxOf_ofRules_nodup rules) i
  omega

/-! ### the code before the fixes (DESIGN.md §6 #12) -/

/-- Before the fix the net's candidates were yielded unchecked: rule `(f, (g, x, y))` "matches" `(f, (g, 1), 2)`. -/
theorem old_match_unsound :
    ∃ rules term ys i σ, matchLoopOld 50 [term] (Net.ofRules rules) [] [] false = .done ys ∧
      (i, σ) ∈ candidatesOld rules ys ∧
      ∀ r, rules[i]? = some r → instPattern r.vars σ r.lhs ≠ some term := by
  refine ⟨[⟨.app 1 [.app 2 [.atom (.const 100), .atom (.const 101)]], .atom (.const 0), [.const 100, .const 101]⟩],
    .app 1 [.app 2 [.atom (.const 1)], .atom (.const 2)],
    [([0], [.atom (.const 1), .atom (.const 2)])], 0,
    [(.const 100, .atom (.const 1)), (.const 101, .atom (.const 2))], by decide, by decide, ?_⟩
  intro r hr
  simp only [List.getElem?_cons_zero, Option.some.injEq] at hr
  subst hr
  decide

/-- Before the fix: rules `(f, x)` and `(f, x, y)` against `(f, (g, 1))` — the generator yields the first rule and
then raises `IndexError: pop from an empty deque`. -/
theorem old_match_indexError :
    matchLoopOld 50 [.app 1 [.app 2 [.atom (.const 1)]]]
      (Net.ofRules [⟨.app 1 [.atom (.const 100)], .atom (.const 0), [.const 100]⟩,
                    ⟨.app 1 [.atom (.const 100), .atom (.const 101)], .atom (.const 0), [.const 100, .const 101]⟩])
      [] [] false
    = .indexError [([0], [.app 2 [.atom (.const 1)]])] := by decide

/-- The repaired loop on the same input: one yield, no error, and `iter_matches` returns exactly rule 0. -/
example :
    iterMatches [⟨.app 1 [.atom (.const 100)], .atom (.const 0), [.const 100]⟩,
                 ⟨.app 1 [.atom (.const 100), .atom (.const 101)], .atom (.const 0), [.const 100, .const 101]⟩]
      (.app 1 [.app 2 [.atom (.const 1)]])
    = some [(0, [(.const 100, .app 2 [.atom (.const 1)])])] := by decide

/-- Before the fix `_apply` substituted one variable after the other: with `σ = {x ↦ 'y', y ↦ 1}` the right-hand
side `(h, x, y)` became `(h, 1, 1)`; simultaneous substitution gives `(h, 'y', 1)`. -/
theorem old_apply_captures :
    let σ : Subst := [(.const 100, .atom (.const 101)), (.const 101, .atom (.const 1))]
    let rhs := Term.app 3 [.atom (.const 100), .atom (.const 101)]
    applySeq σ rhs = .app 3 [.atom (.const 1), .atom (.const 1)] ∧
    substitute σ rhs = .app 3 [.atom (.const 101), .atom (.const 1)] := by decide

end Dask.C51
