import DaskModel.Lemmas.Match
import DaskModel.Lemmas.MatchComplete
import DaskModel.Lemmas.MatchNodup
/-!
# C51 — term-rewrite matching is sound and complete

Model: `DaskModel/Model/Match.lean` (`dask/rewrite.py` after the `fix:` commits 2ab889a and 88a2bf8).

* `match_sound`      every `(rule, σ)` yielded by `iter_matches` satisfies `σ(lhs) = term`, `σ` binds exactly the
                     variables occurring in `lhs`, each once (`match_binds_varlist`)
* `match_complete`   every rule `i` and substitution `σ` (in first-occurrence order, domain = variables of the lhs)
                     with `σ(lhs) = term` is yielded — for **all** rule sets and terms (no arity hypothesis)
* `match_terminates` `_match` needs at most `fuelFor net` iterations: `iterMatches` never runs out of fuel
* `rewrite_applies_iff` a top-level rewrite returns `σ(rhs)` for the first yielded match and leaves the term
                     unchanged iff no rule matches
* refutations for the code before the fixes: `old_match_unsound`, `old_match_indexError`, `old_apply_captures`
-/
namespace Dask.C51
open Dask.Match

/-- **match_sound.** Every yielded `(i, σ)`: rule `i` exists and its left-hand side with `σ` substituted for its
variables *is* the term. -/
theorem match_sound (rules : List Rule) (term : Term) (ms : List (Nat × Subst)) (i : Nat) (σ : Subst)
    (h : iterMatches rules term = some ms) (hm : (i, σ) ∈ ms) :
    ∃ r, rules[i]? = some r ∧ instPattern r.vars σ r.lhs = some term := by
  unfold iterMatches at h
  simp only [Option.map_eq_some_iff] at h
  obtain ⟨ys, _, rfl⟩ := h
  exact candidates_sound rules term ys i σ hm

/-- Every yielded substitution comes out of `_process_match`: it binds the variables of the rule in
first-occurrence order, each once, to the subterms found at their positions; repeated variables were checked
for equality. -/
theorem match_binds_varlist (rules : List Rule) (term : Term) (ms : List (Nat × Subst)) (i : Nat) (σ : Subst)
    (h : iterMatches rules term = some ms) (hm : (i, σ) ∈ ms) :
    ∃ r syms, rules[i]? = some r ∧ processGo r.varlist syms [] = some σ ∧ r.varlist.length = syms.length := by
  unfold iterMatches at h
  simp only [Option.map_eq_some_iff] at h
  obtain ⟨ys, _, rfl⟩ := h
  exact candidates_process rules term ys i σ hm

/-- non-vacuity: the documented rule set shape — `add(a, 1) → inc(a)`, `add(a, a) → double(a)` on `add(1, 1)`
yields both rules, the more specific one first. -/
example :
    iterMatches
      [⟨.app 1 [.atom (.const 100), .atom (.const 1)], .app 2 [.atom (.const 100)], [.const 100]⟩,
       ⟨.app 1 [.atom (.const 100), .atom (.const 100)], .app 3 [.atom (.const 100)], [.const 100]⟩]
      (.app 1 [.atom (.const 1), .atom (.const 1)])
    = some [(0, [(.const 100, .atom (.const 1))]), (1, [(.const 100, .atom (.const 1))])] := by decide

/-- **match_terminates.** `_match` never needs more than `fuelFor net = 2·(Σ|path|+1)+3` iterations: `iter_matches`
always returns (the model never runs out of fuel), for every rule set and every term. -/
theorem match_terminates (rules : List Rule) (term : Term) : ∃ ms, iterMatches rules term = some ms := by
  unfold iterMatches
  simp only [matchLoop_walk]
  exact ⟨_, rfl⟩

/-- **match_complete.** For *every* rule set and term (no arity discipline assumed): if rule `i` is well formed (no
head of a compound sub-pattern is declared a variable) and `σ(lhs_i) = term`, then `iter_matches` yields rule `i`
with a substitution that agrees with `σ` on every variable of the left-hand side. -/
theorem match_complete (rules : List Rule) (term : Term) (i : Nat) (r : Rule) (σ : Subst)
    (hr : rules[i]? = some r) (hwf : headsOk r.vars r.lhs = true)
    (hinst : instPattern r.vars σ r.lhs = some term) :
    ∃ ms σ', iterMatches rules term = some ms ∧ (i, σ') ∈ ms ∧ ∀ v ∈ r.varlist, σ'.get v = σ.get v := by
  -- the loop is the walk
  have hloop := matchLoop_walk (Net.ofRules rules) term
  -- the rule's path consumes the term with the bindings read off σ
  have hpm : PathMatch r.path [term] (bindsOf r.vars σ r.lhs) := by
    have := pathMatch_of_inst r.vars σ r.lhs term hwf hinst [] [] [] PathMatch.nil
    simpa [Rule.path, edgesOf] using this
  obtain ⟨y, hy, hiy, hy2⟩ := (walk_spec (Net.ofRules rules) [term] [] i (bindsOf r.vars σ r.lhs)).mpr
    ⟨r.path, _, mem_ofRules rules i r hr, hpm, by simp⟩
  -- `_process_match` rebuilds σ on the variables of the lhs
  have hspec : r.varlist.map σ.get = (bindsOf r.vars σ r.lhs).map some := bindsOf_spec r.vars σ r.lhs term hwf hinst
  have hlen : r.varlist.length = (bindsOf r.vars σ r.lhs).length := by
    have := congrArg List.length hspec
    simpa using this
  have hpt : ∀ j (hj : j < r.varlist.length) (hj' : j < (bindsOf r.vars σ r.lhs).length),
      σ.get r.varlist[j] = some (bindsOf r.vars σ r.lhs)[j] := by
    intro j hj hj'
    have := congrArg (fun l => l[j]?) hspec
    simpa [hj, hj'] using this
  obtain ⟨σ', hgo, hsub, hall, _⟩ := processGo_complete σ r.varlist _ [] hlen hpt (by intro v t h; simp [Subst.get] at h)
  have hagree : ∀ v ∈ r.varlist, σ'.get v = σ.get v := by
    intro v hv
    have := hall v hv
    cases hg : σ'.get v with
    | none => rw [hg] at this; cases this
    | some t => exact (hsub v t hg).symm
  have hverify : instantiates r.vars σ' r.lhs term = true := by
    rw [instantiates_iff, instPattern_congr r.vars σ σ' r.lhs (by intro v hv; exact hagree v hv)]
    exact hinst
  refine ⟨candidates rules term (walk (Net.ofRules rules) [term] []), σ', ?_, ?_, hagree⟩
  · unfold iterMatches
    simp only [hloop, Option.map_some]
  · unfold candidates
    simp only [List.mem_flatMap, List.mem_filterMap]
    refine ⟨y, hy, i, hiy, ?_⟩
    have hpmatch : processMatch r.varlist y.2 = some (some σ') := by
      rw [hy2]
      unfold processMatch
      simp [hlen, hgo]
    simp [hr, hpmatch, hverify]

/-- non-vacuity of `match_complete` without any arity discipline: `f` is used with one and with two arguments, the
two-argument rule is found for `(f, (g, 1), 3)` (the code before the fix raised `IndexError` on this rule set). -/
example :
    let rules : List Rule :=
      [⟨.app 1 [.atom (.const 100)], .atom (.const 0), [.const 100]⟩,
       ⟨.app 1 [.atom (.const 100), .atom (.const 101)], .atom (.const 0), [.const 100, .const 101]⟩]
    headsOk [.const 100, .const 101] (.app 1 [.atom (.const 100), .atom (.const 101)]) = true ∧
    iterMatches rules (.app 1 [.app 2 [.atom (.const 1)], .atom (.const 3)])
      = some [(1, [(.const 100, .app 2 [.atom (.const 1)]), (.const 101, .atom (.const 3))])] := by decide

/-- **rewrite_applies_iff.** A top-level rewrite returns `σ(rhs)` of the first yielded rule; it leaves the term
unchanged exactly when nothing is yielded — and by `match_complete` that happens only if no well-formed rule has an
instance equal to the term. -/
theorem rewrite_applies_iff (rules : List Rule) (term : Term) :
    ∃ ms, iterMatches rules term = some ms ∧
      ((ms = [] ∧ rewriteTop rules term = some term ∧
          ∀ (i : Nat) (r : Rule) (σ : Subst), rules[i]? = some r → headsOk r.vars r.lhs = true →
            instPattern r.vars σ r.lhs ≠ some term) ∨
       (∃ i σ rest r, ms = (i, σ) :: rest ∧ rules[i]? = some r ∧ instPattern r.vars σ r.lhs = some term ∧
          rewriteTop rules term = some (substitute σ r.rhs))) := by
  obtain ⟨ms, hms⟩ := match_terminates rules term
  refine ⟨ms, hms, ?_⟩
  cases ms with
  | nil =>
    left
    refine ⟨rfl, by simp [rewriteTop, hms], ?_⟩
    intro i r σ hr hwf hinst
    obtain ⟨ms', σ', h1, h2, _⟩ := match_complete rules term i r σ hr hwf hinst
    rw [hms] at h1
    cases h1
    cases h2
  | cons m rest =>
    right
    obtain ⟨i, σ⟩ := m
    obtain ⟨r, hr, hinst⟩ := match_sound rules term _ i σ hms (List.mem_cons_self)
    exact ⟨i, σ, rest, r, rfl, hr, hinst, by simp [rewriteTop, hms, hr]⟩

/-- **match_yields_once.** No rule is yielded twice: the rule indices of the yielded matches are pairwise distinct.
Together with `match_sound` and `match_complete`: `iter_matches` yields *exactly* the (well-formed) rules whose
left-hand side has an instance equal to the term, each once. -/
theorem match_yields_once (rules : List Rule) (term : Term) (ms : List (Nat × Subst))
    (h : iterMatches rules term = some ms) : (ms.map (·.1)).Nodup := by
  unfold iterMatches at h
  simp only [matchLoop_walk, Option.map_some, Option.some.injEq] at h
  subst h
  rw [List.nodup_iff_count]
  intro i
  have h1 := count_candidates_le rules term (walk (Net.ofRules rules) [term] []) i
  have h2 := count_walk_le (Net.ofRules rules) [term] [] i
  have h3 := List.nodup_iff_count.mp (idxOf_ofRules_nodup rules) i
  omega

/-! ### the code before the fixes (DESIGN.md §6 #12) -/

/-- Before the fix the net's candidates were yielded unchecked: rule `(f, (g, x, y))` "matches" `(f, (g, 1), 2)`. -/
theorem old_match_unsound :
    ∃ rules term ys i σ, matchLoopOld 50 [term] (Net.ofRules rules) [] [] false = .done ys ∧
      (i, σ) ∈ candidatesOld rules ys ∧
      ∀ r, rules[i]? = some r → instPattern r.vars σ r.lhs ≠ some term := by
  refine ⟨[⟨.app 1 [.app 2 [.atom (.const 100), .atom (.const 101)]], .atom (.const 0), [.const 100, .const 101]⟩],
    .app 1 [.app 2 [.atom (.const 1)], .atom (.const 2)],
    [([0], [.atom (.const 1), .atom (.const 2)])], 0,
    [(.const 100, .atom (.const 1)), (.const 101, .atom (.const 2))], by decide, by decide, ?_⟩
  intro r hr
  simp only [List.getElem?_cons_zero, Option.some.injEq] at hr
  subst hr
  decide

/-- Before the fix: rules `(f, x)` and `(f, x, y)` against `(f, (g, 1))` — the generator yields the first rule and
then raises `IndexError: pop from an empty deque`. -/
theorem old_match_indexError :
    matchLoopOld 50 [.app 1 [.app 2 [.atom (.const 1)]]]
      (Net.ofRules [⟨.app 1 [.atom (.const 100)], .atom (.const 0), [.const 100]⟩,
                    ⟨.app 1 [.atom (.const 100), .atom (.const 101)], .atom (.const 0), [.const 100, .const 101]⟩])
      [] [] false
    = .indexError [([0], [.app 2 [.atom (.const 1)]])] := by decide

/-- The repaired loop on the same input: one yield, no error, and `iter_matches` returns exactly rule 0. -/
example :
    iterMatches [⟨.app 1 [.atom (.const 100)], .atom (.const 0), [.const 100]⟩,
                 ⟨.app 1 [.atom (.const 100), .atom (.const 101)], .atom (.const 0), [.const 100, .const 101]⟩]
      (.app 1 [.app 2 [.atom (.const 1)]])
    = some [(0, [(.const 100, .app 2 [.atom (.const 1)])])] := by decide

/-- Before the fix `_apply` substituted one variable after the other: with `σ = {x ↦ 'y', y ↦ 1}` the right-hand
side `(h, x, y)` became `(h, 1, 1)`; simultaneous substitution gives `(h, 'y', 1)`. -/
theorem old_apply_captures :
    let σ : Subst := [(.const 100, .atom (.const 101)), (.const 101, .atom (.const 1))]
    let rhs := Term.app 3 [.atom (.const 100), .atom (.const 101)]
    applySeq σ rhs = .app 3 [.atom (.const 1), .atom (.const 1)] ∧
    substitute σ rhs = .app 3 [.atom (.const 101), .atom (.const 1)] := by decide

mutual
theorem instPattern_ground (vars : List Sym) (σ : Subst) :
    ∀ (t : Term), (∀ s ∈ t.flatten, s ∉ vars) → instPattern vars σ t = some t
  | .atom s, h => by
    have : s ∉ vars := h s (by simp [Term.flatten])
    simp [instPattern, this]
  | .app f ps, h => by
    simp only [instPattern]
    rw [instPatternList_ground vars σ ps (fun s hs => h s (by simp [Term.flatten, hs]))]
    rfl
  | .lst ps, h => by
    simp only [instPattern]
    rw [instPatternList_ground vars σ ps (fun s hs => h s (by simp [Term.flatten, hs]))]
    rfl
theorem instPatternList_ground (vars : List Sym) (σ : Subst) :
    ∀ (ts : List Term), (∀ s ∈ flattenList ts, s ∉ vars) → instPatternList vars σ ts = some ts
  | [], _ => by simp [instPatternList]
  | t :: ts, h => by
    simp only [instPatternList]
    rw [instPattern_ground vars σ t (fun s hs => h s (by simp [flattenList, hs])),
        instPatternList_ground vars σ ts (fun s hs => h s (by simp [flattenList, hs]))]
    rfl
end

mutual
theorem headsOk_ground (vars : List Sym) : ∀ (t : Term), (∀ s ∈ t.flatten, s ∉ vars) → headsOk vars t = true
  | .atom s, _ => by simp [headsOk]
  | .app f ps, h => by
    have h1 : Sym.fn f ∉ vars := h _ (by simp [Term.flatten])
    simp only [headsOk, Bool.and_eq_true, Bool.not_eq_true', List.contains_eq_mem, decide_eq_false_iff_not]
    exact ⟨h1, headsOkList_ground vars ps (fun s hs => h s (by simp [Term.flatten, hs]))⟩
  | .lst ps, h => by
    have h1 : listSym ∉ vars := h _ (by simp [Term.flatten])
    simp only [headsOk, Bool.and_eq_true, Bool.not_eq_true', List.contains_eq_mem, decide_eq_false_iff_not]
    exact ⟨h1, headsOkList_ground vars ps (fun s hs => h s (by simp [Term.flatten, hs]))⟩
theorem headsOkList_ground (vars : List Sym) : ∀ (ts : List Term), (∀ s ∈ flattenList ts, s ∉ vars) → headsOkList vars ts = true
  | [], _ => by simp [headsOkList]
  | t :: ts, h => by
    simp only [headsOkList, Bool.and_eq_true]
    exact ⟨headsOk_ground vars t (fun s hs => h s (by simp [flattenList, hs])),
           headsOkList_ground vars ts (fun s hs => h s (by simp [flattenList, hs]))⟩
end

/-- **ground_rule_matches_with_empty_bindings.** A rule whose left-hand side contains no variable matches the term
equal to that left-hand side, and the yielded substitution is the EMPTY one (`{}` — a valid match, not "no match"). -/
theorem ground_rule_matches_with_empty_bindings (rules : List Rule) (i : Nat) (r : Rule)
    (hr : rules[i]? = some r) (hg : ∀ s ∈ r.lhs.flatten, s ∉ r.vars) :
    ∃ ms, iterMatches rules r.lhs = some ms ∧ (i, []) ∈ ms := by
  obtain ⟨ms, σ', hms, hmem, _⟩ := match_complete rules r.lhs i r [] hr (headsOk_ground _ _ hg)
    (instPattern_ground _ _ _ hg)
  obtain ⟨r', syms, hr', hgo, hlen⟩ := match_binds_varlist rules r.lhs ms i σ' hms hmem
  rw [hr] at hr'
  cases hr'
  have hv : r.varlist = [] := by
    unfold Rule.varlist
    rw [List.filter_eq_nil_iff]
    intro s hs
    simpa using hg s hs
  rw [hv] at hgo hlen
  have : syms = [] := by
    cases syms with
    | nil => rfl
    | cons a b => simp at hlen
  subst this
  simp only [processGo, Option.some.injEq] at hgo
  subst hgo
  exact ⟨ms, hms, hmem⟩


/-! ### bottom-up rewriting -/

mutual
/-- the rewrite relation generated by a rule set: reflexive, transitive, closed under contexts; a step replaces an
instance `σ(lhs)` of some rule by `σ(rhs)` -/
inductive Rewrites (rules : List Rule) : Term → Term → Prop
  | refl (t : Term) : Rewrites rules t t
  | step (i : Nat) (r : Rule) (σ : Subst) (t : Term) : rules[i]? = some r → instPattern r.vars σ r.lhs = some t →
      Rewrites rules t (substitute σ r.rhs)
  | trans {a b c : Term} : Rewrites rules a b → Rewrites rules b c → Rewrites rules a c
  | app (f : Nat) {as bs : List Term} : RewritesList rules as bs → Rewrites rules (.app f as) (.app f bs)
  | lst {as bs : List Term} : RewritesList rules as bs → Rewrites rules (.lst as) (.lst bs)
inductive RewritesList (rules : List Rule) : List Term → List Term → Prop
  | nil : RewritesList rules [] []
  | cons {a b : Term} {as bs : List Term} : Rewrites rules a b → RewritesList rules as bs →
      RewritesList rules (a :: as) (b :: bs)
end

/-- a top-level rewrite is zero or one step of the relation -/
theorem rewriteTop_rewrites (rules : List Rule) (t t' : Term) (h : rewriteTop rules t = some t') :
    Rewrites rules t t' := by
  obtain ⟨ms, _, hcase⟩ := rewrite_applies_iff rules t
  rcases hcase with ⟨_, hrt, _⟩ | ⟨i, σ, rest, r, _, hr, hinst, hrt⟩
  · rw [hrt] at h
    cases h
    exact .refl t
  · rw [hrt] at h
    cases h
    exact .step i r σ t hr hinst

mutual
/-- **bottom_up_rewrites.** Whatever `rewrite(strategy="bottom_up")` returns is derivable from the term with the rules:
every change it makes is the replacement of an instance of some left-hand side by the corresponding right-hand side. -/
theorem bottom_up_rewrites (rules : List Rule) : ∀ (t t' : Term), bottomUp rules t = some t' → Rewrites rules t t'
  | .atom s, t', h => by
    simp only [bottomUp] at h
    exact rewriteTop_rewrites rules _ _ h
  | .app f as, t', h => by
    simp only [bottomUp, Option.bind_eq_some_iff] at h
    obtain ⟨as', h1, h2⟩ := h
    exact .trans (.app f (bottom_up_list_rewrites rules as as' h1)) (rewriteTop_rewrites rules _ _ h2)
  | .lst as, t', h => by
    simp only [bottomUp, Option.bind_eq_some_iff] at h
    obtain ⟨as', h1, h2⟩ := h
    exact .trans (.lst (bottom_up_list_rewrites rules as as' h1)) (rewriteTop_rewrites rules _ _ h2)
theorem bottom_up_list_rewrites (rules : List Rule) : ∀ (ts ts' : List Term), bottomUpList rules ts = some ts' →
    RewritesList rules ts ts'
  | [], ts', h => by
    simp only [bottomUpList, Option.some.injEq] at h
    subst h
    exact .nil
  | t :: ts, ts', h => by
    simp only [bottomUpList, Option.bind_eq_some_iff, Option.map_eq_some_iff] at h
    obtain ⟨t1, h1, ts1, h2, rfl⟩ := h
    exact .cons (bottom_up_rewrites rules t t1 h1) (bottom_up_list_rewrites rules ts ts1 h2)
end

theorem rewriteTop_total (rules : List Rule) (t : Term) : ∃ t', rewriteTop rules t = some t' := by
  obtain ⟨ms, hms⟩ := match_terminates rules t
  exact ⟨_, by simp [rewriteTop, hms]; rfl⟩

mutual
/-- **bottom_up_terminates.** `_bottom_up` always returns (one `_match` run per node, each within its fuel bound). -/
theorem bottom_up_terminates (rules : List Rule) : ∀ (t : Term), ∃ t', bottomUp rules t = some t'
  | .atom s => by simp only [bottomUp]; exact rewriteTop_total rules _
  | .app f as => by
    obtain ⟨as', h⟩ := bottom_up_list_terminates rules as
    obtain ⟨t', h'⟩ := rewriteTop_total rules (.app f as')
    exact ⟨t', by simp [bottomUp, h, h']⟩
  | .lst as => by
    obtain ⟨as', h⟩ := bottom_up_list_terminates rules as
    obtain ⟨t', h'⟩ := rewriteTop_total rules (.lst as')
    exact ⟨t', by simp [bottomUp, h, h']⟩
theorem bottom_up_list_terminates (rules : List Rule) : ∀ (ts : List Term), ∃ ts', bottomUpList rules ts = some ts'
  | [] => ⟨[], by simp [bottomUpList]⟩
  | t :: ts => by
    obtain ⟨t', h⟩ := bottom_up_terminates rules t
    obtain ⟨ts', h'⟩ := bottom_up_list_terminates rules ts
    exact ⟨t' :: ts', by simp [bottomUpList, h, h']⟩
end

mutual
/-- no rule matches the term or any of its subterms -/
def NormalForm (rules : List Rule) : Term → Prop
  | .atom s => iterMatches rules (.atom s) = some []
  | .app f as => iterMatches rules (.app f as) = some [] ∧ NormalFormList rules as
  | .lst as => iterMatches rules (.lst as) = some [] ∧ NormalFormList rules as
def NormalFormList (rules : List Rule) : List Term → Prop
  | [] => True
  | t :: ts => NormalForm rules t ∧ NormalFormList rules ts
end

theorem rewriteTop_of_no_match (rules : List Rule) (t : Term) (h : iterMatches rules t = some []) :
    rewriteTop rules t = some t := by
  simp [rewriteTop, h]

mutual
/-- **bottom_up_fixes_normal_forms.** A term in which no rule matches at any position is returned unchanged. -/
theorem bottom_up_fixes_normal_forms (rules : List Rule) : ∀ (t : Term), NormalForm rules t → bottomUp rules t = some t
  | .atom s, h => by
    simp only [NormalForm] at h
    simp only [bottomUp]
    exact rewriteTop_of_no_match rules _ h
  | .app f as, h => by
    simp only [NormalForm] at h
    simp only [bottomUp, bottom_up_list_fixes rules as h.2, Option.bind_some]
    exact rewriteTop_of_no_match rules _ h.1
  | .lst as, h => by
    simp only [NormalForm] at h
    simp only [bottomUp, bottom_up_list_fixes rules as h.2, Option.bind_some]
    exact rewriteTop_of_no_match rules _ h.1
theorem bottom_up_list_fixes (rules : List Rule) : ∀ (ts : List Term), NormalFormList rules ts → bottomUpList rules ts = some ts
  | [], _ => by simp [bottomUpList]
  | t :: ts, h => by
    simp only [NormalFormList] at h
    simp [bottomUpList, bottom_up_fixes_normal_forms rules t h.1, bottom_up_list_fixes rules ts h.2]
end


/-- non-vacuity (ground rule): `(f, 0, 0) → 0` without variables matches `(f, 0, 0)` with the empty substitution -/
example :
    iterMatches [⟨.app 1 [.atom (.const 0), .atom (.const 0)], .atom (.const 0), []⟩]
      (.app 1 [.atom (.const 0), .atom (.const 0)]) = some [(0, [])] := by decide

/-- the documented example of `RuleSet.rewrite`: `(add, x, x) → (double, x)` on `(add, (add, 2, 2), (add, 2, 2))` gives
`(double, (double, 2))` bottom-up and `(double, (add, 2, 2))` at top level -/
example :
    let rules : List Rule := [⟨.app 1 [.atom (.const 100), .atom (.const 100)], .app 2 [.atom (.const 100)], [.const 100]⟩]
    let two := Term.atom (.const 2)
    let t := Term.app 1 [.app 1 [two, two], .app 1 [two, two]]
    bottomUp rules t = some (.app 2 [.app 2 [two]]) ∧ rewriteTop rules t = some (.app 2 [.app 1 [two, two]]) ∧
    NormalForm rules (.app 2 [.app 2 [two]]) := by
  refine ⟨by decide, by decide, ?_⟩
  simp only [NormalForm, NormalFormList]
  exact ⟨by decide, ⟨by decide, by decide, trivial⟩, trivial⟩

/-- **rewrite_strategies.** `rewrite(task)` without a strategy is the bottom-up one; `"top_level"` is `_rewrite`; any other
name raises `KeyError` (the extracted `strategies` table has exactly these two entries). -/
theorem rewrite_strategies (rules : List Rule) (t : Term) :
    (∃ t', bottomUp rules t = some t' ∧ rewrite rules t none = .ok t' ∧ rewrite rules t (some "bottom_up") = .ok t') ∧
    (∃ t', rewriteTop rules t = some t' ∧ rewrite rules t (some "top_level") = .ok t') ∧
    ∀ name, name ≠ "bottom_up" → name ≠ "top_level" → rewrite rules t (some name) = .keyError := by
  obtain ⟨t1, h1⟩ := bottom_up_terminates rules t
  obtain ⟨t2, h2⟩ := rewriteTop_total rules t
  refine ⟨⟨t1, h1, ?_, ?_⟩, ⟨t2, h2, ?_⟩, ?_⟩
  · simp [rewrite, strategyFn, Dask.Generated.RewriteTables.strategies, Dask.Generated.RewriteTables.defaultStrategy, h1]
  · simp [rewrite, strategyFn, Dask.Generated.RewriteTables.strategies, h1]
  · simp [rewrite, strategyFn, Dask.Generated.RewriteTables.strategies, h2]
  · intro name hb ht
    have h1 : ("top_level" == name) = false := by simpa using fun e => ht e.symm
    have h2 : ("bottom_up" == name) = false := by simpa using fun e => hb e.symm
    simp [rewrite, strategyFn, Dask.Generated.RewriteTables.strategies, List.find?, h1, h2]

end Dask.C51
