import DaskModel.Lemmas.NpyStackLemmas
import DaskModel.Lemmas.StorePlan
/-!
# C29 (extension) — `to_npy_stack` followed by `from_npy_stack` reproduces the array and its chunks

Second sentence of the statement (properties.jsonl): "to_npy_stack followed by from_npy_stack reproduces the array
and its chunks along the stacking axis." `Props/C29.lean` proves the chunk arithmetic of the `info` file
(`npy_chunks_axis`, `npy_chunks_extents`); here the file plumbing of both functions (`Model/NpyStack.lean`) is proved,
for **every** chunk tuple (zero-length chunks, any number of axes), every stacking axis inside the array, every prior
content of the directory (stale files of an earlier, larger stack) and every execution order of the save tasks:

* `npy_key_grid`            the rechunked array's flattened keys are exactly the line `(0,…,i,…,0)`, `i < len(chunks[axis])`
                            — the ENUMERATION index used as file number is the block number along the stacking axis;
* `to_npy_tasks_den`        `"{i}.npy"` receives block `(0,…,i,…,0)`: one file per block of the stacking axis;
* `from_npy_graph_den`      `dict(zip(keys, values))` of `from_npy_stack` pairs key `(0,…,i,…,0)` with `"{i}.npy"`, nothing is
                            cut off by `zip` (as many keys as files);
* `npy_stack_roundtrip`     the loaded array has the chunks of the `info` file (= `x.chunks[axis]` on the stacking axis, the
                            extents elsewhere), one task per block of that grid, and EVERY block loads exactly the block of
                            the rechunked array with the same key;
* `npy_stale_files_ignored` files the stack does not write are left alone (and, by the round trip, never read);
* `npy_needs_single_blocks` witness: without the rechunk to one block per other axis the pairing is wrong
                            (4 keys, 2 files: key (0,1) would read file 1) — the rechunk is necessary.

Outside the model (assumptions, validated by section `npy` / `npyplan`): `x.rechunk(chunks)` preserves the values (C23/C24),
`np.save`/`np.load` round-trip a block, `"%d.npy" % i` is injective, `core.flatten(keys)` is `itertools.product` order.
-/
namespace Dask.C29xNpy
open Dask.Store Dask.NpyStack

theorem npy_key_grid (axis : Nat) (chunks : List (List Nat)) (c : List Nat) (h : chunks[axis]? = some c) :
    keyGrid (npyChunks axis chunks) = (List.range c.length).map (unitKey axis chunks.length) := by
  have := product_npy_line chunks 0 axis c h
  simp only [Nat.zero_add] at this
  unfold keyGrid npyChunks
  rw [this]
  rfl

theorem to_npy_tasks_den (axis : Nat) (chunks : List (List Nat)) (c : List Nat) (h : chunks[axis]? = some c) :
    toNpyTasks axis chunks = (List.range c.length).map fun i => (i, unitKey axis chunks.length i) := by
  unfold toNpyTasks
  rw [npy_key_grid axis chunks c h]
  simp only [List.length_map, List.length_range]
  rw [List.zip_map_right]
  simp [List.zip_eq_zipWith, List.zipWith_self]

theorem from_npy_graph_den (axis : Nat) (chunks : List (List Nat)) (c : List Nat) (h : chunks[axis]? = some c) :
    fromNpyGraph (toNpyInfo axis chunks)
      = some ((List.range c.length).map fun i => (unitKey axis chunks.length i, i)) := by
  have hax : (npyChunks axis chunks)[axis]? = some c := by
    unfold npyChunks
    rw [npyChunksFrom_get, h]
    simp
  unfold fromNpyGraph toNpyInfo
  simp only [hax, Option.map_some, npy_key_grid axis chunks c h]
  rw [List.zip_map_left]
  simp [List.zip_eq_zipWith, List.zipWith_self]

/-- **The round trip.** `x` with chunk tuple `chunks`, `axis` one of its axes, `xx` the blocks of `x.rechunk(…)` by key,
    `d0` whatever the directory held before, `ts` the save tasks in the order the scheduler ran them. -/
theorem npy_stack_roundtrip {α : Type} (axis : Nat) (chunks : List (List Nat)) (c : List Nat)
    (h : chunks[axis]? = some c) (xx : List Nat → α) (d0 : Dir α) (ts : List (Nat × List Nat))
    (hts : ts.Perm (toNpyTasks axis chunks)) :
    let info := toNpyInfo axis chunks
    let d := runSaves xx d0 ts
    info.chunks[axis]? = some c ∧ info.chunks.map List.sum = chunks.map List.sum ∧
    ∃ g, fromNpyGraph info = some g ∧ g.map Prod.fst = keyGrid info.chunks ∧ (keyGrid info.chunks).Nodup ∧
      ∀ key ∈ keyGrid info.chunks, loadBlock d g key = some (xx key) := by
  intro info d
  have hax : (npyChunks axis chunks)[axis]? = some c := by
    unfold npyChunks
    rw [npyChunksFrom_get, h]
    simp
  refine ⟨hax, npyChunksFrom_sums axis chunks 0, _, from_npy_graph_den axis chunks c h, ?_, ?_, ?_⟩
  · show _ = keyGrid (npyChunks axis chunks)
    rw [npy_key_grid axis chunks c h]
    simp [Function.comp_def]
  · show (keyGrid (npyChunks axis chunks)).Nodup
    rw [npy_key_grid axis chunks c h]
    rw [List.Nodup, List.pairwise_map]
    exact (List.nodup_range).imp fun hne hk => hne (unitKey_inj hk)
  · intro key hkey
    change key ∈ keyGrid (npyChunks axis chunks) at hkey
    rw [npy_key_grid axis chunks c h, List.mem_map] at hkey
    obtain ⟨i, hi, rfl⟩ := hkey
    unfold loadBlock
    rw [lookup_map_inj (fun i j hij => unitKey_inj hij) _ i hi]
    simp only [Option.bind_some]
    have hnd : (ts.map Prod.fst).Nodup := by
      rw [(hts.map Prod.fst).nodup_iff, to_npy_tasks_den axis chunks c h]
      simpa [Function.comp_def] using List.nodup_range
    refine runSaves_mem xx ts d0 i _ hnd (hts.mem_iff.mpr ?_)
    rw [to_npy_tasks_den axis chunks c h]
    exact List.mem_map.mpr ⟨i, hi, rfl⟩

/-- files beyond the stack's own (an earlier, larger stack) are neither changed … (nor read: `npy_stack_roundtrip`
    holds for every `d0`) -/
theorem npy_stale_files_ignored {α : Type} (axis : Nat) (chunks : List (List Nat)) (c : List Nat)
    (h : chunks[axis]? = some c) (xx : List Nat → α) (d0 : Dir α) (ts : List (Nat × List Nat))
    (hts : ts.Perm (toNpyTasks axis chunks)) (i : Nat) (hi : c.length ≤ i) :
    runSaves xx d0 ts i = d0 i := by
  apply runSaves_not_mem
  intro hmem
  have : i ∈ (toNpyTasks axis chunks).map Prod.fst := ((hts.map Prod.fst).mem_iff).mp hmem
  rw [to_npy_tasks_den axis chunks c h] at this
  simp [Function.comp_def] at this
  omega

/-- `from_npy_stack` refuses an `info` whose axis is not an axis of the chunks (IndexError) -/
theorem from_npy_raises_iff (info : Info) : fromNpyGraph info = none ↔ info.chunks.length ≤ info.axis := by
  unfold fromNpyGraph
  cases hc : info.chunks[info.axis]? with
  | none => simpa using hc
  | some c =>
    simp only [Option.map_some, reduceCtorEq, false_iff, Nat.not_le]
    exact (List.getElem?_eq_some_iff.mp hc).1

/-- witness: pairing flattened keys with file numbers is only right because every other axis has ONE block —
    with the original chunks `((1,1),(1,1))` and axis 0 the key (0,1) would be loaded from file 1 (the slab of row 1) -/
theorem npy_needs_single_blocks :
    fromNpyGraph ⟨[[1, 1], [1, 1]], 0⟩ = some [([0, 0], 0), ([0, 1], 1)] ∧
    fromNpyGraph (toNpyInfo 0 [[1, 1], [1, 1]]) = some [([0, 0], 0), ([1, 0], 1)] := by decide

/-! non-vacuity / concrete runs -/
example : toNpyTasks 1 [[1, 1], [2, 1, 0], [1, 3]] = [(0, [0, 0, 0]), (1, [0, 1, 0]), (2, [0, 2, 0])] := by decide
example : ([[1, 1], [2, 1, 0], [1, 3]] : List (List Nat))[1]? = some [2, 1, 0] := by decide
/-- stale files 1…5 in the directory, tasks run in reverse order: every block loads its own key -/
example : roundTrip 0 [[2, 1], [1, 1]] [1, 2, 3, 4, 5] [1, 0]
    = some [([0, 0], some [0, 0]), ([1, 0], some [1, 0])] := by decide

end Dask.C29xNpy
