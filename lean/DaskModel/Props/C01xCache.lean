import DaskModel.Props.C02
import DaskModel.Lemmas.SchedWarm4
/-!
# C01 (extension) — `get_async(..., cache=cache0)`: a caller-supplied cache

Model: `startStateC` / `getAsyncC` of `Model/Sched.lean` (tied to `dask/local.py` by the `start`, `trace`, `warm`, `exhwarm`
sections of the check), `Model/SchedWarm.lean` (`warmGraph`, `warmParams`: the graph in which every cached key is a data node
holding the cached value).

What is proved, for EVERY cache `c0` (sound or not), every acyclic graph that is closed modulo the cache (`GraphOK` of the warm
graph: dependencies of the tasks that are not cached exist in the graph or in the cache, requested keys likewise), every
`num_workers ≥ 1`, `chunksize ∈ {-1} ∪ ℕ⁺`, arbitrary priorities and EVERY completion order:

* `get_async_with_cache_denotes_warm` - the call never raises an internal error, ends within #visited-keys iterations, and
  returns - in the nesting of the request - exactly the values the WARM graph denotes (cached keys are constants);
* `cached_tasks_not_run` - the executed tasks are tasks of the graph that are not cached and are reachable from the request
  without passing through a cached key; none is executed twice; on success they are exactly those.

For a SOUND cache (`CacheSound`: every cached key holds the value the graph denotes for it) the warm graph denotes what the
graph denotes (`den_warm_eq`), hence
* `get_async_with_cache_correct` - the result is the recursive evaluation of the graph, and
* `cached_run_eq_uncached_run` - the same packed result as the run without the cache, whatever the two completion orders.

For an UNSOUND cache the first two theorems say exactly what happens (the wrong value is used as a constant); that the result
then differs from what the graph denotes is the refutation witness `unsound_cache_refuted`.
-/
namespace Dask.C01
open Dask.Sched
variable {α : Type}

/-- every key already in the supplied cache holds the value the graph denotes for it -/
def CacheSound (cfg : Cfg) (P : Params α) (rank : Key → Nat) (c0 : Map α) : Prop :=
  ∀ k v, c0.get? k = some v → v = den cfg P rank k

section Warm
variable {cfg : Cfg} {P : Params α} {rank : Key → Nat} {c0 : Map α}

/-- the warm graph is acyclic with the same rank function; worker count and chunksize are untouched -/
theorem hyp_warm (h : Hyp cfg rank) : Hyp (warmCfg cfg c0) rank := by
  refine ⟨?_, h.nw, h.cs⟩
  intro k deps d hk hd
  have hk' : (warmGraph cfg.g c0).get? k = some (.task deps) := hk
  rw [get?_warmGraph] at hk'
  by_cases hc : c0.has k = true
  · simp [hc] at hk'
  · simp only [hc] at hk'
    exact h.acyclic k deps d hk' hd

/-- a closed graph is closed modulo any cache -/
theorem graphOK_warm (hG : GraphOK cfg.g cfg.results) : GraphOK (warmGraph cfg.g c0) cfg.results := by
  have hex : ∀ k, (∃ nd, cfg.g.get? k = some nd) → ∃ nd, (warmGraph cfg.g c0).get? k = some nd := by
    intro k ⟨nd, hnd⟩
    rw [get?_warmGraph]
    by_cases hc : c0.has k = true
    · exact ⟨Node.data, by simp [hc]⟩
    · exact ⟨nd, by simp [hc, hnd]⟩
  have htask : ∀ k deps, (warmGraph cfg.g c0).get? k = some (.task deps) → cfg.g.get? k = some (.task deps) := by
    intro k deps hk
    rw [get?_warmGraph] at hk
    by_cases hc : c0.has k = true
    · simp [hc] at hk
    · simpa [hc] using hk
  refine ⟨?_, ?_, ?_⟩
  · intro k deps d hk hd
    exact hex d (hG.closed k deps d (htask k deps hk) hd)
  · intro k deps hk
    exact hG.depsNodup k deps (htask k deps hk)
  · intro r hr
    exact hex r (hG.resultsIn r hr)

/-- a task of the warm graph is a task of the graph that is not cached -/
theorem isTask_warm (k : Key) : isTask (warmGraph cfg.g c0) k ↔ (isTask cfg.g k ∧ c0.has k = false) := by
  unfold isTask
  constructor
  · rintro ⟨deps, hk⟩
    rw [get?_warmGraph] at hk
    by_cases hc : c0.has k = true
    · simp [hc] at hk
    · have hc' : c0.has k = false := by simpa using hc
      exact ⟨⟨deps, by simpa [hc] using hk⟩, hc'⟩
  · rintro ⟨⟨deps, hk⟩, hc⟩
    exact ⟨deps, by rw [get?_warmGraph, hc]; simpa using hk⟩

/-- **sound cache ⇒ the warm graph denotes what the graph denotes** -/
theorem den_warm_eq (h : Hyp cfg rank) (hc : CacheSound cfg P rank c0) :
    ∀ n k, rank k < n → den (warmCfg cfg c0) (warmParams P c0) rank k = den cfg P rank k := by
  have h1 := den_fixpoint cfg P rank h
  have h2 := den_fixpoint (warmCfg cfg c0) (warmParams P c0) rank (hyp_warm h)
  intro n
  induction n with
  | zero => intro k hk; omega
  | succ n ih =>
    intro k hk
    cases hg : (warmGraph cfg.g c0).get? k with
    | none =>
      have hg' := hg
      rw [get?_warmGraph] at hg'
      by_cases hcc : c0.has k = true
      · simp [hcc] at hg'
      · have hg'' : cfg.g.get? k = none := by simpa [hcc] using hg'
        have hnone : c0.get? k = none := (Map.has_false_iff c0 k).mp (by simpa using hcc)
        have e1 : den (warmCfg cfg c0) (warmParams P c0) rank k = (warmParams P c0).dataVal k := by
          show denote (warmGraph cfg.g c0) (warmParams P c0) (rank k + 1) k = _
          simp [denote, hg]
        have e2 : den cfg P rank k = P.dataVal k := by
          show denote cfg.g P (rank k + 1) k = _
          simp [denote, hg'']
        rw [e1, e2]
        show (c0.get? k).getD (P.dataVal k) = _
        rw [hnone]; rfl
    | some nd =>
      cases nd with
      | data =>
        rw [h2.data k hg]
        show (c0.get? k).getD (P.dataVal k) = _
        have hg' := hg
        rw [get?_warmGraph] at hg'
        by_cases hcc : c0.has k = true
        · obtain ⟨v, hv⟩ := (Map.has_iff c0 k).mp hcc
          rw [hv]
          exact hc k v hv
        · simp only [hcc] at hg'
          have hnone : c0.get? k = none := (Map.has_false_iff c0 k).mp (by simpa using hcc)
          rw [hnone, h1.data k hg']
          rfl
      | task deps =>
        have hg' := hg
        rw [get?_warmGraph] at hg'
        by_cases hcc : c0.has k = true
        · simp [hcc] at hg'
        · simp only [hcc] at hg'
          rw [h2.task k deps hg, h1.task k deps hg']
          show P.apply k _ = P.apply k _
          congr 1
          apply List.map_congr_left
          intro d hd
          have hr := h.acyclic k deps d hg' hd
          exact ih d (by omega)

theorem getAsyncC_eq {st0 : State α} (hst : startStateC cfg P c0 (some cfg.results) = .ok st0)
    (hacc : ¬ (!st0.waiting.isEmpty ∧ st0.ready.isEmpty)) (choices : List Nat) :
    getAsyncC cfg P c0 choices =
      match mainLoop cfg P choices (sys0 st0) with
      | .error e => { log := (sys0 st0).log ++ [(.finish true, st0)], outcome := .error e, final := st0 }
      | .ok (s, .done) => { log := s.log ++ [(.finish false, s.st)], outcome := .ok .done, final := s.st }
      | .ok (s, o) => { log := s.log ++ [(.finish true, s.st)], outcome := .ok o, final := s.st } := by
  unfold getAsyncC
  simp only [hst]
  rw [if_neg hacc]
  rfl

theorem preKeys_of_evs : ∀ (a b : List (Ev × State α)), evs a = evs b → preKeys a = preKeys b
  | [], [], _ => rfl
  | [], _ :: _, h => by simp [evs] at h
  | _ :: _, [], h => by simp [evs] at h
  | p :: a, q :: b, h => by
    simp only [evs, List.map_cons, List.cons.injEq] at h
    obtain ⟨h1, h2⟩ := h
    have ih := preKeys_of_evs a b h2
    unfold preKeys at ih ⊢
    rw [List.filterMap_cons, List.filterMap_cons, h1, ih]

theorem preKeys_finish (log : List (Ev × State α)) (b : Bool) (st : State α) :
    preKeys (log ++ [(Ev.finish b, st)]) = preKeys log := by
  rw [preKeys_append]
  simp [preKeys]

/-- the core: the state `start_state_from_dask` builds from the cache is, apart from cache entries of keys it did not visit,
a state `st1` satisfying the scheduler invariant on the warm graph; the run from it and the clean run from `st1` have the same
outcome, the same events and - apart from the cache, which has at least the clean entries - the same final state -/
theorem warm_core (h : Hyp cfg rank) (hG : GraphOK (warmGraph cfg.g c0) cfg.results) (choices : List Nat) :
    ∃ st0 st1 : State α, startStateC cfg P c0 (some cfg.results) = .ok st0 ∧
      StartOK (warmCfg cfg c0) (den (warmCfg cfg c0) (warmParams P c0) rank) st1 ∧
      st0.dependencies = st1.dependencies ∧ st0.waiting = st1.waiting ∧ st0.ready = st1.ready ∧
      (∀ k, st1.seen k ↔ Reach (warmGraph cfg.g c0) cfg.results k) ∧
      ((mainLoop cfg P choices (sys0 st0) = .error .badChoice) ∨
       ∃ s1 o c2 log2, mainLoop (warmCfg cfg c0) (warmParams P c0) choices (sys0 st1) = .ok (s1, o) ∧
         mainLoop cfg P choices (sys0 st0) = .ok (s1.warm c2 log2, o) ∧ CLe s1.st.cache c2 ∧ evs log2 = evs s1.log) := by
  have hW : Hyp (warmCfg cfg c0) rank := hyp_warm h
  have hden := den_fixpoint (warmCfg cfg c0) (warmParams P c0) rank hW
  obtain ⟨s, hst, hs, hseen, _⟩ := startStateC_ok cfg P c0 hden hG
  refine ⟨finalState cfg.prio s, finalStateC cfg.prio s, hst, hs, rfl, rfl, rfl, hseen, ?_⟩
  have hcle : CLe (finalStateC cfg.prio s).cache s.cache := by
    intro k v hv
    have hv' : (seenCache s).get? k = some v := hv
    rw [get?_seenCache] at hv'
    split at hv'
    · exact hv'
    · cases hv'
  have hevs : evs (sys0 (finalState cfg.prio s)).log = evs (sys0 (finalStateC cfg.prio s)).log := rfl
  obtain ⟨hE, hO⟩ := mainLoop_frame (warmParams P c0) hden hW.nw hW.cs rank hW.acyclic choices
    (sys0 (finalStateC cfg.prio s)) s.cache (sys0 (finalState cfg.prio s)).log hs.sysInv hcle hevs
  have hsys : (sys0 (finalStateC cfg.prio s)).warm s.cache (sys0 (finalState cfg.prio s)).log =
      sys0 (finalState cfg.prio s) := rfl
  rw [hsys] at hE hO
  rcases mainLoop_spec (warmParams P c0) hden hW.nw hW.cs rank hW.acyclic choices (sys0 (finalStateC cfg.prio s))
    hs.sysInv with ⟨hbad, _⟩ | ⟨s1, o, hok, _⟩
  · left
    have := hE _ hbad
    rw [mainLoop_warm] at this
    exact this
  · right
    obtain ⟨c2, log2, h2, hc2, hl2⟩ := hO s1 o hok
    rw [mainLoop_warm] at h2
    exact ⟨s1, o, c2, log2, hok, h2, hc2, hl2⟩


/-- what the wrapper `get_async` makes of the loop's result -/
theorem getAsyncC_of_ok {st0 : State α} (hst : startStateC cfg P c0 (some cfg.results) = .ok st0)
    (hacc : ¬ (!st0.waiting.isEmpty ∧ st0.ready.isEmpty)) {choices : List Nat} {s2 : Sys α} {o : Outcome}
    (hml : mainLoop cfg P choices (sys0 st0) = .ok (s2, o)) :
    preKeys (getAsyncC cfg P c0 choices).log = preKeys s2.log ∧ (getAsyncC cfg P c0 choices).outcome = .ok o ∧
      (getAsyncC cfg P c0 choices).final = s2.st := by
  rw [getAsyncC_eq hst hacc choices, hml]
  cases o <;> exact ⟨preKeys_finish _ _ _, rfl, rfl⟩

theorem getAsyncC_of_error {st0 : State α} (hst : startStateC cfg P c0 (some cfg.results) = .ok st0)
    (hacc : ¬ (!st0.waiting.isEmpty ∧ st0.ready.isEmpty)) {choices : List Nat} {e : Err}
    (hml : mainLoop cfg P choices (sys0 st0) = .error e) :
    preKeys (getAsyncC cfg P c0 choices).log = [] ∧ (getAsyncC cfg P c0 choices).outcome = .error e := by
  rw [getAsyncC_eq hst hacc choices, hml]
  refine ⟨?_, rfl⟩
  show preKeys ((sys0 st0).log ++ [(Ev.finish true, st0)]) = []
  rw [preKeys_finish]
  simp [sys0, preKeys]

theorem accessible_warm (h : Hyp cfg rank) {st0 st1 : State α}
    (hs : StartOK (warmCfg cfg c0) (den (warmCfg cfg c0) (warmParams P c0) rank) st1)
    (hw : st0.waiting = st1.waiting) (hr : st0.ready = st1.ready) :
    ¬ (!st0.waiting.isEmpty ∧ st0.ready.isEmpty) := by
  rw [hw, hr]
  exact hs.accessible rank (hyp_warm h).acyclic

/-- **C01 with ANY caller-supplied cache** (sound or not): for every acyclic graph that is closed modulo the cache, every
`num_workers ≥ 1`, `chunksize ∈ {-1} ∪ ℕ⁺`, arbitrary priorities and EVERY completion order, `get_async(..., cache=c0)`
* never raises an internal error (`KeyError`, `AssertionError`, `ZeroDivisionError`, `IndexError`, "Missing dependency",
  "Found no accessible jobs") and never waits on an empty queue;
* when it ends normally, returns - in the nesting of the request - exactly the values the WARM graph denotes: the recursive
  evaluation in which every cached key is a constant holding the cached value;
* cannot still be running after more iterations than there are visited keys. -/
theorem get_async_with_cache_denotes_warm (h : Hyp cfg rank) (hG : GraphOK (warmGraph cfg.g c0) cfg.results)
    (choices : List Nat) :
    (∀ e, (getAsyncC cfg P c0 choices).outcome = .error e → e = .badChoice) ∧
    ((getAsyncC cfg P c0 choices).outcome = .ok .done → ∀ req : Req, (∀ k ∈ req.flat, k ∈ cfg.results) →
      nestedGet (getAsyncC cfg P c0 choices).final.cache.get? req =
        nestedGet (fun k => some (den (warmCfg cfg c0) (warmParams P c0) rank k)) req) ∧
    (∀ st0, startStateC cfg P c0 (some cfg.results) = .ok st0 → st0.dependencies.length < choices.length →
      (getAsyncC cfg P c0 choices).outcome ≠ .ok .starved) := by
  have hW : Hyp (warmCfg cfg c0) rank := hyp_warm h
  obtain ⟨st0, st1, hst, hs, hdeps, hwait, hready, _, hrun⟩ := warm_core (P := P) h hG choices
  have hacc := accessible_warm h hs hwait hready
  rcases hrun with hbad | ⟨s1, o, c2, log2, hok, hml, hcle, _⟩
  · obtain ⟨_, hout⟩ := getAsyncC_of_error hst hacc hbad
    rw [hout]
    refine ⟨?_, ?_, ?_⟩
    · intro e he; cases he; rfl
    · intro hd; cases hd
    · intro _ _ _ hd; cases hd
  · obtain ⟨_, hout, hfin⟩ := getAsyncC_of_ok hst hacc hml
    rw [hout, hfin]
    refine ⟨?_, ?_, ?_⟩
    · intro e he; cases he
    · intro hd req hreq
      cases hd
      obtain ⟨_, hdd, _, hdone, _⟩ := reach_inv (warmParams P c0) (den_fixpoint _ _ rank hW) hW.nw hW.cs rank hW.acyclic hs hok
      obtain ⟨hinv, hl⟩ := hdone rfl
      apply nestedGet_congr
      intro k hk
      have hkr : k ∈ (warmCfg cfg c0).results := hreq k hk
      have hseen : s1.st.seen k := by
        obtain ⟨ds, hds⟩ := hs.resultsSeen k hkr
        exact ⟨ds, by rw [hdd]; exact hds⟩
      obtain ⟨v, hv⟩ := hinv.inv.done_result_cached hl hkr hseen
      show c2.get? k = _
      rw [hcle k v hv, hinv.sound k v hv]
    · intro st0' hst' hlen hstarved
      rw [hst] at hst'
      cases hst'
      cases hstarved
      exact sched_terminates hW hs choices (by rw [← hdeps]; exact hlen) s1 .starved hok rfl

/-- **`cached_tasks_not_run`**: with ANY cache, under every completion order (also when the call fails): no task is executed
twice; every executed key is a task of the graph that is NOT in the supplied cache and is reachable from the request without
passing through a cached key; when the call succeeds the executed tasks are exactly those. -/
theorem cached_tasks_not_run (h : Hyp cfg rank) (hG : GraphOK (warmGraph cfg.g c0) cfg.results) (choices : List Nat) :
    (preKeys (getAsyncC cfg P c0 choices).log).Nodup ∧
    (∀ k ∈ preKeys (getAsyncC cfg P c0 choices).log,
      isTask cfg.g k ∧ c0.has k = false ∧ Reach (warmGraph cfg.g c0) cfg.results k) ∧
    ((getAsyncC cfg P c0 choices).outcome = .ok .done →
      ∀ k, k ∈ preKeys (getAsyncC cfg P c0 choices).log ↔
        (isTask cfg.g k ∧ c0.has k = false ∧ Reach (warmGraph cfg.g c0) cfg.results k)) := by
  have hW : Hyp (warmCfg cfg c0) rank := hyp_warm h
  obtain ⟨st0, st1, hst, hs, hdeps, hwait, hready, hseen, hrun⟩ := warm_core (P := P) h hG choices
  have hacc := accessible_warm h hs hwait hready
  rcases hrun with hbad | ⟨s1, o, c2, log2, hok, hml, hcle, hevs⟩
  · obtain ⟨hpre, hout⟩ := getAsyncC_of_error hst hacc hbad
    rw [hpre, hout]
    refine ⟨List.nodup_nil, ?_, ?_⟩
    · intro k hk; cases hk
    · intro hd; cases hd
  · obtain ⟨hpre, hout, _⟩ := getAsyncC_of_ok hst hacc hml
    have hpre2 : preKeys (s1.warm c2 log2).log = preKeys s1.log := preKeys_of_evs _ _ hevs
    rw [hpre, hpre2, hout]
    have hchar : ∀ k, (st1.seen k ∧ isTask (warmCfg cfg c0).g k) ↔
        (isTask cfg.g k ∧ c0.has k = false ∧ Reach (warmGraph cfg.g c0) cfg.results k) := by
      intro k
      have ht : isTask (warmCfg cfg c0).g k ↔ (isTask cfg.g k ∧ c0.has k = false) := isTask_warm k
      rw [hseen k, ht]
      constructor
      · rintro ⟨a, b, c⟩; exact ⟨b, c, a⟩
      · rintro ⟨b, c, a⟩; exact ⟨a, b, c⟩
    refine ⟨C02.run_at_most_once hW hs choices s1 o hok, ?_, ?_⟩
    · intro k hk
      exact (hchar k).mp (C02.never_run_unneeded hW hs choices s1 o hok k hk)
    · intro hd k
      cases hd
      rw [(C02.run_exactly_once_on_success hW hs choices s1 hok).1 k]
      exact hchar k

/-- **C01 with a SOUND caller-supplied cache**: if every key already in the cache holds the value the graph denotes for it,
then for every acyclic graph (closed modulo the cache), request, worker count, chunksize and EVERY completion order the call
never raises an internal error, terminates, and returns - in the nesting of the request - exactly the recursive evaluation of
the graph: what the run without the cache returns (`get_async_correct`, `cached_run_eq_uncached_run`). -/
theorem get_async_with_cache_correct (h : Hyp cfg rank) (hG : GraphOK (warmGraph cfg.g c0) cfg.results)
    (hc : CacheSound cfg P rank c0) (choices : List Nat) :
    (∀ e, (getAsyncC cfg P c0 choices).outcome = .error e → e = .badChoice) ∧
    ((getAsyncC cfg P c0 choices).outcome = .ok .done → ∀ req : Req, (∀ k ∈ req.flat, k ∈ cfg.results) →
      nestedGet (getAsyncC cfg P c0 choices).final.cache.get? req =
        nestedGet (fun k => some (den cfg P rank k)) req) ∧
    (∀ st0, startStateC cfg P c0 (some cfg.results) = .ok st0 → st0.dependencies.length < choices.length →
      (getAsyncC cfg P c0 choices).outcome ≠ .ok .starved) := by
  obtain ⟨a, b, c⟩ := get_async_with_cache_denotes_warm (P := P) h hG choices
  refine ⟨a, ?_, c⟩
  intro hd req hreq
  rw [b hd req hreq]
  have : (fun k => some (den (warmCfg cfg c0) (warmParams P c0) rank k)) = (fun k => some (den cfg P rank k)) :=
    funext fun k => by rw [den_warm_eq h hc (rank k + 1) k (Nat.lt_succ_self _)]
  rw [this]

/-- **same packed result as the run without the cache**, whatever the two completion orders are -/
theorem cached_run_eq_uncached_run (h : Hyp cfg rank) (hG : GraphOK cfg.g cfg.results)
    (hc : CacheSound cfg P rank c0) (choices choices' : List Nat)
    (hd1 : (getAsyncC cfg P c0 choices).outcome = .ok .done) (hd2 : (getAsync cfg P choices').outcome = .ok .done)
    (req : Req) (hreq : ∀ k ∈ req.flat, k ∈ cfg.results) :
    nestedGet (getAsyncC cfg P c0 choices).final.cache.get? req =
      nestedGet (getAsync cfg P choices').final.cache.get? req := by
  rw [(get_async_with_cache_correct h (graphOK_warm hG) hc choices).2.1 hd1 req hreq,
      (get_async_correct h hG choices').2.1 hd2 req hreq]

/-- reachable in the warm graph (without passing through a cached key) ⇒ reachable in the graph -/
theorem reach_of_warm {g : Graph} {results : List Key} {k : Key} (hr : Reach (warmGraph g c0) results k) :
    Reach g results k := by
  induction hr with
  | base hb => exact Reach.base hb
  | @step j k' _ hkj ih =>
    refine Reach.step ih ?_
    unfold nodeDeps at hkj ⊢
    rw [get?_warmGraph] at hkj
    by_cases hcc : c0.has j = true
    · simp [hcc] at hkj
    · simpa [hcc] using hkj

/-- with a sound cache a run executes a subset of what the run without the cache executes (it skips the cached tasks and
whatever is only reachable through them) -/
theorem cached_run_executes_subset (h : Hyp cfg rank) (hG : GraphOK cfg.g cfg.results) (choices choices' : List Nat)
    (hd2 : (getAsync cfg P choices').outcome = .ok .done) :
    ∀ k ∈ preKeys (getAsyncC cfg P c0 choices).log, k ∈ preKeys (getAsync cfg P choices').log := by
  intro k hk
  obtain ⟨ht, _, hr⟩ := (cached_tasks_not_run (P := P) h (graphOK_warm hG) choices).2.1 k hk
  have hreach : Reach cfg.g cfg.results k := reach_of_warm hr
  obtain ⟨st0, hst, _⟩ := start_ok (P := P) h hG
  have hacc := (startOK_of_eq h hG hst).accessible rank h.acyclic
  rw [getAsync_eq hst hacc choices'] at hd2 ⊢
  cases hml : mainLoop cfg P choices' (sys0 st0) with
  | error e => rw [hml] at hd2; cases hd2
  | ok r =>
    obtain ⟨s', o⟩ := r
    rw [hml] at hd2
    cases o with
    | done =>
      show k ∈ preKeys (s'.log ++ [(Ev.finish false, s'.st)])
      rw [preKeys_finish]
      exact ((C02.executed_iff_reachable_task h hG hst choices' s' hml).1 k).mpr ⟨hreach, ht⟩
    | starved => cases hd2
    | failed k' => cases hd2

end Warm

/-! ## the executable prediction of the driver (`warm_plan`) is one the theorems allow -/

theorem mem_foldl_sadd {x : Key} : ∀ (ds acc : List Key), x ∈ ds.foldl (fun a d => sadd d a) acc → x ∈ acc ∨ x ∈ ds
  | [], acc, h => Or.inl h
  | d :: ds, acc, h => by
    rcases mem_foldl_sadd ds (sadd d acc) h with h1 | h1
    · rcases mem_sadd.mp h1 with rfl | h2
      · exact Or.inr (by simp)
      · exact Or.inl h2
    · exact Or.inr (List.mem_cons_of_mem _ h1)

theorem mem_reachFold {g : Graph} {x : Key} : ∀ (L acc : List Key),
    x ∈ L.foldl (fun acc k => (nodeDeps g k).foldl (fun a d => sadd d a) acc) acc →
    x ∈ acc ∨ ∃ k ∈ L, x ∈ nodeDeps g k
  | [], acc, h => Or.inl h
  | k :: L, acc, h => by
    rcases mem_reachFold L _ h with h1 | ⟨j, hj, hx⟩
    · rcases mem_foldl_sadd _ _ h1 with h2 | h2
      · exact Or.inl h2
      · exact Or.inr ⟨k, by simp, h2⟩
    · exact Or.inr ⟨j, List.mem_cons_of_mem _ hj, hx⟩

theorem reachIter_sound {g : Graph} {results : List Key} : ∀ (n : Nat) (found : List Key),
    (∀ x ∈ found, Reach g results x) → ∀ x ∈ reachIter g n found, Reach g results x
  | 0, found, h => h
  | n + 1, found, h => by
    apply reachIter_sound n (reachStep g found)
    intro x hx
    rcases mem_reachFold found found hx with h1 | ⟨k, hk, hxk⟩
    · exact h x h1
    · exact Reach.step (h k hk) hxk

/-- every key the executable `reachSet` finds is reachable in the sense of the theorems -/
theorem reachSet_sound {g : Graph} {results : List Key} {x : Key} (hx : x ∈ reachSet g results) : Reach g results x := by
  refine reachIter_sound (g.length + 1) _ ?_ x hx
  intro y hy
  rcases mem_foldl_sadd results [] hy with h1 | h1
  · cases h1
  · exact Reach.base h1

/-- the prediction the driver op `warm_plan` hands to the check is sound for the theorems: every key of `expectedExec` is a
task of the graph, not cached, reachable in the warm graph (the class `cached_tasks_not_run` allows to be executed) -/
theorem expectedExec_sound {g : Graph} {c0 : Map α} {results : List Key} {k : Key} (hk : k ∈ expectedExec g c0 results) :
    isTask g k ∧ c0.has k = false ∧ Reach (warmGraph g c0) results k := by
  unfold expectedExec at hk
  obtain ⟨h1, h2⟩ := List.mem_filter.mp hk
  refine ⟨?_, ?_, reachSet_sound h1⟩
  · cases hg : g.get? k with
    | none => simp [hg] at h2
    | some nd =>
      cases nd with
      | data => simp [hg] at h2
      | task deps => exact ⟨deps, hg⟩
  · cases hg : g.get? k with
    | none => simp [hg] at h2
    | some nd =>
      cases nd with
      | data => simp [hg] at h2
      | task deps => simpa [hg] using h2

/-! ## non-vacuity and witnesses on the diamond of `Props/C01` (`0:data, 1:task[0], 2:task[0], 3:task[1,2]`, request `[3]`) -/
section Example

theorem exHyp : Hyp (exCfg 1) id := by
  refine ⟨?_, by decide, by decide⟩
  intro k deps d hk hd
  match k, hk with
  | 0, hk => simp [exCfg, Map.get?] at hk
  | 1, hk => simp [exCfg, Map.get?] at hk; subst hk; simp at hd; subst hd; decide
  | 2, hk => simp [exCfg, Map.get?] at hk; subst hk; simp at hd; subst hd; decide
  | 3, hk => simp [exCfg, Map.get?] at hk; subst hk; simp at hd; rcases hd with rfl | rfl <;> decide
  | k + 4, hk => simp [exCfg, Map.get?] at hk

theorem exGraphOK : GraphOK (exCfg 1).g (exCfg 1).results := by
  refine ⟨?_, ?_, ?_⟩
  · intro k deps d hk hd
    match k, hk with
    | 0, hk => simp [exCfg, Map.get?] at hk
    | 1, hk => simp [exCfg, Map.get?] at hk; subst hk; simp at hd; subst hd; exact ⟨_, rfl⟩
    | 2, hk => simp [exCfg, Map.get?] at hk; subst hk; simp at hd; subst hd; exact ⟨_, rfl⟩
    | 3, hk => simp [exCfg, Map.get?] at hk; subst hk; simp at hd; rcases hd with rfl | rfl <;> exact ⟨_, rfl⟩
    | k + 4, hk => simp [exCfg, Map.get?] at hk
  · intro k deps hk
    match k, hk with
    | 0, hk => simp [exCfg, Map.get?] at hk
    | 1, hk => simp [exCfg, Map.get?] at hk; subst hk; simp
    | 2, hk => simp [exCfg, Map.get?] at hk; subst hk; simp
    | 3, hk => simp [exCfg, Map.get?] at hk; subst hk; simp
    | k + 4, hk => simp [exCfg, Map.get?] at hk
  · intro r hr
    simp [exCfg] at hr
    subst hr
    exact ⟨_, rfl⟩

/-- the hypotheses of `get_async_with_cache_correct` are jointly satisfiable with a non-empty cache: `{1: 107, 0: 7}` (an
interior task and a data key) is sound -/
example : CacheSound (exCfg 1) exP id [(1, 107), (0, 7)] := by
  intro k v hv
  simp only [Map.get?] at hv
  split at hv
  · cases hv; subst_vars; decide
  · split at hv
    · cases hv; subst_vars; decide
    · cases hv
example : GraphOK (warmGraph (exCfg 1).g [(1, (107 : Nat)), (0, 7)]) (exCfg 1).results := graphOK_warm exGraphOK

def preOf (r : Run Nat) : List Key := r.log.filterMap (fun e => match e.1 with | .pretask k => some k | _ => none)

/-- caches holding (a) nothing, (b) a leaf task... : the executed tasks and the result, by evaluation of the model -/
example : preOf (getAsyncC (exCfg 1) exP [] [0, 0, 0]) = [1, 2, 3] ∧
    (getAsyncC (exCfg 1) exP [] [0, 0, 0]).final.cache.get? 3 = some 614 := by decide
/-- (e) a data key cached: everything runs -/
example : preOf (getAsyncC (exCfg 1) exP [(0, 7)] [0, 0, 0]) = [1, 2, 3] ∧
    (getAsyncC (exCfg 1) exP [(0, 7)] [0, 0, 0]).final.cache.get? 3 = some 614 := by decide
/-- (c) an interior task cached: it is not run -/
example : preOf (getAsyncC (exCfg 1) exP [(1, 107)] [0, 0]) = [2, 3] ∧
    (getAsyncC (exCfg 1) exP [(1, 107)] [0, 0]).final.cache.get? 3 = some 614 := by decide
/-- both interior tasks cached: the data node below them is not even visited -/
example : preOf (getAsyncC (exCfg 1) exP [(1, 107), (2, 207)] [0]) = [3] ∧
    (getAsyncC (exCfg 1) exP [(1, 107), (2, 207)] [0]).final.cache.get? 3 = some 614 ∧
    (getAsyncC (exCfg 1) exP [(1, 107), (2, 207)] [0]).final.dependencies.get? 0 = none := by decide
/-- (d) the requested key cached: nothing runs, the loop is not entered -/
example : preOf (getAsyncC (exCfg 1) exP [(3, 614)] []) = [] ∧ isDone (getAsyncC (exCfg 1) exP [(3, 614)] []) = true ∧
    (getAsyncC (exCfg 1) exP [(3, 614)] []).final.cache.get? 3 = some 614 := by decide
/-- a cached key the request does not need stays in the cache untouched (the frame) -/
example : (getAsyncC (exCfg 1) exP [(9, 1)] [0, 0, 0]).final.cache.get? 9 = some 1 ∧
    (getAsyncC (exCfg 1) exP [(9, 1)] [0, 0, 0]).final.cache.get? 3 = some 614 := by decide

/-- **UNSOUND cache - refutation witness**: without `CacheSound` the conclusion of `get_async_with_cache_correct` fails: with
`cache={1: 5}` (key 1 denotes 107) the call ends normally and returns 512, not the 614 the graph denotes -/
theorem unsound_cache_refuted :
    ¬ (∀ (c0 : Map Nat) (choices : List Nat), isDone (getAsyncC (exCfg 1) exP c0 choices) = true →
        (getAsyncC (exCfg 1) exP c0 choices).final.cache.get? 3 = some (den (exCfg 1) exP id 3)) := by
  intro H
  have := H [(1, 5)] [0, 0] (by decide)
  revert this
  decide
/-- what it returns instead is what `get_async_with_cache_denotes_warm` says: the value of the warm graph -/
example : (getAsyncC (exCfg 1) exP [(1, 5)] [0, 0]).final.cache.get? 3 =
    some (den (warmCfg (exCfg 1) [(1, (5 : Nat))]) (warmParams exP [(1, 5)]) id 3) := by decide
example : ¬ CacheSound (exCfg 1) exP id [(1, 5)] := by
  intro H
  have := H 1 5 (by decide)
  revert this
  decide

end Example

end Dask.C01
