import DaskModel.Props.C17
/-!
# C17 (continued) — nested merging: precedence at any depth

* `update_new_nested_wins`, `merge_last_nested_wins` — priority `"new"` / `merge`: every scalar of `new` (of the last
  dictionary), at any nested path, is what `get` returns afterwards, whatever was there before
* `updateGo_frame`, `canonicalName_frame` — `update` touches only the entries named by the keys of `new`
* non-vacuity examples for the precedence theorems of `Props/C17.lean`
* `update_old_nested_keeps` — priority `"old"`, any depth: a scalar of `old` stays, unless `new` holds a mapping exactly
  where the path ends (`SafeOld`; a mapping replaces a scalar under every priority)
Still validated only (oracle + diff): nested `"new-defaults"` precedence.
-/
namespace Dask.C17
open Dask.Config

theorem canonicalName_cases {α : Type} (k : String) (d : List (String × α)) :
    canonicalName k d = k ∨ canonicalName k d = altName k := by
  unfold canonicalName
  split
  · exact Or.inl rfl
  · split
    · exact Or.inr rfl
    · exact Or.inl rfl

theorem canonicalName_dset_self (k : String) (x : Cfg) (d : Dict) :
    canonicalName k (dset d (canonicalName k d) x) = canonicalName k d := by
  unfold canonicalName
  by_cases h1 : dhas d k = true
  · simp [h1, dhas_dset_self]
  · by_cases h2 : dhas d (altName k) = true
    · simp only [h1, h2, if_true, Bool.false_eq_true, if_false]
      by_cases hk : altName k = k
      · simp [hk]
      · have : dhas (dset d (altName k) x) k = dhas d k := by
          simp [dhas, dget_dset_other _ _ _ _ hk]
        simp [this, h1, dhas_dset_self]
    · simp [h1, h2, dhas_dset_self]

/-- `update` writes only under the canonical names of the keys of `new` -/
theorem updateGo_frame (p : Priority) : ∀ (new old d' : Dict) (dflt : Option Cfg),
    updateGo p new old dflt = some d' →
    ∀ key, (∀ kv ∈ new, key ≠ kv.1 ∧ key ≠ altName kv.1) → dget d' key = dget old key := by
  intro new
  induction new with
  | nil =>
    intro old d' dflt h key _
    simp only [updateGo, Option.some.injEq] at h
    rw [h]
  | cons kv rest ih =>
    intro old d' dflt h key hkey
    obtain ⟨k0, v⟩ := kv
    have hk0 := hkey (k0, v) List.mem_cons_self
    have hrest : ∀ kv ∈ rest, key ≠ kv.1 ∧ key ≠ altName kv.1 := fun kv hkv => hkey kv (List.mem_cons_of_mem _ hkv)
    have hne : canonicalName k0 old ≠ key := by
      rcases canonicalName_cases k0 old with e | e <;> rw [e]
      · exact fun e' => hk0.1 e'.symm
      · exact fun e' => hk0.2 e'.symm
    cases v with
    | leaf c =>
      simp only [updateGo] at h
      cases hw : leafWins id p old (canonicalName k0 old) dflt with
      | none => rw [hw] at h; simp at h
      | some b =>
        rw [hw] at h
        cases b
        · exact ih old d' dflt h key hrest
        · rw [ih _ d' dflt h key hrest, dget_dset_other _ _ _ _ hne]
    | node sub =>
      simp only [updateGo] at h
      cases hsd : subDefaults dflt (canonicalName k0 old) with
      | none => rw [hsd] at h; simp at h
      | some sd =>
        rw [hsd] at h
        simp only [] at h
        cases hu : updateNode p (.node sub) (curOf old (canonicalName k0 old)) sd with
        | none => rw [hu] at h; simp at h
        | some cur' =>
          rw [hu] at h
          simp only [] at h
          rw [ih _ d' dflt h key hrest, dget_dset_other _ _ _ _ hne]

/-- two key spellings that can never be taken for each other by `canonical_name` -/
def Indep (a b : String) : Prop := a ≠ b ∧ a ≠ altName b ∧ altName a ≠ b ∧ altName a ≠ altName b

theorem canonicalName_frame (p : Priority) (new old d' : Dict) (dflt : Option Cfg)
    (h : updateGo p new old dflt = some d') (k0 : String) (hind : ∀ kv ∈ new, Indep k0 kv.1) :
    canonicalName k0 d' = canonicalName k0 old ∧ dget d' (canonicalName k0 old) = dget old (canonicalName k0 old) := by
  have h1 : dget d' k0 = dget old k0 :=
    updateGo_frame p new old d' dflt h k0 (fun kv hkv => ⟨(hind kv hkv).1, (hind kv hkv).2.1⟩)
  have h2 : dget d' (altName k0) = dget old (altName k0) :=
    updateGo_frame p new old d' dflt h (altName k0) (fun kv hkv => ⟨(hind kv hkv).2.2.1, (hind kv hkv).2.2.2⟩)
  have hc : canonicalName k0 d' = canonicalName k0 old := by
    unfold canonicalName dhas
    rw [h1, h2]
  refine ⟨hc, ?_⟩
  rcases canonicalName_cases k0 old with e | e <;> rw [e]
  · exact h1
  · exact h2


mutual
/-- in every mapping, no two keys can be taken for each other (`a-b` next to `a_b`, …) -/
def CleanC : Cfg → Prop
  | .leaf _ => True
  | .node d => CleanD d
def CleanD : Dict → Prop
  | [] => True
  | kv :: r => (∀ kv' ∈ r, Indep kv.1 kv'.1) ∧ CleanC kv.2 ∧ CleanD r
end

/-- the scalar stored in `d` under the literal path `path` -/
def leafAt : Dict → List String → Option Int
  | _, [] => none
  | d, [k] => match dget d k with
    | some (.leaf c) => some c
    | _ => none
  | d, k :: k2 :: ks => match dget d k with
    | some (.node sub) => leafAt sub (k2 :: ks)
    | _ => none

theorem indep_symm (a b : String) (h : Indep a b) : Indep b a :=
  ⟨fun e => h.1 e.symm, fun e => h.2.2.1 e.symm, fun e => h.2.1 e.symm, fun e => h.2.2.2 e.symm⟩

/-- reading the entry just written under the canonical name of `k0`, after `rest` (independent keys) was merged in -/
theorem get_written_entry (rest old d' : Dict) (k0 : String) (x : Cfg)
    (h : updateGo .new rest (dset old (canonicalName k0 old) x) none = some d')
    (hind : ∀ kv ∈ rest, Indep k0 kv.1) :
    dget d' (canonicalName k0 d') = some x := by
  obtain ⟨h1, h2⟩ := canonicalName_frame .new rest _ d' none h k0 hind
  rw [h1, h2, canonicalName_dset_self, dget_dset_self]

mutual
theorem updateNode_new_nested (v : Cfg) : ∀ (cur cur' : Dict), CleanC v → updateNode .new v cur none = some cur' →
    ∀ sub, v = .node sub → ∀ path c, leafAt sub path = some c → getPath path (.node cur') = .ok (.leaf c) :=
  match v with
  | .leaf _ => by intro _ _ _ _ sub hv; cases hv
  | .node s => by
    intro cur cur' hc h sub hv path c hl
    cases hv
    simp only [updateNode] at h
    simp only [CleanC] at hc
    exact updateGo_new_nested s cur cur' hc h path c hl
/-- **update_new_nested_wins** (loop form). -/
theorem updateGo_new_nested : ∀ (new old d' : Dict), CleanD new → updateGo .new new old none = some d' →
    ∀ path c, leafAt new path = some c → getPath path (.node d') = .ok (.leaf c)
  | [], old, d', _, _ => by
    intro path c hl
    cases path with
    | nil => simp [leafAt] at hl
    | cons k ks => cases ks <;> simp [leafAt, dget] at hl
  | kv :: rest, old, d', hclean, h => by
    intro path c hl
    have ihn := updateNode_new_nested kv.2
    have ihr := updateGo_new_nested rest
    obtain ⟨k0, v⟩ := kv
    simp only [CleanD] at hclean
    obtain ⟨hind, hcv, hcr⟩ := hclean
    have hind' : ∀ kv ∈ rest, Indep k0 kv.1 := hind
    cases path with
    | nil => simp [leafAt] at hl
    | cons k ks =>
      by_cases hk : k0 = k
      · -- the path goes through this item
        subst hk
        cases v with
        | leaf x =>
          simp only [updateGo, leafWins, BEq.rfl, Bool.true_or, if_true] at h
          have hw := get_written_entry rest old d' k0 (.leaf x) h hind'
          cases ks with
          | nil =>
            simp only [leafAt, dget, if_true, Option.some.injEq] at hl
            subst hl
            simp [getPath, hw]
          | cons k2 ks => simp [leafAt, dget] at hl
        | node sub =>
          simp only [updateGo, subDefaults, truthy, Bool.false_eq_true, if_false] at h
          cases hu : updateNode .new (.node sub) (curOf old (canonicalName k0 old)) none with
          | none => rw [hu] at h; simp at h
          | some cur' =>
            rw [hu] at h
            simp only [] at h
            have hw := get_written_entry rest old d' k0 (.node cur') h hind'
            cases ks with
            | nil => simp [leafAt, dget] at hl
            | cons k2 ks =>
              simp only [leafAt, dget, if_true] at hl
              simp only [getPath, hw]
              exact ihn _ cur' hcv hu sub rfl (k2 :: ks) c hl
      · -- the path goes through a later item: `leafAt` skips this one, and the induction hypothesis applies
        have hl' : leafAt rest (k :: ks) = some c := by
          cases ks with
          | nil => simpa [leafAt, dget, hk] using hl
          | cons k2 ks => simpa [leafAt, dget, hk] using hl
        cases v with
        | leaf x =>
          simp only [updateGo, leafWins, BEq.rfl, Bool.true_or, if_true] at h
          exact ihr _ d' hcr h (k :: ks) c hl'
        | node sub =>
          simp only [updateGo, subDefaults, truthy, Bool.false_eq_true, if_false] at h
          cases hu : updateNode .new (.node sub) (curOf old (canonicalName k0 old)) none with
          | none => rw [hu] at h; simp at h
          | some cur' =>
            rw [hu] at h
            simp only [] at h
            exact ihr _ d' hcr h (k :: ks) c hl'
end

/-- **update_new_nested_wins.** Priority `"new"` (the default; what `merge` uses), any depth: every scalar of `new`,
at any nested path, is what `get` returns from the result — whatever `old` contained (scalars where `new` has
mappings, mappings where `new` has scalars, either spelling) — provided `new` itself does not use two spellings
that `canonical_name` could take for each other inside one mapping (`CleanD`). -/
theorem update_new_nested_wins (old new d' : Dict) (hc : CleanD new) (h : update .new old new none = some d')
    (path : List String) (c : Int) (hl : leafAt new path = some c) : getPath path (.node d') = .ok (.leaf c) :=
  updateGo_new_nested new old d' hc h path c hl

/-- non-vacuity: `new = {a: {b: 1, c: {d: 2}}, x: 3}` is clean; merged into `{a: 7, x: {y: 1}, a-b: 0}` -/
example : CleanD [("a", .node [("b", .leaf 1), ("c", .node [("d", .leaf 2)])]), ("x", .leaf 3)] ∧
    leafAt [("a", .node [("b", .leaf 1), ("c", .node [("d", .leaf 2)])]), ("x", .leaf 3)] ["a", "c", "d"] = some 2 ∧
    update .new [("a", .leaf 7), ("x", .node [("y", .leaf 1)]), ("a-b", .leaf 0)]
      [("a", .node [("b", .leaf 1), ("c", .node [("d", .leaf 2)])]), ("x", .leaf 3)] none
      = some [("a", .node [("b", .leaf 1), ("c", .node [("d", .leaf 2)])]), ("x", .leaf 3), ("a-b", .leaf 0)] := by
  refine ⟨?_, by rfl, by rfl⟩
  simp only [CleanD, CleanC, List.mem_cons, List.not_mem_nil, or_false, forall_eq, and_true, Indep, false_imp_iff,
    implies_true]
  decide


/-- **merge_last_nested_wins.** `merge(*dicts)`: every scalar of the LAST dictionary, at any nested path, is what `get`
returns from the result. -/
theorem merge_last_nested_wins (ds : List Dict) (last d' : Dict) (hc : CleanD last)
    (h : merge (ds ++ [last]) = some d') (path : List String) (c : Int) (hl : leafAt last path = some c) :
    getPath path (.node d') = .ok (.leaf c) := by
  unfold merge at h
  rw [List.foldl_append] at h
  simp only [List.foldl_cons, List.foldl_nil] at h
  cases hacc : List.foldl (fun acc d => acc.bind fun r => update .new r d none) (some []) ds with
  | none => rw [hacc] at h; simp at h
  | some r =>
    rw [hacc] at h
    simp only [Option.bind_some] at h
    exact update_new_nested_wins r last d' hc h path c hl

/-- the documented examples of `update` and `merge` -/
example :
    update .new [("x", .leaf 1), ("y", .node [("a", .leaf 2)])] [("x", .leaf 2), ("y", .node [("b", .leaf 3)])] none
      = some [("x", .leaf 2), ("y", .node [("a", .leaf 2), ("b", .leaf 3)])] ∧
    update .old [("x", .leaf 1), ("y", .node [("a", .leaf 2)])] [("x", .leaf 2), ("y", .node [("b", .leaf 3)])] none
      = some [("x", .leaf 1), ("y", .node [("a", .leaf 2), ("b", .leaf 3)])] ∧
    update .newDefaults [("x", .leaf 1), ("y", .node [("a", .leaf 2)])]
        [("x", .leaf 2), ("y", .node [("a", .leaf 3), ("b", .leaf 3)])]
        (some (.node [("x", .leaf 0), ("y", .node [("a", .leaf 2)])]))
      = some [("x", .leaf 1), ("y", .node [("a", .leaf 3), ("b", .leaf 3)])] ∧
    merge [[("x", .leaf 1), ("y", .node [("a", .leaf 2)])], [("y", .node [("b", .leaf 3)])]]
      = some [("x", .leaf 1), ("y", .node [("a", .leaf 2), ("b", .leaf 3)])] := by
  refine ⟨by rfl, by rfl, ?_, by rfl⟩
  simp [update, updateGo, updateNode, leafWins, subDefaults, truthy, cfgBeq, canonicalName, dhas, dget, dset, curOf, altName,
    Dask.PyStr.hasChar, Dask.PyStr.replaceChar, Dask.PyStr.replaceCharL]

/-- non-vacuity of `update_new_last_wins` / `merge_last_wins` / `update_old_keeps_old` (their hypotheses hold on
concrete inputs where something is overwritten, respectively kept) -/
example :
    update .new [("a_b", .leaf 1)] ([("q", .node [("r", .leaf 0)]), ("a-b", .leaf 5)] ++ [("a-b", .leaf 9)]) none
      = some [("a_b", .leaf 9), ("q", .node [("r", .leaf 0)])] ∧
    merge ([[("k", .leaf 1)]] ++ [[("z", .leaf 0)] ++ [("k", .leaf 2)]]) = some [("k", .leaf 2), ("z", .leaf 0)] ∧
    update .old [("k", .leaf 1)] [("k", .leaf 2), ("z", .leaf 3)] none = some [("k", .leaf 1), ("z", .leaf 3)] := by
  refine ⟨by rfl, by rfl, by rfl⟩

/-- non-vacuity of `collect_env_single` / `get_after_assign` -/
example : envVarName "DASK_A__B_C" = some "a.b_c" ∧
    assign ["a", "b_c"] (.leaf 1) [("a", .node [("b-c", .leaf 0)])] [] true
      = some ([("a", .node [("b-c", .leaf 1)])], [.replace ["a", "b-c"] (.leaf 0)]) := by
  refine ⟨by decide, by rfl⟩

/-- `new` never puts a MAPPING where `path` ends (a mapping replaces a scalar whatever the priority — `update`'s rule
for mapping-valued items): along `path`, every key of `new` that `canonical_name` could map onto the segment holds a
scalar, or a mapping that is again safe for the rest of the path -/
def SafeOld : Dict → List String → Prop
  | _, [] => True
  | new, [k] => ∀ kv ∈ new, (kv.1 = k ∨ altName kv.1 = k) → ∃ x, kv.2 = Cfg.leaf x
  | new, k :: k2 :: ks => ∀ kv ∈ new, (kv.1 = k ∨ altName kv.1 = k) →
      (∃ x, kv.2 = Cfg.leaf x) ∨ (∃ sub, kv.2 = Cfg.node sub ∧ SafeOld sub (k2 :: ks))

theorem leafAt_congr (d d' : Dict) (k : String) (rest : List String) (h : dget d' k = dget d k) :
    leafAt d' (k :: rest) = leafAt d (k :: rest) := by
  cases rest <;> simp [leafAt, h]

theorem dhas_of_leafAt (d : Dict) (k : String) (rest : List String) (c : Int) (h : leafAt d (k :: rest) = some c) :
    dhas d k = true := by
  cases hg : dget d k with
  | none => cases rest <;> simp [leafAt, hg] at h
  | some v => simp [dhas, hg]

/-- **update_old_nested_keeps.** Priority `"old"`, any depth: a scalar of `old` at any nested path is still there
afterwards — "the old dictionary has preference" — unless `new` holds a mapping exactly where the path ends
(`SafeOld` excludes that; a mapping replaces a scalar under every priority). -/
theorem update_old_nested_keeps : ∀ (path : List String) (new old d' : Dict) (c : Int),
    updateGo .old new old none = some d' → leafAt old path = some c → SafeOld new path → leafAt d' path = some c := by
  intro path
  induction path using List.rec with
  | nil => intro new old d' c _ hl; simp [leafAt] at hl
  | cons k rest ihp =>
    intro new
    induction new with
    | nil =>
      intro old d' c h hl _
      simp only [updateGo, Option.some.injEq] at h
      rw [← h]; exact hl
    | cons kv tl ih =>
      intro old d' c h hl hsafe
      obtain ⟨k', v⟩ := kv
      have hsafe_tl : SafeOld tl (k :: rest) := by
        cases rest with
        | nil => exact fun kv hkv => hsafe kv (List.mem_cons_of_mem _ hkv)
        | cons k2 ks => exact fun kv hkv => hsafe kv (List.mem_cons_of_mem _ hkv)
      by_cases hkey : canonicalName k' old = k
      · -- this item addresses the entry the path goes through
        have hrel : k' = k ∨ altName k' = k := by
          rcases canonicalName_cases k' old with e | e
          · exact Or.inl (e ▸ hkey)
          · exact Or.inr (e ▸ hkey)
        have hhas := dhas_of_leafAt old k rest c hl
        cases v with
        | leaf x =>
          simp only [updateGo, leafWins, hkey, hhas] at h
          simp only [Bool.not_true, Bool.or_false] at h
          have hp : (Priority.old == Priority.new) = false := by decide
          have hq : (Priority.old == Priority.newDefaults) = false := by decide
          simp only [hp, hq, Bool.false_and, Bool.false_eq_true, if_false] at h
          exact ih old d' c h hl hsafe_tl
        | node sub =>
          -- the path must go on below (SafeOld forbids a mapping at its end), and `old[k]` is a mapping
          cases rest with
          | nil =>
            have := hsafe (k', .node sub) List.mem_cons_self hrel
            obtain ⟨x, hx⟩ := this
            cases hx
          | cons k2 ks =>
            have hs := hsafe (k', .node sub) List.mem_cons_self hrel
            rcases hs with ⟨x, hx⟩ | ⟨sub', hsub, hsafe'⟩
            · cases hx
            · cases hsub
              simp only [updateGo, subDefaults, truthy, Bool.false_eq_true, if_false, hkey] at h
              cases hg : dget old k with
              | none => simp [leafAt, hg] at hl
              | some ov =>
                cases ov with
                | leaf y => simp [leafAt, hg] at hl
                | node s =>
                  have hl' : leafAt s (k2 :: ks) = some c := by simpa [leafAt, hg] using hl
                  have hcur : curOf old k = s := by simp [curOf, hg]
                  rw [hcur] at h
                  cases hu : updateNode .old (.node sub) s none with
                  | none => rw [hu] at h; simp at h
                  | some cur' =>
                    rw [hu] at h
                    simp only [] at h
                    simp only [updateNode] at hu
                    have hin := ihp sub s cur' c hu hl' hsafe'
                    apply ih _ d' c h _ hsafe_tl
                    simp [leafAt, dget_dset_self, hin]
      · -- another entry: the one on the path is not touched by this item
        have hstep : ∀ x, leafAt (dset old (canonicalName k' old) x) (k :: rest) = leafAt old (k :: rest) :=
          fun x => leafAt_congr old _ k rest (dget_dset_other _ _ _ _ hkey)
        cases v with
        | leaf x =>
          simp only [updateGo] at h
          cases hw : leafWins id .old old (canonicalName k' old) none with
          | none => rw [hw] at h; simp at h
          | some b =>
            rw [hw] at h
            cases b
            · exact ih old d' c h hl hsafe_tl
            · exact ih _ d' c h (by rw [hstep]; exact hl) hsafe_tl
        | node sub =>
          simp only [updateGo, subDefaults, truthy, Bool.false_eq_true, if_false] at h
          cases hu : updateNode .old (.node sub) (curOf old (canonicalName k' old)) none with
          | none => rw [hu] at h; simp at h
          | some cur' =>
            rw [hu] at h
            simp only [] at h
            exact ih _ d' c h (by rw [hstep]; exact hl) hsafe_tl

/-- non-vacuity: `old = {a: {b: 1, c: 2}, x: 3}`, `new = {a: {b: 9, d: 4}, x: 7, a-b: {q: 0}}` is safe for `a.b`, and
`update(old, new, priority="old")` keeps `a.b = 1` (and adds `a.d`, `a-b`) -/
example :
    SafeOld [("a", .node [("b", .leaf 9), ("d", .leaf 4)]), ("x", .leaf 7), ("a-b", .node [("q", .leaf 0)])] ["a", "b"] ∧
    leafAt [("a", .node [("b", .leaf 1), ("c", .leaf 2)]), ("x", .leaf 3)] ["a", "b"] = some 1 ∧
    update .old [("a", .node [("b", .leaf 1), ("c", .leaf 2)]), ("x", .leaf 3)]
      [("a", .node [("b", .leaf 9), ("d", .leaf 4)]), ("x", .leaf 7), ("a-b", .node [("q", .leaf 0)])] none
      = some [("a", .node [("b", .leaf 1), ("c", .leaf 2), ("d", .leaf 4)]), ("x", .leaf 3), ("a-b", .node [("q", .leaf 0)])] := by
  refine ⟨?_, by rfl, by rfl⟩
  intro kv hkv hrel
  simp only [List.mem_cons, List.not_mem_nil, or_false] at hkv
  rcases hkv with rfl | rfl | rfl
  · right
    refine ⟨_, rfl, ?_⟩
    intro kv hkv hrel
    simp only [List.mem_cons, List.not_mem_nil, or_false] at hkv
    rcases hkv with rfl | rfl
    · exact ⟨9, rfl⟩
    · exact ⟨4, rfl⟩
  · exact Or.inl ⟨7, rfl⟩
  · exfalso
    rcases hrel with h | h
    · revert h; decide
    · revert h; decide

end Dask.C17
