import DaskModel.Lemmas.LegacyInline5
/-!
# C09 (extension round) — the legacy `inline` and `inline_functions` preserve the requested values, for all inputs

Model: `Dask.TaskTerm.inline` / `inlineFunctions` (Model/LegacyInline.lean), transliterations of
`dask.optimization.inline` (with `inline_constants`, the replace order computed by the C07 model of `toposort` on the
graph's dependency sets, the `keysubs` loop and the loop over the remaining entries) and `inline_functions`
(`inlinable`, `functions_of`, the fast-function test as a predicate, `inline`, `del dsk[k]`), over the legacy term model.
The iteration order of Python sets is a parameter `iter`; the theorems hold for every order (`IterOK`).

"Evaluates as before" is `ComputesL g cache k v` = some recursion depth of the statement's legacy denotation `evalKeyL`
yields `v` (keys outside the graph are read from `cache`); by C08 `convertGraph_preserves_eval` that denotation is what
`dask.core.get` computes. Hypotheses: the graph is a dict (duplicate-free keys) of key-typed keys and a DAG (`DagL`: some
rank decreases along references).
-/
namespace Dask.C09
open Dask.TaskTerm

/-- **The loops of `inline` on any replace order with the properties C07 proves about a `toposort` result** (graph keys
    only, dependencies first, every key to inline — checked by the harness on the order observed on the real call): they
    return; the result has exactly the keys of the input; no entry refers to an inlined key any more; it is a DAG; every
    key computes what it computed before. -/
theorem inlineWith_preserves_eval {iter : List Obj → List Obj} (hiter : IterOK iter) (g : LGraph)
    (hnd : (g.map Prod.fst).Nodup) (hKt : ∀ k ∈ g.map Prod.fst, k.keyTyped = true) (rank : Obj → Nat)
    (hdag : DagL g rank) (S order : List Obj) (hto : TopoOK g S order) :
    ∃ h, inlineWith iter order g S = some h ∧
      (∀ k, k ∈ h.map Prod.fst ↔ k ∈ g.map Prod.fst) ∧
      (∀ k v, h.lookup k = some v → ∀ x ∈ legacyRefs (h.map Prod.fst) v, x ∉ S) ∧
      DagL h rank ∧
      ∀ cache k v, ComputesL h cache k v ↔ ComputesL g cache k v :=
  inlineWith_computes hiter g hnd hKt rank hdag S order hto

/-- **`toposort` inside `inline` never raises on a DAG**, and its result is a replace order as required above. -/
theorem inline_replace_order_ok {iter : List Obj → List Obj} (hiter : IterOK iter) (g : LGraph)
    (hnd : (g.map Prod.fst).Nodup) (rank : Obj → Nat) (hdag : DagL g rank) (S : List Obj) :
    ∃ order, replaceOrder iter g S = some order ∧ TopoOK g S order :=
  replaceOrder_ok hiter g hnd rank hdag S

/-- **`inline` preserves every value — for every DAG, every key list, with and without `inline_constants`, every set
    iteration order.** The function returns (no `RuntimeError` from `toposort`, no `KeyError`); every key of the input —
    in particular every requested key — is a key of the result and nothing else is; no entry of the result refers to a key
    that was to be inlined (the given keys, plus the constants and aliases with `inline_constants`); and every key
    computes exactly the values it computed in the input graph, whatever the cache holds for keys outside the graph. -/
theorem inline_preserves_eval {iter : List Obj → List Obj} (hiter : IterOK iter) (g : LGraph)
    (hnd : (g.map Prod.fst).Nodup) (hKt : ∀ k ∈ g.map Prod.fst, k.keyTyped = true) (rank : Obj → Nat)
    (hdag : DagL g rank) (keys : List Obj) (inlineConstants : Bool) :
    ∃ h, inline iter g keys inlineConstants = some h ∧
      (∀ k, k ∈ h.map Prod.fst ↔ k ∈ g.map Prod.fst) ∧
      (∀ k v, h.lookup k = some v → ∀ x ∈ legacyRefs (h.map Prod.fst) v, x ∉ inlineSet g keys inlineConstants) ∧
      DagL h rank ∧
      ∀ cache k v, ComputesL h cache k v ↔ ComputesL g cache k v := by
  obtain ⟨order, hro, hto⟩ := replaceOrder_ok hiter g hnd rank hdag (inlineSet g keys inlineConstants)
  obtain ⟨h, hh, h1, h2, h3, h4⟩ := inlineWith_computes hiter g hnd hKt rank hdag _ order hto
  exact ⟨h, by simp only [Dask.TaskTerm.inline, hro, hh], h1, h2, h3, h4⟩

/-- **`inline_functions` preserves the requested values — for every DAG, every `output` list, every fast-function
    predicate, with and without `inline_constants`, every set iteration order.** The function returns (`del dsk[k]` never
    hits a missing key); every `output` key of the graph is a key of the result; the result has no new key; and every key
    of the result — in particular every requested one — computes exactly the values it computed in the input graph. -/
theorem inline_functions_preserves_eval {iter : List Obj → List Obj} (hiter : IterOK iter) (fast : Obj → Bool)
    (anyFast : Bool) (g : LGraph) (hnd : (g.map Prod.fst).Nodup) (hKt : ∀ k ∈ g.map Prod.fst, k.keyTyped = true)
    (rank : Obj → Nat) (hdag : DagL g rank) (output : List Obj) (inlineConstants : Bool) :
    ∃ h, inlineFunctions iter fast anyFast g output inlineConstants = some h ∧
      (∀ k ∈ output, k ∈ g.map Prod.fst → k ∈ h.map Prod.fst) ∧
      (∀ k ∈ h.map Prod.fst, k ∈ g.map Prod.fst) ∧
      ∀ cache k v, k ∈ h.map Prod.fst → (ComputesL h cache k v ↔ ComputesL g cache k v) :=
  inlineFunctions_computes hiter fast anyFast g hnd hKt rank hdag output inlineConstants
    (fun keys => replaceOrder_ok hiter g hnd rank hdag (inlineSet g keys inlineConstants))

/-- the keys `inline_functions` removes are exactly the inlinable ones: tasks that are not requested, have a dependent and
    call fast functions only — a requested key is never removed -/
theorem inline_functions_removes_only_inlinable (fast : Obj → Bool) (g : LGraph) (output : List Obj) (k : Obj)
    (hk : k ∈ inlinableKeys fast g output) :
    k ∉ output ∧ ∃ t, (k, t) ∈ g ∧ t.isTask = true ∧ hasDependent g (g.map Prod.fst) k = true ∧
      (functionsOf t).all fast = true := by
  unfold inlinableKeys at hk
  obtain ⟨kv, hkv, rfl⟩ := List.mem_map.mp hk
  obtain ⟨hm, hp⟩ := List.mem_filter.mp hkv
  simp only [inlinable, Bool.and_eq_true, Bool.not_eq_true', List.contains_eq_mem, decide_eq_false_iff_not] at hp
  exact ⟨hp.1.1.2, kv.2, hm, hp.1.1.1, hp.1.2, hp.2⟩

/-! ### non-vacuity -/

/-- both set-iteration orders the driver uses are admissible -/
example : IterOK id := fun _ _ => Iff.rfl
example : IterOK List.reverse := fun _ _ => List.mem_reverse

/-- the doc-string graph of `inline`: `{'x': 1, 'y': (inc, 'x'), 'z': (add, 'x', 'y')}` -/
def docGraph : LGraph :=
  [(.str "x", .int 1), (.str "y", .tuple [.fn 1, .str "x"]), (.str "z", .tuple [.fn 0, .str "x", .str "y"])]

/-- … has duplicate-free key-typed keys and is a DAG -/
example : (docGraph.map Prod.fst).Nodup ∧ (∀ k ∈ docGraph.map Prod.fst, k.keyTyped = true) := by decide
example : DagL docGraph (fun k => if k == .str "z" then 2 else if k == .str "y" then 1 else 0) := by
  intro k t hl
  simp only [docGraph, List.lookup] at hl
  split at hl
  · cases hl
    intro d hd
    have : legacyRefs (docGraph.map Prod.fst) (.int 1) = [] := by decide
    rw [this] at hd; cases hd
  · split at hl
    · rename_i h
      have : k = .str "y" := eq_of_beq h
      subst this; cases hl; decide
    · split at hl
      · rename_i h
        have : k = .str "z" := eq_of_beq h
        subst this; cases hl; decide
      · cases hl

/-- the three doc-string calls of `inline` -/
example : inline id docGraph [] true = some
    [(.str "x", .int 1), (.str "y", .tuple [.fn 1, .int 1]), (.str "z", .tuple [.fn 0, .int 1, .str "y"])] := by decide
example : inline id docGraph [.str "y"] true = some
    [(.str "x", .int 1), (.str "y", .tuple [.fn 1, .int 1]),
     (.str "z", .tuple [.fn 0, .int 1, .tuple [.fn 1, .int 1]])] := by decide
example : inline id docGraph [.str "y"] false = some
    [(.str "x", .int 1), (.str "y", .tuple [.fn 1, .str "x"]),
     (.str "z", .tuple [.fn 0, .str "x", .tuple [.fn 1, .str "x"]])] := by decide
/-- the replace order of the second call, and its `TopoOK` hypotheses spelled out -/
example : replaceOrder id docGraph [.str "y", .str "x"] = some [.str "x", .str "y"] := by decide
/-- `inline_functions(dsk, ['z'], [inc])` removes `y`; with `y` requested nothing is removed; without fast functions the
    graph is returned as it is -/
example : inlineFunctions id (fun f => f == .fn 1) true docGraph [.str "z"] false = some
    [(.str "x", .int 1), (.str "z", .tuple [.fn 0, .str "x", .tuple [.fn 1, .str "x"]])] := by decide
example : inlineFunctions id (fun f => f == .fn 1) true docGraph [.str "z", .str "y"] false = some docGraph := by decide
example : inlineFunctions id (fun _ => false) false docGraph [.str "z"] true = some docGraph := by decide
/-- falsy keys, an alias of an alias, a dict and a list argument: everything is inlined into `top` -/
example : inline id
    [(.str "", .int 7), (.int 0, .str ""), (.tuple [], .tuple [.fn 1, .int 0]),
     (.str "top", .tuple [.fn 0, .dict [(.str "a", .tuple [])], .list [.int 0, .str ""], .tuple [.int 3, .str ""]])]
    [.str "", .int 0, .tuple []] false = some
    [(.str "", .int 7), (.int 0, .int 7), (.tuple [], .tuple [.fn 1, .int 7]),
     (.str "top", .tuple [.fn 0, .dict [(.str "a", .tuple [.fn 1, .int 7])], .list [.int 7, .int 7],
                          .tuple [.int 3, .str ""]])] := by decide

/-! ### a finding of this round: renamed keys versus literals (legacy `fuse_linear` / `fuse`, `rename_keys=True`)

In a legacy graph a hashable value equal to a key is a reference. `fuse_linear` and `fuse` store a fused chain under a new
name after checking only that the name is not a key of the graph or of the result; a literal equal to that name, anywhere in
the graph, thereby becomes a reference to the fused task. Recorded as a finding (known_findings.json, corpus/C09). -/

/-- **Refutation witness** (replayed on /repo by section `renlit`): the real output of
    `fuse_linear({'a': 1, 'b': (inc, 'a'), 'c': (add, 'b', 'a-b-c')}, keys=['c'])` is
    `{'a-b-c': (add, (inc, 1), 'a-b-c'), 'c': 'a-b-c'}`. The proved checker rejects it, and `c`, which denoted
    `add(inc(1), 'a-b-c')`, has no value any more (the fused task refers to itself). -/
theorem fuse_linear_renamed_literal_refuted :
    let g : LGraph := [(.str "a", .int 1), (.str "b", .tuple [.fn 1, .str "a"]),
                       (.str "c", .tuple [.fn 0, .str "b", .str "a-b-c"])]
    let h : LGraph := [(.str "a-b-c", .tuple [.fn 0, .tuple [.fn 1, .int 1], .str "a-b-c"]), (.str "c", .str "a-b-c")]
    fuseOKR g h [.str "a", .str "b"] [(.str "c", .str "a-b-c")] [.str "c"] = false ∧
    legacyGet g (.str "c") = some (.app 0 [.app 1 [.int 1] [], .str "a-b-c"] []) ∧
    legacyGet h (.str "c") = none := by decide

/-- … and with the literal in another task the value changes silently:
    `{'a': 1, 'b': (inc, 'a'), 'c': (dbl, 'b'), 'd': (f, 'c', 'a-b-c', 'c')}`, `keys=['d']` ↦
    `{'a-b-c': (dbl, (inc, 1)), 'd': (f, 'a-b-c', 'a-b-c', 'a-b-c')}` -/
theorem fuse_linear_renamed_literal_silent_refuted :
    let g : LGraph := [(.str "a", .int 1), (.str "b", .tuple [.fn 1, .str "a"]), (.str "c", .tuple [.fn 2, .str "b"]),
                       (.str "d", .tuple [.fn 4, .str "c", .str "a-b-c", .str "c"])]
    let h : LGraph := [(.str "a-b-c", .tuple [.fn 2, .tuple [.fn 1, .int 1]]),
                       (.str "d", .tuple [.fn 4, .str "a-b-c", .str "a-b-c", .str "a-b-c"])]
    legacyGet g (.str "d") = some (.app 4 [.app 2 [.app 1 [.int 1] []] [], .str "a-b-c", .app 2 [.app 1 [.int 1] []] []] []) ∧
    legacyGet h (.str "d") = some (.app 4 [.app 2 [.app 1 [.int 1] []] [], .app 2 [.app 1 [.int 1] []] [],
                                          .app 2 [.app 1 [.int 1] []] []] []) := by decide

end Dask.C09
