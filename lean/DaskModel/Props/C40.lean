import DaskModel.Lemmas.ShufflePerm
import DaskModel.Lemmas.SortValues
import DaskModel.Lemmas.Dedup
import DaskModel.Lemmas.Truthful
import DaskModel.Lemmas.SortValuesTruthful
/-! # C40 — sorting, shuffling and de-duplication keep exactly the right rows (theorems)

Models: `Model/Shuffle.lean` (task shuffles, `set_partitions_pre`), `Model/SortValues.lean` (`sort_values` /
`set_index` pipeline, the presorted test of `_calculate_divisions`, `drop_duplicates` via tree / shuffle).
`h` (pandas' `hash_object`) is abstract: a row carries its `_partitions` value `target = h(key) % npartitions_out`,
so "equal keys ⇒ equal target" is the only fact used. The per-partition pandas calls (`sort_values`,
`drop_duplicates`) are parameters / specifications: the sort theorems hold for ANY per-partition function that
returns a sorted permutation (pandas' default sort is not stable: no tie order is claimed).

Statement clause → theorem
* "shuffle puts all rows with equal key values in the same output partition" → `task_shuffle_colocated`,
  `simple_shuffle_colocated`, `task_shuffle_mem_iff`
* "… and preserves the multiset of rows" → `task_shuffle_perm`, `simple_shuffle_perm` (and exactly, with order:
  `task_shuffle_exact`, `simple_shuffle_exact`)
* "sort_values and set_index produce globally ordered results equal to pandas" → `sort_values_globally_ordered`,
  `sort_values_rows`, `sort_values_keys_eq_reference`, `sort_values_tasks`, `set_index_truthful`,
  `set_index_tasks_truthful`, `sort_values_disk`, `presorted_shortcut_sorted`, `presorted_shortcut_eq_full_path`,
  `set_index_presorted_truthful`, `sort_values_multikey_globally_ordered` (several sort columns),
  `set_partitions_pre_monotone`, `set_partitions_pre_nan`
* "drop_duplicates, unique and nunique equal pandas for any partitioning, split_out and shuffle method" →
  `drop_duplicates_tree_eq`, `drop_duplicates_tasks_perm`, `drop_duplicates_keys_any_shuffle` (distinct keys =
  `unique` / `nunique`; `drop_duplicates_disk_keys` for the disk shuffle model), and FALSE as stated for arrival-order shuffles: `drop_duplicates_arrival_order_refuted`
  (the recorded finding for `shuffle_method="disk"`). -/
namespace Dask.C40
open Dask.Shuffle
variable {α : Type}

/-- **staged_route** (tuple form): for every starting position, after stages `0 … S-1` of the task shuffle a
    row with reduced target `t` sits at the position whose digit tuple is the base-`k` expansion of `t`. -/
theorem staged_route (k S t : Nat) (src : List Nat) (hsrc : src.length = S) :
    routeTuple k S t src = digits t S k := staged_route_tuple k S t src hsrc

/-- **staged_route** (position form): with `k^S ≥ npartitions_input` (the hypothesis the float glue is checked
    against) the row ends in staged partition number `target % npartitions_input`, from any source partition. -/
theorem staged_position (k S nIn target src : Nat) (hn : 0 < nIn) (hk : nIn ≤ k ^ S) :
    fromDigits k (routeTuple k S (target % nIn) (digits src S k)) = target % nIn := by
  rw [staged_route_tuple k S _ _ (digits_length src S k)]
  exact fromDigits_digits k S _ (Nat.lt_of_lt_of_le (Nat.mod_lt _ hn) hk)

/-- **colocated** (staged): two rows with the same target end at the same position, wherever they start -/
theorem staged_colocated (k S nIn target src₁ src₂ : Nat) :
    routeTuple k S (target % nIn) (digits src₁ S k) = routeTuple k S (target % nIn) (digits src₂ S k) := by
  rw [staged_route_tuple k S _ _ (digits_length src₁ S k), staged_route_tuple k S _ _ (digits_length src₂ S k)]

/-- the index `shuffle_group` uses at a stage is the stage's digit of the reduced target (`_partitions` branch) -/
theorem stageIndex_is_digit (ind stage k n nfinal : Nat) :
    stageIndex ind stage k n nfinal false = digit (ind % n) stage k := by
  simp [stageIndex]

/-- in the hashing branch the raw hash is first reduced modulo the final partition count -/
theorem stageIndex_hashing (h stage k n nfinal : Nat) (h0 : nfinal ≠ 0) (hne : nfinal ≠ n) :
    stageIndex h stage k n nfinal true = digit (h % nfinal % n) stage k := by
  simp [stageIndex, h0, hne]

/-- **SimpleShuffle**: exactly `n` outputs; output `p` is the subsequence, in input order, of all rows
    whose target is `p` modulo `n` (rows, multiplicity and relative order) -/
theorem simple_shuffle_exact (parts : List (List (Nat × α))) (n p : Nat) (hp : p < n) :
    (simpleShuffle parts n).length = n ∧
    (simpleShuffle parts n)[p]? = some (parts.flatten.filter fun r => r.1 % n == p) :=
  ⟨simpleShuffle_length parts n, simpleShuffle_getElem? parts n p hp⟩

/-- **colocated** (simple): a row of the input lands in output `target % n` and nowhere else -/
theorem simple_shuffle_colocated (parts : List (List (Nat × α))) (n p : Nat) (hp : p < n) (r : Nat × α)
    (out : List (Nat × α)) (hout : (simpleShuffle parts n)[p]? = some out) :
    r ∈ out ↔ r ∈ parts.flatten ∧ r.1 % n = p := by
  rw [simpleShuffle_getElem? parts n p hp] at hout
  cases hout
  simp only [List.mem_filter, beq_iff_eq]

/-- `set_partitions_pre`, ascending, on a value (not NA): the statement of C40/C41.
    For sorted divisions with at least two entries the chosen partition `i` is a valid partition number;
    a value inside `[d₀, d_last)` lands in the partition whose half-open division interval contains it;
    a value at or above the last division lands in the last partition and a value below the first
    division in the first one. -/
theorem set_partitions_pre_spec (divs : List Nat) (v : Nat) (naLast : Bool) (d0 dl : Nat)
    (hs : divs.Pairwise (· ≤ ·)) (h2 : 2 ≤ divs.length) (h0 : divs.head? = some d0) (hl : divs.getLast? = some dl) :
    let i := setPartitionsPre divs (some v) true naLast
    i + 2 ≤ divs.length ∧
    (d0 ≤ v → v < dl → ∃ lo hi, divs[i]? = some lo ∧ divs[i + 1]? = some hi ∧ lo ≤ v ∧ v < hi) ∧
    (dl ≤ v → i = divs.length - 2) ∧
    (v < d0 → i = 0) := by
  intro i
  have hss := bisectRight_le_length divs v
  have hi : i = setPartitionsPre divs (some v) true naLast := rfl
  unfold setPartitionsPre at hi
  simp only [if_true] at hi
  refine ⟨?_, ?_, ?_, ?_⟩
  · rw [hi]; split
    · omega
    · split <;> omega
  · intro hd0 hdl
    -- 1 ≤ ss ≤ n - 1
    have h1 : 1 ≤ bisectRight divs v := by
      cases divs with
      | nil => simp at h2
      | cons a as =>
        simp only [List.head?_cons, Option.some.injEq] at h0
        subst h0
        unfold bisectRight
        simp [List.takeWhile_cons, hd0]
    have h3 : bisectRight divs v < divs.length := by
      apply Nat.lt_of_le_of_ne hss
      intro heq
      -- then the last element would be ≤ v
      have hlast : divs[divs.length - 1]? = some dl := by
        rw [← List.getLast?_eq_getElem?]; exact hl
      obtain ⟨w, hw, hwv⟩ := bisectRight_le divs v (divs.length - 1) (by omega)
      rw [hlast] at hw; cases hw; omega
    have hival : i = bisectRight divs v - 1 := by
      rw [hi]; split
      · omega
      · split <;> omega
    obtain ⟨lo, hlo, hlov⟩ := bisectRight_le divs v (bisectRight divs v - 1) (by omega)
    have hhi : divs[bisectRight divs v]? = some divs[bisectRight divs v] := List.getElem?_eq_getElem h3
    refine ⟨lo, _, by rw [hival]; exact hlo, ?_, hlov, bisectRight_gt divs v _ hhi⟩
    rw [hival]
    have : bisectRight divs v - 1 + 1 = bisectRight divs v := by omega
    rw [this]; exact hhi
  · intro hdl
    have : bisectRight divs v = divs.length := by
      apply bisectRight_eq_length
      intro a ha
      -- every element is ≤ the last one
      obtain ⟨j, hj, rfl⟩ := List.getElem_of_mem ha
      have hlast : divs[divs.length - 1]? = some dl := by
        rw [← List.getLast?_eq_getElem?]; exact hl
      have hlast' : divs[divs.length - 1] = dl := by
        have := List.getElem?_eq_getElem (l := divs) (i := divs.length - 1) (by omega)
        rw [this] at hlast; exact Option.some.inj hlast
      rcases Nat.lt_or_ge j (divs.length - 1) with hlt | hge
      · have := (List.pairwise_iff_getElem.mp hs) j (divs.length - 1) hj (by omega) hlt
        omega
      · have : j = divs.length - 1 := by omega
        subst this; omega
    rw [hi]; split
    · rfl
    · omega
  · intro hlt
    have : bisectRight divs v = 0 := by
      cases divs with
      | nil => simp at h2
      | cons a as =>
        simp only [List.head?_cons, Option.some.injEq] at h0
        subst h0
        unfold bisectRight
        have : ¬ a ≤ v := by omega
        simp [List.takeWhile_cons, this]
    rw [hi]; split
    · omega
    · split
      · rfl
      · omega


/-- **staged shuffle, frame level (soundness)**: every row found in output partition `p` of the staged task
    shuffle has target `p` — for every frame/partitioning, `k ≥ 1`, `stages` with `k^stages ≥ npartitions`,
    whether or not the number of partitions changes. -/
theorem task_shuffle_sound (parts : List (List (Nat × α))) (nOut k S : Nat) (hk : 0 < k) (hkS : parts.length ≤ k ^ S)
    (htarget : ∀ rows ∈ parts, ∀ r ∈ rows, r.1 < nOut)
    (p : Nat) (out : List (Nat × α)) (hout : (taskShuffle parts nOut k S)[p]? = some out) : ∀ r ∈ out, r.1 = p := by
  intro r hr
  unfold taskShuffle at hout
  simp only at hout
  split at hout
  · rename_i hn
    -- same number of partitions: the staged position is the target
    have hinv := staged_inv_all (fun r => r.1 < nOut) k S parts.length hk parts htarget S (Nat.le_refl _)
    rw [List.getElem?_take] at hout
    split at hout
    · rename_i hp
      obtain ⟨hrlt, hdig⟩ := hinv p out hout r hr
      have hde := digits_ext k S p (r.1 % parts.length) hdig
      have hplt : p < k ^ S := by omega
      -- the rows of the staged frame are rows of the input (targets unchanged): target < nOut = nIn
      have hrt : r.1 % parts.length < k ^ S := Nat.lt_of_lt_of_le (Nat.mod_lt _ (by omega)) hkS
      have h1 := fromDigits_digits k S p hplt
      have h2 := fromDigits_digits k S (r.1 % parts.length) hrt
      rw [hde, h2] at h1
      rw [Nat.mod_eq_of_lt (by omega)] at h1
      exact h1
    · cases hout
  · rw [List.getElem?_map] at hout
    cases hq : (List.range nOut)[p]? with
    | none => rw [hq] at hout; cases hout
    | some v =>
      have hp : p < nOut := by
        apply Nat.lt_of_not_le; intro hcon
        rw [List.getElem?_eq_none (by simpa using hcon)] at hq; cases hq
      rw [List.getElem?_range hp] at hq; cases hq
      rw [List.getElem?_range hp] at hout
      simp only [Option.map_some, Option.some.injEq] at hout
      subst hout
      simpa using (List.mem_filter.mp hr).2

/-- **staged shuffle, frame level (completeness)**: with an unchanged number of partitions every input row whose
    target is a valid partition number is found in the output partition with that number (no row is lost). -/
theorem task_shuffle_complete (parts : List (List (Nat × α))) (k S : Nat) (hk : 0 < k) (hkS : parts.length ≤ k ^ S)
    (htarget : ∀ rows ∈ parts, ∀ r ∈ rows, r.1 < parts.length)
    (rows : List (Nat × α)) (hrows : rows ∈ parts) (r : Nat × α) (hr : r ∈ rows) :
    ∃ out, (taskShuffle parts parts.length k S)[r.1]? = some out ∧ r ∈ out := by
  obtain ⟨q, hq⟩ := List.mem_iff_getElem?.mp hrows
  have hqlt : q < parts.length := (List.getElem?_eq_some_iff.mp hq).1
  obtain ⟨q', rows', hq', hrows', hr'⟩ := staged_complete k S parts.length hk parts r S (Nat.le_refl _)
    ⟨q, rows, by omega, hq, hr⟩
  have hinv := staged_inv_all (fun r => r.1 < parts.length) k S parts.length hk parts htarget S (Nat.le_refl _)
  obtain ⟨hrlt, hdig⟩ := hinv q' rows' hrows' r hr'
  have hde := digits_ext k S q' (r.1 % parts.length) hdig
  have hrt : r.1 % parts.length < k ^ S := Nat.lt_of_lt_of_le (Nat.mod_lt _ (by omega)) hkS
  have h1 := fromDigits_digits k S q' hq'
  rw [hde, fromDigits_digits k S _ hrt, Nat.mod_eq_of_lt hrlt] at h1
  subst h1
  refine ⟨rows', ?_, hr'⟩
  unfold taskShuffle
  simp only [if_true]
  rw [List.getElem?_take, if_pos hrlt]
  exact hrows'


/-- **colocated** (frame level): rows with the same key (hence the same target) end in the same output partition -/
theorem task_shuffle_colocated (parts : List (List (Nat × α))) (nOut k S : Nat) (hk : 0 < k) (hkS : parts.length ≤ k ^ S)
    (htarget : ∀ rows ∈ parts, ∀ r ∈ rows, r.1 < nOut) (p₁ p₂ : Nat) (o₁ o₂ : List (Nat × α))
    (h₁ : (taskShuffle parts nOut k S)[p₁]? = some o₁) (h₂ : (taskShuffle parts nOut k S)[p₂]? = some o₂)
    (r₁ r₂ : Nat × α) (hr₁ : r₁ ∈ o₁) (hr₂ : r₂ ∈ o₂) (hsame : r₁.1 = r₂.1) : p₁ = p₂ := by
  rw [← task_shuffle_sound parts nOut k S hk hkS htarget p₁ o₁ h₁ r₁ hr₁,
    ← task_shuffle_sound parts nOut k S hk hkS htarget p₂ o₂ h₂ r₂ hr₂, hsame]


/-! ### the staged shuffle, exactly (rows, multiplicity, order) -/

/-- **task_shuffle_exact** — the whole `TaskShuffle._layer` (all stages over `k^S` positions, empty padding, last
    stage, and the `shuffle_group_2` / `shuffle_group_get` resize when the partition count changes): there are
    exactly `nOut` outputs and output `p` is the sub-sequence of the concatenated input — same relative order
    (partition by partition, row by row), same multiplicity — of the rows with `target % n = p` (count unchanged)
    resp. `target = p` (count changed). For every frame, `k ≥ 1`, `S` with `k^S ≥ npartitions_input ≥ 1`. -/
theorem task_shuffle_exact (parts : List (List (Nat × α))) (nOut k S : Nat) (hk : 0 < k)
    (hkS : parts.length ≤ k ^ S) (hpos : 0 < parts.length) (p : Nat) (hp : p < nOut) :
    (taskShuffle parts nOut k S).length = nOut ∧
    (taskShuffle parts nOut k S)[p]? = some (parts.flatten.filter fun r =>
      if nOut = parts.length then r.1 % parts.length == p else r.1 == p) :=
  ⟨taskShuffle_length parts nOut k S hkS, taskShuffle_getElem? parts nOut k S hk hkS hpos p hp⟩

/-- with valid targets (`_partitions < npartitions_out`, what `AssignPartitioningIndex` and `set_partitions_pre`
    produce) output `p` is the ordered sub-sequence of the rows with target `p`, whether or not the count changes -/
theorem task_shuffle_exact_valid (parts : List (List (Nat × α))) (nOut k S : Nat) (hk : 0 < k)
    (hkS : parts.length ≤ k ^ S) (hpos : 0 < parts.length)
    (htarget : ∀ rows ∈ parts, ∀ r ∈ rows, r.1 < nOut) (p : Nat) (hp : p < nOut) :
    (taskShuffle parts nOut k S)[p]? = some (parts.flatten.filter fun r => r.1 == p) :=
  taskShuffle_getElem?_valid parts nOut k S hk hkS hpos htarget p hp

/-- the order of the rows inside an output partition is the order of the input: every output is a `Sublist`
    of the concatenated input -/
theorem task_shuffle_order (parts : List (List (Nat × α))) (nOut k S : Nat) (hk : 0 < k)
    (hkS : parts.length ≤ k ^ S) (hpos : 0 < parts.length) (p : Nat) (out : List (Nat × α))
    (hout : (taskShuffle parts nOut k S)[p]? = some out) : out.Sublist parts.flatten := by
  have hp : p < nOut := by
    have := (List.getElem?_eq_some_iff.mp hout).1
    rwa [taskShuffle_length parts nOut k S hkS] at this
  rw [taskShuffle_getElem? parts nOut k S hk hkS hpos p hp] at hout
  cases hout
  exact List.filter_sublist

/-- staging is invisible: with valid targets the staged shuffle returns precisely what `SimpleShuffle` returns -/
theorem task_shuffle_eq_simple (parts : List (List (Nat × α))) (nOut k S : Nat) (hk : 0 < k)
    (hkS : parts.length ≤ k ^ S) (hpos : 0 < parts.length)
    (htarget : ∀ rows ∈ parts, ∀ r ∈ rows, r.1 < nOut) :
    taskShuffle parts nOut k S = simpleShuffle parts nOut := by
  apply List.ext_getElem?
  intro p
  by_cases hp : p < nOut
  · rw [taskShuffle_getElem?_valid parts nOut k S hk hkS hpos htarget p hp, simpleShuffle_getElem? parts nOut p hp]
    congr 1
    apply List.filter_congr
    intro r hr
    obtain ⟨rows, hrows, hrr⟩ := List.mem_flatten.mp hr
    rw [Nat.mod_eq_of_lt (htarget rows hrows r hrr)]
  · rw [List.getElem?_eq_none (by rw [taskShuffle_length parts nOut k S hkS]; omega),
      List.getElem?_eq_none (by rw [simpleShuffle_length]; omega)]

/-- **multiset of rows, unchanged partition count**: the concatenated outputs are a permutation of the
    concatenated inputs — no hypothesis on the targets (a target `≥ n` is reduced modulo `n`, as the code does) -/
theorem task_shuffle_perm_same_count (parts : List (List (Nat × α))) (k S : Nat) (hk : 0 < k)
    (hkS : parts.length ≤ k ^ S) (hpos : 0 < parts.length) :
    (taskShuffle parts parts.length k S).flatten.Perm parts.flatten := by
  have h := eq_map_range_of_getElem? (taskShuffle parts parts.length k S) parts.length
    (fun p => parts.flatten.filter fun r => r.1 % parts.length == p)
    (taskShuffle_length parts _ k S hkS)
    (fun p hp => by
      rw [taskShuffle_getElem? parts _ k S hk hkS hpos p hp]
      simp)
  rw [h]
  exact classes_mod_flatten_perm (fun r => r.1) parts.flatten parts.length hpos

/-- **multiset of rows, changed partition count**: the concatenated outputs are a permutation of the input rows
    whose target names an output partition; rows with `target ≥ nOut` are dropped (never fetched by
    `shuffle_group_get`) -/
theorem task_shuffle_perm_resize (parts : List (List (Nat × α))) (nOut k S : Nat) (hk : 0 < k)
    (hkS : parts.length ≤ k ^ S) (hpos : 0 < parts.length) (hne : nOut ≠ parts.length) :
    (taskShuffle parts nOut k S).flatten.Perm (parts.flatten.filter fun r => decide (r.1 < nOut)) := by
  have h := eq_map_range_of_getElem? (taskShuffle parts nOut k S) nOut
    (fun p => parts.flatten.filter fun r => r.1 == p)
    (taskShuffle_length parts _ k S hkS)
    (fun p hp => by
      rw [taskShuffle_getElem? parts _ k S hk hkS hpos p hp]
      simp [hne])
  rw [h]
  exact classes_flatten_perm (fun r => r.1) parts.flatten nOut

/-- **shuffle preserves the multiset of rows** (the statement's clause, staged task shuffle): with valid targets
    the concatenated outputs are a permutation of the concatenated inputs, for every `nOut` -/
theorem task_shuffle_perm (parts : List (List (Nat × α))) (nOut k S : Nat) (hk : 0 < k)
    (hkS : parts.length ≤ k ^ S) (hpos : 0 < parts.length)
    (htarget : ∀ rows ∈ parts, ∀ r ∈ rows, r.1 < nOut) :
    (taskShuffle parts nOut k S).flatten.Perm parts.flatten := by
  have hall : (parts.flatten.filter fun r => decide (r.1 < nOut)) = parts.flatten := by
    apply List.filter_eq_self.mpr
    intro r hr
    obtain ⟨rows, hrows, hrr⟩ := List.mem_flatten.mp hr
    simpa using htarget rows hrows r hrr
  by_cases h : nOut = parts.length
  · subst h; exact task_shuffle_perm_same_count parts k S hk hkS hpos
  · have := task_shuffle_perm_resize parts nOut k S hk hkS hpos h
    rwa [hall] at this

/-- `SimpleShuffle` preserves the multiset of rows (targets are reduced modulo `n`) -/
theorem simple_shuffle_perm (parts : List (List (Nat × α))) (n : Nat) (hn : 0 < n) :
    (simpleShuffle parts n).flatten.Perm parts.flatten := by
  have h := eq_map_range_of_getElem? (simpleShuffle parts n) n
    (fun p => parts.flatten.filter fun r => r.1 % n == p) (simpleShuffle_length parts n)
    (fun p hp => simpleShuffle_getElem? parts n p hp)
  rw [h]
  exact classes_mod_flatten_perm (fun r => r.1) parts.flatten n hn

/-- **disk shuffle** (`DiskShuffle._layer`: per-partition `groupby(_partitions)` pieces appended to partd, `collect`
    per output): whatever order `arrival` the scheduler appends the input partitions in, there are `nOut` outputs,
    output `p` holds exactly the rows with target `p` (some order), rows with equal keys are together, and with
    valid targets the multiset of rows is preserved. The ORDER inside an output is the arrival order — not the
    input order (see `drop_duplicates_arrival_order_refuted`). -/
theorem disk_shuffle_spec (arrival : List Nat) (parts : List (List (Nat × α))) (nOut : Nat)
    (h : arrival.Perm (List.range parts.length)) :
    (diskShuffle arrival parts nOut).length = nOut ∧
    (∀ p, p < nOut → ((diskShuffle arrival parts nOut).getD p []).Perm (parts.flatten.filter fun r => r.1 == p)) ∧
    ((∀ rows ∈ parts, ∀ r ∈ rows, r.1 < nOut) → (diskShuffle arrival parts nOut).flatten.Perm parts.flatten) :=
  ⟨(diskShuffle_spec arrival parts nOut h).1, (diskShuffle_spec arrival parts nOut h).2,
    diskShuffle_flatten_perm arrival parts nOut h⟩

/-- membership form (soundness + completeness, also when the count changes): a row is in output `p` iff it is
    an input row with target `p` -/
theorem task_shuffle_mem_iff (parts : List (List (Nat × α))) (nOut k S : Nat) (hk : 0 < k)
    (hkS : parts.length ≤ k ^ S) (hpos : 0 < parts.length)
    (htarget : ∀ rows ∈ parts, ∀ r ∈ rows, r.1 < nOut) (p : Nat) (hp : p < nOut) (out : List (Nat × α))
    (hout : (taskShuffle parts nOut k S)[p]? = some out) (r : Nat × α) :
    r ∈ out ↔ r ∈ parts.flatten ∧ r.1 = p := by
  rw [taskShuffle_getElem?_valid parts nOut k S hk hkS hpos htarget p hp] at hout
  cases hout
  simp only [List.mem_filter, beq_iff_eq]


/-! ### sort_values / set_index -/
section SortSec
open Dask.SortValues
variable {β : Type}

/-- **set_partitions_pre, every mode** (ascending / descending, NaN first / last): the partition number is a valid
    one and it is MONOTONE in the sort order — a key that may stand before another one never gets a later partition.
    (This, not the exact interval, is what global order needs; `set_partitions_pre_spec` gives the interval.) -/
theorem set_partitions_pre_monotone (divs : List Nat) (asc naLast : Bool) (a b : Option Nat) (h2 : 2 ≤ divs.length) :
    setPartitionsPre divs a asc naLast < divs.length - 1 ∧
    (keyLe asc naLast a b = true → setPartitionsPre divs a asc naLast ≤ setPartitionsPre divs b asc naLast) :=
  ⟨spp_lt divs a asc naLast h2, spp_mono divs asc naLast a b h2⟩

/-- NaN keys go to the last partition with `na_position="last"` and to the first one with `"first"`, whatever the
    direction (6a34ec2 made `SortValues._lower` pass `na_position` on) -/
theorem set_partitions_pre_nan (divs : List Nat) (asc : Bool) :
    setPartitionsPre divs none asc true = divs.length - 2 ∧ setPartitionsPre divs none asc false = 0 := by
  simp [setPartitionsPre]

/-- **sort_values is globally ordered** — for every frame and partitioning, every division vector with at least two
    entries (sorted or not: the routing is monotone either way; the model's `bisectRight` is `searchsorted` on
    sorted divisions, which is what `SortValues._lower` passes), ascending or descending, `na_position` first or
    last, ANY shuffle that only delivers input rows to the partition named by their `_partitions` value (proved for
    the task shuffles: `sort_values_tasks`; validated for the disk shuffle) and ANY per-partition sort: the
    concatenation of the output partitions is sorted in the requested order, NaN placement included. -/
theorem sort_values_globally_ordered (sh : List (List (Nat × β)) → Nat → List (List (Nat × β)))
    (sortp : List β → List β) (key : β → Option Nat) (divs : List Nat) (asc naLast : Bool) (parts : List (List β))
    (h2 : 2 ≤ divs.length)
    (hsound : ∀ p out, (sh (parts.map (assignPartitions key divs asc naLast)) (divs.length - 1))[p]? = some out →
      ∀ r ∈ out, r ∈ (parts.map (assignPartitions key divs asc naLast)).flatten ∧ r.1 = p)
    (hsorted : ∀ l, (sortp l).Pairwise fun a b => keyLe asc naLast (key a) (key b) = true)
    (hmem : ∀ l r, r ∈ sortp l → r ∈ l) :
    (sortValuesWith sh sortp key divs asc naLast parts).flatten.Pairwise
      fun a b => keyLe asc naLast (key a) (key b) = true :=
  sortValuesWith_sorted sh sortp key divs asc naLast parts h2 hsound hsorted hmem

/-- **sort_values on several columns** (`by=[c1, c2, …]`, one direction per column allowed): dask routes by the
    FIRST column only and sorts every partition by all of them. For any total order `le` of the rows that refines
    the order of the first column (e.g. the lexicographic order `lexLe`: `lexLe_refines`, `lexLe_total`), any sound
    shuffle and any per-partition sort by `le`: the concatenation of the outputs is sorted by `le`. -/
theorem sort_values_multikey_globally_ordered (sh : List (List (Nat × β)) → Nat → List (List (Nat × β)))
    (sortp : List β → List β) (key : β → Option Nat) (le : β → β → Bool) (divs : List Nat) (asc naLast : Bool)
    (parts : List (List β)) (h2 : 2 ≤ divs.length)
    (hrefines : ∀ a b, le a b = true → keyLe asc naLast (key a) (key b) = true)
    (htotal : ∀ a b, (le a b || le b a) = true)
    (hsound : ∀ p out, (sh (parts.map (assignPartitions key divs asc naLast)) (divs.length - 1))[p]? = some out →
      ∀ r ∈ out, r ∈ (parts.map (assignPartitions key divs asc naLast)).flatten ∧ r.1 = p)
    (hsorted : ∀ l, (sortp l).Pairwise fun a b => le a b = true)
    (hmem : ∀ l r, r ∈ sortp l → r ∈ l) :
    (sortValuesWith sh sortp key divs asc naLast parts).flatten.Pairwise fun a b => le a b = true :=
  sortValuesWith_sorted_refined sh sortp key le divs asc naLast parts h2 hrefines htotal hsound hsorted hmem

/-- **sort_values keeps exactly the input rows** (multiset), given a multiset-preserving shuffle and sort -/
theorem sort_values_rows (sh : List (List (Nat × β)) → Nat → List (List (Nat × β))) (sortp : List β → List β)
    (key : β → Option Nat) (divs : List Nat) (asc naLast : Bool) (parts : List (List β))
    (hperm : (sh (parts.map (assignPartitions key divs asc naLast)) (divs.length - 1)).flatten.Perm
      (parts.map (assignPartitions key divs asc naLast)).flatten)
    (hsp : ∀ l, (sortp l).Perm l) :
    (sortValuesWith sh sortp key divs asc naLast parts).flatten.Perm parts.flatten :=
  sortValuesWith_perm sh sortp key divs asc naLast parts hperm hsp

/-- **equal to pandas (key column)**: any two sorted arrangements of the same rows — dask's result and pandas'
    `sort_values` of the whole frame — have the same sequence of keys; which of several rows with EQUAL keys comes
    first is not determined (pandas' default sort is not stable, neither is the disk shuffle) -/
theorem sort_values_keys_eq_reference (key : β → Option Nat) (asc naLast : Bool) (result reference : List β)
    (hp : result.Perm reference)
    (h₁ : result.Pairwise fun a b => keyLe asc naLast (key a) (key b) = true)
    (h₂ : reference.Pairwise fun a b => keyLe asc naLast (key a) (key b) = true) :
    result.map key = reference.map key :=
  sorted_perm_keys_unique key asc naLast result reference hp h₁ h₂

/-- **sort_values with the staged task shuffle and a stable per-partition sort, all hypotheses discharged**:
    globally ordered, a permutation of the input, and therefore the key column of ANY sorted reference -/
theorem sort_values_tasks (key : β → Option Nat) (divs : List Nat) (asc naLast : Bool) (k S : Nat)
    (parts : List (List β)) (h2 : 2 ≤ divs.length) (hk : 0 < k) (hkS : parts.length ≤ k ^ S) (hpos : 0 < parts.length) :
    ((sortValuesTasks key divs asc naLast k S parts).flatten.Pairwise
      fun a b => keyLe asc naLast (key a) (key b) = true) ∧
    (sortValuesTasks key divs asc naLast k S parts).flatten.Perm parts.flatten ∧
    ∀ reference : List β, reference.Perm parts.flatten →
      (reference.Pairwise fun a b => keyLe asc naLast (key a) (key b) = true) →
      (sortValuesTasks key divs asc naLast k S parts).flatten.map key = reference.map key := by
  have hlenA : (parts.map (assignPartitions key divs asc naLast)).length = parts.length := by simp
  have htarget := assigned_target_lt key divs asc naLast parts h2
  have hsorted : (sortValuesTasks key divs asc naLast k S parts).flatten.Pairwise
      fun a b => keyLe asc naLast (key a) (key b) = true := by
    apply sortValuesWith_sorted _ _ key divs asc naLast parts h2
    · intro p out hout r
      have hp : p < divs.length - 1 := by
        have := (List.getElem?_eq_some_iff.mp hout).1
        rwa [taskShuffle_length _ _ k S (by rw [hlenA]; exact hkS)] at this
      exact (task_shuffle_mem_iff _ _ k S hk (by rw [hlenA]; exact hkS) (by rw [hlenA]; exact hpos) htarget p hp out hout r).mp
    · exact sortPart_sorted key asc naLast
    · intro l r hr; exact (sortPart_perm key asc naLast l).mem_iff.mp hr
  have hperm : (sortValuesTasks key divs asc naLast k S parts).flatten.Perm parts.flatten := by
    apply sortValuesWith_perm _ _ key divs asc naLast parts
    · exact task_shuffle_perm _ _ k S hk (by rw [hlenA]; exact hkS) (by rw [hlenA]; exact hpos) htarget
    · exact sortPart_perm key asc naLast
  exact ⟨hsorted, hperm, fun ref hr hs => sorted_perm_keys_unique key asc naLast _ ref (hperm.trans hr.symm) hsorted hs⟩

/-- **set_index is truthful** (the C41 predicate `Truthful` of `Lemmas/Truthful.lean`): for non-decreasing
    divisions that span the data (`divs[0] ≤ key ≤ divs[-1]` for every row — what the quantile divisions and
    `mins + [maxes[-1]]` guarantee, and what a user must provide), `SetPartition._lower` — `set_partitions_pre`
    (ascending, NaN last), a shuffle to `len(divisions) - 1` partitions that only delivers input rows to the
    partition named by `_partitions`, per-partition `set_index` + `sort_index` — returns a frame whose partition `i`
    holds only keys in `[divs[i], divs[i+1])` (the last one closed), with `len(divs) - 1` partitions. -/
theorem set_index_truthful (sh : List (List (Nat × β)) → Nat → List (List (Nat × β))) (sortp : List β → List β)
    (key : β → Nat) (divs : List Nat) (parts : List (List β)) (d0 dl : Nat)
    (hs : divs.Pairwise (· ≤ ·)) (h2 : 2 ≤ divs.length) (h0 : divs.head? = some d0) (hl : divs.getLast? = some dl)
    (hspan : ∀ r ∈ parts.flatten, d0 ≤ key r ∧ key r ≤ dl)
    (hlen : (sh (parts.map (assignPartitions (fun r => some (key r)) divs true true)) (divs.length - 1)).length
      = divs.length - 1)
    (hsound : ∀ p out,
      (sh (parts.map (assignPartitions (fun r => some (key r)) divs true true)) (divs.length - 1))[p]? = some out →
      ∀ r ∈ out, r ∈ (parts.map (assignPartitions (fun r => some (key r)) divs true true)).flatten ∧ r.1 = p)
    (hmem : ∀ l r, r ∈ sortp l → r ∈ l) :
    Dask.Divs.Truthful key divs (sortValuesWith sh sortp (fun r => some (key r)) divs true true parts) := by
  refine ⟨?_, hs, ?_⟩
  · unfold sortValuesWith
    rw [List.length_map, hlen]; omega
  · intro i p lo hi hp hlo hhi r hr
    unfold sortValuesWith at hp
    rw [List.getElem?_map] at hp
    cases ho : (sh (parts.map (assignPartitions (fun r => some (key r)) divs true true)) (divs.length - 1))[i]? with
    | none => rw [ho] at hp; cases hp
    | some o =>
      rw [ho] at hp
      simp only [Option.map_some, Option.some.injEq] at hp
      subst hp
      obtain ⟨x, hx, rfl⟩ := List.mem_map.mp (hmem _ _ hr)
      obtain ⟨hin, hxi⟩ := hsound i o ho x hx
      obtain ⟨htgt, hxin⟩ := mem_assigned (fun r => some (key r)) divs true true parts x hin
      have hi' : i = setPartitionsPre divs (some (key x.2)) true true := by rw [← htgt, hxi]
      obtain ⟨_, hin', hge, _⟩ := set_partitions_pre_spec divs (key x.2) true d0 dl hs h2 h0 hl
      obtain ⟨hd0, hdl⟩ := hspan x.2 hxin
      have hlenR : (sortValuesWith sh sortp (fun r => some (key r)) divs true true parts).length = divs.length - 1 := by
        unfold sortValuesWith; rw [List.length_map, hlen]
      by_cases hlt : key x.2 < dl
      · obtain ⟨lo', hi'', e1, e2, b1, b2⟩ := hin' hd0 hlt
        rw [← hi'] at e1 e2
        rw [hlo] at e1; rw [hhi] at e2
        cases e1; cases e2
        exact ⟨b1, Or.inl b2⟩
      · have hge' : dl ≤ key x.2 := Nat.le_of_not_lt hlt
        have hi2 := hge hge'
        rw [← hi'] at hi2
        clear hin' hge
        have hlast : divs[divs.length - 1]? = some dl := by
          rw [← List.getLast?_eq_getElem?]; exact hl
        have e1 : divs.length - 2 + 1 = divs.length - 1 := by omega
        have hhi' : hi = dl := by
          rw [hi2, e1, hlast] at hhi
          exact (Option.some.inj hhi).symm
        have hlo' : lo ≤ dl := by
          rw [hi2] at hlo
          obtain ⟨h1, rfl⟩ := List.getElem?_eq_some_iff.mp hlo
          obtain ⟨h3, e3⟩ := List.getElem?_eq_some_iff.mp hlast
          rw [← e3]
          have hlt' : divs.length - 2 < divs.length - 1 := by omega
          exact (List.pairwise_iff_getElem.mp hs) _ _ h1 h3 hlt'
        have hkeq : key x.2 = dl := Nat.le_antisymm hdl hge'
        refine ⟨by rw [hkeq]; exact hlo', Or.inr ⟨?_, by rw [hkeq, hhi']; exact Nat.le_refl _⟩⟩
        rw [hlenR, hi2]; exact e1

/-- … with the staged task shuffle and the model's per-partition sort: every hypothesis about the shuffle discharged -/
theorem set_index_tasks_truthful (key : β → Nat) (divs : List Nat) (k S : Nat) (parts : List (List β)) (d0 dl : Nat)
    (hs : divs.Pairwise (· ≤ ·)) (h2 : 2 ≤ divs.length) (h0 : divs.head? = some d0) (hl : divs.getLast? = some dl)
    (hspan : ∀ r ∈ parts.flatten, d0 ≤ key r ∧ key r ≤ dl)
    (hk : 0 < k) (hkS : parts.length ≤ k ^ S) (hpos : 0 < parts.length) :
    Dask.Divs.Truthful key divs (sortValuesTasks (fun r => some (key r)) divs true true k S parts) := by
  have hlenA : (parts.map (assignPartitions (fun r => some (key r)) divs true true)).length = parts.length := by simp
  have htarget := assigned_target_lt (fun r => some (key r)) divs true true parts h2
  apply set_index_truthful _ _ key divs parts d0 dl hs h2 h0 hl hspan
  · exact taskShuffle_length _ _ k S (by rw [hlenA]; exact hkS)
  · intro p out hout r
    have hp : p < divs.length - 1 := by
      have := (List.getElem?_eq_some_iff.mp hout).1
      rwa [taskShuffle_length _ _ k S (by rw [hlenA]; exact hkS)] at this
    exact (task_shuffle_mem_iff _ _ k S hk (by rw [hlenA]; exact hkS) (by rw [hlenA]; exact hpos) htarget p hp out hout r).mp
  · intro l r hr; exact (sortPart_perm _ true true l).mem_iff.mp hr

/-- **the presorted shortcut is sound**: when `_calculate_divisions` reports `presorted` (after b29bf66: no missing
    key anywhere, `mins`/`maxes` valid after `bfill`, both sorted in the direction, every partition's max strictly
    before the next partition's min), sorting every partition where it is gives a globally sorted frame -/
theorem presorted_shortcut_sorted (key : β → Option Nat) (asc naLast : Bool) (sortp : List β → List β)
    (parts : List (List β)) (hpre : presortedB asc (parts.map fun p => p.map key) = true)
    (hsorted : ∀ l, (sortp l).Pairwise fun a b => keyLe asc naLast (key a) (key b) = true)
    (hmem : ∀ l r, r ∈ sortp l → r ∈ l) :
    (sortValuesPresorted sortp parts).flatten.Pairwise fun a b => keyLe asc naLast (key a) (key b) = true :=
  presorted_sorted key asc naLast sortp parts hpre hsorted hmem

/-- **the shortcut returns what the full path returns** (key column; rows as a multiset): for any divisions, any
    sound multiset-preserving shuffle and any sorted-permutation per-partition sort -/
theorem presorted_shortcut_eq_full_path (sh : List (List (Nat × β)) → Nat → List (List (Nat × β)))
    (sortp : List β → List β) (key : β → Option Nat) (divs : List Nat) (asc naLast : Bool) (parts : List (List β))
    (hpre : presortedB asc (parts.map fun p => p.map key) = true) (h2 : 2 ≤ divs.length)
    (hsound : ∀ p out, (sh (parts.map (assignPartitions key divs asc naLast)) (divs.length - 1))[p]? = some out →
      ∀ r ∈ out, r ∈ (parts.map (assignPartitions key divs asc naLast)).flatten ∧ r.1 = p)
    (hperm : (sh (parts.map (assignPartitions key divs asc naLast)) (divs.length - 1)).flatten.Perm
      (parts.map (assignPartitions key divs asc naLast)).flatten)
    (hsorted : ∀ l, (sortp l).Pairwise fun a b => keyLe asc naLast (key a) (key b) = true)
    (hsp : ∀ l, (sortp l).Perm l) :
    (sortValuesPresorted sortp parts).flatten.Perm (sortValuesWith sh sortp key divs asc naLast parts).flatten ∧
    (sortValuesPresorted sortp parts).flatten.map key =
      (sortValuesWith sh sortp key divs asc naLast parts).flatten.map key := by
  have hmem : ∀ l r, r ∈ sortp l → r ∈ l := fun l r hr => (hsp l).mem_iff.mp hr
  have p1 : (sortValuesPresorted sortp parts).flatten.Perm parts.flatten := by
    unfold sortValuesPresorted
    have := flatten_map_perm parts sortp id (fun a _ => hsp a)
    simpa using this
  have p2 := sortValuesWith_perm sh sortp key divs asc naLast parts hperm hsp
  have hp := p1.trans p2.symm
  exact ⟨hp, sorted_perm_keys_unique key asc naLast _ _ hp
    (presorted_sorted key asc naLast sortp parts hpre hsorted hmem)
    (sortValuesWith_sorted sh sortp key divs asc naLast parts h2 hsound hsorted hmem)⟩

/-- **sort_values / set_index with the disk shuffle**, any arrival order: globally ordered and a permutation of the
    input (tie order unspecified) -/
theorem sort_values_disk (arrival : List Nat) (key : β → Option Nat) (divs : List Nat) (asc naLast : Bool)
    (parts : List (List β)) (h2 : 2 ≤ divs.length) (harr : arrival.Perm (List.range parts.length)) :
    ((sortValuesWith (diskShuffle arrival) (sortPart key asc naLast) key divs asc naLast parts).flatten.Pairwise
      fun a b => keyLe asc naLast (key a) (key b) = true) ∧
    (sortValuesWith (diskShuffle arrival) (sortPart key asc naLast) key divs asc naLast parts).flatten.Perm parts.flatten := by
  have harr' : arrival.Perm (List.range (parts.map (assignPartitions key divs asc naLast)).length) := by
    simpa using harr
  constructor
  · apply sortValuesWith_sorted _ _ key divs asc naLast parts h2
    · intro p out hout r hr
      exact diskShuffle_mem arrival _ _ harr' p out hout r hr
    · exact sortPart_sorted key asc naLast
    · intro l r hr; exact (sortPart_perm key asc naLast l).mem_iff.mp hr
  · apply sortValuesWith_perm _ _ key divs asc naLast parts
    · exact diskShuffle_flatten_perm arrival _ _ harr' (assigned_target_lt key divs asc naLast parts h2)
    · exact sortPart_perm key asc naLast

/-- **set_index through the presorted shortcut is truthful**: when `_calculate_divisions` reports `presorted`,
    `SetIndex._lower` publishes `mins + [maxes[-1]]` and only sorts every partition where it is — partition `i` holds
    keys in `[mins[i], mins[i+1])`, the last one in `[mins[-1], maxes[-1]]` (C41's `Truthful`) -/
theorem set_index_presorted_truthful (key : β → Nat) (sortp : List β → List β) (parts : List (List β))
    (hpos : 0 < parts.length)
    (hpre : presortedB true (parts.map fun p => p.map fun r => some (key r)) = true)
    (hmem : ∀ l r, r ∈ sortp l → r ∈ l) :
    Dask.Divs.Truthful key
      (presortedDivisions ((calcPresorted true (parts.map fun p => p.map fun r => some (key r))).2.1.filterMap id)
        ((calcPresorted true (parts.map fun p => p.map fun r => some (key r))).2.2.filterMap id))
      (sortValuesPresorted sortp parts) :=
  presorted_truthful key sortp parts hpos hpre hmem

end SortSec

/-! ### drop_duplicates / unique / nunique -/
section DedupSec
open Dask.SortValues
variable {β : Type}

/-- **drop_duplicates, `split_out = 1` (TreeReduce)**: per-partition `drop_duplicates`, concatenation in partition
    order, `drop_duplicates` again = pandas on the whole frame — same rows, same order, `keep` first or last -/
theorem drop_duplicates_tree_eq (first : Bool) (key : β → Nat) (parts : List (List β)) :
    dedupTree first key parts = dedup first key parts.flatten := dedupTree_eq first key parts

/-- **drop_duplicates, `split_out > 1` with the staged task shuffle** (chunk, `_partitions = hash(key) % n`, staged
    shuffle incl. resize, per-output `drop_duplicates`): output `p` is exactly pandas' global result restricted to
    the keys hashing to `p` (rows and order), hence the whole result is pandas' as a multiset — for every frame,
    partitioning, `keep`, hash function, `n ≥ 1`, `k ≥ 1`, `k^S ≥ npartitions` -/
theorem drop_duplicates_tasks_perm (first : Bool) (key : β → Nat) (hash : Nat → Nat) (n k S : Nat)
    (parts : List (List β)) (hn : 0 < n) (hk : 0 < k) (hkS : parts.length ≤ k ^ S) (hpos : 0 < parts.length) :
    (∀ p, p < n → (dedupShuffleWith (fun ps m => taskShuffle ps m k S) first key hash n parts)[p]? =
      some ((dedup first key parts.flatten).filter fun r => hash (key r) % n == p)) ∧
    (dedupShuffleWith (fun ps m => taskShuffle ps m k S) first key hash n parts).flatten.Perm
      (dedup first key parts.flatten) := by
  have hlenT : (tagged first key hash n parts).length = parts.length := by simp [tagged]
  have hsh : ∀ p, p < n → (taskShuffle (tagged first key hash n parts) n k S)[p]? =
      some ((tagged first key hash n parts).flatten.filter fun r => r.1 == p) := fun p hp =>
    taskShuffle_getElem?_valid _ n k S hk (by rw [hlenT]; exact hkS) (by rw [hlenT]; exact hpos)
      (tagged_target_lt first key hash n hn parts) p hp
  exact ⟨fun p hp => dedupShuffleWith_getElem? _ first key hash n parts p (hsh p hp),
    dedupShuffleWith_perm _ first key hash n hn parts
      (taskShuffle_length _ n k S (by rw [hlenT]; exact hkS)) hsh⟩

/-- **unique / nunique / the distinct keys of drop_duplicates, ANY shuffle method**: if every output receives the
    right rows in whatever order (disk shuffle: arrival order), the key column of the result is pandas' -/
theorem drop_duplicates_keys_any_shuffle (sh : List (List (Nat × β)) → Nat → List (List (Nat × β))) (first : Bool)
    (key : β → Nat) (hash : Nat → Nat) (n : Nat) (hn : 0 < n) (parts : List (List β))
    (hlen : (sh (tagged first key hash n parts) n).length = n)
    (hsh : ∀ p, p < n → ((sh (tagged first key hash n parts) n).getD p []).Perm
      ((tagged first key hash n parts).flatten.filter fun r => r.1 == p)) :
    ((dedupShuffleWith sh first key hash n parts).flatten.map key).Perm ((dedup first key parts.flatten).map key) :=
  dedupShuffleWith_keys_any sh first key hash n hn parts hlen hsh

/-- the disk shuffle satisfies the hypotheses of `drop_duplicates_keys_any_shuffle` for every arrival order: `unique`,
    `nunique` and the distinct keys of `drop_duplicates(shuffle_method="disk")` equal pandas' -/
theorem drop_duplicates_disk_keys (arrival : List Nat) (first : Bool) (key : β → Nat) (hash : Nat → Nat) (n : Nat)
    (hn : 0 < n) (parts : List (List β)) (harr : arrival.Perm (List.range parts.length)) :
    ((dedupShuffleWith (diskShuffle arrival) first key hash n parts).flatten.map key).Perm
      ((dedup first key parts.flatten).map key) := by
  have harr' : arrival.Perm (List.range (tagged first key hash n parts).length) := by
    simpa [tagged] using harr
  exact dedupShuffleWith_keys_any _ first key hash n hn parts
    (diskShuffle_spec arrival _ n harr').1 (diskShuffle_spec arrival _ n harr').2

/-- **refuted as stated for arrival-order shuffles**: "drop_duplicates equals pandas for any shuffle method" is false
    for `keep="first"` when the shuffle hands over the pieces in another order (witness: two partitions with the
    same key, pieces collected in reverse) — the recorded finding for `shuffle_method="disk"` -/
theorem drop_duplicates_arrival_order_refuted :
    ¬ ∀ (sh : List (List (Nat × (Nat × Nat))) → Nat → List (List (Nat × (Nat × Nat)))),
        (∀ ps n, (sh ps n).length = n ∧
          ∀ p, p < n → ((sh ps n).getD p []).Perm (ps.flatten.filter fun r => r.1 == p)) →
        ∀ parts : List (List (Nat × Nat)),
          (dedupShuffleWith sh true (·.1) id 1 parts).flatten.Perm (dedup true (·.1) parts.flatten) :=
  dedup_arrival_order_refuted

end DedupSec

/-! ### non-vacuity / concrete behaviour -/
example : routeTuple 3 3 11 (digits 5 3 3) = digits 11 3 3 := by decide
example : fromDigits 3 (digits 11 3 3) = 11 := by decide
example : taskShuffle [[(3, 0), (1, 1)], [(0, 2)], [(3, 3), (2, 4)], [(1, 5)]] 4 2 2 =
    [[(0, 2)], [(1, 1), (1, 5)], [(2, 4)], [(3, 0), (3, 3)]] := by decide
example : simpleShuffle [[(3, 0), (1, 1)], [(0, 2)], [(3, 3), (2, 4)]] 2 = [[(0, 2), (2, 4)], [(3, 0), (1, 1), (3, 3)]] := by decide
example : setPartitionsPre [2, 3, 5] (some 0) true true = 0 := by decide
example : setPartitionsPre [2, 3, 5] (some 9) true true = 1 := by decide
example : setPartitionsPre [2, 3, 5] (some 3) true true = 1 := by decide
-- the hypotheses of `set_partitions_pre_spec` hold for a concrete division vector, and the conclusion is not void
example : setPartitionsPre [2, 3, 5] (some 4) true true + 2 ≤ [2, 3, 5].length :=
  (set_partitions_pre_spec [2, 3, 5] 4 true 2 5 (by decide) (by decide) rfl rfl).1
-- `task_shuffle_exact` and its corollaries on concrete frames: 5 partitions, k = 2, S = 3 (2^3 ≥ 5)
example : (5 : Nat) ≤ 2 ^ 3 := by decide
-- unchanged count (targets < 5): rows keep the input order inside every output
example : taskShuffle [[(4, 0), (1, 1)], [(0, 2), (4, 3)], [], [(3, 4), (1, 5), (4, 6)], [(2, 7)]] 5 2 3 =
    [[(0, 2)], [(1, 1), (1, 5)], [(2, 7)], [(3, 4)], [(4, 0), (4, 3), (4, 6)]] := by decide
-- changed count 5 → 3 (`shuffle_group_2` / `shuffle_group_get`)
example : taskShuffle [[(2, 0), (1, 1)], [(0, 2), (2, 3)], [], [(0, 4), (1, 5), (2, 6)], [(2, 7)]] 3 2 3 =
    [[(0, 2), (0, 4)], [(1, 1), (1, 5)], [(2, 0), (2, 3), (2, 6), (2, 7)]] := by decide
-- changed count 3 → 5 with 2 stages of 2 (one padded position)
example : taskShuffle [[(4, 0), (1, 1)], [(0, 2), (4, 3)], [(3, 4), (1, 5)]] 5 2 2 =
    [[(0, 2)], [(1, 1), (1, 5)], [], [(3, 4)], [(4, 0), (4, 3)]] := by decide
-- a target that names no output: reduced modulo n when the count is unchanged, dropped when it changes
example : taskShuffle [[(7, 0)], [(1, 1)], [(0, 2)]] 3 2 2 = [[(0, 2)], [(7, 0), (1, 1)], []] := by decide
example : taskShuffle [[(7, 0)], [(1, 1)], [(0, 2)]] 2 2 2 = [[(0, 2)], [(1, 1)]] := by decide

/-! #### sort_values / set_index / drop_duplicates on concrete frames (hypotheses satisfiable, conclusions not void) -/
section Examples
open Dask.SortValues
-- the general theorems `sort_values_globally_ordered` / `sort_values_rows` / `set_index_truthful` take the shuffle as a
-- parameter with hypotheses; `sort_values_tasks` / `set_index_tasks_truthful` discharge them for the staged task
-- shuffle (so they are satisfiable), and here is a concrete instance of those: 3 partitions, k = 2, S = 2
example : (2 ≤ [2, 5, 9].length) ∧ (0 < 2) ∧ ([[(some 7, 0), (none, 1)], [(some 1, 2)], [(some 5, 3), (some 7, 4)]] :
    List (List (Option Nat × Nat))).length ≤ 2 ^ 2 := by decide
-- ascending, NaN last: NaN goes to the last partition and to its end; 1 is below the first division
example : sortValuesTasks (fun r : Option Nat × Nat => r.1) [2, 5, 9] true true 2 2
    [[(some 7, 0), (none, 1)], [(some 1, 2)], [(some 5, 3), (some 7, 4)]] =
    [[(some 1, 2)], [(some 5, 3), (some 7, 0), (some 7, 4), (none, 1)]] := by decide
-- descending, NaN first
example : sortValuesTasks (fun r : Option Nat × Nat => r.1) [2, 5, 9] false false 2 2
    [[(some 7, 0), (none, 1)], [(some 1, 2)], [(some 5, 3), (some 7, 4)]] =
    [[(none, 1), (some 7, 0), (some 7, 4), (some 5, 3)], [(some 1, 2)]] := by decide
-- two sort columns, first ascending, second descending, routed by the first one only (rows: (k1, k2, id)); the
-- hypotheses of `sort_values_multikey_globally_ordered` hold for `le := lexLe …` and `sortp := isort le`
-- (`lexLe_refines`, `lexLe_total`, `isort_lexLe_sorted`)
example : sortValuesWith (fun ps n => taskShuffle ps n 2 2)
    (isort (lexLe (fun r : Nat × Nat × Nat => some r.1) (fun r => some r.2.1) true false true))
    (fun r : Nat × Nat × Nat => some r.1) [2, 5, 9] true true
    [[(7, 1, 0), (3, 2, 1)], [(7, 4, 2), (1, 1, 3)], [(3, 5, 4), (7, 2, 5)]] =
    [[(1, 1, 3), (3, 5, 4), (3, 2, 1)], [(7, 4, 2), (7, 2, 5), (7, 1, 0)]] := by decide
-- set_index: divisions [1, 5, 9] span the keys 1 … 9 (hypotheses of `set_index_tasks_truthful`)
example : Dask.Divs.Truthful (fun r : Nat × Nat => r.1) [1, 5, 9]
    (sortValuesTasks (fun r : Nat × Nat => some r.1) [1, 5, 9] true true 2 2 [[(7, 0), (9, 1)], [(1, 2)], [(5, 3), (4, 4)]]) :=
  set_index_tasks_truthful (fun r : Nat × Nat => r.1) [1, 5, 9] 2 2 [[(7, 0), (9, 1)], [(1, 2)], [(5, 3), (4, 4)]] 1 9
    (by decide) (by decide) rfl rfl (by decide) (by decide) (by decide) (by decide)
example : sortValuesTasks (fun r : Nat × Nat => some r.1) [1, 5, 9] true true 2 2 [[(7, 0), (9, 1)], [(1, 2)], [(5, 3), (4, 4)]] =
    [[(1, 2), (4, 4)], [(5, 3), (7, 0), (9, 1)]] := by decide
-- `_calculate_divisions`: presorted / equal keys across a boundary / NaN inside a partition (b29bf66) / empty partition
example : presortedB true [[some 1, some 2], [some 3, some 3], [some 4]] = true := by decide
example : presortedB true [[some 1, some 3], [some 3, some 3], [some 4]] = false := by decide
example : presortedB true [[some 1, none], [some 3, some 3], [some 4]] = false := by decide
example : presortedB true [[some 1, some 2], [], [some 4]] = false := by decide
example : presortedB false [[some 9, some 7], [], [some 4]] = false := by decide
example : presortedB false [[some 9, some 7], [some 6], [some 4]] = true := by decide
example : presortedB false [[some 9, some 7], [some 7], [some 4]] = false := by decide
-- drop_duplicates: tree path and shuffle path on two partitions sharing keys
example : dedupTree true (fun r : Nat × Nat => r.1) [[(1, 0), (2, 1), (1, 2)], [(2, 3), (3, 4)]] = [(1, 0), (2, 1), (3, 4)] := by decide
example : dedupTree false (fun r : Nat × Nat => r.1) [[(1, 0), (2, 1), (1, 2)], [(2, 3), (3, 4)]] = [(1, 2), (2, 3), (3, 4)] := by decide
example : dedupShuffleWith (fun ps m => taskShuffle ps m 2 1) true (fun r : Nat × Nat => r.1) id 2
    [[(1, 0), (2, 1), (1, 2)], [(2, 3), (3, 4)]] = [[(2, 1)], [(1, 0), (3, 4)]] := by decide
-- the disk shuffle with the partitions appended in the order 1, 0: right rows, arrival order; keep="first" then picks row 1
example : [1, 0].Perm (List.range 2) := by decide
example : diskShuffle [1, 0] [[(0, 10), (0, 11)], [(0, 12)]] 1 = [[(0, 12), (0, 10), (0, 11)]] := by decide
example : dedupShuffleWith (diskShuffle [1, 0]) true (fun r : Nat × Nat => r.1) id 1 [[(7, 0)], [(7, 1)]] = [[(7, 1)]] := by decide
-- presorted set_index: divisions mins + [maxes[-1]]
example : presortedDivisions ((calcPresorted true [[some 1, some 2], [some 3, some 3], [some 4, some 6]]).2.1.filterMap id)
    ((calcPresorted true [[some 1, some 2], [some 3, some 3], [some 4, some 6]]).2.2.filterMap id) = [1, 3, 4, 6] := by decide
example : Dask.Divs.Truthful (fun r : Nat × Nat => r.1) [1, 3, 4, 6]
    (sortValuesPresorted (sortPart (fun r : Nat × Nat => some r.1) true true) [[(2, 0), (1, 1)], [(3, 2), (3, 3)], [(6, 4), (4, 5)]]) :=
  set_index_presorted_truthful (fun r : Nat × Nat => r.1) _ [[(2, 0), (1, 1)], [(3, 2), (3, 3)], [(6, 4), (4, 5)]]
    (by decide) (by decide) (fun l r hr => (sortPart_perm _ true true l).mem_iff.mp hr)
-- the refutation witness of `drop_duplicates_arrival_order_refuted`, evaluated: pieces collected in reverse order
example : dedupShuffleWith (fun ps n => orderedShuffle ps.reverse n) true (fun r : Nat × Nat => r.1) id 1 [[(7, 0)], [(7, 1)]] =
    [[(7, 1)]] ∧ dedup true (fun r : Nat × Nat => r.1) [(7, 0), (7, 1)] = [(7, 0)] := by decide
end Examples

end Dask.C40
