import DaskModel.Lemmas.Shuffle
/-! # C40 — sorting, shuffling and de-duplication keep exactly the right rows (theorems)

Model: `Model/Shuffle.lean`. `h` (pandas' `hash_object`) is abstract: a row carries its `_partitions`
value `target = h(key) % npartitions_out`, so "equal keys ⇒ equal target" is the only fact used. -/
namespace Dask.C40
open Dask.Shuffle

/-- **staged_route** (tuple form): for every starting position, after stages `0 … S-1` of the task shuffle a
    row with reduced target `t` sits at the position whose digit tuple is the base-`k` expansion of `t`. -/
theorem staged_route (k S t : Nat) (src : List Nat) (hsrc : src.length = S) :
    routeTuple k S t src = digits t S k := staged_route_tuple k S t src hsrc

/-- **staged_route** (position form): with `k^S ≥ npartitions_input` (the hypothesis the float glue is checked
    against) the row ends in staged partition number `target % npartitions_input`, from any source partition. -/
theorem staged_position (k S nIn target src : Nat) (hn : 0 < nIn) (hk : nIn ≤ k ^ S) :
    fromDigits k (routeTuple k S (target % nIn) (digits src S k)) = target % nIn := by
  rw [staged_route_tuple k S _ _ (digits_length src S k)]
  exact fromDigits_digits k S _ (Nat.lt_of_lt_of_le (Nat.mod_lt _ hn) hk)

/-- **colocated** (staged): two rows with the same target end at the same position, wherever they start -/
theorem staged_colocated (k S nIn target src₁ src₂ : Nat) :
    routeTuple k S (target % nIn) (digits src₁ S k) = routeTuple k S (target % nIn) (digits src₂ S k) := by
  rw [staged_route_tuple k S _ _ (digits_length src₁ S k), staged_route_tuple k S _ _ (digits_length src₂ S k)]

/-- the index `shuffle_group` uses at a stage is the stage's digit of the reduced target (`_partitions` branch) -/
theorem stageIndex_is_digit (ind stage k n nfinal : Nat) :
    stageIndex ind stage k n nfinal false = digit (ind % n) stage k := by
  simp [stageIndex]

/-- in the hashing branch the raw hash is first reduced modulo the final partition count -/
theorem stageIndex_hashing (h stage k n nfinal : Nat) (h0 : nfinal ≠ 0) (hne : nfinal ≠ n) :
    stageIndex h stage k n nfinal true = digit (h % nfinal % n) stage k := by
  simp [stageIndex, h0, hne]

/-- **SimpleShuffle**: exactly `n` outputs; output `p` is the subsequence, in input order, of all rows
    whose target is `p` modulo `n` (rows, multiplicity and relative order) -/
theorem simple_shuffle_exact (parts : List (List Row)) (n p : Nat) (hp : p < n) :
    (simpleShuffle parts n).length = n ∧
    (simpleShuffle parts n)[p]? = some (parts.flatten.filter fun r => r.1 % n == p) :=
  ⟨simpleShuffle_length parts n, simpleShuffle_getElem? parts n p hp⟩

/-- **colocated** (simple): a row of the input lands in output `target % n` and nowhere else -/
theorem simple_shuffle_colocated (parts : List (List Row)) (n p : Nat) (hp : p < n) (r : Row)
    (out : List Row) (hout : (simpleShuffle parts n)[p]? = some out) :
    r ∈ out ↔ r ∈ parts.flatten ∧ r.1 % n = p := by
  rw [simpleShuffle_getElem? parts n p hp] at hout
  cases hout
  simp only [List.mem_filter, beq_iff_eq]

/-- `set_partitions_pre`, ascending, on a value (not NA): the statement of C40/C41.
    For sorted divisions with at least two entries the chosen partition `i` is a valid partition number;
    a value inside `[d₀, d_last)` lands in the partition whose half-open division interval contains it;
    a value at or above the last division lands in the last partition and a value below the first
    division in the first one. -/
theorem set_partitions_pre_spec (divs : List Nat) (v : Nat) (naLast : Bool) (d0 dl : Nat)
    (hs : divs.Pairwise (· ≤ ·)) (h2 : 2 ≤ divs.length) (h0 : divs.head? = some d0) (hl : divs.getLast? = some dl) :
    let i := setPartitionsPre divs (some v) true naLast
    i + 2 ≤ divs.length ∧
    (d0 ≤ v → v < dl → ∃ lo hi, divs[i]? = some lo ∧ divs[i + 1]? = some hi ∧ lo ≤ v ∧ v < hi) ∧
    (dl ≤ v → i = divs.length - 2) ∧
    (v < d0 → i = 0) := by
  intro i
  have hss := bisectRight_le_length divs v
  have hi : i = setPartitionsPre divs (some v) true naLast := rfl
  unfold setPartitionsPre at hi
  simp only [if_true] at hi
  refine ⟨?_, ?_, ?_, ?_⟩
  · rw [hi]; split
    · omega
    · split <;> omega
  · intro hd0 hdl
    -- 1 ≤ ss ≤ n - 1
    have h1 : 1 ≤ bisectRight divs v := by
      cases divs with
      | nil => simp at h2
      | cons a as =>
        simp only [List.head?_cons, Option.some.injEq] at h0
        subst h0
        unfold bisectRight
        simp [List.takeWhile_cons, hd0]
    have h3 : bisectRight divs v < divs.length := by
      apply Nat.lt_of_le_of_ne hss
      intro heq
      -- then the last element would be ≤ v
      have hlast : divs[divs.length - 1]? = some dl := by
        rw [← List.getLast?_eq_getElem?]; exact hl
      obtain ⟨w, hw, hwv⟩ := bisectRight_le divs v (divs.length - 1) (by omega)
      rw [hlast] at hw; cases hw; omega
    have hival : i = bisectRight divs v - 1 := by
      rw [hi]; split
      · omega
      · split <;> omega
    obtain ⟨lo, hlo, hlov⟩ := bisectRight_le divs v (bisectRight divs v - 1) (by omega)
    have hhi : divs[bisectRight divs v]? = some divs[bisectRight divs v] := List.getElem?_eq_getElem h3
    refine ⟨lo, _, by rw [hival]; exact hlo, ?_, hlov, bisectRight_gt divs v _ hhi⟩
    rw [hival]
    have : bisectRight divs v - 1 + 1 = bisectRight divs v := by omega
    rw [this]; exact hhi
  · intro hdl
    have : bisectRight divs v = divs.length := by
      apply bisectRight_eq_length
      intro a ha
      -- every element is ≤ the last one
      obtain ⟨j, hj, rfl⟩ := List.getElem_of_mem ha
      have hlast : divs[divs.length - 1]? = some dl := by
        rw [← List.getLast?_eq_getElem?]; exact hl
      have hlast' : divs[divs.length - 1] = dl := by
        have := List.getElem?_eq_getElem (l := divs) (i := divs.length - 1) (by omega)
        rw [this] at hlast; exact Option.some.inj hlast
      rcases Nat.lt_or_ge j (divs.length - 1) with hlt | hge
      · have := (List.pairwise_iff_getElem.mp hs) j (divs.length - 1) hj (by omega) hlt
        omega
      · have : j = divs.length - 1 := by omega
        subst this; omega
    rw [hi]; split
    · rfl
    · omega
  · intro hlt
    have : bisectRight divs v = 0 := by
      cases divs with
      | nil => simp at h2
      | cons a as =>
        simp only [List.head?_cons, Option.some.injEq] at h0
        subst h0
        unfold bisectRight
        have : ¬ a ≤ v := by omega
        simp [List.takeWhile_cons, this]
    rw [hi]; split
    · omega
    · split
      · rfl
      · omega


/-- **staged shuffle, frame level (soundness)**: every row found in output partition `p` of the staged task
    shuffle has target `p` — for every frame/partitioning, `k ≥ 1`, `stages` with `k^stages ≥ npartitions`,
    whether or not the number of partitions changes. -/
theorem task_shuffle_sound (parts : List (List Row)) (nOut k S : Nat) (hk : 0 < k) (hkS : parts.length ≤ k ^ S)
    (htarget : ∀ rows ∈ parts, ∀ r ∈ rows, r.1 < nOut)
    (p : Nat) (out : List Row) (hout : (taskShuffle parts nOut k S)[p]? = some out) : ∀ r ∈ out, r.1 = p := by
  intro r hr
  unfold taskShuffle at hout
  simp only at hout
  split at hout
  · rename_i hn
    -- same number of partitions: the staged position is the target
    have hinv := staged_inv_all (fun r => r.1 < nOut) k S parts.length hk parts htarget S (Nat.le_refl _)
    rw [List.getElem?_take] at hout
    split at hout
    · rename_i hp
      obtain ⟨hrlt, hdig⟩ := hinv p out hout r hr
      have hde := digits_ext k S p (r.1 % parts.length) hdig
      have hplt : p < k ^ S := by omega
      -- the rows of the staged frame are rows of the input (targets unchanged): target < nOut = nIn
      have hrt : r.1 % parts.length < k ^ S := Nat.lt_of_lt_of_le (Nat.mod_lt _ (by omega)) hkS
      have h1 := fromDigits_digits k S p hplt
      have h2 := fromDigits_digits k S (r.1 % parts.length) hrt
      rw [hde, h2] at h1
      rw [Nat.mod_eq_of_lt (by omega)] at h1
      exact h1
    · cases hout
  · rw [List.getElem?_map] at hout
    cases hq : (List.range nOut)[p]? with
    | none => rw [hq] at hout; cases hout
    | some v =>
      have hp : p < nOut := by
        apply Nat.lt_of_not_le; intro hcon
        rw [List.getElem?_eq_none (by simpa using hcon)] at hq; cases hq
      rw [List.getElem?_range hp] at hq; cases hq
      rw [List.getElem?_range hp] at hout
      simp only [Option.map_some, Option.some.injEq] at hout
      subst hout
      simpa using (List.mem_filter.mp hr).2

/-- **staged shuffle, frame level (completeness)**: with an unchanged number of partitions every input row whose
    target is a valid partition number is found in the output partition with that number (no row is lost). -/
theorem task_shuffle_complete (parts : List (List Row)) (k S : Nat) (hk : 0 < k) (hkS : parts.length ≤ k ^ S)
    (htarget : ∀ rows ∈ parts, ∀ r ∈ rows, r.1 < parts.length)
    (rows : List Row) (hrows : rows ∈ parts) (r : Row) (hr : r ∈ rows) :
    ∃ out, (taskShuffle parts parts.length k S)[r.1]? = some out ∧ r ∈ out := by
  obtain ⟨q, hq⟩ := List.mem_iff_getElem?.mp hrows
  have hqlt : q < parts.length := (List.getElem?_eq_some_iff.mp hq).1
  obtain ⟨q', rows', hq', hrows', hr'⟩ := staged_complete k S parts.length hk parts r S (Nat.le_refl _)
    ⟨q, rows, by omega, hq, hr⟩
  have hinv := staged_inv_all (fun r => r.1 < parts.length) k S parts.length hk parts htarget S (Nat.le_refl _)
  obtain ⟨hrlt, hdig⟩ := hinv q' rows' hrows' r hr'
  have hde := digits_ext k S q' (r.1 % parts.length) hdig
  have hrt : r.1 % parts.length < k ^ S := Nat.lt_of_lt_of_le (Nat.mod_lt _ (by omega)) hkS
  have h1 := fromDigits_digits k S q' hq'
  rw [hde, fromDigits_digits k S _ hrt, Nat.mod_eq_of_lt hrlt] at h1
  subst h1
  refine ⟨rows', ?_, hr'⟩
  unfold taskShuffle
  simp only [if_true]
  rw [List.getElem?_take, if_pos hrlt]
  exact hrows'


/-- **colocated** (frame level): rows with the same key (hence the same target) end in the same output partition -/
theorem task_shuffle_colocated (parts : List (List Row)) (nOut k S : Nat) (hk : 0 < k) (hkS : parts.length ≤ k ^ S)
    (htarget : ∀ rows ∈ parts, ∀ r ∈ rows, r.1 < nOut) (p₁ p₂ : Nat) (o₁ o₂ : List Row)
    (h₁ : (taskShuffle parts nOut k S)[p₁]? = some o₁) (h₂ : (taskShuffle parts nOut k S)[p₂]? = some o₂)
    (r₁ r₂ : Row) (hr₁ : r₁ ∈ o₁) (hr₂ : r₂ ∈ o₂) (hsame : r₁.1 = r₂.1) : p₁ = p₂ := by
  rw [← task_shuffle_sound parts nOut k S hk hkS htarget p₁ o₁ h₁ r₁ hr₁,
    ← task_shuffle_sound parts nOut k S hk hkS htarget p₂ o₂ h₂ r₂ hr₂, hsame]

/-! ### non-vacuity / concrete behaviour -/
example : routeTuple 3 3 11 (digits 5 3 3) = digits 11 3 3 := by decide
example : fromDigits 3 (digits 11 3 3) = 11 := by decide
example : taskShuffle [[(3, 0), (1, 1)], [(0, 2)], [(3, 3), (2, 4)], [(1, 5)]] 4 2 2 =
    [[(0, 2)], [(1, 1), (1, 5)], [(2, 4)], [(3, 0), (3, 3)]] := by decide
example : simpleShuffle [[(3, 0), (1, 1)], [(0, 2)], [(3, 3), (2, 4)]] 2 = [[(0, 2), (2, 4)], [(3, 0), (1, 1), (3, 3)]] := by decide
example : setPartitionsPre [2, 3, 5] (some 0) true true = 0 := by decide
example : setPartitionsPre [2, 3, 5] (some 9) true true = 1 := by decide
example : setPartitionsPre [2, 3, 5] (some 3) true true = 1 := by decide

end Dask.C40
