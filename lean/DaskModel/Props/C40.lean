import DaskModel.Lemmas.ShufflePerm
/-! # C40 — sorting, shuffling and de-duplication keep exactly the right rows (theorems)

Model: `Model/Shuffle.lean`. `h` (pandas' `hash_object`) is abstract: a row carries its `_partitions`
value `target = h(key) % npartitions_out`, so "equal keys ⇒ equal target" is the only fact used. -/
namespace Dask.C40
open Dask.Shuffle
variable {α : Type}

/-- **staged_route** (tuple form): for every starting position, after stages `0 … S-1` of the task shuffle a
    row with reduced target `t` sits at the position whose digit tuple is the base-`k` expansion of `t`. -/
theorem staged_route (k S t : Nat) (src : List Nat) (hsrc : src.length = S) :
    routeTuple k S t src = digits t S k := staged_route_tuple k S t src hsrc

/-- **staged_route** (position form): with `k^S ≥ npartitions_input` (the hypothesis the float glue is checked
    against) the row ends in staged partition number `target % npartitions_input`, from any source partition. -/
theorem staged_position (k S nIn target src : Nat) (hn : 0 < nIn) (hk : nIn ≤ k ^ S) :
    fromDigits k (routeTuple k S (target % nIn) (digits src S k)) = target % nIn := by
  rw [staged_route_tuple k S _ _ (digits_length src S k)]
  exact fromDigits_digits k S _ (Nat.lt_of_lt_of_le (Nat.mod_lt _ hn) hk)

/-- **colocated** (staged): two rows with the same target end at the same position, wherever they start -/
theorem staged_colocated (k S nIn target src₁ src₂ : Nat) :
    routeTuple k S (target % nIn) (digits src₁ S k) = routeTuple k S (target % nIn) (digits src₂ S k) := by
  rw [staged_route_tuple k S _ _ (digits_length src₁ S k), staged_route_tuple k S _ _ (digits_length src₂ S k)]

/-- the index `shuffle_group` uses at a stage is the stage's digit of the reduced target (`_partitions` branch) -/
theorem stageIndex_is_digit (ind stage k n nfinal : Nat) :
    stageIndex ind stage k n nfinal false = digit (ind % n) stage k := by
  simp [stageIndex]

/-- in the hashing branch the raw hash is first reduced modulo the final partition count -/
theorem stageIndex_hashing (h stage k n nfinal : Nat) (h0 : nfinal ≠ 0) (hne : nfinal ≠ n) :
    stageIndex h stage k n nfinal true = digit (h % nfinal % n) stage k := by
  simp [stageIndex, h0, hne]

/-- **SimpleShuffle**: exactly `n` outputs; output `p` is the subsequence, in input order, of all rows
    whose target is `p` modulo `n` (rows, multiplicity and relative order) -/
theorem simple_shuffle_exact (parts : List (List (Nat × α))) (n p : Nat) (hp : p < n) :
    (simpleShuffle parts n).length = n ∧
    (simpleShuffle parts n)[p]? = some (parts.flatten.filter fun r => r.1 % n == p) :=
  ⟨simpleShuffle_length parts n, simpleShuffle_getElem? parts n p hp⟩

/-- **colocated** (simple): a row of the input lands in output `target % n` and nowhere else -/
theorem simple_shuffle_colocated (parts : List (List (Nat × α))) (n p : Nat) (hp : p < n) (r : Nat × α)
    (out : List (Nat × α)) (hout : (simpleShuffle parts n)[p]? = some out) :
    r ∈ out ↔ r ∈ parts.flatten ∧ r.1 % n = p := by
  rw [simpleShuffle_getElem? parts n p hp] at hout
  cases hout
  simp only [List.mem_filter, beq_iff_eq]

/-- `set_partitions_pre`, ascending, on a value (not NA): the statement of C40/C41.
    For sorted divisions with at least two entries the chosen partition `i` is a valid partition number;
    a value inside `[d₀, d_last)` lands in the partition whose half-open division interval contains it;
    a value at or above the last division lands in the last partition and a value below the first
    division in the first one. -/
theorem set_partitions_pre_spec (divs : List Nat) (v : Nat) (naLast : Bool) (d0 dl : Nat)
    (hs : divs.Pairwise (· ≤ ·)) (h2 : 2 ≤ divs.length) (h0 : divs.head? = some d0) (hl : divs.getLast? = some dl) :
    let i := setPartitionsPre divs (some v) true naLast
    i + 2 ≤ divs.length ∧
    (d0 ≤ v → v < dl → ∃ lo hi, divs[i]? = some lo ∧ divs[i + 1]? = some hi ∧ lo ≤ v ∧ v < hi) ∧
    (dl ≤ v → i = divs.length - 2) ∧
    (v < d0 → i = 0) := by
  intro i
  have hss := bisectRight_le_length divs v
  have hi : i = setPartitionsPre divs (some v) true naLast := rfl
  unfold setPartitionsPre at hi
  simp only [if_true] at hi
  refine ⟨?_, ?_, ?_, ?_⟩
  · rw [hi]; split
    · omega
    · split <;> omega
  · intro hd0 hdl
    -- 1 ≤ ss ≤ n - 1
    have h1 : 1 ≤ bisectRight divs v := by
      cases divs with
      | nil => simp at h2
      | cons a as =>
        simp only [List.head?_cons, Option.some.injEq] at h0
        subst h0
        unfold bisectRight
        simp [List.takeWhile_cons, hd0]
    have h3 : bisectRight divs v < divs.length := by
      apply Nat.lt_of_le_of_ne hss
      intro heq
      -- then the last element would be ≤ v
      have hlast : divs[divs.length - 1]? = some dl := by
        rw [← List.getLast?_eq_getElem?]; exact hl
      obtain ⟨w, hw, hwv⟩ := bisectRight_le divs v (divs.length - 1) (by omega)
      rw [hlast] at hw; cases hw; omega
    have hival : i = bisectRight divs v - 1 := by
      rw [hi]; split
      · omega
      · split <;> omega
    obtain ⟨lo, hlo, hlov⟩ := bisectRight_le divs v (bisectRight divs v - 1) (by omega)
    have hhi : divs[bisectRight divs v]? = some divs[bisectRight divs v] := List.getElem?_eq_getElem h3
    refine ⟨lo, _, by rw [hival]; exact hlo, ?_, hlov, bisectRight_gt divs v _ hhi⟩
    rw [hival]
    have : bisectRight divs v - 1 + 1 = bisectRight divs v := by omega
    rw [this]; exact hhi
  · intro hdl
    have : bisectRight divs v = divs.length := by
      apply bisectRight_eq_length
      intro a ha
      -- every element is ≤ the last one
      obtain ⟨j, hj, rfl⟩ := List.getElem_of_mem ha
      have hlast : divs[divs.length - 1]? = some dl := by
        rw [← List.getLast?_eq_getElem?]; exact hl
      have hlast' : divs[divs.length - 1] = dl := by
        have := List.getElem?_eq_getElem (l := divs) (i := divs.length - 1) (by omega)
        rw [this] at hlast; exact Option.some.inj hlast
      rcases Nat.lt_or_ge j (divs.length - 1) with hlt | hge
      · have := (List.pairwise_iff_getElem.mp hs) j (divs.length - 1) hj (by omega) hlt
        omega
      · have : j = divs.length - 1 := by omega
        subst this; omega
    rw [hi]; split
    · rfl
    · omega
  · intro hlt
    have : bisectRight divs v = 0 := by
      cases divs with
      | nil => simp at h2
      | cons a as =>
        simp only [List.head?_cons, Option.some.injEq] at h0
        subst h0
        unfold bisectRight
        have : ¬ a ≤ v := by omega
        simp [List.takeWhile_cons, this]
    rw [hi]; split
    · omega
    · split
      · rfl
      · omega


/-- **staged shuffle, frame level (soundness)**: every row found in output partition `p` of the staged task
    shuffle has target `p` — for every frame/partitioning, `k ≥ 1`, `stages` with `k^stages ≥ npartitions`,
    whether or not the number of partitions changes. -/
theorem task_shuffle_sound (parts : List (List (Nat × α))) (nOut k S : Nat) (hk : 0 < k) (hkS : parts.length ≤ k ^ S)
    (htarget : ∀ rows ∈ parts, ∀ r ∈ rows, r.1 < nOut)
    (p : Nat) (out : List (Nat × α)) (hout : (taskShuffle parts nOut k S)[p]? = some out) : ∀ r ∈ out, r.1 = p := by
  intro r hr
  unfold taskShuffle at hout
  simp only at hout
  split at hout
  · rename_i hn
    -- same number of partitions: the staged position is the target
    have hinv := staged_inv_all (fun r => r.1 < nOut) k S parts.length hk parts htarget S (Nat.le_refl _)
    rw [List.getElem?_take] at hout
    split at hout
    · rename_i hp
      obtain ⟨hrlt, hdig⟩ := hinv p out hout r hr
      have hde := digits_ext k S p (r.1 % parts.length) hdig
      have hplt : p < k ^ S := by omega
      -- the rows of the staged frame are rows of the input (targets unchanged): target < nOut = nIn
      have hrt : r.1 % parts.length < k ^ S := Nat.lt_of_lt_of_le (Nat.mod_lt _ (by omega)) hkS
      have h1 := fromDigits_digits k S p hplt
      have h2 := fromDigits_digits k S (r.1 % parts.length) hrt
      rw [hde, h2] at h1
      rw [Nat.mod_eq_of_lt (by omega)] at h1
      exact h1
    · cases hout
  · rw [List.getElem?_map] at hout
    cases hq : (List.range nOut)[p]? with
    | none => rw [hq] at hout; cases hout
    | some v =>
      have hp : p < nOut := by
        apply Nat.lt_of_not_le; intro hcon
        rw [List.getElem?_eq_none (by simpa using hcon)] at hq; cases hq
      rw [List.getElem?_range hp] at hq; cases hq
      rw [List.getElem?_range hp] at hout
      simp only [Option.map_some, Option.some.injEq] at hout
      subst hout
      simpa using (List.mem_filter.mp hr).2

/-- **staged shuffle, frame level (completeness)**: with an unchanged number of partitions every input row whose
    target is a valid partition number is found in the output partition with that number (no row is lost). -/
theorem task_shuffle_complete (parts : List (List (Nat × α))) (k S : Nat) (hk : 0 < k) (hkS : parts.length ≤ k ^ S)
    (htarget : ∀ rows ∈ parts, ∀ r ∈ rows, r.1 < parts.length)
    (rows : List (Nat × α)) (hrows : rows ∈ parts) (r : Nat × α) (hr : r ∈ rows) :
    ∃ out, (taskShuffle parts parts.length k S)[r.1]? = some out ∧ r ∈ out := by
  obtain ⟨q, hq⟩ := List.mem_iff_getElem?.mp hrows
  have hqlt : q < parts.length := (List.getElem?_eq_some_iff.mp hq).1
  obtain ⟨q', rows', hq', hrows', hr'⟩ := staged_complete k S parts.length hk parts r S (Nat.le_refl _)
    ⟨q, rows, by omega, hq, hr⟩
  have hinv := staged_inv_all (fun r => r.1 < parts.length) k S parts.length hk parts htarget S (Nat.le_refl _)
  obtain ⟨hrlt, hdig⟩ := hinv q' rows' hrows' r hr'
  have hde := digits_ext k S q' (r.1 % parts.length) hdig
  have hrt : r.1 % parts.length < k ^ S := Nat.lt_of_lt_of_le (Nat.mod_lt _ (by omega)) hkS
  have h1 := fromDigits_digits k S q' hq'
  rw [hde, fromDigits_digits k S _ hrt, Nat.mod_eq_of_lt hrlt] at h1
  subst h1
  refine ⟨rows', ?_, hr'⟩
  unfold taskShuffle
  simp only [if_true]
  rw [List.getElem?_take, if_pos hrlt]
  exact hrows'


/-- **colocated** (frame level): rows with the same key (hence the same target) end in the same output partition -/
theorem task_shuffle_colocated (parts : List (List (Nat × α))) (nOut k S : Nat) (hk : 0 < k) (hkS : parts.length ≤ k ^ S)
    (htarget : ∀ rows ∈ parts, ∀ r ∈ rows, r.1 < nOut) (p₁ p₂ : Nat) (o₁ o₂ : List (Nat × α))
    (h₁ : (taskShuffle parts nOut k S)[p₁]? = some o₁) (h₂ : (taskShuffle parts nOut k S)[p₂]? = some o₂)
    (r₁ r₂ : Nat × α) (hr₁ : r₁ ∈ o₁) (hr₂ : r₂ ∈ o₂) (hsame : r₁.1 = r₂.1) : p₁ = p₂ := by
  rw [← task_shuffle_sound parts nOut k S hk hkS htarget p₁ o₁ h₁ r₁ hr₁,
    ← task_shuffle_sound parts nOut k S hk hkS htarget p₂ o₂ h₂ r₂ hr₂, hsame]


/-! ### the staged shuffle, exactly (rows, multiplicity, order) -/

/-- **task_shuffle_exact** — the whole `TaskShuffle._layer` (all stages over `k^S` positions, empty padding, last
    stage, and the `shuffle_group_2` / `shuffle_group_get` resize when the partition count changes): there are
    exactly `nOut` outputs and output `p` is the sub-sequence of the concatenated input — same relative order
    (partition by partition, row by row), same multiplicity — of the rows with `target % n = p` (count unchanged)
    resp. `target = p` (count changed). For every frame, `k ≥ 1`, `S` with `k^S ≥ npartitions_input ≥ 1`. -/
theorem task_shuffle_exact (parts : List (List (Nat × α))) (nOut k S : Nat) (hk : 0 < k)
    (hkS : parts.length ≤ k ^ S) (hpos : 0 < parts.length) (p : Nat) (hp : p < nOut) :
    (taskShuffle parts nOut k S).length = nOut ∧
    (taskShuffle parts nOut k S)[p]? = some (parts.flatten.filter fun r =>
      if nOut = parts.length then r.1 % parts.length == p else r.1 == p) :=
  ⟨taskShuffle_length parts nOut k S hkS, taskShuffle_getElem? parts nOut k S hk hkS hpos p hp⟩

/-- with valid targets (`_partitions < npartitions_out`, what `AssignPartitioningIndex` and `set_partitions_pre`
    produce) output `p` is the ordered sub-sequence of the rows with target `p`, whether or not the count changes -/
theorem task_shuffle_exact_valid (parts : List (List (Nat × α))) (nOut k S : Nat) (hk : 0 < k)
    (hkS : parts.length ≤ k ^ S) (hpos : 0 < parts.length)
    (htarget : ∀ rows ∈ parts, ∀ r ∈ rows, r.1 < nOut) (p : Nat) (hp : p < nOut) :
    (taskShuffle parts nOut k S)[p]? = some (parts.flatten.filter fun r => r.1 == p) :=
  taskShuffle_getElem?_valid parts nOut k S hk hkS hpos htarget p hp

/-- the order of the rows inside an output partition is the order of the input: every output is a `Sublist`
    of the concatenated input -/
theorem task_shuffle_order (parts : List (List (Nat × α))) (nOut k S : Nat) (hk : 0 < k)
    (hkS : parts.length ≤ k ^ S) (hpos : 0 < parts.length) (p : Nat) (out : List (Nat × α))
    (hout : (taskShuffle parts nOut k S)[p]? = some out) : out.Sublist parts.flatten := by
  have hp : p < nOut := by
    have := (List.getElem?_eq_some_iff.mp hout).1
    rwa [taskShuffle_length parts nOut k S hkS] at this
  rw [taskShuffle_getElem? parts nOut k S hk hkS hpos p hp] at hout
  cases hout
  exact List.filter_sublist

/-- staging is invisible: with valid targets the staged shuffle returns precisely what `SimpleShuffle` returns -/
theorem task_shuffle_eq_simple (parts : List (List (Nat × α))) (nOut k S : Nat) (hk : 0 < k)
    (hkS : parts.length ≤ k ^ S) (hpos : 0 < parts.length)
    (htarget : ∀ rows ∈ parts, ∀ r ∈ rows, r.1 < nOut) :
    taskShuffle parts nOut k S = simpleShuffle parts nOut := by
  apply List.ext_getElem?
  intro p
  by_cases hp : p < nOut
  · rw [taskShuffle_getElem?_valid parts nOut k S hk hkS hpos htarget p hp, simpleShuffle_getElem? parts nOut p hp]
    congr 1
    apply List.filter_congr
    intro r hr
    obtain ⟨rows, hrows, hrr⟩ := List.mem_flatten.mp hr
    rw [Nat.mod_eq_of_lt (htarget rows hrows r hrr)]
  · rw [List.getElem?_eq_none (by rw [taskShuffle_length parts nOut k S hkS]; omega),
      List.getElem?_eq_none (by rw [simpleShuffle_length]; omega)]

/-- **multiset of rows, unchanged partition count**: the concatenated outputs are a permutation of the
    concatenated inputs — no hypothesis on the targets (a target `≥ n` is reduced modulo `n`, as the code does) -/
theorem task_shuffle_perm_same_count (parts : List (List (Nat × α))) (k S : Nat) (hk : 0 < k)
    (hkS : parts.length ≤ k ^ S) (hpos : 0 < parts.length) :
    (taskShuffle parts parts.length k S).flatten.Perm parts.flatten := by
  have h := eq_map_range_of_getElem? (taskShuffle parts parts.length k S) parts.length
    (fun p => parts.flatten.filter fun r => r.1 % parts.length == p)
    (taskShuffle_length parts _ k S hkS)
    (fun p hp => by
      rw [taskShuffle_getElem? parts _ k S hk hkS hpos p hp]
      simp)
  rw [h]
  exact classes_mod_flatten_perm (fun r => r.1) parts.flatten parts.length hpos

/-- **multiset of rows, changed partition count**: the concatenated outputs are a permutation of the input rows
    whose target names an output partition; rows with `target ≥ nOut` are dropped (never fetched by
    `shuffle_group_get`) -/
theorem task_shuffle_perm_resize (parts : List (List (Nat × α))) (nOut k S : Nat) (hk : 0 < k)
    (hkS : parts.length ≤ k ^ S) (hpos : 0 < parts.length) (hne : nOut ≠ parts.length) :
    (taskShuffle parts nOut k S).flatten.Perm (parts.flatten.filter fun r => decide (r.1 < nOut)) := by
  have h := eq_map_range_of_getElem? (taskShuffle parts nOut k S) nOut
    (fun p => parts.flatten.filter fun r => r.1 == p)
    (taskShuffle_length parts _ k S hkS)
    (fun p hp => by
      rw [taskShuffle_getElem? parts _ k S hk hkS hpos p hp]
      simp [hne])
  rw [h]
  exact classes_flatten_perm (fun r => r.1) parts.flatten nOut

/-- **shuffle preserves the multiset of rows** (the statement's clause, staged task shuffle): with valid targets
    the concatenated outputs are a permutation of the concatenated inputs, for every `nOut` -/
theorem task_shuffle_perm (parts : List (List (Nat × α))) (nOut k S : Nat) (hk : 0 < k)
    (hkS : parts.length ≤ k ^ S) (hpos : 0 < parts.length)
    (htarget : ∀ rows ∈ parts, ∀ r ∈ rows, r.1 < nOut) :
    (taskShuffle parts nOut k S).flatten.Perm parts.flatten := by
  have hall : (parts.flatten.filter fun r => decide (r.1 < nOut)) = parts.flatten := by
    apply List.filter_eq_self.mpr
    intro r hr
    obtain ⟨rows, hrows, hrr⟩ := List.mem_flatten.mp hr
    simpa using htarget rows hrows r hrr
  by_cases h : nOut = parts.length
  · subst h; exact task_shuffle_perm_same_count parts k S hk hkS hpos
  · have := task_shuffle_perm_resize parts nOut k S hk hkS hpos h
    rwa [hall] at this

/-- `SimpleShuffle` preserves the multiset of rows (targets are reduced modulo `n`) -/
theorem simple_shuffle_perm (parts : List (List (Nat × α))) (n : Nat) (hn : 0 < n) :
    (simpleShuffle parts n).flatten.Perm parts.flatten := by
  have h := eq_map_range_of_getElem? (simpleShuffle parts n) n
    (fun p => parts.flatten.filter fun r => r.1 % n == p) (simpleShuffle_length parts n)
    (fun p hp => simpleShuffle_getElem? parts n p hp)
  rw [h]
  exact classes_mod_flatten_perm (fun r => r.1) parts.flatten n hn

/-- membership form (soundness + completeness, also when the count changes): a row is in output `p` iff it is
    an input row with target `p` -/
theorem task_shuffle_mem_iff (parts : List (List (Nat × α))) (nOut k S : Nat) (hk : 0 < k)
    (hkS : parts.length ≤ k ^ S) (hpos : 0 < parts.length)
    (htarget : ∀ rows ∈ parts, ∀ r ∈ rows, r.1 < nOut) (p : Nat) (hp : p < nOut) (out : List (Nat × α))
    (hout : (taskShuffle parts nOut k S)[p]? = some out) (r : Nat × α) :
    r ∈ out ↔ r ∈ parts.flatten ∧ r.1 = p := by
  rw [taskShuffle_getElem?_valid parts nOut k S hk hkS hpos htarget p hp] at hout
  cases hout
  simp only [List.mem_filter, beq_iff_eq]

/-! ### non-vacuity / concrete behaviour -/
example : routeTuple 3 3 11 (digits 5 3 3) = digits 11 3 3 := by decide
example : fromDigits 3 (digits 11 3 3) = 11 := by decide
example : taskShuffle [[(3, 0), (1, 1)], [(0, 2)], [(3, 3), (2, 4)], [(1, 5)]] 4 2 2 =
    [[(0, 2)], [(1, 1), (1, 5)], [(2, 4)], [(3, 0), (3, 3)]] := by decide
example : simpleShuffle [[(3, 0), (1, 1)], [(0, 2)], [(3, 3), (2, 4)]] 2 = [[(0, 2), (2, 4)], [(3, 0), (1, 1), (3, 3)]] := by decide
example : setPartitionsPre [2, 3, 5] (some 0) true true = 0 := by decide
example : setPartitionsPre [2, 3, 5] (some 9) true true = 1 := by decide
example : setPartitionsPre [2, 3, 5] (some 3) true true = 1 := by decide
-- the hypotheses of `set_partitions_pre_spec` hold for a concrete division vector, and the conclusion is not void
example : setPartitionsPre [2, 3, 5] (some 4) true true + 2 ≤ [2, 3, 5].length :=
  (set_partitions_pre_spec [2, 3, 5] 4 true 2 5 (by decide) (by decide) rfl rfl).1
-- `task_shuffle_exact` and its corollaries on concrete frames: 5 partitions, k = 2, S = 3 (2^3 ≥ 5)
example : (5 : Nat) ≤ 2 ^ 3 := by decide
-- unchanged count (targets < 5): rows keep the input order inside every output
example : taskShuffle [[(4, 0), (1, 1)], [(0, 2), (4, 3)], [], [(3, 4), (1, 5), (4, 6)], [(2, 7)]] 5 2 3 =
    [[(0, 2)], [(1, 1), (1, 5)], [(2, 7)], [(3, 4)], [(4, 0), (4, 3), (4, 6)]] := by decide
-- changed count 5 → 3 (`shuffle_group_2` / `shuffle_group_get`)
example : taskShuffle [[(2, 0), (1, 1)], [(0, 2), (2, 3)], [], [(0, 4), (1, 5), (2, 6)], [(2, 7)]] 3 2 3 =
    [[(0, 2), (0, 4)], [(1, 1), (1, 5)], [(2, 0), (2, 3), (2, 6), (2, 7)]] := by decide
-- changed count 3 → 5 with 2 stages of 2 (one padded position)
example : taskShuffle [[(4, 0), (1, 1)], [(0, 2), (4, 3)], [(3, 4), (1, 5)]] 5 2 2 =
    [[(0, 2)], [(1, 1), (1, 5)], [], [(3, 4)], [(4, 0), (4, 3)]] := by decide
-- a target that names no output: reduced modulo n when the count is unchanged, dropped when it changes
example : taskShuffle [[(7, 0)], [(1, 1)], [(0, 2)]] 3 2 2 = [[(0, 2)], [(7, 0), (1, 1)], []] := by decide
example : taskShuffle [[(7, 0)], [(1, 1)], [(0, 2)]] 2 2 2 = [[(0, 2)], [(1, 1)]] := by decide

end Dask.C40
