import DaskModel.Model.GetScheduler
/-!
# C14 (scheduler choice) — `get_scheduler` resolves the scheduler by a fixed precedence

explicit `scheduler=` > config `scheduler` > class default > the collections' common default; the three local
schedulers are reachable under all their names (extracted table); collections with differing defaults and no
explicit choice are rejected instead of picking one silently.
-/
namespace Dask.C14
open Dask.GetScheduler Dask.Generated.NamedSchedulers

/-- the extracted table has exactly the documented names for the three local schedulers -/
theorem named_schedulers_extracted :
    namedSchedulers = [("sync", "local.get_sync"), ("synchronous", "local.get_sync"), ("single-threaded", "local.get_sync"),
      ("threads", "threaded.get"), ("threading", "threaded.get"),
      ("processes", "dask_multiprocessing.get"), ("multiprocessing", "dask_multiprocessing.get")] := rfl

/-- an explicit `scheduler=` decides alone: config, class and collections are not consulted -/
theorem explicit_scheduler_decides (tbl : List (String × String)) (cpu : Nat) (s : Spec) (hs : s ≠ .none)
    (cfg cfg' : Spec) (cg cg' : Bool) (w : Option Nat) (cls cls' : Option Nat) (cs cs' : List (Option Nat)) :
    getScheduler tbl cpu false s cfg cg w cls cs = getScheduler tbl cpu false s cfg' cg' w cls' cs' := by
  have : (s != Spec.none) = true := by simpa using hs
  simp [getScheduler, this]

/-- a configured scheduler decides when no explicit one is given -/
theorem config_scheduler_decides (tbl : List (String × String)) (cpu : Nat) (cfg : Spec) (hc : truthy cfg = true)
    (cg cg' : Bool) (w : Option Nat) (cls cls' : Option Nat) (cs cs' : List (Option Nat)) :
    getScheduler tbl cpu false .none cfg cg w cls cs = getScheduler tbl cpu false .none cfg cg' w cls' cs' := by
  simp [getScheduler, hc]

/-- without any choice, collections that agree on their default get it… -/
theorem common_default (tbl : List (String × String)) (cpu : Nat) (w : Option Nat) (c : Nat) (cs : List (Option Nat))
    (h : ∀ x ∈ cs.filterMap id, x = c) (hne : cs.filterMap id ≠ []) :
    getScheduler tbl cpu false .none .none false w none cs = .default c := by
  simp only [getScheduler, Bool.false_eq_true, if_false, truthy]
  cases hl : cs.filterMap id with
  | nil => exact absurd hl hne
  | cons x rest =>
    rw [hl] at h
    have hx : x = c := h x (by simp)
    have hr : rest.all (· == x) = true := by
      rw [List.all_eq_true]
      intro y hy
      have := h y (by simp [hy])
      simp [this, hx]
    subst hx
    simp [hr]

/-- …and collections with differing defaults are rejected (the choice is never made silently) -/
theorem differing_defaults_rejected (tbl : List (String × String)) (cpu : Nat) (w : Option Nat) (a b : Nat) (hab : a ≠ b)
    (pre : List (Option Nat)) (hpre : ∀ x ∈ pre, x = none ∨ x = some a) (post : List (Option Nat)) :
    getScheduler tbl cpu false .none .none false w none (some a :: pre ++ some b :: post) = .valueError := by
  simp only [getScheduler, Bool.false_eq_true, if_false, truthy, List.filterMap_cons, id, List.filterMap_append]
  have : ((pre.filterMap id ++ b :: post.filterMap id).all (· == a)) = false := by
    rw [List.all_eq_false]
    exact ⟨b, by simp, by simpa using fun h => hab h.symm⟩
  simp [this]

/-- every documented name of a local scheduler is in the table (names are looked up in lower case) -/
theorem local_names_resolve :
    ∀ n ∈ ["sync", "synchronous", "single-threaded", "threads", "threading", "processes", "multiprocessing"],
      (lookup namedSchedulers n).isSome = true := by decide

/-- the aliases of one scheduler resolve to the same function -/
theorem aliases_agree :
    lookup namedSchedulers "sync" = lookup namedSchedulers "synchronous" ∧
    lookup namedSchedulers "sync" = lookup namedSchedulers "single-threaded" ∧
    lookup namedSchedulers "threads" = lookup namedSchedulers "threading" ∧
    lookup namedSchedulers "processes" = lookup namedSchedulers "multiprocessing" ∧
    lookup namedSchedulers "sync" ≠ lookup namedSchedulers "threads" ∧
    lookup namedSchedulers "threads" ≠ lookup namedSchedulers "processes" := by decide

example : getScheduler namedSchedulers 4 false .none .none false none none [some 2, none, some 3] = .valueError := by decide

/-! non-vacuity of the theorems above on the extracted table -/

example : getScheduler namedSchedulers 4 false (.name "Threads") .none false (some 2) none []
        = getScheduler namedSchedulers 4 false (.name "Threads") (.name "sync") true (some 2) (some 1) [some 3] :=
  explicit_scheduler_decides namedSchedulers 4 (.name "Threads") (by decide) _ _ _ _ _ _ _ _ _

example : getScheduler namedSchedulers 4 false .none (.name "processes") false none none []
        = getScheduler namedSchedulers 4 false .none (.name "processes") true none (some 1) [some 3, some 4] :=
  config_scheduler_decides namedSchedulers 4 (.name "processes") (by decide) _ _ _ _ _ _ _

example : getScheduler namedSchedulers 4 false .none .none false none none [some 7, none, some 7] = .default 7 :=
  common_default namedSchedulers 4 none 7 _ (by decide) (by decide)

example : getScheduler namedSchedulers 4 false .none .none false none none (some 1 :: [none, some 1] ++ some 2 :: [some 1]) = .valueError :=
  differing_defaults_rejected namedSchedulers 4 none 1 2 (by decide) _ (by decide) _

end Dask.C14
