import DaskModel.Model.Percentile
import Mathlib.Algebra.Order.Field.Rat
import Mathlib.Algebra.Order.Field.Basic
import Mathlib.Tactic.Linarith
import Mathlib.Tactic.Ring
/-!
# C32 — approximate percentiles stay within the data and are monotone in q

`vals`/`cq` below are the merged values and cumulative weights of `merge_percentiles` in **any**
value-sorted arrangement (NumPy's argsort is not stable, so ties may come in any order):
hypotheses `Sorted vals`, `Sorted cq` (weights ≥ 0), equal lengths, non-empty.

* `merge_within_minmax`  — every method, every `d`: `vals[0] ≤ select … d ≤ vals[n-1]`
* `merge_monotone_in_q`  — all five methods: `d ≤ d' → select d ≤ select d'` (`nearest_mono` is the delicate case)
* `q0_q100`              — `d ≤ 0` gives `vals[0]`, `d ≥ cq[n-1]` gives `vals[n-1]` (after the two fixes)
* `first_is_min` / `last_is_max` — `vals[0]`/`vals[n-1]` are the smallest/largest merged value
* `mergePercentiles_*`   — the same for the outputs of the executable `mergePercentiles` (stable sort).
-/
namespace Dask.C32
open Dask.Percentile

abbrev Sorted (xs : List Rat) : Prop := List.Pairwise (· ≤ ·) xs

theorem nth_eq_getElem (xs : List Rat) (i : Nat) (h : i < xs.length) : nth xs i = xs[i] := by
  simp [nth, List.getD_eq_getElem?_getD, h]

theorem nth_mono {xs : List Rat} (hs : Sorted xs) {i j : Nat} (hij : i ≤ j) (hj : j < xs.length) :
    nth xs i ≤ nth xs j := by
  rw [nth_eq_getElem xs i (by omega), nth_eq_getElem xs j hj]
  rcases Nat.lt_or_eq_of_le hij with h | h
  · exact (List.pairwise_iff_getElem.mp hs) i j (by omega) hj h
  · subst h; exact le_refl _

theorem countLt_le_countLe (cq : List Rat) (d : Rat) : countLt cq d ≤ countLe cq d := by
  unfold countLt countLe
  induction cq with
  | nil => simp
  | cons x xs ih =>
    simp only [List.filter_cons]
    by_cases h1 : x < d
    · have h2 : x ≤ d := le_of_lt h1
      simp [h1, h2]; omega
    · by_cases h2 : x ≤ d <;> simp [h1, h2] <;> omega

theorem countLe_le_length (cq : List Rat) (d : Rat) : countLe cq d ≤ cq.length := by
  unfold countLe; exact List.length_filter_le _ _

theorem countLt_mono (cq : List Rat) {d d' : Rat} (h : d ≤ d') : countLt cq d ≤ countLt cq d' := by
  unfold countLt
  induction cq with
  | nil => simp
  | cons x xs ih =>
    simp only [List.filter_cons]
    by_cases h1 : x < d
    · have h2 : x < d' := lt_of_lt_of_le h1 h
      simp [h1, h2]; omega
    · by_cases h2 : x < d' <;> simp [h1, h2] <;> omega

theorem countLe_mono (cq : List Rat) {d d' : Rat} (h : d ≤ d') : countLe cq d ≤ countLe cq d' := by
  unfold countLe
  induction cq with
  | nil => simp
  | cons x xs ih =>
    simp only [List.filter_cons]
    by_cases h1 : x ≤ d
    · have h2 : x ≤ d' := le_trans h1 h
      simp [h1, h2]; omega
    · by_cases h2 : x ≤ d' <;> simp [h1, h2] <;> omega

/-- on a sorted list the first `countLe` entries are `≤ d` … -/
theorem le_of_lt_countLe {cq : List Rat} (hs : Sorted cq) (d : Rat) :
    ∀ i, i < countLe cq d → nth cq i ≤ d := by
  induction cq with
  | nil => intro i h; simp [countLe] at h
  | cons x xs ih =>
    intro i h
    have hs' : Sorted xs := (List.pairwise_cons.mp hs).2
    have hx := (List.pairwise_cons.mp hs).1
    by_cases h1 : x ≤ d
    · cases i with
      | zero => simpa [nth] using h1
      | succ i =>
        have : i < countLe xs d := by
          simp only [countLe, List.filter_cons, h1, decide_true, if_true, List.length_cons] at h
          unfold countLe; omega
        have := ih hs' i this
        simpa [nth] using this
    · have hnil : xs.filter (· ≤ d) = [] := by
        apply List.filter_eq_nil_iff.mpr
        intro y hy
        have := hx y hy
        simp only [decide_eq_true_eq]
        intro hyd; exact h1 (le_trans this hyd)
      simp [countLe, List.filter_cons, h1, hnil] at h

/-- … and all later entries are `> d` -/
theorem lt_of_countLe_le {cq : List Rat} (hs : Sorted cq) (d : Rat) :
    ∀ i, countLe cq d ≤ i → i < cq.length → d < nth cq i := by
  induction cq with
  | nil => intro i _ h; simp at h
  | cons x xs ih =>
    intro i h hi
    have hs' : Sorted xs := (List.pairwise_cons.mp hs).2
    have hx := (List.pairwise_cons.mp hs).1
    by_cases h1 : x ≤ d
    · cases i with
      | zero => simp [countLe, List.filter_cons, h1] at h
      | succ i =>
        have hc : countLe xs d ≤ i := by
          simp only [countLe, List.filter_cons, h1, decide_true, if_true, List.length_cons] at h
          unfold countLe; omega
        have := ih hs' i hc (by simpa using hi)
        simpa [nth] using this
    · have hxd : d < x := lt_of_not_ge h1
      cases i with
      | zero => simpa [nth] using hxd
      | succ i =>
        have hmem : xs[i]'(by simpa using hi) ∈ xs := List.getElem_mem _
        have := hx _ hmem
        have h2 : nth (x :: xs) (i + 1) = xs[i]'(by simpa using hi) := by
          rw [nth_eq_getElem (x :: xs) (i + 1) hi]; rfl
        rw [h2]; exact lt_of_lt_of_le hxd this

/-- on a sorted list the first `countLt` entries are `< d` … -/
theorem lt_of_lt_countLt {cq : List Rat} (hs : Sorted cq) (d : Rat) :
    ∀ i, i < countLt cq d → nth cq i < d := by
  induction cq with
  | nil => intro i h; simp [countLt] at h
  | cons x xs ih =>
    intro i h
    have hs' : Sorted xs := (List.pairwise_cons.mp hs).2
    have hx := (List.pairwise_cons.mp hs).1
    by_cases h1 : x < d
    · cases i with
      | zero => simpa [nth] using h1
      | succ i =>
        have : i < countLt xs d := by
          simp only [countLt, List.filter_cons, h1, decide_true, if_true, List.length_cons] at h
          unfold countLt; omega
        have := ih hs' i this
        simpa [nth] using this
    · have hnil : xs.filter (· < d) = [] := by
        apply List.filter_eq_nil_iff.mpr
        intro y hy
        have := hx y hy
        simp only [decide_eq_true_eq]
        intro hyd; exact h1 (lt_of_le_of_lt this hyd)
      simp [countLt, List.filter_cons, h1, hnil] at h

/-- … and all later entries are `≥ d` -/
theorem ge_of_countLt_le {cq : List Rat} (hs : Sorted cq) (d : Rat) :
    ∀ i, countLt cq d ≤ i → i < cq.length → d ≤ nth cq i := by
  induction cq with
  | nil => intro i _ h; simp at h
  | cons x xs ih =>
    intro i h hi
    have hs' : Sorted xs := (List.pairwise_cons.mp hs).2
    have hx := (List.pairwise_cons.mp hs).1
    by_cases h1 : x < d
    · cases i with
      | zero => simp [countLt, List.filter_cons, h1] at h
      | succ i =>
        have hc : countLt xs d ≤ i := by
          simp only [countLt, List.filter_cons, h1, decide_true, if_true, List.length_cons] at h
          unfold countLt; omega
        have := ih hs' i hc (by simpa using hi)
        simpa [nth] using this
    · have hxd : d ≤ x := le_of_not_gt h1
      cases i with
      | zero => simpa [nth] using hxd
      | succ i =>
        have hmem : xs[i]'(by simpa using hi) ∈ xs := List.getElem_mem _
        have := hx _ hmem
        have h2 : nth (x :: xs) (i + 1) = xs[i]'(by simpa using hi) := by
          rw [nth_eq_getElem (x :: xs) (i + 1) hi]; rfl
        rw [h2]; exact le_trans hxd this

theorem rabs_of_nonneg {x : Rat} (h : 0 ≤ x) : rabs x = x := by
  unfold rabs; rw [if_neg (not_lt.mpr h)]
theorem rabs_of_neg {x : Rat} (h : x < 0) : rabs x = -x := by
  unfold rabs; rw [if_pos h]

section bounds
variable {vals cq : List Rat} (hv : Sorted vals) (hc : Sorted cq) (hlen : vals.length = cq.length)
  (hne : 0 < vals.length)
include hv hc hlen hne

theorem lowerIdx_lt (d : Rat) : lowerIdx cq vals.length d < vals.length := by
  unfold lowerIdx; omega

theorem upperIdx_lt (d : Rat) : upperIdx cq vals.length d < vals.length := by
  unfold upperIdx
  have := countLe_le_length cq d
  omega

theorem lowerIdx_mono {d d' : Rat} (h : d ≤ d') : lowerIdx cq vals.length d ≤ lowerIdx cq vals.length d' := by
  unfold lowerIdx
  have := countLt_mono cq h; have := countLe_mono cq h
  omega

theorem upperIdx_mono {d d' : Rat} (h : d ≤ d') : upperIdx cq vals.length d ≤ upperIdx cq vals.length d' := by
  unfold upperIdx
  have := countLt_mono cq h; have := countLe_mono cq h
  omega

theorem first_le_nth (i : Nat) (hi : i < vals.length) : nth vals 0 ≤ nth vals i := nth_mono hv (Nat.zero_le i) hi
theorem nth_le_last (i : Nat) (hi : i < vals.length) : nth vals i ≤ nth vals (vals.length - 1) :=
  nth_mono hv (by omega) (by omega)

/-- `np.interp` stays between the two values it interpolates (and inside the whole range) -/
theorem interp_bounds (d : Rat) :
    nth vals 0 ≤ interp cq vals d ∧ interp cq vals d ≤ nth vals (vals.length - 1) ∧
    (∀ c, countLe cq d = c → 0 < c → c < vals.length →
      nth vals (c - 1) ≤ interp cq vals d ∧ interp cq vals d ≤ nth vals c) := by
  have key : ∀ c, countLe cq d = c → 0 < c → c < vals.length →
      nth vals (c - 1) ≤ interp cq vals d ∧ interp cq vals d ≤ nth vals c := by
    intro c hcd hc0 hcn
    unfold interp
    simp only [hcd]
    rw [if_neg (by omega), if_neg (by omega)]
    have hj1 : c - 1 + 1 = c := by omega
    rw [hj1]
    have hx1 : nth cq (c - 1) ≤ d := le_of_lt_countLe hc d (c - 1) (by omega)
    have hx2 : d < nth cq c := lt_of_countLe_le hc d c (by omega) (by omega)
    have hvv : nth vals (c - 1) ≤ nth vals c := nth_mono hv (by omega) hcn
    set s := d - nth cq (c - 1) with hs
    set w := nth cq c - nth cq (c - 1) with hw
    set D := nth vals c - nth vals (c - 1) with hD
    have hs0 : 0 ≤ s := by linarith
    have hsw : s ≤ w := by linarith
    have hw0 : 0 < w := by linarith
    have hD0 : 0 ≤ D := by linarith
    have h1 : 0 ≤ s * (D / w) := mul_nonneg hs0 (div_nonneg hD0 (le_of_lt hw0))
    have h2 : s * (D / w) ≤ D := by
      have : s * (D / w) = D * (s / w) := by ring
      rw [this]
      have : s / w ≤ 1 := (div_le_one hw0).mpr hsw
      exact mul_le_of_le_one_right hD0 this
    constructor <;> linarith
  refine ⟨?_, ?_, key⟩
  · by_cases h0 : countLe cq d = 0
    · unfold interp; simp [h0]
    · by_cases hn : countLe cq d ≥ vals.length
      · unfold interp; simp only [if_neg h0, if_pos hn]
        exact first_le_nth hv hc hlen hne _ (by omega)
      · obtain ⟨h1, _⟩ := key _ rfl (by omega) (by omega)
        exact le_trans (first_le_nth hv hc hlen hne _ (by omega)) h1
  · by_cases h0 : countLe cq d = 0
    · unfold interp; simp only [h0, if_true]
      exact nth_le_last hv hc hlen hne 0 hne
    · by_cases hn : countLe cq d ≥ vals.length
      · unfold interp; simp only [if_neg h0, if_pos hn]; exact le_refl _
      · obtain ⟨_, h2⟩ := key _ rfl (by omega) (by omega)
        exact le_trans h2 (nth_le_last hv hc hlen hne _ (by omega))

/-- the method rule (before pinning) stays inside `[vals[0], vals[n-1]]` -/
theorem core_bounds (m : Method) (d : Rat) :
    nth vals 0 ≤ core m vals cq d ∧ core m vals cq d ≤ nth vals (vals.length - 1) := by
  have hl := lowerIdx_lt hv hc hlen hne d
  have hu := upperIdx_lt hv hc hlen hne d
  have l1 := first_le_nth hv hc hlen hne _ hl
  have l2 := nth_le_last hv hc hlen hne _ hl
  have u1 := first_le_nth hv hc hlen hne _ hu
  have u2 := nth_le_last hv hc hlen hne _ hu
  cases m with
  | linear => exact ⟨(interp_bounds hv hc hlen hne d).1, (interp_bounds hv hc hlen hne d).2.1⟩
  | lower => exact ⟨l1, l2⟩
  | higher => exact ⟨u1, u2⟩
  | midpoint => simp only [core]; constructor <;> linarith
  | nearest => simp only [core]; split <;> exact ⟨by assumption, by assumption⟩

/-- **merge_within_minmax**: every output lies between the smallest and the largest merged value. -/
theorem merge_within_minmax (m : Method) (d : Rat) :
    nth vals 0 ≤ select m vals cq d ∧ select m vals cq d ≤ nth vals (vals.length - 1) := by
  unfold select
  split
  · exact ⟨first_le_nth hv hc hlen hne _ (by omega), le_refl _⟩
  · split
    · exact ⟨le_refl _, nth_le_last hv hc hlen hne 0 hne⟩
    · exact core_bounds hv hc hlen hne m d

/-- **q0_q100**: at or below weight 0 the smallest merged value, at or above the total weight the largest. -/
theorem q0_q100 (m : Method) (d : Rat) :
    (d ≤ 0 → d < nth cq (cq.length - 1) → select m vals cq d = nth vals 0) ∧
    (nth cq (cq.length - 1) ≤ d → select m vals cq d = nth vals (vals.length - 1)) := by
  constructor
  · intro h0 hl
    unfold select
    rw [if_neg (by simpa using hl), if_pos h0]
  · intro h
    unfold select
    rw [if_pos h]

theorem interp_mono {d d' : Rat} (h : d ≤ d') : interp cq vals d ≤ interp cq vals d' := by
  have hcc := countLe_mono cq h
  have B := interp_bounds hv hc hlen hne d
  have B' := interp_bounds hv hc hlen hne d'
  by_cases h0 : countLe cq d = 0
  · have : interp cq vals d = nth vals 0 := by unfold interp; simp [h0]
    rw [this]; exact B'.1
  · by_cases hn' : countLe cq d' ≥ vals.length
    · have : interp cq vals d' = nth vals (vals.length - 1) := by
        unfold interp; rw [if_neg (by omega), if_pos hn']
      rw [this]; exact B.2.1
    · -- both interior
      have hc1 : 0 < countLe cq d := by omega
      have hc2 : countLe cq d < vals.length := by omega
      have hc1' : 0 < countLe cq d' := by omega
      have hc2' : countLe cq d' < vals.length := by omega
      rcases Nat.lt_or_eq_of_le hcc with hlt | heq
      · obtain ⟨_, b2⟩ := B.2.2 _ rfl hc1 hc2
        obtain ⟨b1', _⟩ := B'.2.2 _ rfl hc1' hc2'
        have : nth vals (countLe cq d) ≤ nth vals (countLe cq d' - 1) := nth_mono hv (by omega) (by omega)
        linarith
      · unfold interp
        rw [if_neg (by omega), if_neg (by omega), if_neg (by omega), if_neg (by omega)]
        rw [← heq]
        dsimp only
        set c := countLe cq d
        have hx2 : d' < nth cq c := lt_of_countLe_le hc d' c (by omega) (by omega)
        have hx1 : nth cq (c - 1) ≤ d := le_of_lt_countLe hc d (c - 1) (by omega)
        have hj1 : c - 1 + 1 = c := by omega
        rw [hj1]
        have hvv : nth vals (c - 1) ≤ nth vals c := nth_mono hv (by omega) hc2
        have hw0 : 0 < nth cq c - nth cq (c - 1) := by linarith
        have hD0 : 0 ≤ (nth vals c - nth vals (c - 1)) / (nth cq c - nth cq (c - 1)) :=
          div_nonneg (by linarith) (le_of_lt hw0)
        have : (d - nth cq (c - 1)) * ((nth vals c - nth vals (c - 1)) / (nth cq c - nth cq (c - 1)))
            ≤ (d' - nth cq (c - 1)) * ((nth vals c - nth vals (c - 1)) / (nth cq c - nth cq (c - 1))) :=
          mul_le_mul_of_nonneg_right (by linarith) hD0
        linarith

theorem core_mono_non_nearest (m : Method) (hm : m ≠ .nearest) {d d' : Rat} (h : d ≤ d') :
    core m vals cq d ≤ core m vals cq d' := by
  have hl := lowerIdx_mono hv hc hlen hne h
  have hu := upperIdx_mono hv hc hlen hne h
  have l := nth_mono hv hl (lowerIdx_lt hv hc hlen hne d')
  have u := nth_mono hv hu (upperIdx_lt hv hc hlen hne d')
  cases m with
  | linear => exact interp_mono hv hc hlen hne h
  | lower => exact l
  | higher => exact u
  | midpoint => simp only [core]; linarith
  | nearest => exact absurd rfl hm

/-- `nearest` is monotone too: the only way to go down would be to pick the upper neighbour for `d` and the
    lower neighbour of the *same* gap for a larger `d'`, which the distance comparison excludes. -/
theorem nearest_mono {d d' : Rat} (h : d ≤ d') :
    core .nearest vals cq d ≤ core .nearest vals cq d' := by
  have hl := lowerIdx_mono hv hc hlen hne h
  have hu := upperIdx_mono hv hc hlen hne h
  have hlt := lowerIdx_lt hv hc hlen hne d
  have hut := upperIdx_lt hv hc hlen hne d
  have hlt' := lowerIdx_lt hv hc hlen hne d'
  have hut' := upperIdx_lt hv hc hlen hne d'
  have hlu : lowerIdx cq vals.length d ≤ upperIdx cq vals.length d := by unfold lowerIdx upperIdx; omega
  have hlu' : lowerIdx cq vals.length d' ≤ upperIdx cq vals.length d' := by unfold lowerIdx upperIdx; omega
  simp only [core]
  by_cases hR : rabs (nth cq (lowerIdx cq vals.length d) - d) > rabs (nth cq (upperIdx cq vals.length d) - d)
  · rw [if_pos hR]
    by_cases hR' : rabs (nth cq (lowerIdx cq vals.length d') - d') > rabs (nth cq (upperIdx cq vals.length d') - d')
    · rw [if_pos hR']; exact nth_mono hv hu hut'
    · rw [if_neg hR']
      by_cases hcross : upperIdx cq vals.length d ≤ lowerIdx cq vals.length d'
      · exact nth_mono hv hcross hlt'
      · exfalso
        -- same gap: both `d` and `d'` lie strictly between cq[A-1] and cq[A]
        have hab := countLt_le_countLe cq d
        have hab' := countLt_le_countLe cq d'
        have hbn := countLe_le_length cq d
        have hbn' := countLe_le_length cq d'
        have ha := countLt_mono cq h
        have hb := countLe_mono cq h
        set A := countLt cq d with hA
        set B := countLe cq d with hB
        set A' := countLt cq d' with hA'
        set B' := countLe cq d' with hB'
        have hne' : lowerIdx cq vals.length d ≠ upperIdx cq vals.length d := by
          intro he; rw [he] at hR; exact lt_irrefl _ hR
        -- the case A < B is impossible: both neighbours carry weight exactly d
        by_cases hAB : A < B
        · have hlo : lowerIdx cq vals.length d = A := by unfold lowerIdx; omega
          have hhi : upperIdx cq vals.length d = B - 1 := by unfold upperIdx; omega
          have e1 : nth cq A = d := le_antisymm (le_of_lt_countLe hc d A (by omega))
            (ge_of_countLt_le hc d A (le_refl _) (by omega))
          have e2 : nth cq (B - 1) = d := le_antisymm (le_of_lt_countLe hc d (B - 1) (by omega))
            (ge_of_countLt_le hc d (B - 1) (by omega) (by omega))
          rw [hlo, hhi, e1, e2] at hR
          exact lt_irrefl _ hR
        · have hAeq : A = B := by omega
          have hA1 : 1 ≤ A ∧ A ≤ vals.length - 1 := by
            simp only [lowerIdx, upperIdx] at hne'; omega
          have hlo : lowerIdx cq vals.length d = A - 1 := by unfold lowerIdx; omega
          have hhi : upperIdx cq vals.length d = A := by unfold upperIdx; omega
          have hB'A : B' = A := by simp only [lowerIdx, upperIdx] at hcross hl; omega
          have hA'A : A' = A := by omega
          have hlo' : lowerIdx cq vals.length d' = A - 1 := by unfold lowerIdx; omega
          have hhi' : upperIdx cq vals.length d' = A := by unfold upperIdx; omega
          have c1 : nth cq (A - 1) < d := lt_of_lt_countLt hc d (A - 1) (by omega)
          have c2 : d' < nth cq A := lt_of_countLe_le hc d' A (by omega) (by omega)
          have r1 : rabs (nth cq (A - 1) - d) = -(nth cq (A - 1) - d) := rabs_of_neg (by linarith)
          have r2 : rabs (nth cq A - d) = nth cq A - d := rabs_of_nonneg (by linarith)
          have r3 : rabs (nth cq (A - 1) - d') = -(nth cq (A - 1) - d') := rabs_of_neg (by linarith)
          have r4 : rabs (nth cq A - d') = nth cq A - d' := rabs_of_nonneg (by linarith)
          rw [hlo, hhi, r1, r2] at hR
          rw [hlo', hhi', r3, r4] at hR'
          linarith
  · rw [if_neg hR]
    by_cases hR' : rabs (nth cq (lowerIdx cq vals.length d') - d') > rabs (nth cq (upperIdx cq vals.length d') - d')
    · rw [if_pos hR']; exact nth_mono hv (le_trans hl hlu') hut'
    · rw [if_neg hR']; exact nth_mono hv hl hlt'

theorem core_mono (m : Method) {d d' : Rat} (h : d ≤ d') : core m vals cq d ≤ core m vals cq d' := by
  by_cases hm : m = .nearest
  · subst hm; exact nearest_mono hv hc hlen hne h
  · exact core_mono_non_nearest hv hc hlen hne m hm h

/-- **merge_monotone_in_q** (all five methods): the output is non-decreasing in the desired weight, hence
    in `q`. -/
theorem merge_monotone_in_q (m : Method) {d d' : Rat} (h : d ≤ d') :
    select m vals cq d ≤ select m vals cq d' := by
  have W := merge_within_minmax hv hc hlen hne m
  by_cases h1 : d' ≥ nth cq (cq.length - 1)
  · have : select m vals cq d' = nth vals (vals.length - 1) := by unfold select; rw [if_pos h1]
    rw [this]; exact (W d).2
  · by_cases h2 : d ≥ nth cq (cq.length - 1)
    · exact absurd (le_trans h2 h) h1
    · by_cases h3 : d ≤ 0
      · have : select m vals cq d = nth vals 0 := by unfold select; rw [if_neg h2, if_pos h3]
        rw [this]; exact (W d').1
      · have h4 : ¬ d' ≤ 0 := fun h4 => h3 (le_trans h h4)
        unfold select
        rw [if_neg h1, if_neg h2, if_neg h3, if_neg h4]
        exact core_mono hv hc hlen hne m h

/-- the first / last merged value is the minimum / maximum of all merged values -/
theorem first_is_min : nth vals 0 ∈ vals ∧ ∀ v ∈ vals, nth vals 0 ≤ v := by
  constructor
  · rw [nth_eq_getElem vals 0 hne]; exact List.getElem_mem _
  · intro v hvm
    obtain ⟨i, hi, rfl⟩ := List.getElem_of_mem hvm
    rw [← nth_eq_getElem vals i hi]; exact first_le_nth hv hc hlen hne i hi

theorem last_is_max : nth vals (vals.length - 1) ∈ vals ∧ ∀ v ∈ vals, v ≤ nth vals (vals.length - 1) := by
  constructor
  · rw [nth_eq_getElem vals _ (by omega)]; exact List.getElem_mem _
  · intro v hvm
    obtain ⟨i, hi, rfl⟩ := List.getElem_of_mem hvm
    rw [← nth_eq_getElem vals i hi]; exact nth_le_last hv hc hlen hne i hi

end bounds

/-! ## The executable `mergePercentilesWith` satisfies the hypotheses -/

theorem sorted_of_adjacent : ∀ (vs : List Rat), ((vs.zip vs.tail).all fun (a, b) => decide (a ≤ b)) = true → Sorted vs
  | [], _ => List.Pairwise.nil
  | [_], _ => by simp [Sorted]
  | a :: b :: rest, h => by
    simp only [List.tail_cons, List.zip_cons_cons, List.all_cons, Bool.and_eq_true, decide_eq_true_eq] at h
    have ih := sorted_of_adjacent (b :: rest) (by simpa using h.2)
    refine List.pairwise_cons.mpr ⟨?_, ih⟩
    intro x hx
    rcases List.mem_cons.mp hx with rfl | hx'
    · exact h.1
    · exact le_trans h.1 ((List.pairwise_cons.mp ih).1 x hx')

theorem insertBy_sorted (x : Entry) (es : List Entry) (h : Sorted (es.map (·.val))) :
    Sorted ((insertBy x es).map (·.val)) ∧ (∀ y ∈ insertBy x es, y = x ∨ y ∈ es) ∧
      (insertBy x es).length = es.length + 1 := by
  induction es with
  | nil => simp [insertBy, Sorted]
  | cons y ys ih =>
    have hy := List.pairwise_cons.mp h
    unfold insertBy
    split
    · rename_i hxy
      refine ⟨?_, by intro z hz; simpa using hz, by simp⟩
      simp only [List.map_cons]
      refine List.pairwise_cons.mpr ⟨?_, h⟩
      intro v hv
      rcases List.mem_cons.mp hv with rfl | hv'
      · exact hxy
      · exact le_trans hxy (hy.1 v hv')
    · rename_i hxy
      obtain ⟨ih1, ih2, ih3⟩ := ih hy.2
      refine ⟨?_, ?_, by simp [ih3]⟩
      · simp only [List.map_cons]
        refine List.pairwise_cons.mpr ⟨?_, ih1⟩
        intro v hv
        obtain ⟨z, hz, rfl⟩ := List.mem_map.mp hv
        rcases ih2 z hz with rfl | hz'
        · exact le_of_lt (lt_of_not_ge hxy)
        · exact hy.1 _ (List.mem_map.mpr ⟨z, hz', rfl⟩)
      · intro z hz
        rcases List.mem_cons.mp hz with rfl | hz'
        · right; simp
        · rcases ih2 z hz' with h1 | h1
          · left; exact h1
          · right; simp [h1]

theorem isortBy_spec (es : List Entry) :
    Sorted ((isortBy es).map (·.val)) ∧ (∀ e ∈ isortBy es, e ∈ es) ∧ (isortBy es).length = es.length := by
  induction es with
  | nil => simp [isortBy, Sorted]
  | cons x xs ih =>
    obtain ⟨h1, h2, h3⟩ := insertBy_sorted x _ ih.1
    refine ⟨h1, ?_, by simp [isortBy, h3, ih.2.2]⟩
    intro e he
    rcases h2 e he with rfl | h
    · simp
    · simp [ih.2.1 e h]

/-- whatever permutation `np.argsort` returned (the model validates it), the merged values are sorted,
    the weights are the input weights (non-negativity is preserved) and nothing is lost -/
theorem arrange_spec (es : List Entry) (order : Option (List Nat)) (out : List Entry)
    (h : arrange es order = some out) :
    Sorted (out.map (·.val)) ∧ (∀ e ∈ out, e ∈ es ∨ es = []) ∧ out.length = es.length := by
  cases order with
  | none =>
    simp only [arrange] at h; injection h with h; subst h
    exact ⟨(isortBy_spec es).1, fun e he => Or.inl ((isortBy_spec es).2.1 e he), (isortBy_spec es).2.2⟩
  | some o =>
    simp only [arrange] at h
    split at h
    · rename_i hv
      injection h with h; subst h
      simp only [validOrder, Bool.and_eq_true, beq_iff_eq] at hv
      refine ⟨?_, ?_, by simpa using hv.1.1.1⟩
      · have := sorted_of_adjacent _ hv.2
        simpa [List.map_map, Function.comp_def] using this
      · intro e he
        obtain ⟨i, hi, rfl⟩ := List.mem_map.mp he
        have hlt : i < es.length := by
          have := List.all_eq_true.mp hv.1.1.2 i hi
          simpa using this
        left
        have : es.getD i ⟨0, 0⟩ = es[i] := by simp [List.getD_eq_getElem?_getD, hlt]
        rw [this]; exact List.getElem_mem _
    · simp at h

theorem cumsum_sorted : ∀ (cs : List Rat) (acc : Rat), (∀ c ∈ cs, 0 ≤ c) →
    Sorted (cumsum acc cs) ∧ ∀ v ∈ cumsum acc cs, acc ≤ v
  | [], _, _ => by simp [cumsum, Sorted]
  | c :: cs, acc, h => by
    have hc : 0 ≤ c := h c (by simp)
    obtain ⟨ih1, ih2⟩ := cumsum_sorted cs (acc + c) (fun x hx => h x (by simp [hx]))
    simp only [cumsum]
    refine ⟨List.pairwise_cons.mpr ⟨fun v hv => by have := ih2 v hv; linarith, ih1⟩, ?_⟩
    intro v hv
    rcases List.mem_cons.mp hv with rfl | hv'
    · linarith
    · have := ih2 v hv'; linarith

theorem length_cumsum (cs : List Rat) (acc : Rat) : (cumsum acc cs).length = cs.length := by
  induction cs generalizing acc with
  | nil => rfl
  | cons c cs ih => simp [cumsum, ih]

/-- **The executable model meets the hypotheses of the three theorems**: for any validated sort
    permutation, non-negative weights (sorted `q` vectors) and at least one merged entry, the output of
    `mergePercentilesWith` is `select` applied to sorted `vals`, sorted `cq` of equal positive length. -/
theorem mergePercentilesWith_spec (order : Option (List Nat)) (m : Method) (finalq : List Rat)
    (inputs : List Input) (out : List Rat)
    (hnonneg : ∀ e ∈ (inputs.filter (fun i => i.N != 0)).flatMap entriesOf, 0 ≤ e.cnt)
    (hsome : (inputs.filter (fun i => i.N != 0)).flatMap entriesOf ≠ [])
    (h : mergePercentilesWith order m finalq inputs = some (some out)) :
    ∃ (vals cq : List Rat) (total : Rat), Sorted vals ∧ Sorted cq ∧ vals.length = cq.length ∧ 0 < vals.length ∧
      0 ≤ total ∧
      (∀ v ∈ vals, ∃ e ∈ (inputs.filter (fun i => i.N != 0)).flatMap entriesOf, e.val = v) ∧
      out = finalq.map fun fq => select m vals cq (fq * total) := by
  unfold mergePercentilesWith at h
  dsimp only at h
  split at h
  · simp at h
  · split at h
    · simp at h
    · rename_i entries harr
      simp only [Option.some.injEq] at h
      obtain ⟨hsv, hmem, hlen⟩ := arrange_spec _ _ _ harr
      have hcnt : ∀ c ∈ entries.map (·.cnt), 0 ≤ c := by
        intro c hc
        obtain ⟨e, he, rfl⟩ := List.mem_map.mp hc
        rcases hmem e he with h1 | h1
        · exact hnonneg e h1
        · exact absurd h1 hsome
      refine ⟨entries.map (·.val), cumsum 0 (entries.map (·.cnt)), _, hsv, (cumsum_sorted _ 0 hcnt).1, ?_, ?_, ?_, ?_, h.symm⟩
      · rw [length_cumsum]; simp
      · rw [List.length_map, hlen]; exact List.length_pos_iff.mpr hsome
      · exact Nat.cast_nonneg _
      · intro v hv
        obtain ⟨e, he, rfl⟩ := List.mem_map.mp hv
        rcases hmem e he with h1 | h1
        · exact ⟨e, h1, rfl⟩
        · exact absurd h1 hsome

/-- **Every output of the executable model lies within the data**: it is at least one of the merged input values and
    at most one of them — hence between the smallest and the largest value handed to `merge_percentiles`
    (which are the data's own percentiles).  (The former statement `∃ lo hi, ∀ r ∈ out, lo ≤ r ∧ r ≤ hi` held for any
    finite list and said nothing.) -/
theorem mergePercentilesWith_within (order : Option (List Nat)) (m : Method) (finalq : List Rat)
    (inputs : List Input) (out : List Rat)
    (hnonneg : ∀ e ∈ (inputs.filter (fun i => i.N != 0)).flatMap entriesOf, 0 ≤ e.cnt)
    (hsome : (inputs.filter (fun i => i.N != 0)).flatMap entriesOf ≠ [])
    (h : mergePercentilesWith order m finalq inputs = some (some out)) :
    ∀ r ∈ out, (∃ e ∈ (inputs.filter (fun i => i.N != 0)).flatMap entriesOf, e.val ≤ r) ∧
               (∃ e ∈ (inputs.filter (fun i => i.N != 0)).flatMap entriesOf, r ≤ e.val) := by
  obtain ⟨vals, cq, total, hv, hc, hlen, hne, _, hmem, rfl⟩ :=
    mergePercentilesWith_spec order m finalq inputs out hnonneg hsome h
  intro r hr
  obtain ⟨fq, _, rfl⟩ := List.mem_map.mp hr
  have W := merge_within_minmax hv hc hlen hne m (fq * total)
  obtain ⟨e₁, he₁, hv₁⟩ := hmem _ (first_is_min hv hc hlen hne).1
  obtain ⟨e₂, he₂, hv₂⟩ := hmem _ (last_is_max hv hc hlen hne).1
  exact ⟨⟨e₁, he₁, by rw [hv₁]; exact W.1⟩, ⟨e₂, he₂, by rw [hv₂]; exact W.2⟩⟩

/-- in particular every output is bounded by any lower / upper bound of the merged input values -/
theorem mergePercentilesWith_between (order : Option (List Nat)) (m : Method) (finalq : List Rat)
    (inputs : List Input) (out : List Rat) (lo hi : Rat)
    (hnonneg : ∀ e ∈ (inputs.filter (fun i => i.N != 0)).flatMap entriesOf, 0 ≤ e.cnt)
    (hsome : (inputs.filter (fun i => i.N != 0)).flatMap entriesOf ≠ [])
    (hb : ∀ e ∈ (inputs.filter (fun i => i.N != 0)).flatMap entriesOf, lo ≤ e.val ∧ e.val ≤ hi)
    (h : mergePercentilesWith order m finalq inputs = some (some out)) :
    ∀ r ∈ out, lo ≤ r ∧ r ≤ hi := by
  intro r hr
  obtain ⟨⟨e₁, he₁, h₁⟩, ⟨e₂, he₂, h₂⟩⟩ := mergePercentilesWith_within order m finalq inputs out hnonneg hsome h r hr
  exact ⟨le_trans (hb e₁ he₁).1 h₁, le_trans h₂ (hb e₂ he₂).2⟩

/-- **The executable model is monotone in q**: for a non-decreasing `finalq` the outputs are non-decreasing. -/
theorem mergePercentilesWith_monotone (order : Option (List Nat)) (m : Method) (finalq : List Rat)
    (inputs : List Input) (out : List Rat)
    (hnonneg : ∀ e ∈ (inputs.filter (fun i => i.N != 0)).flatMap entriesOf, 0 ≤ e.cnt)
    (hsome : (inputs.filter (fun i => i.N != 0)).flatMap entriesOf ≠ [])
    (hq : Sorted finalq)
    (h : mergePercentilesWith order m finalq inputs = some (some out)) : Sorted out := by
  obtain ⟨vals, cq, total, hv, hc, hlen, hne, htot, _, rfl⟩ :=
    mergePercentilesWith_spec order m finalq inputs out hnonneg hsome h
  unfold Sorted at hq ⊢
  rw [List.pairwise_map]
  exact hq.imp fun {a b} hab => merge_monotone_in_q hv hc hlen hne m (mul_le_mul_of_nonneg_right hab htot)

/-! ## Non-vacuity and the pre-fix witnesses -/

/-- non-vacuity of the executable corollaries: two inputs (one of them with N = 0, dropped), q = [0, 50, 100] -/
example : mergePercentilesWith none .linear [0, 1/2, 1] [⟨[0, 1/2, 1], [1, 2, 5], 4⟩, ⟨[0, 1], [7, 9], 0⟩, ⟨[0, 1/2, 1], [0, 2, 3], 2⟩]
    = some (some [0, 2, 5]) := by decide +kernel

/-- the hypotheses are satisfiable with ties and zero weights (DESIGN §6 #18 shape) -/
example : Sorted [0, 1, 1, 3] ∧ Sorted ([0, 0, 100, 300] : List Rat) := by
  constructor <;> simp [Sorted] <;> norm_num

/-- before the pin-the-ends fix `core .higher` at weight 0 picked a later zero-weight entry: not the minimum -/
theorem higher_unpinned_refuted : core .higher [0, 1, 1, 3] [0, 0, 100, 300] 0 ≠ nth [0, 1, 1, 3] 0 := by
  decide

/-- … and `np.interp` did the same for `linear` (DESIGN §6 #18) -/
theorem linear_unpinned_refuted : core .linear [0, 1, 1, 3] [0, 0, 100, 300] 0 ≠ nth [0, 1, 1, 3] 0 := by
  decide +kernel

/-- with the pins both give the minimum -/
example : select .higher [0, 1, 1, 3] [0, 0, 100, 300] 0 = 0 ∧ select .linear [0, 1, 1, 3] [0, 0, 100, 300] 0 = 0 := by
  decide +kernel

end Dask.C32
