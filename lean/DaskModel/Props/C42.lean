import DaskModel.Props.C43
/-!
# C42 — lazy DataFrame metadata matches computed results

Proved for the modelled expression classes (root, Projection list/scalar, Filter, Assign, Binop,
Invert, literals): `schema_commutes` — whenever the expression computes to an object `v`, the lazy
schema `metaOf` (kind of object: DataFrame / Series / scalar, column names and their order),
computed WITHOUT data, is exactly the schema of `v`; `schema_of_partitions` — every partition of a
blockwise expression has the schema of the whole (a partition is the same expression on a sub-frame
of the source); `optimizer_keeps_schema` — an optimizer step accepted by C43's checker keeps the schema.
dtypes, index name/dtype are outside the theorems (pandas type inference): checked by oracle on
random programs (C36–C40, C46 pipelines), each partition separately.
-/
namespace Dask.C42
open Dask.RelExpr

/-- **C42 (structure)**: the lazy schema equals the schema of the computed object. -/
theorem schema_commutes (s : Src) : ∀ (e : E) (v : Val), den s e = some v → metaOf s.cols e = some v.schema := by
  intro e
  induction e with
  | src => intro v h; simp only [den, Option.some.injEq] at h; subst h; rfl
  | lit k => intro v h; simp only [den, Option.some.injEq] at h; subst h; rfl
  | proj cs f ih =>
    intro v h
    simp only [den] at h
    cases hf : den s f with
    | none => simp [hf] at h
    | some vf =>
      cases vf with
      | frame cols rows =>
        simp only [hf] at h
        split at h
        · rename_i hc
          simp only [Option.some.injEq] at h; subst h
          simp [metaOf, ih _ hf, Val.schema, hc]
        · cases h
      | series _ => simp [hf] at h
      | scalar _ => simp [hf] at h
  | col f n ih =>
    intro v h
    simp only [den] at h
    cases hf : den s f with
    | none => simp [hf] at h
    | some vf =>
      cases vf with
      | frame cols rows =>
        simp only [hf] at h
        split at h
        · rename_i hc
          simp only [Option.some.injEq] at h; subst h
          simp [metaOf, ih _ hf, Val.schema, hc]
        · cases h
      | series _ => simp [hf] at h
      | scalar _ => simp [hf] at h
  | filter f p ihf ihp =>
    intro v h
    simp only [den] at h
    cases hf : den s f with
    | none => simp [hf] at h
    | some vf =>
      cases hp : den s p with
      | none => cases vf <;> simp [hf, hp] at h
      | some vp =>
        cases vf <;> cases vp <;> simp only [hf, hp] at h <;> try (cases h; done)
        · split at h
          · simp only [Option.some.injEq] at h; subst h
            simp [metaOf, ihf _ hf, ihp _ hp, Val.schema]
          · cases h
        · split at h
          · simp only [Option.some.injEq] at h; subst h
            simp [metaOf, ihf _ hf, ihp _ hp, Val.schema]
          · cases h
  | assign f n x ihf ihx =>
    intro v h
    simp only [den] at h
    cases hf : den s f with
    | none => simp [hf] at h
    | some vf =>
      cases hx : den s x with
      | none => cases vf <;> simp [hf, hx] at h
      | some vx =>
        cases vf with
        | frame cols rows =>
          cases vx with
          | frame _ _ => simp [hf, hx] at h
          | series vs =>
            simp only [hf, hx] at h
            split at h
            · cases hci : colIdx cols n with
              | none =>
                simp only [hci, Option.some.injEq] at h; subst h
                simp [metaOf, ihf _ hf, ihx _ hx, Val.schema, hci]
              | some j =>
                simp only [hci, Option.some.injEq] at h; subst h
                simp [metaOf, ihf _ hf, ihx _ hx, Val.schema, hci]
            · cases h
          | scalar c =>
            simp only [hf, hx] at h
            cases hci : colIdx cols n with
            | none =>
              simp only [hci, Option.some.injEq] at h; subst h
              simp [metaOf, ihf _ hf, ihx _ hx, Val.schema, hci]
            | some j =>
              simp only [hci, Option.some.injEq] at h; subst h
              simp [metaOf, ihf _ hf, ihx _ hx, Val.schema, hci]
        | series _ => cases vx <;> simp [hf, hx] at h
        | scalar _ => cases vx <;> simp [hf, hx] at h
  | bin op a b iha ihb =>
    intro v h
    simp only [den] at h
    cases ha : den s a with
    | none => simp [ha] at h
    | some va =>
      cases hb : den s b with
      | none => cases va <;> simp [ha, hb] at h
      | some vb =>
        cases va <;> cases vb <;> simp only [ha, hb] at h <;> try (cases h; done)
        · split at h
          · simp only [Option.some.injEq] at h; subst h
            simp [metaOf, iha _ ha, ihb _ hb, Val.schema]
          · cases h
        · simp only [Option.some.injEq] at h; subst h
          simp [metaOf, iha _ ha, ihb _ hb, Val.schema]
        · simp only [Option.some.injEq] at h; subst h
          simp [metaOf, iha _ ha, ihb _ hb, Val.schema]
        · simp only [Option.some.injEq] at h; subst h
          simp [metaOf, iha _ ha, ihb _ hb, Val.schema]
  | not a ih =>
    intro v h
    simp only [den] at h
    cases ha : den s a with
    | none => simp [ha] at h
    | some va =>
      cases va <;> simp only [ha] at h <;> try (cases h; done)
      · simp only [Option.some.injEq] at h; subst h
        simp [metaOf, ih _ ha, Val.schema]
      · simp only [Option.some.injEq] at h; subst h
        simp [metaOf, ih _ ha, Val.schema]

/-- the lazy schema does not depend on the data: every partition (= the same expression over any
    sub-frame with the same columns) that computes has the schema of the whole -/
theorem schema_of_partitions (cols : List String) (whole part : List (List Cell)) (e : E) (v w : Val)
    (hv : den ⟨cols, whole⟩ e = some v) (hw : den ⟨cols, part⟩ e = some w) : w.schema = v.schema := by
  have h1 := schema_commutes ⟨cols, whole⟩ e v hv
  have h2 := schema_commutes ⟨cols, part⟩ e w hw
  simp only at h1 h2
  rw [h1] at h2
  exact (Option.some.inj h2).symm

/-- an optimizer step accepted by the C43 checker keeps the schema of the result -/
theorem optimizer_keeps_schema (s : Src) (hwf : C43.WF s) (a b : E) (v : Val)
    (h : checkStep s.cols a b = true) (hv : den s a = some v) : metaOf s.cols b = some v.schema := by
  have := C43.checkStep_sound s hwf a b h
  rw [this] at hv
  exact schema_commutes s b v hv

/-- non-vacuity -/
example : metaOf ["a", "b"] (.proj ["z", "a"] (.assign (.filter .src (.bin .gt (.col .src "a") (.lit 1))) "z" (.lit 3)))
    = some (.frame ["z", "a"]) := by decide

end Dask.C42
