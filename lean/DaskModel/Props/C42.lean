import DaskModel.Props.C43
import DaskModel.Model.DTypes
/-!
# C42 — lazy DataFrame metadata matches computed results

Proved for the modelled expression classes (root, Projection list/scalar, Filter, Assign, Binop,
Invert, literals): `schema_commutes` — whenever the expression computes to an object `v`, the lazy
schema `metaOf` (kind of object: DataFrame / Series / scalar, column names and their order),
computed WITHOUT data, is exactly the schema of `v`; `schema_of_partitions` — every partition of a
blockwise expression has the schema of the whole (a partition is the same expression on a sub-frame
of the source); `optimizer_keeps_schema` — an optimizer step accepted by C43's checker keeps the schema.
Review round — dtypes of the arithmetic / comparison / boolean subset: `Model/DTypes.lean` holds pandas' result-dtype table
(`binDType`, `notDType`: int64 / float64 / bool operands, Python int operands typed int64) and `dtypeOf`, the typed lazy
schema composed along an expression the way `._meta` is; the TABLE is checked against pandas every run on empty and on
non-empty operands (value independence is what makes meta-on-empty-frames right), `dtypeOf` against the real
`._meta.dtypes` of the logical and the optimised expression. Proved: `dtypeOf_erase` (the typed schema refines `metaOf`),
`typed_schema_commutes` (it has the structure of the computed object), `cmp_is_bool`.
Other dtypes (str, datetime, categorical, nullable), index name/dtype are outside the theorems (pandas type inference):
checked by oracle on random programs (C36–C40, C46 pipelines), each partition separately.
-/
namespace Dask.C42
open Dask.RelExpr

/-- **C42 (structure)**: the lazy schema equals the schema of the computed object. -/
theorem schema_commutes (s : Src) : ∀ (e : E) (v : Val), den s e = some v → metaOf s.cols e = some v.schema := by
  intro e
  induction e with
  | src => intro v h; simp only [den, Option.some.injEq] at h; subst h; rfl
  | lit k => intro v h; simp only [den, Option.some.injEq] at h; subst h; rfl
  | proj cs f ih =>
    intro v h
    simp only [den] at h
    cases hf : den s f with
    | none => simp [hf] at h
    | some vf =>
      cases vf with
      | frame cols rows =>
        simp only [hf] at h
        split at h
        · rename_i hc
          simp only [Option.some.injEq] at h; subst h
          simp [metaOf, ih _ hf, Val.schema, hc]
        · cases h
      | series _ => simp [hf] at h
      | scalar _ => simp [hf] at h
  | col f n ih =>
    intro v h
    simp only [den] at h
    cases hf : den s f with
    | none => simp [hf] at h
    | some vf =>
      cases vf with
      | frame cols rows =>
        simp only [hf] at h
        split at h
        · rename_i hc
          simp only [Option.some.injEq] at h; subst h
          simp [metaOf, ih _ hf, Val.schema, hc]
        · cases h
      | series _ => simp [hf] at h
      | scalar _ => simp [hf] at h
  | filter f p ihf ihp =>
    intro v h
    simp only [den] at h
    cases hf : den s f with
    | none => simp [hf] at h
    | some vf =>
      cases hp : den s p with
      | none => cases vf <;> simp [hf, hp] at h
      | some vp =>
        cases vf <;> cases vp <;> simp only [hf, hp] at h <;> try (cases h; done)
        · split at h
          · simp only [Option.some.injEq] at h; subst h
            simp [metaOf, ihf _ hf, ihp _ hp, Val.schema]
          · cases h
        · split at h
          · simp only [Option.some.injEq] at h; subst h
            simp [metaOf, ihf _ hf, ihp _ hp, Val.schema]
          · cases h
  | assign f n x ihf ihx =>
    intro v h
    simp only [den] at h
    cases hf : den s f with
    | none => simp [hf] at h
    | some vf =>
      cases hx : den s x with
      | none => cases vf <;> simp [hf, hx] at h
      | some vx =>
        cases vf with
        | frame cols rows =>
          cases vx with
          | frame _ _ => simp [hf, hx] at h
          | series vs =>
            simp only [hf, hx] at h
            split at h
            · cases hci : colIdx cols n with
              | none =>
                simp only [hci, Option.some.injEq] at h; subst h
                simp [metaOf, ihf _ hf, ihx _ hx, Val.schema, hci]
              | some j =>
                simp only [hci, Option.some.injEq] at h; subst h
                simp [metaOf, ihf _ hf, ihx _ hx, Val.schema, hci]
            · cases h
          | scalar c =>
            simp only [hf, hx] at h
            cases hci : colIdx cols n with
            | none =>
              simp only [hci, Option.some.injEq] at h; subst h
              simp [metaOf, ihf _ hf, ihx _ hx, Val.schema, hci]
            | some j =>
              simp only [hci, Option.some.injEq] at h; subst h
              simp [metaOf, ihf _ hf, ihx _ hx, Val.schema, hci]
        | series _ => cases vx <;> simp [hf, hx] at h
        | scalar _ => cases vx <;> simp [hf, hx] at h
  | bin op a b iha ihb =>
    intro v h
    simp only [den] at h
    cases ha : den s a with
    | none => simp [ha] at h
    | some va =>
      cases hb : den s b with
      | none => cases va <;> simp [ha, hb] at h
      | some vb =>
        cases va <;> cases vb <;> simp only [ha, hb] at h <;> try (cases h; done)
        · split at h
          · simp only [Option.some.injEq] at h; subst h
            simp [metaOf, iha _ ha, ihb _ hb, Val.schema]
          · cases h
        · simp only [Option.some.injEq] at h; subst h
          simp [metaOf, iha _ ha, ihb _ hb, Val.schema]
        · simp only [Option.some.injEq] at h; subst h
          simp [metaOf, iha _ ha, ihb _ hb, Val.schema]
        · simp only [Option.some.injEq] at h; subst h
          simp [metaOf, iha _ ha, ihb _ hb, Val.schema]
  | not a ih =>
    intro v h
    simp only [den] at h
    cases ha : den s a with
    | none => simp [ha] at h
    | some va =>
      cases va <;> simp only [ha] at h <;> try (cases h; done)
      · simp only [Option.some.injEq] at h; subst h
        simp [metaOf, ih _ ha, Val.schema]
      · simp only [Option.some.injEq] at h; subst h
        simp [metaOf, ih _ ha, Val.schema]

/-- the lazy schema does not depend on the data: every partition (= the same expression over any
    sub-frame with the same columns) that computes has the schema of the whole -/
theorem schema_of_partitions (cols : List String) (whole part : List (List Cell)) (e : E) (v w : Val)
    (hv : den ⟨cols, whole⟩ e = some v) (hw : den ⟨cols, part⟩ e = some w) : w.schema = v.schema := by
  have h1 := schema_commutes ⟨cols, whole⟩ e v hv
  have h2 := schema_commutes ⟨cols, part⟩ e w hw
  simp only at h1 h2
  rw [h1] at h2
  exact (Option.some.inj h2).symm

/-- an optimizer step accepted by the C43 checker keeps the schema of the result -/
theorem optimizer_keeps_schema (s : Src) (hwf : C43.WF s) (a b : E) (v : Val)
    (h : checkStep s.cols a b = true) (hv : den s a = some v) : metaOf s.cols b = some v.schema := by
  have := C43.checkStep_sound s hwf a b h
  rw [this] at hv
  exact schema_commutes s b v hv

/-- non-vacuity -/
example : metaOf ["a", "b"] (.proj ["z", "a"] (.assign (.filter .src (.bin .gt (.col .src "a") (.lit 1))) "z" (.lit 3)))
    = some (.frame ["z", "a"]) := by decide

/-! ## dtypes of the arithmetic / comparison / boolean subset (review round) -/

theorem setDT_erase (cols : List (String × DT)) (n : String) (d : DT) :
    (setDT cols n d).map (·.1) = (if (colIdx (cols.map (·.1)) n).isSome then cols.map (·.1) else cols.map (·.1) ++ [n]) := by
  unfold setDT
  split
  · simp only [List.map_map]
    apply List.map_congr_left
    intro kv _
    simp only [Function.comp]
    by_cases hk : (kv.1 == n) = true
    · simp [hk]; exact (by simpa using hk : kv.1 = n).symm
    · simp [hk]
  · simp

/-- **the typed lazy schema refines the lazy schema**: wherever dtypes can be assigned (the well-typed programs of the
    fragment), kind of object and column names/order are those of `metaOf` — hence, by `schema_commutes`, those of the
    computed object -/
theorem dtypeOf_erase (src : List (String × DT)) : ∀ (e : E) (t : TSchema), dtypeOf src e = some t →
    metaOf (src.map (·.1)) e = some t.erase := by
  intro e
  induction e with
  | src => intro t h; simp only [dtypeOf, Option.some.injEq] at h; subst h; rfl
  | lit k => intro t h; simp only [dtypeOf, Option.some.injEq] at h; subst h; rfl
  | proj cs f ih =>
    intro t h
    simp only [dtypeOf] at h
    cases hf : dtypeOf src f with
    | none => simp [hf] at h
    | some tf =>
      cases tf with
      | frame cols =>
        simp only [hf] at h
        split at h
        · rename_i hc
          simp only [Option.some.injEq] at h; subst h
          have := ih _ hf
          simp only [TSchema.erase] at this
          simp [metaOf, this, hc, TSchema.erase, List.map_map, Function.comp_def]
        · cases h
      | series _ => simp [hf] at h
      | scalar _ => simp [hf] at h
  | col f n ih =>
    intro t h
    simp only [dtypeOf] at h
    cases hf : dtypeOf src f with
    | none => simp [hf] at h
    | some tf =>
      cases tf with
      | frame cols =>
        simp only [hf] at h
        split at h
        · rename_i hc
          cases hl : lookupDT cols n with
          | none => simp [hl] at h
          | some d =>
            simp only [hl, Option.map_some, Option.some.injEq] at h; subst h
            have := ih _ hf
            simp only [TSchema.erase] at this
            simp [metaOf, this, hc, TSchema.erase]
        · cases h
      | series _ => simp [hf] at h
      | scalar _ => simp [hf] at h
  | filter f p ihf ihp =>
    intro t h
    simp only [dtypeOf] at h
    cases hf : dtypeOf src f with
    | none => simp [hf] at h
    | some tf =>
      cases hp : dtypeOf src p with
      | none => cases tf <;> simp [hf, hp] at h
      | some tp =>
        have h1 := ihf _ hf
        have h2 := ihp _ hp
        cases tf <;> cases tp <;> simp only [hf, hp] at h <;> try (cases h; done)
        all_goals
          rename_i d
          cases d <;> simp only [Option.some.injEq] at h <;> try (cases h; done)
          subst h
          simp only [TSchema.erase] at h1 h2
          simp [metaOf, h1, h2, TSchema.erase]
  | assign f n v ihf ihv =>
    intro t h
    simp only [dtypeOf] at h
    cases hf : dtypeOf src f with
    | none => simp [hf] at h
    | some tf =>
      cases hv : dtypeOf src v with
      | none => cases tf <;> simp [hf, hv] at h
      | some tv =>
        have h1 := ihf _ hf
        have h2 := ihv _ hv
        cases tf <;> cases tv <;> simp only [hf, hv] at h <;> try (cases h; done)
        all_goals
          simp only [Option.some.injEq] at h; subst h
          simp only [TSchema.erase] at h1 h2
          simp [metaOf, h1, h2, TSchema.erase, setDT_erase]
  | bin op a b iha ihb =>
    intro t h
    simp only [dtypeOf] at h
    cases ha : dtypeOf src a with
    | none => simp [ha] at h
    | some ta =>
      cases hb : dtypeOf src b with
      | none => cases ta <;> simp [ha, hb] at h
      | some tb =>
        have h1 := iha _ ha
        have h2 := ihb _ hb
        cases ta <;> cases tb <;> simp only [ha, hb] at h <;> try (cases h; done)
        all_goals
          rename_i x y
          cases hd : binDType op x y with
          | none => simp [hd] at h
          | some d =>
            simp only [hd, Option.map_some, Option.some.injEq] at h; subst h
            simp only [TSchema.erase] at h1 h2
            simp [metaOf, h1, h2, TSchema.erase]
  | not a ih =>
    intro t h
    simp only [dtypeOf] at h
    cases ha : dtypeOf src a with
    | none => simp [ha] at h
    | some ta =>
      have h1 := ih _ ha
      cases ta <;> simp only [ha] at h <;> try (cases h; done)
      all_goals
        rename_i x
        cases hd : notDType x with
        | none => simp [hd] at h
        | some d =>
          simp only [hd, Option.map_some, Option.some.injEq] at h; subst h
          simp only [TSchema.erase] at h1
          simp [metaOf, h1, TSchema.erase]

/-- the typed lazy schema has the structure of the computed object -/
theorem typed_schema_commutes (s : Src) (ts : List (String × DT)) (hts : ts.map (·.1) = s.cols) (e : E) (v : Val) (t : TSchema)
    (hv : den s e = some v) (ht : dtypeOf ts e = some t) : v.schema = t.erase := by
  have h1 := schema_commutes s e v hv
  have h2 := dtypeOf_erase ts e t ht
  rw [hts, h1] at h2
  exact Option.some.inj h2

/-- the comparison operators give `bool` whatever the operand dtypes; arithmetic with a float operand gives `float64` -/
theorem cmp_is_bool (op : BinOp) (h : op = .lt ∨ op = .le ∨ op = .gt ∨ op = .ge ∨ op = .eq ∨ op = .ne) (a b : DT) :
    binDType op a b = some .bool := by
  rcases h with h | h | h | h | h | h <;> subst h <;> cases a <;> cases b <;> rfl

example : dtypeOf [("a", .int64), ("b", .float64), ("g", .bool)]
    (.assign (.filter .src (.bin .and (.col .src "g") (.bin .gt (.col .src "a") (.lit 1)))) "z" (.bin .mul (.col .src "a") (.col .src "b")))
    = some (.frame [("a", .int64), ("b", .float64), ("g", .bool), ("z", .float64)]) := by decide
example : dtypeOf [("a", .int64), ("g", .bool)] (.bin .sub (.col .src "g") (.col .src "g")) = none := by decide

end Dask.C42
