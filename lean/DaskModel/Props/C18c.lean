import DaskModel.Props.C18b
import DaskModel.Lemmas.BytesDigits
import DaskModel.Lemmas.BytesCore
/-!
# C18 (continued) — `parse_bytes(format_bytes(n))` is within the printed precision of `n`

* `parse_format_roundtrip`  for every `n < 2^60` that falls into a band `k = 2^e` of `format_bytes`:
                            `parse_bytes(format_bytes(n)) = v` with `|v − n| ≤ k/200 + 321`
                            (half a unit of the second printed decimal, plus the binary64 roundings on the way:
                            `n → float`, the division, `"%.2f"`, `float("ddd.dd")`, the product, `int()`)
* `parse_format_plain`      below the first band (`n ≤ 921`, output `"<n> B"`) the round trip is exact.
-/
namespace Dask.C18
open Dask.Bytes Dask.PyStr
open Dask.Generated.ByteTables

theorem all_digit_no_space (l : List Char) (h : l.all isDigit = true) : l.filter (· ≠ ' ') = l := by
  apply List.filter_eq_self.mpr
  intro x hx
  have := List.all_eq_true.mp h x hx
  simp only [ne_eq, decide_not, Bool.not_eq_eq_eq_not, Bool.not_true, decide_eq_false_iff_not]
  intro e; subst e; simp [isDigit] at this

theorem no_space_filter (l : List Char) (h : ' ' ∉ l) : l.filter (· ≠ ' ') = l := by
  apply List.filter_eq_self.mpr
  intro x hx
  simp only [ne_eq, decide_not, Bool.not_eq_eq_eq_not, Bool.not_true, decide_eq_false_iff_not]
  intro e; subst e; exact h hx

/-- reading back `"<q>.<rr> <unit>"` -/
theorem parse_of_fixed (q r : Nat) (hr : r < 100) (U : List Char) (hU : U.all isAlpha = true) (hsp : ' ' ∉ U)
    (mult : Nat) (hlook : lookup byteSizes (String.ofList (lowerL U)) = some mult) :
    parseBytes (String.ofList (natDigits q ++ ('.' :: padDigits 2 r) ++ ' ' :: U)) =
      .ok ((mulR (ratToDy (q * 100 + r) 100) (natToDy mult)).floor : Nat) := by
  obtain ⟨hqd, _, hqne⟩ := natDigits_spec q
  obtain ⟨hpd, _⟩ := padDigits_spec 2 r
  have hpad : padDigits 2 r = [Char.ofNat (48 + r / 10 % 10), Char.ofNat (48 + r % 10)] := by
    simp [padDigits]
  have hd2 : isAlpha (Char.ofNat (48 + r % 10)) = false := dchar_not_alpha r
  -- the string with the space removed
  have hfil : (natDigits q ++ ('.' :: padDigits 2 r) ++ ' ' :: U).filter (· ≠ ' ') =
      natDigits q ++ ('.' :: padDigits 2 r) ++ U := by
    simp only [List.filter_append, List.filter_cons, all_digit_no_space _ hqd, all_digit_no_space _ hpd,
      no_space_filter _ hsp]
    simp
  have hany : (natDigits q ++ ('.' :: padDigits 2 r) ++ U).any isDigit = true := by
    cases hq : natDigits q with
    | nil => exact absurd hq hqne
    | cons a b =>
      rw [hq] at hqd
      simp only [List.all_cons, Bool.and_eq_true] at hqd
      simp [hqd.1]
  have hsplit : splitUnit (natDigits q ++ ('.' :: padDigits 2 r) ++ U) = (natDigits q ++ '.' :: padDigits 2 r, U) := by
    have := splitUnit_append (natDigits q ++ ['.', Char.ofNat (48 + r / 10 % 10)]) U (Char.ofNat (48 + r % 10)) hU hd2
    simpa [hpad, List.append_assoc] using this
  unfold parseBytes
  simp only [String.toList_ofList, hfil, hany, if_true, hsplit, parseLit_fixed2 q r hr, hlook]
  simp [Lit.toDy]

/-- the rendering of a band -/
theorem format_band (n e : Nat) (pre : String) (hband : bandOf n = some (pre, 2 ^ e)) :
    formatBytesL (Int.ofNat n) =
      natDigits (cents n (2 ^ e) / 100) ++ ('.' :: padDigits 2 (cents n (2 ^ e) % 100)) ++ ' ' :: (pre.toList ++ formatUnit.toList) := by
  simp only [formatBytesL, hband, fixedDigits, decimals_eq]
  simp

/-- `n` is at least half the band's `k` -/
theorem band_lower (n e : Nat) (he : e = 10 ∨ e = 20 ∨ e = 30 ∨ e = 40 ∨ e = 50) (hin : inBand n (2 ^ e) = true) :
    2 ^ e ≤ 2 * n := by
  rw [inBand_pow2 n e he] at hin
  simp only [decide_eq_true_eq] at hin
  have hD : 2 ^ 52 ≤ D := by decide
  have hpow : 2 ^ (53 - e) * 2 ^ e = 2 ^ 53 := by rw [← Nat.pow_add]; congr 1; omega
  -- n * 2^(53-e) ≥ 2^52  ⇒  2n * 2^(53-e) ≥ 2^53 = 2^e * 2^(53-e)
  have h1 : 2 ^ e * 2 ^ (53 - e) ≤ 2 * n * 2 ^ (53 - e) := by
    have : 2 ^ e * 2 ^ (53 - e) = 2 ^ 53 := by rw [Nat.mul_comm]; exact hpow
    rw [this]
    have : (2 : Nat) ^ 53 = 2 * 2 ^ 52 := by rfl
    rw [this, Nat.mul_assoc]
    omega
  exact Nat.le_of_mul_le_mul_right h1 (Nat.pos_of_ne_zero (by simp))

theorem bandOf_inBand (n e : Nat) (pre : String) (hband : bandOf n = some (pre, 2 ^ e)) :
    (e = 10 ∨ e = 20 ∨ e = 30 ∨ e = 40 ∨ e = 50) ∧ inBand n (2 ^ e) = true ∧
    pre.toList.all isAlpha = true ∧ ' ' ∉ pre.toList ∧
    lookup byteSizes (String.ofList (lowerL (pre.toList ++ formatUnit.toList))) = some (2 ^ e) := by
  unfold bandOf at hband
  rw [prefixes_eq] at hband
  simp only [bandIn] at hband
  have hinj : ∀ a b : Nat, (2 : Nat) ^ a = 2 ^ b → a = b := fun a b h => Nat.pow_right_injective (Nat.le_refl 2) h
  split at hband
  · rename_i h
    simp only [Option.some.injEq, Prod.mk.injEq] at hband
    obtain ⟨rfl, hk⟩ := hband
    have := hinj _ _ hk; subst this
    exact ⟨by omega, h, by decide, by decide, by decide⟩
  · split at hband
    · rename_i h
      simp only [Option.some.injEq, Prod.mk.injEq] at hband
      obtain ⟨rfl, hk⟩ := hband
      have := hinj _ _ hk; subst this
      exact ⟨by omega, h, by decide, by decide, by decide⟩
    · split at hband
      · rename_i h
        simp only [Option.some.injEq, Prod.mk.injEq] at hband
        obtain ⟨rfl, hk⟩ := hband
        have := hinj _ _ hk; subst this
        exact ⟨by omega, h, by decide, by decide, by decide⟩
      · split at hband
        · rename_i h
          simp only [Option.some.injEq, Prod.mk.injEq] at hband
          obtain ⟨rfl, hk⟩ := hband
          have := hinj _ _ hk; subst this
          exact ⟨by omega, h, by decide, by decide, by decide⟩
        · split at hband
          · rename_i h
            simp only [Option.some.injEq, Prod.mk.injEq] at hband
            obtain ⟨rfl, hk⟩ := hband
            have := hinj _ _ hk; subst this
            exact ⟨by omega, h, by decide, by decide, by decide⟩
          · cases hband

/-- **parse_format_roundtrip.** -/
theorem parse_format_roundtrip (n e : Nat) (pre : String) (hn : n < 2 ^ 60) (hband : bandOf n = some (pre, 2 ^ e)) :
    ∃ v : Nat, parseBytes (formatBytes (n : Int)) = .ok v ∧
      200 * v ≤ 200 * n + 2 ^ e + 64000 ∧ 200 * n ≤ 200 * v + 2 ^ e + 64200 := by
  obtain ⟨he, hin, hpa, hps, hlook⟩ := bandOf_inBand n e pre hband
  have he50 : e ≤ 50 := by omega
  have he10 : 10 ≤ e := by omega
  -- the printed cents
  have hc := cents_pow2 n e he50 (by omega)
  generalize hcdef : cents n (2 ^ e) = c at hc
  have hKpos : 0 < (2 : Nat) ^ e := Nat.pos_of_ne_zero (by simp)
  obtain ⟨h1a, h1b⟩ := rn53_near n hn
  generalize hR : rn53 n = R at *
  obtain ⟨h2a, h2b⟩ := rheDiv_near (R * 100) (2 ^ e) hKpos
  rw [← hc] at h2a h2b
  have hlow := band_lower n e he hin
  have hK10 : 2 ^ 10 ≤ 2 ^ e := Nat.pow_le_pow_right (by omega) he10
  have hK50 : 2 ^ e ≤ 2 ^ 50 := Nat.pow_le_pow_right (by omega) he50
  -- A = 2^(60-e), A * K = 2^60
  generalize hA : 2 ^ (60 - e) = A
  have hAK : A * 2 ^ e = 2 ^ 60 := by rw [← hA, ← Nat.pow_add]; congr 1; omega
  -- c is positive and not huge
  have hcpos : 0 < c := by
    rcases Nat.eq_zero_or_pos c with h0 | h
    · exfalso; subst h0
      simp only [Nat.zero_mul, Nat.mul_zero, Nat.zero_add] at h2b
      omega
    · exact h
  have hcK : c * 2 ^ e ≤ (100 * A + 8) * 2 ^ e := by
    have : (100 * A + 8) * 2 ^ e = 100 * (A * 2 ^ e) + 8 * 2 ^ e := by
      rw [Nat.add_mul, Nat.mul_assoc]
    rw [this, hAK]
    omega
  have hcle : c ≤ 100 * A + 8 := Nat.le_of_mul_le_mul_right hcK hKpos
  have hA10 : A ≤ 2 ^ 50 := by rw [← hA]; exact Nat.pow_le_pow_right (by omega) (by omega)
  have hcsmall : c < 100 * 2 ^ 52 := by omega
  -- float("ddd.dd")
  obtain ⟨m, s, hrat, hspos, h3a, h3b, hm52, hm53⟩ := ratToDy_spec c 100 hcpos (by omega) hcsmall
  have hXpos : 0 < (2 : Nat) ^ s := Nat.pos_of_ne_zero (by simp)
  generalize hX : (2 : Nat) ^ s = X at *
  -- the product and int()
  have hfloor := mulR_floor_pow2 m s e (by omega) hm53 (by omega)
  rw [hX] at hfloor
  generalize hB : m * 2 ^ e / X = B at hfloor
  have h4a : B * X ≤ m * 2 ^ e := by rw [← hB]; exact Nat.div_mul_le_self _ _
  have h4b : m * 2 ^ e < (B + 1) * X := by
    rw [← hB]
    have := Nat.lt_succ_iff.mpr (Nat.le_refl (m * 2 ^ e / X))
    exact (Nat.div_lt_iff_lt_mul hXpos).mp this
  -- K ≤ 512 X
  have h5 : 2 ^ e ≤ 512 * X := by
    by_contra hcon
    have hlt : 512 * X < 2 ^ e := by omega
    have hXA : 512 * X * A < 2 ^ e * A := Nat.mul_lt_mul_of_pos_right hlt (by rw [← hA]; exact Nat.pos_of_ne_zero (by simp))
    have hcX : c * X ≤ (100 * A + 8) * X := Nat.mul_le_mul_right X hcle
    have hKA : 2 ^ e * A = 2 ^ 60 := by rw [Nat.mul_comm]; exact hAK
    nlinarith
  -- put the string together
  have hstr : formatBytes (n : Int) =
      String.ofList (natDigits (c / 100) ++ ('.' :: padDigits 2 (c % 100)) ++ ' ' :: (pre.toList ++ formatUnit.toList)) := by
    unfold formatBytes
    rw [show ((n : Int)) = Int.ofNat n from rfl, format_band n e pre hband, hcdef]
  have hUa : (pre.toList ++ formatUnit.toList).all isAlpha = true := by
    simp only [List.all_append, hpa, Bool.true_and]; decide
  have hUs : ' ' ∉ pre.toList ++ formatUnit.toList := by
    simp only [List.mem_append, not_or]; exact ⟨hps, by decide⟩
  have hparse := parse_of_fixed (c / 100) (c % 100) (Nat.mod_lt _ (by omega)) _ hUa hUs (2 ^ e) hlook
  have hcsum : c / 100 * 100 + c % 100 = c := by have := Nat.div_add_mod c 100; omega
  rw [hcsum, hrat, hfloor] at hparse
  refine ⟨B, by rw [hstr]; exact hparse, ?_⟩
  -- the error analysis (with 512 instead of 128 in the last hypothesis)
  have e3a : 2 * (m * 100) * 2 ^ e ≤ (2 * (c * X) + 100) * 2 ^ e := Nat.mul_le_mul_right _ h3a
  have e3b : 2 * (c * X) * 2 ^ e ≤ (2 * (m * 100) + 100) * 2 ^ e := Nat.mul_le_mul_right _ h3b
  have e2a : 2 * (c * 2 ^ e) * X ≤ (2 * (R * 100) + 2 ^ e) * X := Nat.mul_le_mul_right X (by omega)
  have e2b : 2 * (R * 100) * X ≤ (2 * (c * 2 ^ e) + 2 ^ e) * X := Nat.mul_le_mul_right X (by omega)
  generalize (2 : Nat) ^ e = K at *
  constructor
  · have key : 200 * B * X ≤ (200 * R + K + 51200) * X := by nlinarith
    have := Nat.le_of_mul_le_mul_right key hXpos
    omega
  · have key : 200 * R * X < (200 * B + K + 51400) * X := by nlinarith
    have := Nat.lt_of_mul_lt_mul_right key
    omega

/-- `float("<digits>")` -/
theorem parseLit_int (n : Nat) : parseLit (natDigits n) = some ⟨false, n, 1⟩ := by
  obtain ⟨hqd, hqv, hqne⟩ := natDigits_spec n
  obtain ⟨c0, rest0, hc0⟩ : ∃ c0 rest0, natDigits n = c0 :: rest0 := by
    cases h : natDigits n with
    | nil => exact absurd h hqne
    | cons a b => exact ⟨a, b, rfl⟩
  have hc0d : isDigit c0 = true := by
    rw [hc0] at hqd; simp only [List.all_cons, Bool.and_eq_true] at hqd; exact hqd.1
  have hns : c0 ≠ '-' ∧ c0 ≠ '+' := by
    constructor <;> intro e <;> subst e <;> simp [isDigit] at hc0d
  have hsign : stripSign (c0 :: rest0) = (false, c0 :: rest0) := by
    unfold stripSign
    split
    · rename_i h; simp only [List.cons.injEq] at h; exact absurd h.1 hns.1
    · rename_i h; simp only [List.cons.injEq] at h; exact absurd h.1 hns.2
    · rfl
  have hsplit := takeWhile_all isDigit (natDigits n) [] hqd (by intro x hx; simp at hx)
  simp only [List.append_nil] at hsplit
  rw [hc0] at hsplit hqv
  unfold parseLit
  rw [hc0]
  simp only [hsign, hsplit.1, hsplit.2, splitFrac]
  simp [hqv]

/-- **parse_format_plain.** Below the first band the round trip is exact: `parse_bytes(format_bytes(n)) = n`. -/
theorem parse_format_plain (n : Nat) (hband : bandOf n = none) (hn : n < 2 ^ 52) :
    parseBytes (formatBytes (n : Int)) = .ok n := by
  obtain ⟨hqd, _, hqne⟩ := natDigits_spec n
  have hfmt : formatBytesL (Int.ofNat n) = natDigits n ++ formatPlainSuffix.toList := by
    simp only [formatBytesL, hband]
  have hsuf : formatPlainSuffix.toList = [' ', 'B'] := by decide
  -- the last character of the number is a digit
  obtain ⟨ini, lastc, hlast⟩ : ∃ ini lastc, natDigits n = ini ++ [lastc] := by
    refine ⟨(natDigits n).dropLast, (natDigits n).getLast hqne, ?_⟩
    exact (List.dropLast_concat_getLast hqne).symm
  have hlastd : isDigit lastc = true := by
    have := List.all_eq_true.mp hqd lastc (by rw [hlast]; simp)
    exact this
  have hlasta : isAlpha lastc = false := by
    cases ha : isAlpha lastc with
    | false => rfl
    | true =>
      exfalso
      revert hlastd ha
      simp only [isDigit, isAlpha, Bool.and_eq_true, Bool.or_eq_true, decide_eq_true_eq]
      intro hd ha
      have h1 := hd.1; have h2 := hd.2
      rcases ha with ⟨h3, h4⟩ | ⟨h3, h4⟩
      · have : ('9' : Char) < 'a' := by decide
        exact absurd (Nat.lt_of_lt_of_le this h3) (Nat.not_lt.mpr h2)
      · have : ('9' : Char) < 'A' := by decide
        exact absurd (Nat.lt_of_lt_of_le this h3) (Nat.not_lt.mpr h2)
  have hfil : (natDigits n ++ [' ', 'B']).filter (· ≠ ' ') = natDigits n ++ ['B'] := by
    simp only [List.filter_append, all_digit_no_space _ hqd]
    simp
  have hany : (natDigits n ++ ['B']).any isDigit = true := by
    rw [hlast]; simp [hlastd]
  have hsplit : splitUnit (natDigits n ++ ['B']) = (natDigits n, ['B']) := by
    have := splitUnit_append ini ['B'] lastc (by decide) hlasta
    rw [hlast]
    simpa [List.append_assoc] using this
  have hlook : lookup byteSizes (String.ofList (lowerL ['B'])) = some 1 := by decide
  unfold formatBytes parseBytes
  rw [show ((n : Int)) = Int.ofNat n from rfl, hfmt, hsuf]
  simp only [String.toList_ofList, hfil, hany, if_true, hsplit, parseLit_int n, hlook]
  -- the arithmetic: float(n) * 1 is n
  by_cases h0 : n = 0
  · subst h0; decide
  · obtain ⟨m, s, hrat, _, h3a, h3b, hm52, hm53⟩ := ratToDy_spec n 1 (by omega) (by omega) (by omega)
    have hm : m = n * 2 ^ s := by omega
    have hfl := mulR_floor_pow2 m s 0 (by omega) hm53 (by omega)
    simp only [Lit.toDy, hrat]
    have h1 : natToDy 1 = natToDy (2 ^ 0) := rfl
    rw [h1, hfl, hm]
    simp [Nat.mul_div_cancel _ (Nat.pos_of_ne_zero (by simp : (2 : Nat) ^ s ≠ 0))]

/-- non-vacuity: `format_bytes(1234567890000) = '1.12 TiB'`, read back as 1231453023109 (off by 0.25 %) -/
example : bandOf 1234567890000 = some ("Ti", 2 ^ 40) ∧ parseBytes (formatBytes 1234567890000) = .ok 1231453023109 := by
  decide

end Dask.C18
