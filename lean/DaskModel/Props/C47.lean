import DaskModel.Model.Csv
import DaskModel.Props.C50
import DaskModel.Lemmas.TextSeek
/-! # C47 — DataFrame file round trips preserve data (CSV half; theorems)

The parquet half of the statement cannot be decided in this sandbox (no pyarrow). CSV: the block model of
`Model/Csv.lean` sits on the `read_bytes` model of C50 (`TextBlocks`, exact IEEE offsets). Quoting is not
modelled: the theorems are about *lines*; they apply to files in which no field contains the line terminator. -/
namespace Dask.C47
open Dask.Csv Dask.TextBlocks

theorem NL_ne : NL ≠ [] := by simp [NL]
theorem NL_bf : BorderFree NL := by unfold BorderFree NL; decide

/-- rows parsed from a non-first block: exactly the block's own lines (the prepended header is the one
    line that is dropped) -/
theorem blockRows_nonfirst (header block : List Nat) (hh1 : lines NL header = [header]) (hh2 : NL <:+ header) :
    blockRows header false block = some (lines NL block) := by
  unfold blockRows blockText
  simp only [Bool.false_eq_true, if_false]
  rw [C50.decode_eq_lines NL _ NL_ne, lines_append NL_ne NL_bf header block (Or.inr (Or.inr hh2)), hh1]
  rfl

theorem blockRows_first (header block : List Nat) :
    blockRows header true block = some ((lines NL block).drop 1) := by
  unfold blockRows blockText
  simp only [if_true]
  rw [C50.decode_eq_lines NL _ NL_ne]
  rfl

theorem rowsOfBlocks_nonfirst (header : List Nat) (hh1 : lines NL header = [header]) (hh2 : NL <:+ header) :
    ∀ blocks : List (List Nat), rowsOfBlocks header false blocks = some (blocks.map (lines NL))
  | [] => rfl
  | b :: bs => by
    simp only [rowsOfBlocks, blockRows_nonfirst header b hh1 hh2, rowsOfBlocks_nonfirst header hh1 hh2 bs,
      Option.bind_eq_bind, Option.bind_some, Option.pure_def, List.map_cons]

/-- the lines of all blocks, concatenated, are the lines of the file (from C50, IEEE offsets) -/
theorem blocks_lines (data : List Nat) (b : Nat) (hb : 0 < b) (hsz : data.length < 2 ^ 53) (blocks : List (List Nat))
    (hblocks : fileBlocks ieee data NL (some b) = some blocks) :
    (blocks.map (lines NL)).flatten = lines NL data := by
  have h := (C50.lines_blocksize_independent_ieee NL data NL_ne NL_bf b hb hsz).1
  simp only [readTextLines, hblocks, fileToBlocks, Option.bind_eq_bind, Option.bind_some,
    C50.mapM_decode NL NL_ne, C50.decode_eq_lines NL data NL_ne, Option.pure_def, Option.some.injEq] at h
  exact h

/-- **csv_blocks_rows**, conditional form (the byte-level facts are discharged in `csv_blocks_rows` below).
    For every file and every blocksize the data rows seen by the per-block parsers, concatenated in
    partition order, are the lines of the file after the header line. -/
theorem csv_blocks_rows_partial (data : List Nat) (b : Nat) (hb : 0 < b) (hsz : data.length < 2 ^ 53)
    (blocks : List (List Nat)) (header : List Nat)
    (hblocks : fileBlocks ieee data NL (some b) = some blocks) (hheader : headerOf data = some header)
    (hh1 : lines NL header = [header]) (hh2 : NL <:+ header)
    (hfirst : ∀ b0 rest, blocks = b0 :: rest → lines NL b0 ≠ []) :
    readCsvRows data (some b) = some ((lines NL data).drop 1) := by
  have hl := blocks_lines data b hb hsz blocks hblocks
  unfold readCsvRows readCsvParts
  simp only [hblocks, hheader, Option.bind_eq_bind, Option.bind_some]
  cases blocks with
  | nil =>
    simp only [rowsOfBlocks, Option.map_some, List.flatten_nil, Option.some.injEq]
    simp at hl
    rw [hl]; rfl
  | cons b0 rest =>
    have hne := hfirst b0 rest rfl
    simp only [rowsOfBlocks, blockRows_first, rowsOfBlocks_nonfirst header hh1 hh2 rest,
      Option.bind_eq_bind, Option.bind_some, Option.pure_def, Option.map_some, List.flatten_cons, Option.some.injEq]
    rw [← hl, List.map_cons, List.flatten_cons]
    cases hb0 : lines NL b0 with
    | nil => exact absurd hb0 hne
    | cons l ls => simp


/-- the first block of `read_bytes` on a non-empty file is not empty -/
theorem first_block_nonempty (data : List Nat) (b : Nat) (hb : 0 < b) (hsz : data.length < 2 ^ 53) (hne : data ≠ [])
    (blocks : List (List Nat)) (hblocks : fileBlocks ieee data NL (some b) = some blocks) :
    ∃ b0 rest, blocks = b0 :: rest ∧ b0 ≠ [] := by
  have hlen : 0 < data.length := List.length_pos_iff.mpr hne
  obtain ⟨offs, lens, hplan, h0, _, _, hll, hpos, _⟩ := C50.offsets_cover_ieee data.length b hlen hb hsz
  simp only [fileBlocks, hplan, Option.map_some, Option.some.injEq] at hblocks
  cases offs with
  | nil => simp at h0
  | cons o offs' =>
    simp only [List.head?_cons, Option.some.injEq] at h0
    subst h0
    cases lens with
    | nil => simp at hll
    | cons l lens' =>
      have hl : 0 < l := hpos l List.mem_cons_self
      simp only [List.zip_cons_cons, List.map_cons] at hblocks
      refine ⟨_, _, hblocks.symm, ?_⟩
      simp only [readBlockFromFile, Option.isNone_some, Bool.false_eq_true, and_false, if_false]
      unfold readBlock readBlockWith
      have hd : NL.isEmpty = false := rfl
      simp only [hd, Bool.false_eq_true, if_false, Nat.zero_add]
      have hstart : (seekSimple NL data 0).1 = 0 := seekPos_zero NL data
      have hstop : l ≤ (seekSimple NL data l).1 := seekPos_ge
      rw [hstart]
      simp only [Nat.not_lt_zero, if_false, Nat.sub_zero, readAt, List.drop_zero]
      intro hcon
      have := congrArg List.length hcon
      simp only [List.length_take, List.length_nil] at this
      omega



theorem split_first (rest : List Nat) : ∀ (pre acc : List Nat), 10 ∉ pre →
    pySplitAux NL 0 acc (pre ++ 10 :: rest) = (acc.reverse ++ pre) :: pySplitAux NL 0 [] rest
  | [], acc, _ => by
    have hp : NL <+: ([] ++ 10 :: rest) := ⟨rest, rfl⟩
    rw [pySplitAux_match NL_ne acc _ hp]
    simp [NL]
  | c :: pre, acc, h => by
    have hc : c ≠ 10 := fun hc => h (by simp [hc])
    have hpre : 10 ∉ pre := fun hm => h (List.mem_cons_of_mem _ hm)
    have hnp : ¬ NL <+: c :: (pre ++ 10 :: rest) := by
      intro ⟨t, ht⟩
      simp [NL] at ht
      exact hc ht.1.symm
    rw [List.cons_append, pySplitAux_nomatch acc c _ hnp, split_first rest pre (c :: acc) hpre]
    simp

/-- a file whose first line `pre` is terminated by a newline: the header bytes `read_pandas` extracts -/
theorem headerOf_first_line (pre rest : List Nat) (hpre : 10 ∉ pre) :
    headerOf (pre ++ 10 :: rest) = some (pre ++ NL) := by
  unfold headerOf
  have hne : (pre ++ 10 :: rest).isEmpty = false := by cases pre <;> rfl
  simp only [hne, Bool.false_eq_true, if_false, pySplit]
  have : NL.isEmpty = false := rfl
  simp only [this, Bool.false_eq_true, if_false, Option.bind_some, split_first rest pre [] hpre,
    List.reverse_nil, List.nil_append, List.head?_cons, Option.map_some]

theorem lines_header_line (pre : List Nat) (hpre : 10 ∉ pre) : lines NL (pre ++ NL) = [pre ++ NL] := by
  unfold lines linesAux
  have : pre ++ NL = pre ++ 10 :: [] := rfl
  rw [this, split_first [] pre [] hpre]
  simp [pySplitAux, joinLines, lastPart, NL]

/-- **csv_blocks_rows** (full): for every non-empty file whose first line (the header) is terminated by a
    newline, and every blocksize, the data rows the per-block parsers see, concatenated in partition order, are
    the lines of the file after the header line. (Lines, not records: a terminator inside a quoted field is a
    terminator here.) -/
theorem csv_blocks_rows (pre rest : List Nat) (hpre : 10 ∉ pre) (b : Nat) (hb : 0 < b)
    (hsz : (pre ++ 10 :: rest).length < 2 ^ 53) :
    readCsvRows (pre ++ 10 :: rest) (some b) = some ((lines NL (pre ++ 10 :: rest)).drop 1) := by
  have hne : pre ++ 10 :: rest ≠ [] := by cases pre <;> simp
  obtain ⟨blocks, hblocks, _⟩ := C50.blocks_concat_file_ieee (pre ++ 10 :: rest) NL NL_ne (some b)
    (fun b' hb' => by cases hb'; exact hb) hsz
  obtain ⟨b0, rest', hbl, hb0⟩ := first_block_nonempty _ b hb hsz hne blocks hblocks
  refine csv_blocks_rows_partial _ b hb hsz blocks (pre ++ NL) hblocks (headerOf_first_line pre rest hpre)
    (lines_header_line pre hpre) ⟨pre, rfl⟩ ?_
  intro b0' rest'' hcons
  rw [hbl] at hcons
  have hb0e : b0 = b0' := (List.cons.inj hcons).1
  subst hb0e
  intro hl
  obtain ⟨ls, hls, hflat⟩ := C50.decode_flatten NL b0 NL_ne
  rw [C50.decode_eq_lines NL b0 NL_ne] at hls
  cases hls
  rw [hl] at hflat
  exact hb0 hflat.symm


/-- `blocksize=None`: one block, the whole file -/
theorem csv_whole_file (data header : List Nat) (hheader : headerOf data = some header) :
    readCsvRows data none = some ((lines NL data).drop 1) := by
  unfold readCsvRows readCsvParts
  simp only [fileBlocks, readBlockFromFile, hheader, Option.bind_eq_bind, Option.bind_some]
  simp [rowsOfBlocks, blockRows_first]

/-! non-vacuity / concrete behaviour (header "a", rows 1,2,3; header "1", rows 10,11: the repaired defect) -/
example : readCsvParts [97, 10, 49, 10, 50, 10, 51, 10] (some 3) = some [[[49, 10], [50, 10]], [[51, 10]]] := by decide
example : readCsvParts [49, 10, 49, 48, 10, 49, 49, 10] (some 2) = some [[[49, 48, 10]], [], [[49, 49, 10]], []] := by decide
example : readCsvRows [49, 10, 49, 48, 10, 49, 49, 10] (some 2) = some [[49, 48, 10], [49, 49, 10]] := by decide
example : headerOf [97, 44, 98, 10, 49, 44, 50, 10] = some [97, 44, 98, 10] := by decide
example : lines NL [97, 44, 98, 10] = [[97, 44, 98, 10]] := by decide

end Dask.C47
