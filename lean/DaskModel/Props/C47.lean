import DaskModel.Model.Csv
import DaskModel.Props.C50
/-! # C47 — DataFrame file round trips preserve data (CSV half; theorems)

The parquet half of the statement cannot be decided in this sandbox (no pyarrow). CSV: the block model of
`Model/Csv.lean` sits on the `read_bytes` model of C50 (`TextBlocks`, exact IEEE offsets). Quoting is not
modelled: the theorems are about *lines*; they apply to files in which no field contains the line terminator. -/
namespace Dask.C47
open Dask.Csv Dask.TextBlocks

theorem NL_ne : NL ≠ [] := by simp [NL]
theorem NL_bf : BorderFree NL := by unfold BorderFree NL; decide

/-- rows parsed from a non-first block: exactly the block's own lines (the prepended header is the one
    line that is dropped) -/
theorem blockRows_nonfirst (header block : List Nat) (hh1 : lines NL header = [header]) (hh2 : NL <:+ header) :
    blockRows header false block = some (lines NL block) := by
  unfold blockRows blockText
  simp only [Bool.false_eq_true, if_false]
  rw [C50.decode_eq_lines NL _ NL_ne, lines_append NL_ne NL_bf header block (Or.inr (Or.inr hh2)), hh1]
  rfl

theorem blockRows_first (header block : List Nat) :
    blockRows header true block = some ((lines NL block).drop 1) := by
  unfold blockRows blockText
  simp only [if_true]
  rw [C50.decode_eq_lines NL _ NL_ne]
  rfl

theorem rowsOfBlocks_nonfirst (header : List Nat) (hh1 : lines NL header = [header]) (hh2 : NL <:+ header) :
    ∀ blocks : List (List Nat), rowsOfBlocks header false blocks = some (blocks.map (lines NL))
  | [] => rfl
  | b :: bs => by
    simp only [rowsOfBlocks, blockRows_nonfirst header b hh1 hh2, rowsOfBlocks_nonfirst header hh1 hh2 bs,
      Option.bind_eq_bind, Option.bind_some, Option.pure_def, List.map_cons]

/-- the lines of all blocks, concatenated, are the lines of the file (from C50, IEEE offsets) -/
theorem blocks_lines (data : List Nat) (b : Nat) (hb : 0 < b) (hsz : data.length < 2 ^ 53) (blocks : List (List Nat))
    (hblocks : fileBlocks ieee data NL (some b) = some blocks) :
    (blocks.map (lines NL)).flatten = lines NL data := by
  have h := (C50.lines_blocksize_independent_ieee NL data NL_ne NL_bf b hb hsz).1
  simp only [readTextLines, hblocks, fileToBlocks, Option.bind_eq_bind, Option.bind_some,
    C50.mapM_decode NL NL_ne, C50.decode_eq_lines NL data NL_ne, Option.pure_def, Option.some.injEq] at h
  exact h

/-- **csv_blocks_rows** (`_partial`: two facts about the concrete bytes are hypotheses, see below).
    For every file and every blocksize the data rows seen by the per-block parsers, concatenated in
    partition order, are the lines of the file after the header line. -/
theorem csv_blocks_rows_partial (data : List Nat) (b : Nat) (hb : 0 < b) (hsz : data.length < 2 ^ 53)
    (blocks : List (List Nat)) (header : List Nat)
    (hblocks : fileBlocks ieee data NL (some b) = some blocks) (hheader : headerOf data = some header)
    (hh1 : lines NL header = [header]) (hh2 : NL <:+ header)
    (hfirst : ∀ b0 rest, blocks = b0 :: rest → lines NL b0 ≠ []) :
    readCsvRows data (some b) = some ((lines NL data).drop 1) := by
  have hl := blocks_lines data b hb hsz blocks hblocks
  unfold readCsvRows readCsvParts
  simp only [hblocks, hheader, Option.bind_eq_bind, Option.bind_some]
  cases blocks with
  | nil =>
    simp only [rowsOfBlocks, Option.map_some, List.flatten_nil, Option.some.injEq]
    simp at hl
    rw [hl]; rfl
  | cons b0 rest =>
    have hne := hfirst b0 rest rfl
    simp only [rowsOfBlocks, blockRows_first, rowsOfBlocks_nonfirst header hh1 hh2 rest,
      Option.bind_eq_bind, Option.bind_some, Option.pure_def, Option.map_some, List.flatten_cons, Option.some.injEq]
    rw [← hl, List.map_cons, List.flatten_cons]
    cases hb0 : lines NL b0 with
    | nil => exact absurd hb0 hne
    | cons l ls => simp

/-- FULL STATEMENT (the two byte-level hypotheses of `csv_blocks_rows_partial` discharged): still to prove —
    `hh1`/`hh2` follow from `headerOf` (the first line plus terminator contains exactly one terminator, at
    its end) and `hfirst` from `seekPos_ge` (the first block reaches at least to byte `length ≥ 1`). Both are
    checked on every generated file by the tie (rows per partition and rows == file lines). -/
def CsvBlocksRowsFullStatement : Prop :=
  ∀ (data : List Nat) (b : Nat), 0 < b → data.length < 2 ^ 53 → data ≠ [] →
    readCsvRows data (some b) = some ((lines NL data).drop 1)

/-- `blocksize=None`: one block, the whole file -/
theorem csv_whole_file (data header : List Nat) (hheader : headerOf data = some header) :
    readCsvRows data none = some ((lines NL data).drop 1) := by
  unfold readCsvRows readCsvParts
  simp only [fileBlocks, readBlockFromFile, hheader, Option.bind_eq_bind, Option.bind_some]
  simp [rowsOfBlocks, blockRows_first]

/-! non-vacuity / concrete behaviour (header "a", rows 1,2,3; header "1", rows 10,11: the repaired defect) -/
example : readCsvParts [97, 10, 49, 10, 50, 10, 51, 10] (some 3) = some [[[49, 10], [50, 10]], [[51, 10]]] := by decide
example : readCsvParts [49, 10, 49, 48, 10, 49, 49, 10] (some 2) = some [[[49, 48, 10]], [], [[49, 49, 10]], []] := by decide
example : readCsvRows [49, 10, 49, 48, 10, 49, 49, 10] (some 2) = some [[49, 48, 10], [49, 49, 10]] := by decide
example : headerOf [97, 44, 98, 10, 49, 44, 50, 10] = some [97, 44, 98, 10] := by decide
example : lines NL [97, 44, 98, 10] = [[97, 44, 98, 10]] := by decide

end Dask.C47
