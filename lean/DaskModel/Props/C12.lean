import DaskModel.Model.NormalForm
import DaskModel.Model.NormalFormRec
import DaskModel.Lemmas.NormalForm
import DaskModel.Lemmas.Determinism
import DaskModel.Lemmas.ReprInj
import DaskModel.Generated.TokenDispatch
/-!
# C12 — tokens are deterministic and distinct values get distinct tokens

`tokenize(v) = md5(pyRepr (tuple [norm v]))`.  md5 and `hash_buffer_hex` are assumed injective
(trusted, not modelled); the theorems below are about the structural part `norm` and the printer.

Full statement (for the modelled classes):
  (collision freedom)  `norm a = norm b → ObsEq a b`                       — `norm_injective`
  (determinism)        `ObsEq a b → WF a → WF b → norm a = norm b`          — `norm_deterministic`
  together             `WF a → WF b → (norm a = norm b ↔ ObsEq a b)`        — `token_iff_obsEq`
`WF`: dict keys / set elements are hashable plain data with pairwise different `(str, type name)`; the point excluded
by it ({nan, nan}-like keys whose `str` and type coincide) is run on the real code by the harness.
-/
namespace Dask.C12
open Dask.NF

/-! ## the model's constants are the ones in the source (re-checked against the extracted table) -/

theorem dict_tag_extracted : Generated.TokenDispatch.dictTag = "dict" := rfl
theorem set_tag_extracted : Generated.TokenDispatch.setTag = "set" := rfl
theorem seq_classes_extracted : Generated.TokenDispatch.seqClasses = ["tuple", "list"] := rfl
theorem ravel_order_extracted : Generated.TokenDispatch.ravelOrder = "C" := rfl
theorem join_sep_extracted : Generated.TokenDispatch.joinSep = "-" := rfl
/-- the scalar classes the model passes through unchanged are identity-dispatched in the source
    (`bool` is a subclass of `int`) -/
theorem identity_classes_extracted :
    ∀ c ∈ ["int", "float", "str", "bytes", "NoneType"], c ∈ Generated.TokenDispatch.identityDispatch := by decide

/-! ## collision freedom of the structural part -/

def normPair (p : Val × Val) : Val := .tuple [.str "tuple", .tuple [norm p.1, norm p.2]]

theorem normP_snd : ∀ kvs : List (Val × Val), (normP kvs).map Prod.snd = kvs.map normPair
  | [] => rfl
  | (k, v) :: r => by simp [normP, normPair, normP_snd r]

theorem normS_snd : ∀ xs : List Val, (normS xs).map Prod.snd = xs.map norm
  | [] => rfl
  | x :: r => by simp [normS, normS_snd r]

theorem normL_eq_map : ∀ xs : List Val, normL xs = xs.map norm
  | [] => rfl
  | x :: r => by simp [normL, normL_eq_map r]

theorem map_int_inj : ∀ a b : List Nat, a.map (fun n => Val.int (Int.ofNat n)) = b.map (fun n => Val.int (Int.ofNat n)) → a = b
  | [], [], _ => rfl
  | [], _ :: _, h => by simp at h
  | _ :: _, [], h => by simp at h
  | x :: xs, y :: ys, h => by
    simp only [List.map_cons, List.cons.injEq, Val.int.injEq, Int.ofNat_eq_natCast, Int.natCast_inj] at h
    rw [h.1, map_int_inj xs ys h.2]

/-- sorted normal forms agree ⇒ the unsorted ones agree up to a permutation -/
theorem perm_of_ssort_eq {α : Type} {A B : List (SortKey × α)}
    (h : (ssort A).map Prod.snd = (ssort B).map Prod.snd) : (A.map Prod.snd).Perm (B.map Prod.snd) :=
  ((ssort_perm A).map Prod.snd).symm.trans (h ▸ (ssort_perm B).map Prod.snd)

mutual
/-- **Distinct values get distinct pre-images** (structural part): if two values of the modelled classes
    normalise alike, no observer can tell them apart. -/
theorem norm_injective : ∀ a b : Val, norm a = norm b → ObsEq a b
  | .int i, b, h => by cases b <;> simp [norm] at h <;> first | (subst h; exact .int _) | (split at h <;> simp at h)
  | .bool i, b, h => by cases b <;> simp [norm] at h <;> first | (subst h; exact .bool _) | (split at h <;> simp at h)
  | .float i, b, h => by cases b <;> simp [norm] at h <;> first | (subst h; exact .float _) | (split at h <;> simp at h)
  | .str i, b, h => by cases b <;> simp [norm] at h <;> first | (subst h; exact .str _) | (split at h <;> simp at h)
  | .bytes i, b, h => by cases b <;> simp [norm] at h <;> first | (subst h; exact .bytes _) | (split at h <;> simp at h)
  | .none, b, h => by cases b <;> simp [norm] at h <;> first | exact .none | (split at h <;> simp at h)
  | .atom i, b, h => by cases b <;> simp [norm] at h <;> first | (subst h; exact .atom _) | (split at h <;> simp at h)
  | .hash t p, b, h => by
    cases b <;> simp [norm] at h <;> first | (obtain ⟨rfl, rfl⟩ := h; exact .hash _ _) | (split at h <;> simp at h)
  | .list xs, b, h => by
    cases b <;> simp [norm] at h
    · exact .list (normL_injective _ _ h)
    · split at h <;> simp at h
  | .tuple xs, b, h => by
    cases b <;> simp [norm] at h
    · exact .tuple (normL_injective _ _ h)
    · split at h <;> simp at h
  | .dict kvs, b, h => by
    cases b <;> simp [norm] at h
    · rename_i kvs'
      have hp := perm_of_ssort_eq h
      rw [normP_snd, normP_snd] at hp
      obtain ⟨zs, hz, hzp⟩ := perm_map_rel normPair (fun p q => ObsEq p.1 q.1 ∧ ObsEq p.2 q.2) kvs kvs' hp
        (normPair_injective_mem kvs)
      exact .dict (ObsEqP.of_all₂ hz) hzp
    · split at h <;> simp at h
  | .set xs, b, h => by
    cases b <;> simp [norm] at h
    · rename_i xs'
      have hp := perm_of_ssort_eq h
      rw [normS_snd, normS_snd] at hp
      obtain ⟨zs, hz, hzp⟩ := perm_map_rel norm ObsEq xs xs' hp (norm_injective_mem xs)
      exact .set (ObsEqL.of_all₂ hz) hzp
    · split at h <;> simp at h
  | .arr0 item dt, b, h => by
    cases b <;> simp [norm] at h
    · obtain ⟨rfl, rfl⟩ := h; exact .arr0 _ _
    · split at h <;> simp at h
  | .ndarray dt shape st o buf, b, h => by
    cases b with
    | ndarray dt' shape' st' o' buf' =>
      cases hl : logical shape st o buf <;> cases hl' : logical shape' st' o' buf' <;> simp [norm, hl, hl'] at h
      · obtain ⟨rfl, rfl, rfl, rfl, rfl⟩ := h
        exact .ndarraySame _ _ _ _ _
      · obtain ⟨rfl, rfl, hs⟩ := h
        have := map_int_inj _ _ hs
        subst this
        exact .ndarray hl hl'
    | _ => cases hl : logical shape st o buf <;> simp [norm, hl] at h
  | .objarr shape elems, b, h => by
    cases b <;> simp [norm] at h
    · split at h <;> simp at h
    · obtain ⟨⟨hj, hl⟩, hs⟩ := h
      have := map_int_inj _ _ hs
      subst this
      have := joinDash_inj _ _ hl hj
      subst this
      exact .objarr _ _
  | .digest v, b, h => by
    cases b <;> simp [norm] at h
    · split at h <;> simp at h
    · subst h; exact ObsEq.rfl' _
  | .sortedTokens xs, b, h => by
    cases b <;> simp [norm] at h
    · split at h <;> simp at h
    · subst h; exact ObsEq.rfl' _
  | .pickled k p, b, h => by
    cases b <;> simp [norm] at h
    · split at h <;> simp at h
    · obtain ⟨rfl, rfl⟩ := h; exact .pickled _ _
theorem normL_injective : ∀ xs ys : List Val, normL xs = normL ys → ObsEqL xs ys
  | [], ys, h => by cases ys <;> simp [normL] at h; exact .nil
  | x :: xs, ys, h => by
    cases ys with
    | nil => simp [normL] at h
    | cons y ys =>
      simp only [normL, List.cons.injEq] at h
      exact .cons (norm_injective _ _ h.1) (normL_injective _ _ h.2)
theorem norm_injective_mem : ∀ xs : List Val, ∀ x ∈ xs, ∀ y, norm x = norm y → ObsEq x y
  | [], _, hx, _, _ => by simp at hx
  | a :: as, x, hx, y, h => by
    rcases List.mem_cons.mp hx with e | hx
    · rw [e] at h ⊢
      exact norm_injective a y h
    · exact norm_injective_mem as x hx y h
theorem normPair_injective_mem : ∀ kvs : List (Val × Val), ∀ p ∈ kvs, ∀ q, normPair p = normPair q →
    ObsEq p.1 q.1 ∧ ObsEq p.2 q.2
  | [], _, hp, _, _ => by simp at hp
  | (k, v) :: r, p, hp, q, h => by
    rcases List.mem_cons.mp hp with e | hp
    · rw [e] at h ⊢
      simp only [normPair, Val.tuple.injEq, List.cons.injEq, and_true, true_and] at h
      exact ⟨norm_injective k _ h.1, norm_injective v _ h.2⟩
    · exact normPair_injective_mem r p hp q h
end

/-! ## determinism -/

/-- **Values no observer can tell apart get the same normal form** — in particular the insertion order of a dict,
    the iteration order of a set (hence the hash seed) and the memory layout of an array do not matter. -/
theorem norm_deterministic (a b : Val) (h : ObsEq a b) (ha : WF a) (hb : WF b) : norm a = norm b :=
  NF.norm_deterministic a b h ha hb

/-- for well-formed values equal tokens (normal forms) mean exactly observational equality -/
theorem token_iff_obsEq (a b : Val) (ha : WF a) (hb : WF b) : norm a = norm b ↔ ObsEq a b :=
  ⟨norm_injective a b, fun h => norm_deterministic a b h ha hb⟩

/-- the argument tuple of `tokenize(*args)`: observably equal arguments give the same pre-image value -/
theorem tokenize_args_deterministic (args args' : List Val) (h : ObsEqL args args') (ha : WFL args) (hb : WFL args') :
    tokNFKw args [] = tokNFKw args' [] := by
  simp only [tokNFKw, List.isEmpty_nil, if_true, NF.normL_deterministic args args' h ha hb]

/-- the stable sort is canonical on pairwise different keys (what the `_sort_key` tie-break is for) -/
theorem sort_is_canonical {α : Type} (l₁ l₂ : List (SortKey × α)) (hp : l₁.Perm l₂) (hn : (l₁.map Prod.fst).Nodup) :
    ssort l₁ = ssort l₂ := ssort_canonical l₁ l₂ hp hn

/-- non-vacuity: `{1: 'x', '1': 'y'}` and `{'1': 'y', 1: 'x'}` are well formed, observably equal and different lists -/
example : norm (.dict [(.int 1, .str "x"), (.str "1", .str "y")]) = norm (.dict [(.str "1", .str "y"), (.int 1, .str "x")]) :=
  norm_deterministic _ _ (.dict (ObsEqP.rfl' _) (List.Perm.swap _ _ _))
    (by simp [WF, WFP, hashable]; decide) (by simp [WF, WFP, hashable]; decide)

/-- without the type name the two keys `1` and `'1'` would tie: their `str` is the same -/
example : pyStr (.int 1) = pyStr (.str "1") ∧ sortKey (.int 1) ≠ sortKey (.str "1") := by decide

/-- strided views with the same logical elements: C order vs a transposed Fortran-ordered copy -/
example : norm (.ndarray "dtype('int64')" [2, 3] [3, 1] 0 [0, 1, 2, 3, 4, 5])
        = norm (.ndarray "dtype('int64')" [2, 3] [1, 2] 0 [0, 3, 1, 4, 2, 5]) :=
  norm_deterministic _ _ (.ndarray (els := [0, 1, 2, 3, 4, 5]) (by decide) (by decide)) trivial trivial

/-- …while the same memory read with the other layout is a different array and gets a different normal form
    (DESIGN.md §6 #4, repaired by hashing the logical order) -/
example : norm (.ndarray "dtype('int64')" [2, 3] [3, 1] 0 [0, 1, 2, 3, 4, 5])
        ≠ norm (.ndarray "dtype('int64')" [2, 3] [1, 2] 0 [0, 1, 2, 3, 4, 5]) := by
  intro h
  have := norm_injective _ _ h
  cases this with
  | ndarray h1 h2 =>
    have e1 : logical [2, 3] [3, 1] 0 [0, 1, 2, 3, 4, 5] = some [0, 1, 2, 3, 4, 5] := by decide
    have e2 : logical [2, 3] [1, 2] 0 [0, 1, 2, 3, 4, 5] = some [0, 2, 4, 1, 3, 5] := by decide
    rw [e1] at h1
    rw [e2] at h2
    rw [← h1] at h2
    simp at h2

/-! ## the printed pre-image is injective -/

/-- `repr` of a str / bytes object is self-delimiting: the string and the rest of the text can be read back
    (quotes inside are escaped or are not the delimiter) -/
theorem repr_str_self_delimiting (cs ds r1 r2 : List Char) (h : reprStrChars cs ++ r1 = reprStrChars ds ++ r2) :
    cs = ds ∧ r1 = r2 := reprStr_inj cs ds r1 r2 h

/-- `show_injective_on_nf`: Python `repr` is injective on nested tuples / lists of ints, bools, None, str, bytes —
    the normal forms of plain data -/
theorem show_injective_on_nf (a b : Val) (ha : plainV a = true) (hb : plainV b = true) (h : pyRepr a = pyRepr b) :
    a = b := pyRepr_injective a b ha hb h

/-- **For plain data (ints, bools, None, str, bytes in nested lists, tuples, dicts, sets) equal md5 pre-images mean
    observably equal values** — with md5 injective: equal tokens ⇒ equal values. -/
theorem preimage_injective (a b : Val) (ha : dataV a = true) (hb : dataV b = true) (h : tokPre [a] = tokPre [b]) :
    ObsEq a b := by
  have hp : ∀ v, dataV v = true → plainV (.tuple (normL [v])) = true := by
    intro v hv
    simp [plainV, plainL, normL, norm_plain v hv]
  have := pyRepr_injective _ _ (hp a ha) (hp b hb) h
  simp only [normL, Val.tuple.injEq, List.cons.injEq, and_true] at this
  exact norm_injective a b this

/-- the quoting pitfall: `["a', 'b"]` and `['a', 'b']` have different pre-images -/
example : tokPre [.list [.str "a', 'b"]] ≠ tokPre [.list [.str "a", .str "b"]] := by
  intro h
  have := preimage_injective _ _ (by decide) (by decide) h
  cases this with
  | list hl => cases hl with | cons h1 h2 => cases h2

/-! ## recursive containers -/

mutual
/-- the `_SEEN` bookkeeping does not change the normal form of values without back references, whatever the depth
    and the enclosing containers: `("__seen", i)` only ever stands for a genuine cycle -/
theorem rnorm_eq_norm (stack : List Frame) (d : Nat) : ∀ (r : RVal) (v : Val), toVal r = some v → rnorm stack d r = norm v
  | .val w, v, h => by simp only [toVal, Option.some.injEq] at h; subst h; rfl
  | .backref _, _, h => by simp [toVal] at h
  | .list xs, v, h => by
    simp only [toVal] at h
    cases hl : toValL xs with
    | none => simp [hl] at h
    | some vs =>
      simp only [hl, Option.map_some, Option.some.injEq] at h
      subst h
      simp only [rnorm, norm, rnormL_eq_normL _ _ xs vs hl]
  | .tuple xs, v, h => by
    simp only [toVal] at h
    cases hl : toValL xs with
    | none => simp [hl] at h
    | some vs =>
      simp only [hl, Option.map_some, Option.some.injEq] at h
      subst h
      simp only [rnorm, norm, rnormL_eq_normL _ _ xs vs hl]
  | .dict kvs, v, h => by
    simp only [toVal] at h
    cases hl : toValP kvs with
    | none => simp [hl] at h
    | some vs =>
      simp only [hl, Option.map_some, Option.some.injEq] at h
      subst h
      simp only [rnorm, norm, rnormP_eq_normP _ _ kvs vs hl]
theorem rnormL_eq_normL (stack : List Frame) (d : Nat) : ∀ (rs : List RVal) (vs : List Val), toValL rs = some vs →
    rnormL stack d rs = normL vs
  | [], vs, h => by simp only [toValL, Option.some.injEq] at h; subst h; rfl
  | r :: rs, vs, h => by
    simp only [toValL] at h
    cases h1 : toVal r with
    | none => simp [h1] at h
    | some v =>
      cases h2 : toValL rs with
      | none => simp [h1, h2] at h
      | some vs' =>
        simp only [h1, h2, Option.some.injEq] at h
        subst h
        simp only [rnormL, normL, rnorm_eq_norm stack d r v h1, rnormL_eq_normL stack d rs vs' h2]
theorem rnormP_eq_normP (stack : List Frame) (d : Nat) : ∀ (rs : List (Val × RVal)) (vs : List (Val × Val)),
    toValP rs = some vs → rnormP stack d rs = normP vs
  | [], vs, h => by simp only [toValP, Option.some.injEq] at h; subst h; rfl
  | (k, r) :: rs, vs, h => by
    simp only [toValP] at h
    cases h1 : toVal r with
    | none => simp [h1] at h
    | some v =>
      cases h2 : toValP rs with
      | none => simp [h1, h2] at h
      | some vs' =>
        simp only [h1, h2, Option.some.injEq] at h
        subst h
        simp only [rnormP, normP, rnorm_eq_norm stack d r v h1, rnormP_eq_normP stack d rs vs' h2]
end

/-- a list that contains itself and a list that contains a copy of itself containing itself are told apart:
    the back reference names the depth at which the container was entered -/
example : rnorm [] 1 (.list [.val (.int 1), .backref 0])
        ≠ rnorm [] 1 (.list [.val (.int 1), .list [.val (.int 1), .backref 1]]) := by
  simp [rnorm, rnormL, seenRef, norm]

end Dask.C12
