import DaskModel.Lemmas.Toposort
import DaskModel.Lemmas.ToposortWalk
/-!
# C07 — toposort / getcycle / isdag

Model: `Dask.GraphAlg` (Model/GraphAlg.lean), the explicit-stack DFS of `dask.core._toposort` with the cycle
reconstruction walk, as repaired by the `fix:` commit "count pops so priorities stay unique".

Statement: *toposort returns every graph key exactly once, each key after all of its dependencies, and raises on a
cycle; getcycle returns a real dependency cycle reachable from the given keys, or `[]` when none exists; isdag agrees.*

Everything below holds for **every** graph, start list and fuel value: whenever the model returns an order it is a
duplicate-free list of exactly the reachable keys with dependencies first (so no cycle is reachable), and whenever it
returns a cycle it is a closed walk along dependency edges through reachable keys.
-/
namespace Dask.C07
open Dask.GraphAlg

private theorem run_ok {g : Graph} {keys : List Key} {fuel : Nat} {xs : List Key}
    (h : toposortWith g keys fuel = .ordered xs) :
    ∃ s, Inv g keys s ∧ xs = s.completed.reverse ∧ ∀ k ∈ keys, k ∈ s.completed := by
  unfold toposortWith at h
  split at h
  · rename_i s hs
    have hi0 : Inv g keys { nodes := [], completed := [], seen := [], ordered := [] } :=
      ⟨rfl, trivial, by simp, by simp⟩
    obtain ⟨h1, _, h3⟩ := outer_inv fuel keys hi0 rfl (fun _ hk => hk) hs
    simp only [Out.ordered.injEq] at h
    exact ⟨s, h1, by rw [← h, h1.ord], h3⟩
  · rename_i o hs
    subst h
    exact absurd hs (outer_ne_ordered _ _ _)

/-- **No key twice.** -/
theorem toposort_nodup {g : Graph} {keys : List Key} {fuel : Nat} {xs : List Key}
    (h : toposortWith g keys fuel = .ordered xs) : xs.Nodup := by
  obtain ⟨s, hi, rfl, _⟩ := run_ok h
  exact nodup_reverse hi.topo.nodup

/-- **Each key after all of its dependencies**: wherever `k` sits in the output, all its dependencies sit before it. -/
theorem toposort_respects_deps {g : Graph} {keys : List Key} {fuel : Nat} {xs : List Key}
    (h : toposortWith g keys fuel = .ordered xs) (pre : List Key) (k : Key) (post : List Key)
    (hx : xs = pre ++ k :: post) (d : Key) (hd : Edge g k d) : d ∈ pre := by
  obtain ⟨s, hi, rfl, _⟩ := run_ok h
  have : s.completed = post.reverse ++ k :: pre.reverse := by
    have := congrArg List.reverse hx
    simpa using this
  have := hi.topo.split _ _ _ this d hd
  simpa using this

/-- **Every key exactly the reachable ones**: the output holds a key iff it is reachable from the start keys
    (with `keys = all keys of dsk`, as `toposort(dsk)` passes, that is every key of the graph). -/
theorem toposort_mem_iff_reach {g : Graph} {keys : List Key} {fuel : Nat} {xs : List Key}
    (h : toposortWith g keys fuel = .ordered xs) (k : Key) : k ∈ xs ↔ Reach g keys k := by
  obtain ⟨s, hi, rfl, hk⟩ := run_ok h
  constructor
  · intro hm
    exact hi.reachC k (by simpa using hm)
  · intro hr
    induction hr with
    | start hs => simpa using hk _ hs
    | step _ e ih => simpa using hi.topo.closed _ (by simpa using ih) _ e

theorem toposort_contains_keys {g : Graph} {keys : List Key} {fuel : Nat} {xs : List Key}
    (h : toposortWith g keys fuel = .ordered xs) : ∀ k ∈ keys, k ∈ xs :=
  fun k hk => (toposort_mem_iff_reach h k).mpr (Reach.start hk)

/-- **An order is returned only when no cycle is reachable.** -/
theorem toposort_ordered_acyclic {g : Graph} {keys : List Key} {fuel : Nat} {xs : List Key}
    (h : toposortWith g keys fuel = .ordered xs) (k : Key) (hr : Reach g keys k) : ¬ Path g k k := by
  have hm := (toposort_mem_iff_reach h k).mpr hr
  obtain ⟨s, hi, rfl, _⟩ := run_ok h
  exact hi.topo.no_cycle k (by simpa using hm)

/-- **A reported cycle is real**: closed (`head = last`, length ≥ 2), consecutive elements are dependency edges,
    and every element is reachable from the start keys. -/
theorem toposort_cycle_is_cycle {g : Graph} {keys : List Key} {fuel : Nat} {c : List Key}
    (h : toposortWith g keys fuel = .cycle c) : IsCycle g c ∧ ∀ x ∈ c, Reach g keys x := by
  unfold toposortWith at h
  split at h
  · cases h
  · rename_i o hs
    subst h
    have hi0 : Inv g keys { nodes := [], completed := [], seen := [], ordered := [] } :=
      ⟨rfl, trivial, by simp, by simp⟩
    exact outer_cycle fuel keys hi0 rfl (fun _ hk => hk) hs

/-- …so "raises `RuntimeError`" happens only when a reachable key lies on a dependency cycle. -/
theorem toposort_cycle_reachable_cycle {g : Graph} {keys : List Key} {fuel : Nat} {c : List Key}
    (h : toposortWith g keys fuel = .cycle c) : ∃ k, Reach g keys k ∧ Path g k k := by
  obtain ⟨hc, hr⟩ := toposort_cycle_is_cycle h
  obtain ⟨k, hk, hp⟩ := hc.path
  exact ⟨k, hr k hk, hp⟩

/-! ### getcycle / isdag -/

theorem getcycle_is_cycle {g : Graph} {keys : List Key} {c : List Key} (h : getcycle g keys = some c)
    (hne : c ≠ []) : IsCycle g c ∧ ∀ x ∈ c, Reach g keys x := by
  unfold getcycle at h
  split at h
  · cases h; exact absurd rfl hne
  · rename_i c' hc
    cases h
    exact toposort_cycle_is_cycle hc
  · cases h

theorem getcycle_nil_acyclic {g : Graph} {keys : List Key} (h : getcycle g keys = some [])
    (k : Key) (hr : Reach g keys k) : ¬ Path g k k := by
  unfold getcycle at h
  split at h
  · rename_i xs hx
    exact toposort_ordered_acyclic hx k hr
  · rename_i c' hc
    cases h
    have := (toposort_cycle_is_cycle hc).1.1
    simp at this
  · cases h

theorem isdag_eq (g : Graph) (keys : List Key) :
    isdag g keys = (getcycle g keys).map (fun c => c.isEmpty) := rfl

theorem isdag_true_acyclic {g : Graph} {keys : List Key} (h : isdag g keys = some true)
    (k : Key) (hr : Reach g keys k) : ¬ Path g k k := by
  unfold isdag at h
  cases hc : getcycle g keys with
  | none => simp [hc] at h
  | some c =>
    simp only [hc, Option.map_some, Option.some.injEq, List.isEmpty_iff] at h
    subst h
    exact getcycle_nil_acyclic hc k hr

theorem isdag_false_cyclic {g : Graph} {keys : List Key} (h : isdag g keys = some false) :
    ∃ k, Reach g keys k ∧ Path g k k := by
  unfold isdag at h
  cases hc : getcycle g keys with
  | none => simp [hc] at h
  | some c =>
    simp only [hc, Option.map_some, Option.some.injEq] at h
    have hne : c ≠ [] := by intro h0; subst h0; simp at h
    obtain ⟨h1, h2⟩ := getcycle_is_cycle hc hne
    obtain ⟨k, hk, hp⟩ := h1.path
    exact ⟨k, h2 k hk, hp⟩


/-! ### totality: the repaired algorithm always answers -/

/-- **The loops terminate and the cycle walk closes.** On a closed graph (every mentioned key has an entry, keys
    unique as in a dict, start keys present) `toposort` — with the fuel the driver uses — answers with an order or with
    a cycle: never `fuel` (non-termination), `stuck` (IndexError/ValueError in the walk) or `keyError`.
    Together with the theorems above: it returns an order iff no reachable key lies on a cycle. -/
theorem toposort_total (g : Graph) (keys : List Key) (hcl : Closed g) (hnd : (g.map Prod.fst).Nodup)
    (hk : ∀ k ∈ keys, (deps? g k).isSome) :
    (∃ xs, toposort g keys = .ordered xs) ∨ (∃ c, toposort g keys = .cycle c) := by
  unfold toposort toposortWith
  have hfuel : totalWeight g + 1 < defaultFuel g keys := by
    rw [totalWeight_eq g hnd]; unfold defaultFuel; omega
  have hi0 : Inv2 g { nodes := [], completed := [], seen := [], ordered := [] } :=
    ⟨by simp, by simp, by simp, by intro a v b h; simp at h, by simp⟩
  rcases outer_total hcl _ hfuel keys _ hi0 rfl hk with ⟨s', h⟩ | ⟨c, h⟩
  · rw [h]; exact Or.inl ⟨_, rfl⟩
  · rw [h]; exact Or.inr ⟨c, rfl⟩

/-- `toposort` raises iff a cycle is reachable (closed graphs) -/
theorem toposort_raises_iff_cycle (g : Graph) (keys : List Key) (hcl : Closed g) (hnd : (g.map Prod.fst).Nodup)
    (hk : ∀ k ∈ keys, (deps? g k).isSome) :
    (∃ c, toposort g keys = .cycle c) ↔ ∃ k, Reach g keys k ∧ Path g k k := by
  constructor
  · rintro ⟨c, hc⟩; exact toposort_cycle_reachable_cycle hc
  · rintro ⟨k, hr, hp⟩
    rcases toposort_total g keys hcl hnd hk with ⟨xs, hx⟩ | h
    · exact absurd hp (toposort_ordered_acyclic hx k hr)
    · exact h

/-- `getcycle` returns `[]` iff no cycle is reachable; `isdag` is its negation -/
theorem getcycle_nil_iff_acyclic (g : Graph) (keys : List Key) (hcl : Closed g) (hnd : (g.map Prod.fst).Nodup)
    (hk : ∀ k ∈ keys, (deps? g k).isSome) :
    getcycle g keys = some [] ↔ ¬ ∃ k, Reach g keys k ∧ Path g k k := by
  constructor
  · rintro h ⟨k, hr, hp⟩; exact getcycle_nil_acyclic h k hr hp
  · intro hno
    rcases toposort_total g keys hcl hnd hk with ⟨xs, hx⟩ | ⟨c, hc⟩
    · simp [getcycle, hx]
    · exact absurd (toposort_cycle_reachable_cycle hc) hno

/-! ### non-vacuity -/

/-- diamond `3 → {1,2} → 0`: an order is returned -/
example : toposort [(0, []), (1, [0]), (2, [0]), (3, [1, 2])] [0, 1, 2, 3] = .ordered [0, 1, 2, 3] := by decide
example : toposort [(0, []), (1, [0]), (2, [0]), (3, [1, 2])] [3] = .ordered [0, 2, 1, 3] := by decide
/-- the doc-string cycle `x→z→y→x` -/
example : getcycle [(0, [2]), (1, [0]), (2, [1])] [0] = some [0, 2, 1, 0] := by decide
/-- the graph on which the unrepaired code never returned (node 0 and 1 twice on the stack) -/
example : getcycle [(0, [1, 2]), (1, [0, 3]), (2, [0, 1]), (3, [0, 1, 2])] [3] = some [3, 1, 3] := by decide
example : isdag [(0, [1, 2]), (1, [0, 3]), (2, [0, 1]), (3, [0, 1, 2])] [3] = some false := by decide

/-- hypotheses of `toposort_total`: the chain `1 → 0` is closed, has unique keys and its start key is present -/
example : Closed [(0, []), (1, [0])] ∧ (([(0, []), (1, [0])] : Graph).map Prod.fst).Nodup ∧
    ∀ k ∈ [1], (deps? [(0, []), (1, [0])] k).isSome := by
  refine ⟨?_, by decide, by decide⟩
  intro a b ⟨ds, h1, h2⟩
  simp only [deps?, List.lookup] at h1
  split at h1
  · cases h1; simp at h2
  · split at h1
    · cases h1
      have : b = 0 := by simpa using h2
      subst this; rfl
    · cases h1

end Dask.C07
