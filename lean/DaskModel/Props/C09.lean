import DaskModel.Lemmas.LegacyOpt
import DaskModel.Props.C08
import DaskModel.Lemmas.Subs
import DaskModel.Lemmas.SubsRename
import DaskModel.Lemmas.SpecSubst
import DaskModel.Lemmas.SpecFuse
import DaskModel.Lemmas.SpecCullTotal
import DaskModel.Lemmas.FuseLinear5
import DaskModel.Lemmas.FusedName
/-!
# C09 — low-level graph optimisations preserve requested values

Model: `Dask.TaskTerm` (Model/TaskTerm.lean, Model/LegacyOpt.lean): `get_dependencies` (`legacyRefs`), `subs`,
`cull` of dask/optimization.py over legacy graphs, the statement-level legacy semantics `evalKeyL` (the semantics
`get_dependencies`/`subs`/`cull` are written against) and the real evaluation `coreGet` (conversion + execution, C08).

`cull`: proved at full strength w.r.t. the legacy semantics, for every graph and key list, and — since the two `fix:`
commits of the review round made the conversion agree with that semantics (C08 `convertGraph_preserves_eval`) — also
w.r.t. the *real* evaluation `dask.core.get`: `cull_preserves_get`. The former refutation witness
`cull({'a': 1, 'b': (f, (1, 'a'))}, 'b')` is kept as an example.
`fuse` and the other passes: every real output is validated per run (values, requested keys, dependency map);
see LEVEL_TEXT of harness/props/c09.py for what is proved vs validated.
-/
namespace Dask.C09
open Dask.TaskTerm

private theorem cull_unfold {g : LGraph} {keys : List Obj} {out : LGraph} {deps : List (Obj × List Obj)}
    (h : cull g keys = some (out, deps)) :
    ∃ V, cullLoop g (g.map Prod.fst) (g.length + 2) (dedup keys) [] [] = some V ∧ out = restrict g V ∧
      deps = V.map (fun k => (k, match g.lookup k with | some t => legacyRefs (g.map Prod.fst) t | none => [])) := by
  unfold cull at h
  simp only [Option.map_eq_some_iff, Prod.mk.injEq] at h
  obtain ⟨V, hV, h1, h2⟩ := h
  exact ⟨V, hV, h1.symm, h2.symm⟩

/-- **Requested keys stay**, with their task unchanged. -/
theorem cull_keeps_requested {g : LGraph} {keys : List Obj} {out : LGraph} {deps : List (Obj × List Obj)}
    (h : cull g keys = some (out, deps)) : ∀ k ∈ keys, ∃ t, g.lookup k = some t ∧ out.lookup k = some t := by
  obtain ⟨V, hV, rfl, _⟩ := cull_unfold h
  obtain ⟨hreq, hcl⟩ := cullLoop_closed g keys hV
  intro k hk
  obtain ⟨t, ht, _⟩ := hcl k (hreq k hk)
  have hall : ∀ x ∈ V, (g.lookup x).isSome := fun x hx => by
    obtain ⟨t', ht', _⟩ := hcl x hx; simp [ht']
  exact ⟨t, ht, by rw [lookup_restrict g V k hall]; simp [hreq k hk, ht]⟩

/-- the culled graph is a sub-graph … -/
theorem cull_subgraph {g : LGraph} {keys : List Obj} {out : LGraph} {deps : List (Obj × List Obj)}
    (h : cull g keys = some (out, deps)) : ∀ k t, out.lookup k = some t → g.lookup k = some t := by
  obtain ⟨V, hV, rfl, _⟩ := cull_unfold h
  obtain ⟨_, hcl⟩ := cullLoop_closed g keys hV
  have hall : ∀ x ∈ V, (g.lookup x).isSome := fun x hx => by
    obtain ⟨t', ht', _⟩ := hcl x hx; simp [ht']
  intro k t hk
  rw [lookup_restrict g V k hall] at hk
  split at hk
  · exact hk
  · cases hk

/-- … closed under `get_dependencies`: every key a kept task refers to is kept. -/
theorem cull_closed {g : LGraph} {keys : List Obj} {out : LGraph} {deps : List (Obj × List Obj)}
    (h : cull g keys = some (out, deps)) :
    ∀ k t, out.lookup k = some t → ∀ d ∈ legacyRefs (g.map Prod.fst) t, (out.lookup d).isSome := by
  obtain ⟨V, hV, rfl, _⟩ := cull_unfold h
  obtain ⟨_, hcl⟩ := cullLoop_closed g keys hV
  have hall : ∀ x ∈ V, (g.lookup x).isSome := fun x hx => by
    obtain ⟨t', ht', _⟩ := hcl x hx; simp [ht']
  intro k t hk d hd
  rw [lookup_restrict g V k hall] at hk
  split at hk
  · rename_i hkV
    obtain ⟨t', ht', hd'⟩ := hcl k hkV
    rw [ht'] at hk; cases hk
    have hdV := hd' d hd
    rw [lookup_restrict g V d hall]
    simp [hdV, hall d hdV]
  · cases hk

/-- **The returned dependency map matches the returned graph**: it has one entry per kept key, and the entry is
    `get_dependencies` of the kept task *computed in the returned graph*. -/
theorem cull_deps_match {g : LGraph} {keys : List Obj} {out : LGraph} {deps : List (Obj × List Obj)}
    (h : cull g keys = some (out, deps)) :
    deps = out.map (fun kt => (kt.1, legacyRefs (out.map Prod.fst) kt.2)) := by
  obtain ⟨V, hV, rfl, rfl⟩ := cull_unfold h
  obtain ⟨_, hcl⟩ := cullLoop_closed g keys hV
  have hall : ∀ x ∈ V, (g.lookup x).isSome := fun x hx => by
    obtain ⟨t', ht', _⟩ := hcl x hx; simp [ht']
  have hVK : ∀ k ∈ V, k ∈ g.map Prod.fst := fun k hk => lookup_isSome_mem_keys g k (hall k hk)
  rw [keys_restrict g V hall]
  -- both sides are maps over the visited list
  have : ∀ (W : List Obj), (∀ k ∈ W, k ∈ V) →
      W.map (fun k => (k, match g.lookup k with | some t => legacyRefs (g.map Prod.fst) t | none => [])) =
      (restrict g W).map (fun kt => (kt.1, legacyRefs V kt.2)) := by
    intro W
    induction W with
    | nil => intro _; simp [restrict]
    | cons x W ih =>
      intro hW
      obtain ⟨t, ht, hd⟩ := hcl x (hW x (by simp))
      have ih' := ih (fun k hk => hW k (List.mem_cons_of_mem _ hk))
      unfold restrict at ih' ⊢
      simp only [List.map_cons, List.filterMap_cons, ht, Option.map_some, ih']
      rw [legacyRefs_restrict (g.map Prod.fst) V hVK t hd]
  exact this V (fun _ h => h)

/-- **Same values** (legacy semantics): every kept key — in particular every requested key — denotes in the culled
    graph what it denotes in the original graph, for every cache and every recursion depth. -/
theorem cull_preserves_eval {g : LGraph} {keys : List Obj} {out : LGraph} {deps : List (Obj × List Obj)}
    (h : cull g keys = some (out, deps)) (hKt : ∀ k ∈ g.map Prod.fst, k.keyTyped = true)
    (cache : Obj → Option Obj) :
    ∀ (fuel : Nat) (k : Obj), (out.lookup k).isSome →
      evalKeyL out (out.map Prod.fst) cache fuel k = evalKeyL g (g.map Prod.fst) cache fuel k := by
  obtain ⟨V, hV, rfl, _⟩ := cull_unfold h
  obtain ⟨_, hcl⟩ := cullLoop_closed g keys hV
  have hall : ∀ x ∈ V, (g.lookup x).isSome := fun x hx => by
    obtain ⟨t', ht', _⟩ := hcl x hx; simp [ht']
  have hVK : ∀ k ∈ V, k ∈ g.map Prod.fst := fun k hk => lookup_isSome_mem_keys g k (hall k hk)
  rw [keys_restrict g V hall]
  intro fuel
  induction fuel with
  | zero => intro k _; rfl
  | succ n ih =>
    intro k hk
    rw [lookup_restrict g V k hall] at hk
    have hkV : k ∈ V := by
      by_cases hc : k ∈ V
      · exact hc
      · simp [hc] at hk
    obtain ⟨t, ht, hd⟩ := hcl k hkV
    simp only [evalKeyL, lookup_restrict g V k hall, hkV, if_true, ht]
    refine evalObj_restrict (g.map Prod.fst) V _ _ hVK hKt ?_ t hd
    intro d hdV
    exact ih d (by rw [lookup_restrict g V d hall]; simp [hdV, hall d hdV])

/-- `convert` answers an alias only for a key that is not a task: the object itself -/
theorem convert_alias (keys : List Obj) (v t : Obj) (h : convert keys v = .alias t) :
    t = v ∧ inKeys keys v = true ∧ v.isTask = false := by
  cases v with
  | tuple xs =>
    cases xs with
    | nil =>
      simp only [convert] at h
      split at h
      · rename_i hk; cases h; exact ⟨rfl, hk, rfl⟩
      · cases h
    | cons x xs =>
      simp only [convert] at h
      split at h
      · cases h
      · rename_i hc
        split at h
        · rename_i hk; cases h
          exact ⟨rfl, hk, by simpa [Obj.isTask, isTaskList] using hc⟩
        · cases h
  | list xs => simp only [convert] at h; split at h <;> cases h
  | dict kvs => simp only [convert] at h; split at h <;> cases h
  | int n =>
    simp only [convert] at h
    split at h
    · rename_i hk; cases h; exact ⟨rfl, hk, rfl⟩
    · cases h
  | str s =>
    simp only [convert] at h
    split at h
    · rename_i hk; cases h; exact ⟨rfl, hk, rfl⟩
    · cases h
  | none => simp [convert] at h
  | fn f => simp [convert] at h
  | quoted q => simp [convert] at h
  | app f a kw => simp [convert] at h

theorem convert_of_key (keys : List Obj) (v : Obj) (hk : inKeys keys v = true) (hnt : v.isTask = false) :
    convert keys v = .alias v := by
  cases v with
  | tuple xs =>
    cases xs with
    | nil => simp [convert, hk]
    | cons x xs =>
      have hc : x.callable = false := by simpa [Obj.isTask, isTaskList] using hnt
      simp [convert, hc, hk]
  | int n => simp [convert, hk]
  | str s => simp [convert, hk]
  | list xs => simp [inKeys, Obj.keyTyped] at hk
  | dict kvs => simp [inKeys, Obj.keyTyped] at hk
  | none => simp [inKeys, Obj.keyTyped] at hk
  | fn f => simp [inKeys, Obj.keyTyped] at hk
  | quoted q => simp [inKeys, Obj.keyTyped] at hk
  | app f a kw => simp [inKeys, Obj.keyTyped] at hk

/-- a legacy value that is (as a term) its own key is skipped by `convert_legacy_graph`; that happens for the same entries
    whatever superset of keys is used -/
theorem convertTop_none_iff (keys : List Obj) (k v : Obj) :
    convertTop keys k v = none ↔ (v = k ∧ inKeys keys v = true ∧ v.isTask = false) := by
  constructor
  · intro h
    unfold convertTop at h
    split at h
    · rename_i t ht
      obtain ⟨h1, h2, h3⟩ := convert_alias keys v t ht
      split at h
      · rename_i he; exact ⟨by rw [← h1]; exact eq_of_beq he, h2, h3⟩
      · cases h
    · cases h
    · cases h
    · cases h
  · rintro ⟨rfl, h2, h3⟩
    unfold convertTop
    rw [convert_of_key keys v h2 h3]
    simp

/-- **Same values under `dask.core.get`**: the conversion of the culled graph (with *its* key set) evaluates every
    kept key — in particular every requested key — exactly as the conversion of the original graph does, at every
    depth and for every cache. (Values well-formed, no entry that is its own alias.) -/
theorem cull_preserves_get {g : LGraph} {keys : List Obj} {out : LGraph} {deps : List (Obj × List Obj)}
    (h : cull g keys = some (out, deps)) (hKt : ∀ k ∈ g.map Prod.fst, k.keyTyped = true)
    (hwf : ∀ kv ∈ g, kv.2.wf = true) (hns : ∀ kv ∈ g, convertTop (g.map Prod.fst) kv.1 kv.2 ≠ none)
    (cache : Obj → Option Obj) :
    ∀ (fuel : Nat) (k : Obj), (out.lookup k).isSome →
      evalKeyN (convertGraph (out.map Prod.fst) out) cache fuel k =
        evalKeyN (convertGraph (g.map Prod.fst) g) cache fuel k := by
  have hsub := cull_subgraph h
  have hmem : ∀ kv ∈ out, kv ∈ g := fun kv hkv => by
    -- every entry of the culled graph is an entry of the original
    obtain ⟨V, hV, rfl, _⟩ := cull_unfold h
    unfold restrict at hkv
    simp only [List.mem_filterMap] at hkv
    obtain ⟨x, _, hx⟩ := hkv
    cases hl : g.lookup x with
    | none => rw [hl] at hx; cases hx
    | some t =>
      rw [hl] at hx
      simp only [Option.map_some, Option.some.injEq] at hx
      subst hx
      exact Dask.C08.lookup_mem g x t hl
  have hkeys : ∀ k ∈ out.map Prod.fst, k ∈ g.map Prod.fst := fun k hk => by
    obtain ⟨kv, hkv, rfl⟩ := List.mem_map.mp hk
    exact List.mem_map.mpr ⟨kv, hmem kv hkv, rfl⟩
  have hns' : ∀ kv ∈ out, convertTop (out.map Prod.fst) kv.1 kv.2 ≠ none := by
    intro kv hkv hc
    obtain ⟨h1, h2, h3⟩ := (convertTop_none_iff _ _ _).mp hc
    apply hns kv (hmem kv hkv)
    rw [convertTop_none_iff]
    refine ⟨h1, ?_, h3⟩
    unfold inKeys at h2 ⊢
    simp only [Bool.and_eq_true, List.contains_eq_mem, decide_eq_true_eq] at h2 ⊢
    exact ⟨h2.1, hkeys _ h2.2⟩
  intro fuel k hk
  rw [Dask.C08.convertGraph_preserves_eval out _ cache (fun kv hkv => hwf kv (hmem kv hkv)) hns' fuel k,
    Dask.C08.convertGraph_preserves_eval g _ cache hwf hns fuel k]
  exact cull_preserves_eval h hKt cache fuel k hk

/-- the former refutation witness `cull({'a': 1, 'b': (f, (1, 'a'))}, 'b')`: `b` keeps its value `f((1, 'a'))` -/
example : cull [(.str "a", .int 1), (.str "b", .tuple [.fn 0, .tuple [.int 1, .str "a"]])] [.str "b"] =
      some ([(.str "b", .tuple [.fn 0, .tuple [.int 1, .str "a"]])], [(.str "b", [])]) ∧
    coreGet [(.str "b", .tuple [.fn 0, .tuple [.int 1, .str "a"]])] (.str "b") =
      coreGet [(.str "a", .int 1), (.str "b", .tuple [.fn 0, .tuple [.int 1, .str "a"]])] (.str "b") := by decide


/-! ### substitution-based passes (`inline`, `inline_functions`, `fuse_linear`, `fuse`)

They are built from three steps: `subs(dsk[b], a, dsk[a])`, deleting a key that is no longer referenced, and renaming.
The first two are proved here for every graph, environment and key; that the real passes apply only such steps, in a
valid order, is validated on every run by evaluating their outputs (harness `opt` section). "Values" are taken
equationally: a valuation `ρ` is a `Solution` of a graph when every key's value is the value of its task under `ρ`
(what `execute_graph` establishes); on a DAG the solution is unique (`dag_values_unique`). -/

/-- **`subs` preserves meaning**: replacing a key by its definition does not change the value of any term, in any
    environment that gives the key the value of that definition. -/
theorem subs_preserves_eval (K : List Obj) (env : Obj → Option Obj) (key val : Obj) (hk : inKeys K key = true)
    (hv : env key = evalObj K env val) (o : Obj) : evalObj K env (subs key val o) = evalObj K env o :=
  subs_eval K env key val hk hv o

/-- **One inlining step keeps exactly the same solutions** (hence the same values for every key, requested or not). -/
theorem inline_step_preserves_solutions (g : LGraph) (K : List Obj) (cache ρ : Obj → Option Obj) (a b ta tb : Obj)
    (hab : a ≠ b) (ha : g.lookup a = some ta) (hb : g.lookup b = some tb) (haK : inKeys K a = true) :
    Solution (setEntry g b (subs a ta tb)) K cache ρ ↔ Solution g K cache ρ :=
  inline_step_solutions_iff g K cache ρ a b ta tb hab ha hb haK

/-- **Deleting an unreferenced key keeps every other value** (and the values of the remaining keys do not depend on
    the removed key being a key). -/
theorem drop_unreferenced_preserves_values (g : LGraph) (K : List Obj) (hKt : ∀ k ∈ K, k.keyTyped = true)
    (cache ρ : Obj → Option Obj) (a : Obj)
    (hunref : ∀ k t, k ≠ a → g.lookup k = some t → a ∉ legacyRefs K t) (h : Solution g K cache ρ) :
    ∀ k, k ≠ a → ρ k = match (dropEntry g a).lookup k with
      | some t => evalObj (K.filter (fun x => !(x == a))) ρ t
      | none => cache k :=
  drop_unreferenced_solution g K hKt cache ρ a hunref h

/-- **On a DAG the graph's equations determine every value.** -/
theorem dag_values_unique (g : LGraph) (K : List Obj) (hKt : ∀ k ∈ K, k.keyTyped = true) (cache : Obj → Option Obj)
    (rank : Obj → Nat) (hdag : ∀ k t, g.lookup k = some t → ∀ d ∈ legacyRefs K t, rank d < rank k)
    (ρ ρ' : Obj → Option Obj) (h : Solution g K cache ρ) (h' : Solution g K cache ρ') : ∀ k, ρ k = ρ' k :=
  solution_unique g K hKt cache rank hdag ρ ρ' h h'


/-- **The proved checker for real optimiser outputs** (`fuse`, `fuse_linear` without renaming, `inline`,
    `inline_functions`): when `fuseOK g h S req` accepts the pair (input graph, output graph), every valuation satisfying
    the input's equations satisfies the output's equations over the output's key set, and all requested keys are kept —
    with `dag_values_unique`: the requested values are unchanged. The harness feeds every real output through it. -/
theorem fuseOK_sound (g h : LGraph) (S req : List Obj) (hok : fuseOK g h S req = true)
    (hKt : ∀ k ∈ g.map Prod.fst, k.keyTyped = true) (cache ρ : Obj → Option Obj)
    (hsol : Solution g (g.map Prod.fst) cache ρ) :
    (∀ k ∈ req, k ∈ h.map Prod.fst) ∧ ∀ k t, (k, t) ∈ h → ρ k = evalObj (h.map Prod.fst) ρ t :=
  Dask.TaskTerm.fuseOK_sound g h S req hok hKt cache ρ hsol

/-- non-vacuity: `fuse({'a': 1, 'b': (inc, 'a'), 'c': (inc, 'b')}, keys=['c'], rename_keys=False)` is accepted … -/
example : fuseOK [(.str "a", .int 1), (.str "b", .tuple [.fn 0, .str "a"]), (.str "c", .tuple [.fn 0, .str "b"])]
    [(.str "c", .tuple [.fn 0, .tuple [.fn 0, .int 1]])] [.str "a", .str "b"] [.str "c"] = true := by decide
/-- … and an output that forgot to substitute `a` is rejected -/
example : fuseOK [(.str "a", .int 1), (.str "b", .tuple [.fn 0, .str "a"]), (.str "c", .tuple [.fn 0, .str "b"])]
    [(.str "c", .tuple [.fn 0, .tuple [.fn 0, .str "a"]])] [.str "a", .str "b"] [.str "c"] = false := by decide

/-- **The proved checker for outputs with renamed keys** (`fuse` / `fuse_linear` with `rename_keys=True` or a custom
    renamer: `rv[new] = rv[old]; rv[old] = new`, references to `old` replaced by `new` or not, `old` deleted or not): when
    `fuseOKR g h S R req` accepts, every valuation satisfying the input's equations, extended by `new ↦ value of old`,
    satisfies the output's equations over the output's key set, and all requested keys are kept. -/
theorem fuseOKR_sound (g h : LGraph) (S : List Obj) (R : List (Obj × Obj)) (req : List Obj)
    (hok : fuseOKR g h S R req = true) (hKt : ∀ k ∈ g.map Prod.fst, k.keyTyped = true)
    (cache ρ : Obj → Option Obj) (hsol : Solution g (g.map Prod.fst) cache ρ) :
    (∀ k ∈ req, k ∈ h.map Prod.fst) ∧
    ∀ k t, (k, t) ∈ h → extendR R ρ k = evalObj (h.map Prod.fst) (extendR R ρ) t :=
  Dask.TaskTerm.fuseOKR_sound g h S R req hok hKt cache ρ hsol

/-- non-vacuity: the doc-string example of `fuse_linear`: `{'a': 1, 'b': (inc, 'a'), 'c': (inc, 'b')}` ↦
    `{'a-b-c': (inc, (inc, 1)), 'c': 'a-b-c'}` is accepted … -/
example : fuseOKR [(.str "a", .int 1), (.str "b", .tuple [.fn 0, .str "a"]), (.str "c", .tuple [.fn 0, .str "b"])]
    [(.str "a-b-c", .tuple [.fn 0, .tuple [.fn 0, .int 1]]), (.str "c", .str "a-b-c")]
    [.str "a", .str "b"] [(.str "c", .str "a-b-c")] [.str "c"] = true := by decide
/-- … and rejected when the new name is a key of the input graph (the other entry would be overwritten) -/
example : fuseOKR [(.str "a", .int 1), (.str "b", .tuple [.fn 0, .str "a"]), (.str "c", .tuple [.fn 0, .str "b"])]
    [(.str "a", .tuple [.fn 0, .tuple [.fn 0, .int 1]]), (.str "c", .str "a")]
    [.str "b"] [(.str "c", .str "a")] [.str "c"] = false := by decide

/-- non-vacuity: the doc-string example of `inline`: `z = (add, 'x', 'y')`, inlining `y = (inc, 'x')` -/
example : subs (.str "y") (.tuple [.fn 1, .str "x"]) (.tuple [.fn 0, .str "x", .str "y"]) =
    .tuple [.fn 0, .str "x", .tuple [.fn 1, .str "x"]] := by decide

/-- `subs` looks inside dict values (since ca6daad) but *not* inside non-task tuples: they are literals, for the
    conversion too since the second fix of the review round -/
example : subs (.str "a") (.int 1) (.tuple [.fn 0, .dict [(.str "x", .str "a")], .tuple [.int 1, .str "a"]]) =
    .tuple [.fn 0, .dict [(.str "x", .int 1)], .tuple [.int 1, .str "a"]] := by decide

/-! non-vacuity -/
example : cull [(.str "x", .int 1), (.str "y", .tuple [.fn 0, .str "x"]), (.str "out", .tuple [.fn 1, .str "x", .int 10])]
    [.str "out"] = some ([(.str "out", .tuple [.fn 1, .str "x", .int 10]), (.str "x", .int 1)],
                         [(.str "out", [.str "x"]), (.str "x", [])]) := by decide

/-! ### non-vacuity of the hypotheses of the substitution theorems -/

/-- non-vacuity: a solution of `{'a': 1, 'b': (f, 'a')}` -/
example : Solution [(.str "a", .int 1), (.str "b", .tuple [.fn 0, .str "a"])] [.str "a", .str "b"] (fun _ => none)
    (fun k => if k == .str "a" then some (.int 1) else if k == .str "b" then some (.app 0 [.int 1] []) else none) := by
  intro k
  by_cases ha : k = .str "a"
  · subst ha; decide
  · by_cases hb : k = .str "b"
    · subst hb; decide
    · have h1 : (k == Obj.str "a") = false := by simpa using ha
      have h2 : (k == Obj.str "b") = false := by simpa using hb
      simp [List.lookup, h1, h2]

/-- non-vacuity of the hypotheses of `inline_step_preserves_solutions` / `drop_unreferenced_preserves_values` /
    `dag_values_unique` on `{'a': 1, 'b': (f, 'a')}` -/
example : (Obj.str "a" ≠ .str "b") ∧
    ([(.str "a", .int 1), (.str "b", .tuple [.fn 0, .str "a"])] : LGraph).lookup (.str "a") = some (.int 1) ∧
    inKeys [.str "a", .str "b"] (.str "a") = true := by decide
example : ∀ k t, k ≠ Obj.str "b" →
    ([(.str "a", .int 1), (.str "b", .tuple [.fn 0, .str "a"])] : LGraph).lookup k = some t →
    Obj.str "b" ∉ legacyRefs [.str "a", .str "b"] t := by
  intro k t hk hl
  simp only [List.lookup] at hl
  split at hl
  · cases hl; decide
  · split at hl
    · rename_i h; exact absurd (eq_of_beq h) hk
    · cases hl
example : ∀ k t, ([(.str "a", .int 1), (.str "b", .tuple [.fn 0, .str "a"])] : LGraph).lookup k = some t →
    ∀ d ∈ legacyRefs [.str "a", .str "b"] t,
      (fun o : Obj => if o == .str "b" then 1 else 0) d < (fun o : Obj => if o == .str "b" then 1 else 0) k := by
  intro k t hl
  simp only [List.lookup] at hl
  split at hl
  · cases hl; intro d hd; simp [legacyRefs, Obj.hashable] at hd
  · split at hl
    · rename_i h
      have : k = .str "b" := eq_of_beq h
      subst this; cases hl; decide
    · cases hl

/-! ## task-spec passes (dask/_task_spec.py): `cull`, `GraphNode.substitute`, `resolve_aliases`, `GraphNode.fuse`,
`fuse_linear_task_spec`

Model: Model/SpecOpt.lean. "Same values" is stated with `Computes g cache k v` = *some evaluation depth of the
dependency recursion yields `v`* (the least fixpoint of the graph's equations — what `execute_graph` computes on a DAG;
`cache` holds the keys outside the graph), resp. `ComputesF` for graphs that contain fused tasks
(`_execute_subgraph`). `Computes`/`ComputesF` are functional (`Computes.unique`). -/

/-- **task-spec `cull`**: the result contains every requested key of the graph, is a sub-graph, is closed under the
    dependencies that exist in the graph, and every kept key evaluates exactly as before — at every depth, for every
    cache. -/
theorem spec_cull_preserves_eval {g out : NGraph} {keys : List Obj} (h : cullSpec g keys = some out)
    (cache : Obj → Option Obj) :
    (∀ k ∈ keys, (g.lookup k).isSome → (out.lookup k).isSome) ∧
    (∀ k n, out.lookup k = some n → g.lookup k = some n) ∧
    (∀ k n, out.lookup k = some n → ∀ d ∈ n.deps, (g.lookup d).isSome → (out.lookup d).isSome) ∧
    ∀ fuel k, (out.lookup k).isSome → evalKeyN out cache fuel k = evalKeyN g cache fuel k := by
  unfold cullSpec at h
  split at h
  · cases h
    exact ⟨fun _ _ h => h, fun _ _ h => h, fun _ _ _ _ _ h => h, fun _ _ _ => rfl⟩
  · simp only [Option.map_eq_some_iff] at h
    obtain ⟨V, hV, rfl⟩ := h
    obtain ⟨hreq, hcl⟩ := cullSpecLoop_closed g keys hV
    have hsub : ∀ k n, (restrictTo g V).lookup k = some n → g.lookup k = some n := fun k n hk => by
      rw [lookup_restrictTo] at hk
      split at hk
      · exact hk
      · cases hk
    have hclo : ∀ k n, (restrictTo g V).lookup k = some n → ∀ d ∈ n.deps, (g.lookup d).isSome →
        ((restrictTo g V).lookup d).isSome := fun k n hk d hd hdg => by
      rw [lookup_restrictTo] at hk
      split at hk
      · rename_i hkV
        obtain ⟨n', hn', hd'⟩ := hcl k hkV
        rw [hn'] at hk; cases hk
        rw [lookup_restrictTo, if_pos (hd' d hd hdg)]; exact hdg
      · cases hk
    refine ⟨?_, hsub, hclo, evalKeyN_subgraph g _ cache hsub hclo⟩
    intro k hk hg
    rw [lookup_restrictTo, if_pos (hreq k hk hg)]; exact hg

/-- **task-spec `cull` always returns**: the worklist loop terminates within the model's fuel (every pop either discards
    a pending key or visits a new entry and pushes its dependencies), so the hypothesis of `spec_cull_preserves_eval` is
    satisfied for every graph and key list. -/
theorem spec_cull_total (g : NGraph) (keys : List Obj) : ∃ out, cullSpec g keys = some out :=
  cullSpec_total g keys

/-- non-vacuity: `cull({'a': Data, 'b': Task(f, a), 'c': Task(f, a)}, ['b'])` keeps `b` and `a` -/
example : cullSpec [(.str "a", .data (.int 1)), (.str "b", .task (.call (.fn 0)) [.ref (.str "a")] []),
    (.str "c", .task (.call (.fn 0)) [.ref (.str "a")] [])] [.str "b"] =
    some [(.str "b", .task (.call (.fn 0)) [.ref (.str "a")] []), (.str "a", .data (.int 1))] := by decide

/-- **`GraphNode.substitute` preserves the value of a node** in every environment in which each renamed dependency
    has the value of its new key and each inlined dependency the value of the node put in its place. Through aliases,
    `TaskRef`s, nested tasks, containers and keyword arguments. -/
theorem substitute_preserves_eval (env : Obj → Option Obj) (σ : List (Obj × SubVal)) (n : Node)
    (h : ∀ d ∈ n.deps, substEnv env σ d = env d) : evalNode env (substNode σ n) = evalNode env n :=
  substNode_eval_valid env σ n h

/-- … and in general: evaluating the substituted node is evaluating the node in the substituted environment -/
theorem substitute_eval (env : Obj → Option Obj) (σ : List (Obj × SubVal)) (n : Node) :
    evalNode env (substNode σ n) = evalNode (substEnv env σ) n := substNode_eval env σ n

/-- **Inlining a dependency into every node that refers to it** (`n.substitute({a: dsk[a]})`) changes no value. -/
theorem substitute_inline_preserves_values (g : NGraph) (a : Obj) (ta : Node) (hta : g.lookup a = some ta)
    (cache : Obj → Option Obj) (k v : Obj) : Computes (inlineKey g a ta) cache k v ↔ Computes g cache k v :=
  inlineKey_computes g a ta hta cache k v

/-- **Renaming a dependency everywhere** (`n.substitute({old: fresh})`, with `fresh` an alias of `old`) changes no
    value, provided `fresh` is new to the graph. -/
theorem substitute_rename_preserves_values (g : NGraph) (old fresh : Obj) (hfk : g.lookup fresh = none)
    (hfr : ∀ k n, g.lookup k = some n → fresh ∉ n.deps) (hne : old ≠ fresh) (cache : Obj → Option Obj)
    (k v : Obj) (hk : k ≠ fresh) : Computes (renameDep g old fresh) cache k v ↔ Computes g cache k v :=
  renameDep_computes g old fresh hfk hfr hne cache k v hk

/-- non-vacuity: `Task(f, TaskRef('x'), Alias('y')).substitute({'x': 'z', 'y': DataNode(1)})` -/
example : substNode [(.str "x", .key (.str "z")), (.str "y", .node (.data (.int 1)))]
    (.task (.call (.fn 0)) [.ref (.str "x"), .alias (.str "y")] []) =
    .task (.call (.fn 0)) [.ref (.str "z"), .data (.int 1)] [] := by decide
example : (inlineKey [(.str "a", .data (.int 1)), (.str "b", .task (.call (.fn 0)) [.ref (.str "a")] [])] (.str "a")
    (.data (.int 1))).lookup (.str "b") = some (.task (.call (.fn 0)) [.data (.int 1)] []) := by decide

/-- **`resolve_aliases`**: for a graph with duplicate-free keys and a `dependents` mapping that gives, for every key of
    the graph, the number of entries that refer to it (what `reverse_dict(DependenciesMapping(dsk))` gives — the mapping
    is *not* updated by the function, the proof shows the counts stay right), every requested key stays in the graph
    and every key that stays computes the same value as before. -/
theorem resolve_aliases_preserves_eval (g out : NGraph) (keys : List Obj) (nd : Obj → Nat)
    (hnodup : (g.map Prod.fst).Nodup) (hnd : ∀ x, (g.lookup x).isSome → countRefs g x = nd x)
    (h : resolveAliases g keys nd = some out) (cache : Obj → Option Obj) :
    (∀ k ∈ keys, (g.lookup k).isSome → (out.lookup k).isSome) ∧
    (∀ k, (out.lookup k).isSome → (g.lookup k).isSome) ∧
    ∀ k, (out.lookup k).isSome → ∀ v, Computes out cache k v ↔ Computes g cache k v := by
  unfold resolveAliases at h
  split at h
  · cases h
  · have hi0 : ResInv g keys nd cache g :=
      ⟨hnodup, hnd, fun _ h => h, fun _ _ _ => Iff.rfl, fun _ _ h => h⟩
    have hi := resolveLoop_inv g keys nd cache _ g _ _ out hi0 h
    exact ⟨hi.reqIn, hi.sub, hi.sem⟩

/-- non-vacuity: the doc-string example `{'x': 1, 'y': Alias('x'), 'z': Alias('y')}`, keys `{'z'}` ↦ `{'z': 1}` -/
example : resolveAliases [(.str "x", .data (.int 1)), (.str "y", .alias (.str "x")), (.str "z", .alias (.str "y"))]
    [.str "z"] (fun k => if k == .str "x" then 1 else if k == .str "y" then 1 else 0) =
    some [(.str "z", .data (.int 1))] := by decide
example : countRefs [(.str "x", .data (.int 1)), (.str "y", .alias (.str "x")), (.str "z", .alias (.str "y"))]
    (.str "x") = 1 := by decide

/-- **The proved checker for fused graphs** (`fuse_linear_task_spec`, `GraphNode.fuse`): if `fuseSpecOK g req out`
    accepts — `out` is `g` with disjoint groups of entries replaced by `_execute_subgraph` tasks whose inner keys other
    than the output are private (not requested, removed, referred to only from inside), stored under the output key or
    under a name new to the graph with an alias left behind — then all requested keys are kept and every key present in
    both graphs computes the same value. The harness passes every real output through the compiled checker. -/
theorem fuse_spec_preserves_eval (g : NGraph) (req : List Obj) (out : FGraph) (hok : fuseSpecOK g req out = true)
    (cache : Obj → Option Obj) :
    (∀ k ∈ req, (g.lookup k).isSome → (out.lookup k).isSome) ∧
    ∀ k, (g.lookup k).isSome → (out.lookup k).isSome → ∀ v, ComputesF out cache k v ↔ Computes g cache k v :=
  fuseSpecOK_sound g req out hok cache

/-- non-vacuity: `a → b → c` fused into one task stored under the new name `n` with `c` aliased to it … -/
example : fuseSpecOK
    [(.str "a", .data (.int 1)), (.str "b", .task (.call (.fn 0)) [.ref (.str "a")] []),
     (.str "c", .task (.call (.fn 1)) [.ref (.str "b")] [])] [.str "c"]
    [(.str "n", .fused [(.str "a", .data (.int 1)), (.str "b", .task (.call (.fn 0)) [.ref (.str "a")] []),
                        (.str "c", .task (.call (.fn 1)) [.ref (.str "b")] [])] (.str "c") []),
     (.str "c", .plain (.alias (.str "n")))] = true := by decide
/-- … is rejected when the inner key `b` is requested (it would disappear) … -/
example : fuseSpecOK
    [(.str "a", .data (.int 1)), (.str "b", .task (.call (.fn 0)) [.ref (.str "a")] []),
     (.str "c", .task (.call (.fn 1)) [.ref (.str "b")] [])] [.str "b"]
    [(.str "c", .fused [(.str "b", .task (.call (.fn 0)) [.ref (.str "a")] []),
                        (.str "c", .task (.call (.fn 1)) [.ref (.str "b")] [])] (.str "c") [.str "a"]),
     (.str "a", .plain (.data (.int 1)))] = false := by decide
/-- … and the fused graph evaluates `c` to `f1(f0(1))` -/
example : evalKeyF
    [(.str "n", .fused [(.str "a", .data (.int 1)), (.str "b", .task (.call (.fn 0)) [.ref (.str "a")] []),
                        (.str "c", .task (.call (.fn 1)) [.ref (.str "b")] [])] (.str "c") []),
     (.str "c", .plain (.alias (.str "n")))] (fun _ => none) 6 (.str "c") =
    some (.app 1 [.app 0 [.int 1] []] []) := by decide

/-- **`fuse_linear_task_spec` preserves the requested values — for all inputs.** For every task-spec DAG (a rank that
    decreases along dependencies) with duplicate-free keys, every list of requested keys and *every* renamer (in
    particular one with collisions: the code falls back to the top key when a name is taken), the transliterated
    `fuse_linear_task_spec` (walk down / walk up over `dependencies`/`dependents`, `seen`, `GraphNode.fuse`, alias to the
    renamed key) returns a graph that contains every requested key of the input and in which every key present in both
    graphs computes the same value, whatever the cache holds for keys outside the graph. Proof: the loop invariant `FLInv`
    (every seen key is either an untouched entry or an inner key of exactly one fused chain whose non-top keys have their
    successor as only dependent and are not requested) gives the conditions of `fuse_spec_preserves_eval`. -/
theorem fuse_linear_task_spec_preserves_eval (g : NGraph) (req : List Obj) (rename : List Obj → Option Obj)
    {rank : Obj → Nat} (hnodup : (g.map Prod.fst).Nodup) (hdag : DagRank g rank) (cache : Obj → Option Obj) :
    (∀ k ∈ req, (g.lookup k).isSome → ((fuseLinearSpec g req rename).lookup k).isSome) ∧
    ∀ k, (g.lookup k).isSome → ((fuseLinearSpec g req rename).lookup k).isSome →
      ∀ v, ComputesF (fuseLinearSpec g req rename) cache k v ↔ Computes g cache k v :=
  fuseLinearSpec_preserves_eval g req rename hnodup hdag cache

/-- non-vacuity: `a → b → c` is a DAG with unique keys, and with `c` requested it is fused into one task stored under
    the renamer's name with `c` left as an alias -/
example : DagRank [(.str "a", .data (.int 1)), (.str "b", .task (.call (.fn 0)) [.ref (.str "a")] []),
      (.str "c", .task (.call (.fn 1)) [.ref (.str "b")] [])]
    (fun k => if k == .str "c" then 2 else if k == .str "b" then 1 else 0) := by
  intro k n hm d hd
  simp only [List.mem_cons, Prod.mk.injEq, List.not_mem_nil, or_false] at hm
  rcases hm with ⟨rfl, rfl⟩ | ⟨rfl, rfl⟩ | ⟨rfl, rfl⟩
  · simp [Node.deps] at hd
  · simp [Node.deps, depsList, depsKw] at hd; subst hd; decide
  · simp [Node.deps, depsList, depsKw] at hd; subst hd; decide
example : (fuseLinearSpec [(.str "a", .data (.int 1)), (.str "b", .task (.call (.fn 0)) [.ref (.str "a")] []),
      (.str "c", .task (.call (.fn 1)) [.ref (.str "b")] [])] [.str "c"] (fun _ => some (.str "n"))).map Prod.fst =
    [.str "n", .str "c"] ∧
    evalKeyF (fuseLinearSpec [(.str "a", .data (.int 1)), (.str "b", .task (.call (.fn 0)) [.ref (.str "a")] []),
      (.str "c", .task (.call (.fn 1)) [.ref (.str "b")] [])] [.str "c"] (fun _ => some (.str "n")))
      (fun _ => none) 6 (.str "c") = some (.app 1 [.app 0 [.int 1] []] []) := by decide

/-! ### names of fused tasks (`default_fused_keys_renamer`) -/

open Dask.FusedName in
/-- **Two chains of identical operations over different data get different names** before truncation: the name ends
    with the full key of the chain's top task. -/
theorem fused_names_differ_on_top_key (names : List (List Char)) (firstName a b : List Char)
    (h : concatName names firstName a = concatName names firstName b) : a = b :=
  concatName_inj_last names firstName a b h

open Dask.FusedName in
/-- **Truncation keeps names apart exactly as well as the hash suffix does**: the keys of two names coincide iff the
    names are equal, or both are over-long, agree on the kept prefix and have the same digest *of the full name*. -/
theorem fused_key_collision_iff (t c : Nat) (digest : List Char → List Char) (a b : List Char) (hc : c ≤ t)
    (hlen : ∀ x, t < c + 1 + (digest x).length) :
    enforceLimit (some t) c digest a = enforceLimit (some t) c digest b ↔
      a = b ∨ (t < a.length ∧ t < b.length ∧ a.take c = b.take c ∧ digest a = digest b) :=
  enforceLimit_eq_iff t c digest a b hc hlen

open Dask.FusedName in
/-- non-vacuity (limit 6, 2-character digest): over-long names with a common prefix are told apart by the digest -/
example : enforceLimit (some 6) 6 (fun x => x.drop 7) "abcdefgXY".toList = "abcdef-XY".toList ∧
    enforceLimit (some 6) 6 (fun x => x.drop 7) "abcdefgZW".toList = "abcdef-ZW".toList ∧
    enforceLimit (some 6) 6 (fun x => x.drop 7) "abc".toList = "abc".toList := by decide

open Dask.FusedName Dask.Generated.FusedKeyRenamer in
/-- **The renamer as it is in the source** (`slack`, `room`, `digestLen` are re-extracted from dask/optimization.py on
    every run): for every limit `m > slack` and every digest of `digestLen` characters, two concatenated names get the
    same key iff they are equal, or both are longer than `m - slack`, agree on the first `m - slack - room` characters
    and have the same digest of the full name. A cut name is always longer than an uncut one. -/
theorem renamer_collision_iff (m : Nat) (hm : slack < m) (digest : List Char → List Char)
    (hd : ∀ x, (digest x).length = digestLen) (a b : List Char) :
    renamerLimit (some m) digest a = renamerLimit (some m) digest b ↔
      a = b ∨ (m - slack < a.length ∧ m - slack < b.length ∧ a.take (m - slack - room) = b.take (m - slack - room) ∧
               digest a = digest b) := by
  have h1 : m ≠ slack := by omega
  have h2 : ¬ m < slack := by omega
  have hr : ∀ x, renamerLimit (some m) digest x = enforceLimit (some (m - slack)) (m - slack - room) digest x := by
    intro x
    cases m with
    | zero => omega
    | succ m' => simp only [renamerLimit, h1, h2, if_false]
  rw [hr a, hr b]
  apply enforceLimit_eq_iff
  · omega
  · intro x; rw [hd x]; unfold room digestLen; omega

open Dask.FusedName Dask.Generated.FusedKeyRenamer in
/-- the key of a fused chain never exceeds the limit `m` (for `m ≥ slack + room`) -/
theorem renamer_length_le (m : Nat) (hm : slack + room ≤ m) (digest : List Char → List Char)
    (hd : ∀ x, (digest x).length = digestLen) (a : List Char) : (renamerLimit (some m) digest a).length ≤ m := by
  have h1 : m ≠ slack := by unfold slack room at hm; unfold slack; omega
  have h2 : ¬ m < slack := by unfold slack room at hm; unfold slack; omega
  have hr : renamerLimit (some m) digest a = enforceLimit (some (m - slack)) (m - slack - room) digest a := by
    cases m with
    | zero => unfold slack room at hm; omega
    | succ m' => simp only [renamerLimit, h1, h2, if_false]
  rw [hr]
  have := enforceLimit_length (m - slack) (m - slack - room) digest a
  rw [hd a] at this
  unfold slack room digestLen at *
  omega

open Dask.FusedName Dask.Generated.FusedKeyRenamer in
/-- non-vacuity: the default limit satisfies the hypotheses -/
example : slack < defaultMaxLen ∧ slack + room ≤ defaultMaxLen := by decide

end Dask.C09
