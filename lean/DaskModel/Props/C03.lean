import DaskModel.Props.C01
/-!
# C03 — intermediate results are never released early and never leaked

State components: `cache` (computed values held), `waitingData` (key ↦ dependents that still need it),
`released`.  All statements hold in every reachable state, for every completion order (see C02 for the
reading of `mainLoop … = ok (s', o)`).
-/
namespace Dask.C03
open Dask.Sched Dask.C01
variable {α : Type} {cfg : Cfg} {P : Params α} {rank : Key → Nat} {st0 : State α}

/-- **`no_early_release`**: as long as a dependent `k` of `d` has not finished, `d` is not released; and when
`k` is ready or running the value of `d` is in the cache (so `state["cache"][dep]` in `fire_tasks` cannot raise) -/
theorem no_early_release (h : Hyp cfg rank) (hs : StartOK cfg (den cfg P rank) st0)
    (choices : List Nat) (s' : Sys α) (o : Outcome) (hrun : mainLoop cfg P choices (sys0 st0) = .ok (s', o))
    (k d : Key) (hd : d ∈ s'.st.depsOf k) (hk : k ∉ s'.st.finished) :
    d ∉ s'.st.released ∧
    ((k ∈ s'.st.ready ∨ k ∈ s'.st.running) → s'.st.cache.get? d = some (den cfg P rank d)) := by
  obtain ⟨⟨rest, hB⟩, _⟩ := reach_inv P (den_fixpoint cfg P rank h) h.nw h.cs rank h.acyclic hs hrun
  refine ⟨hB.inv.not_released_of_dep hd hk, ?_⟩
  intro hact
  obtain ⟨v, hv⟩ := hB.inv.dep_cached hact hd
  rw [hv, hB.sound d v hv]

/-- **`release_once`**: `finish_task` for a running task never raises: the `assert not waiting_data[key]`,
the `del cache[key]` and all the `.remove(key)` calls succeed; in particular no key is released twice -/
theorem release_once (h : Hyp cfg rank) (hs : StartOK cfg (den cfg P rank) st0)
    (choices : List Nat) (s' : Sys α) (o : Outcome) (hrun : mainLoop cfg P choices (sys0 st0) = .ok (s', o))
    (key : Key) (hk : key ∈ s'.st.running) (res : α) :
    ∃ st', finishTask cfg key { s'.st with cache := s'.st.cache.set key res } = .ok st' ∧ st'.released.Nodup := by
  obtain ⟨⟨rest, hB⟩, _⟩ := reach_inv P (den_fixpoint cfg P rank h) h.nw h.cs rank h.acyclic hs hrun
  obtain ⟨st', hok, hinv, _⟩ := hB.inv.complete hk res
  exact ⟨st', hok, hinv.releasedNodup⟩

/-- **`released_only_when_unneeded`**: a released key is never a requested one, and every task that depends on
it has finished (`release_data` is called only with an empty `waiting_data` entry) -/
theorem released_only_when_unneeded (h : Hyp cfg rank) (hs : StartOK cfg (den cfg P rank) st0)
    (choices : List Nat) (s' : Sys α) (o : Outcome) (hrun : mainLoop cfg P choices (sys0 st0) = .ok (s', o))
    (d : Key) (hd : d ∈ s'.st.released) :
    d ∉ cfg.results ∧ (∀ j, d ∈ s'.st.depsOf j → j ∈ s'.st.finished) ∧ s'.st.cache.get? d = none := by
  obtain ⟨⟨rest, hB⟩, _⟩ := reach_inv P (den_fixpoint cfg P rank h) h.nw h.cs rank h.acyclic hs hrun
  obtain ⟨hseen, hres, hdone, hdts⟩ := hB.inv.relOnly d hd
  refine ⟨hres, fun j hj => hdts j ((hB.inv.dtsIff d j).mpr hj), ?_⟩
  cases hc : s'.st.cache.get? d with
  | none => rfl
  | some v => exact absurd hd ((hB.inv.cacheIff d hseen).mp ⟨v, hc⟩).2

/-- **`released_promptly`**: in every reachable state (between loop iterations, at the end, at a failure) a visited key
that is not requested and whose dependents have all finished HAS been released - memory is given back as soon as the
last dependent finishes, not merely by the time the call returns. -/
theorem released_promptly (h : Hyp cfg rank) (hs : StartOK cfg (den cfg P rank) st0)
    (choices : List Nat) (s' : Sys α) (o : Outcome) (hrun : mainLoop cfg P choices (sys0 st0) = .ok (s', o))
    (d : Key) (hseen : s'.st.seen d) (hres : d ∉ cfg.results) (hall : ∀ j, d ∈ s'.st.depsOf j → j ∈ s'.st.finished) :
    d ∈ s'.st.released := by
  obtain ⟨⟨rest, hB⟩, _⟩ := reach_inv P (den_fixpoint cfg P rank h) h.nw h.cs rank h.acyclic hs hrun
  apply Classical.byContradiction
  intro hnr
  cases hwd : s'.st.waitingData.get? d with
  | none => exact hnr ((hB.inv.relIff d hseen).mp hwd)
  | some l =>
    obtain ⟨j, hj⟩ := List.exists_mem_of_ne_nil l (hB.inv.wdLive d l hwd hres)
    obtain ⟨hjd, hjf⟩ := (hB.inv.wdExact d l hwd j).mp hj
    exact hjf (hall j ((hB.inv.dtsIff d j).mp hjd))

/-- **`results_never_released`** -/
theorem results_never_released (h : Hyp cfg rank) (hs : StartOK cfg (den cfg P rank) st0)
    (choices : List Nat) (s' : Sys α) (o : Outcome) (hrun : mainLoop cfg P choices (sys0 st0) = .ok (s', o))
    (r : Key) (hr : r ∈ cfg.results) : r ∉ s'.st.released :=
  fun hrel => (released_only_when_unneeded h hs choices s' o hrun r hrel).1 hr

/-- **`no_leak`**: when the call returns normally the cache holds exactly the requested keys, and every other
visited key has been released -/
theorem no_leak (h : Hyp cfg rank) (hs : StartOK cfg (den cfg P rank) st0)
    (choices : List Nat) (s' : Sys α) (hrun : mainLoop cfg P choices (sys0 st0) = .ok (s', .done)) :
    (∀ d, (∃ v, s'.st.cache.get? d = some v) ↔ d ∈ cfg.results) ∧
    (∀ d, st0.seen d → d ∉ cfg.results → d ∈ s'.st.released) := by
  obtain ⟨_, hdeps, _, hdone, _⟩ := reach_inv P (den_fixpoint cfg P rank h) h.nw h.cs rank h.acyclic hs hrun
  obtain ⟨hB, hl⟩ := hdone rfl
  have hseen : ∀ k, st0.seen k → s'.st.seen k := by
    intro k ⟨ds, hds⟩
    exact ⟨ds, by rw [hdeps]; exact hds⟩
  refine ⟨?_, fun d hd hr => hB.inv.done_released hl (hseen d hd) hr⟩
  intro d
  constructor
  · rintro ⟨v, hv⟩
    exact hB.inv.done_no_leak hl hv
  · intro hr
    exact hB.inv.done_result_cached hl hr (hseen d (hs.resultsSeen d hr))

/-! ## full statements (no `StartOK` hypothesis) -/
section Full
variable (h : Hyp cfg rank) (hG : GraphOK cfg.g cfg.results) (hst : startState cfg P = .ok st0)
include h hG hst

theorem no_early_release_full (choices : List Nat) (s' : Sys α) (o : Outcome)
    (hrun : mainLoop cfg P choices (sys0 st0) = .ok (s', o)) (k d : Key) (hd : d ∈ s'.st.depsOf k)
    (hk : k ∉ s'.st.finished) :
    d ∉ s'.st.released ∧
    ((k ∈ s'.st.ready ∨ k ∈ s'.st.running) → s'.st.cache.get? d = some (den cfg P rank d)) :=
  no_early_release h (C01.startOK_of_eq h hG hst) choices s' o hrun k d hd hk

theorem release_once_full (choices : List Nat) (s' : Sys α) (o : Outcome)
    (hrun : mainLoop cfg P choices (sys0 st0) = .ok (s', o)) (key : Key) (hk : key ∈ s'.st.running) (res : α) :
    ∃ st', finishTask cfg key { s'.st with cache := s'.st.cache.set key res } = .ok st' ∧ st'.released.Nodup :=
  release_once h (C01.startOK_of_eq h hG hst) choices s' o hrun key hk res

theorem no_leak_full (choices : List Nat) (s' : Sys α)
    (hrun : mainLoop cfg P choices (sys0 st0) = .ok (s', .done)) :
    (∀ d, (∃ v, s'.st.cache.get? d = some v) ↔ d ∈ cfg.results) ∧
    (∀ d, st0.seen d → d ∉ cfg.results → d ∈ s'.st.released) :=
  no_leak h (C01.startOK_of_eq h hG hst) choices s' hrun

end Full

/-! non-vacuity: the diamond of C01 — at the end only the requested key 3 is cached, 0 1 2 are released -/
example : ((getAsync (C01.exCfg 1) C01.exP [1, 0, 0]).final.cache.map (·.1),
           (getAsync (C01.exCfg 1) C01.exP [1, 0, 0]).final.released) = ([3], [0, 1, 2]) := by decide

end Dask.C03
