import DaskModel.Model.Repack
/-!
# C14 — compute / persist / optimize preserve structure and values

`dask.compute(*args)` = `repack(results)` where `collections, repack = unpack_collections(*args)` and
`results[i]` is the computed value of `collections[i]`.

Full statement (structure part): for every nesting of lists, tuples, sets, dicts, OrderedDicts, dataclasses,
namedtuples and iterators, `repack (map f collections) = mapColl f args` — every collection replaced by its
value, every other leaf and the whole structure unchanged (iterators become lists) — `repack_unpack`.
With `traverse=False` only top-level collections are replaced — `traverse_false`.
`dask.persist` / `dask.optimize` return the same structure with every collection replaced by its rebuilt collection;
types, metadata and values are preserved position by position as soon as the per-class `__dask_postpersist__`
rebuilds preserve them (`persist_spec`, `persist_preserves`; the per-class part is validated by the harness).
The keys handed to the scheduler come back in the order of the collections even when the optimizer groups
operands by their low level optimizer — `keys_restored` (Props/C13.lean).
-/
namespace Dask.C14
open Dask.Repack

theorem indexOf_get (t : Nat) : ∀ (seen : List Nat) (i : Nat), indexOf t seen = some i → seen[i]? = some t
  | [], _, h => by simp [indexOf] at h
  | x :: xs, i, h => by
    simp only [indexOf] at h
    split at h
    · rename_i hx
      simp at h
      subst h
      simp [hx]
    · cases hi : indexOf t xs with
      | none => simp [hi] at h
      | some j =>
        simp [hi] at h
        subst h
        simpa using indexOf_get t xs j hi

/-- seeing a token extends the list of collections and returns an index at which the token sits -/
theorem see_spec (t : Nat) (seen : List Nat) :
    ∃ new, (see t seen).1 = seen ++ new ∧ ∀ ext, ((see t seen).1 ++ ext)[(see t seen).2]? = some t := by
  unfold see
  cases h : indexOf t seen with
  | some i =>
    refine ⟨[], by simp, fun ext => ?_⟩
    have := indexOf_get t seen i h
    simp only
    rw [List.getElem?_append_left]
    · exact this
    · exact (List.getElem?_eq_some_iff.mp this).1
  | none =>
    refine ⟨[t], rfl, fun ext => ?_⟩
    simp

section
variable {β : Type} (f : Nat → β)

mutual
theorem unpack_spec : ∀ (t : Tree Nat) (seen : List Nat),
    ∃ new, (unpack t seen).1 = seen ++ new ∧
      ∀ ext, repack (((unpack t seen).1 ++ ext).map f) (unpack t seen).2 = some (mapColl f t)
  | .coll c, seen => by
    obtain ⟨new, h1, h2⟩ := see_spec c seen
    refine ⟨new, by simpa [unpack] using h1, fun ext => ?_⟩
    have := h2 ext
    simp only [unpack, repack, mapColl, List.getElem?_map, this, Option.map_some]
  | .leaf v, seen => ⟨[], by simp [unpack], fun _ => by simp [unpack, repack, mapColl]⟩
  | .list xs, seen => by
    obtain ⟨new, h1, h2⟩ := unpackL_spec xs seen
    exact ⟨new, by simpa [unpack] using h1, fun ext => by simp only [unpack, repack, mapColl, h2 ext, Option.map_some]⟩
  | .tuple xs, seen => by
    obtain ⟨new, h1, h2⟩ := unpackL_spec xs seen
    exact ⟨new, by simpa [unpack] using h1, fun ext => by simp only [unpack, repack, mapColl, h2 ext, Option.map_some]⟩
  | .set xs, seen => by
    obtain ⟨new, h1, h2⟩ := unpackL_spec xs seen
    exact ⟨new, by simpa [unpack] using h1, fun ext => by simp only [unpack, repack, mapColl, h2 ext, Option.map_some]⟩
  | .dict kvs, seen => by
    obtain ⟨new, h1, h2⟩ := unpackP_spec kvs seen
    exact ⟨new, by simpa [unpack] using h1, fun ext => by simp only [unpack, repack, mapColl, h2 ext, Option.map_some]⟩
  | .odict kvs, seen => by
    obtain ⟨new, h1, h2⟩ := unpackP_spec kvs seen
    exact ⟨new, by simpa [unpack] using h1, fun ext => by simp only [unpack, repack, mapColl, h2 ext, Option.map_some]⟩
  | .dataclass c xs, seen => by
    obtain ⟨new, h1, h2⟩ := unpackL_spec xs seen
    exact ⟨new, by simpa [unpack] using h1, fun ext => by simp only [unpack, repack, mapColl, h2 ext, Option.map_some]⟩
  | .namedtuple c xs, seen => by
    obtain ⟨new, h1, h2⟩ := unpackL_spec xs seen
    exact ⟨new, by simpa [unpack] using h1, fun ext => by simp only [unpack, repack, mapColl, h2 ext, Option.map_some]⟩
  | .iter xs, seen => by
    obtain ⟨new, h1, h2⟩ := unpackL_spec xs seen
    exact ⟨new, by simpa [unpack] using h1, fun ext => by simp only [unpack, repack, mapColl, h2 ext, Option.map_some]⟩
theorem unpackL_spec : ∀ (ts : List (Tree Nat)) (seen : List Nat),
    ∃ new, (unpackL ts seen).1 = seen ++ new ∧
      ∀ ext, repackL (((unpackL ts seen).1 ++ ext).map f) (unpackL ts seen).2 = some (mapCollL f ts)
  | [], seen => ⟨[], by simp [unpackL], fun _ => by simp [unpackL, repackL, mapCollL]⟩
  | x :: xs, seen => by
    obtain ⟨n1, h1, g1⟩ := unpack_spec x seen
    obtain ⟨n2, h2, g2⟩ := unpackL_spec xs (unpack x seen).1
    refine ⟨n1 ++ n2, by simp only [unpackL]; rw [h2, h1, List.append_assoc], fun ext => ?_⟩
    have e1 : (unpackL (x :: xs) seen).1 ++ ext = (unpack x seen).1 ++ (n2 ++ ext) := by
      simp only [unpackL]; rw [h2, List.append_assoc]
    have e2 : (unpackL (x :: xs) seen).1 = (unpackL xs (unpack x seen).1).1 := by simp only [unpackL]
    simp only [unpackL, repackL, mapCollL]
    rw [show (unpackL xs (unpack x seen).1).1 ++ ext = (unpack x seen).1 ++ (n2 ++ ext) by rw [← e2]; exact e1]
    rw [g1 (n2 ++ ext)]
    have := g2 ext
    rw [h2, List.append_assoc] at this
    rw [this]
theorem unpackP_spec : ∀ (ts : List (Tree Nat × Tree Nat)) (seen : List Nat),
    ∃ new, (unpackP ts seen).1 = seen ++ new ∧
      ∀ ext, repackP (((unpackP ts seen).1 ++ ext).map f) (unpackP ts seen).2 = some (mapCollP f ts)
  | [], seen => ⟨[], by simp [unpackP], fun _ => by simp [unpackP, repackP, mapCollP]⟩
  | (k, v) :: r, seen => by
    obtain ⟨n1, h1, g1⟩ := unpack_spec k seen
    obtain ⟨n2, h2, g2⟩ := unpack_spec v (unpack k seen).1
    obtain ⟨n3, h3, g3⟩ := unpackP_spec r (unpack v (unpack k seen).1).1
    refine ⟨n1 ++ n2 ++ n3, by simp only [unpackP]; rw [h3, h2, h1]; simp only [List.append_assoc], fun ext => ?_⟩
    simp only [unpackP, repackP, mapCollP]
    have e3 : (unpackP r (unpack v (unpack k seen).1).1).1 ++ ext
        = (unpack k seen).1 ++ (n2 ++ n3 ++ ext) := by rw [h3, h2]; simp only [List.append_assoc]
    have e3' : (unpackP r (unpack v (unpack k seen).1).1).1 ++ ext
        = (unpack v (unpack k seen).1).1 ++ (n3 ++ ext) := by rw [h3, List.append_assoc]
    rw [show repack (((unpackP r (unpack v (unpack k seen).1).1).1 ++ ext).map f) (unpack k seen).2
          = some (mapColl f k) by rw [e3]; exact g1 _]
    rw [show repack (((unpackP r (unpack v (unpack k seen).1).1).1 ++ ext).map f) (unpack v (unpack k seen).1).2
          = some (mapColl f v) by rw [e3']; exact g2 _]
    rw [g3 ext]
end

/-- **`repack(map f collections)` is `args` with every collection replaced by its value.** -/
theorem repack_unpack (args : List (Tree Nat)) :
    repack ((unpackArgs args).1.map f) (unpackArgs args).2 = some (.tuple (mapCollL f args)) := by
  obtain ⟨new, _, g⟩ := unpackL_spec f args []
  have := g []
  simp only [List.append_nil] at this
  simp [unpackArgs, repack, this]

/-- the collections handed to the scheduler are exactly the distinct tokens, each once -/
theorem see_nodup (t : Nat) (seen : List Nat) (h : seen.Nodup) : (see t seen).1.Nodup := by
  unfold see
  cases hi : indexOf t seen with
  | some i => simpa using h
  | none =>
    simp only
    rw [List.nodup_append]
    refine ⟨h, by simp, ?_⟩
    intro a ha b hb
    simp at hb
    subst hb
    intro hab
    subst hab
    -- a ∈ seen contradicts indexOf = none
    clear h
    induction seen with
    | nil => simp at ha
    | cons x xs ih =>
      simp only [indexOf] at hi
      split at hi
      · simp at hi
      · rename_i hx
        rcases List.mem_cons.mp ha with e | ha
        · exact hx e.symm
        · cases h2 : indexOf a xs with
          | none => exact ih ha h2
          | some j => simp [h2] at hi

end

/-! ## persist / optimize -/

mutual
theorem mapColl_comp {α β γ : Type} (f : α → β) (g : β → γ) : ∀ t : Tree α, mapColl g (mapColl f t) = mapColl (fun a => g (f a)) t
  | .coll c => rfl
  | .leaf v => rfl
  | .list xs => by simp only [mapColl, mapCollL_comp f g xs]
  | .tuple xs => by simp only [mapColl, mapCollL_comp f g xs]
  | .set xs => by simp only [mapColl, mapCollL_comp f g xs]
  | .dict kvs => by simp only [mapColl, mapCollP_comp f g kvs]
  | .odict kvs => by simp only [mapColl, mapCollP_comp f g kvs]
  | .dataclass c xs => by simp only [mapColl, mapCollL_comp f g xs]
  | .namedtuple c xs => by simp only [mapColl, mapCollL_comp f g xs]
  | .iter xs => by simp only [mapColl, mapCollL_comp f g xs]
theorem mapCollL_comp {α β γ : Type} (f : α → β) (g : β → γ) : ∀ ts : List (Tree α),
    mapCollL g (mapCollL f ts) = mapCollL (fun a => g (f a)) ts
  | [] => rfl
  | x :: xs => by simp only [mapCollL, mapColl_comp f g x, mapCollL_comp f g xs]
theorem mapCollP_comp {α β γ : Type} (f : α → β) (g : β → γ) : ∀ ts : List (Tree α × Tree α),
    mapCollP g (mapCollP f ts) = mapCollP (fun a => g (f a)) ts
  | [] => rfl
  | (k, v) :: r => by simp only [mapCollP, mapColl_comp f g k, mapColl_comp f g v, mapCollP_comp f g r]
end

/-- **`dask.persist(*args)` / `dask.optimize(*args)`** = `repack([rebuild_i(…) for every collection])`: the result is the
    argument structure with every collection `t` replaced by the collection `rebuild t` built for it (iterators become
    lists, everything else unchanged). -/
theorem persist_spec {β : Type} (rebuild : Nat → β) (args : List (Tree Nat)) :
    repack ((unpackArgs args).1.map rebuild) (unpackArgs args).2 = some (.tuple (mapCollL rebuild args)) :=
  repack_unpack rebuild args

/-- **Type and metadata are preserved**: if rebuilding keeps the type and metadata `md` of every collection
    (`__dask_postpersist__` of the collection classes: assumed, validated per class by the harness), then the structure
    returned by persist / optimize shows, position by position, the same types and metadata as the arguments — and if
    every rebuilt collection computes to the value of its original (`val`), computing the returned structure gives what
    computing the arguments gives. -/
theorem persist_preserves {β μ V : Type} (rebuild : Nat → β) (md : Nat → μ) (md' : β → μ) (val : Nat → V) (val' : β → V)
    (hm : ∀ t, md' (rebuild t) = md t) (hv : ∀ t, val' (rebuild t) = val t) (args : List (Tree Nat)) :
    ∃ out, repack ((unpackArgs args).1.map rebuild) (unpackArgs args).2 = some (.tuple out) ∧
      mapCollL md' out = mapCollL md args ∧ mapCollL val' out = mapCollL val args := by
  refine ⟨mapCollL rebuild args, persist_spec rebuild args, ?_, ?_⟩
  · rw [mapCollL_comp]; congr 1; funext t; exact hm t
  · rw [mapCollL_comp]; congr 1; funext t; exact hv t

example : ∃ out, repack ((unpackArgs [.list [.coll 7, .iter [.coll 9, .leaf 1]]]).1.map (fun t => (t, "rebuilt")))
      (unpackArgs [.list [.coll 7, .iter [.coll 9, .leaf 1]]]).2 = some (.tuple out) ∧
      mapCollL Prod.fst out = mapCollL id [.list [.coll 7, .iter [.coll 9, .leaf 1]]] ∧
      mapCollL (fun p : Nat × String => p.1 + 100) out = mapCollL (· + 100) [.list [.coll 7, .iter [.coll 9, .leaf 1]]] :=
  persist_preserves (fun t => (t, "rebuilt")) id Prod.fst (· + 100) (fun p => p.1 + 100) (fun _ => rfl) (fun _ => rfl) _

/-! ## traverse=False -/

/-- what `compute(*args, traverse=False)` must return: top-level collections replaced, the rest untouched -/
def topSpec {β : Type} (f : Nat → β) : List (Tree Nat) → List (Sum β (Tree Nat))
  | [] => []
  | .coll c :: xs => .inl (f c) :: topSpec f xs
  | t :: xs => .inr t :: topSpec f xs

theorem unpackTop_spec {β : Type} (f : Nat → β) : ∀ (args : List (Tree Nat)) (seen : List Nat),
    ∃ new, (unpackTop args seen).1 = seen ++ new ∧
      ∀ ext, repackTop (((unpackTop args seen).1 ++ ext).map f) args (unpackTop args seen).2 = some (topSpec f args)
  | [], seen => ⟨[], by simp [unpackTop], fun _ => by simp [unpackTop, repackTop, topSpec]⟩
  | a :: as, seen => by
    cases a with
    | coll c =>
      obtain ⟨n1, h1, g1⟩ := see_spec c seen
      obtain ⟨n2, h2, g2⟩ := unpackTop_spec f as (see c seen).1
      refine ⟨n1 ++ n2, by simp only [unpackTop]; rw [h2, h1, List.append_assoc], fun ext => ?_⟩
      simp only [unpackTop, repackTop, topSpec]
      have e : (unpackTop as (see c seen).1).1 ++ ext = (see c seen).1 ++ (n2 ++ ext) := by rw [h2, List.append_assoc]
      have := g1 (n2 ++ ext)
      have g2' := g2 ext
      rw [e] at g2'
      rw [List.getElem?_map, e, this, g2']
      simp
    | leaf v =>
      obtain ⟨n2, h2, g2⟩ := unpackTop_spec f as seen
      exact ⟨n2, by simp only [unpackTop]; exact h2, fun ext => by simp only [unpackTop, repackTop, topSpec, g2 ext, Option.map_some]⟩
    | list xs =>
      obtain ⟨n2, h2, g2⟩ := unpackTop_spec f as seen
      exact ⟨n2, by simp only [unpackTop]; exact h2, fun ext => by simp only [unpackTop, repackTop, topSpec, g2 ext, Option.map_some]⟩
    | tuple xs =>
      obtain ⟨n2, h2, g2⟩ := unpackTop_spec f as seen
      exact ⟨n2, by simp only [unpackTop]; exact h2, fun ext => by simp only [unpackTop, repackTop, topSpec, g2 ext, Option.map_some]⟩
    | set xs =>
      obtain ⟨n2, h2, g2⟩ := unpackTop_spec f as seen
      exact ⟨n2, by simp only [unpackTop]; exact h2, fun ext => by simp only [unpackTop, repackTop, topSpec, g2 ext, Option.map_some]⟩
    | dict xs =>
      obtain ⟨n2, h2, g2⟩ := unpackTop_spec f as seen
      exact ⟨n2, by simp only [unpackTop]; exact h2, fun ext => by simp only [unpackTop, repackTop, topSpec, g2 ext, Option.map_some]⟩
    | odict xs =>
      obtain ⟨n2, h2, g2⟩ := unpackTop_spec f as seen
      exact ⟨n2, by simp only [unpackTop]; exact h2, fun ext => by simp only [unpackTop, repackTop, topSpec, g2 ext, Option.map_some]⟩
    | dataclass c xs =>
      obtain ⟨n2, h2, g2⟩ := unpackTop_spec f as seen
      exact ⟨n2, by simp only [unpackTop]; exact h2, fun ext => by simp only [unpackTop, repackTop, topSpec, g2 ext, Option.map_some]⟩
    | namedtuple c xs =>
      obtain ⟨n2, h2, g2⟩ := unpackTop_spec f as seen
      exact ⟨n2, by simp only [unpackTop]; exact h2, fun ext => by simp only [unpackTop, repackTop, topSpec, g2 ext, Option.map_some]⟩
    | iter xs =>
      obtain ⟨n2, h2, g2⟩ := unpackTop_spec f as seen
      exact ⟨n2, by simp only [unpackTop]; exact h2, fun ext => by simp only [unpackTop, repackTop, topSpec, g2 ext, Option.map_some]⟩

/-- **traverse=False: only top-level collections are replaced, everything else is returned as it was.** -/
theorem traverse_false {β : Type} (f : Nat → β) (args : List (Tree Nat)) :
    repackTop ((unpackTop args []).1.map f) args (unpackTop args []).2 = some (topSpec f args) := by
  obtain ⟨_, _, g⟩ := unpackTop_spec f args []
  simpa using g []

/-! ## non-vacuity: a nested structure with a repeated collection -/

example : repack ((unpackArgs [.list [.coll 7, .dict [(.leaf 1, .coll 9), (.coll 7, .iter [.coll 9])]], .coll 9]).1.map (· + 100))
    (unpackArgs [.list [.coll 7, .dict [(.leaf 1, .coll 9), (.coll 7, .iter [.coll 9])]], .coll 9]).2
    = some (.tuple [.list [.coll 107, .dict [(.leaf 1, .coll 109), (.coll 107, .list [.coll 109])]], .coll 109]) := by
  rfl

example : (unpackArgs [.list [.coll 7, .dict [(.leaf 1, .coll 9), (.coll 7, .iter [.coll 9])]], .coll 9]).1 = [7, 9] := by
  rfl

end Dask.C14
