import DaskModel.Lemmas.SetItemMaskLemmas
import DaskModel.Lemmas.SetItemNDValue
/-!
# C21, extension round — (a) the `where` path of `Array.__setitem__`

`x[mask] = v` with a boolean mask of `x`'s full shape (a dask mask, or a NumPy mask of rank > 1) does not go through
`setitem_array` but through `where(mask, v, x)` = `elemwise(np.where, mask, v, x)`: `unify_chunks` rechunks mask and
array to common chunks, one `np.where` task per block, then `rechunk(self.chunks)` when the chunks differ
(`Model/SetItemMask.lean::wherePlan`, diffed against the real graph in section `maskplan`).

* `where_blocked_den`   for every unified chunking, every value whose axes (aligned with the last axes of the array)
                        carry the unified chunks or have length one: the element of the blocked result at every global
                        multi-index `g` is `if mask[g] then value[broadcast g] else x[g]` — the elementwise lemma
                        (`argPos`, as `elemwise_den` of C19) over the N-d blocked denotation `denAt`;
* `blocked_den_roundtrip` cutting an array into blocks of any chunking and reading it back is the identity (what the
                        rechunk steps are assumed to preserve is this denotation; proved for rechunk in C24/C23);
* `setitem_mask_den`    the assignment itself, for every chunking of `x` and of the mask: when `wherePlan` accepts (same
                        shape, 0-d value) the unified chunks have `x`'s shape, the result is chunked as `x` was
                        (`rechunkBack` exactly when the unified chunks differ) and holds `if mask[g] then v else x[g]` at
                        every position — NumPy's `x[mask] = v`;
* `np_mask_scalar`      NumPy's masked assignment (the `k`-th `True` position in C order receives `vals[k]`) with a 0-d
                        value broadcast to the `count_nonzero(mask)` selected elements *is* that position-wise `where`;
* `setitem_mask_raises` which inputs the path rejects: IndexError iff the shapes differ; ValueError for every value of
                        rank > 0 (the documented limitation of the path — finding `setitem:nd-mask+array-value`; NumPy
                        accepts a 1-d value of `count_nonzero(mask)` elements, `npMaskAssign`);
* `dispatch_where_iff`  which single array keys take the path.

# (b) the value-index bookkeeping of `setitem_array` (`Model/SetItemND.lean::planND`, unchanged)

`vixEval` gives a value index its meaning (the positions of the value axis it reads, Python slice semantics); `pairUp` is
NumPy's assignment inside one block along one axis (a piece of length one is broadcast).

* `plan_value_indices`        for every plan of `planND` that does not raise and every touched block: `value_indices` is
                              `[Ellipsis]` (iff the value has extra leading axes) followed by one entry per common value
                              axis `i`, namely `slice(None)` when that value axis has length one, else the slice
                              `[n_preceding, n_preceding + size)` / the positions `value_indices_from_1d_int_index` of the
                              non-integer array axis `i + offset`, mirrored iff `i` is in the renumbered `reverse`
                              (`expectVI`; `value_index_slice_axis`, `value_index_array_axis` identify it with the per-axis
                              value indices `sliceAxisVIx` / `arrAxisVIx` the next theorems are about);
* `value_index_positions`     one block, one slice axis: the positions read are NumPy's for the ranks `n … n+k-1` of the
                              block's elements — 0 on a broadcast axis, the ranks, or the mirrored ranks;
* `value_indices_partition_nd` every slice-indexed axis of an N-d assignment, every chunking: the (array position, value
                              position) pairs of all blocks, concatenated in block order, are `zip(selected positions,
                              NumPy's value positions)`; the value positions read are therefore `0 … L-1` once each in
                              selection order (mirrored on a reversed axis) — the pieces are disjoint, consecutive and cover
                              the value axis — or all 0 on a length-one axis;
* `setitem_nd_value_den`      N-d: a vector of (array position, value position) pairs, one per axis, is assigned by some
                              block iff it is NumPy's on every axis: the element written at global position `g` is
                              `value[pos(g)]` with NumPy's broadcasting (no value axis for integer indices and for leading
                              array axes beyond the value's rank; position 0 on length-one axes; mirrored on reversed axes).
-/
namespace Dask.C21x
open Dask.Elemwise Dask.SetItemMask

/-- **Elementwise `where` over the blocked denotation.** `U` = the unified chunks; `mb`, `xb` = the blocks of the
    (rechunked) mask and array, holding `M g` / `X g` at `g`; the value `V` has chunks `vcs` on the axes from `off` on,
    each either the unified chunks or a single chunk of length one. For every in-bounds `g` the block that contains `g`
    exists, the value block blockwise hands to it exists, and the element computed is NumPy's `where` with broadcasting. -/
theorem where_blocked_den {α : Type} (U : List (List Nat)) (M : Arr Bool) (X : Arr α) (mb : Blocks Bool) (xb : Blocks α)
    (off : Nat) (vcs : List (List Nat)) (V : Arr α) (hv : ArgAxesOK (U.drop off) vcs) (g : List Nat) (hg : InBounds U g)
    (hm : denAt U mb g = some (M g)) (hx : denAt U xb g = some (X g)) :
    denAt U (whereBlocks mb off vcs V xb) g = some (some (if M g then V (bcastIdx vcs (g.drop off)) else X g)) := by
  obtain ⟨bl, hbl, _⟩ := locs_spec U g hg
  have hd := locs_drop off U g bl hbl
  have h1 := argIdx_eq_argRead (U.drop off) vcs (g.drop off) (bl.drop off) hd
  rw [argIdx_eq_bcast _ _ _ hv (inBounds_drop off U g hg)] at h1
  simp only [denAt, hbl, Option.map_some, Option.some.injEq] at hm hx ⊢
  simp only [whereBlocks, ← List.map_drop, ← h1, Option.map_some, hm, hx]

/-- non-vacuity: a 2-d array chunked ((2,1),(3,1)), a value of shape (1,) broadcast along the last axis, position (2,3) -/
example : InBounds [[2, 1], [3, 1]] [2, 3] ∧ ArgAxesOK ([[2, 1], [3, 1]].drop 1) [[1]] ∧
    locs [[2, 1], [3, 1]] [2, 3] = some [(1, 0), (1, 0)] ∧ bcastIdx [[1]] ([2, 3].drop 1) = [0] ∧
    argRead [[1]] ([1, 1].drop 1) ([0, 0].drop 1) = some [0] := by
  refine ⟨⟨by decide, by decide, trivial⟩, ⟨Or.inr rfl, trivial⟩, by decide, by decide, by decide⟩

/-- blocks of any chunking hold the array: `denAt cs (blocksOf cs a) g = a g` -/
theorem blocked_den_roundtrip {α : Type} (cs : List (List Nat)) (a : Arr α) (g : List Nat) (h : InBounds cs g) :
    denAt cs (blocksOf cs a) g = some (a g) :=
  denAt_blocksOf cs a g h

/-- **`x[mask] = v` through `where`, every chunking of array and mask.** `M`, `X` = mask and array; `mb`, `xb` = their
    blocks after `unify_chunks` (hypotheses: rechunking preserves the denotation); `fb` = the blocks of the final array
    (hypothesis: the rechunk back preserves the denotation of the `where` layer). Then the unified chunks have `x`'s
    shape, the array keeps its chunks, the rechunk back happens exactly when needed, and every element is NumPy's. -/
theorem setitem_mask_den {α : Type} (xchunks mchunks : List (List Nat)) (p : WherePlan)
    (hp : wherePlan xchunks mchunks [] = Res.ok p) (M : Arr Bool) (X : Arr α) (v : α)
    (mb : Blocks Bool) (xb : Blocks α) (fb : Blocks (Option α))
    (hm : ∀ g, InBounds p.unified g → denAt p.unified mb g = some (M g))
    (hx : ∀ g, InBounds p.unified g → denAt p.unified xb g = some (X g))
    (hf : ∀ g, InBounds xchunks g →
      denAt p.chunks fb g = denAt p.unified (whereBlocks mb p.unified.length [] (fun _ => v) xb) g) :
    shapeOf p.unified = shapeOf xchunks ∧ p.chunks = xchunks ∧ (p.rechunkBack = true ↔ p.unified ≠ xchunks) ∧
    ∀ g, InBounds xchunks g → denAt p.chunks fb g = some (some (if M g then v else X g)) := by
  obtain ⟨hs, hc, hr⟩ := wherePlan_shape xchunks mchunks p hp
  refine ⟨hs, hc, hr, ?_⟩
  intro g hg
  have hgu : InBounds p.unified g := inBounds_of_shape xchunks p.unified g hs.symm hg
  rw [hf g hg]
  have hv : ArgAxesOK (p.unified.drop p.unified.length) [] := by simp [ArgAxesOK]
  exact where_blocked_den p.unified M X mb xb p.unified.length [] (fun _ => v) hv g hgu (hm g hgu) (hx g hgu)

/-- non-vacuity: array chunked ((2,1),(3,1)), mask chunked ((1,2),(2,2)): unified ((1,1,1),(2,1,1)), nine `where` tasks,
    both inputs rechunked, rechunk back -/
example : wherePlan [[2, 1], [3, 1]] [[1, 2], [2, 2]] [] = Res.ok
    ⟨[[1, 1, 1], [2, 1, 1]],
     [([0, 0], [[0, 0], [], [0, 0]]), ([0, 1], [[0, 1], [], [0, 1]]), ([0, 2], [[0, 2], [], [0, 2]]),
      ([1, 0], [[1, 0], [], [1, 0]]), ([1, 1], [[1, 1], [], [1, 1]]), ([1, 2], [[1, 2], [], [1, 2]]),
      ([2, 0], [[2, 0], [], [2, 0]]), ([2, 1], [[2, 1], [], [2, 1]]), ([2, 2], [[2, 2], [], [2, 2]])],
     true, true, true, [[2, 1], [3, 1]]⟩ := by decide

/-- NumPy's `x[mask] = v` with a 0-d `v` is the position-wise `where` (flat C order) -/
theorem np_mask_scalar {α : Type} (mask : List Bool) (x : List α) (v : α) (h : mask.length = x.length) :
    npMaskScalar mask x v = some (List.zipWith (fun m a => if m then v else a) mask x) :=
  npMaskAssign_replicate v mask x h

example : npMaskAssign [true, false, true] [1, 2, 3] [10, 30] = some [10, 2, 30] ∧
    npMaskScalar [true, false, true] [1, 2, 3] 7 = some [7, 2, 7] ∧
    npMaskAssign [true, false, true] [1, 2, 3] [10] = none := by decide

/-- what the path rejects -/
theorem setitem_mask_raises (xchunks mchunks : List (List Nat)) (vshape : List Nat) :
    (wherePlan xchunks mchunks vshape = Res.indexError ↔ shapeOf mchunks ≠ shapeOf xchunks) ∧
    (shapeOf mchunks = shapeOf xchunks → vshape ≠ [] → wherePlan xchunks mchunks vshape = Res.valueError) := by
  constructor
  · constructor
    · intro h
      by_cases hs : shapeOf mchunks = shapeOf xchunks
      · unfold wherePlan at h
        rw [if_neg (by simpa using hs)] at h
        split at h
        · cases h
        · simp only at h
          split at h <;> cases h
      · exact hs
    · intro hs
      unfold wherePlan
      rw [if_pos hs]
  · intro hs hv
    unfold wherePlan
    rw [if_neg (by simpa using hs), if_pos hv]

/-- which single array keys take the `where` path: dask boolean arrays other than a 1-d mask on an N-d array, and
    NumPy masks of rank > 1 equal to the array's rank -/
theorem dispatch_where_iff (n : Nat) (k : KeyInfo) :
    dispatch n k = Path.wherePath ↔
      (k.isDask = true ∧ k.isBool = true ∧ ¬ (k.ndim = 1 ∧ 1 < n)) ∨
      (k.isDask = false ∧ k.isBool = true ∧ 1 < k.ndim ∧ k.ndim = n) := by
  obtain ⟨d, b, m⟩ := k
  cases d <;> cases b <;> simp [dispatch] <;> omega

example : dispatch 2 ⟨true, true, 2⟩ = Path.wherePath ∧ dispatch 2 ⟨true, true, 1⟩ = Path.setitemArray ∧
    dispatch 1 ⟨true, true, 1⟩ = Path.wherePath ∧ dispatch 2 ⟨false, true, 2⟩ = Path.wherePath ∧
    dispatch 1 ⟨false, true, 1⟩ = Path.setitemArray ∧ dispatch 2 ⟨true, false, 2⟩ = Path.setitemArray := by decide


/-! ## (b) value indices -/

open Dask.Slice1D Dask.SetItem Dask.Store Dask.SetItemND

/-- **Which entry of `value_indices` is which** (every plan, every touched block). -/
theorem plan_value_indices (chunks : List (List Nat)) (indices : List AIdx) (implied : List Int) (reverse vshape : List Nat)
    (blocks : List (Option (List BIx × List VIx))) (su : Setup)
    (h : planND chunks indices implied reverse vshape = Res.ok blocks) (hne : implied.any (· == 0) = false)
    (hsu : setup indices implied reverse vshape = some su) (hnd : su.reverse.Nodup)
    (k : Nat) (locs : List (Int × Int)) (hk : (product (chunks.map locations))[k]? = some locs)
    (bis : List BIx) (vis : List VIx) (hb : blocks[k]? = some (some (bis, vis))) :
    ∃ st vis', loopDims (indices.zip locs) ⟨[], [], [], none⟩ = some st ∧ bis = st.blockIndices ∧
      vis = (if su.valueOffset ≠ 0 then VIx.ellipsis :: vis' else vis') ∧
      vis'.length = min su.arrayCommon.length su.valueCommon.length ∧
      ∀ i, i < vis'.length → vis'[i]? = expectVI st su vshape i :=
  planND_value_indices chunks indices implied reverse vshape blocks su h hne hsu hnd k locs hk bis vis hb

/-- non-vacuity: `x[::-1, 1:3] = v`, `x` of shape (4, 5) chunked ((2,2),(5,)), `v` of shape (4, 1) — block (1, 0) reads the
    mirrored rows `slice(1, None, -1)` and broadcasts the length-one column axis -/
example : planND [[2, 2], [5]] [.sl 0 4 1, .sl 1 3 1] [4, 2] [0] [4, 1]
    = Res.ok [some ([.sl 0 2 1, .sl 1 3 1], [.sl ⟨some 3, some 1, some (-1)⟩, .sl colon]),
              some ([.sl 0 2 1, .sl 1 3 1], [.sl ⟨some 1, none, some (-1)⟩, .sl colon])] := by rfl
example : (setup [.sl 0 4 1, .sl 1 3 1] [4, 2] [0] [4, 1]).map (·.reverse) = some [0] := by decide

theorem value_index_slice_axis (st : LoopState) (su : Setup) (vshape : List Nat) (i b : Nat) (p s : Int)
    (hb : su.valueCommon[i]? = some b) (hp : st.preceding[i + su.offset]? = some (some p))
    (hs : st.shape[i + su.offset]? = some (some s))
    (harr : ∀ pos index l0 l1, st.arrInfo = some (pos, index, l0, l1) → i + su.offset ≠ pos) :
    expectVI st su vshape i = sliceAxisVIx b (decide (i ∈ su.reverse)) p s :=
  expectVI_slice st su vshape i b p s hb hp hs harr

theorem value_index_array_axis (st : LoopState) (su : Setup) (vshape : List Nat) (i b : Nat) (index : List Int) (l0 l1 : Int)
    (hb : su.valueCommon[i]? = some b) (ha : st.arrInfo = some (i + su.offset, index, l0, l1)) (hr : i ∉ su.reverse) :
    expectVI st su vshape i = some (arrAxisVIx b index (l0, l1)) :=
  expectVI_arr st su vshape i b index l0 l1 hb ha hr

/-- **One block, one slice axis.** `n` = `n_preceding`, `k` = `block_index_size` (> 0 for a touched block:
    `slice_block_spec`), `L` = length of the selection, `vlen` = length of the matched value axis (1 or `L`). The value index
    evaluates, and NumPy's in-block assignment pairs the `t`-th selected element with NumPy's value position of rank `n+t`. -/
theorem value_index_positions (vlen L : Nat) (rev : Bool) (n k : Nat) (hk : 0 < k) (h : n + k ≤ L) (hv : vlen = 1 ∨ vlen = L) :
    ∃ v vp, sliceAxisVIx vlen rev (n : Int) (k : Int) = some v ∧ vixEval vlen v = some vp ∧
      ∀ {α : Type} (sel : List α), sel.length = k → pairUp sel vp = sel.zip ((List.range' n k).map (npPos vlen L rev)) :=
  sliceAxis_positions vlen L rev n k hk h hv

/-- non-vacuity: a reversed axis of 5 selected elements, the block holding ranks 1, 2 reads value positions 3, 2 -/
example : sliceAxisVIx 5 true 1 2 = some (.sl ⟨some 3, some 1, some (-1)⟩) ∧
    vixEval 5 (.sl ⟨some 3, some 1, some (-1)⟩) = some [3, 2] ∧ (List.range' 1 2).map (npPos 5 5 true) = [3, 2] ∧
    sliceAxisVIx 1 true 1 2 = some (.sl ⟨some 0, none, some (-1)⟩) ∧ vixEval 1 (.sl ⟨some 0, none, some (-1)⟩) = some [0] := by
  decide

/-- **`value_indices_partition_nd`.** `axes` = per axis of the array the parsed index and the matched value axis; `chunks`
    any chunking. For every slice-indexed axis with a value axis: over all blocks of that axis, in block order, the pairs
    (array position, value position read) are `zip(selected positions, NumPy's value positions)`; the value positions read
    are `npPos 0, …, npPos (L-1)` — each rank exactly once, in selection order (so the pieces of different blocks are
    disjoint and cover the value axis), 0 everywhere on a length-one axis, mirrored on a reversed axis. -/
theorem value_indices_partition_nd (axes : List (AIdx × VAx)) (chunks : List (List Nat)) (hok : AxesOKV axes chunks)
    (j : Nat) (start stop step : Int) (vlen : Nat) (rev : Bool) (c : List Nat)
    (ha : axes[j]? = some (.sl start stop step, some (vlen, rev))) (hc : chunks[j]? = some c) :
    (locations c).flatMap (sliceBlockPairs start stop step vlen rev)
      = (rangeUp start stop step).zip
          ((List.range (rangeUp start stop step).length).map (npPos vlen (rangeUp start stop step).length rev)) ∧
    ((locations c).flatMap (sliceBlockPairs start stop step vlen rev)).map (·.2)
      = (List.range (rangeUp start stop step).length).map (npPos vlen (rangeUp start stop step).length rev) ∧
    (vlen = 1 → ∀ p ∈ (locations c).flatMap (sliceBlockPairs start stop step vlen rev), p.2 = 0) := by
  have hax : AxisOK c (.sl start stop step) ∧ VAxOK (.sl start stop step) (some (vlen, rev)) := by
    induction axes generalizing chunks j with
    | nil => simp at ha
    | cons a as ih =>
      cases chunks with
      | nil => simp at hc
      | cons c0 cs =>
        simp only [AxesOKV] at hok
        cases j with
        | zero =>
          simp at ha hc
          subst ha; subst hc
          exact hok.1
        | succ j => exact ih cs hok.2 j (by simpa using ha) (by simpa using hc)
  obtain ⟨⟨hs, h0, hss, hstop⟩, hv⟩ := hax
  have h := slice_axis_value_den c start stop step hs h0 hss hstop vlen rev hv
  refine ⟨h, ?_, ?_⟩
  · rw [h]
    have : (fun p : Int × Int => p.2) = Prod.snd := rfl
    rw [this, List.map_snd_zip (by simp)]
  · intro h1 p hp
    rw [h] at hp
    have := (List.of_mem_zip hp).2
    simp only [List.mem_map] at this
    obtain ⟨r, _, hr⟩ := this
    rw [← hr]
    simp [npPos, h1]

/-- non-vacuity: `x[7:0:-2] = v` on 9 elements chunked (4, 3, 2): parsed `slice(1, 8, 2)`, reversed, `v` of 4 elements:
    position 1 ← v[3], 3 ← v[2], 5 ← v[1], 7 ← v[0]; the same selection with a length-one value: position 0 everywhere -/
example : (locations [4, 3, 2]).flatMap (sliceBlockPairs 1 8 2 4 true) = [(1, 3), (3, 2), (5, 1), (7, 0)] ∧
    (locations [4, 3, 2]).flatMap (sliceBlockPairs 1 8 2 1 true) = [(1, 0), (3, 0), (5, 0), (7, 0)] ∧
    AxesOKV [(.sl 1 8 2, some (4, true))] [[4, 3, 2]] := by
  refine ⟨by decide, by decide, ⟨⟨by decide, by decide, by decide, by decide⟩, Or.inr (by decide)⟩, trivial⟩

/-- **`setitem_nd_value_den`: N-d assignment with broadcasting, on the plan.** A vector `t` of (array position, value
    position) pairs — one per axis; no value position where the axis has no value axis — is assigned by some block `b` (on
    every axis the pair is among those the axis' block `b_k` assigns, computed from the value indices the code builds)
    **iff** it is NumPy's on every axis. Blocks assign nothing else, every selected element is assigned, and the element
    written at a global position is the value element NumPy's broadcasting puts there. -/
theorem setitem_nd_value_den (axes : List (AIdx × VAx)) (chunks : List (List Nat)) (hok : AxesOKV axes chunks)
    (t : List (Int × Option Int)) :
    NDSelectedV axes chunks t ↔ ∃ b, NDIn (fsOfV axes) chunks b t := by
  rw [← ndAny_selectedV axes chunks t hok]
  exact ndIn_cover (fsOfV axes) chunks t

/-- non-vacuity: `x[:, ::-1, 2, [3, 0]] = v` with `v` of shape (1, 2) on a 4-d array: leading axis without value axis, a
    reversed broadcast axis, an integer, an integer-array axis -/
example : AxesOKV [(.sl 0 2 1, none), (.sl 0 3 1, some (1, true)), (.int 2, none), (.arr [3, 0], some (2, false))]
    [[1, 1], [2, 1], [3], [2, 2]] := by
  refine ⟨⟨⟨by decide, by decide, by decide, by decide⟩, trivial⟩, ⟨⟨by decide, by decide, by decide, by decide⟩, Or.inl rfl⟩,
    ⟨⟨by decide, by decide⟩, trivial⟩, ⟨by intro v hv; simp at hv; rcases hv with rfl | rfl <;> decide, Or.inr rfl, rfl⟩, trivial⟩
example : NDIn (fsOfV [(.sl 0 2 1, none), (.sl 0 3 1, some (1, true)), (.int 2, none), (.arr [3, 0], some (2, false))])
    [[1, 1], [2, 1], [3], [2, 2]] [1, 1, 0, 0] [(1, none), (2, some 0), (2, none), (0, some 1)] :=
  ⟨⟨(1, 2), by decide, by decide⟩, ⟨(2, 3), by decide, by decide⟩, ⟨(0, 3), by decide, by decide⟩,
   ⟨(0, 2), by decide, by decide⟩, trivial⟩

end Dask.C21x
