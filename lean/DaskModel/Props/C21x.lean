import DaskModel.Lemmas.SetItemMaskLemmas
/-!
# C21, extension round — (a) the `where` path of `Array.__setitem__`

`x[mask] = v` with a boolean mask of `x`'s full shape (a dask mask, or a NumPy mask of rank > 1) does not go through
`setitem_array` but through `where(mask, v, x)` = `elemwise(np.where, mask, v, x)`: `unify_chunks` rechunks mask and
array to common chunks, one `np.where` task per block, then `rechunk(self.chunks)` when the chunks differ
(`Model/SetItemMask.lean::wherePlan`, diffed against the real graph in section `maskplan`).

* `where_blocked_den`   for every unified chunking, every value whose axes (aligned with the last axes of the array)
                        carry the unified chunks or have length one: the element of the blocked result at every global
                        multi-index `g` is `if mask[g] then value[broadcast g] else x[g]` — the elementwise lemma
                        (`argPos`, as `elemwise_den` of C19) over the N-d blocked denotation `denAt`;
* `blocked_den_roundtrip` cutting an array into blocks of any chunking and reading it back is the identity (what the
                        rechunk steps are assumed to preserve is this denotation; proved for rechunk in C24/C23);
* `setitem_mask_den`    the assignment itself, for every chunking of `x` and of the mask: when `wherePlan` accepts (same
                        shape, 0-d value) the unified chunks have `x`'s shape, the result is chunked as `x` was
                        (`rechunkBack` exactly when the unified chunks differ) and holds `if mask[g] then v else x[g]` at
                        every position — NumPy's `x[mask] = v`;
* `np_mask_scalar`      NumPy's masked assignment (the `k`-th `True` position in C order receives `vals[k]`) with a 0-d
                        value broadcast to the `count_nonzero(mask)` selected elements *is* that position-wise `where`;
* `setitem_mask_raises` which inputs the path rejects: IndexError iff the shapes differ; ValueError for every value of
                        rank > 0 (the documented limitation of the path — finding `setitem:nd-mask+array-value`; NumPy
                        accepts a 1-d value of `count_nonzero(mask)` elements, `npMaskAssign`);
* `dispatch_where_iff`  which single array keys take the path.
-/
namespace Dask.C21x
open Dask.Elemwise Dask.SetItemMask

/-- **Elementwise `where` over the blocked denotation.** `U` = the unified chunks; `mb`, `xb` = the blocks of the
    (rechunked) mask and array, holding `M g` / `X g` at `g`; the value `V` has chunks `vcs` on the axes from `off` on,
    each either the unified chunks or a single chunk of length one. For every in-bounds `g` the block that contains `g`
    exists, the value block blockwise hands to it exists, and the element computed is NumPy's `where` with broadcasting. -/
theorem where_blocked_den {α : Type} (U : List (List Nat)) (M : Arr Bool) (X : Arr α) (mb : Blocks Bool) (xb : Blocks α)
    (off : Nat) (vcs : List (List Nat)) (V : Arr α) (hv : ArgAxesOK (U.drop off) vcs) (g : List Nat) (hg : InBounds U g)
    (hm : denAt U mb g = some (M g)) (hx : denAt U xb g = some (X g)) :
    denAt U (whereBlocks mb off vcs V xb) g = some (some (if M g then V (bcastIdx vcs (g.drop off)) else X g)) := by
  obtain ⟨bl, hbl, _⟩ := locs_spec U g hg
  have hd := locs_drop off U g bl hbl
  have h1 := argIdx_eq_argRead (U.drop off) vcs (g.drop off) (bl.drop off) hd
  rw [argIdx_eq_bcast _ _ _ hv (inBounds_drop off U g hg)] at h1
  simp only [denAt, hbl, Option.map_some, Option.some.injEq] at hm hx ⊢
  simp only [whereBlocks, ← List.map_drop, ← h1, Option.map_some, hm, hx]

/-- non-vacuity: a 2-d array chunked ((2,1),(3,1)), a value of shape (1,) broadcast along the last axis, position (2,3) -/
example : InBounds [[2, 1], [3, 1]] [2, 3] ∧ ArgAxesOK ([[2, 1], [3, 1]].drop 1) [[1]] ∧
    locs [[2, 1], [3, 1]] [2, 3] = some [(1, 0), (1, 0)] ∧ bcastIdx [[1]] ([2, 3].drop 1) = [0] ∧
    argRead [[1]] ([1, 1].drop 1) ([0, 0].drop 1) = some [0] := by
  refine ⟨⟨by decide, by decide, trivial⟩, ⟨Or.inr rfl, trivial⟩, by decide, by decide, by decide⟩

/-- blocks of any chunking hold the array: `denAt cs (blocksOf cs a) g = a g` -/
theorem blocked_den_roundtrip {α : Type} (cs : List (List Nat)) (a : Arr α) (g : List Nat) (h : InBounds cs g) :
    denAt cs (blocksOf cs a) g = some (a g) :=
  denAt_blocksOf cs a g h

/-- **`x[mask] = v` through `where`, every chunking of array and mask.** `M`, `X` = mask and array; `mb`, `xb` = their
    blocks after `unify_chunks` (hypotheses: rechunking preserves the denotation); `fb` = the blocks of the final array
    (hypothesis: the rechunk back preserves the denotation of the `where` layer). Then the unified chunks have `x`'s
    shape, the array keeps its chunks, the rechunk back happens exactly when needed, and every element is NumPy's. -/
theorem setitem_mask_den {α : Type} (xchunks mchunks : List (List Nat)) (p : WherePlan)
    (hp : wherePlan xchunks mchunks [] = Res.ok p) (M : Arr Bool) (X : Arr α) (v : α)
    (mb : Blocks Bool) (xb : Blocks α) (fb : Blocks (Option α))
    (hm : ∀ g, InBounds p.unified g → denAt p.unified mb g = some (M g))
    (hx : ∀ g, InBounds p.unified g → denAt p.unified xb g = some (X g))
    (hf : ∀ g, InBounds xchunks g →
      denAt p.chunks fb g = denAt p.unified (whereBlocks mb p.unified.length [] (fun _ => v) xb) g) :
    shapeOf p.unified = shapeOf xchunks ∧ p.chunks = xchunks ∧ (p.rechunkBack = true ↔ p.unified ≠ xchunks) ∧
    ∀ g, InBounds xchunks g → denAt p.chunks fb g = some (some (if M g then v else X g)) := by
  obtain ⟨hs, hc, hr⟩ := wherePlan_shape xchunks mchunks p hp
  refine ⟨hs, hc, hr, ?_⟩
  intro g hg
  have hgu : InBounds p.unified g := inBounds_of_shape xchunks p.unified g hs.symm hg
  rw [hf g hg]
  have hv : ArgAxesOK (p.unified.drop p.unified.length) [] := by simp [ArgAxesOK]
  exact where_blocked_den p.unified M X mb xb p.unified.length [] (fun _ => v) hv g hgu (hm g hgu) (hx g hgu)

/-- non-vacuity: array chunked ((2,1),(3,1)), mask chunked ((1,2),(2,2)): unified ((1,1,1),(2,1,1)), nine `where` tasks,
    both inputs rechunked, rechunk back -/
example : wherePlan [[2, 1], [3, 1]] [[1, 2], [2, 2]] [] = Res.ok
    ⟨[[1, 1, 1], [2, 1, 1]],
     [([0, 0], [[0, 0], [], [0, 0]]), ([0, 1], [[0, 1], [], [0, 1]]), ([0, 2], [[0, 2], [], [0, 2]]),
      ([1, 0], [[1, 0], [], [1, 0]]), ([1, 1], [[1, 1], [], [1, 1]]), ([1, 2], [[1, 2], [], [1, 2]]),
      ([2, 0], [[2, 0], [], [2, 0]]), ([2, 1], [[2, 1], [], [2, 1]]), ([2, 2], [[2, 2], [], [2, 2]])],
     true, true, true, [[2, 1], [3, 1]]⟩ := by decide

/-- NumPy's `x[mask] = v` with a 0-d `v` is the position-wise `where` (flat C order) -/
theorem np_mask_scalar {α : Type} (mask : List Bool) (x : List α) (v : α) (h : mask.length = x.length) :
    npMaskScalar mask x v = some (List.zipWith (fun m a => if m then v else a) mask x) :=
  npMaskAssign_replicate v mask x h

example : npMaskAssign [true, false, true] [1, 2, 3] [10, 30] = some [10, 2, 30] ∧
    npMaskScalar [true, false, true] [1, 2, 3] 7 = some [7, 2, 7] ∧
    npMaskAssign [true, false, true] [1, 2, 3] [10] = none := by decide

/-- what the path rejects -/
theorem setitem_mask_raises (xchunks mchunks : List (List Nat)) (vshape : List Nat) :
    (wherePlan xchunks mchunks vshape = Res.indexError ↔ shapeOf mchunks ≠ shapeOf xchunks) ∧
    (shapeOf mchunks = shapeOf xchunks → vshape ≠ [] → wherePlan xchunks mchunks vshape = Res.valueError) := by
  constructor
  · constructor
    · intro h
      by_cases hs : shapeOf mchunks = shapeOf xchunks
      · unfold wherePlan at h
        rw [if_neg (by simpa using hs)] at h
        split at h
        · cases h
        · simp only at h
          split at h <;> cases h
      · exact hs
    · intro hs
      unfold wherePlan
      rw [if_pos hs]
  · intro hs hv
    unfold wherePlan
    rw [if_neg (by simpa using hs), if_pos hv]

/-- which single array keys take the `where` path: dask boolean arrays other than a 1-d mask on an N-d array, and
    NumPy masks of rank > 1 equal to the array's rank -/
theorem dispatch_where_iff (n : Nat) (k : KeyInfo) :
    dispatch n k = Path.wherePath ↔
      (k.isDask = true ∧ k.isBool = true ∧ ¬ (k.ndim = 1 ∧ 1 < n)) ∨
      (k.isDask = false ∧ k.isBool = true ∧ 1 < k.ndim ∧ k.ndim = n) := by
  obtain ⟨d, b, m⟩ := k
  cases d <;> cases b <;> simp [dispatch] <;> omega

example : dispatch 2 ⟨true, true, 2⟩ = Path.wherePath ∧ dispatch 2 ⟨true, true, 1⟩ = Path.setitemArray ∧
    dispatch 1 ⟨true, true, 1⟩ = Path.wherePath ∧ dispatch 2 ⟨false, true, 2⟩ = Path.wherePath ∧
    dispatch 1 ⟨false, true, 1⟩ = Path.setitemArray ∧ dispatch 2 ⟨true, false, 2⟩ = Path.setitemArray := by decide

end Dask.C21x
