import DaskModel.Lemmas.PartQuantSummary
/-!
# C45, last clause — "quantile-based divisions for set_index are non-decreasing and span the data's minimum and maximum"

Model: `Model/PartQuant.lean` (`partitionquantiles.py`: `merge_and_compress_summaries`, `process_val_weights`,
`percentiles_to_weights`, `tree_groups`, `create_merge_tree`; `dask_expr/_quantiles.py`: `RepartitionQuantiles._layer`;
`_shuffle.py::_calculate_divisions`: the duplicate-division fix-up), over integer values and EXACT integer weights.

Full statement, proved here for every list of per-partition summaries, every number of output partitions `n ≥ 1`, every
shape of the merge tree (`widths` = the values of `tree_width`), whenever the modelled function answers `.ok`:
* `quantile_divisions_monotone` — the divisions are non-decreasing;
* `quantile_divisions_span` — the first division is the minimum and the last the maximum of all summarised values;
* `quantile_divisions_count` — there are `n + 1` of them; `quantile_divisions_members` — each is a summarised value;
* `pvw_total` — with at least `n + 1` merged values and positive weights `process_val_weights` does answer (no
  IndexError / ValueError in the over-sampled branch);
* `merge_and_compress_spec`, `tree_groups_cover` — the merge step and the Bresenham grouping of the tree;
* `percentiles_summary_contract`, `percentiles_to_weights_positive` — the hypotheses are what `percentiles_summary` produces
  (picked positions = parameter), hence `quantile_divisions_span_data`: first = minimum, last = maximum OF THE DATA;
* `set_index_divisions_fixup` — after `_calculate_divisions` dropped duplicate divisions they still run from min to max.
Hypotheses on a per-partition summary: values non-decreasing (`ValSorted`), weights positive (`PosW`) — what
`percentiles_summary` hands over (checked on the real function by the harness on every run).
`span_needs_positive_weights_refuted` shows the weight hypothesis cannot be dropped.

NOT covered (validated only, `Out.interp` / outside the model): the `np.interp` branch (under-sampled numeric data),
float rounding of the weights and of the `np.linspace` targets, NaN/NaT, datetime / categorical conversions.
-/
namespace Dask.C45x
open Dask.PQ

/-! ## process_val_weights -/

/-- every division is one of the summarised values (no interpolation in the modelled branches) -/
theorem pvw_members {s : Summary} {n : Nat} {numeric : Bool} {d : List Int} (h : processValWeights s n numeric = .ok d) :
    ∀ x ∈ d, x ∈ vals s := by
  unfold processValWeights at h
  split at h
  · cases h
  · split at h
    · injection h with h; subst h; intro x hx; exact hx
    · split at h
      · obtain ⟨dv, rfl, hdv, _⟩ := undersampled_ok h
        intro x hx
        rcases List.mem_append.mp ((mem_sortInts _ x).mp hx) with hx | hx
        · exact hx
        · exact hdv x hx
      · obtain ⟨_, trimmed, htr, rfl⟩ := oversampled_ok h
        intro x hx
        rcases List.mem_append.mp ((mem_sortInts _ x).mp hx) with hx | hx
        · exact filter_vals_sub _ s x ((pickTrimmed_spec htr).2 x hx)
        · exact filter_vals_sub _ s x hx

/-- `process_val_weights` returns `npartitions + 1` divisions -/
theorem pvw_count {s : Summary} {n : Nat} {numeric : Bool} {d : List Int} (h : processValWeights s n numeric = .ok d) :
    d.length = n + 1 := by
  unfold processValWeights at h
  split at h
  · cases h
  · split at h
    · rename_i hlen; injection h with h; subst h; simpa using hlen
    · split at h
      · rename_i hlt
        obtain ⟨dv, rfl, _, hl⟩ := undersampled_ok h
        rw [length_sortInts, List.length_append, hl]
        simp only [vals, List.length_map]; omega
      · obtain ⟨hle, trimmed, htr, rfl⟩ := oversampled_ok h
        rw [length_sortInts, List.length_append, (pickTrimmed_spec htr).1, List.length_map]; omega

/-- `process_val_weights` on a merged summary (strictly increasing values): the divisions are non-decreasing -/
theorem pvw_monotone {s : Summary} {n : Nat} {numeric : Bool} {d : List Int} (hs : StrictVals s)
    (h : processValWeights s n numeric = .ok d) : d.Pairwise (· ≤ ·) := by
  unfold processValWeights at h
  split at h
  · cases h
  · split at h
    · injection h with h; subst h
      exact List.Pairwise.imp (fun h => Int.le_of_lt h) (strictVals_vals hs)
    · split at h
      · obtain ⟨dv, rfl, _, _⟩ := undersampled_ok h; exact sortInts_sorted _
      · obtain ⟨_, trimmed, _, rfl⟩ := oversampled_ok h; exact sortInts_sorted _

/-- `process_val_weights` on a merged summary with positive weights, `npartitions ≥ 1`: the first division is the first
    (smallest) summarised value and the last division the last (largest) one -/
theorem pvw_span {s : Summary} {n : Nat} {numeric : Bool} {d : List Int} (hs : StrictVals s) (hp : PosW s) (hn : 1 ≤ n)
    (h : processValWeights s n numeric = .ok d) : d.head? = (vals s).head? ∧ d.getLast? = (vals s).getLast? := by
  have hV : (vals s).Pairwise (· ≤ ·) := List.Pairwise.imp (fun h => Int.le_of_lt h) (strictVals_vals hs)
  unfold processValWeights at h
  split at h
  · cases h
  · rename_i hne
    have hsne : s ≠ [] := by intro h0; subst h0; simp at hne
    obtain ⟨p0, hp0⟩ : ∃ p0, s.head? = some p0 := by
      cases s with
      | nil => exact absurd rfl hsne
      | cons a _ => exact ⟨a, rfl⟩
    obtain ⟨pl, hpl⟩ : ∃ pl, s.getLast? = some pl := by
      cases hl : s.getLast? with
      | none => exact absurd (List.getLast?_eq_none_iff.mp hl) hsne
      | some a => exact ⟨a, rfl⟩
    have hlo : (vals s).head? = some p0.1 := by simp [vals, List.head?_map, hp0]
    have hhi : (vals s).getLast? = some pl.1 := by simp [vals, List.getLast?_map, hpl]
    have hlomem : p0.1 ∈ vals s := mem_vals.mpr ⟨p0, List.mem_of_mem_head? (by simp [hp0]), rfl⟩
    have hhimem : pl.1 ∈ vals s := mem_vals.mpr ⟨pl, List.mem_of_getLast? hpl, rfl⟩
    split at h
    · injection h with h; subst h; exact ⟨rfl, rfl⟩
    · split at h
      · obtain ⟨dv, rfl, hdv, _⟩ := undersampled_ok h
        rw [hlo, hhi]
        refine span_of_sorted_subset hV ?_ hlo hhi (List.mem_append.mpr (Or.inl hlomem)) (List.mem_append.mpr (Or.inl hhimem))
        intro x hx
        rcases List.mem_append.mp hx with hx | hx
        · exact hx
        · exact hdv x hx
      · obtain ⟨hle, trimmed, htr, rfl⟩ := oversampled_ok h
        rw [hlo, hhi]
        have hptr : PosW (s.filter (fun p => !isJumbo ((s.map (·.2)).sum) n p)) :=
          fun p hp' => hp p (List.mem_filter.mp hp').1
        refine span_of_sorted_subset hV ?_ hlo hhi ?_ ?_
        · intro x hx
          rcases List.mem_append.mp hx with hx | hx
          · exact filter_vals_sub _ s x ((pickTrimmed_spec htr).2 x hx)
          · exact filter_vals_sub _ s x hx
        · -- the first value: jumbo, or picked by the target 0.0
          by_cases hj : isJumbo ((s.map (·.2)).sum) n p0 = true
          · exact List.mem_append.mpr (Or.inr (mem_vals.mpr ⟨p0, List.mem_filter.mpr ⟨List.mem_of_mem_head? (by simp [hp0]), hj⟩, rfl⟩))
          · have hj' : (fun p => !isJumbo ((s.map (·.2)).sum) n p) p0 = true := by simpa using hj
            exact List.mem_append.mpr (Or.inl (pickTrimmed_first htr hptr (head?_filter_of_pos hp0 hj')))
        · -- the last value: jumbo, or picked by the last target (= the total trimmed weight)
          by_cases hj : isJumbo ((s.map (·.2)).sum) n pl = true
          · exact List.mem_append.mpr (Or.inr (mem_vals.mpr ⟨pl, List.mem_filter.mpr ⟨List.mem_of_getLast? hpl, hj⟩, rfl⟩))
          · have hj' : (fun p => !isJumbo ((s.map (·.2)).sum) n p) pl = true := by simpa using hj
            have hlast := getLast?_filter_of_pos (p := fun p => !isJumbo ((s.map (·.2)).sum) n p) hpl hj'
            have htrne : s.filter (fun p => !isJumbo ((s.map (·.2)).sum) n p) ≠ [] := by
              intro h0; rw [h0] at hlast; simp at hlast
            have hk : 0 < n - (s.filter (isJumbo ((s.map (·.2)).sum) n)).length := by
              rcases jumbo_lt s n _ rfl hp htrne with h1 | h1 <;> omega
            exact List.mem_append.mpr (Or.inl (pickTrimmed_last htr hptr hk hlast))

/-- with at least `npartitions + 1` values and positive weights `process_val_weights` answers (the over-sampled branch
    never indexes outside `trimmed_vals`, never asks `np.linspace` for a negative count, `q_weights` is not empty) -/
theorem pvw_total {s : Summary} {n : Nat} (numeric : Bool) (hp : PosW s) (hn : 1 ≤ n) (hlen : n + 1 ≤ s.length) :
    ∃ d, processValWeights s n numeric = .ok d := by
  have hsne : s ≠ [] := by intro h0; subst h0; simp at hlen
  unfold processValWeights
  have h1 : s.isEmpty = false := by cases s with | nil => exact absurd rfl hsne | cons _ _ => rfl
  simp only [h1, Bool.false_eq_true, if_false]
  split
  · exact ⟨_, rfl⟩
  · rename_i hne
    have h2 : ¬ s.length < n + 1 := by omega
    simp only [h2, if_false]
    unfold oversampled
    simp only [List.length_map]
    have hle := jumbo_le s n _ rfl hp hsne (by omega)
    have h3 : ¬ n < (s.filter (isJumbo ((s.map (·.2)).sum) n)).length := by omega
    simp only [h3, if_false]
    have hsplit := length_filter_split (isJumbo ((s.map (·.2)).sum) n) s
    have htrne : s.filter (fun p => !isJumbo ((s.map (·.2)).sum) n p) ≠ [] := by
      intro h0; rw [h0] at hsplit; simp at hsplit; omega
    obtain ⟨trimmed, ht⟩ := pickTrimmed_total _ (n - (s.filter (isJumbo ((s.map (·.2)).sum) n)).length) htrne
    rw [ht]
    exact ⟨_, rfl⟩

/-! ## RepartitionQuantiles: merge tree + process_val_weights -/

/-- `lo` is the minimum of everything the per-partition summaries contain -/
def IsMinOf (parts : List Summary) (lo : Int) : Prop := (∃ p ∈ parts, lo ∈ vals p) ∧ ∀ p ∈ parts, ∀ v ∈ vals p, lo ≤ v
def IsMaxOf (parts : List Summary) (hi : Int) : Prop := (∃ p ∈ parts, hi ∈ vals p) ∧ ∀ p ∈ parts, ∀ v ∈ vals p, v ≤ hi

/-- **quantile divisions are non-decreasing** — for every list of per-partition summaries with non-decreasing values,
    every merge-tree shape, every `npartitions` -/
theorem quantile_divisions_monotone (widths : List Nat) (parts : List Summary) (n : Nat) (numeric : Bool) (d : List Int)
    (hs : ∀ p ∈ parts, ValSorted p) (h : repartitionQuantiles widths parts n numeric = .ok d) : d.Pairwise (· ≤ ·) := by
  obtain ⟨s, hm, hpv⟩ := rq_unfold h
  exact pvw_monotone (mergedSummary_spec hm hs).1 hpv

/-- **quantile divisions span the minimum and maximum** of everything summarised -/
theorem quantile_divisions_span (widths : List Nat) (parts : List Summary) (n : Nat) (numeric : Bool) (d : List Int)
    (hs : ∀ p ∈ parts, ValSorted p) (hp : ∀ p ∈ parts, PosW p) (hn : 1 ≤ n)
    (h : repartitionQuantiles widths parts n numeric = .ok d) :
    ∃ lo hi, d.head? = some lo ∧ d.getLast? = some hi ∧ IsMinOf parts lo ∧ IsMaxOf parts hi := by
  obtain ⟨s, hm, hpv⟩ := rq_unfold h
  obtain ⟨hstrict, hvals, hpos⟩ := mergedSummary_spec hm hs
  obtain ⟨h1, h2⟩ := pvw_span hstrict (hpos hp) hn hpv
  have hV : (vals s).Pairwise (· ≤ ·) := List.Pairwise.imp (fun h => Int.le_of_lt h) (strictVals_vals hstrict)
  have hcount := pvw_count hpv
  cases hlo : (vals s).head? with
  | none =>
    rw [hlo] at h1
    cases d with
    | nil => simp at hcount
    | cons _ _ => simp at h1
  | some lo =>
    cases hhi : (vals s).getLast? with
    | none =>
      have := List.getLast?_eq_none_iff.mp hhi
      rw [this] at hlo; simp at hlo
    | some hi =>
      refine ⟨lo, hi, by rw [h1, hlo], by rw [h2, hhi], ⟨(hvals lo).mp (List.mem_of_mem_head? (by simp [hlo])), ?_⟩,
        ⟨(hvals hi).mp (List.mem_of_getLast? hhi), ?_⟩⟩
      · intro p hp' v hv
        exact head_le_of_sorted hV hlo v ((hvals v).mpr ⟨p, hp', hv⟩)
      · intro p hp' v hv
        exact le_getLast_of_sorted hV hhi v ((hvals v).mpr ⟨p, hp', hv⟩)

/-- there are `npartitions + 1` quantile divisions -/
theorem quantile_divisions_count (widths : List Nat) (parts : List Summary) (n : Nat) (numeric : Bool) (d : List Int)
    (h : repartitionQuantiles widths parts n numeric = .ok d) : d.length = n + 1 := by
  obtain ⟨s, _, hpv⟩ := rq_unfold h
  exact pvw_count hpv

/-- each quantile division is a value of some per-partition summary -/
theorem quantile_divisions_members (widths : List Nat) (parts : List Summary) (n : Nat) (numeric : Bool) (d : List Int)
    (hs : ∀ p ∈ parts, ValSorted p) (h : repartitionQuantiles widths parts n numeric = .ok d) :
    ∀ x ∈ d, ∃ p ∈ parts, x ∈ vals p := by
  obtain ⟨s, hm, hpv⟩ := rq_unfold h
  intro x hx
  exact ((mergedSummary_spec hm hs).2.1 x).mp (pvw_members hpv x hx)

/-- `merge_and_compress_summaries`: strictly increasing values, exactly the union of the inputs' values, positive
    weights stay positive -/
theorem merge_and_compress_spec (ss : List Summary) (hs : ∀ s ∈ ss, ValSorted s) :
    StrictVals (mergeAndCompress ss) ∧ (∀ v, v ∈ vals (mergeAndCompress ss) ↔ ∃ s ∈ ss, v ∈ vals s) ∧
    ((∀ s ∈ ss, PosW s) → PosW (mergeAndCompress ss)) :=
  ⟨mac_strict ss hs, mem_vals_mac ss, mac_pos ss⟩

/-- `tree_groups(N, g)` (Bresenham) splits `N` keys into `g` groups: no per-partition summary is dropped by
    `create_merge_tree` -/
theorem tree_groups_cover {N g : Nat} {l : List Nat} (h : treeGroups N g = some l) : l.sum = N ∧ l.length = g :=
  treeGroups_spec h


/-! ## per-partition summaries: the hypotheses above are what `percentiles_summary` produces -/

/-- `percentiles_to_weights`: positive weights, one per percentile, for strictly increasing percentiles -/
theorem percentiles_to_weights_positive (qs : List Int) (length : Nat) (hq : qs.Pairwise (· < ·)) (h2 : 2 ≤ qs.length)
    (hl : 0 < length) : (∀ w ∈ ptw2 qs length, 0 < w) ∧ (ptw2 qs length).length = qs.length :=
  ptw2_pos qs length hq h2 hl

/-- `percentiles_summary` (interpolation='nearest') on sorted partition data, picked positions non-decreasing from `0`
    to `len - 1`, strictly increasing percentiles: values non-decreasing, weights positive, first = partition minimum,
    last = partition maximum, every value a data value -/
theorem percentiles_summary_contract (d : List Int) (pos : List Nat) (qs : List Int) (s : Summary)
    (hd : d.Pairwise (· ≤ ·)) (hne : d ≠ []) (hpos : pos.Pairwise (· ≤ ·)) (h0 : pos.head? = some 0)
    (hl : pos.getLast? = some (d.length - 1)) (hq : qs.Pairwise (· < ·)) (hlen : qs.length = pos.length)
    (h2 : 2 ≤ qs.length) (h : percentilesSummary d pos qs = some s) :
    ValSorted s ∧ PosW s ∧ (vals s).head? = d.head? ∧ (vals s).getLast? = d.getLast? ∧ ∀ v ∈ vals s, v ∈ d :=
  percentilesSummary_contract d pos qs s hd hne hpos h0 hl hq hlen h2 h

example : percentilesSummary [2, 3, 3, 5, 8] [0, 1, 2, 2, 4] [0, 25, 50, 75, 100] =
    some [(2, 125), (3, 250), (3, 250), (3, 250), (8, 125)] := by decide

/-- `p` summarises the sorted partition data `d` the way `percentiles_summary` does -/
def Summarises (d : List Int) (p : Summary) : Prop :=
  (d = [] ∧ p = []) ∨ (d ≠ [] ∧ ValSorted p ∧ PosW p ∧ (vals p).head? = d.head? ∧ (vals p).getLast? = d.getLast? ∧
    ∀ v ∈ vals p, v ∈ d)

/-- **the quantile divisions span the DATA's minimum and maximum**: `pairs` = (sorted partition data, its summary) -/
theorem quantile_divisions_span_data (widths : List Nat) (pairs : List (List Int × Summary)) (n : Nat) (numeric : Bool)
    (d : List Int) (hsum : ∀ pr ∈ pairs, pr.1.Pairwise (· ≤ ·) ∧ Summarises pr.1 pr.2) (hn : 1 ≤ n)
    (h : repartitionQuantiles widths (pairs.map (·.2)) n numeric = .ok d) :
    ∃ lo hi, d.head? = some lo ∧ d.getLast? = some hi ∧
      (∃ pr ∈ pairs, lo ∈ pr.1) ∧ (∀ pr ∈ pairs, ∀ x ∈ pr.1, lo ≤ x) ∧
      (∃ pr ∈ pairs, hi ∈ pr.1) ∧ (∀ pr ∈ pairs, ∀ x ∈ pr.1, x ≤ hi) := by
  have hs : ∀ p ∈ pairs.map (·.2), ValSorted p := by
    intro p hp
    obtain ⟨pr, hpr, rfl⟩ := List.mem_map.mp hp
    rcases (hsum pr hpr).2 with ⟨_, h0⟩ | ⟨_, h1, _⟩
    · rw [h0]; exact List.Pairwise.nil
    · exact h1
  have hp : ∀ p ∈ pairs.map (·.2), PosW p := by
    intro p hp
    obtain ⟨pr, hpr, rfl⟩ := List.mem_map.mp hp
    rcases (hsum pr hpr).2 with ⟨_, h0⟩ | ⟨_, _, h1, _⟩
    · rw [h0]; intro q hq; simp at hq
    · exact h1
  obtain ⟨lo, hi, e1, e2, ⟨⟨p, hpm, hlo⟩, hlo'⟩, ⟨⟨p', hpm', hhi⟩, hhi'⟩⟩ :=
    quantile_divisions_span widths _ n numeric d hs hp hn h
  refine ⟨lo, hi, e1, e2, ?_, ?_, ?_, ?_⟩
  · obtain ⟨pr, hpr, rfl⟩ := List.mem_map.mp hpm
    rcases (hsum pr hpr).2 with ⟨_, h0⟩ | ⟨_, _, _, _, _, hmem⟩
    · rw [h0] at hlo; simp [vals] at hlo
    · exact ⟨pr, hpr, hmem lo hlo⟩
  · intro pr hpr x hx
    rcases (hsum pr hpr).2 with ⟨h0, _⟩ | ⟨_, _, _, hh, _, _⟩
    · rw [h0] at hx; simp at hx
    · cases hd : pr.1.head? with
      | none => rw [List.head?_eq_none_iff.mp hd] at hx; simp at hx
      | some m =>
        have hm : m ∈ vals pr.2 := List.mem_of_mem_head? (by rw [hh, hd]; simp)
        have h1 := hlo' pr.2 (List.mem_map.mpr ⟨pr, hpr, rfl⟩) m hm
        have h2 := head_le_of_sorted (hsum pr hpr).1 hd x hx
        omega
  · obtain ⟨pr, hpr, rfl⟩ := List.mem_map.mp hpm'
    rcases (hsum pr hpr).2 with ⟨_, h0⟩ | ⟨_, _, _, _, _, hmem⟩
    · rw [h0] at hhi; simp [vals] at hhi
    · exact ⟨pr, hpr, hmem hi hhi⟩
  · intro pr hpr x hx
    rcases (hsum pr hpr).2 with ⟨h0, _⟩ | ⟨_, _, _, _, hh, _⟩
    · rw [h0] at hx; simp at hx
    · cases hd : pr.1.getLast? with
      | none => rw [List.getLast?_eq_none_iff.mp hd] at hx; simp at hx
      | some m =>
        have hm : m ∈ vals pr.2 := List.mem_of_getLast? (by rw [hh, hd])
        have h1 := hhi' pr.2 (List.mem_map.mpr ⟨pr, hpr, rfl⟩) m hm
        have h2 := le_getLast_of_sorted (hsum pr hpr).1 hd x hx
        omega

/-! ## the fix-up in `_calculate_divisions` -/

/-- `set_index`'s divisions (`list(divisions.iloc[:n-1].unique()) + divisions.iloc[n-1:].tolist()`) are still
    non-decreasing, strictly increasing before the closing entry, and keep the first and the last entry -/
theorem set_index_divisions_fixup (d : List Int) (h : d.Pairwise (· ≤ ·)) (hlen : 2 ≤ d.length) :
    (dropDuplicateDivisions d).Pairwise (· ≤ ·) ∧ ((dropDuplicateDivisions d).dropLast).Pairwise (· < ·) ∧
    (dropDuplicateDivisions d).head? = d.head? ∧ (dropDuplicateDivisions d).getLast? = d.getLast? ∧
    ∀ x, x ∈ dropDuplicateDivisions d ↔ x ∈ d :=
  dropDuplicateDivisions_spec d h hlen

example : dropDuplicateDivisions [0, 0, 3, 3, 7, 7] = [0, 3, 7, 7] := by decide

/-! ## non-vacuity and the role of the weight hypothesis -/

/-- three partitions (one empty), duplicates inside and across partitions, 2 output partitions: the model answers,
    and the hypotheses of the theorems hold -/
example : repartitionQuantiles [1] [[(1, 2), (3, 4), (3, 2)], [], [(0, 1), (3, 1), (7, 5)]] 2 false = .ok [0, 1, 7] := by
  simp [repartitionQuantiles, mergedSummary, treeReduce, treeGroups, tgLoop, treeLevel, mergeAndCompress, mergeSorted,
    merge2, pairLt, compress, compressGo, processValWeights, oversampled, isJumbo, pickTrimmed, cumsum,
    qTargets, lowerIdx, countLt, countLe, sortInts, insertInt, List.range, List.range.loop]
example : ∀ p ∈ [[((1 : Int), (2 : Int)), (3, 4), (3, 2)], [], [(0, 1), (3, 1), (7, 5)]], ValSorted p ∧ PosW p := by
  intro p hp
  simp only [List.mem_cons, List.mem_nil_iff, or_false] at hp
  rcases hp with rfl | rfl | rfl <;> simp [ValSorted, PosW]

/-- a zero weight on the largest value loses the maximum: the positivity hypothesis of `quantile_divisions_span` is needed
    (`percentiles_to_weights` never produces one for strictly increasing percentiles) -/
theorem span_needs_positive_weights_refuted :
    ¬ (∀ (s : Summary) (n : Nat) (d : List Int), StrictVals s → 1 ≤ n → processValWeights s n false = .ok d →
        d.getLast? = (vals s).getLast?) := by
  intro h
  have := h [(0, 1), (1, 1), (2, 1), (3, 0)] 1 [0, 2] (by simp [StrictVals]) (by omega)
    (by simp [processValWeights, oversampled, isJumbo, pickTrimmed, cumsum, qTargets, lowerIdx, countLt, countLe,
          sortInts, insertInt, List.range, List.range.loop])
  simp [vals] at this

end Dask.C45x
