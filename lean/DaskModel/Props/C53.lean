import DaskModel.Model.LockReg
/-!
# C53 — serializable locks keep their identity across pickling

Model: `DaskModel/Model/LockReg.lean`. All statements quantify over *every* history of constructions (explicit or
default tokens), pickle/copy round trips, loads of old pickles, object deaths, weak-reference clearings (at any
moment they are permitted) and acquire/release calls.

* `copies_share_lock`        live objects with equal tokens share one lock — in particular every unpickled copy and
                             its original (`copy_shares_with_original`, `load_shares_with_live`)
* `separate_locks_distinct`  live objects with different tokens have different locks; two default constructions
                             always have different tokens (`default_tokens_fresh`), hence never exclude each other
* `holding_blocks_copies` / `holding_does_not_block_others`   the mutual-exclusion reading, `threading.Lock` trusted
* `gc_safe`                  a weak entry can only disappear when no live object holds its lock
* `late_copy_after_first_instance_died`   the first instance dies, copies survive, any permitted clearing happens, a
                             pickle is loaded: the late copy holds the survivors' lock
* `instance_registry_breaks_sharing`      why the weak value must be the lock: a registry that keeps the first *instance*
                             (what-if model `stepI`) loses the entry with that instance and hands out a second lock
-/
namespace Dask.C53
open Dask.LockReg

structure Inv (s : State) : Prop where
  live : ∀ x ∈ s.objs, s.reg x.token = some x.lock
  bound : ∀ t l, s.reg t = some l → l < s.nextLock
  inj : ∀ t1 t2 l, s.reg t1 = some l → s.reg t2 = some l → t1 = t2
  uuidFresh : ∀ n l, s.reg (.uuid n) = some l → n < s.nextUuid

theorem inv_init : Inv init := ⟨by simp [init], by simp [init], by simp [init], by simp [init]⟩

theorem construct_inv (s : State) (t : Token) (h : Inv s) (ht : ∀ n, t = .uuid n → n < s.nextUuid) :
    Inv (construct s t) := by
  unfold construct
  cases hr : s.reg t with
  | some l =>
    dsimp only
    refine ⟨?_, h.bound, h.inj, h.uuidFresh⟩
    intro x hx
    simp only [List.mem_cons] at hx
    rcases hx with rfl | hx
    · exact hr
    · exact h.live x hx
  | none =>
    dsimp only
    refine ⟨?_, ?_, ?_, ?_⟩
    · intro x hx
      simp only [List.mem_cons] at hx
      rcases hx with rfl | hx
      · simp
      · have := h.live x hx
        by_cases hxt : x.token = t
        · rw [hxt, hr] at this; cases this
        · simp [hxt, this]
    · intro t' l hl
      simp only at hl
      by_cases htt : t' = t
      · simp [htt] at hl; show l < s.nextLock + 1; omega
      · simp [htt] at hl; have := h.bound t' l hl; show l < s.nextLock + 1; omega
    · intro t1 t2 l h1 h2
      simp only at h1 h2
      by_cases e1 : t1 = t <;> by_cases e2 : t2 = t
      · rw [e1, e2]
      · simp [e1] at h1; simp [e2] at h2; have := h.bound t2 l h2; omega
      · simp [e1] at h1; simp [e2] at h2; have := h.bound t1 l h1; omega
      · simp [e1] at h1; simp [e2] at h2; exact h.inj t1 t2 l h1 h2
    · intro n l hl
      simp only at hl
      by_cases htt : Token.uuid n = t
      · exact ht n htt.symm
      · simp [htt] at hl; exact h.uuidFresh n l hl

theorem inv_bump (s : State) (k : Nat) (h : Inv s) (hk : s.nextUuid ≤ k) : Inv { s with nextUuid := k } :=
  ⟨h.live, h.bound, h.inj, fun n l hl => Nat.lt_of_lt_of_le (h.uuidFresh n l hl) hk⟩

theorem findObj_mem (s : State) (o : Nat) (x : Obj) (h : findObj s o = some x) : x ∈ s.objs ∧ x.id = o := by
  unfold findObj at h
  exact ⟨List.mem_of_find?_eq_some h, by simpa using List.find?_some h⟩

theorem step_inv (s : State) (e : Event) (h : Inv s) : Inv (step s e) := by
  cases e with
  | new tok =>
    cases tok with
    | some n => exact construct_inv s _ h (by intro n hn; cases hn)
    | none =>
      refine construct_inv _ _ (inv_bump s _ h (Nat.le_succ _)) ?_
      intro n hn
      cases hn
      simp
  | load t =>
    cases t with
    | explicit n => exact construct_inv s _ h (by intro n hn; cases hn)
    | uuid n =>
      refine construct_inv _ _ (inv_bump s _ h (Nat.le_max_left _ _)) ?_
      intro m hm
      cases hm
      simp only
      omega
  | copyOf o =>
    simp only [step]
    cases hf : findObj s o with
    | none => exact h
    | some x =>
      refine construct_inv s _ h ?_
      intro n hn
      have := h.live x (findObj_mem s o x hf).1
      rw [hn] at this
      exact h.uuidFresh n _ this
  | drop o =>
    refine ⟨?_, h.bound, h.inj, h.uuidFresh⟩
    intro x hx
    simp only [step, List.mem_filter] at hx
    exact h.live x hx.1
  | gc t =>
    simp only [step]
    cases hr : s.reg t with
    | none => exact h
    | some l =>
      simp only
      split
      · exact h
      · rename_i hany
        refine ⟨?_, ?_, ?_, ?_⟩
        · intro x hx
          have hl := h.live x hx
          by_cases hxt : x.token = t
          · exfalso
            apply hany
            rw [hxt, hr] at hl
            simp only [List.any_eq_true, decide_eq_true_eq]
            exact ⟨x, hx, by simpa using hl.symm⟩
          · simp [hxt, hl]
        · intro t' l' hl'
          by_cases htt : t' = t
          · simp [htt] at hl'
          · simp [htt] at hl'; exact h.bound t' l' hl'
        · intro t1 t2 l' h1 h2
          by_cases e1 : t1 = t
          · simp [e1] at h1
          · by_cases e2 : t2 = t
            · simp [e2] at h2
            · simp [e1] at h1; simp [e2] at h2; exact h.inj t1 t2 l' h1 h2
        · intro n l' hl'
          by_cases htt : Token.uuid n = t
          · simp [htt] at hl'
          · simp [htt] at hl'; exact h.uuidFresh n l' hl'
  | acquire o =>
    simp only [step]
    cases findObj s o with
    | none => exact h
    | some x => simp only; split <;> exact ⟨h.live, h.bound, h.inj, h.uuidFresh⟩
  | release o =>
    simp only [step]
    cases findObj s o with
    | none => exact h
    | some x => exact ⟨h.live, h.bound, h.inj, h.uuidFresh⟩

theorem run_inv (s : State) (evs : List Event) (h : Inv s) : Inv (run s evs) := by
  induction evs generalizing s with
  | nil => exact h
  | cons e es ih => exact ih (step s e) (step_inv s e h)

/-- **copies_share_lock.** After any history, all live objects with equal tokens hold the same lock. -/
theorem copies_share_lock (evs : List Event) (x y : Obj)
    (hx : x ∈ (run init evs).objs) (hy : y ∈ (run init evs).objs) (ht : x.token = y.token) : x.lock = y.lock := by
  have h := run_inv init evs inv_init
  have h1 := h.live x hx
  have h2 := h.live y hy
  rw [ht, h2] at h1
  exact (Option.some.inj h1).symm

/-- **separate_locks_distinct.** Live objects with different tokens hold different locks. -/
theorem separate_locks_distinct (evs : List Event) (x y : Obj)
    (hx : x ∈ (run init evs).objs) (hy : y ∈ (run init evs).objs) (ht : x.token ≠ y.token) : x.lock ≠ y.lock := by
  have h := run_inv init evs inv_init
  intro hl
  have h1 := h.live x hx
  have h2 := h.live y hy
  rw [hl] at h1
  exact ht (h.inj _ _ _ h1 h2)

/-- non-vacuity: a history with two default locks, a copy, an old pickle loaded after its original died and was
collected, explicit tokens — five live objects in three classes. -/
example :
    ((run init [.new none, .new none, .copyOf 0, .new (some 7), .drop 1, .gc (.uuid 1), .load (.uuid 1),
                .new (some 7), .load (.uuid 0)]).objs.map fun x => (x.id, x.lock))
      = [(6, 0), (5, 2), (4, 3), (3, 2), (2, 0), (0, 0)] := by decide

/-- The object built by `construct` for token `t` is live, carries `t`, and everything live before stays live. -/
theorem construct_objs (s : State) (t : Token) :
    ∃ l, (construct s t).objs = ⟨s.nextObj, t, l⟩ :: s.objs := by
  unfold construct
  cases s.reg t <;> simp

/-- **copy_shares_with_original.** A pickle round trip / copy of a live object yields an object with the same lock,
whatever happened before. -/
theorem copy_shares_with_original (evs : List Event) (o : Nat) (x : Obj)
    (hx : findObj (run init evs) o = some x) :
    ∃ y, (run init (evs ++ [.copyOf o])).objs = y :: (run init evs).objs ∧ y.token = x.token ∧ y.lock = x.lock := by
  have hrun : run init (evs ++ [.copyOf o]) = construct (run init evs) x.token := by
    have hx' : findObj (List.foldl step init evs) o = some x := hx
    simp [run, List.foldl_append, step, hx']
  obtain ⟨l, hl⟩ := construct_objs (run init evs) x.token
  refine ⟨⟨(run init evs).nextObj, x.token, l⟩, by rw [hrun, hl], rfl, ?_⟩
  have hmem : x ∈ (run init (evs ++ [.copyOf o])).objs := by
    rw [hrun, hl]; exact List.mem_cons_of_mem _ (findObj_mem _ o x hx).1
  have hnew : (⟨(run init evs).nextObj, x.token, l⟩ : Obj) ∈ (run init (evs ++ [.copyOf o])).objs := by
    rw [hrun, hl]; exact List.mem_cons_self
  exact copies_share_lock (evs ++ [.copyOf o]) _ x hnew hmem rfl

/-- **load_shares_with_live.** Loading an old pickle that carries the token of some object that is still alive
yields an object with that object's lock (even if the pickled original itself is long dead). -/
theorem load_shares_with_live (evs : List Event) (x : Obj) (hx : x ∈ (run init evs).objs) :
    ∃ y, y ∈ (run init (evs ++ [.load x.token])).objs ∧ y.id = (run init evs).nextObj ∧ y.lock = x.lock := by
  have hobjs : ∃ l, (run init (evs ++ [.load x.token])).objs = ⟨(run init evs).nextObj, x.token, l⟩ :: (run init evs).objs := by
    simp only [run, List.foldl_append, List.foldl_cons, List.foldl_nil, step]
    cases x.token with
    | explicit n => exact construct_objs _ _
    | uuid n => exact construct_objs { (List.foldl step init evs) with nextUuid := _ } _
  obtain ⟨l, hl⟩ := hobjs
  refine ⟨⟨(run init evs).nextObj, x.token, l⟩, by rw [hl]; exact List.mem_cons_self, rfl, ?_⟩
  exact copies_share_lock (evs ++ [.load x.token]) _ x (by rw [hl]; exact List.mem_cons_self)
    (by rw [hl]; exact List.mem_cons_of_mem _ hx) rfl

/-- **default_tokens_fresh.** A default construction (`SerializableLock()`) gets a token that no live object
carries, hence (by `separate_locks_distinct`) a lock that no live object holds. -/
theorem default_tokens_fresh (evs : List Event) (x : Obj) (hx : x ∈ (run init evs).objs) :
    x.token ≠ .uuid (run init evs).nextUuid := by
  have h := run_inv init evs inv_init
  intro ht
  have := h.live x hx
  rw [ht] at this
  exact Nat.lt_irrefl _ (h.uuidFresh _ _ this)

theorem default_lock_separate (evs : List Event) (x : Obj) (hx : x ∈ (run init evs).objs) :
    ∀ y ∈ (run init (evs ++ [.new none])).objs, y.id = (run init evs).nextObj → y.token = .uuid (run init evs).nextUuid →
      y.lock ≠ x.lock := by
  intro y hy _ hyt
  have hxm : x ∈ (run init (evs ++ [.new none])).objs := by
    simp only [run, List.foldl_append, List.foldl_cons, List.foldl_nil, step]
    obtain ⟨l, hl⟩ := construct_objs { (List.foldl step init evs) with nextUuid := (List.foldl step init evs).nextUuid + 1 }
      (.uuid (List.foldl step init evs).nextUuid)
    rw [hl]
    exact List.mem_cons_of_mem _ hx
  refine separate_locks_distinct (evs ++ [.new none]) y x hy hxm ?_
  rw [hyt]
  exact fun e => default_tokens_fresh evs x hx e.symm

/-- **holding_blocks_copies.** While the lock is held through one object, a non-blocking acquire through any live
object with the same token fails … -/
theorem holding_blocks_copies (evs : List Event) (o1 o2 : Nat) (x y : Obj)
    (hx : findObj (run init evs) o1 = some x) (hy : findObj (run init evs) o2 = some y)
    (ht : x.token = y.token) (hheld : x.lock ∈ (run init evs).held) :
    canAcquire (run init evs) o2 = some false := by
  have := copies_share_lock evs x y (findObj_mem _ _ _ hx).1 (findObj_mem _ _ _ hy).1 ht
  simp [canAcquire, hy, ← this, hheld]

/-- non-vacuity of `holding_blocks_copies` / `holding_does_not_block_others`: `a = SerializableLock()`, `b = copy(a)`,
`c = SerializableLock()`; `a.acquire()` — then `b.acquire(False)` fails and `c.acquire(False)` succeeds -/
example :
    let s := run init [.new none, .copyOf 0, .new none, .acquire 0]
    (findObj s 0).map (·.lock) = some 0 ∧ s.held = [0] ∧ canAcquire s 1 = some false ∧ canAcquire s 2 = some true := by
  decide

/-- … and **holding_does_not_block_others**: objects with a different token are never affected by it: acquiring
through `o1` changes the answer of `canAcquire o2` for no `o2` with another token. -/
theorem holding_does_not_block_others (evs : List Event) (o1 o2 : Nat) (x y : Obj)
    (hx : findObj (run init evs) o1 = some x) (hy : findObj (run init evs) o2 = some y)
    (ht : x.token ≠ y.token) :
    canAcquire (run init (evs ++ [.acquire o1])) o2 = canAcquire (run init evs) o2 := by
  have hne := separate_locks_distinct evs x y (findObj_mem _ _ _ hx).1 (findObj_mem _ _ _ hy).1 ht
  simp only [run, List.foldl_append, List.foldl_cons, List.foldl_nil, step]
  have hx' : findObj (List.foldl step init evs) o1 = some x := hx
  have hy' : findObj (List.foldl step init evs) o2 = some y := hy
  rw [hx']
  simp only
  split
  · rfl
  · simp only [canAcquire, findObj] at hy' ⊢
    rw [hy']
    simp only [Option.map_some, Option.some.injEq, List.contains_cons]
    have : (y.lock == x.lock) = false := by simpa using fun e => hne e.symm
    simp [this]

/-- **gc_safe.** A weak entry is only ever cleared when no live object holds its lock: after a `gc` step every live
object still finds its own lock under its token (this is `Inv.live` — stated separately because it is the part of
the argument that depends on weak-reference semantics). -/
theorem gc_safe (evs : List Event) (t : Token) (x : Obj) (hx : x ∈ (run init (evs ++ [.gc t])).objs) :
    (run init (evs ++ [.gc t])).reg x.token = some x.lock :=
  (run_inv init (evs ++ [.gc t]) inv_init).live x hx

/-- the eager (CPython) timing is one of the histories covered above -/
theorem runEager_inv (s : State) (evs : List Event) (h : Inv s) : Inv (runEager s evs) := by
  induction evs generalizing s with
  | nil => exact h
  | cons e es ih =>
    apply ih
    unfold stepEager
    cases e with
    | drop o =>
      simp only
      cases findObj s o with
      | none => exact h
      | some x => exact step_inv _ _ (step_inv _ _ h)
    | _ => exact step_inv _ _ h

theorem step_gc_objs (s : State) (t : Token) : (step s (.gc t)).objs = s.objs ∧ (step s (.gc t)).nextObj = s.nextObj := by
  simp only [step]
  cases s.reg t with
  | none => exact ⟨rfl, rfl⟩
  | some l => simp only; split <;> exact ⟨rfl, rfl⟩

theorem run_gcs_objs (ts : List Token) : ∀ (s : State), (run s (ts.map Event.gc)).objs = s.objs := by
  induction ts with
  | nil => intro s; rfl
  | cons t ts ih =>
    intro s
    simp only [List.map_cons, run, List.foldl_cons]
    have := ih (step s (.gc t))
    simp only [run] at this
    rw [this]
    exact (step_gc_objs s t).1

theorem run_append (s : State) (a b : List Event) : run s (a ++ b) = run (run s a) b := by
  simp [run, List.foldl_append]

/-- **late_copy_after_first_instance_died.** The first instance created for a token (or any other instance `o`) dies
while a copy `x` survives; the collector may then clear whatever weak entries it is allowed to clear (`gcs`, any
tokens, any number); a pickle carrying the token is loaded afterwards. The late copy holds the lock of the surviving
copy — the registry entry is kept alive by EVERY live copy (its referent is the lock they all hold), not by the first
instance. -/
theorem late_copy_after_first_instance_died (evs : List Event) (o : Nat) (x : Obj) (gcs : List Token)
    (hx : x ∈ (run init evs).objs) (hne : x.id ≠ o) :
    ∃ y, y ∈ (run init (evs ++ [.drop o] ++ gcs.map Event.gc ++ [.load x.token])).objs ∧
      y.id = (run init evs).nextObj ∧ y.lock = x.lock := by
  have hx' : x ∈ (run init (evs ++ [.drop o] ++ gcs.map Event.gc)).objs := by
    rw [run_append, run_gcs_objs, run_append]
    simp only [run, List.foldl_cons, List.foldl_nil, step, List.mem_filter, decide_eq_true_eq]
    exact ⟨hx, hne⟩
  obtain ⟨y, hy, hid, hl⟩ := load_shares_with_live (evs ++ [.drop o] ++ gcs.map Event.gc) x hx'
  refine ⟨y, hy, ?_, hl⟩
  rw [hid]
  -- neither `drop` nor `gc` allocates an object identity
  have h1 : ∀ (ts : List Token) (s : State), (run s (ts.map Event.gc)).nextObj = s.nextObj := by
    intro ts
    induction ts with
    | nil => intro s; rfl
    | cons t ts ih =>
      intro s
      simp only [List.map_cons, run, List.foldl_cons]
      have := ih (step s (.gc t))
      simp only [run] at this
      rw [this]
      exact (step_gc_objs s t).2
  rw [run_append, h1, run_append]
  rfl

/-- non-vacuity: `A = SerializableLock(7)`, `B = copy(A)`, `del A`, gc, `C = loads(pickle of token 7)`: `C.lock is B.lock` -/
example :
    ((run init [.new (some 7), .copyOf 0, .drop 0, .gc (.explicit 7), .load (.explicit 7)]).objs.map
      fun x => (x.id, x.lock)) = [(2, 0), (1, 0)] := by decide

/-! ### what if the weak registry held the first *instance* instead of the lock (NOT the code)

`_locks[token] = self` and `self.lock = _locks[token].lock`: the entry is then kept alive by the first instance only.
CPython clears it as soon as that instance dies, although copies still hold the lock. -/

/-- registry: token ↦ identity of the owning instance -/
structure StateI where
  reg : List (Token × Nat)
  objs : List Obj
  nextLock : Nat
  nextObj : Nat

def initI : StateI := { reg := [], objs := [], nextLock := 0, nextObj := 0 }

def constructI (s : StateI) (t : Token) : StateI :=
  match (s.reg.find? (·.1 = t)).bind fun e => s.objs.find? (·.id = e.2) with
  | some owner => { s with objs := ⟨s.nextObj, t, owner.lock⟩ :: s.objs, nextObj := s.nextObj + 1 }
  | none =>
    { reg := (t, s.nextObj) :: s.reg.filter (·.1 ≠ t), objs := ⟨s.nextObj, t, s.nextLock⟩ :: s.objs,
      nextLock := s.nextLock + 1, nextObj := s.nextObj + 1 }

/-- explicit-token constructions, copies and deaths (weak entry cleared when its owner dies) -/
def stepI (s : StateI) : Event → StateI
  | .new (some n) => constructI s (.explicit n)
  | .load t => constructI s t
  | .copyOf o =>
    match s.objs.find? (·.id = o) with
    | some x => constructI s x.token
    | none => s
  | .drop o => { s with objs := s.objs.filter (·.id ≠ o), reg := s.reg.filter (·.2 ≠ o) }
  | _ => s

/-- **instance_registry_breaks_sharing.** With the instance-holding registry the same five-step history ends with two
live objects that carry the same token and hold DIFFERENT locks. -/
theorem instance_registry_breaks_sharing :
    ∃ x y, x ∈ ([Event.new (some 7), .copyOf 0, .drop 0, .load (.explicit 7)].foldl stepI initI).objs ∧
      y ∈ ([Event.new (some 7), .copyOf 0, .drop 0, .load (.explicit 7)].foldl stepI initI).objs ∧
      x.token = y.token ∧ x.lock ≠ y.lock :=
  ⟨⟨2, .explicit 7, 1⟩, ⟨1, .explicit 7, 0⟩, by decide, by decide, rfl, by decide⟩

end Dask.C53
