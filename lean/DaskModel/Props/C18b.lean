import DaskModel.Props.C18
import DaskModel.Model.KeySplit
/-!
# C18 (continued) — units in any letter case, exactness of the finding's range, shape of `natural_sort_key`

* `parse_bytes_units`     for every row `(u, m)` of the extracted `byte_sizes` table, every spelling of `u` in any
                          letter case and every supported numeric prefix `p`: `parse_bytes(p ++ spelling) =
                          int(float(p) * m)` (the lookup lower-cases first — proved, not enumerated over casings)
* `parse_timedelta_units` the same for `timedelta_sizes` (the result is the exact product `float(p) * m`)
* `format_len_exact`      every `n` with `N0 ≤ n < 2^60` prints 11 characters: the finding's range is exact
* `natural_sort_key_shape`, `splitDigits_concat`   documented shape of `natural_sort_key`
-/
namespace Dask.C18
open Dask.Bytes Dask.PyStr
open Dask.Generated.ByteTables

/-! ### splitting number and unit -/

theorem takeWhile_append_stop {α : Type} (p : α → Bool) (a b : List α) (c : α) (ha : a.all p = true) (hc : p c = false) :
    (a ++ c :: b).takeWhile p = a := by
  induction a with
  | nil => simp [List.takeWhile, hc]
  | cons x xs ih =>
    simp only [List.all_cons, Bool.and_eq_true] at ha
    simp [List.takeWhile, ha.1, ih ha.2]

/-- the suffix found by `parse_bytes` / `parse_timedelta` is exactly the trailing run of letters -/
theorem splitUnit_append (pre suf : List Char) (c : Char) (hsuf : suf.all isAlpha = true) (hc : isAlpha c = false) :
    splitUnit (pre ++ c :: suf) = (pre ++ [c], suf) := by
  unfold splitUnit
  have hrev : (pre ++ c :: suf).reverse = suf.reverse ++ c :: pre.reverse := by simp
  have hall : suf.reverse.all isAlpha = true := by simpa using hsuf
  rw [hrev, takeWhile_append_stop isAlpha suf.reverse pre.reverse c hall hc]
  simp only [List.reverse_reverse, List.length_append, List.length_cons, Prod.mk.injEq, and_true]
  have : pre.length + (suf.length + 1) - suf.length = (pre ++ [c]).length := by simp; omega
  rw [this]
  have e : pre ++ c :: suf = (pre ++ [c]) ++ suf := by simp
  rw [e, List.take_left']
  rfl

theorem lookup_of_mem {α : Type} (tbl : List (String × α)) (hnd : (tbl.map (·.1)).Nodup) (u : String) (m : α)
    (h : (u, m) ∈ tbl) : lookup tbl u = some m := by
  induction tbl with
  | nil => cases h
  | cons kv r ih =>
    obtain ⟨k, v⟩ := kv
    simp only [List.map_cons, List.nodup_cons] at hnd
    simp only [List.mem_cons, Prod.mk.injEq] at h
    unfold lookup
    rcases h with ⟨rfl, rfl⟩ | h
    · simp
    · have hne : k ≠ u := by
        intro e
        apply hnd.1
        rw [e]
        exact List.mem_map.mpr ⟨(u, m), h, rfl⟩
      simp [hne, ih hnd.2 h]

theorem byteSizes_nodup : (byteSizes.map (·.1)).Nodup := by decide
theorem timedeltaSizes_nodup : (timedeltaSizes.map (·.1)).Nodup := by decide

/-- **parse_bytes_units.** Every row of `byte_sizes`, in any letter case, with any supported numeric prefix
(which must contain a digit and end in a non-letter — e.g. `"5.4"`, `"1e3"`, `"12."`), no spaces. -/
theorem parse_bytes_units (u : String) (m : Nat) (hrow : (u, m) ∈ byteSizes)
    (pre suf : List Char) (c : Char) (l : Lit)
    (hcase : String.ofList (lowerL suf) = u) (hsuf : suf.all isAlpha = true) (hc : isAlpha c = false)
    (hdig : (pre ++ c :: suf).any isDigit = true) (hsp : ' ' ∉ pre ++ c :: suf)
    (hlit : parseLit (pre ++ [c]) = some l) :
    parseBytes (String.ofList (pre ++ c :: suf)) =
      .ok (if l.neg then -(((mulR l.toDy (natToDy m)).floor : Nat) : Int) else ((mulR l.toDy (natToDy m)).floor : Nat)) := by
  unfold parseBytes
  have hfil : (pre ++ c :: suf).filter (· ≠ ' ') = pre ++ c :: suf := by
    apply List.filter_eq_self.mpr
    intro x hx
    simp only [ne_eq, decide_not, Bool.not_eq_eq_eq_not, Bool.not_true, decide_eq_false_iff_not]
    intro e; subst e; exact hsp hx
  simp only [String.toList_ofList, hfil, hdig, if_true, splitUnit_append pre suf c hsuf hc, hlit, hcase,
    lookup_of_mem byteSizes byteSizes_nodup u m hrow]

/-- non-vacuity: `"5.4 KiB"` without the space, mixed case -/
example : parseBytes "5.4kIb" = .ok 5529 := by decide

/-- **parse_timedelta_units.** Every row of `timedelta_sizes` (looked up lower-cased), any letter case, a prefix that
starts with a digit or a decimal point: the result is the exact binary64 product `float(prefix) * multiplier` (as an `int` when it is
integral). -/
theorem parse_timedelta_units (u : String) (num den : Nat) (hrow : (u, (num, den)) ∈ timedeltaSizes)
    (c0 : Char) (pre suf : List Char) (c : Char) (l : Lit) (dflt : String)
    (hcase : String.ofList (lowerL suf) = u) (hsuf : suf.all isAlpha = true) (hne : suf ≠ [])
    (hc : isAlpha c = false) (h0 : (isDigit c0 || decide (c0 = '.')) = true) (hsp : ' ' ∉ c0 :: pre ++ c :: suf)
    (hlit : parseLit (c0 :: pre ++ [c]) = some l) :
    parseTimedelta (String.ofList (c0 :: pre ++ c :: suf)) dflt =
      (let x := mulR l.toDy (ratToDy num den)
       if x.isInt then .int (if l.neg then -((x.floor : Nat) : Int) else (x.floor : Nat)) else .float l.neg x.m x.e) := by
  unfold parseTimedelta
  have hfil : (c0 :: pre ++ c :: suf).filter (· ≠ ' ') = c0 :: pre ++ c :: suf := by
    apply List.filter_eq_self.mpr
    intro x hx
    simp only [ne_eq, decide_not, Bool.not_eq_eq_eq_not, Bool.not_true, decide_eq_false_iff_not]
    intro e; subst e; exact hsp hx
  have hsplit := splitUnit_append (c0 :: pre) suf c hsuf hc
  have hemp : suf.isEmpty = false := by cases suf <;> simp_all
  simp only [String.toList_ofList, hfil]
  simp only [List.cons_append] at hsplit hfil hlit ⊢
  simp only [h0, if_true, hsplit, hemp, Bool.false_eq_true, if_false, hcase,
    lookup_of_mem timedeltaSizes timedeltaSizes_nodup u (num, den) hrow]
  rw [hlit]

example : parseTimedelta "3500 us" "seconds" = .float false 8070450532247928 (-61) ∧
    parseTimedelta "2 Minutes" "seconds" = .int 120 := by decide

/-! ### the finding's range is exact -/

theorem natDigitsAux_length_ge (fuel n : Nat) (acc : List Char) (k : Nat) (hn : 10 ^ k ≤ n) (hf : n < fuel) :
    acc.length + k + 1 ≤ (natDigitsAux fuel n acc).length := by
  induction fuel generalizing n acc k with
  | zero => omega
  | succ f ih =>
    simp only [natDigitsAux]
    split
    · rename_i h10
      have : k = 0 := by
        rcases Nat.eq_zero_or_pos k with h | h
        · exact h
        · have : 10 ^ 1 ≤ 10 ^ k := Nat.pow_le_pow_right (by omega) h
          omega
      subst this
      simp
    · rename_i h10
      cases k with
      | zero =>
        have := ih (n / 10) (Char.ofNat (48 + n % 10) :: acc) 0 (by simp; omega) (by omega)
        simp only [List.length_cons] at this
        omega
      | succ k =>
        have hdiv : 10 ^ k ≤ n / 10 := by
          rw [Nat.le_div_iff_mul_le (by omega)]
          have : 10 ^ (k + 1) = 10 ^ k * 10 := by rw [Nat.pow_succ]
          omega
        have := ih (n / 10) (Char.ofNat (48 + n % 10) :: acc) k hdiv (by omega)
        simp only [List.length_cons] at this
        omega

theorem natDigits_length_ge (n k : Nat) (hn : 10 ^ k ≤ n) : k + 1 ≤ (natDigits n).length := by
  have := natDigitsAux_length_ge (n + 1) n [] k hn (by omega)
  simpa [natDigits] using this

theorem cents_at_N0 : cents N0 (2 ^ 50) = 100000 := by decide
theorem cents_at_top : cents (2 ^ 60 - 1) (2 ^ 50) = 102400 := by decide

attribute [local irreducible] inBand cents

/-- **format_len_exact.** From `N0` up to `2^60` every output has exactly 11 characters (`1000.00 PiB` … `1024.00 PiB`):
together with `format_len_partial`, for `n < 2^60` the documented bound holds **iff** `n < N0`. -/
theorem format_len_exact (n : Nat) (h0 : N0 ≤ n) (h1 : n < 2 ^ 60) : (formatBytes (n : Int)).length = 11 := by
  unfold formatBytes
  rw [String.length_ofList]
  show (formatBytesL (Int.ofNat n)).length = 11
  simp only [formatBytesL]
  rw [bandOf_eq]
  have b50 : D ≤ n * 2 ^ 3 := by unfold D; unfold N0 at h0; omega
  rw [if_pos b50]
  show (fixedDigits formatDecimals (cents n (2 ^ 50)) ++ ' ' :: ("Pi" : String).toList ++ formatUnit.toList).length = 11
  have hlo := cents_mono N0 n 50 (by omega) (by omega) h0
  have hhi := cents_mono n (2 ^ 60 - 1) 50 (by omega) (by omega) (by omega)
  rw [cents_at_N0] at hlo
  rw [cents_at_top] at hhi
  have hu : formatUnit.toList.length = 1 := by decide
  have hp : ("Pi" : String).toList.length = 2 := by decide
  rw [decimals_eq]
  generalize cents n (2 ^ 50) = c at hlo hhi ⊢
  unfold fixedDigits
  rw [if_neg (by decide)]
  have hq1 : 10 ^ 3 ≤ c / 10 ^ 2 := by
    rw [Nat.le_div_iff_mul_le (by omega)]; omega
  have hq2 : c / 10 ^ 2 < 10 ^ 4 := by
    rw [Nat.div_lt_iff_lt_mul (by omega)]; omega
  have l1 := natDigits_length_ge _ 3 hq1
  have l2 := natDigits_length _ 4 (by omega) hq2
  simp only [List.length_append, List.length_cons, padDigits_length, hu, hp]
  omega

/-! ### natural_sort_key -/

/-- `re.split(r"(\d+)", s)` loses nothing: the pieces spell the input -/
theorem splitDigitsFuel_concat (fuel : Nat) (cs : List Char) (h : cs.length < fuel) :
    (splitDigitsFuel fuel cs).flatten = cs := by
  induction fuel generalizing cs with
  | zero => omega
  | succ f ih =>
    simp only [splitDigitsFuel]
    have hsplit : cs.takeWhile (fun c => !isDigit c) ++ cs.dropWhile (fun c => !isDigit c) = cs :=
      List.takeWhile_append_dropWhile
    cases hd : cs.dropWhile (fun c => !isDigit c) with
    | nil =>
      rw [hd] at hsplit
      simpa using hsplit
    | cons x rest =>
      simp only
      have hlen : (cs.dropWhile (fun c => !isDigit c)).length ≤ cs.length :=
        (List.dropWhile_sublist _).length_le
      have hx : isDigit x = true := by
        have := List.head_dropWhile_not (fun c => !isDigit c) (l := cs) (by rw [hd]; simp)
        simpa [hd] using this
      have hstrict : ((x :: rest).dropWhile isDigit).length < (x :: rest).length := by
        simp only [List.dropWhile_cons, hx, if_true, List.length_cons]
        have : (rest.dropWhile isDigit).length ≤ rest.length := (List.dropWhile_sublist _).length_le
        omega
      rw [hd] at hlen
      have := ih ((x :: rest).dropWhile isDigit) (by omega)
      simp only [List.flatten_cons, this]
      rw [List.takeWhile_append_dropWhile, ← hd, hsplit]

theorem splitDigits_concat (cs : List Char) : (splitDigits cs).flatten = cs :=
  splitDigitsFuel_concat _ cs (by omega)

/-- the list always has odd length: text, number, text, …, text -/
theorem splitDigitsFuel_odd (fuel : Nat) (cs : List Char) : (splitDigitsFuel fuel cs).length % 2 = 1 := by
  induction fuel generalizing cs with
  | zero => simp [splitDigitsFuel]
  | succ f ih =>
    simp only [splitDigitsFuel]
    cases hd : cs.dropWhile (fun c => !isDigit c) with
    | nil => simp
    | cons x rest =>
      simp only [List.length_cons]
      have := ih ((x :: rest).dropWhile isDigit)
      omega

/-- **natural_sort_key_shape.** `natural_sort_key(s)` has an odd number of parts. -/
theorem natural_sort_key_shape (s : String) : (naturalSortKey s).length % 2 = 1 := by
  simp [naturalSortKey, splitDigits, splitDigitsFuel_odd]

/-! ### the extracted tables are the documented ones -/

/-- **byte_sizes_documented.** The table extracted from the source is exactly the documented one: decimal (`kB … PB`)
and binary (`KiB … PiB`) units, their one and two letter abbreviations, `B` and the empty unit. A changed entry in the
source changes the generated file and breaks this proof. -/
theorem byte_sizes_documented : byteSizes =
    [("kb", 10 ^ 3), ("mb", 10 ^ 6), ("gb", 10 ^ 9), ("tb", 10 ^ 12), ("pb", 10 ^ 15),
     ("kib", 2 ^ 10), ("mib", 2 ^ 20), ("gib", 2 ^ 30), ("tib", 2 ^ 40), ("pib", 2 ^ 50), ("b", 1), ("", 1),
     ("k", 10 ^ 3), ("m", 10 ^ 6), ("g", 10 ^ 9), ("t", 10 ^ 12), ("p", 10 ^ 15),
     ("ki", 2 ^ 10), ("mi", 2 ^ 20), ("gi", 2 ^ 30), ("ti", 2 ^ 40), ("pi", 2 ^ 50)] := by decide

/-- the doubles `1e-3`, `1e-6`, `1e-9` as exact ratios -/
def milli : Nat × Nat := (1152921504606847, 1152921504606846976)
def micro : Nat × Nat := (4722366482869645, 4722366482869645213696)
def nano : Nat × Nat := (4835703278458517, 4835703278458516698824704)

/-- **timedelta_sizes_documented.** Every documented duration unit (the lookup lower-cases, so these are all the
reachable rows) has its documented multiplier. -/
theorem timedelta_sizes_documented :
    ∀ p ∈ [("s", (1, 1)), ("ms", milli), ("us", micro), ("ns", nano), ("m", (60, 1)), ("h", (3600, 1)),
           ("d", (86400, 1)), ("w", (604800, 1)), ("second", (1, 1)), ("seconds", (1, 1)), ("minute", (60, 1)),
           ("minutes", (60, 1)), ("hour", (3600, 1)), ("hours", (3600, 1)), ("day", (86400, 1)), ("days", (86400, 1)),
           ("week", (604800, 1)), ("weeks", (604800, 1)), ("millisecond", milli), ("milliseconds", milli),
           ("microsecond", micro), ("microseconds", micro), ("nanosecond", nano), ("nanoseconds", nano)],
      lookup timedeltaSizes p.1 = some p.2 := by decide

example : naturalSortKey "f10a007" =[.text ['f'], .num 10, .text ['a'], .num 7, .text []] := by decide

/-!
# C18 (continued) — the documented shape of `key_split`, and the unit-less paths of `parse_timedelta`

* `key_split_name_prefix`, `key_split_all_words` — for the keys dask generates (`name-words-…-token`): the result is
  the leading run of alphabetic words (8-letter words starting with `a`–`f` count as hex and stop the run)
* `key_split_hex32` — a bare 32-character lower-case hex token is reported as `"data"`
* `parse_timedelta_default_unit` — a string without trailing letters is read in the `default` unit, exactly as if the
  unit had been written; `parse_timedelta_bare_unit` — a bare unit means one of it
`key_split` returns `"Other"` whenever anything raises: totality is by construction (`keySplit` is a total function).
-/

open Dask.KeySplit

/-- `"-".join(words)` -/
def joinDash : List (List Char) → List Char
  | [] => []
  | [w] => w
  | w :: w' :: ws => w ++ '-' :: joinDash (w' :: ws)

theorem splitL_ne_nil (sep : Char) (cs : List Char) : splitL sep cs ≠ [] := by
  induction cs with
  | nil => simp [splitL]
  | cons c r ih =>
    simp only [splitL]
    cases h : splitL sep r with
    | nil => simp
    | cons p ps => by_cases hc : c = sep <;> simp [hc]

theorem splitL_noSep (sep : Char) (w : List Char) (h : sep ∉ w) : splitL sep w = [w] := by
  induction w with
  | nil => simp [splitL]
  | cons c r ih =>
    simp only [List.mem_cons, not_or] at h
    simp only [splitL, ih h.2]
    have : c ≠ sep := fun e => h.1 e.symm
    simp [this]

theorem splitL_append_sep (sep : Char) (w rest : List Char) (h : sep ∉ w) :
    splitL sep (w ++ sep :: rest) = w :: splitL sep rest := by
  induction w with
  | nil =>
    simp only [List.nil_append, splitL]
    cases hs : splitL sep rest with
    | nil => exact absurd hs (splitL_ne_nil sep rest)
    | cons p ps => simp
  | cons c r ih =>
    simp only [List.mem_cons, not_or] at h
    simp only [List.cons_append, splitL, ih h.2]
    have : c ≠ sep := fun e => h.1 e.symm
    simp [this]

theorem splitL_joinDash : ∀ (words : List (List Char)), words ≠ [] → (∀ w ∈ words, '-' ∉ w) →
    splitL '-' (joinDash words) = words
  | [], h, _ => absurd rfl h
  | [w], _, hw => by simp [joinDash, splitL_noSep '-' w (hw w (by simp))]
  | w :: w' :: ws, _, hw => by
    simp only [joinDash]
    rw [splitL_append_sep '-' w _ (hw w (by simp)),
        splitL_joinDash (w' :: ws) (by simp) (fun x hx => hw x (List.mem_cons_of_mem _ hx))]

/-- `-w1-w2…` -/
def tailJoin (ws : List (List Char)) : List Char := (ws.map fun w => '-' :: w).flatten

theorem joinDash_cons (w0 : List Char) (ws : List (List Char)) : joinDash (w0 :: ws) = w0 ++ tailJoin ws := by
  induction ws generalizing w0 with
  | nil => simp [joinDash, tailJoin]
  | cons w ws ih => simp [joinDash, ih w, tailJoin]

/-- a word the loop of `key_split` keeps: alphabetic and not an 8-letter word starting with a–f -/
def Keeps (w : List Char) : Prop := isWordAlpha w = true ∧ looksHex8 w = false

theorem extend_keeps (ws : List (List Char)) (hws : ∀ w ∈ ws, Keeps w) (result : List Char) (rest : List (List Char)) :
    extend result (ws ++ rest) = extend (result ++ tailJoin ws) rest := by
  induction ws generalizing result with
  | nil => simp [tailJoin]
  | cons w ws ih =>
    have hw := hws w (by simp)
    simp only [List.cons_append, extend, hw.1, hw.2, Bool.not_false, Bool.and_self, if_true]
    rw [ih (fun x hx => hws x (List.mem_cons_of_mem _ hx))]
    simp [tailJoin]

theorem alpha_no_dash (w : List Char) (h : isWordAlpha w = true) : '-' ∉ w := by
  intro hm
  simp only [isWordAlpha, Bool.and_eq_true, List.all_eq_true] at h
  have := h.2 '-' hm
  revert this
  decide

theorem isAlpha_ne_lt (c : Char) (h : isAlpha c = true) : c ≠ '<' := by
  intro e
  subst e
  revert h
  decide

/-- **key_split_name_prefix.** The documented shape: for a key `w0-w1-…-wk-stop-…` whose leading words are alphabetic
(and, from the second on, not 8-letter words starting with `a`–`f`, which are taken for hex) and whose next word `stop`
is not such a word (a number, a token with digits, `abcdefab`, …), `key_split` returns `w0-w1-…-wk` — unless that
prefix is itself 32 hex characters (then `"data"`). -/
theorem key_split_name_prefix (w0 : List Char) (ws more : List (List Char)) (stop : List Char)
    (h0 : isWordAlpha w0 = true) (hws : ∀ w ∈ ws, Keeps w) (hstop : ¬ Keeps stop)
    (hnd : '-' ∉ stop ∧ ∀ m ∈ more, '-' ∉ m)
    (hdata : ¬ ((joinDash (w0 :: ws)).length = 32 ∧ (joinDash (w0 :: ws)).all isHexDigit = true)) :
    keySplitCore (joinDash (w0 :: ws ++ stop :: more)) = some (joinDash (w0 :: ws)) := by
  have hsplit : splitL '-' (joinDash (w0 :: ws ++ stop :: more)) = w0 :: ws ++ stop :: more := by
    apply splitL_joinDash _ (by simp)
    intro w hw
    simp only [List.cons_append, List.mem_cons, List.mem_append] at hw
    rcases hw with rfl | hw | rfl | hw
    · exact alpha_no_dash _ h0
    · exact alpha_no_dash _ (hws w hw).1
    · exact hnd.1
    · exact hnd.2 w hw
  cases w0 with
  | nil => simp [isWordAlpha] at h0
  | cons c0 r0 =>
    have hc0 : isAlpha c0 = true := by
      simp only [isWordAlpha, Bool.and_eq_true, List.all_cons] at h0
      exact h0.2.1
    have hext : extend (c0 :: r0) (ws ++ stop :: more) = (c0 :: r0) ++ tailJoin ws := by
      rw [extend_keeps ws hws]
      simp only [extend]
      have : (isWordAlpha stop && !looksHex8 stop) = false := by
        cases ha : isWordAlpha stop <;> cases hh : looksHex8 stop <;> simp
        exact hstop ⟨ha, hh⟩
      simp [this]
    unfold keySplitCore
    rw [hsplit]
    simp only [List.cons_append, startOf, hc0, Bool.not_true, Bool.false_eq_true, if_false, hext]
    rw [joinDash_cons] at hdata ⊢
    have hd : ((c0 :: (r0 ++ tailJoin ws)).length == 32 && (c0 :: (r0 ++ tailJoin ws)).all isHexDigit) = false := by
      cases h1 : ((c0 :: (r0 ++ tailJoin ws)).length == 32) <;> cases h2 : (c0 :: (r0 ++ tailJoin ws)).all isHexDigit <;> simp
      apply hdata
      simp only [List.cons_append]
      exact ⟨by simpa using h1, h2⟩
    simp only [hd, Bool.false_eq_true, if_false]
    have hlt := isAlpha_ne_lt c0 hc0
    split
    · rename_i heq; cases heq
    · rename_i heq
      simp only [List.cons.injEq] at heq
      exact absurd heq.1 hlt
    · rfl


/-- the whole key consists of kept words: it is returned as it is (`key_split('hello-world') = 'hello-world'`) -/
theorem key_split_all_words (w0 : List Char) (ws : List (List Char))
    (h0 : isWordAlpha w0 = true) (hws : ∀ w ∈ ws, Keeps w)
    (hdata : ¬ ((joinDash (w0 :: ws)).length = 32 ∧ (joinDash (w0 :: ws)).all isHexDigit = true)) :
    keySplitCore (joinDash (w0 :: ws)) = some (joinDash (w0 :: ws)) := by
  have hsplit : splitL '-' (joinDash (w0 :: ws)) = w0 :: ws := by
    apply splitL_joinDash _ (by simp)
    intro w hw
    simp only [List.mem_cons] at hw
    rcases hw with rfl | hw
    · exact alpha_no_dash _ h0
    · exact alpha_no_dash _ (hws w hw).1
  cases w0 with
  | nil => simp [isWordAlpha] at h0
  | cons c0 r0 =>
    have hc0 : isAlpha c0 = true := by
      simp only [isWordAlpha, Bool.and_eq_true, List.all_cons] at h0
      exact h0.2.1
    have hext : extend (c0 :: r0) ws = (c0 :: r0) ++ tailJoin ws := by
      have := extend_keeps ws hws (c0 :: r0) []
      simpa [extend] using this
    unfold keySplitCore
    rw [hsplit]
    simp only [startOf, hc0, Bool.not_true, Bool.false_eq_true, if_false, hext]
    rw [joinDash_cons] at hdata ⊢
    have hd : ((c0 :: (r0 ++ tailJoin ws)).length == 32 && (c0 :: (r0 ++ tailJoin ws)).all isHexDigit) = false := by
      cases h1 : ((c0 :: (r0 ++ tailJoin ws)).length == 32) <;> cases h2 : (c0 :: (r0 ++ tailJoin ws)).all isHexDigit <;> simp
      apply hdata
      simp only [List.cons_append]
      exact ⟨by simpa using h1, h2⟩
    simp only [List.cons_append, hd, Bool.false_eq_true, if_false]
    have hlt := isAlpha_ne_lt c0 hc0
    split
    · rename_i heq; cases heq
    · rename_i heq
      simp only [List.cons.injEq] at heq
      exact absurd heq.1 hlt
    · rfl

theorem stripLeft_of_head (set : List Char) (c : Char) (r : List Char) (h : c ∉ set) :
    stripLeft set (c :: r) = c :: r := by simp [stripLeft, h]

theorem stripSet_id (set : List Char) (cs : List Char) (h : ∀ c ∈ cs, c ∉ set) : stripSet set cs = cs := by
  unfold stripSet
  have h1 : stripLeft set cs = cs := by
    cases cs with
    | nil => rfl
    | cons c r => exact stripLeft_of_head set c r (h c (by simp))
  rw [h1]
  have h2 : stripLeft set cs.reverse = cs.reverse := by
    cases hr : cs.reverse with
    | nil => rfl
    | cons c r =>
      apply stripLeft_of_head
      apply h c
      have : c ∈ cs.reverse := by rw [hr]; simp
      simpa using this
  rw [h2, List.reverse_reverse]

theorem hexDigit_props (c : Char) (h : isHexDigit c = true) :
    c ≠ '-' ∧ c ≠ ',' ∧ c ∉ ['_', '\'', '(', ')', '"'] := by
  refine ⟨?_, ?_, ?_⟩
  · rintro rfl; revert h; decide
  · rintro rfl; revert h; decide
  · simp only [List.mem_cons, List.not_mem_nil, or_false]
    rintro (rfl | rfl | rfl | rfl | rfl) <;> (revert h; decide)

/-- **key_split_hex32.** A key that is 32 lower-case hex characters (a bare token) is reported as `"data"`. -/
theorem key_split_hex32 (cs : List Char) (hlen : cs.length = 32) (hhex : cs.all isHexDigit = true) :
    keySplitCore cs = some "data".toList := by
  have hall : ∀ c ∈ cs, isHexDigit c = true := by simpa using hhex
  have hnd : '-' ∉ cs := fun hm => (hexDigit_props _ (hall _ hm)).1 rfl
  have hnc : ',' ∉ cs := fun hm => (hexDigit_props _ (hall _ hm)).2.1 rfl
  cases cs with
  | nil => simp at hlen
  | cons c0 r =>
    unfold keySplitCore
    rw [splitL_noSep '-' _ hnd]
    simp only
    have hstart : startOf c0 (c0 :: r) = c0 :: r := by
      unfold startOf
      split
      · unfold firstPiece
        rw [splitL_noSep ',' _ hnc]
        exact stripSet_id _ _ (fun c hc => (hexDigit_props c (hall c hc)).2.2)
      · rfl
    rw [hstart]
    have : ((c0 :: r).length == 32 && (c0 :: r).all isHexDigit) = true := by
      rw [hhex, Bool.and_true]
      simp [hlen]
    simp only [extend, this, if_true]

example : keySplit "hello-world-1" = "hello-world" ∧ keySplit "x-abcdefab" = "x" ∧
    keySplit "ae05086432ca935f6eba409a8ecd4896" = "data" ∧ keySplit "<module.submodule.myclass object at 0xdaf372" = "myclass" ∧
    keySplit "_(x)" = "x" ∧ keySplit "('x-2', 1)" = "x" ∧ keySplit "" = "Other" := by decide

/-- non-vacuity of `key_split_name_prefix`: `getitem-from-array-0f3a…` -/
example : Keeps "from".toList ∧ Keeps "array".toList ∧ ¬ Keeps "0f3a".toList ∧ ¬ Keeps "abcdefab".toList ∧
    isWordAlpha "getitem".toList = true := by
  unfold Keeps; decide

theorem filter_nospace (l : List Char) (h : ' ' ∉ l) : l.filter (· ≠ ' ') = l := by
  apply List.filter_eq_self.mpr
  intro x hx
  simp only [ne_eq, decide_not, Bool.not_eq_eq_eq_not, Bool.not_true, decide_eq_false_iff_not]
  intro e; subst e; exact h hx

theorem alpha_nospace (d : List Char) (h : d.all isAlpha = true) : ' ' ∉ d := by
  intro hm
  have := (List.all_eq_true.mp h) ' ' hm
  revert this
  decide

/-- **parse_timedelta_default_unit.** A string that does not end in letters has no unit: it is read in the `default`
unit — exactly as if that unit had been written after it. (`body ++ [c]` = the string without spaces, `c` its last
character, not a letter; `d` = the default unit, letters only.) -/
theorem parse_timedelta_default_unit (body : List Char) (c : Char) (d : List Char) (other : String)
    (hc : isAlpha c = false) (hsp : ' ' ∉ body ++ [c]) (hd : d.all isAlpha = true) (hne : d ≠ []) :
    parseTimedelta (String.ofList (body ++ [c])) (String.ofList d) =
      parseTimedelta (String.ofList (body ++ [c] ++ d)) other := by
  unfold parseTimedelta
  have hsp2 : ' ' ∉ body ++ [c] ++ d := by
    intro hm
    rcases List.mem_append.mp hm with h | h
    · exact hsp h
    · exact alpha_nospace d hd h
  simp only [String.toList_ofList, filter_nospace _ hsp, filter_nospace _ hsp2]
  cases hb : body ++ [c] with
  | nil => simp at hb
  | cons c0 r =>
    simp only [List.cons_append]
    -- the (possibly `1`-prefixed) string is `pre ++ [c]`
    have key : ∀ (pre : List Char), splitUnit (pre ++ [c]) = (pre ++ [c], []) ∧
        splitUnit (pre ++ [c] ++ d) = (pre ++ [c], d) := by
      intro pre
      have h1 := splitUnit_append pre [] c (by simp) hc
      have h2 := splitUnit_append pre d c hd hc
      simp only [List.append_assoc, List.cons_append, List.nil_append] at h1 h2 ⊢
      exact ⟨h1, h2⟩
    have hdemp : d.isEmpty = false := by cases d <;> simp_all
    by_cases h0 : (isDigit c0 || decide (c0 = '.')) = true
    · obtain ⟨k1, k2⟩ := key body
      rw [hb] at k1 k2
      simp only [List.cons_append] at k1 k2
      simp only [h0, if_true, k1, k2, List.isEmpty_nil, hdemp, Bool.false_eq_true, if_false]
    · obtain ⟨k1, k2⟩ := key ('1' :: body)
      simp only [List.cons_append] at k1 k2
      rw [hb] at k1 k2
      simp only [List.cons_append] at k1 k2
      simp only [h0, Bool.false_eq_true, if_false, k1, k2, List.isEmpty_nil, hdemp, if_true]

/-- **parse_timedelta_bare_unit.** A bare unit such as `"ms"` means one of it: a string that starts with neither a
digit nor `.` is read as if `1` stood in front. -/
theorem parse_timedelta_bare_unit (c0 : Char) (r : List Char) (dflt : String)
    (h0 : (isDigit c0 || decide (c0 = '.')) = false) (hsp : ' ' ∉ c0 :: r) :
    parseTimedelta (String.ofList (c0 :: r)) dflt = parseTimedelta (String.ofList ('1' :: c0 :: r)) dflt := by
  unfold parseTimedelta
  have hsp2 : ' ' ∉ '1' :: c0 :: r := by
    intro hm
    rcases List.mem_cons.mp hm with h | h
    · revert h; decide
    · exact hsp h
  simp only [String.toList_ofList, filter_nospace _ hsp, filter_nospace _ hsp2, h0, Bool.false_eq_true, if_false]
  have : (isDigit '1' || decide ('1' = '.')) = true := by decide
  simp only [this, if_true]

example : parseTimedelta "5" "ms" = parseTimedelta "5ms" "seconds" ∧ parseTimedelta "ms" "seconds" = parseTimedelta "1ms" "seconds" ∧
    parseTimedelta "1.5" "h" = .int 5400 ∧ parseTimedelta "3" "seconds" = .int 3 := by decide

end Dask.C18
