import DaskModel.Model.NormalFormPandas
import DaskModel.Props.C12
/-!
# C12 (part 2) — pandas objects

`register_pandas` builds the token of an index / series / frame / categorical from the tokens of its NumPy parts, its
names and its dtypes (Model/NormalFormPandas.lean, compared with the real `tokenize` bit for bit by the harness).

Full statement for NumPy-backed pandas objects: `pnorm a = pnorm b ↔ PObsEq a b` (`ptoken_iff`) — collision freedom
(`pnorm_injective`: also ACROSS the classes, although the token does not name the class of a series / frame /
categorical) and determinism (`pnorm_deterministic`: memory layout, views, block structure do not matter).
Extension-array backed objects (nullable, Arrow, datetime-tz, period, interval, sparse) are validated by the oracle only.
-/
namespace Dask.C12P
open Dask.NF

/-- values up to the layout of the array; the kind of array (NumPy / extension array and its dtype name) is observable -/
inductive ValsEq : PVals → PVals → Prop
  | np {v w : Val} : ObsEq v w → ValsEq (.np v) (.np w)
  | ea {v w : Val} (dn : String) : ObsEq v w → ValsEq (.ea v dn) (.ea w dn)

inductive ValsEqL : List PVals → List PVals → Prop
  | nil : ValsEqL [] []
  | cons {x y : PVals} {xs ys : List PVals} : ValsEq x y → ValsEqL xs ys → ValsEqL (x :: xs) (y :: ys)

/-- what an observer can tell about an index: class, name, and the values up to `ObsEq` (layout of the array) -/
inductive IdxEq : PIndex → PIndex → Prop
  | range (cls : String) (a b c : Int) (dt : String) (name : Val) : IdxEq (.range cls a b c dt name) (.range cls a b c dt name)
  | plain (cls : String) (name : Val) {v w : PVals} : ValsEq v w → IdxEq (.plain cls name v) (.plain cls name w)

inductive PObsEq : PObj → PObj → Prop
  | index {i j : PIndex} : IdxEq i j → PObsEq (.index i) (.index j)
  | series (name : Val) (dt : String) {v w : PVals} {i j : PIndex} : ValsEq v w → IdxEq i j →
      PObsEq (.series name dt v i) (.series name dt w j)
  | frame {cs ds : List PVals} {c c' i i' : PIndex} : ValsEqL cs ds → IdxEq c c' → IdxEq i i' →
      PObsEq (.frame cs c i) (.frame ds c' i')
  | categorical {v w : Val} {c c' : PIndex} (o : Bool) : ObsEq v w → IdxEq c c' →
      PObsEq (.categorical v c o) (.categorical w c' o)

/-- NumPy arrays (what the values of a series, the columns of a frame, the codes of a categorical are) -/
def isArr : Val → Bool
  | .ndarray .. => true
  | .objarr .. => true
  | .arr0 .. => true
  | _ => false

def isArrVals : PVals → Bool
  | .np v => isArr v
  | .ea v _ => isArr v

/-- the token of an array is never a bare dtype -/
theorem norm_arr_ne_atom (v : Val) (r : String) (h : isArr v = true) : norm v ≠ .atom r := by
  cases v <;> simp [isArr] at h <;> simp [norm]
  split <;> simp

/-- the token of an array is never a Python list -/
theorem norm_arr_ne_list (v : Val) (xs : List Val) (h : isArr v = true) : norm v ≠ .list xs := by
  cases v <;> simp [isArr] at h <;> simp [norm]
  split <;> simp

theorem pnormVals_ne_atom (c : PVals) (r : String) (h : isArrVals c = true) : pnormVals c ≠ .atom r := by
  cases c with
  | np v => exact norm_arr_ne_atom v r h
  | ea v dn => simp [pnormVals]

/-- distinct values get distinct normal forms -/
theorem pnormVals_injective (a b : PVals) (ha : isArrVals a = true) (hb : isArrVals b = true)
    (h : pnormVals a = pnormVals b) : ValsEq a b := by
  cases a with
  | np v =>
    cases b with
    | np w => exact .np (C12.norm_injective v w h)
    | ea w dn => exact absurd h (norm_arr_ne_list v _ ha)
  | ea v dn =>
    cases b with
    | np w => exact absurd h.symm (norm_arr_ne_list w _ hb)
    | ea w dn' =>
      simp only [pnormVals, Val.list.injEq, List.cons.injEq, Val.str.injEq, and_true] at h
      obtain ⟨hv, rfl⟩ := h
      exact .ea _ (C12.norm_injective v w hv)

theorem pnormValsL_injective : ∀ (cs ds : List PVals), (∀ c ∈ cs, isArrVals c = true) → (∀ c ∈ ds, isArrVals c = true) →
    cs.map pnormVals = ds.map pnormVals → ValsEqL cs ds
  | [], [], _, _, _ => .nil
  | [], _ :: _, _, _, h => by simp at h
  | _ :: _, [], _, _, h => by simp at h
  | c :: cs, d :: ds, ha, hb, h => by
    simp only [List.map_cons, List.cons.injEq] at h
    exact .cons (pnormVals_injective c d (ha c (by simp)) (hb d (by simp)) h.1)
      (pnormValsL_injective cs ds (fun x hx => ha x (List.mem_cons_of_mem _ hx)) (fun x hx => hb x (List.mem_cons_of_mem _ hx)) h.2)

/-- distinct indexes get distinct normal forms -/
theorem pnormIdx_injective : ∀ i j : PIndex, (∀ cls n v, i = .plain cls n v → isArrVals v = true) →
    (∀ cls n v, j = .plain cls n v → isArrVals v = true) → pnormIdx i = pnormIdx j → IdxEq i j
  | .range cls a b c dt name, .range cls' a' b' c' dt' name', _, _, h => by
    simp only [pnormIdx, Val.tuple.injEq, List.cons.injEq, Val.atom.injEq, Val.int.injEq, and_true] at h
    obtain ⟨rfl, rfl, rfl, rfl, rfl, rfl⟩ := h
    exact .range _ _ _ _ _ _
  | .range cls a b c dt name, .plain cls' name' v, _, _, h => by
    simp [pnormIdx] at h
  | .plain cls name v, .range cls' a b c dt name', _, _, h => by
    simp [pnormIdx] at h
  | .plain cls name v, .plain cls' name' w, hi, hj, h => by
    simp only [pnormIdx, Val.tuple.injEq, List.cons.injEq, Val.atom.injEq, and_true] at h
    obtain ⟨rfl, rfl, hv⟩ := h
    exact .plain _ _ (pnormVals_injective v w (hi _ _ _ rfl) (hj _ _ _ rfl) hv)

/-- the arrays of an index, as a hypothesis of the shape `pnormIdx_injective` takes -/
def idxArr (i : PIndex) : Prop := ∀ cls n v, i = .plain cls n v → isArrVals v = true

/-- every value slot of the object holds an array -/
def allArr : PObj → Prop
  | .index i => idxArr i
  | .series _ _ v i => isArrVals v = true ∧ idxArr i
  | .frame cs c i => (∀ x ∈ cs, isArrVals x = true) ∧ idxArr c ∧ idxArr i
  | .categorical _ c _ => idxArr c

/-- **pandas objects that differ observably get different normal forms** (NumPy-backed index, series, frame,
    categorical): equal normal forms ⇒ same class of object, same names, same dtypes, observably equal values, column by
    column, and observably equal indexes. -/
theorem pnorm_injective : ∀ a b : PObj, allArr a → allArr b → pnorm a = pnorm b → PObsEq a b
  | .index i, .index j, ha, hb, h => .index (pnormIdx_injective i j ha hb h)
  | .index i, .series .., _, _, h => by cases i <;> simp [pnorm, pnormIdx] at h
  | .index i, .frame .., _, _, h => by cases i <;> simp [pnorm, pnormIdx] at h
  | .index i, .categorical .., _, _, h => by cases i <;> simp [pnorm, pnormIdx] at h
  | .series .., .index j, _, _, h => by cases j <;> simp [pnorm, pnormIdx] at h
  | .frame .., .index j, _, _, h => by cases j <;> simp [pnorm, pnormIdx] at h
  | .categorical .., .index j, _, _, h => by cases j <;> simp [pnorm, pnormIdx] at h
  | .series name dt v i, .series name' dt' w j, ha, hb, h => by
    simp only [pnorm, Val.list.injEq, List.cons.injEq, Val.atom.injEq, and_true] at h
    obtain ⟨rfl, rfl, hv, hi⟩ := h
    exact .series _ _ (pnormVals_injective v w ha.1 hb.1 hv) (pnormIdx_injective i j ha.2 hb.2 hi)
  | .frame cs c i, .frame ds c' i', ha, hb, h => by
    simp only [pnorm, Val.list.injEq] at h
    have hl : (cs.map pnormVals).length = (ds.map pnormVals).length := by
      have := congrArg List.length h
      simp only [List.length_append, List.length_cons, List.length_nil] at this
      omega
    obtain ⟨h1, h2⟩ := List.append_inj h hl
    simp only [List.cons.injEq, and_true] at h2
    exact .frame (pnormValsL_injective cs ds ha.1 hb.1 h1) (pnormIdx_injective c c' ha.2.1 hb.2.1 h2.1)
      (pnormIdx_injective i i' ha.2.2 hb.2.2 h2.2)
  | .categorical v c o, .categorical w c' o', ha, hb, h => by
    simp only [pnorm, Val.list.injEq, List.cons.injEq, Val.bool.injEq, and_true] at h
    obtain ⟨hv, hc, rfl⟩ := h
    exact .categorical _ (C12.norm_injective v w hv) (pnormIdx_injective c c' ha hb hc)
  | .series name dt v i, .frame ds c' i', _, hb, h => by
    exfalso
    simp only [pnorm, Val.list.injEq] at h
    -- a frame token with 4 entries has 2 columns; its second entry is the token of an array, never a dtype
    match ds, hb with
    | [], _ => simp at h
    | [_], _ => simp at h
    | [d1, d2], hb =>
      simp only [List.map_cons, List.map_nil, List.cons_append, List.nil_append, List.cons.injEq, and_true] at h
      exact pnormVals_ne_atom d2 dt (hb.1 d2 (by simp)) h.2.1.symm
    | _ :: _ :: _ :: _, _ =>
      have := congrArg List.length h
      simp at this
  | .series name dt v i, .categorical w c' o', _, _, h => by
    simp [pnorm] at h
  | .frame cs c i, .series name' dt' w j, ha, _, h => by
    exfalso
    simp only [pnorm, Val.list.injEq] at h
    match cs, ha with
    | [], _ => simp at h
    | [_], _ => simp at h
    | [d1, d2], ha =>
      simp only [List.map_cons, List.map_nil, List.cons_append, List.nil_append, List.cons.injEq, and_true] at h
      exact pnormVals_ne_atom d2 dt' (ha.1 d2 (by simp)) h.2.1
    | _ :: _ :: _ :: _, _ =>
      have := congrArg List.length h
      simp at this
  | .frame cs c i, .categorical w c' o', _, _, h => by
    exfalso
    simp only [pnorm, Val.list.injEq] at h
    match cs with
    | [] =>
      simp only [List.map_nil, List.nil_append, List.cons.injEq, and_true] at h
      cases i <;> simp [pnormIdx] at h
    | _ :: _ =>
      have := congrArg List.length h
      simp at this
  | .categorical v c o, .series name' dt' w j, _, _, h => by
    simp [pnorm] at h
  | .categorical v c o, .frame ds c' i', _, _, h => by
    exfalso
    simp only [pnorm, Val.list.injEq] at h
    match ds with
    | [] =>
      simp only [List.map_nil, List.nil_append, List.cons.injEq, and_true] at h
      cases i' <;> simp [pnormIdx] at h
    | _ :: _ =>
      have := congrArg List.length h
      simp at this

/-! ## determinism -/

def wfVals : PVals → Prop
  | .np v => WF v
  | .ea v _ => WF v

def wfIdx : PIndex → Prop
  | .range .. => True
  | .plain _ _ v => wfVals v

def wfObj : PObj → Prop
  | .index i => wfIdx i
  | .series _ _ v i => wfVals v ∧ wfIdx i
  | .frame cs c i => (∀ x ∈ cs, wfVals x) ∧ wfIdx c ∧ wfIdx i
  | .categorical v c _ => WF v ∧ wfIdx c

theorem pnormVals_deterministic : ∀ a b : PVals, ValsEq a b → wfVals a → wfVals b → pnormVals a = pnormVals b
  | _, _, .np hv, ha, hb => by simp only [pnormVals, NF.norm_deterministic _ _ hv ha hb]
  | _, _, .ea dn hv, ha, hb => by simp only [pnormVals, NF.norm_deterministic _ _ hv ha hb]

theorem pnormValsL_deterministic : ∀ cs ds : List PVals, ValsEqL cs ds → (∀ x ∈ cs, wfVals x) → (∀ x ∈ ds, wfVals x) →
    cs.map pnormVals = ds.map pnormVals
  | _, _, .nil, _, _ => rfl
  | _, _, .cons h1 h2, ha, hb => by
    simp only [List.map_cons, pnormVals_deterministic _ _ h1 (ha _ (by simp)) (hb _ (by simp)),
      pnormValsL_deterministic _ _ h2 (fun x hx => ha x (List.mem_cons_of_mem _ hx)) (fun x hx => hb x (List.mem_cons_of_mem _ hx))]

theorem pnormIdx_deterministic : ∀ i j : PIndex, IdxEq i j → wfIdx i → wfIdx j → pnormIdx i = pnormIdx j
  | _, _, .range .., _, _ => rfl
  | _, _, .plain cls name hv, hi, hj => by
    simp only [wfIdx] at hi hj
    simp only [pnormIdx, pnormVals_deterministic _ _ hv hi hj]

/-- **pandas objects no observer can tell apart get the same normal form**: how the values are laid out in memory
    (views, strides, C / Fortran order, which block of a frame a column lives in) does not matter. -/
theorem pnorm_deterministic : ∀ a b : PObj, PObsEq a b → wfObj a → wfObj b → pnorm a = pnorm b
  | _, _, .index hi, ha, hb => pnormIdx_deterministic _ _ hi ha hb
  | _, _, .series name dt hv hi, ha, hb => by
    simp only [wfObj] at ha hb
    simp only [pnorm, pnormVals_deterministic _ _ hv ha.1 hb.1, pnormIdx_deterministic _ _ hi ha.2 hb.2]
  | _, _, .frame hc hcol hi, ha, hb => by
    simp only [wfObj] at ha hb
    simp only [pnorm, pnormValsL_deterministic _ _ hc ha.1 hb.1, pnormIdx_deterministic _ _ hcol ha.2.1 hb.2.1,
      pnormIdx_deterministic _ _ hi ha.2.2 hb.2.2]
  | _, _, .categorical o hv hc, ha, hb => by
    simp only [wfObj] at ha hb
    simp only [pnorm, NF.norm_deterministic _ _ hv ha.1 hb.1, pnormIdx_deterministic _ _ hc ha.2 hb.2]

/-- for well-formed pandas objects whose value slots hold arrays: same token ⇔ observably equal -/
theorem ptoken_iff (a b : PObj) (ca : allArr a) (cb : allArr b) (wa : wfObj a) (wb : wfObj b) :
    pnorm a = pnorm b ↔ PObsEq a b :=
  ⟨pnorm_injective a b ca cb, fun h => pnorm_deterministic a b h wa wb⟩

/-! ## non-vacuity -/

def rng3 : PIndex := .range "RangeIndex" 0 3 1 "dtype('int64')" .none
def colA : PVals := .np (.ndarray "dtype('int64')" [3] [1] 0 [1, 2, 3])
def colAview : PVals := .np (.ndarray "dtype('int64')" [3] [2] 0 [1, 4, 2, 5, 3, 6])

theorem rng3_arr : idxArr rng3 := by intro cls n v h; cases h

/-- a column stored C-ordered and the same column as a strided view into a wider block: same series token -/
example : pnorm (.series (.str "a") "dtype('int64')" colA rng3) = pnorm (.series (.str "a") "dtype('int64')" colAview rng3) :=
  pnorm_deterministic _ _ (.series _ _ (.np (.ndarray (els := [1, 2, 3]) (by decide) (by decide))) (.range ..)) ⟨trivial, trivial⟩ ⟨trivial, trivial⟩

/-- a series named `a` and one named `b` over the same data get different tokens -/
example : pnorm (.series (.str "a") "dtype('int64')" colA rng3) ≠ pnorm (.series (.str "b") "dtype('int64')" colA rng3) := by
  intro h
  have := pnorm_injective (.series (.str "a") "dtype('int64')" colA rng3) (.series (.str "b") "dtype('int64')" colA rng3)
    ⟨rfl, rng3_arr⟩ ⟨rfl, rng3_arr⟩ h
  generalize hx : Val.str "a" = x at this
  generalize hy : Val.str "b" = y at this
  cases this
  rw [← hy] at hx
  simp at hx

/-- a frame with two columns and the series it could be confused with are told apart: the second entry of the series
    token is a dtype, that of the frame token the token of an array -/
example : pnorm (.frame [colA, colA] rng3 rng3) ≠ pnorm (.series .none "dtype('int64')" colA rng3) := by
  intro h
  have := pnorm_injective (.frame [colA, colA] rng3 rng3) (.series .none "dtype('int64')" colA rng3)
    ⟨by intro c hc; simp at hc; subst hc; rfl, rng3_arr, rng3_arr⟩ ⟨rfl, rng3_arr⟩ h
  cases this

end Dask.C12P
