import DaskModel.Model.TaskNode
import DaskModel.Lemmas.NormalForm
import DaskModel.Lemmas.TaskNode
import DaskModel.Props.C12
import DaskModel.Generated.TaskSpecIdentity
/-!
# C11 — equal task nodes compute equal values

`a == b` for graph nodes is "same class and `tokenize a = tokenize b`"; `tokenize n = md5(repr((nodeNF n,)))`.
With md5 injective (trusted) and `repr` injective on normal forms (C12), equal tokens mean that the normal forms
agree up to the order of the `sorted(...)` token lists, i.e. `ObsEq (nodeNF a) (nodeNF b)`.

Full statement: for all nodes `a b` whose literals are user values, every value algebra `S` in which sets ignore
the order of their elements and dicts with distinct keys ignore the order of their items, and every environment:
`ObsEq (nodeNF a) (nodeNF b) → eval S env a = eval S env b`, provided the keys of every `Dict` inside `a` stay
distinct after evaluation (`node_identity_sound`).  Without that proviso the statement is false of the code
(known finding, `dict_duplicate_keys_refuted`).
-/
namespace Dask.C11
open Dask.NF Dask.TaskNode

/-- the source sorts element tokens for `set` containers only (extracted) — the model does the same -/
theorem sorted_only_for_set : Generated.TaskSpecIdentity.sortedKlasses = ["set"] := rfl
theorem container_classes_extracted :
    Generated.TaskSpecIdentity.containerClasses = [("List", "list"), ("Tuple", "tuple"), ("Set", "set"), ("Dict", "dict")] := rfl

/-! ## hypotheses on the value algebra -/

structure SemOK {V : Type} (S : Sem V) : Prop where
  /-- literals that no observer can tell apart denote the same value -/
  lit_obsEq : ∀ a b, ObsEq a b → S.lit a = S.lit b
  /-- `set(args)` does not depend on the order of `args` -/
  set_perm : ∀ xs ys, xs.Perm ys → S.mkSet xs = S.mkSet ys
  /-- `dict(items)` does not depend on the order of the items when the keys are distinct -/
  dict_perm : ∀ xs ys, xs.Perm ys → (xs.map Prod.fst).Nodup → S.mkDict xs = S.mkDict ys

/-- looking a key up does not distinguish keys that no observer can tell apart -/
def EnvOK {V : Type} (env : Val → V) : Prop := ∀ k k', ObsEq k k' → env k = env k'

mutual
/-- the keys of every `Dict` container inside the node are pairwise distinct after evaluation -/
def keysDistinct {V : Type} (S : Sem V) (env : Val → V) : Node → Prop
  | .task _ args kws => keysDistinctL S env args ∧ keysDistinctKw S env kws
  | .cont _ args => keysDistinctL S env args
  | .dict items => ((evalP S env items).map Prod.fst).Nodup ∧ keysDistinctP S env items
  | _ => True
def keysDistinctL {V : Type} (S : Sem V) (env : Val → V) : List Node → Prop
  | [] => True
  | a :: as => keysDistinct S env a ∧ keysDistinctL S env as
def keysDistinctKw {V : Type} (S : Sem V) (env : Val → V) : List (String × Node) → Prop
  | [] => True
  | (_, v) :: r => keysDistinct S env v ∧ keysDistinctKw S env r
def keysDistinctP {V : Type} (S : Sem V) (env : Val → V) : List (Node × Node) → Prop
  | [] => True
  | (k, v) :: r => keysDistinct S env k ∧ keysDistinct S env v ∧ keysDistinctP S env r
end

/-! ## list views of the mutually recursive definitions -/

theorem nodeNFL_eq_map : ∀ as : List Node, nodeNFL as = as.map nodeNF
  | [] => rfl
  | a :: as => by simp [nodeNFL, nodeNFL_eq_map as]
theorem tokensL_eq_map : ∀ as : List Node, tokensL as = as.map (fun a => Val.digest (nodeNF a))
  | [] => rfl
  | a :: as => by simp [tokensL, tokensL_eq_map as]
theorem pairTokens_eq_map : ∀ ps : List (Node × Node),
    pairTokens ps = ps.map (fun p => Val.digest (pairNF (nodeNF p.1) (nodeNF p.2)))
  | [] => rfl
  | (k, v) :: r => by simp [pairTokens, pairTokens_eq_map r]
theorem evalL_eq_map {V : Type} (S : Sem V) (env : Val → V) : ∀ as : List Node, evalL S env as = as.map (eval S env)
  | [] => rfl
  | a :: as => by simp [evalL, evalL_eq_map S env as]
theorem evalP_eq_map {V : Type} (S : Sem V) (env : Val → V) : ∀ ps : List (Node × Node),
    evalP S env ps = ps.map (fun p => (eval S env p.1, eval S env p.2))
  | [] => rfl
  | (k, v) :: r => by simp [evalP, evalP_eq_map S env r]
theorem evalKw_eq_map {V : Type} (S : Sem V) (env : Val → V) : ∀ ps : List (String × Node),
    evalKw S env ps = ps.map (fun p => (p.1, eval S env p.2))
  | [] => rfl
  | (k, v) :: r => by simp [evalKw, evalKw_eq_map S env r]
theorem kwNF_eq_map : ∀ ps : List (String × Node),
    kwNF ps = (ps.map (fun p => (((p.1, "str") : SortKey), p))).map (fun q => (q.1, pairNF (.str q.2.1) (nodeNF q.2.2)))
  | [] => rfl
  | (k, v) :: r => by simp [kwNF, kwNF_eq_map r]

/-- keyword items sorted by name (what both the token and the call see) -/
def kwSorted (ps : List (String × Node)) : List (String × Node) :=
  (ssort (ps.map (fun p => (((p.1, "str") : SortKey), p)))).map Prod.snd

theorem kwSorted_perm (ps : List (String × Node)) : (kwSorted ps).Perm ps := by
  unfold kwSorted
  have := (ssort_perm (ps.map (fun p => (((p.1, "str") : SortKey), p)))).map Prod.snd
  simpa [List.map_map, Function.comp_def] using this

theorem kwNF_sorted (ps : List (String × Node)) :
    (ssort (kwNF ps)).map Prod.snd = (kwSorted ps).map (fun p => pairNF (.str p.1) (nodeNF p.2)) := by
  rw [kwNF_eq_map, ssort_map (fun x : String × Node => pairNF (.str x.1) (nodeNF x.2))]
  simp [kwSorted, List.map_map, Function.comp_def]

theorem sortKw_eval {V : Type} (S : Sem V) (env : Val → V) (ps : List (String × Node)) :
    sortKw (evalKw S env ps) = (kwSorted ps).map (fun p => (p.1, eval S env p.2)) := by
  unfold sortKw
  rw [evalKw_eq_map]
  have h1 : (ps.map (fun p => (p.1, eval S env p.2))).map (fun p => (((p.1, "str") : SortKey), p))
      = (ps.map (fun p => (((p.1, "str") : SortKey), p))).map (fun q => (q.1, (q.2.1, eval S env q.2.2))) := by
    simp [List.map_map, Function.comp_def]
  rw [h1, ssort_map (fun x : String × Node => (x.1, eval S env x.2))]
  simp [kwSorted, List.map_map, Function.comp_def]

theorem litsUserL_mem : ∀ (as : List Node), litsUserL as = true → ∀ a ∈ as, litsUser a = true
  | [], _, a, ha => by simp at ha
  | x :: xs, h, a, ha => by
    simp only [litsUserL, Bool.and_eq_true] at h
    rcases List.mem_cons.mp ha with e | ha
    · rw [e]; exact h.1
    · exact litsUserL_mem xs h.2 a ha
theorem litsUserKw_mem : ∀ (ps : List (String × Node)), litsUserKw ps = true → ∀ p ∈ ps, litsUser p.2 = true
  | [], _, p, hp => by simp at hp
  | (k, v) :: r, h, p, hp => by
    simp only [litsUserKw, Bool.and_eq_true] at h
    rcases List.mem_cons.mp hp with e | hp
    · rw [e]; exact h.1
    · exact litsUserKw_mem r h.2 p hp
theorem litsUserP_mem : ∀ (ps : List (Node × Node)), litsUserP ps = true →
    ∀ p ∈ ps, litsUser p.1 = true ∧ litsUser p.2 = true
  | [], _, p, hp => by simp at hp
  | (k, v) :: r, h, p, hp => by
    simp only [litsUserP, Bool.and_eq_true] at h
    rcases List.mem_cons.mp hp with e | hp
    · rw [e]; exact ⟨h.1.1, h.1.2⟩
    · exact litsUserP_mem r h.2 p hp

/-! ## a literal is only confused with a literal -/

/-- If the normal form of a user literal is observationally the normal form of a node, the node is a literal
    with the same normal form.  (The class tags `Alias`, `DataNode`, `List`, … never head the normal form of
    plain data, whose tags are `list`, `tuple`, `dict`, `set`.) -/
theorem lit_left (v : Val) (b : Node) (hv : isUser v = true) (hb : litsUser b = true)
    (h : ObsEq (norm v) (nodeNF b)) : ∃ w, b = .lit w ∧ norm v = norm w := by
  have he := eq_of_rigid _ _ (norm_rigid v hv) h
  cases b with
  | lit w => exact ⟨w, rfl, he⟩
  | ref k =>
    exfalso
    cases v <;> simp [norm, nodeNF] at he <;> first | (split at he <;> simp at he) | (simp [isUser] at hv)
  | alias k t =>
    exfalso
    cases v <;> simp [norm, nodeNF] at he <;> first | (split at he <;> simp at he) | (simp [isUser] at hv)
  | data w =>
    exfalso
    cases v <;> simp [norm, nodeNF] at he <;> first | (split at he <;> simp at he) | (simp [isUser] at hv)
  | task f args kws =>
    exfalso
    cases v <;> simp [norm, nodeNF] at he <;> first | (split at he <;> simp at he) | (simp [isUser] at hv)
  | cont k args =>
    exfalso
    cases k <;> cases v <;> simp [norm, nodeNF, Kind.name] at he <;>
      first | (split at he <;> simp at he) | (simp [isUser] at hv)
  | dict items =>
    exfalso
    cases v <;> simp [norm, nodeNF] at he <;> first | (split at he <;> simp at he) | (simp [isUser] at hv)

/-- …and a node that is not a literal is never confused with a literal -/
theorem not_obs_lit (a : Node) (w : Val) (hw : isUser w = true) (hna : ∀ v, a ≠ .lit v)
    (h : ObsEq (nodeNF a) (norm w)) : False := by
  cases a with
  | lit v => exact hna v rfl
  | ref k =>
    simp only [nodeNF] at h
    generalize hy : norm w = y at h
    cases h
    cases w <;> simp [norm] at hy <;> first | (split at hy <;> simp at hy) | (simp [isUser] at hw)
  | alias k t =>
    simp only [nodeNF] at h
    generalize hy : norm w = y at h
    cases h with
    | tuple hl =>
      cases hl with
      | cons h1 hl =>
        cases h1
        cases hl with
        | cons h2 hl =>
          cases hl with
          | cons h3 hl =>
            cases hl
            cases w <;> simp [norm] at hy <;> first | (split at hy <;> simp at hy) | (simp [isUser] at hw)
  | data v =>
    simp only [nodeNF] at h
    generalize hy : norm w = y at h
    cases h with
    | tuple hl =>
      cases hl with
      | cons h1 hl =>
        cases h1
        cases hl with
        | cons h2 hl =>
          cases h2
          cases hl
          cases w <;> simp [norm] at hy <;> first | (split at hy <;> simp at hy) | (simp [isUser] at hw)
  | task f args kws =>
    simp only [nodeNF] at h
    generalize hy : norm w = y at h
    cases h
    cases w <;> simp [norm] at hy <;> first | (split at hy <;> simp at hy) | (simp [isUser] at hw)
  | cont k args =>
    simp only [nodeNF] at h
    generalize hy : norm w = y at h
    cases h with
    | tuple hl =>
      cases hl with
      | cons h1 hl =>
        cases h1
        cases hl with
        | cons h2 hl =>
          cases h2
          cases hl with
          | cons h3 hl =>
            cases hl
            cases k <;> cases w <;> simp [norm, Kind.name] at hy <;>
              first | (split at hy <;> simp at hy) | (simp [isUser] at hw)
  | dict items =>
    simp only [nodeNF] at h
    generalize hy : norm w = y at h
    cases h with
    | tuple hl =>
      cases hl with
      | cons h1 hl =>
        cases h1
        cases hl with
        | cons h2 hl =>
          cases h2
          cases hl with
          | cons h3 hl =>
            cases hl
            cases w <;> simp [norm] at hy <;> first | (split at hy <;> simp at hy) | (simp [isUser] at hw)

/-! ## the main theorem -/

theorem head_tag {s t : String} {xs ys : List Val} (h : ObsEq (.tuple (.str s :: xs)) (.tuple (.str t :: ys))) :
    s = t ∧ ObsEqL xs ys :=
  ⟨(h.tuple_inv.cons_inv).1.str_inv, (h.tuple_inv.cons_inv).2⟩

/-- item normal forms: `("tuple", (k, v))` related ⇒ components related -/
theorem pairNF_inv {k v k' v' : Val} (h : ObsEq (pairNF k v) (pairNF k' v')) : ObsEq k k' ∧ ObsEq v v' := by
  have h2 := ((head_tag h).2.cons_inv).1.tuple_inv
  exact ⟨h2.cons_inv.1, h2.cons_inv.2.cons_inv.1⟩

set_option linter.unusedSectionVars false in
section
variable {V : Type} (S : Sem V) (hS : SemOK S) (env : Val → V) (henv : EnvOK env)
include hS henv

mutual
/-- **Nodes with the same token evaluate alike** (`ObsEq` of the normal forms is what equal tokens mean once
    md5 and `repr` are injective). -/
theorem node_identity_sound : ∀ (a b : Node), litsUser a = true → litsUser b = true → keysDistinct S env a →
    ObsEq (nodeNF a) (nodeNF b) → eval S env a = eval S env b
  | .lit v, b, ha, hb, _, h => by
    obtain ⟨w, rfl, he⟩ := lit_left v b ha hb h
    simp only [eval]
    exact hS.lit_obsEq _ _ (C12.norm_injective v w he)
  | .ref k, b, _, hb, _, h => by
    cases b with
    | lit w => exact (not_obs_lit (.ref k) w hb (by intro v hv; cases hv) h).elim
    | ref k' => simp only [nodeNF] at h; cases h; rfl
    | alias k' t' => simp only [nodeNF] at h; cases h
    | data w => simp only [nodeNF] at h; cases h
    | task f args kws => simp only [nodeNF] at h; cases h
    | cont k' args => simp only [nodeNF] at h; cases h
    | dict items => simp only [nodeNF] at h; cases h
  | .alias k t, b, _, hb, _, h => by
    cases b with
    | lit w => exact (not_obs_lit (.alias k t) w hb (by intro v hv; cases hv) h).elim
    | ref k' => simp only [nodeNF] at h; cases h
    | alias k' t' =>
      simp only [nodeNF] at h
      have h3 := (head_tag h).2.cons_inv.2.cons_inv.1
      simp only [eval]; exact henv _ _ h3
    | data w =>
      simp only [nodeNF] at h
      have := (head_tag h).1
      simp at this
    | task f args kws => simp only [nodeNF] at h; cases h
    | cont k' args =>
      simp only [nodeNF] at h
      have := (head_tag h).1
      cases k' <;> simp [Kind.name] at this
    | dict items =>
      simp only [nodeNF] at h
      have := (head_tag h).1
      simp at this
  | .data v, b, ha, hb, _, h => by
    cases b with
    | lit w => exact (not_obs_lit (.data v) w hb (by intro v hv; cases hv) h).elim
    | ref k' => simp only [nodeNF] at h; cases h
    | alias k' t' =>
      simp only [nodeNF] at h
      have := (head_tag h).1
      simp at this
    | data w =>
      simp only [nodeNF] at h
      have hd := (head_tag h).2.cons_inv.1.digest_inv
      simp only [eval]
      have he := eq_of_rigid _ _ (norm_rigid v ha) hd
      exact hS.lit_obsEq _ _ (C12.norm_injective v w he)
    | task f args kws => simp only [nodeNF] at h; cases h
    | cont k' args =>
      simp only [nodeNF] at h
      have := (head_tag h).1
      cases k' <;> simp [Kind.name] at this
    | dict items =>
      simp only [nodeNF] at h
      have := (head_tag h).1
      simp at this
  | .task f args kws, b, ha, hb, hk, h => by
    cases b with
    | lit w => exact (not_obs_lit (.task f args kws) w hb (by intro v hv; cases hv) h).elim
    | ref k' => simp only [nodeNF] at h; cases h
    | alias k' t' => simp only [nodeNF] at h; cases h
    | data w => simp only [nodeNF] at h; cases h
    | cont k' args' => simp only [nodeNF] at h; cases h
    | dict items => simp only [nodeNF] at h; cases h
    | task f' args' kws' =>
      simp only [nodeNF] at h
      simp only [litsUser, Bool.and_eq_true] at ha hb
      simp only [keysDistinct] at hk
      have h2 := (head_tag h.digest_inv).2.cons_inv.1          -- the 4-tuple
      have hl := (head_tag h2).2                                -- [func, args, kwargs]
      have gf := hl.cons_inv.1.pickled_inv.2
      have hargs := (head_tag hl.cons_inv.2.cons_inv.1).2.cons_inv.1.tuple_inv
      have hkws := (head_tag hl.cons_inv.2.cons_inv.2.cons_inv.1).2.cons_inv.1.tuple_inv
      have ef : f = f' := by
        simp only [Val.int.injEq] at gf
        exact Int.ofNat_inj.mp gf
      subst ef
      simp only [eval]
      have e1 : evalL S env args = evalL S env args' := by
        rw [evalL_eq_map, evalL_eq_map]
        rw [nodeNFL_eq_map, nodeNFL_eq_map] at hargs
        exact all₂_map_eq nodeNF (eval S env) ObsEq args args' hargs.to_all₂
          (fun a haa b hbb hab => sound_mem args ha.1 hk.1 a haa b (litsUserL_mem args' hb.1 b hbb) hab)
      have e2 : sortKw (evalKw S env kws) = sortKw (evalKw S env kws') := by
        rw [sortKw_eval, sortKw_eval]
        rw [kwNF_sorted, kwNF_sorted] at hkws
        refine all₂_map_eq (fun p : String × Node => pairNF (.str p.1) (nodeNF p.2))
          (fun p => (p.1, eval S env p.2)) ObsEq _ _ hkws.to_all₂ ?_
        intro p hp q hq hpq
        have hp' := (kwSorted_perm kws).subset hp
        have hq' := (kwSorted_perm kws').subset hq
        obtain ⟨hk1, hv1⟩ := pairNF_inv hpq
        have e := hk1.str_inv
        have := sound_memKw kws ha.2 hk.2 p hp' q.2 (litsUserKw_mem kws' hb.2 q hq') hv1
        rw [this, e]
      rw [e1, e2]
  | .cont k args, b, ha, hb, hk, h => by
    cases b with
    | lit w => exact (not_obs_lit (.cont k args) w hb (by intro v hv; cases hv) h).elim
    | ref k' => simp only [nodeNF] at h; cases h
    | alias k' t' =>
      simp only [nodeNF] at h
      have := (head_tag h).1
      cases k <;> simp [Kind.name] at this
    | data w =>
      simp only [nodeNF] at h
      have := (head_tag h).1
      cases k <;> simp [Kind.name] at this
    | task f args' kws => simp only [nodeNF] at h; cases h
    | dict items =>
      simp only [nodeNF] at h
      have := (head_tag h).1
      cases k <;> simp [Kind.name] at this
    | cont k' args' =>
      simp only [litsUser] at ha hb
      simp only [keysDistinct] at hk
      have hmem : ∀ a ∈ args, ∀ b ∈ args', ObsEq (Val.digest (nodeNF a)) (Val.digest (nodeNF b)) →
          eval S env a = eval S env b :=
        fun a haa b hbb hab => sound_mem args ha hk a haa b (litsUserL_mem args' hb b hbb) hab.digest_inv
      simp only [nodeNF] at h
      have hname := (head_tag h).1
      have h3 := (head_tag h).2.cons_inv.2.cons_inv.1
      cases k <;> cases k' <;> simp [Kind.name] at hname
      · -- List
        have hl := h3.list_inv
        simp only [eval]
        rw [tokensL_eq_map, tokensL_eq_map] at hl
        rw [evalL_eq_map, evalL_eq_map, all₂_map_eq _ (eval S env) ObsEq args args' hl.to_all₂ hmem]
      · -- Tuple
        have hl := h3.list_inv
        simp only [eval]
        rw [tokensL_eq_map, tokensL_eq_map] at hl
        rw [evalL_eq_map, evalL_eq_map, all₂_map_eq _ (eval S env) ObsEq args args' hl.to_all₂ hmem]
      · -- Set
        obtain ⟨zs, hl, hp⟩ := h3.sorted_inv
        simp only [eval]
        rw [tokensL_eq_map] at hl hp
        rw [evalL_eq_map, evalL_eq_map]
        exact hS.set_perm _ _ (perm_rel_map _ (eval S env) ObsEq args args' _ hl.to_all₂ hp hmem)
  | .dict items, b, ha, hb, hk, h => by
    cases b with
    | lit w => exact (not_obs_lit (.dict items) w hb (by intro v hv; cases hv) h).elim
    | ref k' => simp only [nodeNF] at h; cases h
    | alias k' t' =>
      simp only [nodeNF] at h
      have := (head_tag h).1
      simp at this
    | data w =>
      simp only [nodeNF] at h
      have := (head_tag h).1
      simp at this
    | task f args' kws => simp only [nodeNF] at h; cases h
    | cont k' args' =>
      simp only [nodeNF] at h
      have := (head_tag h).1
      cases k' <;> simp [Kind.name] at this
    | dict items' =>
      simp only [litsUser] at ha hb
      simp only [keysDistinct] at hk
      simp only [nodeNF] at h
      obtain ⟨zs, hl, hp⟩ := ((head_tag h).2.cons_inv.2.cons_inv.1).sorted_inv
      simp only [eval]
      rw [pairTokens_eq_map] at hl hp
      have hperm := perm_rel_map _ (fun p : Node × Node => (eval S env p.1, eval S env p.2)) ObsEq
        items items' _ hl.to_all₂ hp (by
          intro p hp q hq hpq
          obtain ⟨hk1, hv1⟩ := pairNF_inv hpq.digest_inv
          have hq' := litsUserP_mem items' hb q hq
          obtain ⟨e1, e2⟩ := sound_memP items ha hk.2 p hp q hq'.1 hq'.2 hk1 hv1
          rw [e1, e2])
      rw [evalP_eq_map, evalP_eq_map]
      refine hS.dict_perm _ _ hperm ?_
      have := hk.1
      rwa [evalP_eq_map] at this
theorem sound_mem : ∀ (as : List Node), litsUserL as = true → keysDistinctL S env as → ∀ a ∈ as, ∀ b,
    litsUser b = true → ObsEq (nodeNF a) (nodeNF b) → eval S env a = eval S env b
  | [], _, _, a, ha, _, _, _ => by simp at ha
  | x :: xs, hu, hk, a, ha, b, hb, h => by
    simp only [litsUserL, Bool.and_eq_true] at hu
    simp only [keysDistinctL] at hk
    rcases List.mem_cons.mp ha with e | ha
    · rw [e] at h ⊢
      exact node_identity_sound x b hu.1 hb hk.1 h
    · exact sound_mem xs hu.2 hk.2 a ha b hb h
theorem sound_memKw : ∀ (ps : List (String × Node)), litsUserKw ps = true → keysDistinctKw S env ps →
    ∀ p ∈ ps, ∀ b, litsUser b = true → ObsEq (nodeNF p.2) (nodeNF b) → eval S env p.2 = eval S env b
  | [], _, _, p, hp, _, _, _ => by simp at hp
  | (k, v) :: r, hu, hk, p, hp, b, hb, h => by
    simp only [litsUserKw, Bool.and_eq_true] at hu
    simp only [keysDistinctKw] at hk
    rcases List.mem_cons.mp hp with e | hp
    · rw [e] at h ⊢
      exact node_identity_sound v b hu.1 hb hk.1 h
    · exact sound_memKw r hu.2 hk.2 p hp b hb h
theorem sound_memP : ∀ (ps : List (Node × Node)), litsUserP ps = true → keysDistinctP S env ps →
    ∀ p ∈ ps, ∀ q : Node × Node, litsUser q.1 = true → litsUser q.2 = true →
      ObsEq (nodeNF p.1) (nodeNF q.1) → ObsEq (nodeNF p.2) (nodeNF q.2) →
      eval S env p.1 = eval S env q.1 ∧ eval S env p.2 = eval S env q.2
  | [], _, _, p, hp, _, _, _, _, _ => by simp at hp
  | (k, v) :: r, hu, hk, p, hp, q, hq1, hq2, h1, h2 => by
    simp only [litsUserP, Bool.and_eq_true] at hu
    simp only [keysDistinctP] at hk
    rcases List.mem_cons.mp hp with e | hp
    · rw [e] at h1 h2 ⊢
      exact ⟨node_identity_sound k q.1 hu.1.1 hq1 hk.1 h1, node_identity_sound v q.2 hu.1.2 hq2 hk.2.1 h2⟩
    · exact sound_memP r hu.2 hk.2.2 p hp q hq1 hq2 h1 h2
end

/-- `a == b` for two graph nodes: same class and same token (`GraphNode.__eq__`) -/
def NodeEq (a b : Node) : Prop := className a = className b ∧ ObsEq (nodeNF a) (nodeNF b)

/-- nodes that compare equal evaluate alike -/
theorem eq_sound (a b : Node) (ha : litsUser a = true) (hb : litsUser b = true) (hk : keysDistinct S env a)
    (h : NodeEq a b) : eval S env a = eval S env b :=
  node_identity_sound S hS env henv a b ha hb hk h.2

end

/-- `hash(node)` is a function of the token (`Task.__hash__`, `NestedContainer.__hash__`): equal nodes hash alike -/
theorem hash_consistent (a b : Node) (h : NodeEq a b) : ObsEq (tokenOf a) (tokenOf b) := .digest h.2

/-! ## the order of List / Tuple elements and the pairing of Dict keys with values are part of the identity -/

theorem list_order_matters :
    ¬ ObsEq (nodeNF (.cont .list [.lit (.int 1), .lit (.int 2)])) (nodeNF (.cont .list [.lit (.int 2), .lit (.int 1)])) := by
  intro h
  simp only [nodeNF, tokensL, norm] at h
  have h1 := ((head_tag h).2.cons_inv.2.cons_inv.1).list_inv.cons_inv.1.digest_inv
  cases h1

theorem tuple_order_matters :
    ¬ ObsEq (nodeNF (.cont .tuple [.ref (.str "x"), .ref (.str "y")])) (nodeNF (.cont .tuple [.ref (.str "y"), .ref (.str "x")])) := by
  intro h
  simp only [nodeNF, tokensL] at h
  have h1 := ((head_tag h).2.cons_inv.2.cons_inv.1).list_inv.cons_inv.1.digest_inv.pickled_inv.2
  simp at h1

theorem dict_pairing_matters :
    ¬ ObsEq (nodeNF (.dict [(.lit (.str "a"), .lit (.int 1)), (.lit (.str "b"), .lit (.int 2))]))
            (nodeNF (.dict [(.lit (.str "a"), .lit (.int 2)), (.lit (.str "b"), .lit (.int 1))])) := by
  intro h
  simp only [nodeNF, pairTokens, norm] at h
  obtain ⟨zs, hl, hp⟩ := ((head_tag h).2.cons_inv.2.cons_inv.1).sorted_inv
  cases hl with
  | cons h1 hl =>
    rename_i y ys
    have hy : y ∈ [Val.digest (pairNF (.str "a") (.int 2)), Val.digest (pairNF (.str "b") (.int 1))] :=
      hp.subset (by simp)
    simp only [List.mem_cons, List.not_mem_nil, or_false] at hy
    rcases hy with rfl | rfl
    · have := (pairNF_inv h1.digest_inv).2
      cases this
    · have := (pairNF_inv h1.digest_inv).1
      have := this.str_inv
      simp at this

/-- …while the order of Set elements and of Dict items is not (the pinned behaviour) -/
theorem set_order_irrelevant (x y : Node) :
    ObsEq (nodeNF (.cont .set [x, y])) (nodeNF (.cont .set [y, x])) := by
  simp only [nodeNF, tokensL]
  exact .tuple (.cons (.str _) (.cons (.atom _) (.cons (.sortedTokens (ObsEqL.rfl' _) (List.Perm.swap _ _ _)) .nil)))

theorem dict_item_order_irrelevant (p q : Node × Node) :
    ObsEq (nodeNF (.dict [p, q])) (nodeNF (.dict [q, p])) := by
  obtain ⟨k, v⟩ := p
  obtain ⟨k', v'⟩ := q
  simp only [nodeNF, pairTokens]
  exact .tuple (.cons (.str _) (.cons (.atom _) (.cons (.sortedTokens (ObsEqL.rfl' _) (List.Perm.swap _ _ _)) .nil)))

/-! ## non-vacuity: a value algebra satisfying the hypotheses, and a pair of distinct nodes the theorem applies to -/

/-- sets and dicts are observed through their size, lists through an order-sensitive code -/
def countSem : Sem Nat where
  lit := fun _ => 0
  app := fun f args _ => args.foldl (fun acc x => 31 * acc + x + 1) f
  mkList := fun xs => xs.foldl (fun acc x => 31 * acc + x + 1) 7
  mkTuple := fun xs => xs.foldl (fun acc x => 31 * acc + x + 1) 11
  mkSet := fun xs => xs.length
  mkDict := fun xs => xs.length

theorem countSem_ok : SemOK countSem where
  lit_obsEq := fun _ _ _ => rfl
  set_perm := fun _ _ h => h.length_eq
  dict_perm := fun _ _ h _ => h.length_eq

example : eval countSem (fun _ => 0) (.task 0 [.cont .set [.ref (.str "x"), .ref (.str "y")]] [])
        = eval countSem (fun _ => 0) (.task 0 [.cont .set [.ref (.str "y"), .ref (.str "x")]] []) :=
  node_identity_sound countSem countSem_ok (fun _ => 0) (fun _ _ _ => rfl) _ _ rfl rfl
    (by simp [keysDistinct, keysDistinctL, keysDistinctKw])
    (by
      simp only [nodeNF, nodeNFL, kwNF, ssort, List.map_nil]
      exact .digest (.tuple (.cons (.str _) (.cons (.tuple (.cons (.str _) (.cons (.pickled _ _)
        (.cons (.tuple (.cons (.str _) (.cons (.tuple (.cons (set_order_irrelevant _ _) .nil)) .nil)))
        (.cons (ObsEq.rfl' _) .nil))))) .nil))))

/-! ## the proviso on Dict keys cannot be dropped (known finding) -/

/-- Python `dict(items)[k]`: the last item with that key wins -/
def lookupLast (kvs : List (Nat × Nat)) (k : Nat) : Option Nat :=
  kvs.foldl (fun acc p => if p.1 = k then some p.2 else acc) none

def natSem : Sem Nat where
  lit := fun v => match v with | .int i => i.toNat | _ => 100
  app := fun _ _ _ => 0
  mkList := fun _ => 0
  mkTuple := fun _ => 0
  mkSet := fun _ => 0
  mkDict := fun _ => 0

/-- `Dict([('a', 1), ('a', 2)])` and `Dict([('a', 2), ('a', 1)])` have the same token, yet the dicts they build
    differ at key `'a'` (`{'a': 2}` vs `{'a': 1}`). -/
theorem dict_duplicate_keys_refuted :
    let a : List (Node × Node) := [(.lit (.str "a"), .lit (.int 1)), (.lit (.str "a"), .lit (.int 2))]
    let b : List (Node × Node) := [(.lit (.str "a"), .lit (.int 2)), (.lit (.str "a"), .lit (.int 1))]
    ObsEq (nodeNF (.dict a)) (nodeNF (.dict b)) ∧
      lookupLast (evalP natSem (fun _ => 0) a) 100 ≠ lookupLast (evalP natSem (fun _ => 0) b) 100 := by
  refine ⟨dict_item_order_irrelevant _ _, ?_⟩
  decide

end Dask.C11
