import DaskModel.Model.RandomKeys
import Mathlib.Data.List.Nodup
import Mathlib.Data.List.Range
/-!
# C28 — random arrays: reproducible when seeded, independent when not  (**partial**)

What is modelled is the seed/key logic only (`SeedSequence.spawn` bookkeeping, one child per block in C order,
names as an injective function of (funcname, child seeds, size/chunks/args)); the numerical streams are NumPy's.

Proved:
* `seed_formula` — block `b` of the `k`-th construction gets the child `spawn_key ++ [n₀ + Σ_{j<k} nblocks_j + b]`:
  a function of the seed, the earlier block counts and `b` only (⇒ same seed + same program ⇒ same graph,
  `seeded_reproducible`; by C01 the same values on every scheduler and recomputation);
* `all_seeds_nodup` — all block seeds of a program are pairwise distinct (no stream is used twice);
* `same_generator_names_distinct`, `unseeded_names_distinct` — separate constructions get distinct names
  (distinct keys ⇒ each keeps its own draw when computed together, C13);
* `names_nodup`, `successive_identical_calls_distinct`, `history_names_nodup` — ONE generator object used for a whole
  history of calls (distributions, `choice`, interleaved `permutation`s; state threaded explicitly through `runHist`):
  all array names are pairwise distinct, in particular for the same call repeated with identical arguments;
  `perm_positions_nodup` — successive `permutation`s consume different parts of the generator's own stream;
  `rs_names_nodup` — the same for one `RandomState`;
* `entropy_only_name_collides` — refutation witness: naming the array after the children's entropy only (they all
  share the parent's) gives identical successive calls the same name although their seeds differ;
* `rs_windows_nodup` — the same for `RandomState` windows of `random_state_data`;
* `choice_no_replace_single_chunk` — the guard makes multi-chunk `replace=False` unreachable.
Not expressible / not proved: statistical independence of the streams; injectivity of `SeedSequence → state`
and of `tokenize` (assumed); distinctness of the elements drawn by NumPy's single-block `choice(replace=False)`.
-/
namespace Dask.C28
open Dask.RandomKeys

def child (g : SeedSeq) (i : Nat) : SeedSeq := ⟨g.entropy, g.spawnKey ++ [g.nChildren + i], 0⟩

theorem spawn_eq (g : SeedSeq) (n : Nat) :
    spawn g n = ((List.range n).map (child g), { g with nChildren := g.nChildren + n }) := rfl

def allSeeds (rs : List (List SeedSeq × Name)) : List SeedSeq := (rs.map (·.1)).flatten

def totalBlocks (cs : List Call) : Nat := (cs.map (·.nblocks)).sum

theorem child_shift (g : SeedSeq) (n i : Nat) :
    child { g with nChildren := g.nChildren + n } i = child g (n + i) := by
  simp [child, Nat.add_assoc]

/-- all block seeds of a program, in order, are the children `0 … total-1` of the initial generator -/
theorem allSeeds_runCalls (g : SeedSeq) (cs : List Call) :
    allSeeds (runCalls g cs).1 = (List.range (totalBlocks cs)).map (child g) ∧
    (runCalls g cs).2 = { g with nChildren := g.nChildren + totalBlocks cs } := by
  induction cs generalizing g with
  | nil => simp [runCalls, allSeeds, totalBlocks]
  | cons c cs ih =>
    obtain ⟨ih1, ih2⟩ := ih { g with nChildren := g.nChildren + c.nblocks }
    simp only [runCalls, wrapCall, spawn_eq]
    constructor
    · simp only [allSeeds, List.map_cons, List.flatten_cons] at ih1 ⊢
      rw [ih1]
      simp only [totalBlocks, List.map_cons, List.sum_cons]
      rw [List.range_add, List.map_append, List.map_map]
      congr 1
      apply List.map_congr_left
      intro i _
      exact child_shift g c.nblocks i
    · rw [ih2]
      simp [totalBlocks, Nat.add_assoc]

/-- the `k`-th construction of a program, completely: its per-block seeds and its name -/
theorem runCalls_getElem (g : SeedSeq) (cs : List Call) (k : Nat) (hk : k < cs.length) :
    (runCalls g cs).1[k]? =
      some ((List.range (cs[k]).nblocks).map (fun b => child g (totalBlocks (cs.take k) + b)),
            ⟨(cs[k]).func, (List.range (cs[k]).nblocks).map (fun b => child g (totalBlocks (cs.take k) + b)),
             (cs[k]).params⟩) := by
  induction cs generalizing g k with
  | nil => simp at hk
  | cons c cs ih =>
    cases k with
    | zero =>
      simp [runCalls, wrapCall, spawn_eq, totalBlocks]
    | succ k =>
      have := ih { g with nChildren := g.nChildren + c.nblocks } k (by simpa using hk)
      simp only [runCalls, wrapCall, spawn_eq, List.getElem?_cons_succ, List.getElem_cons_succ]
      rw [this]
      simp only [child_shift, List.take_succ_cons, totalBlocks, List.map_cons, List.sum_cons, Nat.add_assoc]

/-- **seed_formula**: the seed of block `b` of call `k` depends only on the initial seed state, the block
    counts of the earlier calls and `b`. -/
theorem seed_formula (g : SeedSeq) (cs : List Call) (k b : Nat) (hk : k < cs.length)
    (hb : b < (cs[k]).nblocks) :
    (((runCalls g cs).1)[k]?).map (fun r => r.1[b]?) =
      some (some (child g (totalBlocks (cs.take k) + b))) := by
  rw [runCalls_getElem g cs k hk]
  simp [hb]

/-- same seed state and same program ⇒ same seeds, names and final state (the graph is a function of its inputs) -/
theorem seeded_reproducible (g g' : SeedSeq) (cs : List Call) (h : g = g') :
    runCalls g cs = runCalls g' cs := by subst h; rfl

theorem child_injective (g : SeedSeq) : Function.Injective (child g) := by
  intro i j h
  simp only [child, SeedSeq.mk.injEq, List.append_cancel_left_eq, List.cons.injEq, and_true, true_and] at h
  omega

/-- **all_seeds_nodup**: no two blocks (of the same or of different constructions) share a seed. -/
theorem all_seeds_nodup (g : SeedSeq) (cs : List Call) : (allSeeds (runCalls g cs).1).Nodup := by
  rw [(allSeeds_runCalls g cs).1]
  exact List.Nodup.map (child_injective g) List.nodup_range

theorem totalBlocks_take_lt (cs : List Call) (i j : Nat) (hij : i < j) (hj : j ≤ cs.length) :
    totalBlocks (cs.take i) + (cs[i]'(by omega)).nblocks ≤ totalBlocks (cs.take j) := by
  induction cs generalizing i j with
  | nil => simp at hj; omega
  | cons c cs ih =>
    cases j with
    | zero => omega
    | succ j =>
      cases i with
      | zero => simp [totalBlocks]
      | succ i =>
        have := ih i j (by omega) (by simpa using hj)
        simp only [List.take_succ_cons, totalBlocks, List.map_cons, List.sum_cons, List.getElem_cons_succ] at this ⊢
        omega

/-- **same_generator_names_distinct**: two different constructions (positions `i < j`, the earlier one with
    at least one block) from one generator never get the same name, whatever their arguments. -/
theorem same_generator_names_distinct (g : SeedSeq) (cs : List Call) (i j : Nat) (hij : i < j)
    (hj : j < cs.length) (hbi : 0 < (cs[i]'(by omega)).nblocks) :
    ∀ ri rj, (runCalls g cs).1[i]? = some ri → (runCalls g cs).1[j]? = some rj → ri.2 ≠ rj.2 := by
  intro ri rj hi hjr hne
  rw [runCalls_getElem g cs i (by omega)] at hi
  rw [runCalls_getElem g cs j hj] at hjr
  injection hi with hi; injection hjr with hjr
  subst hi; subst hjr
  have hs := congrArg Name.seeds hne
  simp only at hs
  have h0 := congrArg (fun l => l[0]?) hs
  simp only [List.getElem?_map] at h0
  rw [List.getElem?_range hbi] at h0
  simp only [Option.map_some] at h0
  cases hr : (List.range (cs[j]).nblocks)[0]? with
  | none => rw [hr] at h0; simp at h0
  | some k =>
    rw [hr] at h0
    simp only [Option.map_some, Option.some.injEq] at h0
    have := child_injective g h0
    have hlt := totalBlocks_take_lt cs i j hij (by omega)
    omega

/-- **unseeded_names_distinct**: generators created without a seed get fresh entropy; constructions from
    generators with different entropy have different names (each with at least one block). -/
theorem unseeded_names_distinct (g g' : SeedSeq) (c c' : Call) (he : g.entropy ≠ g'.entropy)
    (hb : 0 < c.nblocks) : (wrapCall g c).1.2 ≠ (wrapCall g' c').1.2 := by
  intro h
  simp only [wrapCall, spawn_eq] at h
  have hs := congrArg Name.seeds h
  simp only at hs
  have h0 := congrArg (fun l => l[0]?) hs
  simp only [List.getElem?_map] at h0
  rw [List.getElem?_range hb] at h0
  simp only [Option.map_some] at h0
  cases hr : (List.range c'.nblocks)[0]? with
  | none => rw [hr] at h0; simp at h0
  | some k =>
    rw [hr] at h0
    simp only [Option.map_some, Option.some.injEq, child, SeedSeq.mk.injEq] at h0
    exact he h0.1

/-! ### RandomState -/

def allWindows (rs : List (List (Nat × Nat))) : List (Nat × Nat) := rs.flatten

theorem allWindows_runCallsRS (s : RS) (cs : List Call) :
    allWindows (runCallsRS s cs).1 = (List.range (totalBlocks cs)).map (fun i => (s.seed, s.pos + i)) ∧
    (runCallsRS s cs).2 = { s with pos := s.pos + totalBlocks cs } := by
  induction cs generalizing s with
  | nil => simp [runCallsRS, allWindows, totalBlocks]
  | cons c cs ih =>
    obtain ⟨ih1, ih2⟩ := ih { s with pos := s.pos + c.nblocks }
    simp only [runCallsRS, stateData]
    constructor
    · simp only [allWindows, List.flatten_cons] at ih1 ⊢
      rw [ih1]
      simp only [totalBlocks, List.map_cons, List.sum_cons]
      rw [List.range_add, List.map_append, List.map_map]
      congr 1
      apply List.map_congr_left
      intro i _
      simp [Nat.add_assoc]
    · rw [ih2]; simp [totalBlocks, Nat.add_assoc]

/-- **rs_windows_nodup**: every block of every construction from one `RandomState` reads its own window
    of the generator's stream. -/
theorem rs_windows_nodup (s : RS) (cs : List Call) : (allWindows (runCallsRS s cs).1).Nodup := by
  rw [(allWindows_runCallsRS s cs).1]
  apply List.Nodup.map _ List.nodup_range
  intro i j h
  simp only [Prod.mk.injEq, true_and] at h
  omega

/-! ### choice -/

/-- **choice_no_replace_single_chunk**: when `_choice_validate_params` accepts `replace=False`, the output
    has a single chunk, so distinctness of the drawn elements is NumPy's single-call guarantee. -/
theorem choice_no_replace_single_chunk (n m : Nat) (h : choiceGuard false n = some m) : m = n ∧ n ≤ 1 := by
  unfold choiceGuard at h
  by_cases hn : n > 1
  · simp [hn] at h
  · simp [hn] at h; exact ⟨h.symm, by omega⟩

theorem choice_multi_chunk_rejected (n : Nat) (h : 1 < n) : choiceGuard false n = none := by
  simp [choiceGuard, h]

/-- non-vacuity: three constructions with 2, 3 and 1 blocks from a generator that already spawned 4 children -/
example : ((runCalls ⟨7, [], 4⟩ [⟨0, 2, 0⟩, ⟨1, 3, 1⟩, ⟨0, 1, 0⟩]).1.map fun r => r.1.map (·.spawnKey))
    = [[[4], [5]], [[6], [7], [8]], [[9]]] := by decide


/-! ### one generator, many calls -/

theorem runCalls_mem_seeds (g : SeedSeq) (cs : List Call) :
    ∀ r ∈ (runCalls g cs).1, r.2.seeds = r.1 ∧ ∀ s ∈ r.1, s ∈ allSeeds (runCalls g cs).1 := by
  induction cs generalizing g with
  | nil => intro r hr; simp [runCalls] at hr
  | cons c cs ih =>
    intro r hr
    simp only [runCalls, wrapCall, spawn_eq, List.mem_cons] at hr
    simp only [runCalls, wrapCall, spawn_eq, allSeeds, List.map_cons, List.flatten_cons, List.mem_append]
    rcases hr with rfl | hr
    · exact ⟨rfl, fun s hs => Or.inl hs⟩
    · obtain ⟨h1, h2⟩ := ih _ r hr
      exact ⟨h1, fun s hs => Or.inr (h2 s hs)⟩

/-- **names_nodup**: the names of ALL constructions made from one generator (each with at least one block) are
    pairwise distinct — whatever the functions and arguments, in particular for identical successive calls. -/
theorem names_nodup (g : SeedSeq) (cs : List Call) (h : ∀ c ∈ cs, 0 < c.nblocks) :
    ((runCalls g cs).1.map (·.2)).Nodup := by
  induction cs generalizing g with
  | nil => simp [runCalls]
  | cons c cs ih =>
    have hc : 0 < c.nblocks := h c (List.mem_cons_self)
    have ih' := ih { g with nChildren := g.nChildren + c.nblocks } (fun c' hc' => h c' (List.mem_cons_of_mem _ hc'))
    simp only [runCalls, wrapCall, spawn_eq, List.map_cons, List.nodup_cons]
    refine ⟨?_, ih'⟩
    intro hmem
    obtain ⟨r, hr, hrn⟩ := List.mem_map.mp hmem
    obtain ⟨h1, h2⟩ := runCalls_mem_seeds _ cs r hr
    have hs : r.1 = (List.range c.nblocks).map (child g) := by
      rw [← h1, hrn]
    have h0 : child g 0 ∈ r.1 := by
      rw [hs]; exact List.mem_map.mpr ⟨0, List.mem_range.mpr hc, rfl⟩
    have := h2 _ h0
    rw [(allSeeds_runCalls _ cs).1] at this
    obtain ⟨i, _, hi⟩ := List.mem_map.mp this
    rw [child_shift] at hi
    have := child_injective g hi
    omega

/-- **successive_identical_calls_distinct**: the same call (same function, same arguments) made `n` times in a row
    on one generator gives `n` pairwise distinct names. -/
theorem successive_identical_calls_distinct (g : SeedSeq) (c : Call) (n : Nat) (hc : 0 < c.nblocks) :
    ((runCalls g (List.replicate n c)).1.map (·.2)).Nodup :=
  names_nodup g _ (fun c' hc' => by rw [List.eq_of_mem_replicate hc']; exact hc)

/-- the spawn bookkeeping of a history is that of its calls: `permutation` does not touch the SeedSequence -/
theorem runHist_calls (g : Gen) (os : List Op) :
    histNames (runHist g os).1 = (runCalls g.ss (callsOf os)).1.map (·.2) ∧
    (runHist g os).2.ss = (runCalls g.ss (callsOf os)).2 := by
  induction os generalizing g with
  | nil => simp [runHist, histNames, callsOf, runCalls]
  | cons o os ih =>
    cases o with
    | call c =>
      obtain ⟨i1, i2⟩ := ih { g with ss := (wrapCall g.ss c).2 }
      simp only [runHist, stepGen, histNames, callsOf, runCalls, List.map_cons]
      exact ⟨by rw [i1], by rw [i2]⟩
    | perm =>
      obtain ⟨i1, i2⟩ := ih { g with draws := g.draws + 1 }
      simp only [runHist, stepGen, histNames, callsOf]
      exact ⟨i1, i2⟩

/-- **history_names_nodup**: in any history of calls on ONE generator object (distributions, `choice`, interleaved
    `permutation`s) all array names are pairwise distinct. -/
theorem history_names_nodup (g : Gen) (os : List Op) (h : ∀ c ∈ callsOf os, 0 < c.nblocks) :
    (histNames (runHist g os).1).Nodup := by
  rw [(runHist_calls g os).1]
  exact names_nodup g.ss _ h

theorem permPositions_runHist (g : Gen) (os : List Op) :
    ∀ p ∈ permPositions (runHist g os).1, g.draws ≤ p := by
  induction os generalizing g with
  | nil => intro p hp; simp [runHist, permPositions] at hp
  | cons o os ih =>
    intro p hp
    cases o with
    | call c =>
      simp only [runHist, stepGen, permPositions] at hp
      have := ih _ p hp
      simpa using this
    | perm =>
      simp only [runHist, stepGen, permPositions, List.mem_cons] at hp
      rcases hp with rfl | hp
      · exact Nat.le_refl _
      · have := ih _ p hp
        simp only at this
        omega

/-- **perm_positions_nodup**: successive `permutation` calls on one generator consume different parts of its stream. -/
theorem perm_positions_nodup (g : Gen) (os : List Op) : (permPositions (runHist g os).1).Nodup := by
  induction os generalizing g with
  | nil => simp [runHist, permPositions]
  | cons o os ih =>
    cases o with
    | call c =>
      simp only [runHist, stepGen, permPositions]
      exact ih _
    | perm =>
      simp only [runHist, stepGen, permPositions, List.nodup_cons]
      refine ⟨?_, ih _⟩
      intro hm
      have := permPositions_runHist _ os _ hm
      simp only at this
      omega

/-- `firstIndex` of a duplicate-free list is `0, 1, 2, …`: what the driver reports for a history -/
theorem firstIndex_of_nodup {α : Type} [DecidableEq α] (xs : List α) (h : xs.Nodup) :
    firstIndex xs = List.range xs.length := by
  apply List.ext_getElem
  · simp [firstIndex]
  · intro i h1 h2
    simp only [firstIndex, List.getElem_map, List.getElem_range]
    exact List.Nodup.idxOf_getElem h i _

/-! ### RandomState -/

theorem histRS_windows (s : RS) (cs : List Call) :
    (histRS s cs).1.map (·.1) = (runCallsRS s cs).1 ∧ (histRS s cs).2 = (runCallsRS s cs).2 ∧
    ∀ r ∈ (histRS s cs).1, r.2.windows = r.1 := by
  induction cs generalizing s with
  | nil => simp [histRS, runCallsRS]
  | cons c cs ih =>
    obtain ⟨i1, i2, i3⟩ := ih (stateData s c.nblocks).2
    simp only [histRS, runCallsRS, List.map_cons]
    refine ⟨by rw [i1], i2, ?_⟩
    intro r hr
    rcases List.mem_cons.mp hr with rfl | hr
    · rfl
    · exact i3 r hr

/-- **rs_names_nodup**: the same for one `RandomState`: every construction reads fresh windows, so names differ. -/
theorem rs_names_nodup (s : RS) (cs : List Call) (h : ∀ c ∈ cs, 0 < c.nblocks) :
    ((histRS s cs).1.map (·.2)).Nodup := by
  induction cs generalizing s with
  | nil => simp [histRS]
  | cons c cs ih =>
    have hc : 0 < c.nblocks := h c (List.mem_cons_self)
    have ih' := ih (stateData s c.nblocks).2 (fun c' hc' => h c' (List.mem_cons_of_mem _ hc'))
    simp only [histRS, List.map_cons, List.nodup_cons]
    refine ⟨?_, ih'⟩
    intro hmem
    obtain ⟨r, hr, hrn⟩ := List.mem_map.mp hmem
    obtain ⟨i1, _, i3⟩ := histRS_windows (stateData s c.nblocks).2 cs
    have hw : r.1 = (stateData s c.nblocks).1 := by rw [← i3 r hr, hrn]
    have h0 : (s.seed, s.pos + 0) ∈ r.1 := by
      rw [hw]; exact List.mem_map.mpr ⟨0, List.mem_range.mpr hc, rfl⟩
    have hin : (s.seed, s.pos + 0) ∈ allWindows (runCallsRS (stateData s c.nblocks).2 cs).1 := by
      rw [← i1]
      exact List.mem_flatten.mpr ⟨r.1, List.mem_map.mpr ⟨r, hr, rfl⟩, h0⟩
    rw [(allWindows_runCallsRS _ cs).1] at hin
    obtain ⟨i, _, hi⟩ := List.mem_map.mp hin
    simp only [stateData, Prod.mk.injEq, true_and] at hi
    omega

/-! ### the refuted variant: naming the array after the children's ENTROPY only -/

/-- `name = tokenize([child._seed_seq.entropy for child in bitgens], size, chunks, …)`: children of one
    SeedSequence share the parent's entropy, so this name forgets which children were spawned. -/
def wrapCallEntropyName (g : SeedSeq) (c : Call) : (List SeedSeq × Name) × SeedSeq :=
  let (kids, g') := spawn g c.nblocks
  ((kids, ⟨c.func, kids.map fun k => ⟨k.entropy, [], 0⟩, c.params⟩), g')

/-- **entropy_only_name_collides**: with that naming, two identical successive calls on one generator get the SAME
    name although they embed different seeds — the property `same_generator_names_distinct` fails. -/
theorem entropy_only_name_collides (g : SeedSeq) (c : Call) :
    (wrapCallEntropyName g c).1.2 = (wrapCallEntropyName (wrapCallEntropyName g c).2 c).1.2 ∧
    (0 < c.nblocks → (wrapCallEntropyName g c).1.1 ≠ (wrapCallEntropyName (wrapCallEntropyName g c).2 c).1.1) := by
  constructor
  · simp [wrapCallEntropyName, spawn_eq, child]
  · intro hc h
    simp only [wrapCallEntropyName, spawn_eq] at h
    have h0 := congrArg (fun l => l[0]?) h
    simp only [List.getElem?_map, List.getElem?_range hc, Option.map_some, Option.some.injEq] at h0
    rw [child_shift] at h0
    have := child_injective g h0
    omega

/-- non-vacuity: `normal, permutation, choice, choice, permutation` on a fresh generator -/
example : (runHist ⟨⟨7, [], 0⟩, 0⟩ [.call ⟨0, 2, 0⟩, .perm, .call ⟨1, 1, 5⟩, .call ⟨1, 1, 5⟩, .perm]).1.map
    (fun | .arr s _ => s.map (·.spawnKey) | .perm p => [[100 + p]]) = [[[0], [1]], [[100]], [[2]], [[3]], [[101]]] := by decide

end Dask.C28
