import DaskModel.Model.BoolDaskMask
import DaskModel.Lemmas.ChunksBlocks
import DaskModel.Lemmas.UnifyPost
/-
C20 extension (last round): a 1-d dask boolean mask on a 1-d dask array — `slice_with_bool_dask_array`.
Every chunking of the array and of the mask (zero-length chunks included), no bound.
-/
namespace Dask.BoolDaskMask
open Dask.Chunks Dask.Elemwise

theorem pick_take_drop {α : Type} : ∀ (c : Nat) (x : List α) (m : List Bool),
    pick (x.take c) (m.take c) ++ pick (x.drop c) (m.drop c) = pick x m
  | 0, x, m => by simp [pick]
  | _ + 1, [], m => by simp [pick]
  | _ + 1, _ :: _, [] => by simp [pick]
  | c + 1, a :: x, b :: m => by
    have ih := pick_take_drop c x m
    unfold pick at ih ⊢
    cases b <;> simpa using ih

theorem pick_length {α : Type} : ∀ (x : List α) (m : List Bool), x.length = m.length →
    (pick x m).length = m.count true
  | [], [], _ => by simp [pick]
  | [], _ :: _, h => by simp at h
  | _ :: _, [], h => by simp at h
  | a :: x, b :: m, h => by
    have ih := pick_length x m (by simpa using h)
    unfold pick at ih ⊢
    cases b <;> simp [List.zip_cons_cons, ih]

theorem sum_eq (cs : List Nat) : Dask.Chunks.sum cs = cs.sum := by
  induction cs with
  | nil => rfl
  | cons c cs ih => simp [Dask.Chunks.sum] at ih ⊢; omega

/-- **the concatenated output blocks are NumPy's `x[mask]`**: for every unified chunking `U` of the axis, the blocks
    `getitem(x_block, mask_block)` in block order, concatenated, are the elements of `x` at the true positions of the
    mask, in order. -/
theorem bool_dask_mask_flat {α : Type} : ∀ (U : List Nat) (x : List α) (m : List Bool),
    x.length = U.sum → m.length = U.sum → (maskPlan U x m).flatten = pick x m
  | [], x, m, hx, hm => by
    have hx' : x = [] := List.length_eq_zero_iff.mp (by simpa using hx)
    have hm' : m = [] := List.length_eq_zero_iff.mp (by simpa using hm)
    subst hx'; subst hm'; simp [maskPlan, splitBy, pick]
  | c :: U, x, m, hx, hm => by
    have ih := bool_dask_mask_flat U (x.drop c) (m.drop c) (by simp at hx ⊢; omega) (by simp at hm ⊢; omega)
    unfold maskPlan at ih ⊢
    simp only [splitBy, List.zipWith_cons_cons, List.flatten_cons]
    rw [ih, pick_take_drop]

/-- **one output block per block of the unified chunking; block `b` is the mask applied to the region of block `b`**,
    and its length — the true chunk size behind the lazy `nan` — is the number of true entries of the mask there. -/
theorem bool_dask_mask_blocks {α : Type} (U : List Nat) (x : List α) (m : List Bool)
    (hx : x.length = U.sum) (hm : m.length = U.sum) :
    (maskPlan U x m).length = U.length ∧
    ∀ b c, U[b]? = some c →
      (maskPlan U x m)[b]? =
        some (pick ((x.drop (blockStart U b)).take c) ((m.drop (blockStart U b)).take c)) ∧
      (pick ((x.drop (blockStart U b)).take c) ((m.drop (blockStart U b)).take c)).length =
        ((m.drop (blockStart U b)).take c).count true := by
  have hlen : ∀ {β : Type} (U : List Nat) (y : List β), (splitBy U y).length = U.length := by
    intro β U
    induction U with
    | nil => intro y; simp [splitBy]
    | cons c U ih => intro y; simp [splitBy, ih]
  refine ⟨by simp [maskPlan, hlen], ?_⟩
  intro b c hb
  have hbl : b < U.length := by
    rcases List.getElem?_eq_some_iff.mp hb with ⟨h, _⟩; exact h
  have hxb := splitBy_getD U x b c hb
  have hmb := splitBy_getD U m b c hb
  have hxs : (splitBy U x)[b]? = some ((x.drop (blockStart U b)).take c) := by
    have : b < (splitBy U x).length := by rw [hlen]; exact hbl
    rw [List.getD_eq_getElem?_getD, List.getElem?_eq_getElem this] at hxb
    rw [List.getElem?_eq_getElem this]; simpa using hxb
  have hms : (splitBy U m)[b]? = some ((m.drop (blockStart U b)).take c) := by
    have : b < (splitBy U m).length := by rw [hlen]; exact hbl
    rw [List.getD_eq_getElem?_getD, List.getElem?_eq_getElem this] at hmb
    rw [List.getElem?_eq_getElem this]; simpa using hmb
  refine ⟨by simp [maskPlan, List.getElem?_zipWith, hxs, hms], ?_⟩
  apply pick_length
  have hs : blockStart U b + c ≤ U.sum := by
    have h1 : U = U.take b ++ c :: U.drop (b + 1) := by
      have := List.getElem?_eq_some_iff.mp hb
      rcases this with ⟨h, he⟩
      rw [← he]; simp
    have h2 : U.sum = (U.take b).sum + (c + (U.drop (b + 1)).sum) := by
      conv => lhs; rw [h1]
      simp
    unfold blockStart; rw [sum_eq]; omega
  simp [List.length_take, List.length_drop]; omega

/-- **the helper as a whole**: a mask whose length differs from the axis is rejected (IndexError, as NumPy); an
    accepted call unifies to a chunking `U` of the same total, produces `len(U)` blocks and their concatenation is
    NumPy's `x[mask]`. -/
theorem bool_dask_mask_den {α : Type} (cs ms : List Nat) (x : List α) (m : List Bool)
    (hcs : cs ≠ []) (hms : ms ≠ []) (hx : x.length = cs.sum) (hm : m.length = ms.sum) :
    (ms.sum ≠ cs.sum → maskBlocks cs ms x m = none) ∧
    ∀ U bs, maskBlocks cs ms x m = some (U, bs) →
      U.sum = cs.sum ∧ bs.length = U.length ∧ bs.flatten = pick x m := by
  refine ⟨fun h => by simp [maskBlocks, h], ?_⟩
  intro U bs h
  unfold maskBlocks at h
  split at h
  · cases h
  · rename_i hsum
    have hsum' : ms.sum = cs.sum := by simpa using hsum
    split at h
    · cases h
    · rename_i U' hU
      simp only [Option.some.injEq, Prod.mk.injEq] at h
      obtain ⟨hUU, hbs⟩ := h
      have hmem : ∀ y ∈ [cs, ms].eraseDups, y ≠ [] ∧ y.sum = cs.sum := by
        intro y hy
        have hy' := List.mem_eraseDups.mp hy
        simp at hy'
        rcases hy' with rfl | rfl
        · exact ⟨hcs, rfl⟩
        · exact ⟨hms, hsum'⟩
      have hne : [cs, ms].eraseDups ≠ [] := by
        intro he
        have : cs ∈ [cs, ms].eraseDups := List.mem_eraseDups.mpr (by simp)
        rw [he] at this; cases this
      have hU' := Dask.UnifyPost.commonBlockdim_sum _ cs.sum U' hne hmem hU
      have hxU : x.length = U'.sum := by rw [hU'.2]; exact hx
      have hmU : m.length = U'.sum := by rw [hU'.2, ← hsum']; exact hm
      rw [← hbs, ← hUU]
      exact ⟨hU'.2, (bool_dask_mask_blocks U' x m hxU hmU).1, bool_dask_mask_flat U' x m hxU hmU⟩

end Dask.BoolDaskMask
