import DaskModel.Model.TextBlocks
import DaskModel.Lemmas.TextSeek
import DaskModel.Lemmas.TextOffsets
import DaskModel.Lemmas.TextSplit
import DaskModel.Lemmas.TextLines
import DaskModel.Lemmas.Round53
/-! # C50 — block-wise text reading reproduces the file exactly (theorems)

Statement: for any file contents, delimiter and blocksize, the blocks from `read_bytes` concatenate to
the file contents, and every block boundary falls just after a delimiter. `read_text` returns the same
lines for every blocksize (including none) … Those lines equal the file split after each delimiter,
with no empty trailing element.

Model: `DaskModel/Model/TextBlocks.lean`; helper lemmas: `DaskModel/Lemmas/Text*.lean`. -/
namespace Dask.C50
open Dask.TextBlocks

/-! ## 1. offsets and lengths (`read_bytes`) -/

/-- `offsets_cover`: for every non-empty file and positive blocksize the planned offsets start at 0 and
    strictly increase, the lengths are positive, as many as the offsets, and sum to the file size.
    Stated for any double arithmetic that is monotone, exact on integers ≤ 2^53, exact when doubling and
    never rounds a quotient below an integer lower bound (`GoodArith`); file size < 2^53. -/
theorem offsets_cover (A : FArith) (hA : GoodArith A) (size bs : Nat) (hs : 0 < size) (hb : 0 < bs)
    (hsz : size < 2 ^ 53) :
    ∃ offs lens, plan A size bs = some (offs, lens) ∧ offs.head? = some 0 ∧ offs.Pairwise (· < ·) ∧
      (∀ o ∈ offs, o < size) ∧ lens.length = offs.length ∧ (∀ l ∈ lens, 0 < l) ∧ lens.sum = size := by
  obtain ⟨offs, ho, h0, hpw, hlt⟩ := offsets_planOK A hA size bs hs hb hsz
  refine ⟨offs, lengthsOf size offs, by simp [plan, ho], h0, hpw, hlt, lengthsOf_length _ _,
    lengthsOf_pos size offs hpw hlt, ?_⟩
  cases offs with
  | nil => simp at h0
  | cons o rest =>
    have : o = 0 := by simpa using h0
    subst this
    simpa using lengthsOf_sum size 0 rest hpw hlt

/-- the int branch (`size % blocksize = 0` or `size ≤ blocksize`) needs no assumption on the arithmetic
    and no bound on the file size -/
theorem offsets_cover_int (A : FArith) (size bs : Nat) (hs : 0 < size) (hb : 0 < bs)
    (hint : size % bs = 0 ∨ size ≤ bs) :
    ∃ offs, offsets A size bs = some offs ∧ PlanOK size offs := by
  unfold offsets
  simp only [show size ≠ 0 by omega, show bs ≠ 0 by omega, if_false]
  have : ¬ (size % bs ≠ 0 ∧ bs < size) := by omega
  simp only [this, if_false]
  obtain ⟨h1, h2⟩ := loopInt_ok size bs hb (size + 1) 0
  refine ⟨_, rfl, rfl, h1, ?_⟩
  intro o ho
  rcases List.mem_cons.mp ho with rfl | ho
  · exact hs
  · exact (h2 o ho).2

/-- …and in the int branch the last block is shorter than two block sizes (the loop ended because its
    condition failed, not because the model's fuel ran out) -/
theorem offsets_int_last (A : FArith) (size bs : Nat) (hs : 0 < size) (hb : 0 < bs)
    (hint : size % bs = 0 ∨ size ≤ bs) :
    ∀ offs x, offsets A size bs = some offs → offs.getLast? = some x → size < x + 2 * bs := by
  intro offs x ho hx
  unfold offsets at ho
  simp only [show size ≠ 0 by omega, show bs ≠ 0 by omega, if_false] at ho
  have : ¬ (size % bs ≠ 0 ∧ bs < size) := by omega
  simp only [this, if_false, Option.some.injEq] at ho
  subst ho
  refine loopInt_last size bs hb (size + 1) 0 ?_ x hx
  have : size + 1 ≤ (size + 1) * bs := Nat.le_mul_of_pos_right _ hb
  omega

example : plan ieee 39 4 = some ([0, 4, 8, 13, 17, 21, 25, 30, 34], [4, 4, 5, 4, 4, 4, 5, 4, 5]) := by decide +kernel
example : plan ieee 10 5 = some ([0, 5], [5, 5]) := by decide +kernel

/-! ## 2. the blocks concatenate to the file; boundaries fall just after a delimiter -/

/-- `blocks_concat_file`: for every file content, every non-empty delimiter and every blocksize
    (including none) the blocks `read_bytes` produces concatenate to the file content. -/
theorem blocks_concat_file (A : FArith) (hA : GoodArith A) (data d : List Nat) (hd : d ≠ [])
    (bs : Option Nat) (hb : ∀ b, bs = some b → 0 < b) (hsz : data.length < 2 ^ 53) :
    ∃ blocks, fileBlocks A data d bs = some blocks ∧ blocks.flatten = data := by
  cases bs with
  | none => exact ⟨[data], by simp [fileBlocks, readBlockFromFile], by simp⟩
  | some b =>
    have hb' := hb b rfl
    by_cases hs : data.length = 0
    · have : data = [] := List.length_eq_zero_iff.mp hs
      subst this
      exact ⟨[], by simp [fileBlocks, plan, offsets, lengthsOf], rfl⟩
    · obtain ⟨offs, ho, h0, hpw, hlt⟩ := offsets_planOK A hA data.length b (by omega) hb' hsz
      refine ⟨blocksOf data d offs, by simp [fileBlocks, plan, ho, blocksOf], ?_⟩
      cases offs with
      | nil => simp at h0
      | cons o rest =>
        have : o = 0 := by simpa using h0
        subst this
        rw [blocksOf_flatten hd rest 0 hpw hlt, seekPos_zero]; rfl

/-- `boundary_after_delimiter`: the position `seek_delimiter` moves to from an offset `pos > 0` is either
    the end of the file or directly after the first occurrence of the delimiter starting at or after
    `pos` — so the bytes just before every interior block boundary are the delimiter. -/
theorem boundary_after_delimiter (d data : List Nat) (pos : Nat) (h0 : 0 < pos) (hp : pos ≤ data.length)
    (hin : seekPos d data pos < data.length) : d <:+ data.take (seekPos d data pos) := by
  rcases seekPos_spec (d := d) h0 hp with ⟨q, _, hq, hpre, _⟩ | ⟨hlen, _⟩
  · rw [hq]
    obtain ⟨r, hr⟩ := hpre
    have hql : q + d.length ≤ data.length := by
      have := congrArg List.length hr
      simp only [List.length_append, List.length_drop] at this; omega
    refine ⟨data.take q, ?_⟩
    have h1 : data.take (q + d.length) = data.take q ++ (data.drop q).take d.length := by
      rw [List.take_add]
    rw [h1, ← hr]; simp
  · omega

/-- each block is the slice of the file between two consecutive boundaries -/
theorem block_eq_slice (data d : List Nat) (hd : d ≠ []) (offs : List Nat) (hpw : offs.Pairwise (· < ·))
    (hlt : ∀ o ∈ offs, o < data.length) (i : Nat) (o : Nat) (hi : offs[i]? = some o) :
    (blocksOf data d offs)[i]? =
      some ((data.drop (seekPos d data o)).take
        (seekPos d data ((offs[i + 1]?).getD data.length) - seekPos d data o)) := by
  induction offs generalizing i with
  | nil => simp at hi
  | cons a rest ih =>
    cases rest with
    | nil =>
      cases i with
      | zero =>
        have : a = o := by simpa using hi
        subst this
        have ha := hlt a (by simp)
        simp only [blocksOf, lengthsOf, List.zip_cons_cons, List.zip_nil_right, List.map_cons, List.map_nil,
          List.getElem?_cons_zero, Option.some.injEq]
        rw [readBlockFromFile_some hd (by omega)]
        simp [show a + (data.length - a) = data.length by omega]
      | succ i => simp at hi
    | cons a' rest =>
      have haa' : a < a' := (List.pairwise_cons.mp hpw).1 a' (by simp)
      have ha' : a' < data.length := hlt a' (by simp)
      rw [blocksOf_cons_cons]
      cases i with
      | zero =>
        have : a = o := by simpa using hi
        subst this
        simp only [List.getElem?_cons_zero, Option.some.injEq]
        rw [readBlockFromFile_some hd (by omega)]
        simp [show a + (a' - a) = a' by omega]
      | succ i =>
        simp only [List.getElem?_cons_succ] at hi ⊢
        exact ih (List.pairwise_cons.mp hpw).2 (fun x hx => hlt x (List.mem_cons_of_mem _ hx)) i hi

/-! ## 3. lines: `decode`, `file_to_blocks` and the reference split -/

/-- `decode` (and `file_to_blocks`, which is the same function of the text after the repair of #10)
    returns exactly the reference: the text split after each delimiter, empty trailing part dropped. -/
theorem decode_eq_refLines (d t : List Nat) (hd : d ≠ []) : decode d t = refLines d t := by
  have hde : d.isEmpty = false := by cases d <;> simp_all
  unfold decode refLines
  cases t with
  | nil => simp [pySplit, hde, pySplitAux, lastPart]
  | cons c cs => simp

theorem fileToBlocks_eq_refLines (d t : List Nat) (hd : d ≠ []) : fileToBlocks d t = refLines d t :=
  decode_eq_refLines d t hd

theorem decode_eq_lines (d t : List Nat) (hd : d ≠ []) : decode d t = some (lines d t) := by
  have hde : d.isEmpty = false := by cases d <;> simp_all
  rw [decode_eq_refLines d t hd]
  simp [refLines, pySplit, hde, lines, linesAux, joinLines]

/-- nothing is lost and nothing invented: the lines concatenate to the text -/
theorem decode_flatten (d t : List Nat) (hd : d ≠ []) :
    ∃ ls, decode d t = some ls ∧ ls.flatten = t := by
  refine ⟨lines d t, decode_eq_lines d t hd, ?_⟩
  simpa [lines] using linesAux_flatten hd [] t

/-- `no_trailing_empty`: no line is empty — in particular there is no empty trailing element -/
theorem decode_no_empty_line (d t : List Nat) (hd : d ≠ []) :
    ∀ ls, decode d t = some ls → ∀ l ∈ ls, l ≠ [] := by
  intro ls hls
  rw [decode_eq_lines d t hd] at hls
  cases hls
  exact joinLines_ne_nil hd _

/-- every line but the last ends with the delimiter -/
theorem decode_lines_end_with_delimiter (d t : List Nat) (hd : d ≠ []) :
    ∀ ls, decode d t = some ls → ∀ l ∈ ls.dropLast, d <:+ l := by
  intro ls hls
  rw [decode_eq_lines d t hd] at hls
  cases hls
  exact joinLines_suffix d _

example : decode [124, 124] [97, 124, 124, 98, 124, 124] = some [[97, 124, 124], [98, 124, 124]] := by decide
example : decode [124] [97, 124, 98] = some [[97, 124], [98]] := by decide

/-! ## 3b. `read_text`: the lines do not depend on the blocksize (border-free delimiters) -/

theorem mapM_decode (d : List Nat) (hd : d ≠ []) (blocks : List (List Nat)) :
    blocks.mapM (decode d) = some (blocks.map (lines d)) := by
  induction blocks with
  | nil => rfl
  | cons b bs ih => simp [List.mapM_cons, decode_eq_lines d b hd, ih]

/-- **`lines_blocksize_independent`**: for a BORDER-FREE delimiter (no proper non-empty prefix of it is
    also a suffix: every single byte, `\r\n`, `ab`, `abc`, …), every file content and every blocksize,
    `read_text` returns the same lines as with `blocksize=None`, and those are the file split after each
    delimiter with no empty trailing element (`refLines`).
    (For delimiters WITH a border the statement is false: `lines_blocksize_independent_refuted`.) -/
theorem lines_blocksize_independent (A : FArith) (hA : GoodArith A) (d data : List Nat) (hd : d ≠ [])
    (hbf : BorderFree d) (b : Nat) (hb : 0 < b) (hsz : data.length < 2 ^ 53) :
    readTextLines A d data (some b) = readTextLines A d data none ∧
    readTextLines A d data none = refLines d data := by
  have hnone : readTextLines A d data none = some (lines d data) := by
    simp only [readTextLines, fileToBlocks]; exact decode_eq_lines d data hd
  refine ⟨?_, by rw [hnone, ← decode_eq_refLines d data hd, decode_eq_lines d data hd]⟩
  rw [hnone]
  by_cases hs : data.length = 0
  · have : data = [] := List.length_eq_zero_iff.mp hs
    subst this
    simp [readTextLines, fileBlocks, plan, offsets, lengthsOf, lines, linesAux_nil]
  · obtain ⟨offs, ho, h0, hpw, hlt⟩ := offsets_planOK A hA data.length b (by omega) hb hsz
    have hfb : fileBlocks A data d (some b) = some (blocksOf data d offs) := by
      simp [fileBlocks, plan, ho, blocksOf]
    simp only [readTextLines, hfb, Option.bind_eq_bind, Option.bind_some, mapM_decode d hd]
    cases offs with
    | nil => simp at h0
    | cons o rest =>
      have : o = 0 := by simpa using h0
      subst this
      have := blocksOf_lines hd hbf rest 0 hpw hlt
      rw [seekPos_zero, List.drop_zero] at this
      simp only [Option.pure_def, Option.some.injEq]
      rw [← this, List.flatMap_def]

example : BorderFree [13, 10] := by unfold BorderFree; decide
example : BorderFree [124] := by unfold BorderFree; decide
example : ¬ BorderFree [97, 97] := by unfold BorderFree; decide

/-! ## 3c. the same for the real arithmetic

`ieee_good : GoodArith ieee` (Lemmas/Round53.lean) discharges the assumption on the double arithmetic:
the fixed-point model of IEEE round-to-nearest-even that the harness diffs against CPython satisfies it. -/

/-- `offsets_cover` for IEEE doubles: every file of 1 … 2^53 − 1 bytes, every blocksize ≥ 1 -/
theorem offsets_cover_ieee (size bs : Nat) (hs : 0 < size) (hb : 0 < bs) (hsz : size < 2 ^ 53) :
    ∃ offs lens, plan ieee size bs = some (offs, lens) ∧ offs.head? = some 0 ∧ offs.Pairwise (· < ·) ∧
      (∀ o ∈ offs, o < size) ∧ lens.length = offs.length ∧ (∀ l ∈ lens, 0 < l) ∧ lens.sum = size :=
  offsets_cover ieee ieee_good size bs hs hb hsz

theorem blocks_concat_file_ieee (data d : List Nat) (hd : d ≠ []) (bs : Option Nat)
    (hb : ∀ b, bs = some b → 0 < b) (hsz : data.length < 2 ^ 53) :
    ∃ blocks, fileBlocks ieee data d bs = some blocks ∧ blocks.flatten = data :=
  blocks_concat_file ieee ieee_good data d hd bs hb hsz

theorem lines_blocksize_independent_ieee (d data : List Nat) (hd : d ≠ []) (hbf : BorderFree d) (b : Nat)
    (hb : 0 < b) (hsz : data.length < 2 ^ 53) :
    readTextLines ieee d data (some b) = readTextLines ieee d data none ∧
    readTextLines ieee d data none = refLines d data :=
  lines_blocksize_independent ieee ieee_good d data hd hbf b hb hsz

/-! ## 4. refutation witnesses (statements that are / were false of the code) -/

/-- DESIGN §6 #11 (finding): with the self-overlapping delimiter `aa` the lines of `aaab` depend on
    the blocksize: blocksize 1 gives `aa | a | b`, blocksize None gives `aa | ab`. -/
theorem lines_blocksize_independent_refuted :
    ¬ (∀ (d data : List Nat) (b : Nat), d ≠ [] → 0 < b →
        readTextLines ieee d data (some b) = readTextLines ieee d data none) := by
  intro h
  have := h [97, 97] [97, 97, 97, 98] 1 (by decide) (by decide)
  revert this
  decide

/-- DESIGN §6 #10 (repaired by 7fec26d): the ORIGINAL `file_to_blocks` returned a trailing empty
    element for `a||b||`. -/
theorem fileToBlocksOrig_trailing_empty :
    fileToBlocksOrig [124, 124] [97, 124, 124, 98, 124, 124] = some [[97, 124, 124], [98, 124, 124], []] := by
  decide

/-- (repaired by ece4d43): the ORIGINAL `decode` lost the trailing `a` of `aaa` split at `aa`. -/
theorem decodeOrig_drops_tail : decodeOrig [97, 97] [97, 97, 97] = some [[97, 97]] := by decide

end Dask.C50
